"""dev helper: run a plugin's run(ctx) without the proof step.  usage: devrun.py C03 [seed] [tier]"""
import sys, os, importlib, time, json
V = os.path.dirname(os.path.dirname(os.path.abspath(__file__)))
sys.path.insert(0, os.path.join(V, 'harness'))
import core
sys.path.insert(0, os.path.join(core.REPO, 'src'))
prop = sys.argv[1]; seed = int(sys.argv[2]) if len(sys.argv) > 2 else 0; tier = sys.argv[3] if len(sys.argv) > 3 else 'quick'
ctx = core.Ctx(prop, tier, seed)
try:
    pl = importlib.import_module('props.' + prop.lower())
    t0 = time.time(); pl.run(ctx)
    print('time', round(time.time() - t0, 1), 'streams', dict(ctx.streams), 'disagreements', ctx.stats.get('disagreements', 0), 'failures', len(ctx.failures), 'nontriv', len(ctx.nontrivial))
    for d in ctx.disagreements[:6]: print('DIS', json.dumps(d, default=repr)[:1500])
    for f in ctx.failures[:4]: print('FAIL', json.dumps(f, default=repr)[:1500])
    print({k: v for k, v in sorted(ctx.stats.items())})
finally:
    ctx.cleanup()
