#!/bin/bash
# tools/run_all.sh <quick|thorough> [seed]   -- runs every claimed check in this tree, prints one line per check
cd "$(dirname "$0")/.." || exit 2
TIER=${1:-quick}; export VERIF_SEED=${2:-0}
if [ ! -d lean/TD/.lake ]; then (cd lean/TD && lake build >/dev/null 2>&1; for i in $(seq -w 1 20); do lake build drv_c$i >/dev/null 2>&1; done); fi
for i in $(seq -w 1 20); do
  s=$(date +%s)
  out=$(./check C$i --tier $TIER 2>&1); rc=$?
  echo "C$i rc=$rc $(( $(date +%s) - s ))s | $(echo "$out" | grep -E 'VIOLATION|INFRA' | head -2 | cut -c1-160) | $(echo "$out" | grep -c KNOWN-FINDING) known-finding lines"
done
