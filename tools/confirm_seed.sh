#!/bin/bash
# tools/confirm_seed.sh <Cxx> <out-dir>   e.g. tools/confirm_seed.sh C02 /tmp/seed/C02_out6/1
# Confirms a seeded change independently of its author: (1) the full test suite passes with the patch applied in the scratch
# worktree /tmp/seed/<Cxx>; (2) tools/try_seed.sh: demo exit 0 clean / non-zero patched, ./check <Cxx> on a patched copy.
P=$1; D=$2
( cd /tmp/seed/$P && git checkout -q -- . && patch -s -p1 < $D/patch.diff && PYTHONPATH=/tmp/seed/$P/src /venv/bin/python -m pytest -q -p no:cacheprovider tests 2>&1 | tail -1 | sed 's/^/suite with patch: /'; git checkout -q -- . ) &
"$(dirname "$0")"/try_seed.sh $D $P 2>&1 | cut -c1-400 | tail -6
wait
