#!/bin/bash
# tools/mk_seed_wt.sh <name>  -> scratch git worktree /tmp/seed/<name> of /repo HEAD (with the untracked native extensions copied)
set -e
mkdir -p /tmp/seed
git -C /repo worktree add -q --detach /tmp/seed/$1 HEAD
cp /repo/src/TotalDepth/LIS/core/*.so /tmp/seed/$1/src/TotalDepth/LIS/core/
echo /tmp/seed/$1
