#!/bin/bash
# tools/run_seeds.sh <tier> <first seed> <last seed> <Cxx>...   -- one line per (check, seed)
cd "$(dirname "$0")/.." || exit 2
TIER=$1; A=$2; B=$3; shift 3
if [ ! -d lean/TD/.lake ]; then (cd lean/TD && lake build >/dev/null 2>&1; for i in $(seq -w 1 20); do lake build drv_c$i >/dev/null 2>&1; done); fi
for s in $(seq $A $B); do for p in "$@"; do
  t=$(date +%s); out=$(VERIF_SEED=$s ./check $p --tier $TIER 2>&1); rc=$?
  echo "$p seed=$s rc=$rc $(( $(date +%s) - t ))s | $(echo "$out" | grep -E 'VIOLATION|INFRA' | head -2 | cut -c1-200)"
done; done
