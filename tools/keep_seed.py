#!/venv/bin/python
"""tools/keep_seed.py <seed-out-dir> <Cxx> <id> <caught:yes|no> "<what I ran / observed>"  -> /verif/seeded/<id>/"""
import json, os, shutil, sys
src, prop, sid, caught, ran = sys.argv[1:6]
dst = f'/verif/seeded/{sid}'
os.makedirs(dst, exist_ok=True)
for f in os.listdir(src):
    shutil.copy(os.path.join(src, f), dst)
m = json.load(open(os.path.join(dst, 'meta.json')))
m.update({'property': prop, 'id': sid, 'caught_by_check': caught == 'yes', 'confirmed': ran})
json.dump(m, open(os.path.join(dst, 'meta.json'), 'w'), indent=1)
print('kept', dst)
