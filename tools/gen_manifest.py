#!/venv/bin/python
"""Regenerates /verif/MANIFEST.json from the table below and the plugins present in harness/props/."""
import json, os
V = os.path.dirname(os.path.dirname(os.path.abspath(__file__)))
ALL = [f'C{i:02d}' for i in range(1, 21)]

import importlib, sys
sys.path.insert(0, os.path.join(V, 'harness'))

def claims():
    out = {}
    for pid in ALL:
        if os.path.exists(os.path.join(V, 'harness', 'props', pid.lower() + '.py')):
            mod = importlib.import_module('props.' + pid.lower())
            c = getattr(mod, 'CLAIM', None)
            if c:
                out[pid] = (c['text'], c['note'], c['technique'], c.get('design_ref', f'DESIGN.md section 6 {pid}'))
    return out

def main():
    checks, na = [], []
    CLAIMS = claims()
    for pid in ALL:
        if pid in CLAIMS:
            text, note, tech, ref = CLAIMS[pid]
            checks.append({
                'property_id': pid,
                'quick_cmd': f'./check {pid} --tier quick',
                'thorough_cmd': f'./check {pid} --tier thorough',
                'evidence_file': f'evidence/{pid}.json',
                'replay_cmd_template': f'./check {pid} --replay {{path}}',
                'engine': 'lean4-proof+correspondence',
                'level_claimed': {'category': 'proof', 'text': text, 'design_ref': ref},
                'level_note': note,
                'technique': tech,
            })
        else:
            na.append({'property_id': pid, 'reason': 'not claimed yet: the Lean model, theorems and correspondence harness for this '
                       'property are still being built (design in DESIGN.md section 6); no other technique is substituted'})
    m = {
        'version': 1,
        'setup_cmd': 'cd lean/TD && lake build && lake build ' + ' '.join('drv_' + c['property_id'].lower() for c in checks),
        'hooks': {
            'guard': 'PAULROSS_TOTALDEPTH_VERIF',
            'enable': 'no source hooks are needed: every property is observed through public APIs; checks export '
                      'PAULROSS_TOTALDEPTH_VERIF=1 and import /repo/src directly',
            'baseline_off_cmd': '/verif/tools/baseline_check.py',
            'source_commits': [],
            'add_only': True,
        },
        'engines': [{'name': 'lean4-proof+correspondence', 'path': 'harness/core.py',
                     'serves_properties': [c['property_id'] for c in checks],
                     'kind_free_text': 'Lean 4.33 theorems about hand-written models (lean/TD/TD/Cxx/Props.lean), axiom audit, '
                                       'and a differential correspondence run model-vs-/repo through native line-protocol drivers'}],
        'checks': checks,
        'not_applicable': na,
        'notes': 'Entry point ./check <Cxx> [--tier quick|thorough] [--replay file]; VERIF_SEED seeds every random choice. '
                 'Exit 0 held, 1 VIOLATION, 2 infrastructure error/timeout. Known findings: known_findings.json.',
    }
    json.dump(m, open(os.path.join(V, 'MANIFEST.json'), 'w'), indent=1)
    print(f'{len(checks)} checks, {len(na)} not claimed')

if __name__ == '__main__':
    main()
