#!/venv/bin/python
"""Regenerates the per-property status table of DESIGN.md section 0.4 (between the TABLE markers) from evidence/, seeded/ and
known_findings*."""
import glob, json, os, re, sys
V = os.path.dirname(os.path.dirname(os.path.abspath(__file__)))
sys.path.insert(0, os.path.join(V, 'harness'))
import core
known = {}
for path in [os.path.join(V, 'known_findings.json')] + sorted(glob.glob(os.path.join(V, 'known_findings.d', '*.json'))):
    for e in json.load(open(path)).get('findings', []):
        if e.get('status') == 'open':
            known.setdefault(e['property'], set()).add(e['id'])
seeds = {}
for d in sorted(glob.glob(os.path.join(V, 'seeded', '*'))):
    m = json.load(open(os.path.join(d, 'meta.json')))
    seeds.setdefault(m['property'], []).append(m)
rows = ['| Id | Theorems (Props.lean) | Quick run on the unchanged tree (seed 0) | Open known findings | Seeded changes (caught / kept; * = after strengthening) |',
        '|---|---|---|---|---|']
for i in range(1, 21):
    pid = f'C{i:02d}'
    try:
        thms = core.theorems_of(pid)
    except OSError:
        thms = []
    ev = {}
    p = os.path.join(V, 'evidence', pid + '.json')
    if os.path.exists(p):
        ev = json.load(open(p))
    cov = ev.get('coverage', {})
    names = ', '.join('`' + t.split('.')[-1] + '`' for t in thms[:6]) + (f' … ({len(thms)} in all)' if len(thms) > 6 else '')
    quick = f"{cov.get('discharged', '?')}/{cov.get('obligations', '?')} theorems, {cov.get('disagreements_checked', '?')} comparisons, {cov.get('distinct_nontrivial', '?')} distinct non-trivial cases, {ev.get('wall_s', '?')} s"
    ss = seeds.get(pid, [])
    caught = sum(1 for s in ss if s.get('caught_by_check'))
    late = [s['id'] for s in ss if 'MISSED' in s.get('confirmed', '') or 'first run' in s.get('confirmed', '')]
    seedtxt = f"{caught}/{len(ss)}" + (' (' + ', '.join(x + '*' for x in late) + ')' if late else '')
    rows.append(f"| {pid} | {names} | {quick} | {', '.join(sorted(known.get(pid, []))) or '—'} | {seedtxt} |")
table = '\n'.join(rows)
path = os.path.join(V, 'DESIGN.md')
s = open(path).read()
if '@@TABLE@@' in s:
    s = s.replace('@@TABLE@@', '<!-- TABLE-BEGIN -->\n' + table + '\n<!-- TABLE-END -->')
else:
    s = re.sub(r'<!-- TABLE-BEGIN -->.*?<!-- TABLE-END -->', lambda m: '<!-- TABLE-BEGIN -->\n' + table + '\n<!-- TABLE-END -->', s, flags=re.S)
open(path, 'w').write(s)
print('table rows', len(rows) - 2)

# ---- fix commits and known findings lists (sections 0.2 / 0.3)
import subprocess
fixed = json.load(open(os.path.join(V, 'known_findings.json'))).get('fixed', [])
fix_md = '\n'.join('* ' + f[len('fixed: '):] for f in fixed)
kf = []
for path in [os.path.join(V, 'known_findings.json')] + sorted(glob.glob(os.path.join(V, 'known_findings.d', '*.json'))):
    for e in json.load(open(path)).get('findings', []):
        if e.get('status') == 'open':
            kf.append(f"* **{e['property']} `{e['id']}`** — {e['what'][:330]}{'…' if len(e['what']) > 330 else ''}  \n  *class:* {str(e.get('class', ''))[:300]}")
kf_md = '\n'.join(kf)
s = open(path_design := os.path.join(V, 'DESIGN.md')).read()
for tag, body in (('FIXES', fix_md), ('FINDINGS', kf_md)):
    s = re.sub(rf'<!-- {tag}-BEGIN -->.*?<!-- {tag}-END -->', lambda m: f'<!-- {tag}-BEGIN -->\n' + body + f'\n<!-- {tag}-END -->', s, flags=re.S)
open(path_design, 'w').write(s)
print(len(fixed), 'fixes,', len(kf), 'open findings')
