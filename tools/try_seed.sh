#!/bin/bash
# tools/try_seed.sh <seed-dir containing patch.diff [demo.py]> <Cxx> [more check args]   (TDVERIF_DIR=<worktree of /verif> to use that tree's check)
# Applies the seeded change to a scratch COPY of /repo (never /repo itself), confirms the demo, runs ./check against the copy.
set -u
SEED=$(realpath "$1"); PROP=$2; shift 2
S=$(mktemp -d /var/tmp/tdseed_XXXXXX)
trap 'rm -rf "$S"' EXIT
mkdir -p "$S/repo" && cp -r /repo/src /repo/example_data "$S/repo/" 
( cd "$S/repo" && patch -s -p1 < "$SEED/patch.diff" ) || { echo "PATCH-FAILED"; exit 3; }
if [ -f "$SEED/demo.py" ]; then
  ( cd "$S/repo" && PYTHONPATH=/repo/src /venv/bin/python "$SEED/demo.py" >/dev/null 2>&1 ); echo "demo on clean /repo: exit $?"
  ( cd "$S/repo" && PYTHONPATH="$S/repo/src" /venv/bin/python "$SEED/demo.py" >/dev/null 2>&1 ); echo "demo on mutated copy: exit $?"
fi
V=${TDVERIF_DIR:-/verif}
cd "$V" && TDVERIF_REPO="$S/repo" ./check "$PROP" "$@" 2>&1 | grep -E "VIOLATION|KNOWN-FINDING|-> |INFRA|Error" ; echo "check exit ${PIPESTATUS[0]}"
# tables regenerated from the mutated copy must not stay in the tree
git -C "$V" checkout -- lean/TD/TD/Gen evidence 2>/dev/null
