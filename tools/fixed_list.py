#!/venv/bin/python
"""Rewrites the "fixed" list of known_findings.json from the fix: commits of /repo (run by hand after each new fix)."""
import json, subprocess
PROP = {  # commit subject keyword -> property the defect was a violation of
 'np.object': 'C01', 'RLEItem.largest_le': 'C16', 'RLEItem.values': 'C16', 'storage unit label regexes': 'C01',
 'get_file_logical_data': 'C02', 'EFLR Object': 'C03', 'representation code 79': 'C08', 'out-of-range UTIM': 'C14',
 '64-bit integer channel values': 'C10', 'field width below 2': 'C10', 'SEG-Y detection': 'C20', 'nullValue, not null_value': 'C11',
 'STOP and STEP from Slice.last': 'C11', 'oversized day or year': 'C14', 'duplicate channel declaration': 'C14',
 'across a run of absent values': 'C19', 'wrapPos raised OverflowError': 'C19', 'plotting a LAS file': 'C19',
 'setFrameSet() call that raised': 'C06', 'zero frames made every later': 'C06', 'struct.error/OverflowError on short': 'C20',
 'convert_array()': 'C17', 'BIT computed X axis': 'C13', 'XmlStream.comment()': 'C18', 'column named MNEM': 'C08',
 'empty text cell': 'C08', 'stored in the wrong channel': 'C09', "refused with 'array overflow'": 'C09',
 'replaced by -999.25': 'C09', 'representation code 70': 'C07',
 'selects no frame': 'C11', 'no separator when a value fills': 'C11', 'not preceded by a CONS': 'C11',
 'channel subset raised TypeError': 'C11', 'read as numbers or yes/no': 'C09', 'ZeroDivisionError on a LIS-like': 'C20', 'several padding options tie': 'C20', 'every LIS padding option': 'C20', "caller's channel sub-set": 'C12', 'declared frame type has no frame data': 'C18',
}
log = subprocess.run(['git', '-C', '/repo', 'log', '--reverse', '--format=%h|%s'], capture_output=True, text=True).stdout
fixed = []
for line in log.splitlines():
    h, s = line.split('|', 1)
    if not s.startswith('fix:'):
        continue
    prop = next((p for k, p in PROP.items() if k in s), '???')
    fixed.append(f'fixed: property={prop} {h} {s[4:].strip()}')
path = '/verif/known_findings.json'
data = json.load(open(path))
data['fixed'] = fixed
json.dump(data, open(path, 'w'), indent=1)
print(len(fixed), 'fixed entries;', sum('???' in f for f in fixed), 'unmapped')
