#!/venv/bin/python
"""Records the fingerprints of every plugin's ANCHOR_FILES at the current /repo tree into harness/anchors.json.
Run by hand after a model has been (re)validated against the tree; never at check time."""
import importlib, json, os, sys, hashlib
V = os.path.dirname(os.path.dirname(os.path.abspath(__file__)))
sys.path.insert(0, os.path.join(V, 'harness'))
import core
out = {}
for i in range(1, 21):
    pid = f'c{i:02d}'
    if os.path.exists(os.path.join(V, 'harness', 'props', pid + '.py')):
        mod = importlib.import_module('props.' + pid)
        for rel in core.anchor_files(pid.upper(), mod):
            p = os.path.join('/repo', rel)
            out[rel] = core.anchor_fingerprint(p) if p.endswith('.py') else (hashlib.sha256(open(p, 'rb').read()).hexdigest()[:24] if os.path.exists(p) else 'missing')
json.dump(out, open(os.path.join(V, 'harness', 'anchors.json'), 'w'), indent=1, sort_keys=True)
print(len(out), 'anchors recorded')
