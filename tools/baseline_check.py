#!/venv/bin/python
"""Run the repository's pinned suite (guard OFF) and verify every stable_pass id of BASELINE.json still passes."""
import json, os, subprocess, sys, tempfile, xml.etree.ElementTree as ET
base = json.load(open('/root/.vp/BASELINE.json'))
fd, out = tempfile.mkstemp(suffix='.xml', dir=os.environ.get('TMPDIR', '/var/tmp')); os.close(fd)
env = dict(os.environ); env.pop('PAULROSS_TOTALDEPTH_VERIF', None)
subprocess.run(['/venv/bin/python', '-m', 'pytest', '-q', '-p', 'no:cacheprovider', '--timeout=900',
                '--continue-on-collection-errors', f'--junitxml={out}'], cwd='/repo', env=env,
               stdout=subprocess.DEVNULL, stderr=subprocess.DEVNULL)
passed, failed = set(), set()
for tc in ET.parse(out).getroot().iter('testcase'):
    tid = (tc.get('classname') or '') + '::' + (tc.get('name') or '')
    if tc.find('failure') is not None or tc.find('error') is not None: failed.add(tid)
    elif tc.find('skipped') is None: passed.add(tid)
os.unlink(out)
missing = [t for t in base['stable_pass'] if t not in passed]
print(f'passed={len(passed)} failed={len(failed)} stable={len(base["stable_pass"])} stable_not_passing={len(missing)}')
for t in missing[:40]: print('  NOT PASSING:', t)
for t in sorted(failed)[:40]: print('  FAILED:', t)
sys.exit(1 if missing else 0)
