/-- faithful model of Sample.gen_indices loop (s < n branch), with fuel -/
def sampleLoop (n s : Nat) : Nat → Nat → Nat → List Nat
  | 0, _, _ => []
  | fuel+1, index, rem =>
    if index < n then
      let rem' := rem + n % s
      index :: sampleLoop n s fuel (index + n / s + rem' / s) (rem' % s)
    else []

def sampleIndices (n s : Nat) : List Nat :=
  if s ≥ n then List.range n else sampleLoop n s n 0 0

/-- closed form -/
def sampleSpec (n s : Nat) : List Nat :=
  if s ≥ n then List.range n else (List.range s).map (fun k => k * n / s)

theorem loop_inv (n s : Nat) (hs : 0 < s) (hsn : s < n) :
    ∀ (fuel k index rem : Nat), index * s + rem = k * n → rem < s → k ≤ s → s - k ≤ fuel →
      sampleLoop n s fuel index rem = ((List.range (s - k)).map (fun j => (k + j) * n / s)) := by
  intro fuel
  induction fuel with
  | zero =>
    intro k index rem h1 h2 h3 h4
    have : s - k = 0 := by omega
    simp [sampleLoop, this]
  | succ fuel ih =>
    intro k index rem h1 h2 h3 h4
    have hidx : index = k * n / s := by
      have : k * n = s * index + rem := by rw [← h1, Nat.mul_comm]
      rw [this, Nat.mul_add_div hs, Nat.div_eq_of_lt h2]; simp
    by_cases hk : k = s
    · subst hk
      have : ¬ index < n := by
        rw [hidx, Nat.mul_div_cancel_left _ hs]; omega
      simp [sampleLoop, this]
    · have hklt : k < s := by omega
      have hlt : index < n := by
        rw [hidx]
        apply Nat.div_lt_of_lt_mul
        exact Nat.mul_lt_mul_of_pos_right hklt (by omega)
      unfold sampleLoop
      simp only [hlt, if_true]
      have hrec := ih (k+1) (index + n / s + (rem + n % s) / s) ((rem + n % s) % s) ?_ (Nat.mod_lt _ hs) (by omega) (by omega)
      · rw [hrec]
        have : s - k = (s - (k+1)) + 1 := by omega
        rw [this, List.range_succ_eq_map]
        simp only [List.map_cons, List.map_map, Nat.add_zero]
        refine List.cons_eq_cons.mpr ⟨hidx, ?_⟩
        apply List.map_congr_left
        intro j _
        simp only [Function.comp]
        congr 2; omega
      · -- invariant
        have hn : n = s * (n / s) + n % s := (Nat.div_add_mod n s).symm
        have hr : rem + n % s = s * ((rem + n % s) / s) + (rem + n % s) % s := (Nat.div_add_mod _ s).symm
        calc (index + n / s + (rem + n % s) / s) * s + (rem + n % s) % s
            = index * s + (s * (n / s)) + (s * ((rem + n % s) / s) + (rem + n % s) % s) := by
              rw [Nat.add_mul, Nat.add_mul, Nat.mul_comm (n / s) s, Nat.mul_comm ((rem + n % s) / s) s]; omega
          _ = index * s + (s * (n / s)) + (rem + n % s) := by rw [← hr]
          _ = (index * s + rem) + (s * (n / s) + n % s) := by omega
          _ = k * n + n := by rw [h1, ← hn]
          _ = (k + 1) * n := by rw [Nat.add_mul]; simp

theorem sampleIndices_eq_spec (n s : Nat) (hs : 0 < s) : sampleIndices n s = sampleSpec n s := by
  unfold sampleIndices sampleSpec
  split
  · rfl
  · rename_i h
    have := loop_inv n s hs (by omega) n 0 0 0 (by simp) hs (by omega) (by omega)
    simpa using this

