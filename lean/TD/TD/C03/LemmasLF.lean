/-
C03 — helper lemmas for the logical-file index.
-/
import TD.C03.Lemmas

namespace TD.C03

/-- the unencrypted records of a list of items -/
def plain : List Item → List ItemLayout → List Rec
  | [], _ => []
  | it :: its, lays => plainRec it (lays.headD default) :: plain its lays.tail

theorem indexFrom_append : ∀ (a b : List (Nat × Rec)) (files files' : List LFile),
    indexFrom files a = .ok files' → indexFrom files (a ++ b) = indexFrom files' b
  | [], b, files, files', h => by
    simp only [indexFrom, Except.ok.injEq] at h; subst h; rfl
  | p :: a, b, files, files', h => by
    simp only [indexFrom, List.cons_append] at h ⊢
    cases hs : indexStep files p with
    | error e => rw [hs] at h; simp at h
    | ok f1 =>
      rw [hs] at h
      simp only [] at h ⊢
      exact indexFrom_append a b f1 files' h

theorem indexStep_encrypted (files : List LFile) (p : Nat × Rec) (h : p.2.encrypted = true) :
    indexStep files p = .ok files := by
  unfold indexStep; simp [h]

theorem indexFrom_filter : ∀ (prs : List (Nat × Rec)) (files : List LFile),
    indexFrom files prs = indexFrom files (prs.filter (fun p => !p.2.encrypted))
  | [], _ => rfl
  | p :: prs, files => by
    cases he : p.2.encrypted with
    | true =>
      simp only [List.filter_cons, he, Bool.not_true, Bool.false_eq_true, if_false, indexFrom,
        indexStep_encrypted files p he]
      exact indexFrom_filter prs files
    | false =>
      simp only [List.filter_cons, he, Bool.not_false, if_true, indexFrom]
      cases indexStep files p with
      | error e => rfl
      | ok f1 => exact indexFrom_filter prs f1

theorem filter_encItems : ∀ (its : List Item) (lays : List ItemLayout),
    (encItems its lays).filter (fun r => !r.encrypted) = plain its lays
  | [], _ => rfl
  | it :: its, lays => by
    have hj : ((lays.headD default).junk.map (fun r => { r with encrypted := true })).filter (fun r : Rec => !r.encrypted) = [] := by
      apply List.filter_eq_nil_iff.2
      intro a ha
      obtain ⟨r, _, rfl⟩ := List.mem_map.1 ha
      simp
    have hp : (plainRec it (lays.headD default)).encrypted = false := by
      cases it <;> rfl
    simp only [encItems, encItem, List.filter_append, hj, List.nil_append, List.filter_cons, hp, Bool.not_false,
      if_true, List.filter_nil, List.cons_append, plain, filter_encItems its lays.tail]

theorem readIflrHeader_enc (n : ObName) (f : Nat) (d : Bytes) (hn : obnameOk n) (hf : f < 1073741824) :
    readIflrHeader (encIflr n f d) = .ok ((n, f), d) := by
  unfold readIflrHeader encIflr
  rw [readObname_enc n _ hn.1]
  simp only [readUvari_enc f d hf]

theorem getLast?_snoc (l : List LFile) (x : LFile) : (l ++ [x]).getLast? = some x := by simp

theorem setLast_snoc (l : List LFile) (x y : LFile) : setLast (l ++ [x]) y = l ++ [y] := by
  simp [setLast]

theorem indexStep_eflr (pre : List LFile) (lf : LFile) (pos ty : Nat) (t : Table) (ch : Choices) (ht : t.wf)
    (hne : t.stype ≠ sFILE_HEADER) :
    indexStep (pre ++ [lf]) (pos, ⟨false, true, ty, encodeEflr t ch⟩) =
      match addEflr lf pos ty t with
      | .error e => .error e
      | .ok lf' => .ok (pre ++ [lf']) := by
  unfold indexStep
  simp only [Bool.false_eq_true, if_false, if_true, readEflr_enc t ch ht, getLast?_snoc, hne]
  cases addEflr lf pos ty t with
  | error e => rfl
  | ok lf' => simp [setLast_snoc]

theorem indexStep_iflr (pre : List LFile) (lf : LFile) (pos ty : Nat) (n : ObName) (f : Nat) (d : Bytes)
    (hn : obnameOk n) (hf : f < 1073741824) :
    indexStep (pre ++ [lf]) (pos, ⟨false, false, ty, encIflr n f d⟩) =
      match d with
      | [] => .ok (pre ++ [lf])
      | _ :: _ => match addIflr lf pos n f with
        | .error e => .error e
        | .ok lf' => .ok (pre ++ [lf']) := by
  unfold indexStep
  simp only [Bool.false_eq_true, if_false, getLast?_snoc, readIflrHeader_enc n f d hn hf]
  cases d with
  | nil => rfl
  | cons x xs =>
    simp only []
    cases addIflr lf pos n f with
    | error e => rfl
    | ok lf' => simp [setLast_snoc]

theorem index_rest (pre : List LFile) : ∀ (its : List Item) (lays : List ItemLayout) (k : Nat) (hc hf : Bool)
    (lf : LFile) (prs : List (Nat × Rec)),
    (k = 1 ∨ k = 2) → itemsOk k hc hf its → (k = 1 → lf.eflrs.length = 1) → (k = 2 → 2 ≤ lf.eflrs.length) →
    lf.hasChannel = hc → lf.hasFrame = hf → prs.map Prod.snd = plain its lays →
    ∃ lf', indexFrom (pre ++ [lf]) prs = .ok (pre ++ [lf']) ∧
      lf'.content = (lf.content.1 ++ Item.tables its, lf.content.2 ++ Item.frames its) := by
  intro its
  induction its with
  | nil =>
    intro lays k hc hf lf prs _ _ _ _ _ _ hprs
    have : prs = [] := by simpa [plain] using hprs
    subst this
    exact ⟨lf, rfl, by simp [Item.tables, Item.frames]⟩
  | cons it its ih =>
    intro lays k hc hf lf prs hk hok h1 h2 hhc hhf hprs
    cases prs with
    | nil => simp [plain] at hprs
    | cons p prs =>
      obtain ⟨pos, rec_⟩ := p
      simp only [plain, List.map_cons, List.cons.injEq] at hprs
      obtain ⟨hrec, hprs'⟩ := hprs
      subst hrec
      cases it with
      | eflr ty t =>
        simp only [itemsOk] at hok
        obtain ⟨htwf, _, hbr⟩ := hok
        rcases hk with rfl | rfl
        · -- ORIGIN expected
          simp only [show ¬ ((1:Nat) = 0) from by decide, if_false, if_true] at hbr
          obtain ⟨hty, hst, hrest⟩ := hbr
          have hne : t.stype ≠ sFILE_HEADER := by
            rcases hst with h | h <;> rw [h] <;> decide
          have hadd : addEflr lf pos ty t = .ok { lf with eflrs := lf.eflrs ++ [(pos, ty, t)] } := by
            unfold addEflr
            simp [h1 rfl, hty, hst]
          obtain ⟨lf', hi, hcont⟩ := ih lays.tail 2 hc hf { lf with eflrs := lf.eflrs ++ [(pos, ty, t)] } prs
            (Or.inr rfl) hrest (by intro h; cases h) (by intro _; simp [h1 rfl]) hhc hhf hprs'
          refine ⟨lf', ?_, ?_⟩
          · simp only [indexFrom, plainRec, indexStep_eflr pre lf pos ty t _ htwf hne, hadd, hi]
          · rw [hcont]; simp [LFile.content, Item.tables, Item.frames]
        · simp only [show ¬ ((2:Nat) = 0) from by decide, show ¬ ((2:Nat) = 1) from by decide, if_false] at hbr
          obtain ⟨hne, hbr⟩ := hbr
          have hlen : ¬ (lf.eflrs.length < 2) := by have := h2 rfl; omega
          by_cases hch : t.stype = sCHANNEL
          · simp only [hch, if_true] at hbr
            obtain ⟨hcf, hrest⟩ := hbr
            have hadd : addEflr lf pos ty t = .ok { lf with eflrs := lf.eflrs ++ [(pos, ty, t)], hasChannel := true } := by
              unfold addEflr
              simp [hlen, hch, hhc, hcf]
            obtain ⟨lf', hi, hcont⟩ := ih lays.tail 2 true hf
              { lf with eflrs := lf.eflrs ++ [(pos, ty, t)], hasChannel := true } prs
              (Or.inr rfl) hrest (by intro h; cases h) (by intro _; simp; omega) rfl hhf hprs'
            refine ⟨lf', ?_, ?_⟩
            · simp only [indexFrom, plainRec, indexStep_eflr pre lf pos ty t _ htwf hne, hadd, hi]
            · rw [hcont]; simp [LFile.content, Item.tables, Item.frames]
          · by_cases hfr : t.stype = sFRAME
            · simp only [hch, hfr, if_true, if_false] at hbr
              have hch' : ¬ (sFRAME = sCHANNEL) := by decide
              simp only [hch', if_false] at hbr
              obtain ⟨hff, hrest⟩ := hbr
              have hadd : addEflr lf pos ty t = .ok { lf with eflrs := lf.eflrs ++ [(pos, ty, t)], hasFrame := true } := by
                unfold addEflr
                simp [hlen, hfr, hch', hhf, hff]
              obtain ⟨lf', hi, hcont⟩ := ih lays.tail 2 hc true
                { lf with eflrs := lf.eflrs ++ [(pos, ty, t)], hasFrame := true } prs
                (Or.inr rfl) hrest (by intro h; cases h) (by intro _; simp; omega) hhc rfl hprs'
              refine ⟨lf', ?_, ?_⟩
              · simp only [indexFrom, plainRec, indexStep_eflr pre lf pos ty t _ htwf hne, hadd, hi]
              · rw [hcont]; simp [LFile.content, Item.tables, Item.frames]
            · simp only [hch, hfr, if_false] at hbr
              have hadd : addEflr lf pos ty t = .ok { lf with eflrs := lf.eflrs ++ [(pos, ty, t)] } := by
                unfold addEflr
                simp [hlen, hch, hfr]
              obtain ⟨lf', hi, hcont⟩ := ih lays.tail 2 hc hf
                { lf with eflrs := lf.eflrs ++ [(pos, ty, t)] } prs
                (Or.inr rfl) hbr (by intro h; cases h) (by intro _; simp; omega) hhc hhf hprs'
              refine ⟨lf', ?_, ?_⟩
              · simp only [indexFrom, plainRec, indexStep_eflr pre lf pos ty t _ htwf hne, hadd, hi]
              · rw [hcont]; simp [LFile.content, Item.tables, Item.frames]
      | iflr ty n f d =>
        simp only [itemsOk] at hok
        obtain ⟨_, hn, hfn, hd, hrest⟩ := hok
        cases d with
        | nil =>
          obtain ⟨lf', hi, hcont⟩ := ih lays.tail k hc hf lf prs hk hrest h1 h2 hhc hhf hprs'
          refine ⟨lf', ?_, ?_⟩
          · simp only [indexFrom, plainRec, indexStep_iflr pre lf pos ty n f [] hn hfn, hi]
          · rw [hcont]; simp [Item.tables, Item.frames]
        | cons x xs =>
          obtain ⟨hk2, hc1, hf1⟩ := hd (by simp)
          have hlen : ¬ (lf.eflrs.length < 2) := by have := h2 hk2; omega
          have hadd : addIflr lf pos n f = .ok { lf with iflrs := lf.iflrs ++ [(pos, n, f)] } := by
            unfold addIflr
            simp [hlen, hhc, hhf, hc1, hf1]
          obtain ⟨lf', hi, hcont⟩ := ih lays.tail k hc hf { lf with iflrs := lf.iflrs ++ [(pos, n, f)] } prs hk hrest
            h1 h2 hhc hhf hprs'
          refine ⟨lf', ?_, ?_⟩
          · simp only [indexFrom, plainRec, indexStep_iflr pre lf pos ty n f (x :: xs) hn hfn, hadd, hi]
          · rw [hcont]; simp [LFile.content, Item.tables, Item.frames]

theorem index_file (files : List LFile) (its : List Item) (lays : List ItemLayout) (prs : List (Nat × Rec))
    (hok : lfileOk its) (hprs : prs.map Prod.snd = plain its lays) :
    ∃ lf, indexFrom files prs = .ok (files ++ [lf]) ∧ lf.content = (Item.tables its, Item.frames its) := by
  obtain ⟨hne, hok⟩ := hok
  cases its with
  | nil => exact absurd rfl hne
  | cons it its =>
    cases prs with
    | nil => simp [plain] at hprs
    | cons p prs =>
      obtain ⟨pos, rec_⟩ := p
      simp only [plain, List.map_cons, List.cons.injEq] at hprs
      obtain ⟨hrec, hprs'⟩ := hprs
      subst hrec
      cases it with
      | iflr ty n f d => simp [itemsOk] at hok
      | eflr ty t =>
        simp only [itemsOk, if_true] at hok
        obtain ⟨htwf, _, hty, hst, hrest⟩ := hok
        have hstep : indexStep files (pos, plainRec (.eflr ty t) (lays.headD default)) =
            .ok (files ++ [⟨[(pos, ty, t)], false, false, []⟩]) := by
          unfold indexStep
          simp only [plainRec, Bool.false_eq_true, if_false, if_true, readEflr_enc t _ htwf]
          cases hl : files.getLast? with
          | none =>
            have : files = [] := List.getLast?_eq_none_iff.1 hl
            simp [hty, hst, this]
          | some lf => simp [hty, hst]
        obtain ⟨lf', hi, hcont⟩ := index_rest files its lays.tail 1 false false ⟨[(pos, ty, t)], false, false, []⟩ prs
          (Or.inl rfl) hrest (by intro _; rfl) (by intro h; cases h) rfl rfl hprs'
        refine ⟨lf', ?_, ?_⟩
        · simp only [indexFrom, hstep, hi]
        · rw [hcont]; simp [LFile.content, Item.tables, Item.frames]

theorem plain_append : ∀ (a b : List Item) (lays : List ItemLayout),
    plain (a ++ b) lays = plain a lays ++ plain b (lays.drop a.length)
  | [], b, lays => by simp [plain]
  | x :: a, b, lays => by
    simp only [List.cons_append, plain, List.length_cons, plain_append a b lays.tail]
    cases lays <;> simp

theorem index_files : ∀ (lfs : List (List Item)) (lays : List ItemLayout) (files : List LFile) (prs : List (Nat × Rec)),
    (∀ its ∈ lfs, lfileOk its) → prs.map Prod.snd = plain lfs.flatten lays →
    ∃ out, indexFrom files prs = .ok (files ++ out) ∧
      out.map LFile.content = lfs.map (fun its => (Item.tables its, Item.frames its))
  | [], lays, files, prs, _, hprs => by
    have : prs = [] := by simpa [plain] using hprs
    subst this
    exact ⟨[], by simp [indexFrom], rfl⟩
  | its :: lfs, lays, files, prs, hok, hprs => by
    simp only [List.flatten_cons, plain_append] at hprs
    obtain ⟨p1, p2, rfl, h1, h2⟩ := List.map_eq_append_iff.1 hprs
    obtain ⟨lf, hi, hc⟩ := index_file files its lays p1 (hok its (by simp)) h1
    obtain ⟨out, hi2, hc2⟩ := index_files lfs (lays.drop its.length) (files ++ [lf]) p2
      (fun x hx => hok x (by simp [hx])) h2
    refine ⟨lf :: out, ?_, ?_⟩
    · rw [indexFrom_append p1 p2 files _ hi, hi2]; simp
    · simp [hc, hc2]

theorem filter_map_snd (prs : List (Nat × Rec)) :
    (prs.filter (fun p => !p.2.encrypted)).map Prod.snd = (prs.map Prod.snd).filter (fun r => !r.encrypted) := by
  induction prs with
  | nil => rfl
  | cons p prs ih =>
    cases h : p.2.encrypted <;> simp [List.filter_cons, h, ih]

end TD.C03
