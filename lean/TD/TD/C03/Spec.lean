/-
C03 — specification side: abstract tables (the data types are those the decoder returns, `TD.C03.Table`),
well-formedness, and an independent *encoder* `encodeEflr : Table → Choices → Bytes` written from RP66V1 §3.2
(not from the reader).  `Choices` gives the encoder every freedom the standard gives a producer:

* which of SET / RSET / RDSET to use and whether to omit an empty set name;
* for every template attribute and every object attribute, to omit any characteristic that equals its default
  (global default for the template, template value for an object) — a request to omit something that differs is ignored;
* to write an ABSATR component for a cell without a value;
* to end an object early at any point from which all remaining cells equal the template (trailing omission);
* INVATR columns anywhere in the template (they never have a component in an object).

`encodeLogicalFiles` lays logical files out as a record list, with arbitrary encrypted records interleaved.
Core Lean only (the driver uses this file).
-/
import TD.C03.Model

namespace TD.C03

/-! ### value encoders (RP66V1 Appendix B) -/

/-- `n` bytes, big-endian -/
def beEnc : Nat → Nat → Bytes
  | 0, _ => []
  | n + 1, v => beEnc n (v / 256) ++ [v % 256]

def encUvari (v : Nat) : Bytes :=
  if v < 128 then [v]
  else if v < 16384 then [128 + v / 256, v % 256]
  else [192 + v / 16777216, v / 65536 % 256, v / 256 % 256, v % 256]

def encIdent (b : Bytes) : Bytes := b.length :: b
def encAscii (b : Bytes) : Bytes := encUvari b.length ++ b
def encObname (n : ObName) : Bytes := encUvari n.o ++ [n.c] ++ encIdent n.i

def encValue (rc : Nat) : Value → Bytes   -- `rc`: the code in force (a floating word carries its own)
  | .word c w => if c = 7 then beEnc 8 w else beEnc 4 w
  | .int v =>
    if rc = 12 then [(v % 256).toNat]
    else if rc = 13 then beEnc 2 (v % 65536).toNat
    else if rc = 14 then beEnc 4 (v % 4294967296).toNat
    else if rc = 15 ∨ rc = 26 then [v.toNat]
    else if rc = 16 then beEnc 2 v.toNat
    else if rc = 17 then beEnc 4 v.toNat
    else encUvari v.toNat
  | .bytes b => if rc = 20 then encAscii b else encIdent b
  | .dtime y tz mo d h mi s ms => [y - 1900, tz * 16 + mo, d, h, mi, s, ms / 256, ms % 256]
  | .obname o c i => encObname ⟨o, c, i⟩
  | .objref t o c i => encIdent t ++ encObname ⟨o, c, i⟩

def encValues (rc : Nat) (vs : List Value) : Bytes := vs.flatMap (encValue rc)

/-- the value is of the kind and range its representation code can carry -/
def valOk (rc : Nat) : Value → Bool
  | .word c w => c = rc ∧ (((rc = 2 ∨ rc = 5 ∨ rc = 6) ∧ w < 4294967296) ∨ (rc = 7 ∧ w < 18446744073709551616))
  | .int v =>
    (rc = 12 ∧ -128 ≤ v ∧ v < 128) ∨ (rc = 13 ∧ -32768 ≤ v ∧ v < 32768) ∨
    (rc = 14 ∧ -2147483648 ≤ v ∧ v < 2147483648) ∨ ((rc = 15 ∨ rc = 26) ∧ 0 ≤ v ∧ v < 256) ∨
    (rc = 16 ∧ 0 ≤ v ∧ v < 65536) ∨ (rc = 17 ∧ 0 ≤ v ∧ v < 4294967296) ∨
    ((rc = 18 ∨ rc = 22) ∧ 0 ≤ v ∧ v < 1073741824)
  | .bytes b => ((rc = 19 ∨ rc = 27) ∧ b.length < 256) ∨ (rc = 20 ∧ b.length < 1073741824)
  | .dtime y tz mo d h mi s ms =>
    rc = 21 ∧ 1900 ≤ y ∧ y < 2156 ∧ tz < 16 ∧ mo < 16 ∧ d < 256 ∧ h < 256 ∧ mi < 256 ∧ s < 256 ∧ ms < 65536
  | .obname o c i => rc = 23 ∧ o < 1073741824 ∧ c < 256 ∧ i.length < 256
  | .objref t o c i => rc = 24 ∧ t.length < 256 ∧ o < 1073741824 ∧ c < 256 ∧ i.length < 256

/-! ### well-formed tables -/

def obnameOk (n : ObName) : Prop := n.o < 1073741824 ∧ n.c < 256 ∧ n.i.length < 256

/-- the value (if any) has `count` elements of the attribute's own representation code -/
def valuesOk (a : Attr) : Prop := ∀ vs ∈ a.value, vs.length = a.count ∧ ∀ v ∈ vs, valOk a.rc v = true

def attrOk (a : Attr) : Prop :=
  a.label.length < 256 ∧ a.count < 1073741824 ∧ a.rc < 256 ∧ a.units.length < 256 ∧ valuesOk a

/-- a cell of an invariant column is the template attribute; a cell without a value under a column that has a
default value can only be written as ABSATR, which carries no characteristics of its own.  A cell's value either fits
its own count/code, or it is the template's default inherited unchanged — an object may override the count (or code,
units) *without* a value of its own, and then still presents the template's complete default list. -/
def cellOk (col : Column) (cell : Attr) : Prop :=
  cell.label.length < 256 ∧ cell.count < 1073741824 ∧ cell.rc < 256 ∧ cell.units.length < 256 ∧
  (valuesOk cell ∨ cell.value = col.attr.value) ∧ (col.inv = true → cell = col.attr) ∧
  (cell.value = none → col.attr.value ≠ none → cell = { col.attr with value := none })

def rowOk (cols : List Column) (row : Row) : Prop :=
  obnameOk row.name ∧ row.cells.length = cols.length ∧ (∀ p ∈ cols.zip row.cells, cellOk p.1 p.2) ∧
  (row.cells.map Attr.label).Nodup

def Table.wf (t : Table) : Prop :=
  t.stype.length < 256 ∧ t.sname.length < 256 ∧ (t.cols = [] → t.rows = []) ∧
  (t.cols.map (fun c => c.attr.label)).Nodup ∧ (∀ c ∈ t.cols, attrOk c.attr) ∧
  (∀ r ∈ t.rows, rowOk t.cols r) ∧ (t.rows.map Row.name).Nodup

instance : DecidablePred obnameOk := fun n => by unfold obnameOk; infer_instance
instance : DecidablePred valuesOk := fun a => by unfold valuesOk; infer_instance
instance : DecidablePred attrOk := fun a => by unfold attrOk; infer_instance
instance (col : Column) : DecidablePred (cellOk col) := fun c => by unfold cellOk; infer_instance
instance (cols : List Column) : DecidablePred (rowOk cols) := fun r => by unfold rowOk; infer_instance
instance : DecidablePred Table.wf := fun t => by unfold Table.wf; infer_instance

/-! ### the encoder -/

/-- Producer's choices for one attribute component. -/
structure AttrChoice where
  omitL : Bool := false
  omitC : Bool := false
  omitR : Bool := false
  omitU : Bool := false
  omitV : Bool := false
  absent : Bool := false     -- write ABSATR when the cell allows it
  stop : Bool := false       -- end the object here when every remaining cell equals the template
  deriving Repr, DecidableEq, Inhabited

structure Choices where
  setRole : Nat := 0                         -- 0 SET, 1 RSET, 2 RDSET
  omitSetName : Bool := false
  cols : List AttrChoice := []
  rows : List (List AttrChoice) := []
  deriving Repr, Inhabited

def b2n (b : Bool) : Nat := if b then 1 else 0

/-- component descriptor of an attribute-group component: role bits + L C R U V -/
def attrDesc (role : Nat) (l c r u v : Bool) : Nat :=
  role + 16 * b2n l + 8 * b2n c + 4 * b2n r + 2 * b2n u + b2n v

/-- the characteristic fields of a component, in the order L C R U V, for the flags given -/
def encAttrBody (l c r u v : Bool) (a : Attr) : Bytes :=
  (if l then encIdent a.label else []) ++ ((if c then encUvari a.count else []) ++ ((if r then [a.rc] else []) ++
   ((if u then encIdent a.units else []) ++ (if v then encValues a.rc (a.value.getD []) else []))))

/-- an attribute component with role `role`, relative to the defaults `d`: a characteristic is written unless the
producer chose to omit it *and* it equals the default; a value is written only if there is one -/
def wantL (d a : Attr) (ch : AttrChoice) : Bool := !(ch.omitL && a.label == d.label)
def wantC (d a : Attr) (ch : AttrChoice) : Bool := !(ch.omitC && a.count == d.count)
def wantR (d a : Attr) (ch : AttrChoice) : Bool := !(ch.omitR && a.rc == d.rc)
def wantU (d a : Attr) (ch : AttrChoice) : Bool := !(ch.omitU && a.units == d.units)
/-- a value equal to the default is written only if the producer wants to *and* it fits the attribute's own count/code
(an inherited default under an overridden count can only be inherited) -/
def wantV (d a : Attr) (ch : AttrChoice) : Bool :=
  a.value.isSome && !((ch.omitV || !decide (valuesOk a)) && a.value == d.value)

def encAttr (role : Nat) (d a : Attr) (ch : AttrChoice) : Bytes :=
  attrDesc role (wantL d a ch) (wantC d a ch) (wantR d a ch) (wantU d a ch) (wantV d a ch) ::
    encAttrBody (wantL d a ch) (wantC d a ch) (wantR d a ch) (wantU d a ch) (wantV d a ch) a

def encCols : List Column → List AttrChoice → Bytes
  | [], _ => []
  | col :: cols, chs =>
    encAttr (if col.inv then 0x40 else 0x20) globalDefault col.attr (chs.headD default) ++ encCols cols chs.tail

/-- the cell is exactly the template attribute without its value: ABSATR may (must, if the template has a value)
be used -/
def isAbsentOf (col : Column) (cell : Attr) : Bool := cell == { col.attr with value := none }

def encCell (col : Column) (cell : Attr) (ch : AttrChoice) : Bytes :=
  if isAbsentOf col cell && (ch.absent || col.attr.value.isSome) then [0x00]
  else encAttr 0x20 col.attr cell ch

def allDefault : List Column → List Attr → Bool
  | col :: cols, cell :: cells => cell == col.attr && allDefault cols cells
  | _, _ => true

def encCells : List Column → List Attr → List AttrChoice → Bytes
  | col :: cols, cell :: cells, chs =>
    if col.inv then encCells cols cells chs.tail
    else if (chs.headD default).stop && allDefault (col :: cols) (cell :: cells) then []
    else encCell col cell (chs.headD default) ++ encCells cols cells chs.tail
  | _, _, _ => []

def encRow (cols : List Column) (row : Row) (chs : List AttrChoice) : Bytes :=
  0x70 :: (encObname row.name ++ encCells cols row.cells chs)

def encRows (cols : List Column) : List Row → List (List AttrChoice) → Bytes
  | [], _ => []
  | row :: rows, chs => encRow cols row (chs.headD []) ++ encRows cols rows chs.tail

def setRoleBits (n : Nat) : Nat := if n % 3 = 0 then 0xE0 else if n % 3 = 1 then 0xC0 else 0xA0

def encSet (t : Table) (ch : Choices) : Bytes :=
  let omitN := ch.omitSetName && t.sname == []
  (setRoleBits ch.setRole + 16 + (if omitN then 0 else 8)) ::
    (encIdent t.stype ++ (if omitN then [] else encIdent t.sname))

def encodeEflr (t : Table) (ch : Choices) : Bytes :=
  encSet t ch ++ (encCols t.cols ch.cols ++ encRows t.cols t.rows ch.rows)

/-! ### logical files -/

/-- one logical record of a logical file, abstractly -/
inductive Item where
  | eflr (lrType : Nat) (t : Table)
  | iflr (lrType : Nat) (name : ObName) (frameNo : Nat) (data : Bytes)
  deriving Repr, DecidableEq

def encIflr (name : ObName) (frameNo : Nat) (data : Bytes) : Bytes := encObname name ++ (encUvari frameNo ++ data)

/-- how one item is laid out: encrypted records placed before it, and the table choices -/
structure ItemLayout where
  junk : List Rec := []
  ch : Choices := {}
  deriving Repr, Inhabited

/-- the (unencrypted) logical record of an item -/
def plainRec (it : Item) (lay : ItemLayout) : Rec :=
  match it with
  | .eflr ty t => ⟨false, true, ty, encodeEflr t lay.ch⟩
  | .iflr ty n f d => ⟨false, false, ty, encIflr n f d⟩

def encItem (it : Item) (lay : ItemLayout) : List Rec :=
  lay.junk.map (fun r => { r with encrypted := true }) ++ [plainRec it lay]

def encItems : List Item → List ItemLayout → List Rec
  | [], _ => []
  | it :: its, lays => encItem it (lays.headD default) ++ encItems its lays.tail

/-- all logical files, one after the other; `lays` is consumed item by item across the files; `trailer` are encrypted
records after the last item -/
def encodeLogicalFiles (lfs : List (List Item)) (lays : List ItemLayout) (trailer : List Rec) : List Rec :=
  encItems lfs.flatten lays ++ trailer.map (fun r => { r with encrypted := true })

/-- well-formedness of the items of one logical file after position `k` (0 = FILE-HEADER expected), given whether a
CHANNEL / FRAME table has been seen -/
def itemsOk : Nat → Bool → Bool → List Item → Prop
  | _, _, _, [] => True
  | k, hc, hf, .eflr ty t :: its =>
    t.wf ∧ ty < 256 ∧
    (if k = 0 then ty = 0 ∧ t.stype = sFILE_HEADER ∧ itemsOk 1 hc hf its
     else if k = 1 then ty = 1 ∧ (t.stype = sORIGIN ∨ t.stype = sWELL_REFERENCE) ∧ itemsOk 2 hc hf its
     else t.stype ≠ sFILE_HEADER ∧
       (if t.stype = sCHANNEL then hc = false ∧ itemsOk 2 true hf its
        else if t.stype = sFRAME then hf = false ∧ itemsOk 2 hc true its
        else itemsOk 2 hc hf its))
  | k, hc, hf, .iflr _ n f d :: its =>
    k ≠ 0 ∧ obnameOk n ∧ f < 1073741824 ∧ (d ≠ [] → k = 2 ∧ hc = true ∧ hf = true) ∧ itemsOk k hc hf its

/-- a logical file: FILE-HEADER first, ORIGIN second, … -/
def lfileOk (its : List Item) : Prop := its ≠ [] ∧ itemsOk 0 false false its

/-- what the index must present for one logical file, without file positions: its tables with their record types,
and the (object name, frame number) of every non-empty IFLR, in order -/
def Item.tables : List Item → List (Nat × Table)
  | [] => []
  | .eflr ty t :: its => (ty, t) :: Item.tables its
  | .iflr .. :: its => Item.tables its

def Item.frames : List Item → List (ObName × Nat)
  | [] => []
  | .eflr .. :: its => Item.frames its
  | .iflr _ n f d :: its => if d = [] then Item.frames its else (n, f) :: Item.frames its

def LFile.content (lf : LFile) : List (Nat × Table) × List (ObName × Nat) :=
  (lf.eflrs.map (fun e => (e.2.1, e.2.2)), lf.iflrs.map (fun e => (e.2.1, e.2.2)))

end TD.C03
