import TD.C03.Lemmas

/-!
# C03 — RP66V1 logical files and their EFLR tables decode to what was encoded

Property theorems only.  The model (`TD.C03.Model`) transcribes `ComponentDescriptor.py`, `EFLR.py`, the readers of
`pRepCode.py` and `LogicalIndex.__enter__` / `LogicalFile.add_*`; it is tied to the Python source by the correspondence
run of `./check C03`.  The specification (`TD.C03.Spec`) is an independent encoder written from RP66V1 §3.2.
-/
namespace TD.C03

/-- What the implementation presents for an EFLR payload. -/
def decodeEflr (bs : Bytes) : Except Err Table := readEflr bs

/-- **Round trip, all producer choices.**  For every well-formed table and *every* choice the encoder is allowed
(SET/RSET/RDSET, omitted set name, any subset of characteristics omitted where equal to the template/global default,
ABSATR components, objects ended early at any depth of trailing omission, INVATR columns at any position, every
supported representation code) the reader returns exactly the table: set type and name, column labels and defaults,
object names, and for every cell its count, representation code, units and values; a cell written as ABSATR has no
value whatever the template default is. -/
theorem eflr_roundtrip (t : Table) (ch : Choices) (h : t.wf) : decodeEflr (encodeEflr t ch) = .ok t := by
  obtain ⟨_, _, hempty, hnd, hcols, hrows, hnames⟩ := h
  unfold decodeEflr encodeEflr readEflr
  rw [readSet_enc]
  simp only []
  cases hc : t.cols with
  | nil =>
    have hr := hempty hc
    simp only [hr, encCols, encRows, List.append_nil]
    cases t; simp_all
  | cons col cols =>
    have e : encCols (col :: cols) ch.cols ++ encRows (col :: cols) t.rows ch.rows =
        attrDesc (if col.inv = true then 0x40 else 0x20) (wantL globalDefault col.attr (ch.cols.headD default))
          (wantC globalDefault col.attr (ch.cols.headD default)) (wantR globalDefault col.attr (ch.cols.headD default))
          (wantU globalDefault col.attr (ch.cols.headD default)) (wantV globalDefault col.attr (ch.cols.headD default)) ::
        (encAttrBody (wantL globalDefault col.attr (ch.cols.headD default))
          (wantC globalDefault col.attr (ch.cols.headD default)) (wantR globalDefault col.attr (ch.cols.headD default))
          (wantU globalDefault col.attr (ch.cols.headD default)) (wantV globalDefault col.attr (ch.cols.headD default)) col.attr
          ++ encCols cols ch.cols.tail ++ encRows (col :: cols) t.rows ch.rows) := by
      simp [encCols, encAttr]
    have hlen : (col :: cols).length ≤ (encCols (col :: cols) ch.cols ++ encRows (col :: cols) t.rows ch.rows).length + 1 := by
      have := encCols_length (col :: cols) ch.cols
      simp only [List.length_append]; omega
    have hstart : objStart (encRows (col :: cols) t.rows ch.rows) := by
      have := encRows_objStart (col :: cols) t.rows ch.rows [] (Or.inl rfl)
      simpa using this
    have ht := readTemplate_enc (col :: cols) ch.cols [] (encRows (col :: cols) t.rows ch.rows) _ (by simp) hlen
      (by rw [← hc]; exact hcols) (by rw [← hc]; exact hnd) (by simp) hstart
    have ho := readObjects_enc (col :: cols) t.rows ch.rows ((encRows (col :: cols) t.rows ch.rows).length + 1)
      (by have := encRows_length (col :: cols) t.rows ch.rows; omega) (by rw [← hc]; exact hrows)
    rw [e] at ht ⊢
    simp only [ht, ho, dedup_nodup t.rows hnames]
    cases t; simp_all

/-- The hypotheses of `eflr_roundtrip` are satisfiable by a table that uses an invariant column in first position, an
absent cell under a column with a default value, an overriding count/code, and an object that omits everything. -/
def exTable : Table :=
  { stype := [80], sname := [],
    cols := [⟨true, ⟨[73], 1, 19, [], some [.bytes [1, 2]]⟩⟩, ⟨false, ⟨[65], 1, 2, [109], some [.word 2 1065353216]⟩⟩,
             ⟨false, ⟨[66], 1, 19, [], none⟩⟩],
    rows := [⟨⟨1, 0, [88]⟩, [⟨[73], 1, 19, [], some [.bytes [1, 2]]⟩, ⟨[65], 1, 2, [109], none⟩,
                             ⟨[66], 2, 16, [], some [.int 7, .int 65535]⟩]⟩,
             ⟨⟨1, 0, [89]⟩, [⟨[73], 1, 19, [], some [.bytes [1, 2]]⟩, ⟨[65], 1, 2, [109], some [.word 2 1065353216]⟩,
                             ⟨[66], 1, 19, [], none⟩]⟩] }

example : exTable.wf := by decide

example : encodeEflr exTable { rows := [[], [{ stop := true }, { stop := true }]] } =
    [248, 1, 80, 0,  95, 1, 73, 1, 19, 0, 2, 1, 2,  63, 1, 65, 1, 2, 1, 109, 63, 128, 0, 0,  62, 1, 66, 1, 19, 0,
     112, 1, 0, 1, 88,  0,  63, 1, 66, 2, 16, 0, 0, 7, 255, 255,  112, 1, 0, 1, 89] := by decide

end TD.C03
