import TD.C03.LemmasLF

/-!
# C03 — RP66V1 logical files and their EFLR tables decode to what was encoded

Property theorems only.  The model (`TD.C03.Model`) transcribes `ComponentDescriptor.py`, `EFLR.py`, the readers of
`pRepCode.py` and `LogicalIndex.__enter__` / `LogicalFile.add_*`; it is tied to the Python source by the correspondence
run of `./check C03`.  The specification (`TD.C03.Spec`) is an independent encoder written from RP66V1 §3.2.
-/
namespace TD.C03

/-- What the implementation presents for an EFLR payload. -/
def decodeEflr (bs : Bytes) : Except Err Table := readEflr bs

/-- **Round trip, all producer choices.**  For every well-formed table and *every* choice the encoder is allowed
(SET/RSET/RDSET, omitted set name, any subset of characteristics omitted where equal to the template/global default,
ABSATR components, objects ended early at any depth of trailing omission, INVATR columns at any position, every
supported representation code) the reader returns exactly the table: set type and name, column labels and defaults,
object names, and for every cell its count, representation code, units and values; a cell written as ABSATR has no
value whatever the template default is. -/
theorem eflr_roundtrip (t : Table) (ch : Choices) (h : t.wf) : decodeEflr (encodeEflr t ch) = .ok t :=
  readEflr_enc t ch h

/-- The hypotheses of `eflr_roundtrip` are satisfiable by a table that uses an invariant column in first position, an
absent cell under a column with a default value, an overriding count/code, and an object that omits everything. -/
def exTable : Table :=
  { stype := [80], sname := [],
    cols := [⟨true, ⟨[73], 1, 19, [], some [.bytes [1, 2]]⟩⟩, ⟨false, ⟨[65], 1, 2, [109], some [.word 2 1065353216]⟩⟩,
             ⟨false, ⟨[66], 1, 19, [], none⟩⟩],
    rows := [⟨⟨1, 0, [88]⟩, [⟨[73], 1, 19, [], some [.bytes [1, 2]]⟩, ⟨[65], 1, 2, [109], none⟩,
                             ⟨[66], 2, 16, [], some [.int 7, .int 65535]⟩]⟩,
             ⟨⟨1, 0, [89]⟩, [⟨[73], 1, 19, [], some [.bytes [1, 2]]⟩, ⟨[65], 1, 2, [109], some [.word 2 1065353216]⟩,
                             ⟨[66], 1, 19, [], none⟩]⟩] }

example : exTable.wf := by decide

/-- a default of three elements inherited by the first and last object; the middle object overrides only the count
(component descriptor 0x28: C without V) and still presents the complete default -/
def exShared : Table :=
  { stype := [80], sname := [],
    cols := [⟨false, ⟨[65], 3, 15, [], some [.int 1, .int 2, .int 3]⟩⟩],
    rows := [⟨⟨1, 0, [88]⟩, [⟨[65], 3, 15, [], some [.int 1, .int 2, .int 3]⟩]⟩,
             ⟨⟨1, 0, [89]⟩, [⟨[65], 1, 15, [], some [.int 1, .int 2, .int 3]⟩]⟩,
             ⟨⟨1, 0, [90]⟩, [⟨[65], 3, 15, [], some [.int 1, .int 2, .int 3]⟩]⟩] }

example : exShared.wf := by decide
example : encodeEflr exShared { rows := [[{ omitL := true, omitC := true, omitR := true, omitU := true, omitV := true }],
      [{ omitL := true, omitR := true, omitU := true }], [{ stop := true }]] } =
    [248, 1, 80, 0,  63, 1, 65, 3, 15, 0, 1, 2, 3,  112, 1, 0, 1, 88, 32,  112, 1, 0, 1, 89, 40, 1,  112, 1, 0, 1, 90] := by
  decide

example : encodeEflr exTable { rows := [[], [{ stop := true }, { stop := true }]] } =
    [248, 1, 80, 0,  95, 1, 73, 1, 19, 0, 2, 1, 2,  63, 1, 65, 1, 2, 1, 109, 63, 128, 0, 0,  62, 1, 66, 1, 19, 0,
     112, 1, 0, 1, 88,  0,  63, 1, 66, 2, 16, 0, 0, 7, 255, 255,  112, 1, 0, 1, 89] := by decide

/-! ## Logical files -/

/-- **Split exactly at each FILE-HEADER.**  Let `lfs` be any list of logical files, each a FILE-HEADER table (record
type 0), then an ORIGIN/WELL-REFERENCE table (type 1), then arbitrary further well-formed tables (any record type, any
set type other than FILE-HEADER, at most one CHANNEL and one FRAME) and frame records (non-empty ones only after both
CHANNEL and FRAME); let the records be produced by the encoder under any table choices and with arbitrary encrypted
records interleaved and appended (`prs` pairs each record with any position label).  Then the index succeeds, has
exactly one logical file per abstract logical file, and each presents exactly its tables (with their record types, in
order) and the (object name, frame number) of every non-empty frame record, in order. -/
theorem split_at_file_header (lfs : List (List Item)) (lays : List ItemLayout) (trailer : List Rec)
    (prs : List (Nat × Rec)) (hwf : ∀ its ∈ lfs, lfileOk its)
    (hprs : prs.map Prod.snd = encodeLogicalFiles lfs lays trailer) :
    ∃ files, indexRecs prs = .ok files ∧
      files.map LFile.content = lfs.map (fun its => (Item.tables its, Item.frames its)) := by
  have hf : (prs.filter (fun p => !p.2.encrypted)).map Prod.snd = plain lfs.flatten lays := by
    rw [filter_map_snd, hprs]
    unfold encodeLogicalFiles
    rw [List.filter_append, filter_encItems]
    have : (trailer.map (fun r => { r with encrypted := true })).filter (fun r : Rec => !r.encrypted) = [] := by
      apply List.filter_eq_nil_iff.2
      intro a ha
      obtain ⟨r, _, rfl⟩ := List.mem_map.1 ha
      simp
    rw [this, List.append_nil]
  obtain ⟨out, hi, hc⟩ := index_files lfs lays [] _ hwf hf
  refine ⟨out, ?_, hc⟩
  unfold indexRecs
  rw [indexFrom_filter, hi]; simp

/-- **Encrypted records are skipped without disturbing their neighbours**: for *any* record sequence (well-formed or
not) the index — logical files, tables, frame references, the position label of every entry, or the error raised — is
the same as for the sequence with the encrypted records removed. -/
theorem encrypted_skipped (prs : List (Nat × Rec)) :
    indexRecs prs = indexRecs (prs.filter (fun p => !p.2.encrypted)) := by
  unfold indexRecs; exact indexFrom_filter prs []

/-- **Re-entering presents the same content.**  Whatever an object's `logical_files` held before (`prev`: the result of
any earlier enter/exit history on the same `LogicalIndex`, or of another object over the same file), `__enter__`
presents exactly what a fresh index of the records presents — with `split_at_file_header`, the encoded logical
files, each once. -/
theorem enter_history_independent (prev : List LFile) (prs : List (Nat × Rec)) :
    enterIndex prev prs = indexRecs prs ∧ enterIndex (exitIndex prev) prs = indexRecs prs := ⟨rfl, rfl⟩

example : enterIndex [⟨[(0, 0, exFH)], true, true, []⟩] [] = .ok [] := rfl

/-- non-vacuity: two logical files (the second one with an empty template-less ORIGIN set), an encrypted record in
between -/
def exFH : Table := ⟨sFILE_HEADER, [], [], []⟩
def exOR : Table := ⟨sORIGIN, [49], [], []⟩
def exFiles : List (List Item) := [[.eflr 0 exFH, .eflr 1 exOR, .eflr 5 exTable, .iflr 0 ⟨1, 0, [70]⟩ 1 []], [.eflr 0 exFH, .eflr 1 exOR]]

instance itemsOkDec : ∀ (k : Nat) (hc hf : Bool) (its : List Item), Decidable (itemsOk k hc hf its)
  | _, _, _, [] => isTrue trivial
  | k, hc, hf, .eflr ty t :: its =>
    have : ∀ k hc hf, Decidable (itemsOk k hc hf its) := fun k hc hf => itemsOkDec k hc hf its
    by unfold itemsOk; exact inferInstance
  | k, hc, hf, .iflr _ n f d :: its =>
    have : Decidable (itemsOk k hc hf its) := itemsOkDec k hc hf its
    by unfold itemsOk; exact inferInstance

example : ∀ its ∈ exFiles, lfileOk its := by unfold lfileOk; decide +kernel

example : (indexRecs ((encodeLogicalFiles exFiles [{}, { junk := [⟨false, true, 9, [1, 2, 3]⟩] }] []).zipIdx.map
    (fun p => (p.2, p.1)))).map (fun fs => fs.map (fun f => f.eflrs.map (fun e => e.1))) = .ok [[0, 2, 3], [5, 6]] := by
  rfl

end TD.C03
