/-
C03 — model of the RP66V1 explicitly formatted logical record reader and of the logical-file index:

* `TotalDepth/RP66V1/core/LogicalRecord/ComponentDescriptor.py`  → `mkCD`, `CD.*`
* `TotalDepth/RP66V1/core/pRepCode.py` (readers used by EFLRs)   → `readUshort … readValue`
* `TotalDepth/RP66V1/core/LogicalRecord/EFLR.py`                 → `readSet`, `readAttr`, `readTemplate`, `objLoop`,
                                                                   `readObject`, `readObjects`, `dedup`, `readEflr`
* `TotalDepth/RP66V1/core/LogicalRecord/IFLR.py`                 → `readIflrHeader`
* `TotalDepth/RP66V1/core/LogicalFile.py` (`LogicalIndex.__enter__`, `LogicalFile.__init__/add_eflr/add_iflr`)
                                                                 → `indexStep`, `indexRecs`

Core Lean only.  `LogicalData` (bytes + read index) is modelled by the list of *remaining* bytes: every decision of the
readers depends only on `ld.remain` and the bytes after the index.  A Python exception is `Except Err`.
-/
namespace TD.C03

abbrev Bytes := List Nat

inductive Err where
  | index            -- IndexError: read/peek/chunk past the end of the logical data
  | compDesc         -- ExceptionComponentDescriptorInit (reserved bits / missing mandatory characteristic)
  | eflrSet          -- ExceptionEFLRSet
  | eflrTemplate     -- ExceptionEFLRTemplate
  | eflrTemplateDup  -- ExceptionEFLRTemplateDuplicateLabel
  | eflrObject       -- ExceptionEFLRObject
  | eflrObjectDup    -- ExceptionEFLRObjectDuplicateLabel
  | repCode          -- ExceptionRepCode (unsupported representation code)
  | lfCtor           -- ExceptionLogicalFileCtor
  | lfAdd            -- ExceptionLogicalFileAdd
  | lfMissing        -- ExceptionLogicalFileMissingData
  | liCtor           -- ExceptionLogicalIndexCtor
  deriving Repr, DecidableEq

/-- A reader: consumes a prefix of the remaining bytes. -/
abbrev Rd (α : Type) := Bytes → Except Err (α × Bytes)

/-! ### LogicalData primitives -/

/-- `ld.read()` -/
def readByte : Rd Nat
  | [] => .error .index
  | b :: r => .ok (b, r)

/-- `ld.chunk(n)` -/
def chunk (n : Nat) : Rd Bytes := fun bs =>
  if n > bs.length then .error .index else .ok (bs.take n, bs.drop n)

/-- big-endian unsigned value of a byte string (`struct.unpack('>I')` etc.). -/
def beVal (bs : Bytes) : Nat := bs.foldl (fun a b => a * 256 + b) 0

/-- `struct.unpack` of an `n`-byte big-endian unsigned word taken with `ld.chunk(n)`. -/
def readBE (n : Nat) : Rd Nat := fun bs =>
  match chunk n bs with
  | .error e => .error e
  | .ok (c, r) => .ok (beVal c, r)

/-! ### Representation codes (`pRepCode.py`) -/

def readUshort : Rd Nat := readByte

/-- `UNORM`: two single reads. -/
def readUnorm : Rd Nat := fun bs =>
  match readByte bs with
  | .error e => .error e
  | .ok (a, r) => match readByte r with
    | .error e => .error e
    | .ok (b, r') => .ok (a * 256 + b, r')

/-- `UVARI` exactly as coded (1, 2 or 4 bytes by the two top bits). -/
def readUvari : Rd Nat := fun bs =>
  match readByte bs with
  | .error e => .error e
  | .ok (v, r) =>
    if v / 64 = 2 then            -- v & 0xc0 == 0x80
      match readByte r with
      | .error e => .error e
      | .ok (b, r') => .ok ((v % 128) * 256 + b, r')
    else if v / 64 = 3 then       -- v & 0xc0 == 0xc0
      match readByte r with
      | .error e => .error e
      | .ok (b1, r1) => match readByte r1 with
        | .error e => .error e
        | .ok (b2, r2) => match readByte r2 with
          | .error e => .error e
          | .ok (b3, r3) => .ok ((((v % 64) * 256 + b1) * 256 + b2) * 256 + b3, r3)
    else .ok (v, r)

/-- `_pascal_string`: IDENT and UNITS (the UNITS character check only logs). -/
def readIdent : Rd Bytes := fun bs =>
  match readByte bs with
  | .error e => .error e
  | .ok (n, r) => chunk n r

/-- `ASCII`: UVARI length then the characters. -/
def readAscii : Rd Bytes := fun bs =>
  match readUvari bs with
  | .error e => .error e
  | .ok (n, r) => chunk n r

/-- two's complement reinterpretation of an unsigned `bits`-bit value (`struct.unpack('>h')`, `'>i'`, SSHORT). -/
def toSigned (bits : Nat) (u : Nat) : Int :=
  if u ≥ 2 ^ (bits - 1) then (u : Int) - (2 ^ bits : Nat) else (u : Int)

/-- A decoded value.  Floating codes (FSINGL 2, ISINGL 5, VSINGL 6, FDOUBL 7) are kept as the code that was used to
read them and their raw big-endian word; the number Python computes from it is `floatVal` below (a function of the code
and the word only). -/
inductive Value where
  | int (v : Int)
  | word (code : Nat) (w : Nat)
  | bytes (b : Bytes)
  | dtime (y tz mo d h mi s ms : Nat)
  | obname (o c : Nat) (i : Bytes)
  | objref (t : Bytes) (o c : Nat) (i : Bytes)
  deriving Repr, DecidableEq

structure ObName where
  o : Nat
  c : Nat
  i : Bytes
  deriving Repr, DecidableEq

/-- `OBNAME`: ORIGIN (UVARI), USHORT, IDENT. -/
def readObname : Rd ObName := fun bs =>
  match readUvari bs with
  | .error e => .error e
  | .ok (o, r) => match readUshort r with
    | .error e => .error e
    | .ok (c, r1) => match readIdent r1 with
      | .error e => .error e
      | .ok (i, r2) => .ok (⟨o, c, i⟩, r2)

/-- `DateTime.__init__` -/
def readDtime : Rd Value := fun bs =>
  match readUshort bs with
  | .error e => .error e
  | .ok (y, r0) => match readByte r0 with
    | .error e => .error e
    | .ok (v, r1) => match readUshort r1 with
      | .error e => .error e
      | .ok (d, r2) => match readUshort r2 with
        | .error e => .error e
        | .ok (h, r3) => match readUshort r3 with
          | .error e => .error e
          | .ok (mi, r4) => match readUshort r4 with
            | .error e => .error e
            | .ok (s, r5) => match readUnorm r5 with
              | .error e => .error e
              | .ok (ms, r6) => .ok (.dtime (y + 1900) (v / 16 % 16) (v % 16) d h mi s ms, r6)

/-- `code_read(rep_code, ld)` through `REP_CODE_MAP`; codes outside the map raise `ExceptionRepCode`. -/
def readValue (rc : Nat) : Rd Value := fun bs =>
  if rc = 2 ∨ rc = 5 ∨ rc = 6 then
    match readBE 4 bs with | .error e => .error e | .ok (w, r) => .ok (.word rc w, r)
  else if rc = 7 then
    match readBE 8 bs with | .error e => .error e | .ok (w, r) => .ok (.word rc w, r)
  else if rc = 12 then
    match readByte bs with | .error e => .error e | .ok (u, r) => .ok (.int (toSigned 8 u), r)
  else if rc = 13 then
    match readBE 2 bs with | .error e => .error e | .ok (u, r) => .ok (.int (toSigned 16 u), r)
  else if rc = 14 then
    match readBE 4 bs with | .error e => .error e | .ok (u, r) => .ok (.int (toSigned 32 u), r)
  else if rc = 15 ∨ rc = 26 then
    match readUshort bs with | .error e => .error e | .ok (u, r) => .ok (.int u, r)
  else if rc = 16 then
    match readUnorm bs with | .error e => .error e | .ok (u, r) => .ok (.int u, r)
  else if rc = 17 then
    match readBE 4 bs with | .error e => .error e | .ok (u, r) => .ok (.int u, r)
  else if rc = 18 ∨ rc = 22 then
    match readUvari bs with | .error e => .error e | .ok (u, r) => .ok (.int u, r)
  else if rc = 19 ∨ rc = 27 then
    match readIdent bs with | .error e => .error e | .ok (b, r) => .ok (.bytes b, r)
  else if rc = 20 then
    match readAscii bs with | .error e => .error e | .ok (b, r) => .ok (.bytes b, r)
  else if rc = 21 then readDtime bs
  else if rc = 23 then
    match readObname bs with | .error e => .error e | .ok (n, r) => .ok (.obname n.o n.c n.i, r)
  else if rc = 24 then
    match readIdent bs with
    | .error e => .error e
    | .ok (t, r) => match readObname r with
      | .error e => .error e
      | .ok (n, r') => .ok (.objref t n.o n.c n.i, r')
  else .error .repCode

/-- `[code_read(rep_code, ld) for _ in range(count)]` -/
def readValues (rc : Nat) : Nat → Rd (List Value)
  | 0, bs => .ok ([], bs)
  | n + 1, bs =>
    match readValue rc bs with
    | .error e => .error e
    | .ok (v, r) => match readValues rc n r with
      | .error e => .error e
      | .ok (vs, r') => .ok (v :: vs, r')

/-! ### Component descriptor -/

structure CD where
  desc : Nat
  deriving Repr, DecidableEq

namespace CD
def role (c : CD) : Nat := c.desc / 32 * 32          -- `_desc & 0xe0`
def bits (c : CD) : Nat := c.desc % 32               -- `_desc & 0x1f`
def isAttrGroup (c : CD) : Bool := c.role < 0x60
def isSetGroup (c : CD) : Bool := c.role > 0x80
def isObject (c : CD) : Bool := c.role = 0x60
def isAbsent (c : CD) : Bool := c.role = 0x00
def isInvariant (c : CD) : Bool := c.role = 0x40
def hasL (c : CD) : Bool := c.bits / 16 % 2 = 1
def hasC (c : CD) : Bool := c.bits / 8 % 2 = 1
def hasR (c : CD) : Bool := c.bits / 4 % 2 = 1
def hasU (c : CD) : Bool := c.bits / 2 % 2 = 1
def hasV (c : CD) : Bool := c.bits % 2 = 1
def hasSetN (c : CD) : Bool := c.bits / 8 % 2 = 1
end CD

/-- `ComponentDescriptor.__init__` (the byte is in 0..255 because it comes from a bytes object). -/
def mkCD (b : Nat) : Except Err CD :=
  let c : CD := ⟨b⟩
  if c.isSetGroup ∧ c.bits % 8 ≠ 0 then .error .compDesc            -- reserved bits of a SET
  else if c.isObject ∧ c.bits % 16 ≠ 0 then .error .compDesc       -- reserved bits of an OBJECT
  else if c.isSetGroup ∧ c.bits / 16 % 2 = 0 then .error .compDesc -- SET must have a Type
  else if c.isObject ∧ c.bits / 16 % 2 = 0 then .error .compDesc   -- OBJECT must have a Name
  else .ok c

/-! ### Tables -/

/-- label, count, representation code, units, value (`None` = no value / absent). -/
structure Attr where
  label : Bytes
  count : Nat
  rc : Nat
  units : Bytes
  value : Option (List Value)
  deriving Repr, DecidableEq

/-- A template attribute: its characteristics and whether its component role is INVATR. -/
structure Column where
  inv : Bool
  attr : Attr
  deriving Repr, DecidableEq

structure Row where
  name : ObName
  cells : List Attr
  deriving Repr, DecidableEq

/-- What `ExplicitlyFormattedLogicalRecord` presents: set, template, objects. -/
structure Table where
  stype : Bytes
  sname : Bytes
  cols : List Column
  rows : List Row
  deriving Repr, DecidableEq

/-- The global defaults of `AttributeBase.__init__`. -/
def globalDefault : Attr := { label := [], count := 1, rc := 19, units := [], value := none }

/-- `Set.__init__` -/
def readSet : Rd (Bytes × Bytes) := fun bs =>
  match readByte bs with
  | .error e => .error e
  | .ok (b, r) => match mkCD b with
    | .error e => .error e
    | .ok cd =>
      if !cd.isSetGroup then .error .eflrSet else
      match readIdent r with
      | .error e => .error e
      | .ok (t, r1) =>
        if cd.hasSetN then
          match readIdent r1 with
          | .error e => .error e
          | .ok (n, r2) => .ok ((t, n), r2)
        else .ok ((t, []), r1)

/-- `TemplateAttribute.__init__` (`dflt` = global defaults) and `Attribute.__init__` (`dflt` = the template
attribute): each characteristic is read when its bit is set, otherwise taken from `dflt`; the value is read with the
representation code and count in force *after* the previous fields. -/
def readAttr (cd : CD) (dflt : Attr) : Rd Attr := fun bs =>
  match (if cd.hasL then readIdent bs else .ok (dflt.label, bs)) with
  | .error e => .error e
  | .ok (label, b1) =>
    match (if cd.hasC then readUvari b1 else .ok (dflt.count, b1)) with
    | .error e => .error e
    | .ok (count, b2) =>
      match (if cd.hasR then readUshort b2 else .ok (dflt.rc, b2)) with
      | .error e => .error e
      | .ok (rc, b3) =>
        match (if cd.hasU then readIdent b3 else .ok (dflt.units, b3)) with
        | .error e => .error e
        | .ok (units, b4) =>
          if cd.hasV then
            match readValues rc count b4 with
            | .error e => .error e
            | .ok (vs, b5) => .ok ({ label, count, rc, units, value := some vs }, b5)
          else .ok ({ label, count, rc, units, value := dflt.value }, b4)

/-- `Template.read`: loop until end of data or the next component is an OBJECT.  `seen` = labels read so far. -/
def readTemplate : Nat → List Bytes → Rd (List Column)
  | 0, _, _ => .error .index
  | fuel + 1, seen, bs =>
    match readByte bs with
    | .error e => .error e
    | .ok (b, r) => match mkCD b with
      | .error e => .error e
      | .ok cd =>
        if !cd.isAttrGroup then .error .eflrTemplate else
        match readAttr cd globalDefault r with
        | .error e => .error e
        | .ok (a, r1) =>
          if seen.contains a.label then .error .eflrTemplateDup else
          let col : Column := ⟨cd.isInvariant, a⟩
          match r1 with
          | [] => .ok ([col], [])
          | nb :: _ => match mkCD nb with
            | .error e => .error e
            | .ok ncd =>
              if ncd.isObject then .ok ([col], r1) else
              match readTemplate fuel (a.label :: seen) r1 with
              | .error e => .error e
              | .ok (cols, r2) => .ok (col :: cols, r2)

/-- The attribute loop of `Object.__init__` as now coded: an invariant column takes the template attribute and
consumes nothing; otherwise stop (`break`) at end of data or when the next component is an OBJECT — the remaining
cells are then filled from the template; otherwise read one component; an ABSATR component gives value `None`. -/
def objLoop : List Column → Rd (List Attr)
  | [], bs => .ok ([], bs)
  | col :: cols, bs =>
    if col.inv then
      match objLoop cols bs with
      | .error e => .error e
      | .ok (as, r) => .ok (col.attr :: as, r)
    else
      match bs with
      | [] => .ok ((col :: cols).map Column.attr, [])
      | b :: r => match mkCD b with
        | .error e => .error e
        | .ok cd =>
          if cd.isObject then .ok ((col :: cols).map Column.attr, bs) else
          if !cd.isAttrGroup then .error .eflrObject else
          match readAttr cd col.attr r with
          | .error e => .error e
          | .ok (a, r1) =>
            let a' : Attr := if cd.isAbsent then { a with value := none } else a
            match objLoop cols r1 with
            | .error e => .error e
            | .ok (as, r2) => .ok (a' :: as, r2)

/-- first duplicated element test used for the label maps -/
def hasDup : List Bytes → Bool
  | [] => false
  | x :: xs => xs.contains x || hasDup xs

/-- `Object.__init__` -/
def readObject (tmpl : List Column) : Rd Row := fun bs =>
  match readByte bs with
  | .error e => .error e
  | .ok (b, r) => match mkCD b with
    | .error e => .error e
    | .ok cd =>
      if !cd.isObject then .error .eflrObject else
      match readObname r with
      | .error e => .error e
      | .ok (name, r1) => match objLoop tmpl r1 with
        | .error e => .error e
        | .ok (cells, r2) =>
          if hasDup (cells.map Attr.label) then .error .eflrObjectDup else .ok (⟨name, cells⟩, r2)

/-- `while ld: obj = Object(ld, template)` — all objects in file order, duplicates included. -/
def readObjects (tmpl : List Column) : Nat → Bytes → Except Err (List Row)
  | 0, _ => .error .index
  | fuel + 1, bs =>
    match bs with
    | [] => .ok []
    | _ :: _ => match readObject tmpl bs with
      | .error e => .error e
      | .ok (row, r) => match readObjects tmpl fuel r with
        | .error e => .error e
        | .ok rows => .ok (row :: rows)

/-- state of the duplicate handling: objects so far, name → index map, indexes to remove -/
structure DedupSt where
  objs : List Row
  map : List (ObName × Nat)
  dupes : List Nat

def mapSet (m : List (ObName × Nat)) (k : ObName) (v : Nat) : List (ObName × Nat) :=
  match m with
  | [] => [(k, v)]
  | (k', v') :: m' => if k' = k then (k, v) :: m' else (k', v') :: mapSet m' k v

/-- `DuplicateObjectStrategy.REPLACE`: the earlier object is marked for removal, the new one appended. -/
def dedupStep (st : DedupSt) (row : Row) : DedupSt :=
  match st.map.lookup row.name with
  | none => { objs := st.objs ++ [row], map := mapSet st.map row.name st.objs.length, dupes := st.dupes }
  | some i => { objs := st.objs ++ [row], map := mapSet st.map row.name st.objs.length, dupes := st.dupes ++ [i] }

def removeIdx (l : List Row) (idx : List Nat) : List Row :=
  (l.zipIdx.filter (fun p => !idx.contains p.2)).map Prod.fst

def dedup (rows : List Row) : List Row :=
  let st := rows.foldl dedupStep ⟨[], [], []⟩
  removeIdx st.objs st.dupes

/-- `ExplicitlyFormattedLogicalRecord.__init__` -/
def readEflr (bs : Bytes) : Except Err Table :=
  match readSet bs with
  | .error e => .error e
  | .ok ((t, n), r) =>
    match r with
    | [] => .ok ⟨t, n, [], []⟩
    | _ :: _ => match readTemplate (r.length + 1) [] r with
      | .error e => .error e
      | .ok (cols, r1) => match readObjects cols (r1.length + 1) r1 with
        | .error e => .error e
        | .ok rows => .ok ⟨t, n, cols, dedup rows⟩

/-! ### IFLR header and the logical-file index -/

/-- `IndirectlyFormattedLogicalRecord.__init__`: object name, frame number, the free data that remains. -/
def readIflrHeader : Rd (ObName × Nat) := fun bs =>
  match readObname bs with
  | .error e => .error e
  | .ok (n, r) => match readUvari r with
    | .error e => .error e
    | .ok (f, r') => .ok ((n, f), r')

/-- One logical record as delivered by the physical layer (C01/C02). -/
structure Rec where
  encrypted : Bool
  isEflr : Bool
  lrType : Nat
  payload : Bytes
  deriving Repr, DecidableEq

/-- A `LogicalFile`: its EFLRs `(position, lr_type, table)` in order, whether a CHANNEL / FRAME table has been seen
(the log pass exists when both have), and the attached non-empty IFLRs `(position, object name, frame number)` in file
order (`iflr_position_map[name]` is the sub-list with that name).  Construction of the log pass from the two tables and
the X value read from each IFLR are modelled in `TD.C04`. -/
structure LFile where
  eflrs : List (Nat × Nat × Table)
  hasChannel : Bool
  hasFrame : Bool
  iflrs : List (Nat × ObName × Nat)
  deriving Repr, DecidableEq

def sFILE_HEADER : Bytes := [70, 73, 76, 69, 45, 72, 69, 65, 68, 69, 82]
def sORIGIN : Bytes := [79, 82, 73, 71, 73, 78]
def sWELL_REFERENCE : Bytes := [87, 69, 76, 76, 45, 82, 69, 70, 69, 82, 69, 78, 67, 69]
def sCHANNEL : Bytes := [67, 72, 65, 78, 78, 69, 76]
def sFRAME : Bytes := [70, 82, 65, 77, 69]

/-- `LogicalFile.add_eflr` on the last logical file (the caller has established `not is_next(eflr)`). -/
def addEflr (lf : LFile) (pos lrType : Nat) (t : Table) : Except Err LFile :=
  if lf.eflrs.length < 2 then
    -- `_add_origin_eflr`
    if lrType ≠ 1 then .error .lfAdd
    else if ¬ (t.stype = sORIGIN ∨ t.stype = sWELL_REFERENCE) then .error .lfAdd
    else if lf.eflrs.length ≠ 1 then .error .lfAdd
    else .ok { lf with eflrs := lf.eflrs ++ [(pos, lrType, t)] }
  else
    let lf1 := { lf with eflrs := lf.eflrs ++ [(pos, lrType, t)] }
    if t.stype = sCHANNEL then
      if lf.hasChannel then .error .lfAdd else .ok { lf1 with hasChannel := true }
    else if t.stype = sFRAME then
      if lf.hasFrame then .error .lfAdd else .ok { lf1 with hasFrame := true }
    else .ok lf1

/-- `LogicalFile.add_iflr` as far as this property is concerned (`_check_fld_iflr`, then append). -/
def addIflr (lf : LFile) (pos : Nat) (name : ObName) (frameNo : Nat) : Except Err LFile :=
  if lf.eflrs.length < 2 then .error .lfMissing
  else if ¬ (lf.hasChannel ∧ lf.hasFrame) then .error .lfAdd
  else .ok { lf with iflrs := lf.iflrs ++ [(pos, name, frameNo)] }

/-- replace the last element -/
def setLast (l : List LFile) (x : LFile) : List LFile := l.dropLast ++ [x]

/-- One iteration of the loop in `LogicalIndex.__enter__`. -/
def indexStep (files : List LFile) (p : Nat × Rec) : Except Err (List LFile) :=
  let pos := p.1
  let rec_ := p.2
  if rec_.encrypted then .ok files else
  if rec_.isEflr then
    match readEflr rec_.payload with
    | .error e => .error e
    | .ok t =>
      match files.getLast? with
      | none =>
        -- `LogicalFile.__init__`
        if rec_.lrType ≠ 0 then .error .lfCtor
        else if t.stype ≠ sFILE_HEADER then .error .lfCtor
        else .ok [⟨[(pos, rec_.lrType, t)], false, false, []⟩]
      | some lf =>
        if t.stype = sFILE_HEADER then
          if rec_.lrType ≠ 0 then .error .lfCtor
          else .ok (files ++ [⟨[(pos, rec_.lrType, t)], false, false, []⟩])
        else
          match addEflr lf pos rec_.lrType t with
          | .error e => .error e
          | .ok lf' => .ok (setLast files lf')
  else
    match files.getLast? with
    | none => .error .liCtor
    | some lf =>
      match readIflrHeader rec_.payload with
      | .error e => .error e
      | .ok ((name, frameNo), rest) =>
        match rest with
        | [] => .ok files
        | _ :: _ =>
          match addIflr lf pos name frameNo with
          | .error e => .error e
          | .ok lf' => .ok (setLast files lf')

/-- the whole loop over the (position, record) pairs -/
def indexFrom : List LFile → List (Nat × Rec) → Except Err (List LFile)
  | files, [] => .ok files
  | files, p :: ps =>
    match indexStep files p with
    | .error e => .error e
    | .ok files' => indexFrom files' ps

def indexRecs (recs : List (Nat × Rec)) : Except Err (List LFile) := indexFrom [] recs

/-- `LogicalIndex.__enter__` on an object whose `logical_files` currently holds `prev` (left by `__init__`, by an
earlier `__enter__`/`__exit__`, …): the list is re-initialised (`self.logical_files = []`) before the loop. -/
def enterIndex (_prev : List LFile) (recs : List (Nat × Rec)) : Except Err (List LFile) := indexFrom [] recs

/-- `LogicalIndex.__exit__`: `self.logical_files = []` -/
def exitIndex (_cur : List LFile) : List LFile := []

/-! ### The number Python computes from a floating word (used by the driver to print values; see also C07) -/

inductive FVal where
  | nan
  | inf (neg : Bool)
  | fin (neg : Bool) (m : Nat) (e : Int)     -- (-1)^neg · m · 2^e
  deriving Repr, DecidableEq

/-- strip factors of two: `m` odd (or `0` with exponent `0`). -/
def normFin (neg : Bool) (m : Nat) (e : Int) : FVal :=
  let rec go : Nat → Nat → Int → FVal
    | 0, m, e => .fin neg m e
    | fuel + 1, m, e => if m = 0 then .fin neg 0 0 else if m % 2 = 0 then go fuel (m / 2) (e + 1) else .fin neg m e
  go 64 m e

/-- IEEE-754 binary interchange decode (`struct.unpack('>f')` with ebits=8,fbits=23; `'>d'` with 11, 52). -/
def ieeeVal (ebits fbits : Nat) (w : Nat) : FVal :=
  let frac := w % 2 ^ fbits
  let ex := w / 2 ^ fbits % 2 ^ ebits
  let neg := w / 2 ^ (fbits + ebits) % 2 = 1
  let bias : Int := (2 ^ (ebits - 1) : Nat) - 1
  if ex = 2 ^ ebits - 1 then (if frac = 0 then .inf neg else .nan)
  else if ex = 0 then normFin neg frac (1 - bias - fbits)
  else normFin neg (2 ^ fbits + frac) ((ex : Int) - bias - fbits)

/-- `ISINGL` as coded: `mantissa / 0x1000000 * 16**(exp - 64)` (exact in binary64). -/
def isinglVal (w : Nat) : FVal :=
  let b0 := w / 2 ^ 24 % 256
  normFin (b0 / 128 = 1) (w % 2 ^ 24) (4 * ((b0 % 128 : Nat) - 64) - 24)

/-- `VSINGL` as coded (bytes `by[0..3]` of the big-endian word). -/
def vsinglVal (w : Nat) : FVal :=
  let by0 := w / 2 ^ 24 % 256
  let by1 := w / 2 ^ 16 % 256
  let by2 := w / 2 ^ 8 % 256
  let by3 := w % 256
  let s := by1 / 128 = 1
  let m := (by0 % 128) * 65536 + by3 * 256 + by2
  let e := (by1 % 128) * 2 + by0 / 128
  if e = 0 ∧ ¬ s then .fin false 0 0
  else normFin s (2 ^ 22 + m) ((e : Int) - 128 - 23)

def floatVal (rc : Nat) (w : Nat) : FVal :=
  if rc = 2 then ieeeVal 8 23 w else if rc = 5 then isinglVal w else if rc = 6 then vsinglVal w else ieeeVal 11 52 w

end TD.C03
