/-
C03 — helper lemmas: every reader of the model inverts the corresponding encoder of the specification.
-/
import TD.C03.Model
import TD.C03.Spec

namespace TD.C03

/-! ### primitives -/

@[simp] theorem readByte_cons (b : Nat) (r : Bytes) : readByte (b :: r) = .ok (b, r) := rfl

theorem chunk_append (bs r : Bytes) : chunk bs.length (bs ++ r) = .ok (bs, r) := by
  unfold chunk
  simp

theorem beVal_snoc (l : Bytes) (b : Nat) : beVal (l ++ [b]) = beVal l * 256 + b := by
  unfold beVal; simp [List.foldl_append]

theorem beEnc_length (n v : Nat) : (beEnc n v).length = n := by
  induction n generalizing v with
  | zero => rfl
  | succ n ih => simp [beEnc, ih]

theorem beVal_beEnc (n v : Nat) (h : v < 256 ^ n) : beVal (beEnc n v) = v := by
  induction n generalizing v with
  | zero => simp [beEnc, beVal] at *; omega
  | succ n ih =>
    simp only [beEnc, beVal_snoc]
    have h1 : v / 256 < 256 ^ n := by
      rw [Nat.pow_succ] at h
      exact Nat.div_lt_of_lt_mul (by rw [Nat.mul_comm]; exact h)
    rw [ih _ h1]; omega

theorem readBE_enc (n v : Nat) (r : Bytes) (h : v < 256 ^ n) : readBE n (beEnc n v ++ r) = .ok (v, r) := by
  unfold readBE
  have := chunk_append (beEnc n v) r
  rw [beEnc_length] at this
  rw [this]; simp [beVal_beEnc n v h]

theorem readUvari_enc (v : Nat) (r : Bytes) (h : v < 1073741824) : readUvari (encUvari v ++ r) = .ok (v, r) := by
  unfold encUvari readUvari
  by_cases h1 : v < 128
  · simp only [h1, if_true, List.cons_append, List.nil_append, readByte_cons]
    have a : ¬ (v / 64 = 2) := by omega
    have b : ¬ (v / 64 = 3) := by omega
    simp [a, b]
  · by_cases h2 : v < 16384
    · simp only [h1, h2, if_true, if_false, List.cons_append, List.nil_append, readByte_cons]
      have a : (128 + v / 256) / 64 = 2 := by omega
      simp only [a, if_true]
      congr 2; omega
    · simp only [h1, h2, if_false, List.cons_append, List.nil_append, readByte_cons]
      have b : (192 + v / 16777216) / 64 = 3 := by omega
      simp only [b, show ¬ (3 = 2) from by decide, if_true, if_false]
      have e1 : v / 65536 / 256 = v / 16777216 := by rw [Nat.div_div_eq_div_mul]
      have e2 : v / 256 / 256 = v / 65536 := by rw [Nat.div_div_eq_div_mul]
      congr 2; omega

theorem readIdent_enc (b r : Bytes) : readIdent (encIdent b ++ r) = .ok (b, r) := by
  unfold readIdent encIdent
  simp [chunk_append]

theorem readAscii_enc (b r : Bytes) (h : b.length < 1073741824) : readAscii (encAscii b ++ r) = .ok (b, r) := by
  unfold readAscii encAscii
  rw [List.append_assoc, readUvari_enc _ _ h]
  simp [chunk_append]

theorem readObname_enc (n : ObName) (r : Bytes) (h : n.o < 1073741824) :
    readObname (encObname n ++ r) = .ok (n, r) := by
  unfold readObname encObname
  rw [List.append_assoc, List.append_assoc, readUvari_enc _ _ h]
  simp [readUshort, readIdent_enc]

theorem readUnorm_enc (v : Nat) (r : Bytes) (h : v < 65536) : readUnorm (beEnc 2 v ++ r) = .ok (v, r) := by
  simp only [beEnc, readUnorm, List.nil_append, List.cons_append, readByte_cons]
  congr 2; omega

theorem toSigned_enc8 (v : Int) (h1 : -128 ≤ v) (h2 : v < 128) : toSigned 8 (v % 256).toNat = v := by
  unfold toSigned; simp only [show (2:Nat) ^ (8 - 1) = 128 from rfl, show (2:Nat)^8 = 256 from rfl]; split <;> omega

theorem toSigned_enc16 (v : Int) (h1 : -32768 ≤ v) (h2 : v < 32768) : toSigned 16 (v % 65536).toNat = v := by
  unfold toSigned; simp only [show (2:Nat) ^ (16 - 1) = 32768 from rfl, show (2:Nat)^16 = 65536 from rfl]; split <;> omega

theorem toSigned_enc32 (v : Int) (h1 : -2147483648 ≤ v) (h2 : v < 2147483648) :
    toSigned 32 (v % 4294967296).toNat = v := by
  unfold toSigned
  simp only [show (2:Nat) ^ (32 - 1) = 2147483648 from rfl, show (2:Nat)^32 = 4294967296 from rfl]; split <;> omega

/-! ### values -/

theorem readDtime_enc (y tz mo d h mi s ms : Nat) (r : Bytes)
    (hy : 1900 ≤ y) (htz : tz < 16) (hmo : mo < 16) (_hms : ms < 65536) :
    readDtime ([y - 1900, tz * 16 + mo, d, h, mi, s, ms / 256, ms % 256] ++ r) = .ok (.dtime y tz mo d h mi s ms, r) := by
  simp only [readDtime, readUshort, readUnorm, List.cons_append, List.nil_append, readByte_cons]
  congr 2
  have e1 : y - 1900 + 1900 = y := by omega
  have e2 : (tz * 16 + mo) / 16 % 16 = tz := by omega
  have e3 : (tz * 16 + mo) % 16 = mo := by omega
  have e4 : ms / 256 * 256 + ms % 256 = ms := by omega
  rw [e1, e2, e3, e4]

theorem readValue_enc (rc : Nat) (v : Value) (r : Bytes) (h : valOk rc v = true) :
    readValue rc (encValue rc v ++ r) = .ok (v, r) := by
  cases v with
  | word c w =>
    simp only [valOk, decide_eq_true_eq] at h
    obtain ⟨hc, h⟩ := h
    subst hc
    rcases h with ⟨h1, h2⟩ | ⟨h1, h2⟩
    · have hne : ¬ (c = 7) := by omega
      simp only [readValue, encValue, hne, if_false, h1, if_true]
      rw [readBE_enc 4 w r (by simpa using h2)]
    · subst h1
      simp only [readValue, encValue, if_true]
      rw [readBE_enc 8 w r (by simpa using h2)]
      simp
  | int v =>
    simp only [valOk, decide_eq_true_eq] at h
    rcases h with ⟨h0, h1, h2⟩ | ⟨h0, h1, h2⟩ | ⟨h0, h1, h2⟩ | ⟨h0, h1, h2⟩ | ⟨h0, h1, h2⟩ | ⟨h0, h1, h2⟩ | ⟨h0, h1, h2⟩
    · subst h0
      simp [readValue, encValue, toSigned_enc8 v h1 h2]
    · subst h0
      simp only [readValue, encValue]
      simp only [show ¬ ((13:Nat) = 2 ∨ (13:Nat) = 5 ∨ (13:Nat) = 6) from by decide, show ¬ ((13:Nat) = 7) from by decide,
        show ¬ ((13:Nat) = 12) from by decide, if_true, if_false]
      rw [readBE_enc 2 _ r (by simp; omega)]
      simp [toSigned_enc16 v h1 h2]
    · subst h0
      simp only [readValue, encValue]
      simp only [show ¬ ((14:Nat) = 2 ∨ (14:Nat) = 5 ∨ (14:Nat) = 6) from by decide, show ¬ ((14:Nat) = 7) from by decide,
        show ¬ ((14:Nat) = 12) from by decide, show ¬ ((14:Nat) = 13) from by decide, if_true, if_false]
      rw [readBE_enc 4 _ r (by simp; omega)]
      simp [toSigned_enc32 v h1 h2]
    · have e : ((v.toNat : Nat) : Int) = v := by omega
      rcases h0 with h0 | h0 <;> subst h0 <;> simp [readValue, encValue, readUshort, e]
    · subst h0
      have e : ((v.toNat : Nat) : Int) = v := by omega
      simp only [readValue, encValue]
      simp only [show ¬ ((16:Nat) = 2 ∨ (16:Nat) = 5 ∨ (16:Nat) = 6) from by decide, show ¬ ((16:Nat) = 7) from by decide,
        show ¬ ((16:Nat) = 12) from by decide, show ¬ ((16:Nat) = 13) from by decide, show ¬ ((16:Nat) = 14) from by decide,
        show ¬ ((16:Nat) = 15 ∨ (16:Nat) = 26) from by decide, if_true, if_false]
      rw [readUnorm_enc _ r (by omega)]
      simp [e]
    · subst h0
      have e : ((v.toNat : Nat) : Int) = v := by omega
      simp only [readValue, encValue]
      simp only [show ¬ ((17:Nat) = 2 ∨ (17:Nat) = 5 ∨ (17:Nat) = 6) from by decide, show ¬ ((17:Nat) = 7) from by decide,
        show ¬ ((17:Nat) = 12) from by decide, show ¬ ((17:Nat) = 13) from by decide, show ¬ ((17:Nat) = 14) from by decide,
        show ¬ ((17:Nat) = 15 ∨ (17:Nat) = 26) from by decide, show ¬ ((17:Nat) = 16) from by decide, if_true, if_false]
      rw [readBE_enc 4 _ r (by simp; omega)]
      simp [e]
    · have e : ((v.toNat : Nat) : Int) = v := by omega
      have hu := readUvari_enc v.toNat r (by omega)
      rcases h0 with h0 | h0 <;> subst h0 <;> simp [readValue, encValue, hu, e]
  | bytes b =>
    simp only [valOk, decide_eq_true_eq] at h
    rcases h with ⟨h0, h1⟩ | ⟨h0, h1⟩
    · rcases h0 with h0 | h0 <;> subst h0 <;> simp [readValue, encValue, readIdent_enc]
    · subst h0
      simp [readValue, encValue, readAscii_enc b r h1]
  | dtime y tz mo d hh mi s ms =>
    simp only [valOk, decide_eq_true_eq] at h
    obtain ⟨h0, hy, _, htz, hmo, _, _, _, _, hms⟩ := h
    subst h0
    simp only [readValue, encValue]
    simp only [show ¬ ((21:Nat) = 2 ∨ (21:Nat) = 5 ∨ (21:Nat) = 6) from by decide, show ¬ ((21:Nat) = 7) from by decide,
        show ¬ ((21:Nat) = 12) from by decide, show ¬ ((21:Nat) = 13) from by decide, show ¬ ((21:Nat) = 14) from by decide,
        show ¬ ((21:Nat) = 15 ∨ (21:Nat) = 26) from by decide, show ¬ ((21:Nat) = 16) from by decide,
        show ¬ ((21:Nat) = 17) from by decide, show ¬ ((21:Nat) = 18 ∨ (21:Nat) = 22) from by decide,
        show ¬ ((21:Nat) = 19 ∨ (21:Nat) = 27) from by decide, show ¬ ((21:Nat) = 20) from by decide, if_true, if_false]
    exact readDtime_enc y tz mo d hh mi s ms r hy htz hmo hms
  | obname o c i =>
    simp only [valOk, decide_eq_true_eq] at h
    obtain ⟨h0, ho, _, _⟩ := h
    subst h0
    simp [readValue, encValue, readObname_enc ⟨o, c, i⟩ r ho]
  | objref t o c i =>
    simp only [valOk, decide_eq_true_eq] at h
    obtain ⟨h0, _, ho, _, _⟩ := h
    subst h0
    simp [readValue, encValue, readIdent_enc, readObname_enc ⟨o, c, i⟩ r ho]

theorem readValues_enc (rc : Nat) (vs : List Value) (r : Bytes) (h : ∀ v ∈ vs, valOk rc v = true) :
    readValues rc vs.length (encValues rc vs ++ r) = .ok (vs, r) := by
  induction vs with
  | nil => simp [readValues, encValues]
  | cons v vs ih =>
    have hv := h v (by simp)
    have hvs : ∀ v ∈ vs, valOk rc v = true := fun x hx => h x (by simp [hx])
    simp only [encValues, List.flatMap_cons, List.length_cons, readValues, List.append_assoc]
    rw [readValue_enc rc v _ hv]
    have := ih hvs
    simp only [encValues] at this
    simp [this]

/-! ### component descriptors -/

theorem attrDesc_facts (role : Nat) (hr : role = 0x20 ∨ role = 0x40) (l c r u v : Bool) :
    mkCD (attrDesc role l c r u v) = .ok ⟨attrDesc role l c r u v⟩ ∧
    (⟨attrDesc role l c r u v⟩ : CD).isAttrGroup = true ∧ (⟨attrDesc role l c r u v⟩ : CD).isObject = false ∧
    (⟨attrDesc role l c r u v⟩ : CD).isAbsent = false ∧
    (⟨attrDesc role l c r u v⟩ : CD).isInvariant = decide (role = 0x40) ∧
    (⟨attrDesc role l c r u v⟩ : CD).hasL = l ∧ (⟨attrDesc role l c r u v⟩ : CD).hasC = c ∧
    (⟨attrDesc role l c r u v⟩ : CD).hasR = r ∧ (⟨attrDesc role l c r u v⟩ : CD).hasU = u ∧
    (⟨attrDesc role l c r u v⟩ : CD).hasV = v := by
  rcases hr with rfl | rfl <;> cases l <;> cases c <;> cases r <;> cases u <;> cases v <;>
    exact ⟨rfl, rfl, rfl, rfl, rfl, rfl, rfl, rfl, rfl, rfl⟩

theorem objDesc_facts : mkCD 0x70 = .ok ⟨0x70⟩ ∧ (⟨0x70⟩ : CD).isObject = true := ⟨rfl, rfl⟩

theorem absDesc_facts : mkCD 0x00 = .ok ⟨0x00⟩ ∧ (⟨0x00⟩ : CD).isObject = false ∧ (⟨0x00⟩ : CD).isAttrGroup = true ∧
    (⟨0x00⟩ : CD).isAbsent = true ∧ (⟨0x00⟩ : CD).hasL = false ∧ (⟨0x00⟩ : CD).hasC = false ∧
    (⟨0x00⟩ : CD).hasR = false ∧ (⟨0x00⟩ : CD).hasU = false ∧ (⟨0x00⟩ : CD).hasV = false :=
  ⟨rfl, rfl, rfl, rfl, rfl, rfl, rfl, rfl, rfl⟩

/-! ### attribute components -/

theorem readAttr_body (cd : CD) (l c r u v : Bool) (d a : Attr) (rest : Bytes)
    (hl : cd.hasL = l) (hc : cd.hasC = c) (hr : cd.hasR = r) (hu : cd.hasU = u) (hv : cd.hasV = v)
    (hcount : a.count < 1073741824) (hval : v = true → valuesOk a)
    (el : l = false → a.label = d.label) (ec : c = false → a.count = d.count) (er : r = false → a.rc = d.rc)
    (eu : u = false → a.units = d.units) (ev : v = false → a.value = d.value) (ev' : v = true → a.value.isSome = true) :
    readAttr cd d (encAttrBody l c r u v a ++ rest) = .ok (a, rest) := by
  unfold readAttr encAttrBody
  rw [hl, hc, hr, hu, hv]
  -- label
  have s1 : (if l = true then readIdent ((if l = true then encIdent a.label else []) ++ ((if c = true then encUvari a.count else []) ++
      ((if r = true then [a.rc] else []) ++ ((if u = true then encIdent a.units else []) ++
      (if v = true then encValues a.rc (a.value.getD []) else [])))) ++ rest)
      else Except.ok (d.label, (if l = true then encIdent a.label else []) ++ ((if c = true then encUvari a.count else []) ++
      ((if r = true then [a.rc] else []) ++ ((if u = true then encIdent a.units else []) ++
      (if v = true then encValues a.rc (a.value.getD []) else [])))) ++ rest))
      = .ok (a.label, (if c = true then encUvari a.count else []) ++
      ((if r = true then [a.rc] else []) ++ ((if u = true then encIdent a.units else []) ++
      ((if v = true then encValues a.rc (a.value.getD []) else []) ++ rest)))) := by
    cases l with
    | true => simp [readIdent_enc]
    | false => simp [el rfl]
  rw [s1]; simp only []
  have s2 : (if c = true then readUvari ((if c = true then encUvari a.count else []) ++
      ((if r = true then [a.rc] else []) ++ ((if u = true then encIdent a.units else []) ++
      ((if v = true then encValues a.rc (a.value.getD []) else []) ++ rest))))
      else Except.ok (d.count, (if c = true then encUvari a.count else []) ++
      ((if r = true then [a.rc] else []) ++ ((if u = true then encIdent a.units else []) ++
      ((if v = true then encValues a.rc (a.value.getD []) else []) ++ rest)))))
      = .ok (a.count, (if r = true then [a.rc] else []) ++ ((if u = true then encIdent a.units else []) ++
      ((if v = true then encValues a.rc (a.value.getD []) else []) ++ rest))) := by
    cases c with
    | true => simp [readUvari_enc _ _ hcount]
    | false => simp [ec rfl]
  rw [s2]; simp only []
  have s3 : (if r = true then readUshort ((if r = true then [a.rc] else []) ++ ((if u = true then encIdent a.units else []) ++
      ((if v = true then encValues a.rc (a.value.getD []) else []) ++ rest)))
      else Except.ok (d.rc, (if r = true then [a.rc] else []) ++ ((if u = true then encIdent a.units else []) ++
      ((if v = true then encValues a.rc (a.value.getD []) else []) ++ rest))))
      = .ok (a.rc, (if u = true then encIdent a.units else []) ++
      ((if v = true then encValues a.rc (a.value.getD []) else []) ++ rest)) := by
    cases r with
    | true => simp [readUshort]
    | false => simp [er rfl]
  rw [s3]; simp only []
  have s4 : (if u = true then readIdent ((if u = true then encIdent a.units else []) ++
      ((if v = true then encValues a.rc (a.value.getD []) else []) ++ rest))
      else Except.ok (d.units, (if u = true then encIdent a.units else []) ++
      ((if v = true then encValues a.rc (a.value.getD []) else []) ++ rest)))
      = .ok (a.units, (if v = true then encValues a.rc (a.value.getD []) else []) ++ rest) := by
    cases u with
    | true => simp [readIdent_enc]
    | false => simp [eu rfl]
  rw [s4]; simp only []
  cases v with
  | true =>
    have hs := ev' rfl
    cases hval' : a.value with
    | none => rw [hval'] at hs; simp at hs
    | some vs =>
      obtain ⟨hlen, hok⟩ := hval rfl vs hval'
      simp only [if_true, Option.getD_some]
      rw [← hlen, readValues_enc a.rc vs rest hok]
      cases a; simp_all
  | false =>
    simp only [Bool.false_eq_true, if_false, List.nil_append]
    rw [← ev rfl]

theorem readAttr_encAttr (cd : CD) (d a : Attr) (ch : AttrChoice) (rest : Bytes)
    (hl : cd.hasL = wantL d a ch) (hc : cd.hasC = wantC d a ch) (hr : cd.hasR = wantR d a ch)
    (hu : cd.hasU = wantU d a ch) (hv : cd.hasV = wantV d a ch)
    (hcount : a.count < 1073741824) (hfit : valuesOk a ∨ a.value = d.value)
    (hnone : a.value = none → d.value = none) :
    readAttr cd d (encAttrBody (wantL d a ch) (wantC d a ch) (wantR d a ch) (wantU d a ch) (wantV d a ch) a ++ rest)
      = .ok (a, rest) := by
  apply readAttr_body cd _ _ _ _ _ d a rest hl hc hr hu hv hcount
  · intro h
    rcases hfit with hf | hf
    · exact hf
    · simp only [wantV, Bool.and_eq_true, Bool.not_eq_true', Bool.and_eq_false_iff, Bool.or_eq_false_iff,
        Bool.not_eq_false', decide_eq_true_eq, beq_eq_false_iff_ne] at h
      rcases h.2 with h2 | h2
      · exact h2.2
      · exact absurd hf h2
  · intro h; simp [wantL] at h; exact h.2
  · intro h; simp [wantC] at h; exact h.2
  · intro h; simp [wantR] at h; exact h.2
  · intro h; simp [wantU] at h; exact h.2
  · intro h
    cases hval : a.value with
    | none => rw [hnone hval]
    | some vs => simp [wantV, hval] at h; rw [← h.2]
  · intro h; simp [wantV] at h; exact h.1

/-- what may follow a template or an object: nothing, or an OBJECT component -/
def objStart (rest : Bytes) : Prop := rest = [] ∨ ∃ r, rest = 0x70 :: r

theorem readTemplate_enc (cols : List Column) : ∀ (chs : List AttrChoice) (seen : List Bytes) (rest : Bytes) (fuel : Nat),
    cols ≠ [] → cols.length ≤ fuel → (∀ c ∈ cols, attrOk c.attr) → (cols.map (fun c => c.attr.label)).Nodup →
    (∀ l ∈ seen, l ∉ cols.map (fun c => c.attr.label)) → objStart rest →
    readTemplate fuel seen (encCols cols chs ++ rest) = .ok (cols, rest) := by
  induction cols with
  | nil => intro _ _ _ _ h; exact absurd rfl h
  | cons col cols ih =>
    intro chs seen rest fuel _ hfuel hok hnd hseen hrest
    cases fuel with
    | zero => simp at hfuel
    | succ fuel =>
      obtain ⟨f1, f2, f3, _, f5, f6, f7, f8, f9, f10⟩ := attrDesc_facts (if col.inv then 0x40 else 0x20)
        (by cases col.inv <;> simp) (wantL globalDefault col.attr (chs.headD default))
        (wantC globalDefault col.attr (chs.headD default)) (wantR globalDefault col.attr (chs.headD default))
        (wantU globalDefault col.attr (chs.headD default)) (wantV globalDefault col.attr (chs.headD default))
      have hattr := readAttr_encAttr _ globalDefault col.attr (chs.headD default) (encCols cols chs.tail ++ rest)
        f6 f7 f8 f9 f10 (hok col (by simp)).2.1 (Or.inl (hok col (by simp)).2.2.2.2) (fun _ => rfl)
      have hnot : seen.contains col.attr.label = false := by
        have := hseen
        cases hc : seen.contains col.attr.label with
        | false => rfl
        | true =>
          have hm : col.attr.label ∈ seen := by simpa using hc
          exact absurd (by simp) (hseen _ hm)
      have hinv : (⟨decide ((if col.inv = true then 0x40 else 0x20) = 0x40), col.attr⟩ : Column) = col := by
        cases col with
        | mk inv attr => cases inv <;> simp
      simp only [encCols, encAttr, List.cons_append, List.append_assoc, readTemplate, readByte_cons, f1, f2,
        Bool.not_true, Bool.false_eq_true, if_false, hattr, hnot, f5, hinv]
      cases cols with
      | nil =>
        simp only [encCols, List.nil_append]
        rcases hrest with rfl | ⟨r, rfl⟩
        · rfl
        · simp only [objDesc_facts.1, objDesc_facts.2, if_true]
      | cons c2 cols2 =>
        obtain ⟨g1, _, g3, _⟩ := attrDesc_facts (if c2.inv then 0x40 else 0x20)
          (by cases c2.inv <;> simp) (wantL globalDefault c2.attr (chs.tail.headD default))
          (wantC globalDefault c2.attr (chs.tail.headD default)) (wantR globalDefault c2.attr (chs.tail.headD default))
          (wantU globalDefault c2.attr (chs.tail.headD default)) (wantV globalDefault c2.attr (chs.tail.headD default))
        have hnd0 : (col.attr.label :: (c2 :: cols2).map (fun c => c.attr.label)).Nodup := hnd
        have hnd' := (List.nodup_cons.1 hnd0).2
        have hnd1 := (List.nodup_cons.1 hnd0).1
        have ih' := ih chs.tail (col.attr.label :: seen) rest fuel (by simp) (by simpa using hfuel)
          (fun c hc => hok c (by simp [hc])) hnd'
          (by
            intro l hl
            rcases List.mem_cons.1 hl with rfl | hl
            · exact hnd1
            · intro hm; exact hseen l hl (by simp at hm ⊢; exact Or.inr hm))
          hrest
        have e : encCols (c2 :: cols2) chs.tail ++ rest =
            attrDesc (if c2.inv = true then 0x40 else 0x20) (wantL globalDefault c2.attr (chs.tail.headD default))
              (wantC globalDefault c2.attr (chs.tail.headD default)) (wantR globalDefault c2.attr (chs.tail.headD default))
              (wantU globalDefault c2.attr (chs.tail.headD default)) (wantV globalDefault c2.attr (chs.tail.headD default)) ::
            (encAttrBody (wantL globalDefault c2.attr (chs.tail.headD default))
              (wantC globalDefault c2.attr (chs.tail.headD default)) (wantR globalDefault c2.attr (chs.tail.headD default))
              (wantU globalDefault c2.attr (chs.tail.headD default)) (wantV globalDefault c2.attr (chs.tail.headD default)) c2.attr
              ++ encCols cols2 chs.tail.tail ++ rest) := by
          simp [encCols, encAttr]
        rw [e] at ih' ⊢
        simp only [g1, g3, Bool.false_eq_true, if_false, ih']

/-! ### objects -/

theorem readAttr_zero (d : Attr) (bs : Bytes) : readAttr ⟨0x00⟩ d bs = .ok (d, bs) := by
  obtain ⟨_, _, _, _, h5, h6, h7, h8, h9⟩ := absDesc_facts
  unfold readAttr
  simp only [h5, h6, h7, h8, h9, Bool.false_eq_true, if_false]

theorem allDefault_eq : ∀ (cols : List Column) (cells : List Attr), cells.length = cols.length →
    allDefault cols cells = true → cols.map Column.attr = cells
  | [], [], _, _ => rfl
  | [], _ :: _, h, _ => by simp at h
  | _ :: _, [], h, _ => by simp at h
  | col :: cols, cell :: cells, h, hd => by
    simp only [allDefault, Bool.and_eq_true, beq_iff_eq] at hd
    simp only [List.map_cons, hd.1]
    rw [allDefault_eq cols cells (by simpa using h) hd.2]

theorem objLoop_enc (cols : List Column) : ∀ (cells : List Attr) (chs : List AttrChoice) (rest : Bytes),
    cells.length = cols.length → (∀ p ∈ cols.zip cells, cellOk p.1 p.2) → objStart rest →
    objLoop cols (encCells cols cells chs ++ rest) = .ok (cells, rest) := by
  induction cols with
  | nil =>
    intro cells chs rest hlen _ _
    cases cells with
    | nil => simp [objLoop, encCells]
    | cons _ _ => simp at hlen
  | cons col cols ih =>
    intro cells chs rest hlen hok hrest
    cases cells with
    | nil => simp at hlen
    | cons cell cells =>
      have hcell : cellOk col cell := hok (col, cell) (by simp)
      have hok' : ∀ p ∈ cols.zip cells, cellOk p.1 p.2 := fun p hp => hok p (by simp [hp])
      have hlen' : cells.length = cols.length := by simpa using hlen
      have ih' := ih cells chs.tail rest hlen' hok' hrest
      cases hinv : col.inv with
      | true =>
        simp only [objLoop, encCells, hinv, if_true, ih']
        rw [hcell.2.2.2.2.2.1 hinv]
      | false =>
        by_cases hstop : ((chs.headD default).stop && allDefault (col :: cols) (cell :: cells)) = true
        · have hall : allDefault (col :: cols) (cell :: cells) = true := by
            simp only [Bool.and_eq_true] at hstop; exact hstop.2
          have heq := allDefault_eq (col :: cols) (cell :: cells) hlen hall
          simp only [encCells, hinv, hstop, if_true, Bool.false_eq_true, if_false, List.nil_append]
          rcases hrest with rfl | ⟨r, rfl⟩
          · simp only [objLoop, hinv, Bool.false_eq_true, if_false]
            rw [heq]
          · simp only [objLoop, hinv, Bool.false_eq_true, if_false, objDesc_facts.1, objDesc_facts.2, if_true]
            rw [heq]
        · by_cases habs : (isAbsentOf col cell && ((chs.headD default).absent || col.attr.value.isSome)) = true
          · have hc : cell = { col.attr with value := none } := by
              simp only [Bool.and_eq_true, isAbsentOf, beq_iff_eq] at habs; exact habs.1
            obtain ⟨a1, a2, a3, a4, _⟩ := absDesc_facts
            simp only [encCells, hinv, hstop, encCell, habs, if_true, Bool.false_eq_true, if_false, List.cons_append,
              List.nil_append, objLoop, a1, a2, a3, a4, Bool.not_true, readAttr_zero, ih']
            rw [hc]
          · obtain ⟨f1, f2, f3, f4, _, f6, f7, f8, f9, f10⟩ := attrDesc_facts 0x20 (Or.inl rfl)
              (wantL col.attr cell (chs.headD default)) (wantC col.attr cell (chs.headD default))
              (wantR col.attr cell (chs.headD default)) (wantU col.attr cell (chs.headD default))
              (wantV col.attr cell (chs.headD default))
            have hnone : cell.value = none → col.attr.value = none := by
              intro hv
              cases hcv : col.attr.value with
              | none => rfl
              | some vs =>
                exfalso
                apply habs
                have := hcell.2.2.2.2.2.2 hv (by rw [hcv]; simp)
                simp [isAbsentOf, this, hcv]
            have hattr := readAttr_encAttr _ col.attr cell (chs.headD default) (encCells cols cells chs.tail ++ rest)
              f6 f7 f8 f9 f10 hcell.2.1 hcell.2.2.2.2.1 hnone
            simp only [encCells, hinv, hstop, encCell, habs, encAttr, Bool.false_eq_true, if_false, List.cons_append,
              List.append_assoc, objLoop, f1, f2, f3, f4, Bool.not_true, hattr, ih']

theorem hasDup_false_of_nodup : ∀ (l : List Bytes), l.Nodup → hasDup l = false
  | [], _ => rfl
  | x :: xs, h => by
    have h' := List.nodup_cons.1 h
    simp only [hasDup, Bool.or_eq_false_iff]
    refine ⟨?_, hasDup_false_of_nodup xs h'.2⟩
    cases hc : xs.contains x with
    | false => rfl
    | true => exact absurd (by simpa using hc) h'.1

theorem readObject_enc (cols : List Column) (row : Row) (chs : List AttrChoice) (rest : Bytes)
    (hrow : rowOk cols row) (hrest : objStart rest) :
    readObject cols (encRow cols row chs ++ rest) = .ok (row, rest) := by
  obtain ⟨hname, hlen, hcells, hnd⟩ := hrow
  have h1 := readObname_enc row.name (encCells cols row.cells chs ++ rest) hname.1
  have h2 := objLoop_enc cols row.cells chs rest hlen hcells hrest
  have h3 := hasDup_false_of_nodup _ hnd
  simp only [readObject, encRow, List.cons_append, List.append_assoc, readByte_cons, objDesc_facts.1, objDesc_facts.2,
    Bool.not_true, Bool.false_eq_true, if_false, h1, h2, h3]

theorem encRows_objStart (cols : List Column) (rows : List Row) (chs : List (List AttrChoice)) (rest : Bytes)
    (h : objStart rest) : objStart (encRows cols rows chs ++ rest) := by
  cases rows with
  | nil => simpa [encRows] using h
  | cons r rs =>
    right
    exact ⟨encObname r.name ++ (encCells cols r.cells (chs.headD []) ++ (encRows cols rs chs.tail ++ rest)), by
      simp [encRows, encRow]⟩

theorem encRows_length (cols : List Column) : ∀ (rows : List Row) (chs : List (List AttrChoice)),
    rows.length ≤ (encRows cols rows chs).length
  | [], _ => by simp [encRows]
  | r :: rs, chs => by
    have := encRows_length cols rs chs.tail
    simp [encRows, encRow]; omega

theorem encCols_length : ∀ (cols : List Column) (chs : List AttrChoice), cols.length ≤ (encCols cols chs).length
  | [], _ => by simp [encCols]
  | c :: cs, chs => by
    have := encCols_length cs chs.tail
    simp [encCols, encAttr]; omega

theorem readObjects_enc (cols : List Column) : ∀ (rows : List Row) (chs : List (List AttrChoice)) (fuel : Nat),
    rows.length < fuel → (∀ r ∈ rows, rowOk cols r) →
    readObjects cols fuel (encRows cols rows chs) = .ok rows := by
  intro rows
  induction rows with
  | nil =>
    intro chs fuel hf _
    cases fuel with
    | zero => simp at hf
    | succ fuel => simp [readObjects, encRows]
  | cons row rows ih =>
    intro chs fuel hf hok
    cases fuel with
    | zero => simp at hf
    | succ fuel =>
      have hstart : objStart (encRows cols rows chs.tail) := by
        have := encRows_objStart cols rows chs.tail [] (Or.inl rfl)
        simpa using this
      have h1 := readObject_enc cols row (chs.headD []) (encRows cols rows chs.tail) (hok row (by simp)) hstart
      have h2 := ih chs.tail fuel (by simpa using hf) (fun r hr => hok r (by simp [hr]))
      have e : encRows cols (row :: rows) chs = 0x70 :: (encObname row.name ++ encCells cols row.cells (chs.headD []) ++
          encRows cols rows chs.tail) := by simp [encRows, encRow]
      have e2 : encRow cols row (chs.headD []) ++ encRows cols rows chs.tail = 0x70 :: (encObname row.name ++
          encCells cols row.cells (chs.headD []) ++ encRows cols rows chs.tail) := by simp [encRow]
      rw [e]; rw [e2] at h1
      simp only [readObjects, h1, h2]

/-! ### duplicate handling is the identity on distinct names -/

theorem lookup_mapSet (m : List (ObName × Nat)) (k k' : ObName) (v : Nat) (h : k' ≠ k) :
    (mapSet m k v).lookup k' = m.lookup k' := by
  induction m with
  | nil =>
    have hb : (k' == k) = false := by simpa using h
    simp [mapSet, List.lookup, hb]
  | cons p m ih =>
    obtain ⟨a, b⟩ := p
    by_cases ha : a = k
    · subst ha
      have hb : (k' == a) = false := by simpa using h
      simp [mapSet, List.lookup, hb]
    · simp only [mapSet, ha, if_false, List.lookup]
      by_cases hk : k' = a
      · subst hk; simp
      · simp [hk, ih]

theorem dedup_fold (rows : List Row) : ∀ (st : DedupSt), st.dupes = [] → (∀ r ∈ rows, st.map.lookup r.name = none) →
    (rows.map Row.name).Nodup →
    (rows.foldl dedupStep st).objs = st.objs ++ rows ∧ (rows.foldl dedupStep st).dupes = [] := by
  induction rows with
  | nil => intro st h _ _; simp [h]
  | cons row rows ih =>
    intro st hd hl hn
    have hn' := List.nodup_cons.1 (show (row.name :: rows.map Row.name).Nodup from hn)
    have h0 : st.map.lookup row.name = none := hl row (by simp)
    have hstep : dedupStep st row = { objs := st.objs ++ [row], map := mapSet st.map row.name st.objs.length, dupes := st.dupes } := by
      simp [dedupStep, h0]
    simp only [List.foldl_cons, hstep]
    have := ih { objs := st.objs ++ [row], map := mapSet st.map row.name st.objs.length, dupes := st.dupes } hd
      (by
        intro r hr
        have hne : r.name ≠ row.name := by
          intro e; apply hn'.1; rw [← e]; exact List.mem_map_of_mem hr
        simp only []
        rw [lookup_mapSet _ _ _ _ hne]
        exact hl r (by simp [hr]))
      hn'.2
    simpa using this

theorem dedup_nodup (rows : List Row) (h : (rows.map Row.name).Nodup) : dedup rows = rows := by
  obtain ⟨h1, h2⟩ := dedup_fold rows ⟨[], [], []⟩ rfl (by intro r _; rfl) h
  unfold dedup
  simp only [h1, h2, removeIdx, List.nil_append]
  have : (rows.zipIdx.filter (fun p => !([] : List Nat).contains p.2)) = rows.zipIdx := by
    apply List.filter_eq_self.2; intro a _; rfl
  rw [this, List.zipIdx_map_fst]

/-! ### the set component and the whole record -/

theorem readSet_enc (t : Table) (ch : Choices) (rest : Bytes) :
    readSet (encSet t ch ++ rest) = .ok ((t.stype, t.sname), rest) := by
  unfold encSet readSet
  have hr : setRoleBits ch.setRole = 0xE0 ∨ setRoleBits ch.setRole = 0xC0 ∨ setRoleBits ch.setRole = 0xA0 := by
    unfold setRoleBits; split
    · exact Or.inl rfl
    · split
      · exact Or.inr (Or.inl rfl)
      · exact Or.inr (Or.inr rfl)
  cases homit : (ch.omitSetName && t.sname == []) with
  | true =>
    have hn : t.sname = [] := by simp only [Bool.and_eq_true, beq_iff_eq] at homit; exact homit.2
    simp only [if_true, List.cons_append, List.append_assoc, List.nil_append, readByte_cons, Nat.add_zero]
    rcases hr with h | h | h <;> rw [h] <;>
      simp [mkCD, CD.isSetGroup, CD.role, CD.bits, CD.isObject, CD.hasSetN, readIdent_enc, hn]
  | false =>
    simp only [Bool.false_eq_true, if_false, List.cons_append, List.append_assoc, readByte_cons]
    rcases hr with h | h | h <;> rw [h] <;>
      simp [mkCD, CD.isSetGroup, CD.role, CD.bits, CD.isObject, CD.hasSetN, readIdent_enc]

theorem readEflr_enc (t : Table) (ch : Choices) (h : t.wf) : readEflr (encodeEflr t ch) = .ok t := by
  obtain ⟨_, _, hempty, hnd, hcols, hrows, hnames⟩ := h
  unfold encodeEflr readEflr
  rw [readSet_enc]
  simp only []
  cases hc : t.cols with
  | nil =>
    have hr := hempty hc
    simp only [hr, encCols, encRows, List.append_nil]
    cases t; simp_all
  | cons col cols =>
    have e : encCols (col :: cols) ch.cols ++ encRows (col :: cols) t.rows ch.rows =
        attrDesc (if col.inv = true then 0x40 else 0x20) (wantL globalDefault col.attr (ch.cols.headD default))
          (wantC globalDefault col.attr (ch.cols.headD default)) (wantR globalDefault col.attr (ch.cols.headD default))
          (wantU globalDefault col.attr (ch.cols.headD default)) (wantV globalDefault col.attr (ch.cols.headD default)) ::
        (encAttrBody (wantL globalDefault col.attr (ch.cols.headD default))
          (wantC globalDefault col.attr (ch.cols.headD default)) (wantR globalDefault col.attr (ch.cols.headD default))
          (wantU globalDefault col.attr (ch.cols.headD default)) (wantV globalDefault col.attr (ch.cols.headD default)) col.attr
          ++ encCols cols ch.cols.tail ++ encRows (col :: cols) t.rows ch.rows) := by
      simp [encCols, encAttr]
    have hlen : (col :: cols).length ≤ (encCols (col :: cols) ch.cols ++ encRows (col :: cols) t.rows ch.rows).length + 1 := by
      have := encCols_length (col :: cols) ch.cols
      simp only [List.length_append]; omega
    have hstart : objStart (encRows (col :: cols) t.rows ch.rows) := by
      have := encRows_objStart (col :: cols) t.rows ch.rows [] (Or.inl rfl)
      simpa using this
    have ht := readTemplate_enc (col :: cols) ch.cols [] (encRows (col :: cols) t.rows ch.rows) _ (by simp) hlen
      (by rw [← hc]; exact hcols) (by rw [← hc]; exact hnd) (by simp) hstart
    have ho := readObjects_enc (col :: cols) t.rows ch.rows ((encRows (col :: cols) t.rows ch.rows).length + 1)
      (by have := encRows_length (col :: cols) t.rows ch.rows; omega) (by rw [← hc]; exact hrows)
    rw [e] at ht ⊢
    simp only [ht, ho, dedup_nodup t.rows hnames]
    cases t; simp_all

end TD.C03
