import TD.Gen.C17Osdd
import TD.Gen.C17Lis

/-!
# C17 — unit conversion: model of the code as it is

* `TotalDepth/common/units.py`: `Unit`, `same_dimension`, `_convert`, `convert`, `convert_function`, `convert_array`,
  `convert_array_inplace` (table: `data/osdd_units.json`, regenerated into `TD.Gen.C17Osdd` on every run);
* `TotalDepth/LIS/core/Units.py`: `UnitConvert.convert`, `UnitConvertCategory.unitConvertor/convert`, module `convert`,
  `category` (table: `__RAW_UNIT_MAP`, regenerated into `TD.Gen.C17Lis`);
* `TotalDepth/LIS/core/EngVal.py`: `convert`, `getInUnits`, `newEngValInUnits`.

Every function is written once, generically in the number type `α` (only `+ - * /`, `!= 0` are used, exactly the
operations of the Python source, in the same order).  It is instantiated at

* `Rat` (core Lean) — exact arithmetic; all theorems of `Props.lean` are about this instance, and
* `Float` (IEEE binary64, what CPython and numpy compute with) — run by the native driver, compared *bit for bit*
  with the implementation on every case of the correspondence run.

Core Lean only (the driver is compiled from this file).
-/
namespace TD.C17

/-- The exceptions the modelled code raises. -/
inductive Err
  /-- `common.units.ExceptionUnitsDimension` -/
  | unitsDimension
  /-- `LIS.core.Units.ExceptionUnitsUnknownUnit` -/
  | lisUnknownUnit
  /-- `LIS.core.Units.ExceptionUnitsNoUnitInCategory` -/
  | lisNoUnitInCategory
  /-- a bare `KeyError` from `__UNIT_MAP[c_1]` (only if the two module maps were misaligned) -/
  | keyError
deriving DecidableEq, Repr

/-- Is the exception a member of the documented units-exception family (a subclass of the module's `ExceptionUnits`)? -/
def Err.isUnitsError : Err → Bool
  | .keyError => false
  | _ => true

/-! ## common/units.py -/

/-- `class Unit(typing.NamedTuple)` — the fields the conversion uses (`name`, `standard_form` play no part). -/
structure Unit (α : Type) where
  code : String
  dim : String
  scale : α
  offset : α

section generic
variable {α : Type} [Add α] [Sub α] [Mul α] [Div α] [BEq α] [OfNat α 0]

/-- `Unit.has_offset`: `self.offset != 0.0` -/
def Unit.hasOffset (u : Unit α) : Bool := u.offset != 0

/-- `same_dimension(a, b)`: `a.dimension == b.dimension` -/
def sameDimension (a b : Unit α) : Bool := a.dim == b.dim

/-- `_convert(value, unit_from, unit_to)` — both branches as coded. -/
def convertRaw (v : α) (a b : Unit α) : α :=
  if a.hasOffset || b.hasOffset then
    ((v - a.offset) * a.scale) / b.scale + b.offset
  else
    v * a.scale / b.scale

/-- `convert(value, unit_from, unit_to)` -/
def convert (v : α) (a b : Unit α) : Except Err α :=
  if !sameDimension a b then .error .unitsDimension
  else .ok (convertRaw v a b)

/-- `convert_function(unit_from, unit_to)`: the check happens when the function is made. -/
def convertFunction (a b : Unit α) : Except Err (α → α) :=
  if !sameDimension a b then .error .unitsDimension
  else .ok (fun v => convertRaw v a b)

/-- `convert_array(array, unit_from, unit_to)` (numpy broadcasting = `map`): the dimension check of `convert`, then
the offset-free branch multiplies by the *pre-divided* factor `unit_from.scale / unit_to.scale`. -/
def convertArray (xs : List α) (a b : Unit α) : Except Err (List α) :=
  if !sameDimension a b then .error .unitsDimension
  else if a.hasOffset || b.hasOffset then
    .ok (xs.map (fun x => ((x - a.offset) * a.scale) / b.scale + b.offset))
  else
    .ok (xs.map (fun x => x * (a.scale / b.scale)))

/-- `convert_array_inplace`: the dimension check (raised before the array is touched), then four successive
whole-array updates (`-=`, `*=`, `/=`, `+=`), or one `*=`. `.ok ys`: the content of the array afterwards. -/
def convertArrayInplace (xs : List α) (a b : Unit α) : Except Err (List α) :=
  if !sameDimension a b then .error .unitsDimension
  else if a.hasOffset || b.hasOffset then
    let xs := xs.map (fun x => x - a.offset)
    let xs := xs.map (fun x => x * a.scale)
    let xs := xs.map (fun x => x / b.scale)
    .ok (xs.map (fun x => x + b.offset))
  else
    .ok (xs.map (fun x => x * (a.scale / b.scale)))

/-- the content of the caller's array after `convert_array_inplace` returned or raised -/
def arrayAfterInplace (xs : List α) (a b : Unit α) : List α :=
  match convertArrayInplace xs a b with
  | .ok ys => ys
  | .error _ => xs

/-! ## LIS/core/Units.py -/

/-- `class UnitConvert`: `name`, `mult`, `offs` (`None` for a 4-tuple). -/
structure LisUnit (α : Type) where
  name : String
  mult : α
  offs : Option α

/-- `class UnitConvertCategory`: `cat` and the `_unitMap` in insertion order. -/
structure LisCat (α : Type) where
  cat : String
  units : List (LisUnit α)

/-- `UnitConvert.convert(self, val, other)`; `val is None` gives `0.` -/
def LisUnit.convert (self : LisUnit α) (val : Option α) (other : LisUnit α) : α :=
  match val with
  | none => 0
  | some v =>
    let v := match self.offs with
      | some o => v - o
      | none => v
    let baseVal := v * self.mult
    let retVal := baseVal / other.mult
    match other.offs with
    | some o => retVal + o
    | none => retVal

/-- `__UNIT_TO_CATEGORY_MAP[u]` (a dict filled category by category; names are asserted unique at import). -/
def unitToCategory (t : List (LisCat α)) (u : String) : Option String :=
  match t with
  | [] => none
  | c :: rest => if c.units.any (fun x => x.name == u) then some c.cat else unitToCategory rest u

/-- `__UNIT_MAP[c]` -/
def unitMap (t : List (LisCat α)) (c : String) : Option (LisCat α) :=
  t.find? (fun k => k.cat == c)

/-- `UnitConvertCategory.unitConvertor(u)`: `KeyError` becomes `ExceptionUnitsNoUnitInCategory`. -/
def LisCat.unitConvertor (c : LisCat α) (u : String) : Except Err (LisUnit α) :=
  match c.units.find? (fun x => x.name == u) with
  | some x => .ok x
  | none => .error .lisNoUnitInCategory

/-- `UnitConvertCategory.convert(v, u_1, u_2)`: `self.unitConvertor(u_1).convert(v, self.unitConvertor(u_2))`
(`u_1` is looked up first). -/
def LisCat.convert (c : LisCat α) (v : Option α) (u1 u2 : String) : Except Err α :=
  match c.unitConvertor u1 with
  | .error e => .error e
  | .ok x1 =>
    match c.unitConvertor u2 with
    | .error e => .error e
    | .ok x2 => .ok (x1.convert v x2)

/-- module-level `convert(v, u_1, u_2)`. The statement under `if c_1 != c_2:` builds an
`ExceptionUnitsMissmatchedCategory` object and drops it (there is no `raise`), so it has no effect and the model has
no branch for it: a category mismatch is refused two lines later by `unitConvertor(u_2)` on the category of `u_1`. -/
def lisConvert (t : List (LisCat α)) (v : Option α) (u1 u2 : String) : Except Err α :=
  match unitToCategory t u1 with
  | none => .error .lisUnknownUnit
  | some c1 =>
    match unitToCategory t u2 with
    | none => .error .lisUnknownUnit
    | some _c2 =>
      match unitMap t c1 with
      | none => .error .keyError
      | some ucc => ucc.convert v u1 u2

/-- all unit names of one category (`UnitConvertCategory.units()`) -/
def LisCat.names (k : LisCat α) : List String := k.units.map (fun x => x.name)

/-- all unit names of the table (`units()`), in table order -/
def allNames (t : List (LisCat α)) : List String := t.flatMap LisCat.names

/-- `category(unit)` -/
def lisCategory (t : List (LisCat α)) (u : String) : Except Err String :=
  match unitToCategory t u with
  | some c => .ok c
  | none => .error .lisUnknownUnit

/-! ## LIS/core/EngVal.py (the conversion entry points) -/

structure EngVal (α : Type) where
  value : α
  uom : String

/-- `EngVal.getInUnits(theUnits)`: equal units are returned untouched *before* any table lookup. -/
def EngVal.getInUnits (t : List (LisCat α)) (e : EngVal α) (u : String) : Except Err α :=
  if u == e.uom then .ok e.value else lisConvert t (some e.value) e.uom u

/-- `EngVal.convert(theUnits)` (in place; the result is the object afterwards). -/
def EngVal.convert (t : List (LisCat α)) (e : EngVal α) (u : String) : Except Err (EngVal α) :=
  if u != e.uom then
    match lisConvert t (some e.value) e.uom u with
    | .ok v => .ok ⟨v, u⟩
    | .error err => .error err
  else .ok e

/-- `EngVal.newEngValInUnits(theUnits)` -/
def EngVal.newEngValInUnits (t : List (LisCat α)) (e : EngVal α) (u : String) : Except Err (EngVal α) :=
  if u == e.uom then .ok ⟨e.value, e.uom⟩
  else
    match lisConvert t (some e.value) e.uom u with
    | .ok v => .ok ⟨v, u⟩
    | .error err => .error err

/-! ### One `EngVal` object over time

The Python object is mutable; its whole state is the pair `(value, uom)` (there is no other attribute). A mutating
operation either completes or raises *before* the assignment, leaving the object as it was. -/

/-- the operations applied to one `EngVal` object -/
inductive EngOp (α : Type) where
  /-- `e += r`, `e -= r`, `e *= r`, `e /= r` with a real number -/
  | iaddReal (r : α) | isubReal (r : α) | imulReal (r : α) | idivReal (r : α)
  /-- `e += o`, `e -= o` with an `EngVal`: `self.value ±= other.getInUnits(self.uom)` -/
  | iaddEng (o : EngVal α) | isubEng (o : EngVal α)
  /-- `e *= o`, `e /= o` with an `EngVal`: only a dimensionless one (`uom == b'    '`), else `NotImplemented` (`TypeError`) -/
  | imulEng (o : EngVal α) | idivEng (o : EngVal α)
  /-- `e.convert(u)` -/
  | convert (u : String)
  /-- `e.value = v`, `e.uom = u` -/
  | setValue (v : α) | setUom (u : String)
  /-- anything that only reads: `getInUnits`, `newEngValInUnits`, comparisons, binary `+ - * /` -/
  | observe
deriving Inhabited

/-- the LIS dimensionless unit `DIMENSIONLESS = Mnem(b'    ')` -/
def dimensionless : String := "    "

/-- state of the object after one operation (a refused / unsupported operation leaves it unchanged) -/
def EngVal.step (t : List (LisCat α)) (e : EngVal α) : EngOp α → EngVal α
  | .iaddReal r => ⟨e.value + r, e.uom⟩
  | .isubReal r => ⟨e.value - r, e.uom⟩
  | .imulReal r => ⟨e.value * r, e.uom⟩
  | .idivReal r => ⟨e.value / r, e.uom⟩
  | .iaddEng o => match o.getInUnits t e.uom with
    | .ok w => ⟨e.value + w, e.uom⟩
    | .error _ => e
  | .isubEng o => match o.getInUnits t e.uom with
    | .ok w => ⟨e.value - w, e.uom⟩
    | .error _ => e
  | .imulEng o => if o.uom == dimensionless then ⟨e.value * o.value, e.uom⟩ else e
  | .idivEng o => if o.uom == dimensionless then ⟨e.value / o.value, e.uom⟩ else e
  | .convert u => match e.convert t u with
    | .ok e' => e'
    | .error _ => e
  | .setValue v => ⟨v, e.uom⟩
  | .setUom u => ⟨e.value, u⟩
  | .observe => e

/-- state after a whole history of operations -/
def EngVal.run (t : List (LisCat α)) (e : EngVal α) (ops : List (EngOp α)) : EngVal α := ops.foldl (EngVal.step t) e

/-- the states after each operation of a history, in order -/
def EngVal.trace (t : List (LisCat α)) (e : EngVal α) : List (EngOp α) → List (EngVal α)
  | [] => []
  | op :: ops => e.step t op :: EngVal.trace t (e.step t op) ops

end generic

/-! ## The generated tables at the two number types -/

/-- exact rational table row -/
def osddUnit (r : TD.Gen.C17Osdd.Row) : Unit Rat := ⟨r.code, r.dim, mkRat r.sn r.sd, mkRat r.on r.od⟩

/-- The OSDD table over `Rat` (the exact values of the JSON doubles), in file order. -/
def osddTable : List (Unit Rat) := TD.Gen.C17Osdd.rows.map osddUnit

def lisUnit (r : TD.Gen.C17Lis.Row) : LisUnit Rat :=
  ⟨r.name, mkRat r.mn r.md, if r.hasOffs then some (mkRat r.on r.od) else none⟩

def lisCat (c : TD.Gen.C17Lis.Cat) : LisCat Rat := ⟨c.cat, c.units.map lisUnit⟩

/-- The LIS table over `Rat`. -/
def lisTable : List (LisCat Rat) := TD.Gen.C17Lis.cats.map lisCat

/-- `n / d` as a binary64, exact when `d` is a power of two and `|n| < 2^53` (always so for the value of a double). -/
def floatOfRatio (n : Int) (d : Nat) : Float := (Float.ofInt n).scaleB (-(d.log2 : Int))

def osddUnitF (r : TD.Gen.C17Osdd.Row) : Unit Float := ⟨r.code, r.dim, floatOfRatio r.sn r.sd, floatOfRatio r.on r.od⟩
def osddTableF : Array (Unit Float) := (TD.Gen.C17Osdd.rows.map osddUnitF).toArray
def osddTableQ : Array (Unit Rat) := osddTable.toArray

def lisUnitF (r : TD.Gen.C17Lis.Row) : LisUnit Float :=
  ⟨r.name, floatOfRatio r.mn r.md, if r.hasOffs then some (floatOfRatio r.on r.od) else none⟩
def lisCatF (c : TD.Gen.C17Lis.Cat) : LisCat Float := ⟨c.cat, c.units.map lisUnitF⟩
def lisTableF : List (LisCat Float) := TD.Gen.C17Lis.cats.map lisCatF

/-! ## Table well-formedness checks (Boolean, decided by the kernel in `Lemmas.lean`) -/

/-- every scale is a non-zero finite number and every offset a finite number -/
def osddRowOk (r : TD.Gen.C17Osdd.Row) : Bool := r.sn != 0 && r.sd != 0 && r.od != 0

def lisRowOk (r : TD.Gen.C17Lis.Row) : Bool := r.mn != 0 && r.md != 0 && r.od != 0

/-- no repeated element (Boolean) -/
def nodupB : List String → Bool
  | [] => true
  | x :: xs => !xs.contains x && nodupB xs

/-- what the import-time `assert`s of `LIS/core/Units.py` check: unit names unique over the whole table, category
names unique (they are dictionary keys). Looks at names only, so the kernel can evaluate it on `lisTable`. -/
def lisWFB {α : Type} (t : List (LisCat α)) : Bool := nodupB (allNames t) && nodupB (t.map (fun k => k.cat))

def lisRowsOk : Bool := TD.Gen.C17Lis.cats.all (fun c => c.units.all lisRowOk)

end TD.C17
