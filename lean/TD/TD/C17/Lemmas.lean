import TD.C17.Model
import Mathlib.Tactic.FieldSimp
import Mathlib.Tactic.Ring
import Mathlib.Data.Rat.Defs
import Mathlib.Data.List.Nodup

/-!
# C17 — helper lemmas (table facts decided by the kernel, field algebra, list lookups)
-/
namespace TD.C17

/-! ## facts about the generated tables, evaluated by the kernel on every build -/

theorem osdd_rows_ok : TD.Gen.C17Osdd.rows.all osddRowOk = true := by decide +kernel

theorem osdd_row_count : TD.Gen.C17Osdd.rows.length = TD.Gen.C17Osdd.rowCount := by decide +kernel

theorem lis_rows_ok : lisRowsOk = true := by decide +kernel

theorem lisTable_wfB : lisWFB lisTable = true := by decide +kernel

theorem mkRat_ne_zero_of {n : Int} {d : Nat} (hn : n ≠ 0) (hd : d ≠ 0) : mkRat n d ≠ 0 :=
  (Rat.mkRat_ne_zero hd).2 hn

/-! ## common/units.py over ℚ -/

theorem hasOffset_false {u : Unit ℚ} (h : u.hasOffset = false) : u.offset = 0 := by
  simpa [Unit.hasOffset] using h

/-- Over ℚ both branches of `_convert` are the one affine formula (the offset-free branch is taken only when both
offsets are 0). -/
theorem convertRaw_eq (v : ℚ) (a b : Unit ℚ) :
    convertRaw v a b = (v - a.offset) * a.scale / b.scale + b.offset := by
  unfold convertRaw
  split
  · rfl
  · rename_i h
    simp only [Bool.or_eq_true, not_or, Bool.not_eq_true] at h
    rw [hasOffset_false h.1, hasOffset_false h.2]; simp

theorem sameDimension_iff {α : Type} (a b : Unit α) : sameDimension a b = true ↔ a.dim = b.dim := by
  simp [sameDimension]

/-! ## LIS over ℚ -/

/-- `UnitConvert.convert` as one formula (`offs = None` acts as 0). -/
theorem lisUnit_convert_eq (x y : LisUnit ℚ) (v : ℚ) :
    x.convert (some v) y = (v - x.offs.getD 0) * x.mult / y.mult + y.offs.getD 0 := by
  unfold LisUnit.convert
  cases x.offs <;> cases y.offs <;> simp

/-! ## list lookups -/

theorem nodupB_iff (l : List String) : nodupB l = true ↔ l.Nodup := by
  induction l with
  | nil => simp [nodupB]
  | cons x xs ih => simp [nodupB, ih, List.nodup_cons]

theorem find?_key_of_nodup {β : Type} (f : β → String) :
    ∀ (l : List β), (l.map f).Nodup → ∀ x ∈ l, l.find? (fun y => f y == f x) = some x := by
  intro l
  induction l with
  | nil => intro _ x hx; simp at hx
  | cons c rest ih =>
    intro hnd x hx
    rw [List.map_cons, List.nodup_cons] at hnd
    rcases List.mem_cons.1 hx with rfl | hx
    · simp
    · have hne : f c ≠ f x := fun h => hnd.1 (h ▸ List.mem_map_of_mem hx)
      have hb : (f c == f x) = false := by simpa using hne
      rw [List.find?_cons, hb]
      exact ih hnd.2 x hx

section lookups
variable {α : Type}

theorem any_name_iff (k : LisCat α) (u : String) :
    k.units.any (fun x => x.name == u) = true ↔ u ∈ k.names := by
  simp only [LisCat.names, List.any_eq_true, beq_iff_eq, List.mem_map]

/-- the category map knows exactly the names of the table -/
theorem unitToCategory_eq_none_iff (t : List (LisCat α)) (u : String) :
    unitToCategory t u = none ↔ u ∉ allNames t := by
  induction t with
  | nil => simp [unitToCategory, allNames]
  | cons c rest ih =>
    unfold unitToCategory
    by_cases h : c.units.any (fun x => x.name == u) = true
    · have := (any_name_iff c u).1 h
      simp [h, allNames, this]
    · have hn : u ∉ c.names := fun hm => h ((any_name_iff c u).2 hm)
      simp only [h, Bool.false_eq_true, if_false, ih]
      simp [allNames, hn]

/-- a category reported by the map is that of a table entry holding the name -/
theorem unitToCategory_some (t : List (LisCat α)) (u c : String) (h : unitToCategory t u = some c) :
    ∃ k ∈ t, k.cat = c ∧ u ∈ k.names := by
  induction t with
  | nil => simp [unitToCategory] at h
  | cons k rest ih =>
    unfold unitToCategory at h
    by_cases hk : k.units.any (fun x => x.name == u) = true
    · simp only [hk, if_true, Option.some.injEq] at h
      exact ⟨k, List.mem_cons_self, h, (any_name_iff k u).1 hk⟩
    · simp only [hk, Bool.false_eq_true, if_false] at h
      obtain ⟨k', hk', h1, h2⟩ := ih h
      exact ⟨k', List.mem_cons_of_mem _ hk', h1, h2⟩

/-- with unique names the map sends every name of an entry to that entry's category -/
theorem unitToCategory_of_mem (t : List (LisCat α)) (hnd : (allNames t).Nodup) (k : LisCat α) (hk : k ∈ t)
    (u : String) (hu : u ∈ k.names) : unitToCategory t u = some k.cat := by
  induction t with
  | nil => simp at hk
  | cons c rest ih =>
    have hnd' : (c.names ++ allNames rest).Nodup := by simpa [allNames] using hnd
    unfold unitToCategory
    rcases List.mem_cons.1 hk with rfl | hk
    · simp [(any_name_iff k u).2 hu]
    · have hrest : u ∈ allNames rest := by
        simp only [allNames, List.mem_flatMap]; exact ⟨k, hk, hu⟩
      have hn : u ∉ c.names := fun hm => (List.disjoint_of_nodup_append hnd') hm hrest
      have : ¬ (c.units.any (fun x => x.name == u) = true) := fun h => hn ((any_name_iff c u).1 h)
      simp only [this, Bool.false_eq_true, if_false]
      exact ih (List.Nodup.of_append_right hnd') hk

theorem names_nodup_of_mem (t : List (LisCat α)) (hnd : (allNames t).Nodup) (k : LisCat α) (hk : k ∈ t) :
    k.names.Nodup := by
  induction t with
  | nil => simp at hk
  | cons c rest ih =>
    have hnd' : (c.names ++ allNames rest).Nodup := by simpa [allNames] using hnd
    rcases List.mem_cons.1 hk with rfl | hk
    · exact List.Nodup.of_append_left hnd'
    · exact ih (List.Nodup.of_append_right hnd') hk

theorem unitMap_of_mem (t : List (LisCat α)) (hnd : (t.map (fun k => k.cat)).Nodup) (k : LisCat α) (hk : k ∈ t) :
    unitMap t k.cat = some k :=
  find?_key_of_nodup (fun k : LisCat α => k.cat) t hnd k hk

theorem unitConvertor_of_mem (k : LisCat α) (hnd : k.names.Nodup) (x : LisUnit α) (hx : x ∈ k.units) :
    k.unitConvertor x.name = .ok x := by
  unfold LisCat.unitConvertor
  rw [find?_key_of_nodup (fun x : LisUnit α => x.name) k.units hnd x hx]

theorem unitConvertor_of_not_mem (k : LisCat α) (u : String) (hu : u ∉ k.names) :
    k.unitConvertor u = .error .lisNoUnitInCategory := by
  unfold LisCat.unitConvertor
  have : k.units.find? (fun x => x.name == u) = none := by
    rw [List.find?_eq_none]
    intro x hx hxu
    exact hu (by simp only [LisCat.names, List.mem_map]; exact ⟨x, hx, by simpa using hxu⟩)
  rw [this]

end lookups

/-- well-formedness as propositions -/
theorem lisWFB_iff {α : Type} (t : List (LisCat α)) :
    lisWFB t = true ↔ (allNames t).Nodup ∧ (t.map (fun k => k.cat)).Nodup := by
  simp [lisWFB, nodupB_iff]

end TD.C17
