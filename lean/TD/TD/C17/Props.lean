import TD.C17.Lemmas

/-!
# C17 — Unit conversion is consistent: invertible, transitive, dimension-checked

Property theorems only.  The model (`TD.C17.Model`) transcribes `common/units.py`, `LIS/core/Units.py` and the
conversion entry points of `LIS/core/EngVal.py`; the tables `TD.Gen.C17Osdd` / `TD.Gen.C17Lis` are regenerated from
`osdd_units.json` / `__RAW_UNIT_MAP` on every run of `./check C17`, so every theorem below that mentions `osddTable`
or `lisTable` is re-proved about the table that is in the repository *now*.

All theorems are over `ℚ` (exact arithmetic, the values of the table doubles taken exactly) and hold for **all**
values.  The clause "to within floating-point rounding" of the property is *not* a theorem here (IEEE rounding of
`Float` is opaque to the kernel); it is exercised by the harness with a derived running error bound against these exact
results (see `harness/props/c17.py`).  The two statements that need no arithmetic law at all
(`convertArrayInplace_eq_convertArray`, `array_offset_branch_eq_map`) are proved for *every* number type, so they hold
bit for bit in binary64 too.
-/
namespace TD.C17

/-! ## Independent specification: an affine map through the base unit of the dimension -/

/-- value in unit `u` ↦ value in the base unit -/
def toBase (u : Unit ℚ) (v : ℚ) : ℚ := (v - u.offset) * u.scale
/-- value in the base unit ↦ value in unit `u` -/
def fromBase (u : Unit ℚ) (x : ℚ) : ℚ := x / u.scale + u.offset

def exDegC : Unit ℚ := ⟨"DEGC", "Temperature", 1, -5463 / 20⟩
def exDegF : Unit ℚ := ⟨"DEGF", "Temperature", 5 / 9, -45967 / 100⟩
def exDegK : Unit ℚ := ⟨"DEGK", "Temperature", 1, 0⟩
def exFeet : Unit ℚ := ⟨"FEET", "Length", 381 / 1250, 0⟩
def exInch : Unit ℚ := ⟨"INCH", "Length", 127 / 5000, 0⟩

theorem fromBase_toBase (u : Unit ℚ) (h : u.scale ≠ 0) (v : ℚ) : fromBase u (toBase u v) = v := by
  unfold fromBase toBase; field_simp; ring

theorem toBase_fromBase (u : Unit ℚ) (h : u.scale ≠ 0) (x : ℚ) : toBase u (fromBase u x) = x := by
  unfold fromBase toBase; field_simp; ring

example : exDegF.scale ≠ 0 := by decide +kernel

/-- **The formula as coded is the specification** (both branches of `_convert`): same dimension ⇒ the result is the
value taken to the base unit by `unit_from` and back by `unit_to`. -/
theorem convert_spec (v : ℚ) (a b : Unit ℚ) (hd : a.dim = b.dim) :
    convert v a b = .ok (fromBase b (toBase a v)) := by
  unfold convert
  rw [(sameDimension_iff a b).2 hd]
  simp only [Bool.not_true, Bool.false_eq_true, if_false, convertRaw_eq, fromBase, toBase]

example : exDegC.dim = exDegF.dim := by decide +kernel
example : convertRaw 0 exDegC exDegF = 32 := by decide +kernel
example : convertRaw 12 exFeet exInch = 144 := by decide +kernel

/-! ## The generated OSDD table -/

/-- **No zero scale** in the whole table as it is in the repository now (kernel evaluation over all rows). -/
theorem scale_ne_zero : ∀ u ∈ osddTable, u.scale ≠ 0 := by
  intro u hu
  obtain ⟨r, hr, rfl⟩ := List.mem_map.1 hu
  have hok := List.all_eq_true.1 osdd_rows_ok r hr
  simp only [osddRowOk, Bool.and_eq_true, bne_iff_ne, ne_eq] at hok
  exact mkRat_ne_zero_of hok.1.1 hok.1.2

/-- the table has as many entries as the generator counted (2035 for the present file) -/
theorem osdd_table_length : osddTable.length = TD.Gen.C17Osdd.rowCount := by
  simp [osddTable, osdd_row_count]

example : osddTable.length = 2035 := by rw [osdd_table_length]; rfl

/-! ## Exact laws of `convert` (all values, all units with non-zero scales) -/

/-- **Identity**: converting to the same unit returns the value. -/
theorem identity (a : Unit ℚ) (ha : a.scale ≠ 0) (v : ℚ) : convert v a a = .ok v := by
  rw [convert_spec v a a rfl, fromBase_toBase a ha]

/-- **Round trip**: there and back returns the value. -/
theorem roundtrip (a b : Unit ℚ) (ha : a.scale ≠ 0) (hb : b.scale ≠ 0) (hd : a.dim = b.dim) (v : ℚ) :
    ∃ w, convert v a b = .ok w ∧ convert w b a = .ok v := by
  refine ⟨_, convert_spec v a b hd, ?_⟩
  rw [convert_spec _ b a hd.symm, toBase_fromBase b hb, fromBase_toBase a ha]

/-- **Transitivity**: via a third unit equals directly. -/
theorem transitive (a b c : Unit ℚ) (hb : b.scale ≠ 0) (hab : a.dim = b.dim) (hbc : b.dim = c.dim) (v : ℚ) :
    ∃ w, convert v a b = .ok w ∧ convert w b c = convert v a c := by
  refine ⟨_, convert_spec v a b hab, ?_⟩
  rw [convert_spec _ b c hbc, convert_spec v a c (hab.trans hbc), toBase_fromBase b hb]

example : exDegC.scale ≠ 0 ∧ exDegF.scale ≠ 0 ∧ exDegK.scale ≠ 0 ∧ exDegC.dim = exDegF.dim ∧ exDegF.dim = exDegK.dim := by
  decide +kernel

/-- **Dimension check**: different dimensions ⇒ the units error, for every value. -/
theorem dimension_checked (a b : Unit ℚ) (h : a.dim ≠ b.dim) (v : ℚ) : convert v a b = .error .unitsDimension := by
  unfold convert
  have : sameDimension a b = false := by
    rw [← Bool.not_eq_true, sameDimension_iff]; exact h
  simp [this]

example : exDegC.dim ≠ exFeet.dim := by decide +kernel

/-- … and never a number: `convert` returns a value exactly when the dimensions agree. -/
theorem convert_ok_iff (a b : Unit ℚ) (v : ℚ) : (∃ w, convert v a b = .ok w) ↔ a.dim = b.dim := by
  constructor
  · rintro ⟨w, hw⟩
    by_contra h
    rw [dimension_checked a b h v] at hw
    cases hw
  · intro h; exact ⟨_, convert_spec v a b h⟩

/-- `convert_function` is refused under the same condition, when the function is requested … -/
theorem dimension_checked_function (a b : Unit ℚ) (h : a.dim ≠ b.dim) :
    ∀ f, convertFunction a b ≠ .ok f := by
  intro f
  unfold convertFunction
  have : sameDimension a b = false := by
    rw [← Bool.not_eq_true, sameDimension_iff]; exact h
  simp [this]

/-- … and otherwise is `convert` with the units fixed. -/
theorem convertFunction_eq_convert (a b : Unit ℚ) (h : a.dim = b.dim) :
    ∃ f, convertFunction a b = .ok f ∧ ∀ v, convert v a b = .ok (f v) := by
  refine ⟨fun v => convertRaw v a b, ?_, ?_⟩
  · unfold convertFunction; simp [(sameDimension_iff a b).2 h]
  · intro v; unfold convert; simp [(sameDimension_iff a b).2 h]

/-! ### The same laws for every entry of the generated OSDD table -/

theorem osdd_identity : ∀ a ∈ osddTable, ∀ v : ℚ, convert v a a = .ok v :=
  fun a ha v => identity a (scale_ne_zero a ha) v

theorem osdd_roundtrip : ∀ a ∈ osddTable, ∀ b ∈ osddTable, a.dim = b.dim → ∀ v : ℚ,
    ∃ w, convert v a b = .ok w ∧ convert w b a = .ok v :=
  fun a ha b hb hd v => roundtrip a b (scale_ne_zero a ha) (scale_ne_zero b hb) hd v

theorem osdd_transitive : ∀ a ∈ osddTable, ∀ b ∈ osddTable, ∀ c ∈ osddTable, a.dim = b.dim → b.dim = c.dim →
    ∀ v : ℚ, ∃ w, convert v a b = .ok w ∧ convert w b c = convert v a c :=
  fun a _ b hb c _ hab hbc v => transitive a b c (scale_ne_zero b hb) hab hbc v

theorem osdd_dimension_checked : ∀ a ∈ osddTable, ∀ b ∈ osddTable, a.dim ≠ b.dim → ∀ v : ℚ,
    convert v a b = .error .unitsDimension :=
  fun a _ b _ h v => dimension_checked a b h v

/-- the table quantifiers are not vacuous: it holds two different units of one dimension and two of different ones -/
example : ∃ a ∈ osddTable, ∃ b ∈ osddTable, a.dim = b.dim ∧ a.code ≠ b.code := by decide +kernel
example : ∃ a ∈ osddTable, ∃ b ∈ osddTable, a.dim ≠ b.dim := by decide +kernel

/-! ## Array forms = element-wise scalar form, refusal included -/

/-- `convert_array` (copying): refused exactly when the scalar `convert` is refused (different dimensions), otherwise
`map` of the scalar `_convert` (over ℚ; the offset-free branch multiplies by the pre-divided factor, which is the same
number exactly but not in floating point). -/
theorem convertArray_eq_map (xs : List ℚ) (a b : Unit ℚ) :
    convertArray xs a b =
      if a.dim = b.dim then .ok (xs.map (fun x => convertRaw x a b)) else .error .unitsDimension := by
  unfold convertArray
  by_cases hd : a.dim = b.dim
  · rw [(sameDimension_iff a b).2 hd]
    simp only [Bool.not_true, Bool.false_eq_true, if_false, hd, if_true]
    unfold convertRaw
    split
    · rfl
    · congr 1; apply List.map_congr_left; intro x _; rw [mul_div_assoc]
  · have : sameDimension a b = false := by rw [← Bool.not_eq_true, sameDimension_iff]; exact hd
    simp [this, hd]

/-- `convert_array_inplace`: refused under the same condition, otherwise leaves `map` of the scalar `_convert`. -/
theorem convertArrayInplace_eq_map (xs : List ℚ) (a b : Unit ℚ) :
    convertArrayInplace xs a b =
      if a.dim = b.dim then .ok (xs.map (fun x => convertRaw x a b)) else .error .unitsDimension := by
  unfold convertArrayInplace
  by_cases hd : a.dim = b.dim
  · rw [(sameDimension_iff a b).2 hd]
    simp only [Bool.not_true, Bool.false_eq_true, if_false, hd, if_true]
    unfold convertRaw
    split
    · simp only [List.map_map]; rfl
    · congr 1; apply List.map_congr_left; intro x _; rw [mul_div_assoc]
  · have : sameDimension a b = false := by rw [← Bool.not_eq_true, sameDimension_iff]; exact hd
    simp [this, hd]

/-- **Array result = the scalar results, element by element; error iff the scalar conversion errors.** -/
theorem array_elementwise (xs : List ℚ) (a b : Unit ℚ) :
    (a.dim = b.dim →
      ∃ ys, convertArray xs a b = .ok ys ∧ convertArrayInplace xs a b = .ok ys ∧ ys.length = xs.length ∧
        ∀ (i : Nat) (h : i < xs.length) (h' : i < ys.length), convert xs[i] a b = .ok ys[i]) ∧
    (a.dim ≠ b.dim →
      convertArray xs a b = .error .unitsDimension ∧ convertArrayInplace xs a b = .error .unitsDimension ∧
        ∀ x, convert x a b = .error .unitsDimension) := by
  constructor
  · intro hd
    refine ⟨xs.map (fun x => convertRaw x a b), ?_, ?_, by simp, ?_⟩
    · rw [convertArray_eq_map, if_pos hd]
    · rw [convertArrayInplace_eq_map, if_pos hd]
    · intro i h h'
      unfold convert
      simp [(sameDimension_iff a b).2 hd]
  · intro hd
    refine ⟨?_, ?_, fun x => dimension_checked a b hd x⟩
    · rw [convertArray_eq_map, if_neg hd]
    · rw [convertArrayInplace_eq_map, if_neg hd]

/-- **Dimension check of the array forms**: different dimensions ⇒ both refuse with the units error and the
in-place form leaves the caller's array as it was. -/
theorem array_dimension_checked (xs : List ℚ) (a b : Unit ℚ) (h : a.dim ≠ b.dim) :
    convertArray xs a b = .error .unitsDimension ∧ convertArrayInplace xs a b = .error .unitsDimension ∧
      arrayAfterInplace xs a b = xs := by
  have h2 : convertArrayInplace xs a b = .error .unitsDimension := by rw [convertArrayInplace_eq_map, if_neg h]
  refine ⟨by rw [convertArray_eq_map, if_neg h], h2, ?_⟩
  unfold arrayAfterInplace; rw [h2]

/-- … and a list of numbers exactly when the dimensions agree. -/
theorem convertArray_ok_iff (xs : List ℚ) (a b : Unit ℚ) :
    (∃ ys, convertArray xs a b = .ok ys) ↔ a.dim = b.dim := by
  rw [convertArray_eq_map]
  by_cases hd : a.dim = b.dim <;> simp [hd]

/-- **Held results**: the results of a sequence of conversions are the conversions of the individual requests — a
later call has no influence on an earlier result (the model is a function; the HOLD streams of the harness check that the
arrays / `EngVal`s the Python code hands out behave like that: no shared or re-used storage). -/
theorem convertArray_results_independent (reqs : List (List ℚ × Unit ℚ × Unit ℚ)) (i : Nat) (h : i < reqs.length) :
    (reqs.map (fun r => convertArray r.1 r.2.1 r.2.2))[i]'(by simpa using h) =
      convertArray reqs[i].1 reqs[i].2.1 reqs[i].2.2 := by
  simp

example : convertArray [0, 100] exDegC exDegF = .ok [32, 212] := by decide +kernel
example : convertArrayInplace [12, 24] exFeet exInch = .ok [144, 288] := by decide +kernel
example : convertArray [1] exFeet exDegC = .error .unitsDimension := by decide +kernel

section anyNumberType
variable {α : Type} [Add α] [Sub α] [Mul α] [Div α] [BEq α] [OfNat α 0]

/-- In place and copying agree for **every** number type (no arithmetic law used: the same check and the same
operations in the same order), hence bit for bit in binary64. -/
theorem convertArrayInplace_eq_convertArray (xs : List α) (a b : Unit α) :
    convertArrayInplace xs a b = convertArray xs a b := by
  unfold convertArrayInplace convertArray
  split
  · rfl
  · split
    · simp only [List.map_map]; rfl
    · rfl

/-- In the offset branch the array forms are `map` of the scalar form for **every** number type. -/
theorem array_offset_branch_eq_map (xs : List α) (a b : Unit α) (hd : sameDimension a b = true)
    (h : (a.hasOffset || b.hasOffset) = true) :
    convertArray xs a b = .ok (xs.map (fun x => convertRaw x a b)) := by
  unfold convertArray convertRaw
  simp only [hd, Bool.not_true, Bool.false_eq_true, if_false, h, if_true]

end anyNumberType

example : sameDimension exDegC exDegK = true ∧ (exDegC.hasOffset || exDegK.hasOffset) = true := by decide +kernel

/-! ## LIS: `LIS/core/Units.py` -/

/-- what the import-time asserts of the module guarantee: unit names unique in the table, category keys unique -/
def LisWF {α : Type} (t : List (LisCat α)) : Prop := (allNames t).Nodup ∧ (t.map (fun k => k.cat)).Nodup

/-- the generated LIS table is well formed (kernel evaluation) -/
theorem lisTable_wf : LisWF lisTable := (lisWFB_iff lisTable).1 lisTable_wfB

/-- **No zero multiplier** in the generated LIS table. -/
theorem lis_mult_ne_zero : ∀ k ∈ lisTable, ∀ x ∈ k.units, x.mult ≠ 0 := by
  intro k hk x hx
  obtain ⟨c, hc, rfl⟩ := List.mem_map.1 hk
  obtain ⟨r, hr, rfl⟩ := List.mem_map.1 hx
  have h1 := List.all_eq_true.1 (List.all_eq_true.1 lis_rows_ok c hc) r hr
  simp only [lisRowOk, Bool.and_eq_true, bne_iff_ne, ne_eq] at h1
  exact mkRat_ne_zero_of h1.1.1 h1.1.2

/-- two units of one category: module `convert` reaches `UnitConvert.convert` of exactly those two entries -/
theorem lis_convert_known {α : Type} [Add α] [Sub α] [Mul α] [Div α] [OfNat α 0]
    (t : List (LisCat α)) (hwf : LisWF t) (k : LisCat α) (hk : k ∈ t)
    (x y : LisUnit α) (hx : x ∈ k.units) (hy : y ∈ k.units) (v : Option α) :
    lisConvert t v x.name y.name = .ok (x.convert v y) := by
  have hxn : x.name ∈ k.names := List.mem_map.2 ⟨x, hx, rfl⟩
  have hyn : y.name ∈ k.names := List.mem_map.2 ⟨y, hy, rfl⟩
  have hnd := names_nodup_of_mem t hwf.1 k hk
  unfold lisConvert
  rw [unitToCategory_of_mem t hwf.1 k hk _ hxn, unitToCategory_of_mem t hwf.1 k hk _ hyn]
  simp only [unitMap_of_mem t hwf.2 k hk]
  unfold LisCat.convert
  rw [unitConvertor_of_mem k hnd x hx, unitConvertor_of_mem k hnd y hy]

/-- **LIS identity** -/
theorem lis_identity : ∀ k ∈ lisTable, ∀ x ∈ k.units, ∀ v : ℚ,
    lisConvert lisTable (some v) x.name x.name = .ok v := by
  intro k hk x hx v
  rw [lis_convert_known lisTable lisTable_wf k hk x x hx hx, lisUnit_convert_eq]
  have := lis_mult_ne_zero k hk x hx
  congr 1; field_simp; ring

/-- **LIS round trip** for any two units of one category -/
theorem lis_roundtrip : ∀ k ∈ lisTable, ∀ x ∈ k.units, ∀ y ∈ k.units, ∀ v : ℚ,
    ∃ w, lisConvert lisTable (some v) x.name y.name = .ok w ∧ lisConvert lisTable (some w) y.name x.name = .ok v := by
  intro k hk x hx y hy v
  refine ⟨_, lis_convert_known lisTable lisTable_wf k hk x y hx hy _, ?_⟩
  rw [lis_convert_known lisTable lisTable_wf k hk y x hy hx, lisUnit_convert_eq, lisUnit_convert_eq]
  have := lis_mult_ne_zero k hk x hx
  have := lis_mult_ne_zero k hk y hy
  congr 1; field_simp; ring

/-- **LIS transitivity** for any three units of one category -/
theorem lis_transitive : ∀ k ∈ lisTable, ∀ x ∈ k.units, ∀ y ∈ k.units, ∀ z ∈ k.units, ∀ v : ℚ,
    ∃ w, lisConvert lisTable (some v) x.name y.name = .ok w ∧
      lisConvert lisTable (some w) y.name z.name = lisConvert lisTable (some v) x.name z.name := by
  intro k hk x hx y hy z hz v
  refine ⟨_, lis_convert_known lisTable lisTable_wf k hk x y hx hy _, ?_⟩
  rw [lis_convert_known lisTable lisTable_wf k hk y z hy hz, lis_convert_known lisTable lisTable_wf k hk x z hx hz,
    lisUnit_convert_eq, lisUnit_convert_eq, lisUnit_convert_eq]
  have := lis_mult_ne_zero k hk y hy
  congr 1; field_simp; ring

/-- the quantifiers above are not vacuous -/
example : ∃ k ∈ lisTable, 3 ≤ k.units.length := by decide +kernel

/-- `val is None` converts to `0.` whatever the units (as coded) -/
theorem lis_none_is_zero : ∀ k ∈ lisTable, ∀ x ∈ k.units, ∀ y ∈ k.units,
    lisConvert lisTable none x.name y.name = .ok 0 := by
  intro k hk x hx y hy
  rw [lis_convert_known lisTable lisTable_wf k hk x y hx hy]; rfl

/-- **Unknown unit ⇒ refused** (`ExceptionUnitsUnknownUnit`), for any table, value and partner. -/
theorem unknown_unit_refused {α : Type} [Add α] [Sub α] [Mul α] [Div α] [OfNat α 0]
    (t : List (LisCat α)) (v : Option α) (u1 u2 : String)
    (h : u1 ∉ allNames t ∨ u2 ∉ allNames t) : lisConvert t v u1 u2 = .error .lisUnknownUnit := by
  unfold lisConvert
  rcases h with h | h
  · rw [(unitToCategory_eq_none_iff t u1).2 h]
  · rw [(unitToCategory_eq_none_iff t u2).2 h]
    cases unitToCategory t u1 <;> rfl

example : "XXXX" ∉ allNames lisTable := by decide +kernel

/-- … in particular an unknown unit **to itself** is refused by the module-level `convert` (the first lookup fails); only
`EngVal` short-cuts equal units (`engval_same_units`). -/
theorem unknown_unit_to_itself_refused {α : Type} [Add α] [Sub α] [Mul α] [Div α] [OfNat α 0]
    (t : List (LisCat α)) (v : Option α) (u : String) (h : u ∉ allNames t) :
    lisConvert t v u u = .error .lisUnknownUnit :=
  unknown_unit_refused t v u u (Or.inl h)

/-- **Category mismatch ⇒ refused**: two known units of different categories never give a number. The refusal is
the `ExceptionUnitsNoUnitInCategory` raised by `unitConvertor(u_2)` on the category of `u_1` — the path the code takes
(the `ExceptionUnitsMissmatchedCategory` of the docstring is constructed but not raised). -/
theorem category_mismatch_refused {α : Type} [Add α] [Sub α] [Mul α] [Div α] [OfNat α 0]
    (t : List (LisCat α)) (hwf : LisWF t) (v : Option α) (u1 u2 c1 c2 : String)
    (h1 : unitToCategory t u1 = some c1) (h2 : unitToCategory t u2 = some c2) (hne : c1 ≠ c2) :
    lisConvert t v u1 u2 = .error .lisNoUnitInCategory := by
  obtain ⟨k, hk, hkc, hu1⟩ := unitToCategory_some t u1 c1 h1
  obtain ⟨x, hx, hxn⟩ := List.mem_map.1 hu1
  have hu2 : u2 ∉ k.names := by
    intro hm
    have := unitToCategory_of_mem t hwf.1 k hk u2 hm
    rw [h2, hkc] at this
    exact hne (Option.some.inj this).symm
  have hnd := names_nodup_of_mem t hwf.1 k hk
  unfold lisConvert
  rw [h1, h2]
  simp only [← hkc, unitMap_of_mem t hwf.2 k hk]
  unfold LisCat.convert
  rw [← hxn, unitConvertor_of_mem k hnd x hx, unitConvertor_of_not_mem k u2 hu2]

example : unitToCategory lisTable "FEET" = some "LENG" ∧ unitToCategory lisTable "DEGC" = some "TEMP" := by
  decide +kernel

/-- **A number exactly for two known units of one category** (well-formed table). -/
theorem lis_convert_ok_iff {α : Type} [Add α] [Sub α] [Mul α] [Div α] [OfNat α 0]
    (t : List (LisCat α)) (hwf : LisWF t) (v : Option α) (u1 u2 : String) :
    (∃ w, lisConvert t v u1 u2 = .ok w) ↔ ∃ c, unitToCategory t u1 = some c ∧ unitToCategory t u2 = some c := by
  constructor
  · rintro ⟨w, hw⟩
    cases h1 : unitToCategory t u1 with
    | none =>
      rw [unknown_unit_refused t v u1 u2 (Or.inl ((unitToCategory_eq_none_iff t u1).1 h1))] at hw; cases hw
    | some c1 =>
      cases h2 : unitToCategory t u2 with
      | none =>
        rw [unknown_unit_refused t v u1 u2 (Or.inr ((unitToCategory_eq_none_iff t u2).1 h2))] at hw; cases hw
      | some c2 =>
        by_cases hc : c1 = c2
        · exact ⟨c1, rfl, by rw [hc]⟩
        · rw [category_mismatch_refused t hwf v u1 u2 c1 c2 h1 h2 hc] at hw; cases hw
  · rintro ⟨c, h1, h2⟩
    obtain ⟨k, hk, hkc, hu1⟩ := unitToCategory_some t u1 c h1
    obtain ⟨k', hk', hkc', hu2'⟩ := unitToCategory_some t u2 c h2
    have hkk : k' = k := by
      have := unitMap_of_mem t hwf.2 k hk
      have h' := unitMap_of_mem t hwf.2 k' hk'
      rw [hkc] at this; rw [hkc'] at h'
      exact Option.some.inj (h'.symm.trans this)
    subst hkk
    obtain ⟨x, hx, rfl⟩ := List.mem_map.1 hu1
    obtain ⟨y, hy, rfl⟩ := List.mem_map.1 hu2'
    exact ⟨_, lis_convert_known t hwf k' hk' x y hx hy v⟩

/-- every refusal of a well-formed table is a member of the units-exception family (never a bare `KeyError`) -/
theorem lis_refusal_is_units_error {α : Type} [Add α] [Sub α] [Mul α] [Div α] [OfNat α 0]
    (t : List (LisCat α)) (hwf : LisWF t) (v : Option α) (u1 u2 : String) (e : Err)
    (h : lisConvert t v u1 u2 = .error e) : e.isUnitsError = true := by
  cases h1 : unitToCategory t u1 with
  | none =>
    rw [unknown_unit_refused t v u1 u2 (Or.inl ((unitToCategory_eq_none_iff t u1).1 h1))] at h
    cases h; rfl
  | some c1 =>
    cases h2 : unitToCategory t u2 with
    | none =>
      rw [unknown_unit_refused t v u1 u2 (Or.inr ((unitToCategory_eq_none_iff t u2).1 h2))] at h
      cases h; rfl
    | some c2 =>
      by_cases hc : c1 = c2
      · obtain ⟨w, hw⟩ := (lis_convert_ok_iff t hwf v u1 u2).2 ⟨c1, h1, by rw [h2, hc]⟩
        rw [hw] at h; cases h
      · rw [category_mismatch_refused t hwf v u1 u2 c1 c2 h1 h2 hc] at h
        cases h; rfl

/-! ## LIS `EngVal`: the conversion entry points -/

section engval
variable {α : Type} [Add α] [Sub α] [Mul α] [Div α] [OfNat α 0]

/-- equal units: the value is returned untouched, before any table lookup (so also for a unit the table lacks) -/
theorem engval_same_units (t : List (LisCat α)) (e : EngVal α) : e.getInUnits t e.uom = .ok e.value := by
  simp [EngVal.getInUnits]

/-- different units: exactly the module-level `convert`, refusals included -/
theorem engval_getInUnits_eq (t : List (LisCat α)) (e : EngVal α) (u : String) (h : u ≠ e.uom) :
    e.getInUnits t u = lisConvert t (some e.value) e.uom u := by
  simp [EngVal.getInUnits, h]

/-- `convert` (in place) and `newEngValInUnits` carry the value of `getInUnits` and the requested units -/
theorem engval_forms_agree (t : List (LisCat α)) (e : EngVal α) (u : String) :
    e.convert t u = (e.getInUnits t u).map (fun v => ⟨v, u⟩) ∧
    e.newEngValInUnits t u = (e.getInUnits t u).map (fun v => ⟨v, u⟩) := by
  unfold EngVal.convert EngVal.newEngValInUnits EngVal.getInUnits
  by_cases h : u = e.uom
  · subst h; simp [Except.map]
  · simp only [bne_iff_ne, ne_eq, h, not_false_eq_true, if_true, beq_iff_eq, if_false]
    cases lisConvert t (some e.value) e.uom u <;> simp [Except.map]

/-! ### History independence of one `EngVal` object

In the model the state of the object *is* `(value, uom)`; the theorems below spell out what that means for the mutable
Python object and are what the HISTORY streams of the harness compare it with: whatever sequence of operations was
applied, every observable is the observable of a fresh object built from the final `(value, uom)`. -/

/-- reading operations do not change the object -/
theorem engval_observe_keeps_state (t : List (LisCat α)) (e : EngVal α) : e.step t .observe = e := rfl

/-- a refused in-place conversion leaves the object as it was -/
theorem engval_refused_convert_keeps_state (t : List (LisCat α)) (e : EngVal α) (u : String) (err : Err)
    (h : e.convert t u = .error err) : e.step t (.convert u) = e := by
  simp [EngVal.step, h]

/-- **History independence**: after any history the observables are those of a fresh `EngVal(value, uom)` made from
the final value and units. -/
theorem engval_history (t : List (LisCat α)) (e : EngVal α) (ops : List (EngOp α)) (u : String) :
    (e.run t ops).getInUnits t u = (EngVal.mk (e.run t ops).value (e.run t ops).uom).getInUnits t u ∧
    (e.run t ops).convert t u = (EngVal.mk (e.run t ops).value (e.run t ops).uom).convert t u ∧
    (e.run t ops).newEngValInUnits t u = (EngVal.mk (e.run t ops).value (e.run t ops).uom).newEngValInUnits t u :=
  ⟨rfl, rfl, rfl⟩

/-- two objects that reached the same value and units by different histories are indistinguishable -/
theorem engval_history_determined (t : List (LisCat α)) (e₁ e₂ : EngVal α) (ops₁ ops₂ : List (EngOp α))
    (hv : (e₁.run t ops₁).value = (e₂.run t ops₂).value) (hu : (e₁.run t ops₁).uom = (e₂.run t ops₂).uom) (u : String) :
    (e₁.run t ops₁).getInUnits t u = (e₂.run t ops₂).getInUnits t u ∧
    (e₁.run t ops₁).convert t u = (e₂.run t ops₂).convert t u := by
  have : e₁.run t ops₁ = e₂.run t ops₂ := by
    generalize e₁.run t ops₁ = a at *
    generalize e₂.run t ops₂ = b at *
    cases a; cases b; simp_all
  rw [this]; exact ⟨rfl, rfl⟩

/-- the history is the fold of single steps (each depends on the previous *state* only) -/
theorem engval_run_append (t : List (LisCat α)) (e : EngVal α) (ops₁ ops₂ : List (EngOp α)) :
    e.run t (ops₁ ++ ops₂) = (e.run t ops₁).run t ops₂ := by
  simp [EngVal.run, List.foldl_append]

end engval

/-- `*=` by a real then reading in other units = reading then scaling, for offset-free units of one category (ℚ): the
in-place arithmetic commutes with the conversion, so a stale reading would be visibly wrong. -/
theorem engval_imul_then_get : ∀ k ∈ lisTable, ∀ x ∈ k.units, ∀ y ∈ k.units, x.offs = none → y.offs = none →
    ∀ v r : ℚ, ∃ w, (⟨v, x.name⟩ : EngVal ℚ).getInUnits lisTable y.name = .ok w ∧
      (((⟨v, x.name⟩ : EngVal ℚ).step lisTable (.imulReal r)).getInUnits lisTable y.name) = .ok (w * r) := by
  intro k hk x hx y hy hxo hyo v r
  have hy0 := lis_mult_ne_zero k hk y hy
  by_cases hn : y.name = x.name
  · refine ⟨v, by simp [EngVal.getInUnits, hn], by simp [EngVal.getInUnits, EngVal.step, hn]⟩
  · refine ⟨x.convert (some v) y, ?_, ?_⟩
    · simp only [EngVal.getInUnits, beq_iff_eq, hn, if_false]
      exact lis_convert_known lisTable lisTable_wf k hk x y hx hy _
    · simp only [EngVal.getInUnits, EngVal.step, beq_iff_eq, hn, if_false]
      rw [lis_convert_known lisTable lisTable_wf k hk x y hx hy, lisUnit_convert_eq, lisUnit_convert_eq, hxo, hyo]
      congr 1; simp only [Option.getD_none]; field_simp; ring

/-- for a unit of the table the shortcut for equal units *is* the conversion (over ℚ) -/
theorem engval_shortcut_is_conversion : ∀ k ∈ lisTable, ∀ x ∈ k.units, ∀ v : ℚ,
    (⟨v, x.name⟩ : EngVal ℚ).getInUnits lisTable x.name = lisConvert lisTable (some v) x.name x.name := by
  intro k hk x hx v
  rw [lis_identity k hk x hx v]; exact engval_same_units lisTable ⟨v, x.name⟩

end TD.C17
