import TD.C09.Spec
namespace TD.C09
theorem placeholder : (1 : Nat) = 1 := rfl
end TD.C09
