import TD.C09.LemmasTop
import TD.C09.LemmasEnd

/-!
# C09 — LAS files parse to their content, independent of layout

Property theorems only.  `TD.C09.Model` transcribes `TotalDepth/LAS/core/LASRead.py` (tied to the source by the
correspondence run of `./check C09`); `TD.C09.Spec` is the independent content model, the layout-parametric printer and
the decidable well-formedness predicate `wfContent`.
-/
namespace TD.C09

/-- the state of the reader after the whole printed text: every section closed in order, all rows collected -/
theorem feed_print (c : LasContent) (l : LasLayout) (hwf : wfContent c = true) :
    ∃ wv, checkV (vSection c).members = some wv ∧
      feed St.init (print c l) = .ok ⟨(c.sects.map expectSect).reverse ++ [vSection c], some wv, none,
        .arr ⟨wrapOf c, declaredNull c, (curvesOf c).map (fun h => ((.text h.mnem : Value), (.text h.unit : Value))),
              (rowToks c.frames l.rows).reverse, []⟩⟩ := by
  simp only [wfContent, Bool.and_eq_true, List.all_eq_true, Bool.not_eq_true', Bool.or_eq_true,
    beq_iff_eq] at hwf
  obtain ⟨⟨⟨⟨⟨⟨⟨⟨⟨hv, hcv⟩, hs⟩, hdist⟩, hC⟩, hmn⟩, hdt⟩, hfr⟩, hne⟩, hdx⟩ := hwf
  obtain ⟨wv, hwv⟩ := Option.isSome_iff_exists.1 hcv
  refine ⟨wv, hwv, ?_⟩
  have hcur := find_curve c hs hC
  have hwrap : wrapOf c = truthy wv := by simp only [wrapOf, hwv]
  let ms0 : List Member := (c.v.map (fun h => Member.line (expectLine h))).reverse
  have hms0 : ms0.reverse = (vSection c).members := by simp [ms0, vSection]
  have hclose : finaliseSect ⟨[], none, none, .sect 'V' true ms0⟩ 'V' ms0 =
      .ok ⟨[⟨'V', ms0.reverse⟩], some wv, none, .top⟩ := by
    simp [finaliseSect, St.hasType, hms0, hwv]
  have hnd := distinctChars_nodup _ hdist
  -- version section, then every other section, then the `~A` head
  unfold print
  simp only [printSect, List.append_assoc]
  rw [feed_head_V, feed_hlines c.v l.v.lines _ 'V' [] _ hv rfl]
  simp only [List.append_nil, St.init]
  rw [feed_sections c.sects l.sects [] none (some wv) 'V' true ms0 l.a _ hclose (by simp) hs hnd
    (fun s hs' => ⟨(wfSect_facts (hs s hs')).2.1, rfl⟩)]
  -- the array section is opened on the curve section
  have hsec : (⟨'V', ms0.reverse⟩ : Section) = vSection c := by rw [hms0]; rfl
  rw [hsec]
  have hopen : openA ⟨(c.sects.map expectSect).reverse ++ [vSection c], some wv, none, .top⟩ =
      .ok ⟨(c.sects.map expectSect).reverse ++ [vSection c], some wv, none,
        .arr ⟨wrapOf c, declaredNull c, (curvesOf c).map (fun h => ((.text h.mnem : Value), (.text h.unit : Value))), [], []⟩⟩ := by
    unfold openA
    rw [firstCurve_eq c _ hcur]
    simp only [curveNames_hdr, List.map_map]
    have h1 : ((fun (x : Value × Value) => x.1) ∘ fun (h : HLine) => ((.text h.mnem : Value), (.text h.unit : Value))) =
        Value.text ∘ (fun h => h.mnem) := by funext h; rfl
    rw [h1, ← List.map_map, hasDupKey_text _ hmn, isDateTime_names _ hdt, nullOf_eq c _ hs, hwrap]
    simp
  rw [hopen]
  simp only [thenFeed]
  -- the rows
  have hrows : ∀ row ∈ c.frames, row.length = ((curvesOf c).map (fun h => ((.text h.mnem : Value), (.text h.unit : Value)))).length ∧
      ∀ d ∈ row, wfCell d = true := by
    intro row hr; rw [List.length_map]; exact hfr row hr
  have hne' : ∀ row ∈ c.frames, row ≠ [] ∧ row.length = (((curvesOf c).map (fun h => ((.text h.mnem : Value), (.text h.unit : Value))))).length ∧
      ∀ d ∈ row, wfCell d = true := by
    intro row hr
    refine ⟨?_, (hrows row hr).1, (hfr row hr).2⟩
    intro h0
    rcases hne with h | h
    · rw [List.isEmpty_iff] at h; rw [h] at hr; cases hr
    · have := (hfr row hr).1
      rw [h0] at this
      have h3 : curvesOf c = [] := List.eq_nil_of_length_eq_zero this.symm
      rw [h3] at h; simp at h
  cases hw : wrapOf c with
  | true =>
    rw [feed_rows_wrapped c.frames l.rows _ _ _ _ [] _ hne']
    have := feed_junk ⟨(c.sects.map expectSect).reverse ++ [vSection c], some wv, none,
      .arr ⟨true, declaredNull c, ((curvesOf c).map (fun h => ((.text h.mnem : Value), (.text h.unit : Value)))), (rowToks c.frames l.rows).reverse ++ [], []⟩⟩ l.tail []
    simp only [List.append_nil] at this ⊢
    rw [this]; rfl
  | false =>
    rw [feed_rows_unwrapped c.frames l.rows _ _ _ _ [] _ (fun row hr => ⟨(hne' row hr).1, (hne' row hr).2.2⟩)]
    have := feed_junk ⟨(c.sects.map expectSect).reverse ++ [vSection c], some wv, none,
      .arr ⟨false, declaredNull c, ((curvesOf c).map (fun h => ((.text h.mnem : Value), (.text h.unit : Value)))), (rowToks c.frames l.rows).reverse ++ [], []⟩⟩ l.tail []
    simp only [List.append_nil] at this ⊢
    rw [this]; rfl

/-- **parse ∘ print = id** — for every well-formed content and EVERY layout (padding, comment and blank lines
anywhere, blank/TAB separators, number styles, wrapped or not as the content's WRAP line says, any number of curves
≥ 1 in either mode) the reader returns
exactly the content: every section line (mnemonic, unit, typed value, description), the channels in curve order and
every data value, with tokens that are not numbers replaced by the null value the file declares. -/
theorem parse_print (c : LasContent) (l : LasLayout) (hwf : wfContent c = true) :
    parse (print c l) = .ok (toFile c) := by
  obtain ⟨wv, _, hfeed⟩ := feed_print c l hwf
  simp only [wfContent, Bool.and_eq_true, List.all_eq_true, Bool.not_eq_true', Bool.or_eq_true,
    beq_iff_eq] at hwf
  obtain ⟨⟨⟨⟨⟨⟨⟨⟨⟨hv, hcv⟩, hs⟩, hdist⟩, hC⟩, hmn⟩, hdt⟩, hfr⟩, hne⟩, hdx⟩ := hwf
  have hrows : ∀ row ∈ c.frames, row.length = ((curvesOf c).map (fun h => ((.text h.mnem : Value), (.text h.unit : Value)))).length ∧
      ∀ d ∈ row, wfCell d = true := by
    intro row hr; rw [List.length_map]; exact hfr row hr
  unfold parse
  have : run St.init (genLines (print c l)) = feed St.init (print c l) := rfl
  rw [this, hfeed]
  simp only [finish]
  rw [finaliseArr_rows _ _ _ c.frames l.rows hrows hdx]
  simp [toFile]

/-- **layout independence**: two layouts of the same content read identically. -/
theorem layout_independent (c : LasContent) (l₁ l₂ : LasLayout) (hwf : wfContent c = true) :
    parse (print c l₁) = parse (print c l₂) := by
  rw [parse_print c l₁ hwf, parse_print c l₂ hwf]

/-- **wrapped = unwrapped**: two contents with the same sections and frames (their version sections may differ, in
particular WRAP YES against WRAP NO, so one is printed wrapped and the other one frame per line), under any two layouts,
give the same frame array and the same sections after the version section. -/
theorem wrap_unwrap_equal (c₁ c₂ : LasContent) (l₁ l₂ : LasLayout) (h₁ : wfContent c₁ = true) (h₂ : wfContent c₂ = true)
    (hs : c₁.sects = c₂.sects) (hf : c₁.frames = c₂.frames) :
    ∃ f₁ f₂, parse (print c₁ l₁) = .ok f₁ ∧ parse (print c₂ l₂) = .ok f₂ ∧
      f₁.array = f₂.array ∧ f₁.sections.tail = f₂.sections.tail := by
  refine ⟨toFile c₁, toFile c₂, parse_print c₁ l₁ h₁, parse_print c₂ l₂ h₂, ?_, ?_⟩
  · simp only [toFile, curvesOf, declaredNull, hs, hf]
  · simp only [toFile, List.tail_cons, hs]

/-- **null substitution**: in the array returned for a printed content, the null value is the one the well section
declares (`NULL` line with an int or float value; -999.25 when there is none), a cell holds the number written, and the
null marker (stored by the reader as that declared value) exactly where the token written is not a number. -/
theorem bad_value_becomes_null (c : LasContent) (l : LasLayout) (hwf : wfContent c = true) :
    ∃ f a, parse (print c l) = .ok f ∧ f.array = some a ∧ a.null = declaredNull c ∧
      a.frames = c.frames.map (fun row => row.map (fun d => match d with
        | .num m e => Cell.num m e
        | .bad _ => Cell.null
        | .lit _ m e => Cell.num m e)) := by
  refine ⟨toFile c, _, parse_print c l hwf, rfl, rfl, ?_⟩
  apply List.map_congr_left; intro row _
  apply List.map_congr_left; intro d _
  cases d <;> rfl

theorem numEq_self (a : Int × Int) : numEq a a = true := by simp [numEq]

/-- huge decimal exponents are never exponentiated: they compare like Python's inf and 0.0 -/
example : numEq (1, 999999999999) (25, 1000000000000) = true ∧ numEq (1, -1123456789) (0, 0) = true ∧
    numEq (1, 999999999999) (-1, 999999999999) = false ∧ numEq (1250, -2) (125, -1) = true ∧
    numEq (1250, -2) (1251, -2) = false := by decide +kernel

/-- **masking is exact**: in the array returned for a printed content the X axis is never masked, and a cell of another
channel is masked exactly when the token written is not a number or the number written EQUALS the declared NULL
(as exact decimals) — a value merely close to NULL is data. -/
theorem mask_exact (c : LasContent) (l : LasLayout) (hwf : wfContent c = true) :
    ∃ f a, parse (print c l) = .ok f ∧ f.array = some a ∧
      maskOf a = c.frames.map (fun row => row.zipIdx.map (fun p => p.2 != 0 && (match p.1 with
        | .num m e => numEq (m, e) (declaredNull c)
        | .bad _ => true
        | .lit _ m e => numEq (m, e) (declaredNull c)))) := by
  refine ⟨toFile c, _, parse_print c l hwf, rfl, ?_⟩
  simp only [maskOf, List.map_map]
  apply List.map_congr_left; intro row _
  simp only [Function.comp, List.zipIdx_map, List.map_map]
  apply List.map_congr_left; intro p _
  cases hp : p.1 with
  | num m e => simp [Function.comp, hp, expectCell, cellKey]
  | bad s => simp [Function.comp, hp, expectCell, cellKey, numEq_self]
  | lit s m e => simp [Function.comp, hp, expectCell, cellKey]

/-- **the last line needs no line feed**: a text whose last line `l` (non-empty) is not newline-terminated is read
exactly like the same text with the terminating line feed — last data row, last continuation line of a wrapped frame,
last header line alike (`generate_lines` stops on the EMPTY string only). -/
theorem parse_no_final_newline (t l : Str) (hl : l ≠ []) (hn : ∀ c ∈ l, c ≠ '\n') :
    parse (t ++ '\n' :: l) = parse (t ++ '\n' :: (l ++ ['\n'])) := by
  have h1 : splitLines (t ++ '\n' :: l) = splitLinesAux (t ++ ['\n']) [] ++ [l] := by
    unfold splitLines
    rw [splitLinesAux_split, splitLinesAux_last l [] hn (Or.inl hl)]; simp
  have h2 : splitLines (t ++ '\n' :: (l ++ ['\n'])) = splitLinesAux (t ++ ['\n']) [] ++ [l ++ ['\n']] := by
    unfold splitLines
    rw [splitLinesAux_split]
    have := splitLinesAux_line l [] [] hn
    simp only [List.reverse_nil, List.nil_append] at this
    rw [this]; simp [splitLinesAux]
  unfold parse genLines
  rw [h1, h2, List.filter_append, List.filter_append, run_append, run_append]
  cases run St.init (List.filter keepLine (splitLinesAux (t ++ ['\n']) [])) with
  | error e => rfl
  | ok st =>
    simp only [List.filter_cons, List.filter_nil, keepLine_final_lf l hl hn]
    cases keepLine l with
    | false => rfl
    | true => simp only [if_true, run, step_final_lf st l hl]

/-- the printed content without its final line feed is still read as the content -/
theorem parse_print_no_final_newline (c : LasContent) (ly : LasLayout) (hwf : wfContent c = true) (t l : Str)
    (hp : print c ly = t ++ '\n' :: (l ++ ['\n'])) (hl : l ≠ []) (hn : ∀ x ∈ l, x ≠ '\n') :
    parse (t ++ '\n' :: l) = .ok (toFile c) := by
  rw [parse_no_final_newline t l hl hn, ← hp]; exact parse_print c ly hwf

example : (match parse "~V\nVERS. 2.0:\nWRAP. NO:\n~C\nDEPT.M:\nGR.API:\n~A\n1.0 5\n2.0 7".toList with
    | .ok f => f.array.map (fun a => a.frames.length) == some 2
    | .error _ => false) = true := by decide +kernel

/-- `_convert_value`: a token outside the numeric grammar becomes null, a printed number is read back exactly -/
theorem convert_value_spec (tok : Str) :
    (parseFloat? tok = none → convertValue tok = .null) ∧
    (∀ m e k, tok = printNum m e k → convertValue tok = .num m e) := by
  refine ⟨fun h => by simp [convertValue, h], fun m e k h => ?_⟩
  subst h; simp [convertValue, parseFloat_printNum]

/-- **header lines, layer theorem**: one well-formed line of a V/W/C/P section, printed with any padding, decomposes
(first '.', last ':', the two field scanners, value typing) into exactly the four fields written. -/
theorem header_line_parse_print (h : HLine) (p : HPad) (hw : wfHLine h = true) :
    lineToSectLine (strip (spaces p.lead ++ printHBody h p ++ ['\n'])) = .ok (expectLine h) := by
  obtain ⟨c, r, hs, _, _, hl⟩ := header_line h p hw
  rw [hs, hl]

/-- **data lines, layer theorem**: `split()` of a printed data line returns the tokens written whatever blanks and
TABs surround and separate them. -/
theorem data_line_split (toks : List Str) (r : RowLay) (ht : ∀ t ∈ toks, t ≠ [] ∧ ∀ c ∈ t, isSpace c = false) :
    splitWs (printDataLine toks r) = toks :=
  data_line_tokens toks r ht

/-- **comments and blank lines** are not delivered by the line generator -/
theorem junk_ignored (j : List JunkLine) (rest : Str) : genLines (printJunk j ++ rest) = genLines rest := by
  induction j with
  | nil => rfl
  | cons a j ih =>
    simp only [printJunk, List.map_cons, List.flatten_cons, List.append_assoc] at ih ⊢
    rw [← ih]
    cases a with
    | blank =>
      have := genLines_line [] ((j.map printJunkLine).flatten ++ rest) (by simp)
      simpa [printJunkLine, keepLine] using this
    | comment lead text =>
      have hf := feed_junkLine St.init (.comment lead text) []
      have hn : ∀ c ∈ spaces lead ++ '#' :: oneLine text, c ≠ '\n' :=
        noLF_append (spaces_noLF _) (noLF_cons (by decide) (oneLine_noLF _))
      have := genLines_line (spaces lead ++ '#' :: oneLine text) ((j.map printJunkLine).flatten ++ rest) hn
      have hk : keepLine ((spaces lead ++ '#' :: oneLine text) ++ ['\n']) = false := by
        have hd : ((spaces lead ++ '#' :: oneLine text) ++ ['\n']).dropWhile isSpace = '#' :: (oneLine text ++ ['\n']) := by
          have := stripLP_ws_append isSpace (spaces lead) ('#' :: (oneLine text ++ ['\n'])) (spaces_isSpace lead)
          rw [stripLP_cons_nonspace isSpace '#' _ (by decide)] at this
          simpa [stripLP, List.append_assoc] using this
        unfold keepLine isComment
        rw [hd]; simp
      rw [hk] at this
      simpa [printJunkLine, List.append_assoc] using this

/-! ### non-vacuity: a concrete content meeting the hypotheses, wrapped and unwrapped -/

def exLine (m u : String) (v : Value) (d : String) : HLine := ⟨m.toList, u.toList, v, d.toList⟩

def exContent (wrap : Bool) : LasContent :=
  { v := [exLine "VERS" "" (.float 20 (-1)) "CWLS log ASCII Standard", exLine "WRAP" "" (.bool wrap) "One line per frame"],
    sects := [.hdr 'W' [exLine "STRT" "M" (.float 16350 (-1)) "START DEPTH",
                        exLine "NULL" "" (.float (-99925) (-2)) "",
                        exLine "TIME" "" (.text "13:45:00".toList) "Log start",
                        exLine "COMP" "" (.text "ANY OIL COMPANY INC.".toList) "COMPANY"],
              .hdr 'C' [exLine "DEPT" "M" (.text []) "1  DEPTH", exLine "DT" "US/M" (.text []) "2  SONIC",
                        exLine "RHOB" "K/M3" (.int 7) "3  BULK DENSITY"],
              .txt 'O' ["Note - the logs were run : twice.".toList]],
    frames := [[.num 16350 (-1), .num 123450 (-3), .bad "N/A".toList],
               [.num 16345 (-1), .bad "-".toList, .num 2550 0]] }

/-- a single-curve log with its own NULL, wrapped or not (two frames: the index value alone completes a frame) -/
def exContent1 (wrap : Bool) : LasContent :=
  { v := [exLine "VERS" "" (.float 20 (-1)) "", exLine "WRAP" "" (.bool wrap) ""],
    sects := [.hdr 'W' [exLine "NULL" "" (.int (-9999)) "declared null"], .hdr 'C' [exLine "DEPT" "M" (.text []) ""]],
    frames := [[.num 10 0], [.bad "N/A".toList]] }

example : wfContent (exContent1 true) = true ∧ wfContent (exContent1 false) = true ∧
    declaredNull (exContent1 true) = (-9999, 0) ∧ wrapOf (exContent1 true) = true := by decide +kernel
/-- -999.2575 and -999.245 are data next to NULL = -999.25: only the cell equal to NULL and the bad token are masked -/
example : maskOf ⟨[], (-99925, -2), [[.num 1 0, .num (-9992575) (-4), .num (-99925) (-2), .num (-999250) (-3)],
                                      [.num 2 0, .num (-999245) (-3), .null, .num (-99925) (-2)]]⟩ =
    [[false, false, true, true], [false, false, true, true]] := by decide +kernel
/-- a declared NULL of 0 is a NULL like any other: zeros (in any spelling) and bad tokens are masked, -999.25 is data -/
example : maskOf ⟨[], (0, 0), [[.num 5 0, .num 0 0, .num 0 (-2), .num (-99925) (-2), .null]]⟩ =
    [[false, true, true, false, true]] := by decide +kernel
/-- mnemonics and units are names: a curve called `1` with units `10`, or `NO`, is an ordinary header line -/
example : wfHLine (exLine "1" "10" (.text []) "curve named 1") = true ∧ wfHLine (exLine "NO" "1E3" (.int 5) "") = true ∧
    (match lineToSectLine "007.10 12 : d".toList with
      | .ok l => l == ⟨.text "007".toList, .text "10".toList, .int 12, .text "d".toList⟩
      | .error _ => false) = true := by
  decide +kernel
example : wfContent (exContent false) = true := by decide +kernel
example : wfContent (exContent true) = true := by decide +kernel
example : wrapOf (exContent true) = true ∧ wrapOf (exContent false) = false := by decide +kernel
example : wfHLine (exLine "TIME" "" (.text "13:45:00".toList) "Log start") = true := by decide +kernel
example : (exContent true).sects = (exContent false).sects ∧ (exContent true).frames = (exContent false).frames :=
  ⟨rfl, rfl⟩

end TD.C09
