import TD.C09.LemmasRun

/-! Helper lemmas for C09, part 5: whole sections. -/
namespace TD.C09
set_option linter.unusedSimpArgs false

def secMembers : CSect → List Member
  | .hdr _ lines => lines.map (fun h => .line (expectLine h))
  | .txt _ lines => lines.map .raw

def secHdr : CSect → Bool
  | .hdr _ _ => true
  | .txt _ _ => false

theorem expectSect_eq (s : CSect) : expectSect s = ⟨s.typ, secMembers s⟩ := by
  cases s <;> rfl

theorem printValue_noLF (v : Value) (k : Nat) (hv : wfValue v = true) : ∀ c ∈ printValue v k, c ≠ '\n' := by
  cases v with
  | int i => exact noLF_of_nospace (fun c hc => (printInt_nospace i c hc).1)
  | float m e => exact noLF_of_nospace (fun c hc => (printNum_nospace m e k c hc).1)
  | bool b => cases b <;> (simp only [printValue]; decide)
  | text s =>
    simp only [wfValue, Bool.and_eq_true, List.all_eq_true, bne_iff_ne, ne_eq] at hv
    exact hv.1

theorem noLF_append {a b : Str} (ha : ∀ c ∈ a, c ≠ '\n') (hb : ∀ c ∈ b, c ≠ '\n') : ∀ c ∈ a ++ b, c ≠ '\n' := by
  intro c hc; rcases List.mem_append.1 hc with h | h
  · exact ha c h
  · exact hb c h

theorem noLF_cons {x : Char} {b : Str} (hx : x ≠ '\n') (hb : ∀ c ∈ b, c ≠ '\n') : ∀ c ∈ x :: b, c ≠ '\n' := by
  intro c hc; rcases List.mem_cons.1 hc with h | h
  · subst h; exact hx
  · exact hb c h

theorem printHBody_noLF (h : HLine) (p : HPad) (hw : wfHLine h = true) : ∀ c ∈ printHBody h p, c ≠ '\n' := by
  obtain ⟨hm, hu, hut, hv, hd, hdt⟩ := wfHLine_facts hw
  obtain ⟨c0, m', hmn, hc0s, hc0t, hc0h, hmall, hmt⟩ := wfMnem_facts hm
  have hmn' := noLF_of_nospace (fun c hc => (hmall c hc).1)
  have hun := noLF_of_nospace (fun c hc => (hu c hc).1)
  have hvn := printValue_noLF h.value p.k hv
  have hdn : ∀ c ∈ h.desc, c ≠ '\n' := fun c hc => (hd c hc).2
  unfold printHBody
  simp only []
  refine noLF_append (noLF_append (noLF_append (noLF_append (noLF_append (noLF_append (noLF_append hmn' (spaces_noLF _))
    (noLF_cons (by decide) hun)) ?_) (spaces_noLF _)) (noLF_cons (by decide) (spaces_noLF _))) hdn) (spaces_noLF _)
  split
  · exact spaces_noLF _
  · exact noLF_append (spaces_noLF _) hvn

/-- one header line fed to an open header section -/
theorem feed_hline (st : St) (t : Char) (ms : List Member) (h : HLine) (p : HPad) (rest : Str)
    (hw : wfHLine h = true) (hcur : st.cur = .sect t true ms) :
    feed st (printHLine h p ++ rest) = feed { st with cur := .sect t true (.line (expectLine h) :: ms) } rest := by
  obtain ⟨c, r, hstrip, hct, hcs, hline⟩ := header_line h p hw
  obtain ⟨hm, _⟩ := wfHLine_facts hw
  obtain ⟨c0, m', hmn, hc0s, hc0t, hc0h, hmall, hmt⟩ := wfMnem_facts hm
  have hnl : ∀ x ∈ spaces p.lead ++ printHBody h p, x ≠ '\n' := by
    intro x hx
    rcases List.mem_append.1 hx with hx | hx
    · exact spaces_noLF _ x hx
    · exact printHBody_noLF h p hw x hx
  have hbody : ∃ r', printHBody h p = c0 :: r' := by
    refine ⟨m' ++ spaces p.a ++ '.' :: h.unit ++
      (if (printValue h.value p.k).isEmpty then spaces p.b else spaces (p.b + 1) ++ printValue h.value p.k) ++
      spaces p.c ++ ':' :: spaces p.d ++ h.desc ++ spaces p.e, ?_⟩
    simp only [printHBody, hmn, List.cons_append, List.append_assoc]
  obtain ⟨r', hr'⟩ := hbody
  have hk : keepLine ((spaces p.lead ++ printHBody h p) ++ ['\n']) = true := by
    rw [hr']
    have := keepLine_of (spaces p.lead) c0 (r' ++ ['\n']) (spaces_isSpace _) hc0s hc0h
    simpa [List.append_assoc] using this
  have hfeed := feed_line st (spaces p.lead ++ printHBody h p) rest hnl hk
  have hstep : step st ((spaces p.lead ++ printHBody h p) ++ ['\n']) =
      .ok { st with cur := .sect t true (.line (expectLine h) :: ms) } := by
    unfold step
    rw [hcur]
    simp only []
    rw [hstrip]
    have h1 : (c :: r).head? = some '~' ↔ False := by simp [hct]
    simp only [h1, if_false, List.isEmpty_cons, Bool.false_eq_true, if_true, hline]
  rw [hstep] at hfeed
  unfold printHLine
  simp only [List.append_assoc]
  rw [feed_junk]
  have : spaces p.lead ++ (printHBody h p ++ (['\n'] ++ rest)) = (spaces p.lead ++ printHBody h p) ++ '\n' :: rest := by simp
  rw [this, hfeed]

theorem feed_hlines (hs : List HLine) (ps : List HPad) (st : St) (t : Char) (ms : List Member) (rest : Str)
    (hw : ∀ h ∈ hs, wfHLine h = true) (hcur : st.cur = .sect t true ms) :
    feed st (printHLines hs ps ++ rest) =
      feed { st with cur := .sect t true ((hs.map (fun h => Member.line (expectLine h))).reverse ++ ms) } rest := by
  induction hs generalizing ps st ms with
  | nil => cases st; simp only [printHLines, List.nil_append, List.map_nil, List.reverse_nil] at hcur ⊢; rw [hcur]
  | cons h hs ih =>
    simp only [printHLines, List.append_assoc]
    rw [feed_hline st t ms h _ _ (hw h List.mem_cons_self) hcur]
    rw [ih ps.tail _ (.line (expectLine h) :: ms) (fun x hx => hw x (List.mem_cons_of_mem _ hx)) rfl]
    simp

theorem head_nonspace_of_strip_eq {s : Str} (h : strip s = s) (hne : s ≠ []) :
    ∃ c r, s = c :: r ∧ isSpace c = false := by
  cases s with
  | nil => exact absurd rfl hne
  | cons c r =>
    refine ⟨c, r, rfl, ?_⟩
    have hr := stripRP_of_stripP_eq isSpace _ h
    unfold strip stripP at h
    rw [hr] at h
    cases hc : isSpace c with
    | false => rfl
    | true =>
      simp only [stripLP, List.dropWhile_cons, hc, if_true] at h
      have := (List.dropWhile_sublist isSpace (l := r)).length_le
      rw [h] at this
      simp at this
      omega

theorem wfTxtLine_facts {s : Str} (h : wfTxtLine s = true) :
    strip s = s ∧ (∀ c ∈ s, c ≠ '\n') ∧ ∃ c r, s = c :: r ∧ isSpace c = false ∧ c ≠ '#' ∧ c ≠ '~' := by
  simp only [wfTxtLine, Bool.and_eq_true, List.all_eq_true, Bool.not_eq_true', bne_iff_ne, ne_eq, beq_iff_eq] at h
  obtain ⟨⟨⟨⟨hne, hs⟩, hl⟩, hh⟩, ht⟩ := h
  have hne' : s ≠ [] := by intro h; subst h; simp at hne
  obtain ⟨c, r, hcr, hc⟩ := head_nonspace_of_strip_eq hs hne'
  refine ⟨hs, hl, c, r, hcr, hc, ?_, ?_⟩
  · intro h; subst h; subst hcr; simp at hh
  · intro h; subst h; subst hcr; simp at ht

theorem feed_txtlines (ts : List Str) (ps : List HPad) (st : St) (t : Char) (ms : List Member) (rest : Str)
    (hw : ∀ x ∈ ts, wfTxtLine x = true) (hcur : st.cur = .sect t false ms) :
    feed st (printTxtLines ts ps ++ rest) =
      feed { st with cur := .sect t false ((ts.map Member.raw).reverse ++ ms) } rest := by
  induction ts generalizing ps st ms with
  | nil => cases st; simp only [printTxtLines, List.nil_append, List.map_nil, List.reverse_nil] at hcur ⊢; rw [hcur]
  | cons x ts ih =>
    obtain ⟨hs, hl, c, r, hcr, hc, hch, hct⟩ := wfTxtLine_facts (hw x List.mem_cons_self)
    let p := ps.headD {}
    have hnl : ∀ y ∈ spaces p.lead ++ x ++ spaces p.e, y ≠ '\n' := by
      intro y hy
      rcases List.mem_append.1 hy with hy | hy
      · rcases List.mem_append.1 hy with hy | hy
        · exact spaces_noLF _ y hy
        · exact hl y hy
      · exact spaces_noLF _ y hy
    have hk : keepLine ((spaces p.lead ++ x ++ spaces p.e) ++ ['\n']) = true := by
      rw [hcr]
      have := keepLine_of (spaces p.lead) c (r ++ spaces p.e ++ ['\n']) (spaces_isSpace _) hc hch
      simpa [List.append_assoc] using this
    have hstrip : strip ((spaces p.lead ++ x ++ spaces p.e) ++ ['\n']) = x := by
      have := stripP_pad isSpace (spaces p.lead) x (spaces p.e ++ ['\n']) (spaces_isSpace _)
        (by intro y hy; rcases List.mem_append.1 hy with hy | hy
            · exact spaces_isSpace _ y hy
            · simp at hy; subst hy; decide)
      unfold strip
      simp only [List.append_assoc] at this ⊢
      rw [this]; exact hs
    have hstep : step st ((spaces p.lead ++ x ++ spaces p.e) ++ ['\n']) =
        .ok { st with cur := .sect t false (.raw x :: ms) } := by
      unfold step
      rw [hcur]
      simp only []
      rw [hstrip, hcr]
      have h1 : (c :: r).head? = some '~' ↔ False := by simp [hct]
      simp only [h1, if_false, List.isEmpty_cons, Bool.false_eq_true]
    have hfeed := feed_line st (spaces p.lead ++ x ++ spaces p.e) (printTxtLines ts ps.tail ++ rest) hnl hk
    rw [hstep] at hfeed
    simp only [printTxtLines, List.append_assoc]
    rw [feed_junk]
    have : spaces p.lead ++ (x ++ (spaces p.e ++ (['\n'] ++ (printTxtLines ts ps.tail ++ rest)))) =
        (spaces p.lead ++ x ++ spaces p.e) ++ '\n' :: (printTxtLines ts ps.tail ++ rest) := by simp
    simp only [p] at this hfeed
    rw [this, hfeed]
    rw [ih ps.tail _ (.raw x :: ms) (fun y hy => hw y (List.mem_cons_of_mem _ hy)) rfl]
    simp

/-- a section head line met while a section is open: the open section is closed, the new one opened -/
theorem feed_head (done : List Section) (w w' : Option Value) (t0 : Char) (h0 : Bool) (ms0 : List Member)
    (t : Char) (lay : SectLay) (rest : Str) (ht : isSpace t = false)
    (hclose : finaliseSect ⟨done, w, none, .sect t0 h0 ms0⟩ t0 ms0 = .ok ⟨⟨t0, ms0.reverse⟩ :: done, w', none, .top⟩) :
    feed ⟨done, w, none, .sect t0 h0 ms0⟩ (printHead t lay ++ rest) =
      match topLevel ⟨⟨t0, ms0.reverse⟩ :: done, w', none, .top⟩ ('~' :: t :: stripRP isSpace (oneLine lay.title ++ ['\n'])) with
      | .ok st' => feed st' rest
      | .error e => .error e := by
  have hnl : ∀ y ∈ spaces lay.lead ++ '~' :: t :: oneLine lay.title, y ≠ '\n' := by
    intro y hy
    rcases List.mem_append.1 hy with hy | hy
    · exact spaces_noLF _ y hy
    · rcases List.mem_cons.1 hy with hy | hy
      · subst hy; decide
      · rcases List.mem_cons.1 hy with hy | hy
        · subst hy; intro h; subst h; simp [isSpace] at ht
        · exact oneLine_noLF _ y hy
  have hk : keepLine ((spaces lay.lead ++ '~' :: t :: oneLine lay.title) ++ ['\n']) = true := by
    have := keepLine_of (spaces lay.lead) '~' (t :: oneLine lay.title ++ ['\n']) (spaces_isSpace _) (by decide) (by decide)
    simpa [List.append_assoc] using this
  have hstrip : strip ((spaces lay.lead ++ '~' :: t :: oneLine lay.title) ++ ['\n']) =
      '~' :: t :: stripRP isSpace (oneLine lay.title ++ ['\n']) := by
    have := strip_head lay.lead t (oneLine lay.title ++ ['\n']) ht
    simpa [List.append_assoc] using this
  have hfeed := feed_line ⟨done, w, none, .sect t0 h0 ms0⟩ (spaces lay.lead ++ '~' :: t :: oneLine lay.title) rest hnl hk
  have hstep : step ⟨done, w, none, .sect t0 h0 ms0⟩ ((spaces lay.lead ++ '~' :: t :: oneLine lay.title) ++ ['\n']) =
      topLevel ⟨⟨t0, ms0.reverse⟩ :: done, w', none, .top⟩ ('~' :: t :: stripRP isSpace (oneLine lay.title ++ ['\n'])) := by
    unfold step
    simp only []
    rw [hstrip]
    simp only [List.head?_cons, if_true, hclose]
  rw [hstep] at hfeed
  unfold printHead
  simp only [List.append_assoc]
  rw [feed_junk]
  have : spaces lay.lead ++ ('~' :: t :: oneLine lay.title ++ (['\n'] ++ rest)) =
      (spaces lay.lead ++ '~' :: t :: oneLine lay.title) ++ '\n' :: rest := by simp
  rw [this, hfeed]
  generalize topLevel _ _ = x
  cases x <;> rfl

theorem wfSect_facts {s : CSect} (h : wfSect s = true) :
    isSpace s.typ = false ∧ s.typ ≠ 'V' ∧ s.typ ≠ 'A' := by
  cases s with
  | hdr t lines =>
    simp only [wfSect, Bool.and_eq_true, Bool.or_eq_true, beq_iff_eq] at h
    rcases h.1 with (h1 | h1) | h1 <;> (simp only [CSect.typ]; subst h1; decide)
  | txt t lines =>
    simp only [wfSect, Bool.and_eq_true, Bool.not_eq_true'] at h
    obtain ⟨h1, h2, h3, h4, h5⟩ := contains5 t h.1.1
    exact ⟨h.1.2, h1, h5⟩

/-- one whole section (head line and member lines) fed while the previous section is still open -/
theorem feed_sect (done : List Section) (w w' : Option Value) (t0 : Char) (h0 : Bool) (ms0 : List Member)
    (s : CSect) (lay : SectLay) (rest : Str) (hwf : wfSect s = true)
    (hclose : finaliseSect ⟨done, w, none, .sect t0 h0 ms0⟩ t0 ms0 = .ok ⟨⟨t0, ms0.reverse⟩ :: done, w', none, .top⟩)
    (hV : (⟨t0, ms0.reverse⟩ :: done : List Section).any (fun x => x.typ == 'V') = true) :
    feed ⟨done, w, none, .sect t0 h0 ms0⟩ (printSect s lay ++ rest) =
      feed ⟨⟨t0, ms0.reverse⟩ :: done, w', none, .sect s.typ (secHdr s) (secMembers s).reverse⟩ rest := by
  have hf := wfSect_facts hwf
  cases s with
  | hdr t lines =>
    simp only [wfSect, Bool.and_eq_true, Bool.or_eq_true, beq_iff_eq, List.all_eq_true] at hwf
    simp only [printSect, List.append_assoc]
    rw [feed_head done w w' t0 h0 ms0 t lay _ hf.1 hclose]
    have ht : t = 'W' ∨ t = 'C' ∨ t = 'P' := by
      rcases hwf.1 with (h | h) | h
      · exact Or.inl h
      · exact Or.inr (Or.inl h)
      · exact Or.inr (Or.inr h)
    rw [topLevel_hdr _ _ t ht (by rfl)]
    simp only []
    rw [feed_hlines lines lay.lines _ t [] rest hwf.2 rfl]
    simp [secMembers, secHdr, CSect.typ]
  | txt t lines =>
    simp only [wfSect, Bool.and_eq_true, Bool.not_eq_true', List.all_eq_true] at hwf
    simp only [printSect, List.append_assoc]
    rw [feed_head done w w' t0 h0 ms0 t lay _ hf.1 hclose]
    rw [topLevel_txt _ _ t hwf.1.1 (by simpa [St.hasType] using hV) rfl (by rfl)]
    simp only []
    rw [feed_txtlines lines lay.lines _ t [] rest hwf.2 rfl]
    simp [secMembers, secHdr, CSect.typ]

end TD.C09
