import TD.C09.Model
/-
C09 — independent specification: the abstract content of a LAS file (`LasContent`), the layout-parametric printer
`print : LasContent → LasLayout → Str`, what the reader is expected to return (`toFile`) and the decidable
well-formedness predicate `wfContent`.

Every layout value is legal: free text inside a layout (section titles, comment text) is sanitised by the printer
(line feeds removed), separators always contain at least one blank, so the theorems quantify over ALL layouts.
-/
namespace TD.C09

/-- one line of a V/W/C/P section, as written -/
structure HLine where
  mnem : Str
  unit : Str
  value : Value
  desc : Str
  deriving DecidableEq, Repr, Inhabited

/-- a data value as written: a decimal number m·10^e or a token that is not a number -/
inductive DCell where
  | num (m : Int) (e : Int)
  | bad (s : Str)
  /-- a number written as the literal token `s` of the numeric grammar (any spelling: `123`, `-0.00`, `+1.5E3`),
  whose exact value is m·10^e -/
  | lit (s : Str) (m : Int) (e : Int)
  deriving DecidableEq, Repr, Inhabited

inductive CSect where
  | hdr (typ : Char) (lines : List HLine)       -- W, C, P
  | txt (typ : Char) (lines : List Str)         -- O and user defined sections: free text lines
  deriving DecidableEq, Repr, Inhabited

def CSect.typ : CSect → Char
  | .hdr t _ => t
  | .txt t _ => t

structure LasContent where
  v : List HLine              -- version section: VERS, WRAP, ...
  sects : List CSect          -- the other sections, in file order (one of them is 'C')
  frames : List (List DCell)  -- the data section, one row per frame
  deriving DecidableEq, Repr, Inhabited

/-! ### layout -/

inductive JunkLine where
  | blank                                  -- "\n"
  | comment (lead : Nat) (text : Str)      -- spaces, '#', text
  deriving DecidableEq, Repr, Inhabited

/-- layout of one header line: junk lines before it, then
`<lead>MNEM<a>.UNIT<b>VALUE<c>:<d>DESC<e>` with the given numbers of spaces; `k` = number style of a float value -/
structure HPad where
  junk : List JunkLine := []
  lead : Nat := 0
  a : Nat := 0
  b : Nat := 0
  c : Nat := 0
  d : Nat := 0
  e : Nat := 0
  k : Nat := 0
  deriving DecidableEq, Repr, Inhabited

/-- layout of one section head and its lines -/
structure SectLay where
  junk : List JunkLine := []
  lead : Nat := 0
  title : Str := []
  lines : List HPad := []
  deriving DecidableEq, Repr, Inhabited

/-- layout of one data row: junk before, leading blanks, separators (false = ' ', true = TAB; one ' ' is always
added), trailing blanks, number style; `perLine+1` values per continuation line in wrapped mode -/
structure RowLay where
  junk : List JunkLine := []
  lead : List Bool := []
  seps : List (List Bool) := []
  trail : List Bool := []
  k : Nat := 0
  perLine : Nat := 0
  deriving DecidableEq, Repr, Inhabited

structure LasLayout where
  v : SectLay := {}
  sects : List SectLay := []
  a : SectLay := {}
  rows : List RowLay := []
  tail : List JunkLine := []
  deriving DecidableEq, Repr, Inhabited

/-! ### printing -/

def spaces (n : Nat) : Str := List.replicate n ' '

def blankChar (b : Bool) : Char := if b then '\t' else ' '
def blanks (l : List Bool) : Str := l.map blankChar
/-- a separator: at least one blank -/
def sep (l : List Bool) : Str := ' ' :: blanks l

def oneLine (s : Str) : Str := s.filter (fun c => c != '\n')

def printJunkLine : JunkLine → Str
  | .blank => ['\n']
  | .comment lead text => spaces lead ++ '#' :: oneLine text ++ ['\n']

def printJunk (j : List JunkLine) : Str := (j.map printJunkLine).flatten

def digitChar (n : Nat) : Char := Char.ofNat (48 + n)

/-- decimal digits of a natural number, most significant first -/
def natDigits (n : Nat) : Str :=
  if _h : n < 10 then [digitChar n] else natDigits (n / 10) ++ [digitChar (n % 10)]
termination_by n
decreasing_by omega

def printInt (i : Int) : Str := if i < 0 then '-' :: natDigits i.natAbs else natDigits i.natAbs

/-- digits of `n`, left-padded with zeros to at least `w` digits -/
def padDigits (n w : Nat) : Str :=
  let ds := natDigits n
  List.replicate (w - ds.length) '0' ++ ds

/-- m·10^e written with `k` digits after the point: `[-]III.FFF[e(e+k)]` — always contains a '.' -/
def printNum (m e : Int) (k : Nat) : Str :=
  let ds := padDigits m.natAbs (k + 1)
  let ip := ds.take (ds.length - k)
  let fp := ds.drop (ds.length - k)
  let x := e + k
  (if m < 0 then ['-'] else []) ++ ip ++ '.' :: fp ++ (if x = 0 then [] else 'e' :: printInt x)

def printValue (v : Value) (k : Nat) : Str :=
  match v with
  | .int i => printInt i
  | .float m e => printNum m e k
  | .bool b => if b then "YES".toList else "NO".toList
  | .text s => s

/-- the line without junk, lead and line feed -/
def printHBody (h : HLine) (p : HPad) : Str :=
  let vt := printValue h.value p.k
  h.mnem ++ spaces p.a ++ '.' :: h.unit ++ (if vt.isEmpty then spaces p.b else spaces (p.b + 1) ++ vt) ++ spaces p.c
    ++ ':' :: spaces p.d ++ h.desc ++ spaces p.e

def printHLine (h : HLine) (p : HPad) : Str :=
  printJunk p.junk ++ spaces p.lead ++ printHBody h p ++ ['\n']

def printHLines : List HLine → List HPad → Str
  | [], _ => []
  | h :: hs, ps => printHLine h (ps.headD {}) ++ printHLines hs ps.tail

def printTxtLines : List Str → List HPad → Str
  | [], _ => []
  | t :: ts, ps =>
    let p := ps.headD {}
    printJunk p.junk ++ spaces p.lead ++ t ++ spaces p.e ++ ['\n'] ++ printTxtLines ts ps.tail

def printHead (typ : Char) (l : SectLay) : Str :=
  printJunk l.junk ++ spaces l.lead ++ '~' :: typ :: oneLine l.title ++ ['\n']

def printSect (s : CSect) (l : SectLay) : Str :=
  match s with
  | .hdr t lines => printHead t l ++ printHLines lines l.lines
  | .txt t lines => printHead t l ++ printTxtLines lines l.lines

def printSects : List CSect → List SectLay → Str
  | [], _ => []
  | s :: ss, ls => printSect s (ls.headD {}) ++ printSects ss ls.tail

def printCell (c : DCell) (k : Nat) : Str :=
  match c with
  | .num m e => printNum m e k
  | .bad s => s
  | .lit s _ _ => s

/-- tokens joined by the separators of the layout -/
def joinToks : List Str → List (List Bool) → Str
  | [], _ => []
  | [t], _ => t
  | t :: t2 :: ts, ss => t ++ sep (ss.headD []) ++ joinToks (t2 :: ts) ss.tail

/-- one physical data line (no junk) -/
def printDataLine (toks : List Str) (r : RowLay) : Str :=
  blanks r.lead ++ joinToks toks r.seps ++ blanks r.trail ++ ['\n']

/-- pieces of `n+1` elements -/
def chunks {α : Type} (n : Nat) : Nat → List α → List (List α)
  | 0, _ => []
  | fuel + 1, l => if l.isEmpty then [] else l.take (n + 1) :: chunks n fuel (l.drop (n + 1))

def printRowUnwrapped (row : List DCell) (r : RowLay) : Str :=
  printJunk r.junk ++ printDataLine (row.map (printCell · r.k)) r

/-- wrapped: the index value on a line of its own, the other values on continuation lines -/
def printRowWrapped (row : List DCell) (r : RowLay) : Str :=
  match row with
  | [] => []
  | x :: rest =>
    printJunk r.junk ++ printDataLine [printCell x r.k] r ++
      ((chunks r.perLine rest.length (rest.map (printCell · r.k))).map (printDataLine · r)).flatten

def printRows (wrap : Bool) : List (List DCell) → List RowLay → Str
  | [], _ => []
  | row :: rows, rs =>
    (if wrap then printRowWrapped row (rs.headD {}) else printRowUnwrapped row (rs.headD {}))
      ++ printRows wrap rows rs.tail

def expectLine (h : HLine) : SectLine := ⟨.text h.mnem, .text h.unit, h.value, .text h.desc⟩

def expectSect : CSect → Section
  | .hdr t lines => ⟨t, lines.map (fun h => .line (expectLine h))⟩
  | .txt t lines => ⟨t, lines.map .raw⟩

def vSection (c : LasContent) : Section := ⟨'V', c.v.map (fun h => .line (expectLine h))⟩

/-- the WRAP flag the content declares in its version section -/
def wrapOf (c : LasContent) : Bool :=
  match checkV (vSection c).members with
  | some w => truthy w
  | none => false

/-- the curves: lines of the first 'C' section -/
def curvesOf (c : LasContent) : List HLine :=
  match c.sects.find? (fun s => s.typ == 'C') with
  | some (.hdr _ lines) => lines
  | _ => []

/-- the NULL value the well section declares (first `NULL` line, when its value is an int or a float), else -999.25 -/
def declaredNull (c : LasContent) : Int × Int :=
  match c.sects.find? (fun s => s.typ == 'W') with
  | some (.hdr _ lines) =>
    match lines.find? (fun h => h.mnem == "NULL".toList) with
    | some h =>
      match h.value with
      | .int i => (i, 0)
      | .float m e => (m, e)
      | _ => defaultNull
    | none => defaultNull
  | _ => defaultNull

def expectCell : DCell → Cell
  | .num m e => .num m e
  | .bad _ => .null
  | .lit _ m e => .num m e

/-- what the reader must return for the content -/
def toFile (c : LasContent) : LasFile :=
  ⟨vSection c :: c.sects.map expectSect,
   some ⟨(curvesOf c).map (fun h => (.text h.mnem, .text h.unit)), declaredNull c, c.frames.map (·.map expectCell)⟩⟩

def print (c : LasContent) (l : LasLayout) : Str :=
  printSect (.hdr 'V' c.v) l.v ++ printSects c.sects l.sects ++ printHead 'A' l.a ++
    printRows (wrapOf c) c.frames l.rows ++ printJunk l.tail

/-! ### well-formedness (decidable: every clause is a `Bool`) -/

def noSpace (s : Str) : Bool := s.all (fun c => !isSpace c)

def wfMnem (s : Str) : Bool :=
  !s.isEmpty && s.all (fun c => !isSpace c && c != '.' && c != ':') &&
  s.head? != some '#' && s.head? != some '~'

def wfUnit (s : Str) : Bool := s.all (fun c => !isSpace c && c != ':')

def wfDesc (s : Str) : Bool := s.all (fun c => c != ':' && c != '\n') && stringToValue s == .text s

def wfValue : Value → Bool
  | .text s => s.all (fun c => c != '\n') && stringToValue s == .text s
  | _ => true

def wfHLine (h : HLine) : Bool := wfMnem h.mnem && wfUnit h.unit && wfValue h.value && wfDesc h.desc

def wfTxtLine (s : Str) : Bool :=
  !s.isEmpty && strip s == s && s.all (fun c => c != '\n') && s.head? != some '#' && s.head? != some '~'

def wfSect : CSect → Bool
  | .hdr t lines => (t == 'W' || t == 'C' || t == 'P') && lines.all wfHLine
  | .txt t lines => !"VWCPA".toList.contains t && !isSpace t && lines.all wfTxtLine

def wfCell : DCell → Bool
  | .num _ _ => true
  | .bad s => !s.isEmpty && noSpace s && (parseFloat? s).isNone && s.head? != some '#' && s.head? != some '~'
  | .lit s m e => !s.isEmpty && noSpace s && parseFloat? s == some (m, e) && s.head? != some '#' && s.head? != some '~'

def distinctChars : List Char → Bool
  | [] => true
  | c :: r => !r.contains c && distinctChars r

def distinctStrs : List Str → Bool
  | [] => true
  | c :: r => !r.contains c && distinctStrs r

def wfContent (c : LasContent) : Bool :=
  c.v.all wfHLine && (checkV (vSection c).members).isSome &&
  c.sects.all wfSect && distinctChars (c.sects.map CSect.typ) && (c.sects.map CSect.typ).contains 'C' &&
  distinctStrs ((curvesOf c).map (·.mnem)) &&
  !((curvesOf c).any (fun h => (h.mnem == "DATE".toList && h.unit == "D".toList) ||
                               (h.mnem == "TIME".toList && h.unit == "HHMMSS".toList))) &&
  c.frames.all (fun r => r.length == (curvesOf c).length && r.all wfCell) &&
  (c.frames.isEmpty || !(curvesOf c).isEmpty) &&
  !hasDupX (c.frames.map (fun r => cellKey (declaredNull c) (expectCell (r.headD (.bad [])))))

end TD.C09
