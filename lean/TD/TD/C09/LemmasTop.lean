import TD.C09.LemmasFile

/-! Helper lemmas for C09, part 7: assembling the whole file. -/
namespace TD.C09
set_option linter.unusedSimpArgs false

theorem feed_head_V (lay : SectLay) (rest : Str) :
    feed St.init (printHead 'V' lay ++ rest) = feed { St.init with cur := .sect 'V' true [] } rest := by
  have hnl : ∀ y ∈ spaces lay.lead ++ '~' :: 'V' :: oneLine lay.title, y ≠ '\n' :=
    noLF_append (spaces_noLF _) (noLF_cons (by decide) (noLF_cons (by decide) (oneLine_noLF _)))
  have hk : keepLine ((spaces lay.lead ++ '~' :: 'V' :: oneLine lay.title) ++ ['\n']) = true := by
    have := keepLine_of (spaces lay.lead) '~' ('V' :: oneLine lay.title ++ ['\n']) (spaces_isSpace _) (by decide) (by decide)
    simpa [List.append_assoc] using this
  have hstrip : strip ((spaces lay.lead ++ '~' :: 'V' :: oneLine lay.title) ++ ['\n']) =
      '~' :: 'V' :: stripRP isSpace (oneLine lay.title ++ ['\n']) := by
    have := strip_head lay.lead 'V' (oneLine lay.title ++ ['\n']) (by decide)
    simpa [List.append_assoc] using this
  have hfeed := feed_line St.init (spaces lay.lead ++ '~' :: 'V' :: oneLine lay.title) rest hnl hk
  have hstep : step St.init ((spaces lay.lead ++ '~' :: 'V' :: oneLine lay.title) ++ ['\n']) =
      .ok { St.init with cur := .sect 'V' true [] } := by
    unfold step
    simp only [St.init]
    rw [hstrip]
    exact topLevel_V _
  rw [hstep] at hfeed
  unfold printHead
  simp only [List.append_assoc]
  rw [feed_junk]
  have : spaces lay.lead ++ ('~' :: 'V' :: oneLine lay.title ++ (['\n'] ++ rest)) =
      (spaces lay.lead ++ '~' :: 'V' :: oneLine lay.title) ++ '\n' :: rest := by simp
  rw [this, hfeed]

theorem distinctChars_nodup (l : List Char) (h : distinctChars l = true) : l.Nodup := by
  induction l with
  | nil => exact List.nodup_nil
  | cons a l ih =>
    simp only [distinctChars, Bool.and_eq_true, Bool.not_eq_true', List.contains_eq_mem, decide_eq_false_iff_not] at h
    exact List.nodup_cons.2 ⟨h.1, ih h.2⟩

theorem hasDupKey_text (l : List Str) (h : distinctStrs l = true) : hasDupKey (l.map Value.text) = false := by
  induction l with
  | nil => rfl
  | cons a l ih =>
    simp only [distinctStrs, Bool.and_eq_true, Bool.not_eq_true', List.contains_eq_mem, decide_eq_false_iff_not] at h
    simp only [List.map_cons, hasDupKey, ih h.2, Bool.or_false]
    rw [List.any_eq_false]
    intro v hv
    obtain ⟨b, hb, rfl⟩ := List.mem_map.1 hv
    simp only [pyEq, asNum, beq_iff_eq, Value.text.injEq, Bool.not_eq_true]
    intro hab; subst hab; exact h.1 hb

/-- the curve section is found and it is a header section -/
theorem find_curve (c : LasContent) (hs : ∀ s ∈ c.sects, wfSect s = true)
    (hC : (c.sects.map CSect.typ).contains 'C' = true) :
    c.sects.find? (fun s => s.typ == 'C') = some (.hdr 'C' (curvesOf c)) := by
  have hex : ∃ s ∈ c.sects, (s.typ == 'C') = true := by
    simp only [List.contains_eq_mem, List.mem_map, decide_eq_true_eq] at hC
    obtain ⟨s, hs1, hs2⟩ := hC
    exact ⟨s, hs1, by simp [hs2]⟩
  cases hf : c.sects.find? (fun s => s.typ == 'C') with
  | none =>
    rw [List.find?_eq_none] at hf
    obtain ⟨s, h1, h2⟩ := hex
    exact absurd h2 (hf s h1)
  | some s =>
    have hmem := List.mem_of_find?_eq_some hf
    have htyp := List.find?_some hf
    have hw := hs s hmem
    cases s with
    | hdr t lines =>
      simp only [CSect.typ, beq_iff_eq] at htyp
      subst htyp
      simp [curvesOf, hf]
    | txt t lines =>
      simp only [CSect.typ, beq_iff_eq] at htyp
      subst htyp
      simp [wfSect] at hw

theorem curveNames_hdr (t : Char) (lines : List HLine) :
    curveNames (expectSect (.hdr t lines)) = lines.map (fun h => ((.text h.mnem : Value), (.text h.unit : Value))) := by
  simp only [curveNames, expectSect]
  induction lines with
  | nil => rfl
  | cons h hs ih =>
    simp only [List.map_cons, List.filterMap_cons]
    rw [ih]; rfl

theorem firstCurve_eq (c : LasContent) (w : Option Value)
    (hcur : c.sects.find? (fun s => s.typ == 'C') = some (.hdr 'C' (curvesOf c))) :
    firstCurve ⟨(c.sects.map expectSect).reverse ++ [vSection c], w, none, .top⟩ =
      some (expectSect (.hdr 'C' (curvesOf c))) := by
  have h1 : (fun s => s.typ == 'C') ∘ expectSect = fun (s : CSect) => s.typ == 'C' := by
    funext s; simp [expectSect_eq]
  simp only [firstCurve, List.reverse_append, List.reverse_reverse, List.reverse_cons, List.reverse_nil,
    List.nil_append, List.cons_append, List.find?_cons, vSection]
  have : (('V' : Char) == 'C') = false := by decide
  simp only [this, List.find?_map, h1, hcur, Option.map_some]

theorem isDateTime_names (lines : List HLine)
    (h : (lines.any (fun h => (h.mnem == "DATE".toList && h.unit == "D".toList) ||
                              (h.mnem == "TIME".toList && h.unit == "HHMMSS".toList))) = false) :
    (lines.map (fun h => ((.text h.mnem : Value), (.text h.unit : Value)))).any isDateTime = false := by
  rw [List.any_eq_false] at h ⊢
  intro n hn
  obtain ⟨x, hx, rfl⟩ := List.mem_map.1 hn
  have := h x hx
  simp only [isDateTime, beq_iff_eq, Value.text.injEq, Bool.or_eq_true, Bool.and_eq_true, decide_eq_true_eq] at this ⊢
  exact this

theorem text_beq (a b : Str) : ((Value.text a) == (Value.text b)) = (a == b) := by
  by_cases h : a = b
  · subst h; simp
  · have h1 : (a == b) = false := by rw [beq_eq_false_iff_ne]; exact h
    have h2 : (Value.text a == Value.text b) = false := by
      rw [beq_eq_false_iff_ne]; intro hh; injection hh with hh; exact h hh
    rw [h1, h2]

/-- the null value handed to the array section is the one the content declares -/
theorem nullOf_eq (c : LasContent) (w : Option Value) (hs : ∀ s ∈ c.sects, wfSect s = true) :
    nullOf ⟨(c.sects.map expectSect).reverse ++ [vSection c], w, none, .top⟩ = declaredNull c := by
  have h1 : (fun s => s.typ == 'W') ∘ expectSect = fun (s : CSect) => s.typ == 'W' := by
    funext s; simp [expectSect_eq]
  have hvw : (('V' : Char) == 'W') = false := by decide
  simp only [nullOf, declaredNull, List.reverse_append, List.reverse_reverse, List.reverse_cons, List.reverse_nil,
    List.nil_append, List.cons_append, List.find?_cons, vSection, hvw, List.find?_map, h1]
  cases hf : c.sects.find? (fun s => s.typ == 'W') with
  | none => rfl
  | some s =>
    have hmem := List.mem_of_find?_eq_some hf
    have htyp := List.find?_some hf
    have hw := hs s hmem
    cases s with
    | txt t lines =>
      simp only [CSect.typ, beq_iff_eq] at htyp
      subst htyp
      simp [wfSect] at hw
    | hdr t lines =>
      have h2 : (fun m => memberMnem m == some (.text "NULL".toList)) ∘ (fun h => Member.line (expectLine h)) =
          fun (h : HLine) => h.mnem == "NULL".toList := by
        funext h; simp only [Function.comp, memberMnem, expectLine]
        simp [text_beq]
      simp only [Option.map_some, expectSect, List.find?_map, h2]
      cases hl : lines.find? (fun h => h.mnem == "NULL".toList) with
      | none => rfl
      | some h =>
        simp only [Option.map_some, expectLine]
        cases h.value <;> rfl

end TD.C09
