import TD.C09.LemmasTop

/-! Helper lemmas for C09, part 8: the end of the file (a last line without line feed). -/
namespace TD.C09
set_option linter.unusedSimpArgs false

theorem splitLinesAux_split (a b cur : Str) :
    splitLinesAux (a ++ '\n' :: b) cur = splitLinesAux (a ++ ['\n']) cur ++ splitLinesAux b [] := by
  induction a generalizing cur with
  | nil => simp [splitLinesAux]
  | cons c a ih =>
    by_cases hc : c = '\n'
    · subst hc; simp only [List.cons_append, splitLinesAux, if_true, ih, List.cons_append]
    · simp only [List.cons_append, splitLinesAux, hc, if_false, ih]

theorem splitLinesAux_last (l cur : Str) (h : ∀ c ∈ l, c ≠ '\n') (hne : l ≠ [] ∨ cur ≠ []) :
    splitLinesAux l cur = [cur.reverse ++ l] := by
  induction l generalizing cur with
  | nil =>
    have : cur ≠ [] := by
      rcases hne with h | h
      · exact absurd rfl h
      · exact h
    have h2 : cur.isEmpty = false := by cases cur <;> simp_all
    simp [splitLinesAux, h2]
  | cons a l ih =>
    have ha : a ≠ '\n' := h a List.mem_cons_self
    simp only [splitLinesAux, ha, if_false]
    rw [ih (a :: cur) (fun x hx => h x (List.mem_cons_of_mem _ hx)) (Or.inr (by simp))]
    simp

theorem run_append (st : St) (xs ys : List Str) :
    run st (xs ++ ys) = match run st xs with
      | .ok st' => run st' ys
      | .error e => .error e := by
  induction xs generalizing st with
  | nil => rfl
  | cons x xs ih =>
    simp only [List.cons_append, run]
    cases step st x with
    | error e => rfl
    | ok st' => exact ih st'

theorem splitWsAux_final_lf (l cur : Str) : splitWsAux (l ++ ['\n']) cur = splitWsAux l cur := by
  induction l generalizing cur with
  | nil =>
    simp only [List.nil_append, splitWsAux, show isSpace '\n' = true from by decide, if_true]
    cases cur <;> simp
  | cons a l ih =>
    simp only [List.cons_append, splitWsAux, ih]

theorem isComment_final_lf (l : Str) : isComment (l ++ ['\n']) = isComment l := by
  unfold isComment
  induction l with
  | nil => simp [show isSpace '\n' = true from by decide]
  | cons a l ih =>
    by_cases ha : isSpace a = true
    · simp only [List.cons_append, List.dropWhile_cons, ha, if_true]; exact ih
    · simp only [List.cons_append, List.dropWhile_cons, ha]
      by_cases hh : a = '#'
      · subst hh; rfl
      · split
        · rename_i heq; injection heq with h1 _; exact absurd h1.symm (fun h => hh h.symm)
        · split
          · rename_i heq; injection heq with h1 _; exact absurd h1.symm (fun h => hh h.symm)
          · rfl

theorem keepLine_final_lf (l : Str) (hl : l ≠ []) (hn : ∀ c ∈ l, c ≠ '\n') :
    keepLine (l ++ ['\n']) = keepLine l := by
  have h1 : (l ++ ['\n'] != ['\n']) = true := by
    rw [bne_iff_ne]; intro h
    cases l with
    | nil => exact hl rfl
    | cons a r => simp at h
  have h2 : (l != ['\n']) = true := by
    rw [bne_iff_ne]; intro h; subst h; exact hn '\n' (by simp) rfl
  simp only [keepLine, h1, h2, isComment_final_lf]

theorem sectHead_final_lf (l : Str) (hl : l ≠ []) : sectHead (l ++ ['\n']) = sectHead l := by
  cases l with
  | nil => exact absurd rfl hl
  | cons a r =>
    cases r with
    | nil =>
      simp only [List.cons_append, List.nil_append, sectHead]
      split
      · rename_i c _ heq
        injection heq with h1 h2; injection h2 with h2 _; subst h1; subst h2
        simp [sectHead, isSectLetter]
      · simp [sectHead]
    | cons b r =>
      simp only [List.cons_append, sectHead]
      by_cases ha : a = '~'
      · subst ha; rfl
      · split
        · rename_i heq; injection heq with h1 _; exact absurd h1 ha
        · split
          · rename_i heq; injection heq with h1 _; exact absurd h1 ha
          · rfl

/-- a last line delivered without its line feed is processed like the same line with it -/
theorem step_final_lf (st : St) (l : Str) (hl : l ≠ []) :
    step st (l ++ ['\n']) = step st l := by
  have hstrip : strip (l ++ ['\n']) = strip l := by
    have := stripP_pad isSpace [] l ['\n'] (by simp) (by intro c hc; simp at hc; subst hc; decide)
    simpa [strip] using this
  have hhead : (l ++ ['\n']).head? = l.head? := by cases l <;> simp_all
  unfold step
  cases st.cur with
  | top => simp only [hstrip]
  | consume => simp only [hstrip, sectHead_final_lf l hl]
  | sect typ hdr members => simp only [hstrip]
  | arr a =>
    have hs : splitWs (l ++ ['\n']) = splitWs l := by simp only [splitWs, splitWsAux_final_lf]
    simp only [hhead, arrAddLine, hs]

end TD.C09
