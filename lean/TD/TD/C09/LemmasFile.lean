import TD.C09.LemmasSect

/-! Helper lemmas for C09, part 6: the sequence of sections, the data section, end of file. -/
namespace TD.C09
set_option linter.unusedSimpArgs false

/-- continue feeding after a step that may fail -/
def thenFeed (r : Except Err St) (rest : Str) : Except Err St :=
  match r with
  | .ok st' => feed st' rest
  | .error e => .error e

theorem closeNonV (done : List Section) (w : Option Value) (t : Char) (h : Bool) (ms : List Member)
    (hV : t ≠ 'V') (hno : done.any (fun x => x.typ == t) = false) :
    finaliseSect ⟨done, w, none, .sect t h ms⟩ t ms = .ok ⟨⟨t, ms.reverse⟩ :: done, w, none, .top⟩ := by
  simp [finaliseSect, hV, St.hasType, hno]

theorem feed_sections (ss : List CSect) : ∀ (ls : List SectLay) (done : List Section) (w w' : Option Value)
    (t0 : Char) (h0 : Bool) (ms0 : List Member) (la : SectLay) (rest : Str),
    finaliseSect ⟨done, w, none, .sect t0 h0 ms0⟩ t0 ms0 = .ok ⟨⟨t0, ms0.reverse⟩ :: done, w', none, .top⟩ →
    (⟨t0, ms0.reverse⟩ :: done : List Section).any (fun x => x.typ == 'V') = true →
    (∀ s ∈ ss, wfSect s = true) →
    (ss.map CSect.typ).Nodup →
    (∀ s ∈ ss, s.typ ≠ t0 ∧ done.any (fun x => x.typ == s.typ) = false) →
    feed ⟨done, w, none, .sect t0 h0 ms0⟩ (printSects ss ls ++ (printHead 'A' la ++ rest)) =
      thenFeed (openA ⟨(ss.map expectSect).reverse ++ ⟨t0, ms0.reverse⟩ :: done, w', none, .top⟩) rest := by
  induction ss with
  | nil =>
    intro ls done w w' t0 h0 ms0 la rest hclose hV _ _ _
    simp only [printSects, List.nil_append, List.map_nil, List.reverse_nil]
    rw [feed_head done w w' t0 h0 ms0 'A' la rest (by decide) hclose, topLevel_A]
    unfold thenFeed
    generalize openA _ = x
    cases x <;> rfl
  | cons s ss ih =>
    intro ls done w w' t0 h0 ms0 la rest hclose hV hwf hnd hdisj
    have hs := hwf s List.mem_cons_self
    have hsf := wfSect_facts hs
    have hds := hdisj s List.mem_cons_self
    simp only [printSects, List.append_assoc]
    rw [feed_sect done w w' t0 h0 ms0 s _ _ hs hclose hV]
    have hno : (⟨t0, ms0.reverse⟩ :: done : List Section).any (fun x => x.typ == s.typ) = false := by
      simp only [List.any_cons, hds.2, Bool.or_false, beq_eq_false_iff_ne, ne_eq]
      exact fun h => hds.1 h.symm
    have hclose' := closeNonV (⟨t0, ms0.reverse⟩ :: done) w' s.typ (secHdr s) (secMembers s).reverse hsf.2.1 hno
    have hV' : (⟨s.typ, (secMembers s).reverse.reverse⟩ :: ⟨t0, ms0.reverse⟩ :: done : List Section).any
        (fun x => x.typ == 'V') = true := by
      rw [List.any_cons, hV]; simp
    simp only [List.map_cons, List.nodup_cons, List.mem_map, not_exists, not_and] at hnd
    have := ih ls.tail (⟨t0, ms0.reverse⟩ :: done) w' w' s.typ (secHdr s) (secMembers s).reverse la rest hclose' hV'
      (fun x hx => hwf x (List.mem_cons_of_mem _ hx)) hnd.2
      (by intro x hx
          refine ⟨fun h => hnd.1 x hx h, ?_⟩
          have := hdisj x (List.mem_cons_of_mem _ hx)
          simp only [List.any_cons, this.2, Bool.or_false, beq_eq_false_iff_ne, ne_eq]
          exact fun h => this.1 h.symm)
    rw [this]
    simp [expectSect_eq]

/-! ### the data section -/

/-- `add_member_line` after `split()` -/
def arrAddToks (a : ArrSt) (values : List Str) : Except Err ArrSt :=
  if values.isEmpty then .ok a
  else if a.wrap then
    if a.buf.isEmpty then
      match values with
      | [v] =>
        if a.names.length = 1 then .ok { a with members := [v] :: a.members }
        else .ok { a with buf := [v] }
      | _ => .error .wrapIndex
    else
      let buf := a.buf ++ values
      if buf.length = a.names.length then .ok { a with members := buf :: a.members, buf := [] }
      else if buf.length > a.names.length then .error .wrapOverflow
      else .ok { a with buf := buf }
  else .ok { a with members := values :: a.members }

theorem arrAddLine_eq (a : ArrSt) (line : Str) : arrAddLine a line = arrAddToks a (splitWs line) := rfl

def thenArr (S : List Section) (w : Option Value) (r : Except Err ArrSt) (rest : Str) : Except Err St :=
  match r with
  | .ok a' => feed ⟨S, w, none, .arr a'⟩ rest
  | .error e => .error e

/-- a printable token that may start a line -/
def goodTok (t : Str) : Prop := isTok t ∧ ∃ x r, t = x :: r ∧ x ≠ '~' ∧ x ≠ '#'

theorem goodTok_printCell (c : DCell) (k : Nat) (hc : wfCell c = true) : goodTok (printCell c k) := by
  obtain ⟨x, r, h, h1, h2, _⟩ := printCell_head c k hc
  exact ⟨printCell_isTok c k hc, x, r, h, h1, h2⟩

theorem blanks_noLF (l : List Bool) : ∀ c ∈ blanks l, c ≠ '\n' := by
  intro c hc
  simp only [blanks, List.mem_map] at hc
  obtain ⟨b, _, rfl⟩ := hc
  cases b <;> decide

theorem joinToks_noLF (toks : List Str) (seps : List (List Bool)) (ht : ∀ t ∈ toks, isTok t) :
    ∀ c ∈ joinToks toks seps, c ≠ '\n' := by
  induction toks generalizing seps with
  | nil => intro c hc; simp [joinToks] at hc
  | cons t ts ih =>
    have h1 := noLF_of_nospace (ht t List.mem_cons_self).2
    cases ts with
    | nil => simpa [joinToks] using h1
    | cons t2 ts =>
      simp only [joinToks]
      exact noLF_append (noLF_append h1 (noLF_cons (by decide) (blanks_noLF _)))
        (ih seps.tail (fun x hx => ht x (List.mem_cons_of_mem _ hx)))

theorem joinToks_head (t : Str) (ts : List Str) (seps : List (List Bool)) :
    ∃ r, joinToks (t :: ts) seps = t ++ r := by
  cases ts with
  | nil => exact ⟨[], by simp [joinToks]⟩
  | cons t2 ts => exact ⟨_, by simp only [joinToks, List.append_assoc]; rfl⟩

/-- one physical data line fed to the open array section -/
theorem feed_dataline (S : List Section) (w : Option Value) (a : ArrSt) (t : Str) (ts : List Str) (r : RowLay)
    (rest : Str) (ht : ∀ x ∈ t :: ts, isTok x) (hg : goodTok t) :
    feed ⟨S, w, none, .arr a⟩ (printDataLine (t :: ts) r ++ rest) = thenArr S w (arrAddToks a (t :: ts)) rest := by
  obtain ⟨_, x, xr, hx, hx1, hx2⟩ := hg
  have hxs : isSpace x = false := (ht t List.mem_cons_self).2 x (by rw [hx]; exact List.mem_cons_self)
  obtain ⟨jr, hj⟩ := joinToks_head t ts r.seps
  let l := blanks r.lead ++ joinToks (t :: ts) r.seps ++ blanks r.trail
  have hl : printDataLine (t :: ts) r = l ++ ['\n'] := rfl
  have hnl : ∀ c ∈ l, c ≠ '\n' :=
    noLF_append (noLF_append (blanks_noLF _) (joinToks_noLF _ _ ht)) (blanks_noLF _)
  have hshape : l ++ ['\n'] = blanks r.lead ++ x :: (xr ++ jr ++ blanks r.trail ++ ['\n']) := by
    show blanks r.lead ++ joinToks (t :: ts) r.seps ++ blanks r.trail ++ ['\n'] = _
    rw [hj, hx]; simp [List.append_assoc]
  have hk : keepLine (l ++ ['\n']) = true := by
    rw [hshape]; exact keepLine_of _ x _ (blanks_isSpace _) hxs hx2
  have hhead : (l ++ ['\n']).head? = some '~' ↔ False := by
    rw [hshape]
    cases hb : blanks r.lead with
    | nil => simp [hx1]
    | cons b bs =>
      have := blanks_isSpace r.lead b (by rw [hb]; exact List.mem_cons_self)
      simp only [List.cons_append, List.head?_cons, Option.some.injEq, iff_false]
      intro h; subst h; simp [isSpace] at this
  have hstep : step ⟨S, w, none, .arr a⟩ (l ++ ['\n']) =
      match arrAddToks a (t :: ts) with
      | .ok a' => .ok ⟨S, w, none, .arr a'⟩
      | .error e => .error e := by
    unfold step
    simp only [hhead, if_false, arrAddLine_eq]
    rw [← hl, data_line_tokens (t :: ts) r ht]
    generalize arrAddToks a (t :: ts) = y
    cases y <;> rfl
  have hfeed := feed_line ⟨S, w, none, .arr a⟩ l rest hnl hk
  rw [hstep] at hfeed
  rw [hl, List.append_assoc]
  simp only [List.singleton_append]
  rw [hfeed]
  unfold thenArr
  generalize arrAddToks a (t :: ts) = y
  cases y <;> rfl

/-- the tokens of every row, as printed under the layout -/
def rowToks : List (List DCell) → List RowLay → List (List Str)
  | [], _ => []
  | row :: rows, rs => row.map (printCell · (rs.headD {}).k) :: rowToks rows rs.tail

theorem feed_rows_unwrapped (rows : List (List DCell)) : ∀ (rs : List RowLay) (S : List Section) (w : Option Value)
    (nl : Int × Int) (names : List (Value × Value)) (members : List (List Str)) (rest : Str),
    (∀ row ∈ rows, row ≠ [] ∧ ∀ c ∈ row, wfCell c = true) →
    feed ⟨S, w, none, .arr ⟨false, nl, names, members, []⟩⟩ (printRows false rows rs ++ rest) =
      feed ⟨S, w, none, .arr ⟨false, nl, names, (rowToks rows rs).reverse ++ members, []⟩⟩ rest := by
  induction rows with
  | nil => intro rs S w nl names members rest _; rfl
  | cons row rows ih =>
    intro rs S w nl names members rest hw
    obtain ⟨hne, hc⟩ := hw row List.mem_cons_self
    cases row with
    | nil => exact absurd rfl hne
    | cons c cs =>
      simp only [printRows, Bool.false_eq_true, if_false, printRowUnwrapped, List.map_cons, List.append_assoc]
      rw [feed_junk, feed_dataline S w _ _ _ _ _
        (by intro x hx
            rcases List.mem_cons.1 hx with h | h
            · subst h; exact printCell_isTok c _ (hc c List.mem_cons_self)
            · obtain ⟨d, hd, rfl⟩ := List.mem_map.1 h
              exact printCell_isTok d _ (hc d (List.mem_cons_of_mem _ hd)))
        (goodTok_printCell c _ (hc c List.mem_cons_self))]
      simp only [thenArr, arrAddToks, List.isEmpty_cons, Bool.false_eq_true, if_false]
      rw [ih rs.tail S w nl names _ rest (fun r hr => hw r (List.mem_cons_of_mem _ hr))]
      simp [rowToks]

theorem chunks_flatten {α : Type} (n : Nat) : ∀ (fuel : Nat) (l : List α), l.length ≤ fuel →
    (chunks n fuel l).flatten = l := by
  intro fuel
  induction fuel with
  | zero => intro l h; have : l = [] := List.eq_nil_of_length_eq_zero (by omega); subst this; rfl
  | succ f ih =>
    intro l h
    cases l with
    | nil => rfl
    | cons a l =>
      simp only [chunks, List.isEmpty_cons, Bool.false_eq_true, if_false, List.flatten_cons]
      rw [ih _ (by simp only [List.length_drop, List.length_cons] at h ⊢; omega)]
      exact List.take_append_drop _ _

theorem chunks_mem {α : Type} (n : Nat) : ∀ (fuel : Nat) (l : List α), ∀ c ∈ chunks n fuel l, c ≠ [] ∧ ∀ x ∈ c, x ∈ l := by
  intro fuel
  induction fuel with
  | zero => intro l c hc; simp [chunks] at hc
  | succ f ih =>
    intro l c hc
    cases l with
    | nil => simp [chunks] at hc
    | cons a l =>
      simp only [chunks, List.isEmpty_cons, Bool.false_eq_true, if_false, List.mem_cons] at hc
      rcases hc with hc | hc
      · subst hc
        exact ⟨by simp, fun x hx => List.mem_of_mem_take hx⟩
      · obtain ⟨h1, h2⟩ := ih _ c hc
        exact ⟨h1, fun x hx => List.mem_of_mem_drop (h2 x hx)⟩

theorem chunks_ne_nil {α : Type} (n fuel : Nat) (l : List α) (hl : l ≠ []) (h : l.length ≤ fuel) :
    chunks n fuel l ≠ [] := by
  cases fuel with
  | zero => cases l with
    | nil => exact absurd rfl hl
    | cons a l => simp at h
  | succ f => cases l with
    | nil => exact absurd rfl hl
    | cons a l => simp [chunks]

theorem feed_chunks (cs : List (List Str)) : ∀ (pre : List Str) (S : List Section) (w : Option Value)
    (nl : Int × Int) (names : List (Value × Value)) (members : List (List Str)) (r : RowLay) (rest : Str),
    pre ≠ [] → cs ≠ [] → (∀ c ∈ cs, c ≠ [] ∧ ∀ t ∈ c, goodTok t) →
    pre.length + cs.flatten.length = names.length →
    feed ⟨S, w, none, .arr ⟨true, nl, names, members, pre⟩⟩ ((cs.map (printDataLine · r)).flatten ++ rest) =
      feed ⟨S, w, none, .arr ⟨true, nl, names, (pre ++ cs.flatten) :: members, []⟩⟩ rest := by
  induction cs with
  | nil => intro pre S w nl names members r rest _ h; exact absurd rfl h
  | cons c cs ih =>
    intro pre S w nl names members r rest hpre _ hcs hlen
    obtain ⟨hcne, hct⟩ := hcs c List.mem_cons_self
    cases c with
    | nil => exact absurd rfl hcne
    | cons t ts =>
      simp only [List.map_cons, List.flatten_cons, List.append_assoc]
      rw [feed_dataline S w _ t ts r _ (fun x hx => (hct x hx).1) (hct t List.mem_cons_self)]
      have hpe : pre.isEmpty = false := by cases pre <;> simp_all
      cases cs with
      | nil =>
        simp only [List.flatten_cons, List.flatten_nil, List.append_nil, List.length_append] at hlen
        simp only [thenArr, arrAddToks, List.isEmpty_cons, Bool.false_eq_true, if_false, if_true, hpe,
          List.length_append, hlen]
        simp
      | cons c2 cs =>
        obtain ⟨hc2, _⟩ := hcs c2 (List.mem_cons_of_mem _ List.mem_cons_self)
        have hpos : 0 < c2.length := List.length_pos_iff.2 hc2
        simp only [List.flatten_cons, List.length_append] at hlen
        have h1 : ¬ (pre.length + (t :: ts).length = names.length) := by omega
        have h2 : ¬ (pre.length + (t :: ts).length > names.length) := by omega
        simp only [thenArr, arrAddToks, List.isEmpty_cons, Bool.false_eq_true, if_false, if_true, hpe,
          List.length_append, h1, h2]
        rw [ih (pre ++ t :: ts) S w nl names members r rest (by simp) (by simp)
          (fun x hx => hcs x (List.mem_cons_of_mem _ hx))
          (by simp only [List.flatten_cons, List.length_append]; omega)]
        simp

theorem feed_rows_wrapped (rows : List (List DCell)) : ∀ (rs : List RowLay) (S : List Section) (w : Option Value)
    (nl : Int × Int) (names : List (Value × Value)) (members : List (List Str)) (rest : Str),
    (∀ row ∈ rows, row ≠ [] ∧ row.length = names.length ∧ ∀ c ∈ row, wfCell c = true) →
    feed ⟨S, w, none, .arr ⟨true, nl, names, members, []⟩⟩ (printRows true rows rs ++ rest) =
      feed ⟨S, w, none, .arr ⟨true, nl, names, (rowToks rows rs).reverse ++ members, []⟩⟩ rest := by
  induction rows with
  | nil => intro rs S w nl names members rest _; rfl
  | cons row rows ih =>
    intro rs S w nl names members rest hw
    obtain ⟨hrne, hlen, hc⟩ := hw row List.mem_cons_self
    cases row with
    | nil => exact absurd rfl hrne
    | cons c cs =>
      cases cs with
      | nil =>
        -- only the index curve: the frame is complete with its index line
        have h1 : names.length = 1 := by simp at hlen; omega
        simp only [printRows, if_true, printRowWrapped, List.append_assoc, List.length_nil, List.map_nil, chunks,
          List.flatten_nil, List.nil_append]
        rw [feed_junk, feed_dataline S w _ _ [] _ _
          (by intro x hx; simp at hx; subst hx; exact printCell_isTok c _ (hc c List.mem_cons_self))
          (goodTok_printCell c _ (hc c List.mem_cons_self))]
        simp only [thenArr, arrAddToks, List.isEmpty_cons, List.isEmpty_nil, Bool.false_eq_true, if_false, if_true, h1]
        rw [ih rs.tail S w nl names _ rest (fun r hr => hw r (List.mem_cons_of_mem _ hr))]
        simp [rowToks]
      | cons c2 cs =>
        have h1 : ¬ names.length = 1 := by simp at hlen; omega
        simp only [printRows, if_true, printRowWrapped, List.append_assoc]
        rw [feed_junk, feed_dataline S w _ _ [] _ _
          (by intro x hx; simp at hx; subst hx; exact printCell_isTok c _ (hc c List.mem_cons_self))
          (goodTok_printCell c _ (hc c List.mem_cons_self))]
        simp only [thenArr, arrAddToks, List.isEmpty_cons, List.isEmpty_nil, Bool.false_eq_true, if_false, if_true, h1]
        have hl := chunks_flatten (rs.headD {}).perLine (c2 :: cs).length
          ((c2 :: cs).map (printCell · (rs.headD {}).k)) (by simp)
        rw [feed_chunks _ [printCell c (rs.headD {}).k] S w nl names members (rs.headD {}) _ (by simp)
          (chunks_ne_nil _ _ _ (by simp) (by simp))
          (by intro ch hch
              obtain ⟨h1, h2⟩ := chunks_mem _ _ _ ch hch
              refine ⟨h1, fun t ht => ?_⟩
              obtain ⟨d, hd, rfl⟩ := List.mem_map.1 (h2 t ht)
              exact goodTok_printCell d _ (hc d (List.mem_cons_of_mem _ hd)))
          (by rw [hl]; simp at hlen ⊢; omega)]
        rw [hl, ih rs.tail S w nl names _ rest (fun r hr => hw r (List.mem_cons_of_mem _ hr))]
        simp [rowToks]

theorem rowToks_length (rows : List (List DCell)) : ∀ (rs : List RowLay) (n : Nat),
    (∀ row ∈ rows, row.length = n) → ∀ t ∈ rowToks rows rs, t.length = n := by
  induction rows with
  | nil => intro rs n _ t ht; simp [rowToks] at ht
  | cons row rows ih =>
    intro rs n h t ht
    simp only [rowToks, List.mem_cons] at ht
    rcases ht with ht | ht
    · subst ht; simp [h row List.mem_cons_self]
    · exact ih rs.tail n (fun r hr => h r (List.mem_cons_of_mem _ hr)) t ht

theorem convert_rowToks (rows : List (List DCell)) : ∀ (rs : List RowLay),
    (∀ row ∈ rows, ∀ c ∈ row, wfCell c = true) →
    (rowToks rows rs).map (fun r => r.map convertValue) = rows.map (fun r => r.map expectCell) := by
  induction rows with
  | nil => intro rs _; rfl
  | cons row rows ih =>
    intro rs h
    simp only [rowToks, List.map_cons, List.map_map]
    rw [ih rs.tail (fun r hr => h r (List.mem_cons_of_mem _ hr))]
    congr 1
    apply List.map_congr_left
    intro c hc
    exact convertValue_printCell c _ (h row List.mem_cons_self c hc)

/-- `LASSectionArray.finalise` on the rows read -/
theorem finaliseArr_rows (wrap : Bool) (nl : Int × Int) (names : List (Value × Value)) (rows : List (List DCell))
    (rs : List RowLay)
    (hrows : ∀ row ∈ rows, row.length = names.length ∧ ∀ c ∈ row, wfCell c = true)
    (hdup : hasDupX (rows.map (fun r => cellKey nl (expectCell (r.headD (.bad []))))) = false) :
    finaliseArr ⟨wrap, nl, names, (rowToks rows rs).reverse, []⟩ =
      .ok ⟨names, nl, rows.map (fun r => r.map expectCell)⟩ := by
  unfold finaliseArr
  simp only [List.isEmpty_nil, Bool.not_true, Bool.false_and, List.reverse_reverse, Bool.false_eq_true, if_false]
  cases hr : rows with
  | nil => simp [rowToks]
  | cons row rows' =>
    rw [← hr]
    have hne : (rowToks rows rs).isEmpty = false := by rw [hr]; simp [rowToks]
    have hcols : (rowToks rows rs).any (fun r => r.length != names.length) = false := by
      rw [List.any_eq_false]
      intro t ht
      have := rowToks_length rows rs names.length (fun r hr => (hrows r hr).1) t ht
      simp [this]
    have hkeys : ((rowToks rows rs).map (fun r => r.map convertValue)).map (fun r => cellKey nl (r.headD .null)) =
        rows.map (fun r => cellKey nl (expectCell (r.headD (.bad [])))) := by
      rw [convert_rowToks rows rs (fun r hr => (hrows r hr).2), List.map_map]
      apply List.map_congr_left
      intro r _
      cases r <;> rfl
    simp only [hne, hcols, Bool.false_eq_true, if_false, hkeys, hdup, Bool.and_false]
    rw [convert_rowToks rows rs (fun r hr => (hrows r hr).2)]

end TD.C09
