import TD.C09.Spec

/-! Helper lemmas for C09, part 1: stripping, splitting, digit strings, number printing, one header line. -/
namespace TD.C09

/-! ### stripping -/

theorem stripRP_all (p : Char → Bool) (w : Str) (h : ∀ c ∈ w, p c = true) : stripRP p w = [] := by
  induction w with
  | nil => rfl
  | cons c r ih =>
    have h1 := ih (fun x hx => h x (List.mem_cons_of_mem _ hx))
    simp [stripRP, h1, h c (List.mem_cons_self)]

theorem stripRP_append_nonspace (p : Char → Bool) (A : Str) (c : Char) (T : Str) (hc : p c = false) :
    stripRP p (A ++ c :: T) = A ++ c :: stripRP p T := by
  induction A with
  | nil => simp [stripRP, hc]
  | cons a A ih => simp [stripRP, ih]

theorem stripRP_append_ws (p : Char → Bool) (s w : Str) (h : ∀ c ∈ w, p c = true) :
    stripRP p (s ++ w) = stripRP p s := by
  induction s with
  | nil => simp [stripRP_all p w h, stripRP]
  | cons a s ih => simp [stripRP, ih]

theorem stripRP_ws_append (p : Char → Bool) (w s : Str) (h : ∀ c ∈ w, p c = true) :
    stripRP p (w ++ s) = if (stripRP p s).isEmpty then [] else w ++ stripRP p s := by
  induction w with
  | nil => cases hs : stripRP p s <;> simp [hs]
  | cons a w ih =>
    have h1 := ih (fun x hx => h x (List.mem_cons_of_mem _ hx))
    have ha := h a (List.mem_cons_self)
    cases hs : stripRP p s with
    | nil => simp [stripRP, h1, hs, ha]
    | cons x xs => simp [stripRP, h1, hs]

theorem stripLP_ws_append (p : Char → Bool) (w s : Str) (h : ∀ c ∈ w, p c = true) :
    stripLP p (w ++ s) = stripLP p s := by
  induction w with
  | nil => rfl
  | cons a w ih =>
    have ha := h a (List.mem_cons_self)
    simp only [stripLP, List.cons_append, List.dropWhile_cons, ha, if_true]
    exact ih (fun x hx => h x (List.mem_cons_of_mem _ hx))

theorem stripLP_cons_nonspace (p : Char → Bool) (c : Char) (r : Str) (hc : p c = false) :
    stripLP p (c :: r) = c :: r := by
  simp [stripLP, hc]

/-- padding with white space on both sides does not change the stripped string -/
theorem stripP_pad (p : Char → Bool) (w1 s w2 : Str) (h1 : ∀ c ∈ w1, p c = true) (h2 : ∀ c ∈ w2, p c = true) :
    stripP p (w1 ++ s ++ w2) = stripP p s := by
  unfold stripP
  rw [stripRP_append_ws p _ _ h2, stripRP_ws_append p _ _ h1]
  cases hs : stripRP p s with
  | nil => simp [stripLP]
  | cons x xs => simp only [List.isEmpty_cons]; exact stripLP_ws_append p _ _ h1

theorem stripP_nospace (p : Char → Bool) (s : Str) (h : ∀ c ∈ s, p c = false) : stripP p s = s := by
  have hr : stripRP p s = s := by
    induction s with
    | nil => rfl
    | cons a s ih =>
      have := ih (fun x hx => h x (List.mem_cons_of_mem _ hx))
      simp [stripRP, this, h a (List.mem_cons_self)]
  unfold stripP
  rw [hr]
  cases s with
  | nil => rfl
  | cons a s => exact stripLP_cons_nonspace p a s (h a (List.mem_cons_self))

theorem stripRP_prefix (p : Char → Bool) (s : Str) : stripRP p s <+: s := by
  induction s with
  | nil => exact List.prefix_refl _
  | cons a s ih =>
    simp only [stripRP]
    split
    · exact List.nil_prefix
    · exact (List.cons_prefix_cons).2 ⟨rfl, ih⟩

theorem stripRP_of_stripP_eq (p : Char → Bool) (s : Str) (h : stripP p s = s) : stripRP p s = s := by
  have hp := stripRP_prefix p s
  have hl : s.length ≤ (stripRP p s).length := by
    have : (stripP p s).length ≤ (stripRP p s).length := by
      unfold stripP stripLP
      exact (List.dropWhile_sublist _).length_le
    rw [h] at this; exact this
  exact List.IsPrefix.eq_of_length_le hp hl

theorem isSpace_of_isSpaceC {c : Char} (h : isSpaceC c = true) : isSpace c = true := by
  simp only [isSpaceC, Bool.or_eq_true, decide_eq_true_eq] at h
  simp only [isSpace, Bool.or_eq_true, decide_eq_true_eq]
  rcases h with ((((h | h) | h) | h) | h) | h <;> simp [h]

theorem spaces_isSpaceC (n : Nat) : ∀ c ∈ spaces n, isSpaceC c = true := by
  intro c hc
  have := List.eq_of_mem_replicate hc
  subst this; decide

theorem spaces_isSpace (n : Nat) : ∀ c ∈ spaces n, isSpace c = true :=
  fun c hc => isSpace_of_isSpaceC (spaces_isSpaceC n c hc)

/-- `string_to_value` ignores surrounding C white space -/
theorem stringToValue_pad (w1 s w2 : Str) (h1 : ∀ c ∈ w1, isSpaceC c = true) (h2 : ∀ c ∈ w2, isSpaceC c = true) :
    stringToValue (w1 ++ s ++ w2) = stringToValue s := by
  unfold stringToValue parseInt? parseFloat? stripC strip
  rw [stripP_pad isSpaceC w1 s w2 h1 h2,
      stripP_pad isSpace w1 s w2 (fun c hc => isSpace_of_isSpaceC (h1 c hc)) (fun c hc => isSpace_of_isSpaceC (h2 c hc))]

theorem optToValue_ite (R : Str) : optToValue (if R.isEmpty then none else some R) = stringToValue R := by
  cases R with
  | nil => rfl
  | cons a r => rfl

/-- consequences of `stringToValue s = .text s` -/
theorem text_fixed {s : Str} (h : stringToValue s = .text s) :
    parseInt? s = none ∧ parseFloat? s = none ∧ strip s = s := by
  unfold stringToValue at h
  cases hi : parseInt? s with
  | some i => rw [hi] at h; cases h
  | none =>
    rw [hi] at h
    cases hf : parseFloat? s with
    | some me => rw [hf] at h; cases h
    | none =>
      rw [hf] at h
      refine ⟨rfl, rfl, ?_⟩
      simp only [typeText] at h
      split at h
      · cases h
      · split at h
        · cases h
        · injection h

end TD.C09
