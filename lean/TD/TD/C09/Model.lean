/-
C09 — model of `TotalDepth/LAS/core/LASRead.py` (the reader, `raise_on_error=True`, the default), as coded.

Text is `List Char` (`Str`).  Only ASCII input is modelled (`isSpace` is Python's `str.isspace` restricted to ASCII,
which is also what `\s`, `str.strip()` and `str.split()` use; `int()` and `float()` strip C `isspace` only: `isSpaceC`).

What is mirrored, function by function:

* `generate_lines`          → `splitLines` + `genLines` (drops `"\n"` and `^\s*#` lines; the push-back protocol is
                               realised by the line automaton `step`: the line that ends a section is examined again at
                               top level).
* `string_to_value`         → `stringToValue` on the restricted numeric grammar
                               int   `[+-]?D+`            float `[+-]?(D+(.D*)?|.D+)([eE][+-]?D+)?`   (D = ASCII digit)
                               Python also accepts `1_0`, `inf`, `nan`, `infinity` and non-ASCII digits: NOT modelled.
                               A float is kept as the exact decimal (mantissa, exponent) = m·10^e.
* `line_to_sect_line`       → `lineToSectLine` (first '.', last ':', `RE_LINE_FIELD_0/1` as explicit scanners with the
                               regex engine's backtracking order); mnemonic and unit are kept as stripped text, only
                               the value and the description are typed by `string_to_value`.
* `LASSection`              → `Cur.sect`, `finaliseSect` (rules of the 'V' section, duplicate section types).
* `LASSectionArray`         → `ArrSt`, `arrAddLine` (unwrapped, and the `_unwrap_buffer` automaton), `finaliseArr`
                               (column count, `float()` or the null value taken from `~W NULL`, duplicate X values).
* `LASRead._process_file`   → `topLevel`, `step`, `finish`, `parse`.

Not modelled (the model answers `Err.unsupported`): curves `DATE .D` / `TIME .HHMMSS` (strptime).
Equality of floats (duplicate X, `VERS in (1.2, 2.0)`, masking) is decided on the exact decimals (`canonDec`: no power
of ten is ever computed; magnitudes beyond the double range compare like inf / 0.0), not on the rounded doubles.
-/
namespace TD.C09

abbrev Str := List Char

/-- Python `str.isspace()` on ASCII: TAB LF VT FF CR, FS GS RS US, SPACE. -/
def isSpace (c : Char) : Bool :=
  c = ' ' || c = '\t' || c = '\n' || c = '\r' || c = '\x0b' || c = '\x0c' ||
  c = '\x1c' || c = '\x1d' || c = '\x1e' || c = '\x1f'

/-- the white space of C `isspace`, used by `int()` / `float()` on an ASCII `str` (FS GS RS US are NOT stripped there) -/
def isSpaceC (c : Char) : Bool :=
  c = ' ' || c = '\t' || c = '\n' || c = '\r' || c = '\x0b' || c = '\x0c'

def stripLP (p : Char → Bool) (s : Str) : Str := s.dropWhile p

def stripRP (p : Char → Bool) : Str → Str
  | [] => []
  | c :: r => let r' := stripRP p r; if r'.isEmpty && p c then [] else c :: r'

def stripP (p : Char → Bool) (s : Str) : Str := stripLP p (stripRP p s)

/-- `str.strip()` -/
def strip (s : Str) : Str := stripP isSpace s
/-- the stripping done inside `int()` / `float()` -/
def stripC (s : Str) : Str := stripP isSpaceC s

/-- `str.split()` (no argument): maximal runs of non-space characters. `cur` is the current token, reversed. -/
def splitWsAux : Str → Str → List Str
  | [], cur => if cur.isEmpty then [] else [cur.reverse]
  | c :: r, cur =>
    if isSpace c then (if cur.isEmpty then splitWsAux r [] else cur.reverse :: splitWsAux r [])
    else splitWsAux r (c :: cur)

def splitWs (s : Str) : List Str := splitWsAux s []

/-- `readline()` on `io.StringIO(text)`: lines keep their terminating '\n'; a last unterminated line is returned too. -/
def splitLinesAux : Str → Str → List Str
  | [], cur => if cur.isEmpty then [] else [cur.reverse]
  | c :: r, cur => if c = '\n' then (c :: cur).reverse :: splitLinesAux r [] else splitLinesAux r (c :: cur)

def splitLines (s : Str) : List Str := splitLinesAux s []

/-- `RE_COMMENT = ^\s*#(.*)$` matches the line. -/
def isComment (l : Str) : Bool :=
  match l.dropWhile isSpace with
  | '#' :: _ => true
  | _ => false

/-- `generate_lines`: the lines handed to the consumer. -/
def keepLine (l : Str) : Bool := l != ['\n'] && !isComment l

def genLines (text : Str) : List Str := (splitLines text).filter keepLine

/-! ### values -/

inductive Value where
  | int (i : Int)
  | float (m : Int) (e : Int)      -- m · 10^e, exactly as written
  | bool (b : Bool)
  | text (s : Str)
  deriving DecidableEq, Repr, Inhabited

def isDigit (c : Char) : Bool := '0' ≤ c && c ≤ '9'

def digitVal (c : Char) : Nat := c.toNat - '0'.toNat

/-- value of a digit string (most significant first) -/
def digitsVal (ds : Str) : Nat := ds.foldl (fun acc c => acc * 10 + digitVal c) 0

/-- optional sign: returns (negative?, rest) -/
def takeSign : Str → Bool × Str
  | '-' :: r => (true, r)
  | '+' :: r => (false, r)
  | s => (false, s)

def applySign (neg : Bool) (n : Nat) : Int := if neg then -(n : Int) else (n : Int)

/-- `[+-]?D+` on an already stripped string -/
def parseIntStripped (s : Str) : Option Int :=
  let (neg, r) := takeSign s
  if !r.isEmpty && r.all isDigit then some (applySign neg (digitsVal r)) else none

/-- exponent part `([eE][+-]?D+)?` followed by end of string -/
def parseExp : Str → Option Int
  | [] => some 0
  | c :: r =>
    if c = 'e' || c = 'E' then
      let (neg, ds) := takeSign r
      if !ds.isEmpty && ds.all isDigit then some (applySign neg (digitsVal ds)) else none
    else none

/-- `[+-]?(D+(.D*)?|.D+)([eE][+-]?D+)?` on an already stripped string → (mantissa, exponent) -/
def parseFloatStripped (s : Str) : Option (Int × Int) :=
  let (neg, r) := takeSign s
  let ip := r.takeWhile isDigit
  match r.dropWhile isDigit with
  | '.' :: r2 =>
    let fp := r2.takeWhile isDigit
    let r3 := r2.dropWhile isDigit
    if ip.isEmpty && fp.isEmpty then none else
    match parseExp r3 with
    | some x => some (applySign neg (digitsVal (ip ++ fp)), x - (fp.length : Int))
    | none => none
  | _ =>
    if ip.isEmpty then none else
    match parseExp (r.dropWhile isDigit) with
    | some x => some (applySign neg (digitsVal ip), x)
    | none => none

/-- Python `int(s)` (restricted grammar) -/
def parseInt? (s : Str) : Option Int := parseIntStripped (stripC s)
/-- Python `float(s)` (restricted grammar), exact decimal -/
def parseFloat? (s : Str) : Option (Int × Int) := parseFloatStripped (stripC s)

def lowerChar (c : Char) : Char := if 'A' ≤ c && c ≤ 'Z' then Char.ofNat (c.toNat + 32) else c
def lower (s : Str) : Str := s.map lowerChar

/-- yes / no / text on the `str.strip()`ped string -/
def typeText (t : Str) : Value :=
  if lower t = "yes".toList then .bool true
  else if lower t = "no".toList then .bool false
  else .text t

/-- `string_to_value(value)` for a `str`: `int()`, then `float()`, then strip and yes/no/text -/
def stringToValue (s : Str) : Value :=
  match parseInt? s with
  | some i => .int i
  | none =>
    match parseFloat? s with
    | some (m, e) => .float m e
    | none => typeText (strip s)

/-- `string_to_value(g)` for a regex group that may be `None` -/
def optToValue : Option Str → Value
  | none => .text []
  | some s => stringToValue s

/-- the units group kept as a stripped `str` (`''` when the group is `None`) -/
def optStrip : Option Str → Str
  | none => []
  | some s => strip s

/-! ### header lines -/

structure SectLine where
  mnem : Value
  unit : Value
  valu : Value
  desc : Value
  deriving DecidableEq, Repr, Inhabited

inductive Err where
  | noDot | noColon | decompose                -- ExceptionLASReadSection (member line)
  | vRules                                     -- ExceptionLASReadSection (finalise of 'V')
  | dupChannel                                 -- ExceptionLASReadSection (LogPass duplicate channel)
  | versionFirst | nonVersionFirst | dupSection | noCurve | userNoV | userAfterA | sectAfterArray
  | columns | dupX                             -- ExceptionLASRead
  | wrapIndex | wrapOverflow | bufferLen       -- ExceptionLASReadSectionArray
  | unsupported                                -- outside the model (DATE/TIME channels)
  deriving DecidableEq, Repr, Inhabited

/-- split at the first '.' -/
def splitFirstDot : Str → Option (Str × Str)
  | [] => none
  | c :: r => if c = '.' then some ([], r) else
    match splitFirstDot r with
    | some (a, b) => some (c :: a, b)
    | none => none

/-- split at the last ':' -/
def splitLastColon : Str → Option (Str × Str)
  | [] => none
  | c :: r =>
    match splitLastColon r with
    | some (a, b) => some (c :: a, b)
    | none => if c = ':' then some ([], r) else none

def f0ok (c : Char) : Bool := c != ' ' && c != '.' && c != ':'
def f1ok (c : Char) : Bool := c != ' ' && c != ':'

/-- `([^ .:]+)\s*$` anchored at the head of `s`: greedy run, the rest must be white space
(a shorter run cannot succeed when the greedy one fails). -/
def field0At (s : Str) : Option Str :=
  let g := s.takeWhile f0ok
  let rest := s.dropWhile f0ok
  if g.isEmpty then none else if rest.all isSpace then some g else none

/-- `RE_LINE_FIELD_0 = ^\s*([^ .:]+)\s*$`: `\s*` is greedy and backtracks one character at a time. -/
def field0 : Str → Option Str
  | [] => none
  | c :: r =>
    if isSpace c then
      match field0 r with
      | some g => some g
      | none => field0At (c :: r)
    else field0At (c :: r)

/-- `RE_LINE_FIELD_1 = ^([^ :]+)*(.+)*$` (always matches a one-line string): the two groups, `None` when empty. -/
def field1 (s : Str) : Option Str × Option Str :=
  let g1 := s.takeWhile f1ok
  let g2 := s.dropWhile f1ok
  (if g1.isEmpty then none else some g1, if g2.isEmpty then none else some g2)

/-- `line_to_sect_line(line)`; `line` is already stripped by the caller. -/
def lineToSectLine (line : Str) : Except Err SectLine :=
  match splitFirstDot line with
  | none => .error .noDot
  | some (pre, post) =>
    match splitLastColon post with
    | none => if pre.contains ':' then .error .decompose else .error .noColon
    | some (mid, desc) =>
      match field0 pre with
      | none => .error .decompose
      | some g0 =>
        let (g1, g2) := field1 mid
        .ok ⟨.text (strip g0), .text (optStrip g1), optToValue g2, stringToValue desc⟩

/-! ### sections -/

inductive Member where
  | line (l : SectLine)
  | raw (s : Str)
  deriving DecidableEq, Repr, Inhabited

structure Section where
  typ : Char
  members : List Member
  deriving DecidableEq, Repr, Inhabited

/-- a cell of the frame array after `_convert_value` -/
inductive Cell where
  | num (m : Int) (e : Int)
  | null                           -- the array section's null value (`ArrayData.null`)
  deriving DecidableEq, Repr, Inhabited

structure ArrayData where
  names : List (Value × Value)     -- (ident, units) of each channel, in curve order
  null : Int × Int                 -- the null value of the array section (exact decimal)
  frames : List (List Cell)        -- one row per frame
  deriving DecidableEq, Repr, Inhabited

structure LasFile where
  sections : List Section          -- every section but 'A', in file order
  array : Option ArrayData
  deriving DecidableEq, Repr, Inhabited

/-- number of decimal digits of `n` (`fuel` ≥ that number; 0 for fuel 0) -/
def digitCount : Nat → Nat → Nat
  | 0, _ => 0
  | f + 1, n => if n < 10 then 1 else 1 + digitCount f (n / 10)

/-- strip trailing decimal zeros of the mantissa: m·10^e = m'·10^e' with 10 ∤ m' (`fuel` ≥ number of digits of m) -/
def stripZeros : Nat → Int → Int → Int × Int
  | 0, m, e => (m, e)
  | f + 1, m, e => if m % 10 = 0 then stripZeros f (m / 10) (e + 1) else (m, e)

/-- Canonical form of the DOUBLE a decimal m·10^e denotes, as far as equality is concerned, WITHOUT ever computing
10^e: zero is `(0, 0)`; a magnitude of 10^310 or more is what `float()` returns as ±inf (`(±1, 1000000)`); a magnitude
below 10^-330 is what `float()` returns as 0.0; otherwise the normalised pair (mantissa without trailing zeros,
exponent), which identifies the rational exactly.  (Between the largest double 1.8·10^308 and 10^310, and for distinct
decimals closer than half an ulp, equality of the doubles is not decided by this form: not generated.) -/
def canonDec (a : Int × Int) : Int × Int :=
  if a.1 = 0 then (0, 0) else
  let fuel := Nat.log2 a.1.natAbs + 1
  let n := stripZeros fuel a.1 a.2
  let p : Int := (digitCount fuel n.1.natAbs : Int) + n.2       -- the value lies in [10^(p-1), 10^p)
  if p > 310 then (if a.1 < 0 then -1 else 1, 1000000)
  else if p < -330 then (0, 0)
  else n

/-- comparison of m₁·10^e₁ and m₂·10^e₂ (exact on rationals inside the double range, inf/0.0 outside) -/
def numEq (a b : Int × Int) : Bool := canonDec a == canonDec b

/-- Python `==` between two values as used for dict keys / tuple membership (numbers compare by value). -/
def asNum : Value → Option (Int × Int)
  | .int i => some (i, 0)
  | .float m e => some (m, e)
  | .bool b => some (if b then 1 else 0, 0)
  | .text _ => none

def pyEq (a b : Value) : Bool :=
  match asNum a, asNum b with
  | some x, some y => numEq x y
  | none, none => a == b
  | _, _ => false

def memberMnem : Member → Option Value
  | .line l => some l.mnem
  | .raw _ => none

def memberValu : Member → Option Value
  | .line l => some l.valu
  | .raw _ => none

/-- the value is one of the numbers listed (Python `valu in (a, b)`) -/
def valueIn (v : Value) (opts : List (Int × Int)) : Bool :=
  match asNum v with
  | some x => opts.any (numEq x)
  | none => false

/-- `SECTION_MNEMONIC_ORDER_AND_VALUES['V']`: entry 0 is VERS ∈ (1.2, 2.0), entry 1 is WRAP ∈ (True, False).
Returns the WRAP value. -/
def checkV (members : List Member) : Option Value :=
  match members with
  | m0 :: m1 :: _ =>
    if memberMnem m0 == some (.text "VERS".toList) && (match memberValu m0 with
        | some v => valueIn v [(12, -1), (2, 0)] | none => false) &&
       memberMnem m1 == some (.text "WRAP".toList) && (match memberValu m1 with
        | some v => valueIn v [(1, 0), (0, 0)] | none => false)
    then memberValu m1 else none
  | _ => none

/-- truthiness of the WRAP value (`if self._wrap:`) -/
def truthy : Value → Bool
  | .bool b => b
  | .int i => i != 0
  | .float m _ => m != 0
  | .text s => !s.isEmpty

structure ArrSt where
  wrap : Bool
  null : Int × Int               -- `self._null`
  names : List (Value × Value)
  members : List (List Str)      -- reversed
  buf : List Str                 -- `_unwrap_buffer`, in order
  deriving Repr, Inhabited

inductive Cur where
  | top                                           -- nothing open (start of file)
  | consume                                       -- inside `_consume_section`
  | sect (typ : Char) (hdr : Bool) (members : List Member)   -- members reversed
  | arr (a : ArrSt)
  deriving Repr, Inhabited

structure St where
  sections : List Section        -- finished sections, reversed
  wrapV : Option Value           -- `self._wrap`
  arrayDone : Option ArrayData
  cur : Cur
  deriving Repr, Inhabited

def St.init : St := ⟨[], none, none, .top⟩

def St.hasType (st : St) (t : Char) : Bool := st.sections.any (fun s => s.typ == t)

def isSectLetter (c : Char) : Bool := "VWCPOA".toList.contains c
def isDataLetter (c : Char) : Bool := "VWCP".toList.contains c

/-- `RE_SECT_HEAD = ^~([VWCPOA])(.+)*$` matches (raw or stripped line): the section letter -/
def sectHead : Str → Option Char
  | '~' :: c :: _ => if isSectLetter c then some c else none
  | _ => none

/-- first curve section among the finished ones (file order) -/
def firstCurve (st : St) : Option Section := st.sections.reverse.find? (fun s => s.typ == 'C')

def curveNames (s : Section) : List (Value × Value) :=
  s.members.filterMap (fun m => match m with | .line l => some (l.mnem, l.unit) | .raw _ => none)

/-- `FrameArray.append` refuses a channel whose ident is already a key of the dict -/
def hasDupKey : List Value → Bool
  | [] => false
  | v :: r => r.any (pyEq v) || hasDupKey r

def isDateTime (n : Value × Value) : Bool :=
  (n.1 == .text "DATE".toList && n.2 == .text "D".toList) ||
  (n.1 == .text "TIME".toList && n.2 == .text "HHMMSS".toList)

/-- `LASBase.null_value` (`self['W']['NULL'].valu`, -999.25 on KeyError) followed by the guard of
`_process_section_a`: only an int or a float (not a bool, not text) is passed to the array section. -/
def defaultNull : Int × Int := (-99925, -2)

def nullOf (st : St) : Int × Int :=
  match st.sections.reverse.find? (fun s => s.typ == 'W') with
  | none => defaultNull
  | some w =>
    match w.members.find? (fun m => memberMnem m == some (.text "NULL".toList)) with
    | some (.line l) =>
      match l.valu with
      | .int i => (i, 0)
      | .float m e => (m, e)
      | _ => defaultNull
    | _ => defaultNull

/-- `_process_file` body for one (stripped) line examined at top level -/
def topLevel (st : St) (s : Str) : Except Err St :=
  match sectHead s with
  | some 'V' =>
    if !st.sections.isEmpty then .error .versionFirst else .ok { st with cur := .sect 'V' true [] }
  | some 'A' =>
    if st.sections.isEmpty then .error .nonVersionFirst else
    match firstCurve st with
    | none => .error .noCurve
    | some c =>
      let names := curveNames c
      if hasDupKey (names.map (·.1)) then .error .dupChannel
      else if names.any isDateTime then .error .unsupported
      else .ok { st with cur := .arr ⟨match st.wrapV with | some v => truthy v | none => false, nullOf st, names, [], []⟩ }
  | some t =>
    if st.sections.isEmpty then .error .nonVersionFirst
    else .ok { st with cur := .sect t (isDataLetter t) [] }
  | none =>
    match s with
    | '~' :: c :: _ =>
      if !st.hasType 'V' then .error .userNoV
      else if st.arrayDone.isSome then .error .userAfterA
      else .ok { st with cur := .sect c false [] }
    | _ => .ok { st with cur := .consume }

/-- `LASSection.finalise` + `_finalise_section_and_add` (+ `_wrap = section['WRAP'].valu` for 'V') -/
def finaliseSect (st : St) (typ : Char) (members : List Member) : Except Err St :=
  let ms := members.reverse
  if typ = 'V' then
    match checkV ms with
    | none => .error .vRules
    | some w =>
      if st.hasType typ then .error .dupSection
      else .ok { st with sections := ⟨typ, ms⟩ :: st.sections, wrapV := some w, cur := .top }
  else
    if st.hasType typ then .error .dupSection
    else .ok { st with sections := ⟨typ, ms⟩ :: st.sections, cur := .top }

/-- `LASSectionArray.add_member_line` (and `_add_member_with_wrap_mode`) -/
def arrAddLine (a : ArrSt) (line : Str) : Except Err ArrSt :=
  let values := splitWs line
  if values.isEmpty then .ok a
  else if a.wrap then
    if a.buf.isEmpty then
      match values with
      | [v] =>
        if a.names.length = 1 then .ok { a with members := [v] :: a.members }   -- only the index curve: flushed at once
        else .ok { a with buf := [v] }
      | _ => .error .wrapIndex
    else
      let buf := a.buf ++ values
      if buf.length = a.names.length then .ok { a with members := buf :: a.members, buf := [] }
      else if buf.length > a.names.length then .error .wrapOverflow
      else .ok { a with buf := buf }
  else .ok { a with members := values :: a.members }

/-- `_convert_value` for a float channel -/
def convertValue (tok : Str) : Cell :=
  match parseFloat? tok with
  | some (m, e) => .num m e
  | none => .null

def cellKey (null : Int × Int) : Cell → Int × Int
  | .num m e => (m, e)
  | .null => null

/-- `create_index`: a duplicate X axis value raises -/
def hasDupX : List (Int × Int) → Bool
  | [] => false
  | k :: r => r.any (numEq k) || hasDupX r

/-- `LASSectionArray.finalise` -/
def finaliseArr (a : ArrSt) : Except Err ArrayData :=
  -- `_add_buffer(-1)` inside try/finally: its error is raised only if the `finally` block does not raise itself
  let pending : Bool := !a.buf.isEmpty && a.buf.length != a.names.length
  let members := (if !a.buf.isEmpty && a.buf.length = a.names.length then a.buf :: a.members else a.members).reverse
  if members.isEmpty then
    (if pending then .error .bufferLen else .ok ⟨a.names, a.null, []⟩)
  else if members.any (fun r => r.length != a.names.length) then .error .columns
  else
    let frames := members.map (fun r => r.map convertValue)
    if !a.names.isEmpty && hasDupX (frames.map (fun r => cellKey a.null (r.headD .null))) then .error .dupX
    else if pending then .error .bufferLen
    else .ok ⟨a.names, a.null, frames⟩

/-- `FrameArray.mask_array(self._null)` → `AbsentValue.mask_absent_values`: every channel but the X axis is masked
exactly where the stored value EQUALS the null value (`array == null`; an unparseable cell holds the null value). -/
def maskOf (a : ArrayData) : List (List Bool) :=
  a.frames.map (fun r => r.zipIdx.map (fun p => p.2 != 0 && numEq (cellKey a.null p.1) a.null))

/-- one line delivered by `generate_lines` -/
def step (st : St) (line : Str) : Except Err St :=
  match st.cur with
  | .top => topLevel st (strip line)
  | .consume =>
    match sectHead line with
    | some _ => topLevel st (strip line)
    | none => .ok st
  | .sect typ hdr members =>
    let s := strip line
    if s.head? = some '~' then
      match finaliseSect st typ members with
      | .ok st' => topLevel st' s
      | .error e => .error e
    else if s.isEmpty then .ok st
    else if hdr then
      match lineToSectLine s with
      | .ok l => .ok { st with cur := .sect typ hdr (.line l :: members) }
      | .error e => .error e
    else .ok { st with cur := .sect typ hdr (.raw s :: members) }
  | .arr a =>
    if line.head? = some '~' then .error .sectAfterArray
    else
      match arrAddLine a line with
      | .ok a' => .ok { st with cur := .arr a' }
      | .error e => .error e

def run (st : St) : List Str → Except Err St
  | [] => .ok st
  | l :: ls =>
    match step st l with
    | .ok st' => run st' ls
    | .error e => .error e

/-- end of file -/
def finish (st : St) : Except Err LasFile :=
  match st.cur with
  | .top | .consume => .ok ⟨st.sections.reverse, st.arrayDone⟩
  | .sect typ _ members =>
    match finaliseSect st typ members with
    | .ok st' => .ok ⟨st'.sections.reverse, st'.arrayDone⟩
    | .error e => .error e
  | .arr a =>
    match finaliseArr a with
    | .ok d => .ok ⟨st.sections.reverse, some d⟩
    | .error e => .error e

/-- `LASRead.LASRead(io.StringIO(text))` -/
def parse (text : Str) : Except Err LasFile :=
  match run St.init (genLines text) with
  | .ok st => finish st
  | .error e => .error e

end TD.C09
