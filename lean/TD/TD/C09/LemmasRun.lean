import TD.C09.LemmasLine

/-! Helper lemmas for C09, part 4: feeding printed text to the line automaton. -/
namespace TD.C09
set_option linter.unusedSimpArgs false

/-- feed a text to the automaton from a state -/
def feed (st : St) (text : Str) : Except Err St := run st (genLines text)

theorem splitLinesAux_line (l rest cur : Str) (h : ∀ c ∈ l, c ≠ '\n') :
    splitLinesAux (l ++ '\n' :: rest) cur = (cur.reverse ++ l ++ ['\n']) :: splitLinesAux rest [] := by
  induction l generalizing cur with
  | nil => simp [splitLinesAux]
  | cons a l ih =>
    have ha : a ≠ '\n' := h a (List.mem_cons_self)
    simp only [List.cons_append, splitLinesAux, ha, if_false]
    rw [ih _ (fun x hx => h x (List.mem_cons_of_mem _ hx))]
    simp

theorem genLines_line (l rest : Str) (h : ∀ c ∈ l, c ≠ '\n') :
    genLines (l ++ '\n' :: rest) =
      if keepLine (l ++ ['\n']) then (l ++ ['\n']) :: genLines rest else genLines rest := by
  unfold genLines splitLines
  rw [splitLinesAux_line l rest [] h]
  simp only [List.reverse_nil, List.nil_append, List.filter_cons]

theorem feed_skip (st : St) (l rest : Str) (h : ∀ c ∈ l, c ≠ '\n') (hk : keepLine (l ++ ['\n']) = false) :
    feed st (l ++ '\n' :: rest) = feed st rest := by
  unfold feed; rw [genLines_line l rest h, hk]; rfl

theorem feed_line (st : St) (l rest : Str) (h : ∀ c ∈ l, c ≠ '\n') (hk : keepLine (l ++ ['\n']) = true) :
    feed st (l ++ '\n' :: rest) =
      match step st (l ++ ['\n']) with
      | .ok st' => feed st' rest
      | .error e => .error e := by
  unfold feed; rw [genLines_line l rest h, hk]; rfl

theorem feed_nil (st : St) : feed st [] = .ok st := rfl

theorem spaces_noLF (n : Nat) : ∀ c ∈ spaces n, c ≠ '\n' := by
  intro c hc; have := List.eq_of_mem_replicate hc; subst this; decide

theorem oneLine_noLF (s : Str) : ∀ c ∈ oneLine s, c ≠ '\n' := by
  intro c hc
  simp only [oneLine, List.mem_filter, bne_iff_ne, ne_eq] at hc
  exact hc.2

theorem noLF_of_nospace {s : Str} (h : ∀ c ∈ s, isSpace c = false) : ∀ c ∈ s, c ≠ '\n' := by
  intro c hc hn; subst hn; have := h _ hc; simp [isSpace] at this

theorem keepLine_of (w : Str) (c : Char) (r : Str) (hw : ∀ x ∈ w, isSpace x = true) (hc : isSpace c = false)
    (hh : c ≠ '#') : keepLine (w ++ c :: r) = true := by
  have hd : (w ++ c :: r).dropWhile isSpace = c :: r := by
    have := stripLP_ws_append isSpace w (c :: r) hw
    rw [stripLP_cons_nonspace isSpace c r hc] at this
    exact this
  have h1 : (w ++ c :: r != ['\n']) = true := by
    rw [bne_iff_ne]
    intro h
    cases w with
    | nil =>
      simp only [List.nil_append] at h
      injection h with h1 h2; subst h1; simp [isSpace] at hc
    | cons a w =>
      simp only [List.cons_append] at h
      injection h with h1 h2
      cases w <;> simp at h2
  simp only [keepLine, h1, isComment, hd, Bool.true_and, Bool.not_eq_true']
  split
  · rename_i heq; injection heq with h1 _; exact absurd h1.symm (by intro h; exact hh h.symm)
  · rfl

theorem feed_junkLine (st : St) (j : JunkLine) (rest : Str) : feed st (printJunkLine j ++ rest) = feed st rest := by
  cases j with
  | blank =>
    have := feed_skip st [] rest (by simp) (by decide)
    simpa [printJunkLine] using this
  | comment lead text =>
    have hn : ∀ c ∈ spaces lead ++ '#' :: oneLine text, c ≠ '\n' := by
      intro c hc
      rcases List.mem_append.1 hc with h | h
      · exact spaces_noLF lead c h
      · rcases List.mem_cons.1 h with h | h
        · subst h; decide
        · exact oneLine_noLF text c h
    have hk : keepLine ((spaces lead ++ '#' :: oneLine text) ++ ['\n']) = false := by
      have hd : ((spaces lead ++ '#' :: oneLine text) ++ ['\n']).dropWhile isSpace = '#' :: (oneLine text ++ ['\n']) := by
        have := stripLP_ws_append isSpace (spaces lead) ('#' :: (oneLine text ++ ['\n'])) (spaces_isSpace lead)
        rw [stripLP_cons_nonspace isSpace '#' _ (by decide)] at this
        simpa [stripLP, List.append_assoc] using this
      unfold keepLine isComment
      rw [hd]; simp
    have := feed_skip st _ rest hn hk
    simpa [printJunkLine, List.append_assoc] using this

theorem feed_junk (st : St) (j : List JunkLine) (rest : Str) : feed st (printJunk j ++ rest) = feed st rest := by
  induction j with
  | nil => rfl
  | cons a j ih =>
    simp only [printJunk, List.map_cons, List.flatten_cons, List.append_assoc] at ih ⊢
    rw [feed_junkLine, ih]

/-! ### stripping printed lines -/

theorem strip_head (n : Nat) (t : Char) (Y : Str) (ht : isSpace t = false) :
    strip (spaces n ++ '~' :: t :: Y) = '~' :: t :: stripRP isSpace Y := by
  unfold strip stripP
  have : spaces n ++ '~' :: t :: Y = (spaces n ++ ['~']) ++ t :: Y := by simp
  rw [this, stripRP_append_nonspace isSpace _ t Y ht, List.append_assoc,
    stripLP_ws_append isSpace _ _ (spaces_isSpace n)]
  exact stripLP_cons_nonspace isSpace '~' _ (by decide)

/-! ### top level -/

/-- the `~A` branch of `topLevel` -/
def openA (st : St) : Except Err St :=
  if st.sections.isEmpty then .error .nonVersionFirst else
  match firstCurve st with
  | none => .error .noCurve
  | some c =>
    let names := curveNames c
    if hasDupKey (names.map (·.1)) then .error .dupChannel
    else if names.any isDateTime then .error .unsupported
    else .ok { st with cur := .arr ⟨match st.wrapV with | some v => truthy v | none => false, nullOf st, names, [], []⟩ }

theorem topLevel_A (st : St) (X : Str) : topLevel st ('~' :: 'A' :: X) = openA st := by
  simp [topLevel, sectHead, isSectLetter, openA]
  split <;> rfl

theorem topLevel_V (X : Str) : topLevel St.init ('~' :: 'V' :: X) = .ok { St.init with cur := .sect 'V' true [] } := by
  simp [topLevel, sectHead, isSectLetter, St.init]

theorem topLevel_hdr (st : St) (X : Str) (t : Char) (ht : t = 'W' ∨ t = 'C' ∨ t = 'P') (hne : st.sections.isEmpty = false) :
    topLevel st ('~' :: t :: X) = .ok { st with cur := .sect t true [] } := by
  rcases ht with h | h | h <;> subst h <;> simp [topLevel, sectHead, isSectLetter, isDataLetter, hne]

theorem contains5 (t : Char) (ht : "VWCPA".toList.contains t = false) :
    t ≠ 'V' ∧ t ≠ 'W' ∧ t ≠ 'C' ∧ t ≠ 'P' ∧ t ≠ 'A' := by
  refine ⟨?_, ?_, ?_, ?_, ?_⟩ <;> (intro h; subst h; revert ht; decide)

theorem topLevel_txt (st : St) (X : Str) (t : Char) (ht : "VWCPA".toList.contains t = false)
    (hV : st.hasType 'V' = true) (ha : st.arrayDone = none) (hne : st.sections.isEmpty = false) :
    topLevel st ('~' :: t :: X) = .ok { st with cur := .sect t false [] } := by
  obtain ⟨h1, h2, h3, h4, h5⟩ := contains5 t ht
  by_cases hO : t = 'O'
  · subst hO; simp [topLevel, sectHead, isSectLetter, isDataLetter, hne]
  · have hs : sectHead ('~' :: t :: X) = none := by
      simp [sectHead, isSectLetter, h1, h2, h3, h4, h5, hO]
    simp [topLevel, hs, hV, ha]

end TD.C09
