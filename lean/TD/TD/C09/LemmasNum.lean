import TD.C09.Lemmas

/-! Helper lemmas for C09, part 2: digit strings and the numeric grammar. -/
namespace TD.C09
set_option linter.unusedSimpArgs false

theorem digit_facts : ∀ d : Fin 10, digitVal (digitChar d) = d ∧ isDigit (digitChar d) = true ∧
    digitChar d ≠ '-' ∧ digitChar d ≠ '+' ∧ isSpace (digitChar d) = false ∧ isSpaceC (digitChar d) = false := by
  decide

theorem digitVal_digitChar {d : Nat} (h : d < 10) : digitVal (digitChar d) = d := (digit_facts ⟨d, h⟩).1
theorem isDigit_digitChar {d : Nat} (h : d < 10) : isDigit (digitChar d) = true := (digit_facts ⟨d, h⟩).2.1

theorem digitsVal_append_single (ds : Str) (c : Char) : digitsVal (ds ++ [c]) = digitsVal ds * 10 + digitVal c := by
  simp [digitsVal, List.foldl_append]

theorem natDigits_all (n : Nat) : ∀ c ∈ natDigits n, isDigit c = true := by
  induction n using Nat.strongRecOn with
  | _ n ih =>
    rw [natDigits]
    split
    · intro c hc
      simp only [List.mem_singleton] at hc; subst hc
      exact isDigit_digitChar (by assumption)
    · intro c hc
      rw [List.mem_append] at hc
      rcases hc with hc | hc
      · exact ih (n / 10) (by omega) c hc
      · simp only [List.mem_singleton] at hc; subst hc
        exact isDigit_digitChar (Nat.mod_lt _ (by omega))

theorem natDigits_ne_nil (n : Nat) : natDigits n ≠ [] := by
  rw [natDigits]
  split <;> simp

theorem digitsVal_natDigits (n : Nat) : digitsVal (natDigits n) = n := by
  induction n using Nat.strongRecOn with
  | _ n ih =>
    rw [natDigits]
    split
    · rename_i h
      simp [digitsVal, digitVal_digitChar h]
    · rw [digitsVal_append_single, ih (n / 10) (by omega), digitVal_digitChar (Nat.mod_lt _ (by omega))]
      omega

theorem digitsVal_zeros_append (z : Nat) (ds : Str) : digitsVal (List.replicate z '0' ++ ds) = digitsVal ds := by
  unfold digitsVal
  rw [List.foldl_append]
  congr 1
  induction z with
  | zero => rfl
  | succ z ih =>
    rw [List.replicate_succ, List.foldl_cons]
    have : (0 * 10 + digitVal '0') = 0 := by decide
    rw [this]; exact ih

theorem isDigit_facts {c : Char} (h : isDigit c = true) :
    c ≠ '-' ∧ c ≠ '+' ∧ c ≠ '.' ∧ c ≠ 'e' ∧ c ≠ 'E' ∧ isSpace c = false ∧ isSpaceC c = false ∧ c ≠ '~' ∧ c ≠ '#' := by
  simp only [isDigit, Bool.and_eq_true, decide_eq_true_eq] at h
  have h1 : 48 ≤ c.toNat := h.1
  have h2 : c.toNat ≤ 57 := h.2
  refine ⟨?_, ?_, ?_, ?_, ?_, ?_, ?_, ?_, ?_⟩
  any_goals (intro hc; subst hc; revert h1 h2; decide)
  all_goals
    simp only [isSpace, isSpaceC, Bool.or_eq_false_iff, decide_eq_false_iff_not]
    refine ⟨⟨⟨⟨⟨?_, ?_⟩, ?_⟩, ?_⟩, ?_⟩, ?_⟩ <;> try (refine ⟨⟨⟨⟨?_, ?_⟩, ?_⟩, ?_⟩, ?_⟩)
    all_goals (intro hc; subst hc; revert h1 h2; decide)

theorem takeWhile_append_stop {p : Char → Bool} (a : Str) (b : Str) (ha : ∀ c ∈ a, p c = true)
    (hb : b = [] ∨ ∃ x r, b = x :: r ∧ p x = false) :
    (a ++ b).takeWhile p = a ∧ (a ++ b).dropWhile p = b := by
  induction a with
  | nil =>
    rcases hb with hb | ⟨x, r, hb, hx⟩
    · subst hb; simp
    · subst hb; simp [List.takeWhile_cons, List.dropWhile_cons, hx]
  | cons c a ih =>
    have hc := ha c (List.mem_cons_self)
    have := ih (fun x hx => ha x (List.mem_cons_of_mem _ hx))
    simp [List.takeWhile_cons, List.dropWhile_cons, hc, this.1, this.2]

theorem takeSign_digit (c : Char) (r : Str) (h : isDigit c = true) : takeSign (c :: r) = (false, c :: r) := by
  have := isDigit_facts h
  unfold takeSign
  split
  · rename_i heq; injection heq with h1 _; exact absurd h1 this.1
  · rename_i heq; injection heq with h1 _; exact absurd h1 this.2.1
  · rfl

theorem all_isDigit_of (ds : Str) (h : ∀ c ∈ ds, isDigit c = true) : ds.all isDigit = true := by
  simp [List.all_eq_true]; exact h

theorem applySign_natAbs (m : Int) : applySign (decide (m < 0)) m.natAbs = m := by
  unfold applySign
  by_cases h : m < 0 <;> simp [h] <;> omega

/-- `int(str(i))` -/
theorem parseIntStripped_printInt (i : Int) : parseIntStripped (printInt i) = some i := by
  unfold printInt parseIntStripped
  have hne := natDigits_ne_nil i.natAbs
  have hall := all_isDigit_of _ (natDigits_all i.natAbs)
  by_cases h : i < 0
  · simp only [h, if_true, takeSign]
    have : (natDigits i.natAbs).isEmpty = false := by cases hd : natDigits i.natAbs <;> simp_all
    simp only [this, hall, Bool.not_false, Bool.and_self, if_true, digitsVal_natDigits, applySign]
    simp; omega
  · simp only [h, if_false]
    cases hd : natDigits i.natAbs with
    | nil => exact absurd hd hne
    | cons c r =>
      have hc : isDigit c = true := natDigits_all i.natAbs c (by rw [hd]; exact List.mem_cons_self)
      rw [takeSign_digit c r hc]
      simp only [List.isEmpty_cons, Bool.not_false, Bool.true_and]
      rw [← hd, hall]
      simp only [if_true, digitsVal_natDigits, applySign]
      simp; omega

theorem printInt_nospace (i : Int) : ∀ c ∈ printInt i, isSpace c = false ∧ isSpaceC c = false := by
  intro c hc
  unfold printInt at hc
  split at hc
  · rcases List.mem_cons.1 hc with h | h
    · subst h; decide
    · have := isDigit_facts (natDigits_all _ c h); exact ⟨this.2.2.2.2.2.1, this.2.2.2.2.2.2.1⟩
  · have := isDigit_facts (natDigits_all _ c hc); exact ⟨this.2.2.2.2.2.1, this.2.2.2.2.2.2.1⟩

theorem parseExp_printInt (x : Int) : parseExp ('e' :: printInt x) = some x := by
  have h := parseIntStripped_printInt x
  unfold parseIntStripped at h
  simp only [parseExp, decide_true, Bool.true_or, if_true]
  exact h

/-! ### number printing -/

theorem padDigits_all (n w : Nat) : ∀ c ∈ padDigits n w, isDigit c = true := by
  intro c hc
  unfold padDigits at hc
  rcases List.mem_append.1 hc with h | h
  · have := List.eq_of_mem_replicate h; subst this; decide
  · exact natDigits_all n c h

theorem padDigits_length (n w : Nat) : w ≤ (padDigits n w).length := by
  unfold padDigits; simp; omega

theorem digitsVal_padDigits (n w : Nat) : digitsVal (padDigits n w) = n := by
  unfold padDigits; simp only []; rw [digitsVal_zeros_append, digitsVal_natDigits]

/-- decomposition of the printed number -/
theorem printNum_shape (m e : Int) (k : Nat) :
    ∃ (c0 : Char) (ip fp : Str), isDigit c0 = true ∧ (∀ c ∈ ip, isDigit c = true) ∧ (∀ c ∈ fp, isDigit c = true) ∧
      fp.length = k ∧ digitsVal (c0 :: ip ++ fp) = m.natAbs ∧
      printNum m e k = (if m < 0 then ['-'] else []) ++ (c0 :: ip) ++ '.' :: fp ++
        (if e + k = 0 then [] else 'e' :: printInt (e + k)) := by
  have hlen := padDigits_length m.natAbs (k + 1)
  have hall := padDigits_all m.natAbs (k + 1)
  have hval := digitsVal_padDigits m.natAbs (k + 1)
  generalize hds : padDigits m.natAbs (k + 1) = ds at hlen hall hval
  have hsplit : ds.take (ds.length - k) ++ ds.drop (ds.length - k) = ds := List.take_append_drop _ _
  cases htk : ds.take (ds.length - k) with
  | nil =>
    have : (ds.take (ds.length - k)).length = ds.length - k := by simp
    rw [htk] at this; simp at this; omega
  | cons c0 ip =>
    refine ⟨c0, ip, ds.drop (ds.length - k), ?_, ?_, ?_, ?_, ?_, ?_⟩
    · exact hall c0 (List.mem_of_mem_take (by rw [htk]; exact List.mem_cons_self))
    · intro c hc; exact hall c (List.mem_of_mem_take (by rw [htk]; exact List.mem_cons_of_mem _ hc))
    · intro c hc; exact hall c (List.mem_of_mem_drop hc)
    · simp; omega
    · rw [← htk, hsplit, hval]
    · unfold printNum
      simp only []
      rw [hds, htk]

theorem parseFloat_shape (c0 : Char) (ip fp X : Str) (xv : Int) (h0 : isDigit c0 = true)
    (hip : ∀ c ∈ ip, isDigit c = true) (hfp : ∀ c ∈ fp, isDigit c = true)
    (hX : X = [] ∨ ∃ r, X = 'e' :: r) (hexp : parseExp X = some xv) :
    parseFloatStripped (c0 :: (ip ++ '.' :: (fp ++ X))) = some ((digitsVal (c0 :: ip ++ fp) : Int), xv - fp.length) ∧
    parseFloatStripped ('-' :: c0 :: (ip ++ '.' :: (fp ++ X))) = some (-(digitsVal (c0 :: ip ++ fp) : Int), xv - fp.length) := by
  have h1 := takeWhile_append_stop (p := isDigit) (c0 :: ip) ('.' :: (fp ++ X))
    (by intro c hc; rcases List.mem_cons.1 hc with h | h; · subst h; exact h0
        · exact hip c h) (Or.inr ⟨'.', _, rfl, by decide⟩)
  have h2 := takeWhile_append_stop (p := isDigit) fp X hfp
    (by rcases hX with h | ⟨r, h⟩
        · exact Or.inl h
        · exact Or.inr ⟨'e', r, h, by decide⟩)
  simp only [List.cons_append] at h1
  constructor
  · unfold parseFloatStripped
    rw [takeSign_digit c0 _ h0]
    simp only [h1.1, h1.2, h2.1, h2.2, hexp, List.isEmpty_cons, Bool.false_and, applySign]
    simp
  · unfold parseFloatStripped
    simp only [takeSign, h1.1, h1.2, h2.1, h2.2, hexp, List.isEmpty_cons, Bool.false_and, applySign]
    simp

theorem parseFloatStripped_printNum (m e : Int) (k : Nat) : parseFloatStripped (printNum m e k) = some (m, e) := by
  obtain ⟨c0, ip, fp, h0, hip, hfp, hlen, hval, heq⟩ := printNum_shape m e k
  rw [heq]
  have hX : (if e + k = 0 then [] else 'e' :: printInt (e + k)) = [] ∨
      ∃ r, (if e + (k : Int) = 0 then [] else 'e' :: printInt (e + k)) = 'e' :: r := by
    split
    · exact Or.inl rfl
    · exact Or.inr ⟨_, rfl⟩
  have hexp : parseExp (if e + (k : Int) = 0 then [] else 'e' :: printInt (e + k)) = some (e + k) := by
    split
    · rename_i h; rw [h]; rfl
    · exact parseExp_printInt _
  have := parseFloat_shape c0 ip fp _ (e + k) h0 hip hfp hX hexp
  rw [hval, hlen] at this
  by_cases hm : m < 0
  · simp only [hm, if_true, List.cons_append, List.nil_append, List.append_assoc]
    rw [this.2]; congr 1; ext <;> simp <;> omega
  · simp only [hm, if_false, List.cons_append, List.nil_append, List.append_assoc]
    rw [this.1]; congr 1; ext <;> simp <;> omega

theorem parseIntStripped_printNum (m e : Int) (k : Nat) : parseIntStripped (printNum m e k) = none := by
  obtain ⟨c0, ip, fp, h0, hip, hfp, hlen, hval, heq⟩ := printNum_shape m e k
  rw [heq]
  have hdot : ∀ (r : Str), (c0 :: (ip ++ '.' :: r)).all isDigit = false := by
    intro r
    rw [List.all_eq_false]
    exact ⟨'.', by simp, by decide⟩
  unfold parseIntStripped
  by_cases hm : m < 0
  · simp only [hm, if_true, List.cons_append, List.nil_append, List.append_assoc, takeSign, hdot]
    simp
  · simp only [hm, if_false, List.cons_append, List.nil_append, List.append_assoc]
    rw [takeSign_digit c0 _ h0]
    simp only [hdot]
    simp

theorem printNum_nospace (m e : Int) (k : Nat) : ∀ c ∈ printNum m e k, isSpace c = false ∧ isSpaceC c = false := by
  obtain ⟨c0, ip, fp, h0, hip, hfp, hlen, hval, heq⟩ := printNum_shape m e k
  rw [heq]
  intro c hc
  have hd : ∀ c, isDigit c = true → isSpace c = false ∧ isSpaceC c = false :=
    fun c h => ⟨(isDigit_facts h).2.2.2.2.2.1, (isDigit_facts h).2.2.2.2.2.2.1⟩
  simp only [List.mem_append, List.mem_cons] at hc
  rcases hc with ((hc | hc) | hc) | hc
  · split at hc
    · simp at hc; subst hc; decide
    · simp at hc
  · rcases hc with hc | hc
    · subst hc; exact hd _ h0
    · exact hd _ (hip c hc)
  · rcases hc with hc | hc
    · subst hc; decide
    · exact hd _ (hfp c hc)
  · split at hc
    · simp at hc
    · rcases List.mem_cons.1 hc with hc | hc
      · subst hc; decide
      · exact printInt_nospace _ c hc

theorem printNum_head (m e : Int) (k : Nat) :
    ∃ c r, printNum m e k = c :: r ∧ c ≠ '~' ∧ c ≠ '#' ∧ isSpace c = false := by
  obtain ⟨c0, ip, fp, h0, hip, hfp, hlen, hval, heq⟩ := printNum_shape m e k
  rw [heq]
  by_cases hm : m < 0
  · simp only [hm, if_true, List.cons_append, List.nil_append, List.append_assoc]
    exact ⟨'-', _, rfl, by decide, by decide, by decide⟩
  · have := isDigit_facts h0
    simp only [hm, if_false, List.cons_append, List.nil_append, List.append_assoc]
    exact ⟨c0, _, rfl, this.2.2.2.2.2.2.2.1, this.2.2.2.2.2.2.2.2, this.2.2.2.2.2.1⟩

/-- `float(token)` on a printed number -/
theorem parseFloat_printNum (m e : Int) (k : Nat) : parseFloat? (printNum m e k) = some (m, e) := by
  unfold parseFloat? stripC
  rw [stripP_nospace _ _ (fun c hc => (printNum_nospace m e k c hc).2)]
  exact parseFloatStripped_printNum m e k

theorem parseInt_printNum (m e : Int) (k : Nat) : parseInt? (printNum m e k) = none := by
  unfold parseInt? stripC
  rw [stripP_nospace _ _ (fun c hc => (printNum_nospace m e k c hc).2)]
  exact parseIntStripped_printNum m e k

theorem parseInt_printInt (i : Int) : parseInt? (printInt i) = some i := by
  unfold parseInt? stripC
  rw [stripP_nospace _ _ (fun c hc => (printInt_nospace i c hc).2)]
  exact parseIntStripped_printInt i

/-- printing then typing a value gives the value back -/
theorem stringToValue_printValue (v : Value) (k : Nat) (hv : wfValue v = true) :
    stringToValue (printValue v k) = v := by
  cases v with
  | int i => simp only [printValue, stringToValue, parseInt_printInt]
  | float m e => simp only [printValue, stringToValue, parseInt_printNum, parseFloat_printNum]
  | bool b => cases b <;> (simp only [printValue]; decide)
  | text s =>
    simp only [wfValue, Bool.and_eq_true, beq_iff_eq] at hv
    exact hv.2

theorem printValue_nil {v : Value} {k : Nat} (h : printValue v k = []) : v = .text [] := by
  cases v with
  | int i =>
    simp only [printValue, printInt] at h
    split at h
    · cases h
    · exact absurd h (natDigits_ne_nil _)
  | float m e =>
    obtain ⟨c, r, hc, _⟩ := printNum_head m e k
    simp only [printValue] at h; rw [hc] at h; cases h
  | bool b => cases b <;> simp [printValue] at h
  | text s => simp only [printValue] at h; rw [h]

end TD.C09
