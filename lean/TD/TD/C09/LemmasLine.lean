import TD.C09.LemmasNum

/-! Helper lemmas for C09, part 3: one header line, one data line. -/
namespace TD.C09
set_option linter.unusedSimpArgs false

theorem splitFirstDot_append (X Y : Str) (h : ∀ c ∈ X, c ≠ '.') : splitFirstDot (X ++ '.' :: Y) = some (X, Y) := by
  induction X with
  | nil => simp [splitFirstDot]
  | cons a X ih =>
    have ha : a ≠ '.' := h a (List.mem_cons_self)
    have := ih (fun x hx => h x (List.mem_cons_of_mem _ hx))
    simp [splitFirstDot, ha, this]

theorem splitLastColon_none (D : Str) (h : ∀ c ∈ D, c ≠ ':') : splitLastColon D = none := by
  induction D with
  | nil => rfl
  | cons a D ih =>
    have ha : a ≠ ':' := h a (List.mem_cons_self)
    have := ih (fun x hx => h x (List.mem_cons_of_mem _ hx))
    simp [splitLastColon, ha, this]

theorem splitLastColon_append (M D : Str) (h : ∀ c ∈ D, c ≠ ':') : splitLastColon (M ++ ':' :: D) = some (M, D) := by
  induction M with
  | nil => simp [splitLastColon, splitLastColon_none D h]
  | cons a M ih => simp [splitLastColon, ih]

theorem mem_stripRP {p : Char → Bool} {s : Str} {c : Char} (h : c ∈ stripRP p s) : c ∈ s :=
  (stripRP_prefix p s).subset h

theorem wfMnem_facts {s : Str} (h : wfMnem s = true) :
    ∃ c r, s = c :: r ∧ isSpace c = false ∧ c ≠ '~' ∧ c ≠ '#' ∧
      (∀ x ∈ s, isSpace x = false ∧ x ≠ '.' ∧ x ≠ ':') ∧ strip s = s := by
  simp only [wfMnem, Bool.and_eq_true, List.all_eq_true, Bool.not_eq_true', bne_iff_ne, ne_eq, beq_iff_eq] at h
  obtain ⟨⟨⟨hne, hall⟩, hh⟩, ht⟩ := h
  have hv : strip s = s := stripP_nospace isSpace s (fun x hx => (hall x hx).1.1)
  cases s with
  | nil => simp at hne
  | cons c r =>
    refine ⟨c, r, rfl, (hall c (List.mem_cons_self)).1.1, ?_, ?_, ?_, hv⟩
    · intro hc; subst hc; simp at ht
    · intro hc; subst hc; simp at hh
    · intro x hx; exact ⟨(hall x hx).1.1, (hall x hx).1.2, (hall x hx).2⟩

theorem field0_mnem (s : Str) (a : Nat) (c : Char) (r : Str) (hs : s = c :: r)
    (hall : ∀ x ∈ s, isSpace x = false ∧ x ≠ '.' ∧ x ≠ ':') : field0 (s ++ spaces a) = some s := by
  have hc := hall c (by rw [hs]; exact List.mem_cons_self)
  have hok : ∀ x ∈ s, f0ok x = true := by
    intro x hx
    have := hall x hx
    have hsp : x ≠ ' ' := by intro h; subst h; simp [isSpace] at this
    simp [f0ok, hsp, this.2.1, this.2.2]
  have hstop : spaces a = [] ∨ ∃ x r, spaces a = x :: r ∧ f0ok x = false := by
    cases a with
    | zero => exact Or.inl rfl
    | succ n => exact Or.inr ⟨' ', spaces n, rfl, by decide⟩
  have htd := takeWhile_append_stop (p := f0ok) s (spaces a) hok hstop
  have : field0At (s ++ spaces a) = some s := by
    unfold field0At
    simp only [htd.1, htd.2]
    have h1 : s.isEmpty = false := by rw [hs]; rfl
    have h2 : (spaces a).all isSpace = true := by
      rw [List.all_eq_true]; exact spaces_isSpace a
    simp [h1, h2]
  rw [hs] at this ⊢
  simp only [List.cons_append] at this ⊢
  unfold field0
  simp only [hc.1]
  exact this

theorem field1_split (u R : Str) (hu : ∀ x ∈ u, isSpace x = false ∧ x ≠ ':')
    (hR : R = [] ∨ ∃ r, R = ' ' :: r) :
    field1 (u ++ R) = (if u.isEmpty then none else some u, if R.isEmpty then none else some R) := by
  have hok : ∀ x ∈ u, f1ok x = true := by
    intro x hx
    have := hu x hx
    have hsp : x ≠ ' ' := by intro h; subst h; simp [isSpace] at this
    simp [f1ok, hsp, this.2]
  have hstop : R = [] ∨ ∃ x r, R = x :: r ∧ f1ok x = false := by
    rcases hR with h | ⟨r, h⟩
    · exact Or.inl h
    · exact Or.inr ⟨' ', r, h, by decide⟩
  have htd := takeWhile_append_stop (p := f1ok) u R hok hstop
  unfold field1
  simp only [htd.1, htd.2]

/-- the value part of a header line: blanks, the value text, blanks -/
def valuePart (vt : Str) (b c : Nat) : Str := (if vt.isEmpty then spaces b else spaces (b + 1) ++ vt) ++ spaces c

theorem valuePart_head (vt : Str) (b c : Nat) : valuePart vt b c = [] ∨ ∃ r, valuePart vt b c = ' ' :: r := by
  unfold valuePart
  split
  · cases b with
    | zero =>
      cases c with
      | zero => exact Or.inl rfl
      | succ n => exact Or.inr ⟨spaces n, rfl⟩
    | succ n => exact Or.inr ⟨spaces n ++ spaces c, rfl⟩
  · exact Or.inr ⟨spaces b ++ vt ++ spaces c, by simp [spaces, List.replicate_succ]⟩

theorem stringToValue_valuePart (vt : Str) (b c : Nat) : stringToValue (valuePart vt b c) = stringToValue vt := by
  unfold valuePart
  split
  · rename_i h
    have : vt = [] := by cases vt <;> simp_all
    subst this
    have := stringToValue_pad (spaces b) [] (spaces c) (spaces_isSpaceC b) (spaces_isSpaceC c)
    simpa using this
  · exact stringToValue_pad (spaces (b + 1)) vt (spaces c) (spaces_isSpaceC _) (spaces_isSpaceC c)

theorem optStrip_ite (u : Str) : optStrip (if u.isEmpty then none else some u) = strip u := by
  cases u <;> rfl

theorem wfHLine_facts {h : HLine} (hw : wfHLine h = true) :
    wfMnem h.mnem = true ∧ (∀ x ∈ h.unit, isSpace x = false ∧ x ≠ ':') ∧ strip h.unit = h.unit ∧
    wfValue h.value = true ∧ (∀ x ∈ h.desc, x ≠ ':' ∧ x ≠ '\n') ∧ stringToValue h.desc = .text h.desc := by
  simp only [wfHLine, wfUnit, wfDesc, Bool.and_eq_true, List.all_eq_true, Bool.not_eq_true', bne_iff_ne, ne_eq,
    beq_iff_eq] at hw
  obtain ⟨⟨⟨hm, hu⟩, hv⟩, hd, hdt⟩ := hw
  exact ⟨hm, hu, stripP_nospace isSpace _ (fun x hx => (hu x hx).1), hv, hd, hdt⟩

/-- the description part after the last colon, as the reader sees it -/
theorem desc_part (desc : Str) (d e : Nat) (w : Str) (hw : ∀ c ∈ w, isSpace c = true)
    (ht : stringToValue desc = .text desc) :
    stringToValue (stripRP isSpace (spaces d ++ desc ++ spaces e ++ w)) = .text desc := by
  have hfix := (text_fixed ht).2.2
  cases hd : desc with
  | nil =>
    have : stripRP isSpace (spaces d ++ [] ++ spaces e ++ w) = [] := by
      apply stripRP_all
      intro c hc
      simp only [List.append_nil, List.mem_append] at hc
      rcases hc with (hc | hc) | hc
      · exact spaces_isSpace d c hc
      · exact spaces_isSpace e c hc
      · exact hw c hc
    rw [this]; rfl
  | cons x xs =>
    rw [← hd]
    have hr : stripRP isSpace desc = desc := stripRP_of_stripP_eq isSpace desc hfix
    have h1 : stripRP isSpace (spaces d ++ desc ++ spaces e ++ w) = spaces d ++ desc := by
      rw [List.append_assoc (spaces d ++ desc), stripRP_append_ws isSpace _ (spaces e ++ w)
        (by intro c hc; rcases List.mem_append.1 hc with h | h
            · exact spaces_isSpace e c h
            · exact hw c h),
        stripRP_ws_append isSpace _ _ (spaces_isSpace d), hr, hd]
      simp
    rw [h1]
    have := stringToValue_pad (spaces d) desc [] (spaces_isSpaceC d) (by simp)
    simp only [List.append_nil] at this
    rw [this, ht]

/-- **one header line**: whatever the padding, the stripped printed line decomposes into the four fields written -/
theorem header_line (h : HLine) (p : HPad) (hw : wfHLine h = true) :
    ∃ c r, strip (spaces p.lead ++ printHBody h p ++ ['\n']) = c :: r ∧ c ≠ '~' ∧ isSpace c = false ∧
      lineToSectLine (c :: r) = .ok (expectLine h) := by
  obtain ⟨hm, hu, hut, hv, hd, hdt⟩ := wfHLine_facts hw
  obtain ⟨c0, m', hmn, hc0s, hc0t, hc0h, hmall, hmt⟩ := wfMnem_facts hm
  let R := valuePart (printValue h.value p.k) p.b p.c
  let T := spaces p.d ++ h.desc ++ spaces p.e ++ ['\n']
  have hraw : spaces p.lead ++ printHBody h p ++ ['\n'] =
      (spaces p.lead ++ c0 :: (m' ++ spaces p.a ++ '.' :: (h.unit ++ R))) ++ ':' :: T := by
    simp only [printHBody, R, T, valuePart, hmn, List.append_assoc, List.cons_append]
  have hstrip : strip (spaces p.lead ++ printHBody h p ++ ['\n']) =
      c0 :: (m' ++ spaces p.a ++ '.' :: (h.unit ++ R ++ ':' :: stripRP isSpace T)) := by
    rw [hraw]
    unfold strip stripP
    rw [stripRP_append_nonspace isSpace _ ':' T (by decide), List.append_assoc,
      stripLP_ws_append isSpace _ _ (spaces_isSpace p.lead)]
    rw [List.cons_append, stripLP_cons_nonspace isSpace c0 _ hc0s]
    simp only [List.append_assoc, List.cons_append]
  refine ⟨c0, _, hstrip, hc0t, hc0s, ?_⟩
  -- split at the first dot
  have hdot : splitFirstDot (c0 :: (m' ++ spaces p.a ++ '.' :: (h.unit ++ R ++ ':' :: stripRP isSpace T))) =
      some (h.mnem ++ spaces p.a, h.unit ++ R ++ ':' :: stripRP isSpace T) := by
    have := splitFirstDot_append (h.mnem ++ spaces p.a) (h.unit ++ R ++ ':' :: stripRP isSpace T)
      (by intro c hc
          rcases List.mem_append.1 hc with hc | hc
          · exact (hmall c hc).2.1
          · have := List.eq_of_mem_replicate hc; subst this; decide)
    rw [hmn] at this ⊢
    simpa [List.append_assoc] using this
  have hTcolon : ∀ c ∈ stripRP isSpace T, c ≠ ':' := by
    intro c hc
    have hc' := mem_stripRP hc
    simp only [T, List.mem_append, List.mem_singleton] at hc'
    rcases hc' with ((hc' | hc') | hc') | hc'
    · have := List.eq_of_mem_replicate hc'; subst this; decide
    · exact (hd c hc').1
    · have := List.eq_of_mem_replicate hc'; subst this; decide
    · subst hc'; decide
  have hcolon := splitLastColon_append (h.unit ++ R) (stripRP isSpace T) hTcolon
  have hf0 := field0_mnem h.mnem p.a c0 m' hmn hmall
  have hf1 := field1_split h.unit R hu (valuePart_head _ _ _)
  have hdesc : stringToValue (stripRP isSpace T) = .text h.desc :=
    desc_part h.desc p.d p.e ['\n'] (by intro c hc; simp at hc; subst hc; decide) hdt
  unfold lineToSectLine
  rw [hdot]
  simp only [hcolon, hf0, hf1, optToValue_ite, optStrip_ite, hdesc, hmt, hut]
  rw [show stringToValue R = h.value from by
    simp only [R]; rw [stringToValue_valuePart, stringToValue_printValue _ _ hv]]
  rfl

/-! ### data lines -/

theorem splitWsAux_token (t rest cur : Str) (ht : ∀ c ∈ t, isSpace c = false) :
    splitWsAux (t ++ rest) cur = splitWsAux rest (t.reverse ++ cur) := by
  induction t generalizing cur with
  | nil => rfl
  | cons a t ih =>
    have ha := ht a (List.mem_cons_self)
    simp only [List.cons_append, splitWsAux, ha, Bool.false_eq_true, if_false]
    rw [ih _ (fun x hx => ht x (List.mem_cons_of_mem _ hx))]
    simp

theorem splitWsAux_ws (w rest : Str) (hw : ∀ c ∈ w, isSpace c = true) :
    splitWsAux (w ++ rest) [] = splitWsAux rest [] := by
  induction w with
  | nil => rfl
  | cons a w ih =>
    have ha := hw a (List.mem_cons_self)
    simp only [List.cons_append, splitWsAux, ha, if_true, List.isEmpty_nil]
    exact ih (fun x hx => hw x (List.mem_cons_of_mem _ hx))

theorem splitWsAux_flush (a : Char) (w rest cur : Str) (ha : isSpace a = true) (hw : ∀ c ∈ w, isSpace c = true)
    (hcur : cur ≠ []) : splitWsAux (a :: w ++ rest) cur = cur.reverse :: splitWsAux rest [] := by
  have : cur.isEmpty = false := by cases cur <;> simp_all
  simp only [List.cons_append, splitWsAux, ha, if_true, this, Bool.false_eq_true, if_false]
  rw [splitWsAux_ws w rest hw]

theorem blanks_isSpace (l : List Bool) : ∀ c ∈ blanks l, isSpace c = true := by
  intro c hc
  simp only [blanks, List.mem_map] at hc
  obtain ⟨b, _, rfl⟩ := hc
  cases b <;> decide

/-- a token: non-empty, no white space -/
def isTok (t : Str) : Prop := t ≠ [] ∧ ∀ c ∈ t, isSpace c = false

theorem splitWsAux_joinToks (toks : List Str) (seps : List (List Bool)) (a : Char) (w : Str)
    (ha : isSpace a = true) (hw : ∀ c ∈ w, isSpace c = true) (ht : ∀ t ∈ toks, isTok t) :
    splitWsAux (joinToks toks seps ++ a :: w) [] = toks := by
  induction toks generalizing seps with
  | nil =>
    simp only [joinToks, List.nil_append]
    have hall : ∀ c ∈ a :: w, isSpace c = true := by
      intro c hc
      rcases List.mem_cons.1 hc with h | h
      · subst h; exact ha
      · exact hw c h
    have := splitWsAux_ws (a :: w) [] hall
    simpa [splitWsAux] using this
  | cons t ts ih =>
    have htt := ht t (List.mem_cons_self)
    cases ts with
    | nil =>
      simp only [joinToks]
      rw [splitWsAux_token t _ [] htt.2]
      have := splitWsAux_flush a w [] (t.reverse ++ []) ha hw (by simp [htt.1])
      simp only [List.append_nil] at this
      rw [List.append_nil, this]
      simp [splitWsAux]
    | cons t2 ts =>
      simp only [joinToks, List.append_assoc]
      rw [splitWsAux_token t _ [] htt.2]
      have := splitWsAux_flush ' ' (blanks (seps.headD [])) (joinToks (t2 :: ts) seps.tail ++ a :: w)
        (t.reverse ++ []) (by decide) (blanks_isSpace _) (by simp [htt.1])
      simp only [sep, List.cons_append, List.append_nil] at this ⊢
      rw [this, ih seps.tail (fun x hx => ht x (List.mem_cons_of_mem _ hx))]
      simp

/-- **one data line**: whatever the blanks/TABs around and between them, `split()` returns the tokens written -/
theorem data_line_tokens (toks : List Str) (r : RowLay) (ht : ∀ t ∈ toks, isTok t) :
    splitWs (printDataLine toks r) = toks := by
  unfold splitWs printDataLine
  rw [List.append_assoc, List.append_assoc, splitWsAux_ws _ _ (blanks_isSpace r.lead)]
  cases htr : blanks r.trail with
  | nil =>
    exact splitWsAux_joinToks toks r.seps '\n' [] (by decide) (by simp) ht
  | cons a w =>
    have hall := blanks_isSpace r.trail
    rw [htr] at hall
    have := splitWsAux_joinToks toks r.seps a (w ++ ['\n']) (hall a (List.mem_cons_self))
      (by intro c hc; rcases List.mem_append.1 hc with h | h
          · exact hall c (List.mem_cons_of_mem _ h)
          · simp at h; subst h; decide) ht
    simpa using this

theorem printCell_isTok (c : DCell) (k : Nat) (hc : wfCell c = true) : isTok (printCell c k) := by
  cases c with
  | num m e =>
    obtain ⟨c0, r, h, _⟩ := printNum_head m e k
    exact ⟨by simp only [printCell]; rw [h]; simp, fun x hx => (printNum_nospace m e k x hx).1⟩
  | bad s =>
    simp only [wfCell, noSpace, Bool.and_eq_true, List.all_eq_true, Bool.not_eq_true', bne_iff_ne, ne_eq] at hc
    refine ⟨?_, fun x hx => hc.1.1.1.2 x hx⟩
    intro h; simp only [printCell] at h; rw [h] at hc; simp at hc
  | lit s m e =>
    simp only [wfCell, noSpace, Bool.and_eq_true, List.all_eq_true, Bool.not_eq_true', bne_iff_ne, ne_eq] at hc
    refine ⟨?_, fun x hx => hc.1.1.1.2 x hx⟩
    intro h; simp only [printCell] at h; rw [h] at hc; simp at hc

theorem printCell_head (c : DCell) (k : Nat) (hc : wfCell c = true) :
    ∃ x r, printCell c k = x :: r ∧ x ≠ '~' ∧ x ≠ '#' ∧ isSpace x = false := by
  cases c with
  | num m e => exact printNum_head m e k
  | bad s =>
    simp only [wfCell, noSpace, Bool.and_eq_true, List.all_eq_true, Bool.not_eq_true', bne_iff_ne, ne_eq] at hc
    cases s with
    | nil => simp at hc
    | cons x r =>
      refine ⟨x, r, rfl, ?_, ?_, hc.1.1.1.2 x List.mem_cons_self⟩
      · intro h; subst h; simp at hc
      · intro h; subst h; simp at hc
  | lit s m e =>
    simp only [wfCell, noSpace, Bool.and_eq_true, List.all_eq_true, Bool.not_eq_true', bne_iff_ne, ne_eq] at hc
    cases s with
    | nil => simp at hc
    | cons x r =>
      refine ⟨x, r, rfl, ?_, ?_, hc.1.1.1.2 x List.mem_cons_self⟩
      · intro h; subst h; simp at hc
      · intro h; subst h; simp at hc

/-- `_convert_value` on a printed cell: the number written, or null for a token that is not a number -/
theorem convertValue_printCell (c : DCell) (k : Nat) (hc : wfCell c = true) :
    convertValue (printCell c k) = expectCell c := by
  cases c with
  | num m e => simp only [printCell, convertValue, parseFloat_printNum, expectCell]
  | bad s =>
    simp only [wfCell, Bool.and_eq_true, Option.isNone_iff_eq_none] at hc
    simp only [printCell, convertValue, hc.1.1.2, expectCell]
  | lit s m e =>
    simp only [wfCell, Bool.and_eq_true, beq_iff_eq] at hc
    simp only [printCell, convertValue, hc.1.1.2, expectCell]

end TD.C09
