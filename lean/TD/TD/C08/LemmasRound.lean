import TD.C08.LemmasWrite

/-! Assembly of the table round trip. -/
namespace TD.C08

/-- a block as it comes back from the file: the value passed through `rtVal` -/
def rtCb (cb : Cb) : Cb := { cb with val := cb.val.map rtVal }

/-- the bytes `CbEngVal.lisBytes()` gives (empty when it raises) -/
def encRaw (cb : Cb) : Bytes := match encCb cb with | .ok b => b | .error _ => []

/-- a block as `CbEngValWrite` builds it, with 4-byte mnemonic and units and a legal value -/
def CbGood (cb : Cb) : Prop :=
  ∃ t v m un, cb = ⟨t, rcOf v, sizeOf v, 0, m, un, some v⟩ ∧ t < 256 ∧ v.legal ∧ m.length = 4 ∧ un.length = 4

theorem rtVal_empty {v : Val} (h : rtVal v = .bytes []) : v = .bytes [] := by
  cases v <;> simp_all [rtVal]

theorem cbGood_enc (cb : Cb) (h : CbGood cb) :
    encCb cb = .ok (encRaw cb) ∧ EncOk (encRaw cb) (rtCb cb) ∧ 12 ≤ (encRaw cb).length := by
  obtain ⟨t, v, m, un, rfl, ht, hv, hm, hu⟩ := h
  have key : ∀ rest, (v = .bytes [] → rest ≠ []) → ∃ bs, encCb ⟨t, rcOf v, sizeOf v, 0, m, un, some v⟩ = .ok bs ∧
      bs.length ≥ 12 ∧ readCb (bs ++ rest) = .ok (⟨t, rcOf v, sizeOf v, 0, m, un, some (rtVal v)⟩, rest) :=
    fun rest hne => cb_enc_read t v m un rest ht hv hm hu hne
  obtain ⟨bs0, he0, hl0, _⟩ := key [0] (by intro _; simp)
  have hraw : encRaw ⟨t, rcOf v, sizeOf v, 0, m, un, some v⟩ = bs0 := by simp [encRaw, he0]
  refine ⟨by rw [hraw]; exact he0, ⟨?_, ?_⟩, by rw [hraw]; exact hl0⟩
  · rw [hraw]; intro h; rw [h] at hl0; simp at hl0
  · intro rest hne
    obtain ⟨bs, he, _, hr⟩ := key rest (by
      intro hv0; apply hne; simp [rtCb, hv0, rtVal])
    have : bs = bs0 := by rw [he0] at he; cases he; rfl
    rw [hraw, ← this]; exact hr

theorem keptAux_mem {r : List Cb} {rows : List (List Cb)} : ∀ {seen}, r ∈ keptAux seen rows → r ∈ rows := by
  induction rows with
  | nil => intro seen h; simp [keptAux] at h
  | cons a rs ih =>
    intro seen h
    simp only [keptAux] at h
    split at h
    · exact List.mem_cons_of_mem _ (ih h)
    · rcases List.mem_cons.1 h with rfl | h'
      · simp
      · exact List.mem_cons_of_mem _ (ih h')

theorem keptAux_map_on (f : List Cb → List Cb) (rows : List (List Cb)) (hf : ∀ r ∈ rows, rowValue (f r) = rowValue r) :
    ∀ seen, keptAux seen (rows.map f) = (keptAux seen rows).map f := by
  induction rows with
  | nil => intro seen; rfl
  | cons r rs ih =>
    intro seen
    simp only [List.map_cons, keptAux, hf r (by simp)]
    split
    · exact ih (fun x hx => hf x (by simp [hx])) seen
    · simp [ih (fun x hx => hf x (by simp [hx]))]

theorem rowCbsFrom_mnems (cells : List Cell) : ∀ (ms : List Bytes) (c : Nat), cells.length = ms.length →
    (rowCbsFrom c cells ms).map (·.mnem) = ms := by
  induction cells with
  | nil => intro ms c h; cases ms <;> simp_all [rowCbsFrom]
  | cons x xs ih =>
    intro ms c h
    cases ms with
    | nil => simp at h
    | cons m ms => simp [rowCbsFrom, cellCb, ih ms (c + 1) (by simpa using h)]

theorem rowCbsFrom_types (cells : List Cell) : ∀ (ms : List Bytes) (c : Nat), 0 < c →
    ∀ x ∈ rowCbsFrom c cells ms, x.type = 69 := by
  induction cells with
  | nil => intro ms c _ x hx; simp [rowCbsFrom] at hx
  | cons a xs ih =>
    intro ms c hc x hx
    cases ms with
    | nil => simp [rowCbsFrom] at hx
    | cons m ms =>
      have hc0 : ¬ c = 0 := by omega
      simp only [rowCbsFrom, hc0, if_false, List.mem_cons] at hx
      rcases hx with rfl | hx
      · rfl
      · exact ih ms (c + 1) (by omega) x hx

theorem rowOk_rowCbs (r : List Cell) (ms : List Bytes) (hl : r.length = ms.length) (hne : ms ≠ []) :
    RowOk (rowCbsFrom 0 r ms) := by
  cases r with
  | nil => cases ms with
    | nil => exact absurd rfl hne
    | cons m ms => simp at hl
  | cons c cs => cases ms with
    | nil => simp at hl
    | cons m ms =>
      exact ⟨cellCb 0 m c, rowCbsFrom 1 cs ms, by simp [rowCbsFrom], rfl, rowCbsFrom_types cs ms 1 (by omega)⟩

theorem rowCbs_good (cells : List Cell) : ∀ (ms : List Bytes) (c : Nat),
    (∀ x ∈ cells, x.v.legal ∧ (unitsOf x.u).length = 4) → (∀ m ∈ ms, m.length = 4) →
    ∀ cb ∈ rowCbsFrom c cells ms, CbGood cb := by
  induction cells with
  | nil => intro ms c _ _ cb h; simp [rowCbsFrom] at h
  | cons a xs ih =>
    intro ms c hv hm cb h
    cases ms with
    | nil => simp [rowCbsFrom] at h
    | cons m ms =>
      simp only [rowCbsFrom, List.mem_cons] at h
      rcases h with rfl | h
      · refine ⟨_, a.v, m, unitsOf a.u, rfl, ?_, (hv a (by simp)).1, hm m (by simp), (hv a (by simp)).2⟩
        split <;> decide
      · exact ih ms (c + 1) (fun x hx => hv x (by simp [hx])) (fun x hx => hm x (by simp [hx])) cb h

theorem rowOk_map_rt (r : List Cb) (h : RowOk r) : RowOk (r.map rtCb) := by
  obtain ⟨hd, cells, rfl, hh, hc⟩ := h
  refine ⟨rtCb hd, cells.map rtCb, by simp, hh, ?_⟩
  intro c hcm
  obtain ⟨c', hc', rfl⟩ := List.mem_map.1 hcm
  exact hc c' hc'

theorem getByLabel_map_rt (r : List Cb) (lab : Bytes) : getByLabel (r.map rtCb) lab = (getByLabel r lab).map rtCb := by
  induction r with
  | nil => rfl
  | cons a r ih =>
    simp only [getByLabel, List.map_cons, List.find?_cons] at ih ⊢
    have : (rtCb a).mnem = a.mnem := rfl
    rw [this]
    split
    · rfl
    · exact ih

theorem mnemOk_map_rt (r : List Cb) (h : MnemOk r) : MnemOk (r.map rtCb) := by
  rcases h with h | ⟨c, b, hc, hv⟩
  · left; rw [getByLabel_map_rt, h]; rfl
  · right; exact ⟨rtCb c, b, by rw [getByLabel_map_rt, hc]; rfl, by simp [rtCb, hv, rtVal]⟩

theorem length_le_flatMap (items : List (Bytes × Cb)) (h : ∀ p ∈ items, 1 ≤ p.1.length) :
    items.length ≤ (items.flatMap (·.1)).length := by
  induction items with
  | nil => simp
  | cons p r ih =>
    have := h p (by simp)
    have := ih (fun q hq => h q (by simp [hq]))
    simp only [List.flatMap_cons, List.length_append, List.length_cons]
    omega

theorem indexLast_nil (st : TS) (h : st.rows = []) : indexLast st = .ok st := by
  simp [indexLast, h]

end TD.C08
