import TD.C08.LemmasTable

/-! The writer (`LrTableWrite`, `genLisBytes`) in terms of `runRows`, and the encoding of its rows. -/
namespace TD.C08

def unitsOf (u : Option Bytes) : Bytes :=
  match u with
  | none => spaces4
  | some [] => spaces4
  | some b => b

/-- the block `CbEngValWrite(t, cell.v, m, units=cell.u)` builds -/
def cellCb (t : Nat) (m : Bytes) (c : Cell) : Cb := ⟨t, rcOf c.v, sizeOf c.v, 0, m, unitsOf c.u, some c.v⟩

/-- the blocks of one row: type 0 for the first column, 69 for the others -/
def rowCbsFrom : Nat → List Cell → List Bytes → List Cb
  | c, cell :: cells, m :: ms => cellCb (if c = 0 then 0 else 69) m cell :: rowCbsFrom (c + 1) cells ms
  | _, _, _ => []

theorem cbWrite_cell (t : Nat) (m : Bytes) (c : Cell) (ht : t = 73 ∨ t = 0 ∨ t = 69) (hv : c.v.legal) :
    cbWrite t c.v m c.u = .ok (cellCb t m c) := by
  rw [cbWrite_eq t c.v m c.u ht hv]; rfl

theorem writeCells_tail (cells : List Cell) :
    ∀ (ms : List Bytes) (c : Nat) (st : TS) (K : List (List Cb)) (p : List Cb), 0 < c → st.tcb.isSome →
      st.rows = K ++ [p] → (∀ x ∈ cells, x.v.legal) → cells.length = ms.length →
      writeCells c cells ms st =
        .ok { st with rows := K ++ [p ++ rowCbsFrom c cells ms], cols := incCols (rowCbsFrom c cells ms) st.cols } := by
  induction cells with
  | nil => intro ms c st K p _ _ hr _ _; simp [writeCells, rowCbsFrom, incCols, ← hr]
  | cons cell cells ih =>
    intro ms c st K p hc ht hr hv hl
    cases ms with
    | nil => simp at hl
    | cons m ms =>
      have hc0 : ¬ c = 0 := by omega
      have hne : st.tcb.isNone = false := by cases h : st.tcb <;> simp_all
      simp only [writeCells, hc0, if_false, cbWrite_cell 69 m cell (by simp) (hv cell (by simp))]
      have hadd : addDatum (cellCb 69 m cell) st = .ok { st with rows := K ++ [p ++ [cellCb 69 m cell]], cols := incCol m st.cols } := by
        simp [addDatum, cellCb, hne, hr]
      simp only [hadd]
      rw [ih ms (c + 1) _ K (p ++ [cellCb 69 m cell]) (by omega) (by simpa using ht) (by simp)
        (fun x hx => hv x (by simp [hx])) (by simpa using hl)]
      simp [rowCbsFrom, hc0, incCols, cellCb, List.append_assoc]

theorem writeCells_row (row : List Cell) (ms : List Bytes) (st : TS) (ht : st.tcb.isSome)
    (hv : ∀ x ∈ row, x.v.legal) (hl : row.length = ms.length) (hne : ms ≠ []) :
    writeCells 0 row ms st = .ok (pushRow (rowCbsFrom 0 row ms) st) := by
  cases row with
  | nil => cases ms with
    | nil => exact absurd rfl hne
    | cons m ms => simp at hl
  | cons cell cells =>
    cases ms with
    | nil => simp at hl
    | cons m ms =>
      simp only [writeCells, if_true, cbWrite_cell 0 m cell (by simp) (hv cell (by simp))]
      have hs : startNewRow (cellCb 0 m cell) st = .ok { st with rows := st.rows ++ [[cellCb 0 m cell]], cols := incCol m st.cols } := by
        simp [startNewRow, cellCb]
      simp only [hs]
      rw [writeCells_tail cells ms 1 _ st.rows [cellCb 0 m cell] (by omega) (by simpa using ht) rfl
        (fun x hx => hv x (by simp [hx])) (by simpa using hl)]
      simp [pushRow, rowCbsFrom, incCols, cellCb]

theorem writeRows_eq (ms : List Bytes) (hne : ms ≠ []) (rows : List (List Cell)) :
    ∀ st : TS, st.tcb.isSome → (∀ r ∈ rows, r.length = ms.length) → (∀ r ∈ rows, ∀ x ∈ r, x.v.legal) →
      writeRows ms rows st = runRows (rows.map (fun r => rowCbsFrom 0 r ms)) st := by
  induction rows with
  | nil => intro st _ _ _; rfl
  | cons r rs ih =>
    intro st ht hl hv
    have hlr : ¬ r.length ≠ ms.length := by simpa using hl r (by simp)
    simp only [writeRows, hlr, if_false, writeCells_row r ms st ht (hv r (by simp)) (hl r (by simp)) hne,
      List.map_cons, runRows]
    cases hi : indexLast (pushRow (rowCbsFrom 0 r ms) st) with
    | error e => rfl
    | ok st2 =>
      simp only [Except.bind]
      apply ih st2
      · rw [indexLast_tcb hi]; exact ht
      · intro x hx; exact hl x (by simp [hx])
      · intro x hx; exact hv x (by simp [hx])

/-! ### rows in column order -/

theorem find_self (row : List Cb) (hnd : (row.map (·.mnem)).Nodup) :
    ∀ c ∈ row, getByLabel row c.mnem = some c := by
  induction row with
  | nil => intro c hc; simp at hc
  | cons a r ih =>
    intro c hc
    simp only [List.map_cons, List.nodup_cons] at hnd
    simp only [getByLabel, List.find?_cons]
    rcases List.mem_cons.1 hc with rfl | hcr
    · simp
    · have hne : (a.mnem == c.mnem) = false := by
        simp only [beq_eq_false_iff_ne, ne_eq]
        intro e
        exact hnd.1 (by rw [e]; exact List.mem_map_of_mem hcr)
      simp only [hne]
      exact ih hnd.2 c hcr

theorem rowInColOrder_self (cols : List (Bytes × Nat)) (row : List Cb) (hk : colKeys cols = row.map (·.mnem))
    (hnd : (row.map (·.mnem)).Nodup) : rowInColOrder cols row = row := by
  unfold rowInColOrder
  have h1 : cols.filterMap (fun c => getByLabel row c.1) = (colKeys cols).filterMap (fun k => getByLabel row k) := by
    simp [colKeys, List.filterMap_map, Function.comp_def]
  rw [h1, hk, List.filterMap_map]
  have : ∀ l : List Cb, (∀ c ∈ l, c ∈ row) → l.filterMap ((fun k => getByLabel row k) ∘ fun c => c.mnem) = l := by
    intro l
    induction l with
    | nil => intro _; rfl
    | cons a l ih =>
      intro h
      simp only [List.filterMap_cons, Function.comp, find_self row hnd a (h a (by simp))]
      rw [ih (fun c hc => h c (by simp [hc]))]
  exact this row (fun c hc => hc)

/-! ### `concatE` -/

theorem concatE_ok (items : List (Bytes × Cb)) (h : ∀ p ∈ items, encCb p.2 = .ok p.1) :
    concatE (items.map (fun p => encCb p.2)) = .ok (items.flatMap (·.1)) := by
  induction items with
  | nil => rfl
  | cons p r ih =>
    simp only [List.map_cons, concatE, h p (by simp), List.flatMap_cons]
    rw [ih (fun q hq => h q (by simp [hq]))]

end TD.C08
