/-
C08 — model of the LIS table / data-format-specification code in
`TotalDepth/LIS/core/LogiRec.py` (CbEngVal*, TableRow, LrTable*, EntryBlock*, EntryBlockSet, DatumSpecBlock*, LrDFSR*),
`Mnem.py` (Mnem.__init__), `RepCode.py`/`pRepCode.py` (read/write of codes 56, 65, 66, 68, 73, 77, 79; to68/from68) and
`LisGen.ChannelSpec.dsbBytes` (the only DSB writer in the package).

Core Lean only.  Conventions:
* a byte string is `List Nat` (every element < 256 when it came from a file),
* the logical data of one Logical Record is a flat byte list: `File.FileRead.readLrBytes(n)` on it is `readLr`
  (`None` when nothing is left, otherwise up to `n` bytes), `hasLd()` is "not empty" (physical record framing is C05),
* a Python float is a *normalised dyadic* `m·2^e` (`m` odd, or `m = e = 0`); NaN/inf are outside the model,
* Python exceptions are `Except Err`.
-/
namespace TD.C08

abbrev Bytes := List Nat

inductive Err where
  | fileRead      -- File.ExceptionFileRead
  | cbInit        -- ExceptionCbEngValInit
  | tableInit     -- ExceptionLrTableInit
  | tableCompose  -- ExceptionLrTableCompose
  | cbWrite       -- ExceptionCbWrite
  | repCode       -- RepCode.ExceptionRepCode (unknown code / write error)
  | structErr     -- struct.error
  | typeErr       -- TypeError
  | valueErr      -- ValueError
  | assertion     -- AssertionError
  | entryBlock    -- ExceptionEntryBlock
  | lr            -- ExceptionLr (DSB type not 0)
  | dsb           -- ExceptionDatumSpecBlock
  | zeroDiv       -- ZeroDivisionError
  | notModelled   -- rep codes 49/50/70 (floating formats of C07) are not part of this model
  deriving Repr, DecidableEq

/-! ## Dyadic floats and representation code 68 -/

structure Dy where
  m : Int
  e : Int
  deriving Repr, DecidableEq

def normAux : Nat → Int → Int → Dy
  | 0, m, e => ⟨m, e⟩
  | fuel+1, m, e => if m = 0 then ⟨0, 0⟩ else if m % 2 = 0 then normAux fuel (m / 2) (e + 1) else ⟨m, e⟩

/-- canonical form: `m` odd or `(0,0)` -/
def Dy.norm (d : Dy) : Dy := normAux (d.m.natAbs + 1) d.m d.e

/-- exponent returned by `math.frexp` (`v = mant·2^exp`, `0.5 ≤ |mant| < 1`; `frexp(0) = (0,0)`). -/
def frexpE (d : Dy) : Int := if d.m = 0 then 0 else (d.m.natAbs.log2 + 1 : Nat) + d.e

/-- `pRepCode.to68(v)`: the 32-bit word. -/
def to68 (d : Dy) : Nat :=
  let ex := frexpE d
  if ex ≤ -151 then 0x40000000
  else if ex > 127 then (if d.m < 0 then 0xFFC00000 else 0x7FFFFFFF)
  else
    let x : Int := if ex < -128 then -128 else ex
    let sh : Int := d.e + 23 - x
    -- int(mant * 2^23): truncation toward zero of v·2^(23-x)
    let t : Int := if 0 ≤ sh then d.m * 2 ^ sh.toNat else Int.tdiv d.m (2 ^ (-sh).toNat)
    let f : Nat := (t % 8388608).toNat
    if d.m < 0 then (256 + ((127 - x) % 256).toNat) * 8388608 + f
    else ((x - 128) % 256).toNat * 8388608 + f

/-- `pRepCode.from68(word)` (normalised). -/
def from68 (w : Nat) : Dy :=
  let f : Int := (w % 8388608 : Nat)
  let ex : Int := ((w / 8388608) % 256 : Nat)
  if (w / 2147483648) % 2 = 1 then Dy.norm ⟨f - 8388608, 104 - ex⟩ else Dy.norm ⟨f, ex - 151⟩

/-! ## Values -/

inductive Val where
  | bytes (b : Bytes)
  | int (i : Int)
  | float (d : Dy)
  deriving Repr, DecidableEq

/-- Python `==` between two cell values (dict-key equality: `1 == 1.0`). Floats are normalised. -/
def Val.pyEq : Val → Val → Bool
  | .bytes a, .bytes b => a == b
  | .int a, .int b => a == b
  | .float a, .float b => a == b
  | .int a, .float d => decide (0 ≤ d.e) && a == d.m * 2 ^ d.e.toNat
  | .float d, .int a => decide (0 ≤ d.e) && a == d.m * 2 ^ d.e.toNat
  | _, _ => false

def keyEq : Option Val → Option Val → Bool
  | none, none => true
  | some a, some b => a.pyEq b
  | _, _ => false

/-- what a value becomes by being written and read back: identity except for the code-68 rounding of floats -/
def rtVal : Val → Val
  | .float d => .float (from68 (to68 d))
  | v => v

/-! ## Byte helpers -/

def beNat (b : Bytes) : Nat := b.foldl (fun acc x => acc * 256 + x) 0

/-- `n`-byte big-endian -/
def toBE : Nat → Nat → Bytes
  | 0, _ => []
  | n+1, v => toBE n (v / 256) ++ [v % 256]

def sInt (bits : Nat) (u : Nat) : Int := if 2 ^ (bits - 1) ≤ u then (u : Int) - 2 ^ bits else u

/-- `struct` `Ns` packing: truncate or NUL-pad to `n` bytes -/
def padTo (n : Nat) (b : Bytes) : Bytes := b.take n ++ List.replicate (n - b.length) 0

def spaces4 : Bytes := [32, 32, 32, 32]
def mnemMNEM : Bytes := [77, 78, 69, 77]
def mnemTYPE : Bytes := [84, 89, 80, 69]

/-- `FileRead.readLrBytes(n)`: `None` at end of logical data, else up to `n` bytes. -/
def readLr (n : Nat) (s : Bytes) : Option Bytes × Bytes :=
  match s with
  | [] => (none, [])
  | _ => (some (s.take n), s.drop n)

/-- `FileRead.unpack(struct of n bytes)` -/
def unpackN (n : Nat) (s : Bytes) : Except Err (Bytes × Bytes) :=
  match readLr n s with
  | (some b, r) => if b.length = n then .ok (b, r) else .error .fileRead
  | (none, _) => .error .fileRead

/-- `RepCode.readRepCode(rc, file)` for the fixed-size codes. -/
def readNum (rc : Nat) (s : Bytes) : Except Err (Val × Bytes) :=
  if rc = 66 ∨ rc = 77 then
    match unpackN 1 s with | .ok (b, r) => .ok (.int (beNat b), r) | .error e => .error e
  else if rc = 56 then
    match unpackN 1 s with | .ok (b, r) => .ok (.int (sInt 8 (beNat b)), r) | .error e => .error e
  else if rc = 79 then
    match unpackN 2 s with | .ok (b, r) => .ok (.int (sInt 16 (beNat b)), r) | .error e => .error e
  else if rc = 73 then
    match unpackN 4 s with | .ok (b, r) => .ok (.int (sInt 32 (beNat b)), r) | .error e => .error e
  else if rc = 68 then
    match unpackN 4 s with | .ok (b, r) => .ok (.float (from68 (beNat b)), r) | .error e => .error e
  else if rc = 49 ∨ rc = 50 ∨ rc = 70 then .error .notModelled
  else .error .repCode

/-- `RepCode.writeBytes(v, rc)` -/
def encVal (rc : Nat) (v : Val) : Except Err Bytes :=
  if rc = 65 then (match v with | .bytes b => .ok b | _ => .error .typeErr)
  else if rc = 66 then
    (match v with
     | .int i => if 0 ≤ i ∧ i < 256 then .ok [i.toNat] else .error .valueErr
     | _ => .error .typeErr)
  else if rc = 68 then
    (match v with
     | .float d => .ok (toBE 4 (to68 d))
     | .int i => .ok (toBE 4 (to68 (Dy.norm ⟨i, 0⟩)))
     | _ => .error .typeErr)
  else if rc = 73 then
    (match v with
     | .int i => if -2147483648 ≤ i ∧ i ≤ 2147483647 then .ok (toBE 4 (i % 4294967296).toNat) else .error .repCode
     | _ => .error .repCode)
  else if rc = 79 then
    (match v with
     | .int i => if -32768 ≤ i ∧ i ≤ 32767 then .ok (toBE 2 (i % 65536).toNat) else .error .repCode
     | _ => .error .repCode)
  else .error .repCode

/-! ## Component blocks -/

structure Cb where
  type : Nat
  rc : Nat
  size : Nat
  cat : Nat
  mnem : Bytes
  units : Bytes
  val : Option Val
  deriving Repr, DecidableEq

/-- `CbEngValRead.__init__` -/
def readCb (s : Bytes) : Except Err (Cb × Bytes) :=
  match unpackN 12 s with
  | .error e => .error e
  | .ok (p, r) =>
    let t := p.getD 0 0; let rc := p.getD 1 0; let sz := p.getD 2 0; let cat := p.getD 3 0
    let mn := (p.drop 4).take 4; let un := (p.drop 8).take 4
    if rc = 65 then
      match readLr sz r with
      | (v, r') => .ok (⟨t, rc, sz, cat, mn, un, v.map Val.bytes⟩, r')
    else
      match readNum rc r with
      | .ok (v, r') => .ok (⟨t, rc, sz, cat, mn, un, some v⟩, r')
      | .error .repCode => .error .cbInit
      | .error e => .error e

/-- `CbEngValWrite.__init__(t, v, m, units=u)`: the representation code is chosen from the Python type of `v`. -/
def cbWrite (t : Nat) (v : Val) (m : Bytes) (u : Option Bytes) : Except Err Cb :=
  if t ≠ 73 ∧ t ≠ 0 ∧ t ≠ 69 then .error .cbWrite else
  let units : Bytes := match u with | none => spaces4 | some [] => spaces4 | some b => b
  match v with
  | .bytes b => .ok ⟨t, 65, b.length, 0, m, units, some v⟩
  | .float _ => .ok ⟨t, 68, 4, 0, m, units, some v⟩
  | .int i =>
    if 0 ≤ i ∧ i ≤ 255 then .ok ⟨t, 66, 1, 0, m, units, some v⟩
    else if -32768 ≤ i ∧ i ≤ 32767 then .ok ⟨t, 79, 2, 0, m, units, some v⟩
    else if -2147483648 ≤ i ∧ i ≤ 2147483647 then .ok ⟨t, 73, 4, 0, m, units, some v⟩
    else .error .cbWrite

/-- `CbEngVal.lisBytes()` -/
def encCb (cb : Cb) : Except Err Bytes :=
  if 256 ≤ cb.type ∨ 256 ≤ cb.rc ∨ 256 ≤ cb.size ∨ 256 ≤ cb.cat then .error .structErr else
  let pre := [cb.type, cb.rc, cb.size, cb.cat] ++ padTo 4 cb.mnem ++ padTo 4 cb.units
  match cb.val with
  | none => .ok pre
  | some v => match encVal cb.rc v with
    | .ok b => .ok (pre ++ b)
    | .error e => .error e

/-! ## Mnem -/

def isMnemPad (c : Nat) : Bool := c = 0 || c = 32 || c = 9 || c = 10 || c = 13 || c = 11 || c = 12

/-- `Mnem.Mnem(m).m` with the default `len_mnem = 4`: first 4 bytes, trailing NUL/whitespace replaced by NUL,
padded to 4. -/
def mnemNorm (b : Bytes) : Bytes :=
  let t := b.take 4
  let core := (t.reverse.dropWhile isMnemPad).reverse
  core ++ List.replicate (4 - core.length) 0

/-! ## Tables -/

structure TS where
  tcb : Option Cb
  rows : List (List Cb)
  rowIdx : List (Option Val × Nat)     -- `_tableRowIndex` (insertion ordered)
  mnemIdx : List (Bytes × Nat)         -- `_mnemRowIndex` keyed by `Mnem(...).m`
  cols : List (Bytes × Nat)            -- `_colMnemS` (ordered, with reference counts)
  deriving Repr, DecidableEq

def TS.empty : TS := ⟨none, [], [], [], []⟩

def assocSet (k : Bytes) (v : Nat) : List (Bytes × Nat) → List (Bytes × Nat)
  | [] => [(k, v)]
  | (k', v') :: r => if k' = k then (k', v) :: r else (k', v') :: assocSet k v r

/-- `_incColMnem` -/
def incCol (k : Bytes) : List (Bytes × Nat) → List (Bytes × Nat)
  | [] => [(k, 1)]
  | (k', n) :: r => if k' = k then (k', n + 1) :: r else (k', n) :: incCol k r

def rowValue (row : List Cb) : Option Val :=
  match row with
  | [] => none
  | c :: _ => c.val

/-- `TableRow.__getitem__(bytes)`: the first cell with that mnemonic -/
def getByLabel (row : List Cb) (lab : Bytes) : Option Cb := row.find? (fun c => c.mnem == lab)

def keyIn (k : Option Val) (idx : List (Option Val × Nat)) : Bool := idx.any (fun p => keyEq p.1 k)

/-- `LrTable._indexLastRowOrDiscard` -/
def indexLast (st : TS) : Except Err TS :=
  match st.rows.getLast? with
  | none => .ok st
  | some last =>
    if keyIn (rowValue last) st.rowIdx then .ok { st with rows := st.rows.dropLast }
    else
      let idx := st.rows.length - 1
      let st1 : TS := { st with rowIdx := st.rowIdx ++ [(rowValue last, idx)] }
      match getByLabel last mnemMNEM with
      | none => .ok st1
      | some c =>
        match c.val with
        | some (.bytes b) => .ok { st1 with mnemIdx := assocSet (mnemNorm b) idx st1.mnemIdx }
        | _ => .error .typeErr      -- Mnem.Mnem(None | int | float): len() raises TypeError, not caught

/-- `LrTable.startNewRow` -/
def startNewRow (cb : Cb) (st : TS) : Except Err TS :=
  if cb.type ≠ 0 then .error .tableCompose
  else .ok { st with rows := st.rows ++ [[cb]], cols := incCol cb.mnem st.cols }

/-- `LrTable.addDatumBlock` -/
def addDatum (cb : Cb) (st : TS) : Except Err TS :=
  if cb.type ≠ 69 then .error .tableCompose
  else if st.tcb.isNone then .error .tableCompose
  else match st.rows.getLast? with
    | none => .error .tableCompose
    | some last => .ok { st with rows := st.rows.dropLast ++ [last ++ [cb]], cols := incCol cb.mnem st.cols }

/-- the body of the `else:` branch in `LrTableRead.__init__`'s loop -/
def tableStep (cb : Cb) (st : TS) : Except Err TS :=
  if cb.type = 0 then
    match indexLast st with
    | .error e => .error e
    | .ok st' => startNewRow cb st'
  else if cb.type = 69 then
    match addDatum cb st with
    | .error .tableCompose => .error .tableInit
    | r => r
  else .error .tableInit

/-- the `while theFile.hasLd():` loop of `LrTableRead.__init__` (fuel ≥ number of blocks) -/
def tableLoop : Nat → Bytes → TS → Except Err TS
  | 0, _, st => .ok st
  | fuel+1, s, st =>
    match s with
    | [] => .ok st
    | _ =>
      match readCb s with
      | .error .cbInit => .ok st       -- logged, `break`
      | .error .fileRead => .ok st     -- logged, `break`
      | .error e => .error e
      | .ok (cb, r) =>
        match tableStep cb st with
        | .error e => .error e
        | .ok st' => tableLoop fuel r st'

def isTableLrType (t : Nat) : Bool := t = 32 || t = 34 || t = 39

/-- `LrTableRead(theFile)` on the bytes of one Logical Record (header included). -/
def tableRead (lr : Bytes) : Except Err TS :=
  match unpackN 2 lr with
  | .error e => .error e
  | .ok (h, s) =>
    if !isTableLrType (h.getD 0 0) then .error .assertion else
    match readCb s with
    | .error e => .error e
    | .ok (cb, r) =>
      let st0 : Except Err TS :=
        if cb.type = 73 then .ok { TS.empty with tcb := some cb }
        else if cb.type = 0 then startNewRow cb TS.empty
        else .error .tableInit
      match st0 with
      | .error e => .error e
      | .ok st =>
        match tableLoop r.length r st with
        | .error e => .error e
        | .ok st' => indexLast st'

/-! ### Writing a table -/

structure Cell where
  v : Val
  u : Option Bytes          -- `None`: a bare value; `some u`: the `(value, units)` pair form
  deriving Repr, DecidableEq

structure TableSpec where
  lrType : Nat
  name : Val
  mnems : List Bytes
  rows : List (List Cell)
  deriving Repr

/-- the `for c, val in enumerate(row)` loop -/
def writeCells : Nat → List Cell → List Bytes → TS → Except Err TS
  | _, [], _, st => .ok st
  | _, _ :: _, [], st => .ok st        -- unreachable: lengths were checked
  | c, cell :: cells, m :: ms, st =>
    match cbWrite (if c = 0 then 0 else 69) cell.v m cell.u with
    | .error e => .error e
    | .ok cb =>
      match (if c = 0 then startNewRow cb st else addDatum cb st) with
      | .error e => .error e
      | .ok st' => writeCells (c + 1) cells ms st'

def writeRows (mnems : List Bytes) : List (List Cell) → TS → Except Err TS
  | [], st => .ok st
  | row :: rows, st =>
    if row.length ≠ mnems.length then .error .tableCompose else
    match writeCells 0 row mnems st with
    | .error e => .error e
    | .ok st1 =>
      match indexLast st1 with
      | .error e => .error e
      | .ok st2 => writeRows mnems rows st2

/-- `LrTableWrite(theType, theName, theMnemS, theTable)` -/
def tableWrite (t : TableSpec) : Except Err TS :=
  if !isTableLrType t.lrType then .error .tableInit else
  match cbWrite 73 t.name mnemTYPE (some spaces4) with
  | .error e => .error e
  | .ok tcb => writeRows t.mnems t.rows { TS.empty with tcb := some tcb }

def concatE : List (Except Err Bytes) → Except Err Bytes
  | [] => .ok []
  | .error e :: _ => .error e
  | .ok b :: r => match concatE r with | .ok b' => .ok (b ++ b') | .error e => .error e

/-- cells of one row in column order (`genRowValuesInColOrder`, `None`s dropped) -/
def rowInColOrder (cols : List (Bytes × Nat)) (row : List Cb) : List Cb :=
  cols.filterMap (fun c => getByLabel row c.1)

/-- `b''.join(LrTable.genLisBytes())` -/
def genLisBytes (st : TS) : Except Err Bytes :=
  concatE ((match st.tcb with | none => [] | some c => [encCb c]) ++
    (st.rows.flatMap (fun row => (rowInColOrder st.cols row).map encCb)))

/-- the Logical Record: header `[type, 0]` + blocks -/
def tableLrBytes (lrType : Nat) (st : TS) : Except Err Bytes :=
  match genLisBytes st with
  | .ok b => .ok ([lrType, 0] ++ b)
  | .error e => .error e

/-! ## Entry blocks -/

structure EB where
  type : Nat
  size : Nat
  rc : Nat
  val : Option Val
  deriving Repr, DecidableEq

def in1IN : Bytes := [46, 49, 73, 78]      -- b'.1IN'

/-- -999.25 = -3997·2⁻² -/
def absentDefault : Dy := ⟨-3997, -2⟩

/-- `EntryBlockSet.__init__` defaults (before `_setLisSizeEven`) -/
def ebsInit : List EB :=
  [⟨0, 0, 66, none⟩, ⟨1, 1, 66, some (.int 0)⟩, ⟨2, 1, 66, some (.int 0)⟩, ⟨3, 1, 66, some (.int 0)⟩,
   ⟨4, 1, 66, some (.int 1)⟩, ⟨5, 1, 66, some (.int 1)⟩, ⟨6, 0, 66, none⟩, ⟨7, 4, 65, some (.bytes in1IN)⟩,
   ⟨8, 0, 66, none⟩, ⟨9, 0, 65, none⟩, ⟨10, 0, 66, none⟩, ⟨11, 0, 66, none⟩,
   ⟨12, 4, 68, some (.float absentDefault)⟩, ⟨13, 1, 66, some (.int 0)⟩, ⟨14, 4, 65, some (.bytes in1IN)⟩,
   ⟨15, 1, 66, some (.int 0)⟩, ⟨16, 1, 66, some (.int 0)⟩]

/-- `lisSize()` -/
def ebsLisSize (E : List EB) : Nat := ((E.filter (fun e => e.type ≠ 10)).map (·.size)).sum

def ebOk (i : Nat) (e : EB) : Bool :=
  e.type == i && !(e.size == 0 && e.val.isSome) && !(e.val.isNone && e.size != 0)

def integrityFrom : Nat → List EB → Bool
  | _, [] => true
  | i, e :: r => ebOk i e && integrityFrom (i + 1) r

/-- `_checkIntegrity() == 0` -/
def integrity (E : List EB) : Bool := E.length == 17 && integrityFrom 0 E

/-- `_setLisSizeEven` -/
def setEven (E : List EB) : Except Err (List EB) :=
  if !integrity E then .error .assertion else
  let E0 := E.set 0 ⟨0, 0, 66, none⟩
  if ebsLisSize E0 % 2 = 1 then .ok (E.set 0 ⟨0, 1, 66, some (.int 1)⟩) else .ok E0

/-- `setEntryBlock` -/
def setEB (eb : EB) (E : List EB) : Except Err (List EB) :=
  if !integrity E then .error .assertion
  else if 17 ≤ eb.type then .error .entryBlock
  else if eb.type = 10 then .error .entryBlock
  else match setEven (E.set eb.type eb) with
    | .error e => .error e
    | .ok E' => if !integrity E' then .error .assertion else .ok E'

/-- `EntryBlockSet()` -/
def ebsDefault : Except Err (List EB) := setEven ebsInit

/-- `EntryBlock.lisBytes()` -/
def encEB (e : EB) : Except Err Bytes :=
  if 256 ≤ e.type ∨ 256 ≤ e.size ∨ 256 ≤ e.rc then .error .structErr else
  match e.val with
  | none => .ok [e.type, e.size, e.rc]
  | some v => match encVal e.rc v with
    | .ok b => .ok ([e.type, e.size, e.rc] ++ b)
    | .error er => .error er

/-- `EntryBlockSet.lisBytes()` -/
def ebsBytes (E : List EB) : Except Err Bytes :=
  match setEven E with
  | .error e => .error e
  | .ok E' =>
    concatE (((E'.filter (fun e => e.type ≠ 10 ∧ e.type ≠ 0)).map encEB) ++ [encEB (E'.getD 0 ⟨0, 0, 66, none⟩)])

/-- `EntryBlockRead(theFile)` -/
def readEB (s : Bytes) : Except Err (EB × Bytes) :=
  match unpackN 3 s with
  | .error e => .error e
  | .ok (p, r) =>
    let t := p.getD 0 0; let sz := p.getD 1 0; let rc := p.getD 2 0
    if sz = 0 then .ok (⟨t, 0, rc, none⟩, r)
    else if rc = 65 then
      match readLr sz r with
      | (v, r') => .ok (⟨t, sz, rc, v.map Val.bytes⟩, r')
    else match readNum rc r with
      | .ok (v, r') => .ok (⟨t, sz, rc, some v⟩, r')
      | .error e => .error e

/-- the loop of `EntryBlockSet.readFromFile` -/
def ebsLoop : Nat → Bytes → List EB → Except Err (List EB × Bytes)
  | 0, s, E => .ok (E, s)
  | fuel+1, s, E =>
    match s with
    | [] => .ok (E, [])
    | _ =>
      match readEB s with
      | .error e => .error e
      | .ok (eb, r) =>
        let r1 : Except Err (List EB) :=
          match setEB eb E with
          | .error .entryBlock => .ok E          -- logged and ignored
          | x => x
        match r1 with
        | .error e => .error e
        | .ok E' => if eb.type = 0 then .ok (E', r) else ebsLoop fuel r E'

/-- `EntryBlockSet.readFromFile` -/
def ebsRead (s : Bytes) (E : List EB) : Except Err (List EB × Bytes) :=
  match ebsLoop s.length s E with
  | .error e => .error e
  | .ok (E', r) => match setEven E' with
    | .error e => .error e
    | .ok E'' => .ok (E'', r)

/-! ## Datum specification blocks -/

structure ChanSpec where
  name : Bytes
  servId : Bytes
  servOrd : Bytes
  units : Bytes
  api : Int
  fileNo : Int
  chLen : Int
  sa : Int
  rc : Int
  deriving Repr, DecidableEq

structure Dsb where
  mnem : Bytes
  servId : Bytes
  servOrd : Bytes
  units : Bytes
  apiLog : Nat
  apiCurve : Nat
  apiClass : Nat
  apiMod : Nat
  fileNo : Int
  size : Int
  samples : Nat
  rc : Nat
  bursts : Nat
  subCh : Nat
  deriving Repr, DecidableEq

/-- `LisGen.ChannelSpec.dsbBytes` = `STRUCT_DSB.pack(...)`, format `>4s6s8s4sI2h3x2B5x` -/
def dsbBytes (c : ChanSpec) : Except Err Bytes :=
  if c.api < 0 ∨ 4294967296 ≤ c.api ∨ c.fileNo < -32768 ∨ 32767 < c.fileNo ∨ c.chLen < -32768 ∨ 32767 < c.chLen
     ∨ c.sa < 0 ∨ 256 ≤ c.sa ∨ c.rc < 0 ∨ 256 ≤ c.rc then .error .structErr
  else .ok (padTo 4 c.name ++ padTo 6 c.servId ++ padTo 8 c.servOrd ++ padTo 4 c.units ++ toBE 4 c.api.toNat
            ++ toBE 2 (c.fileNo % 65536).toNat ++ toBE 2 (c.chLen % 65536).toNat ++ [0, 0, 0]
            ++ [c.sa.toNat, c.rc.toNat] ++ [0, 0, 0, 0, 0])

/-- `RepCode.lisSize(r)` (`RC_SIZE_MAP`) -/
def rcLisSize (r : Nat) : Option Nat :=
  if r = 49 then some 2 else if r = 50 then some 4 else if r = 56 then some 1 else if r = 65 then some 0
  else if r = 66 then some 1 else if r = 68 then some 4 else if r = 70 then some 4 else if r = 73 then some 4
  else if r = 77 then some 1 else if r = 79 then some 2 else if r = 130 then some 80 else if r = 234 then some 90
  else none

/-- `DatumSpecBlock._setBurstsSubChannels`: (bursts, subChannels) -/
def burstsSub (rc : Nat) (size : Int) (samples : Nat) : Except Err (Nat × Nat) :=
  if rc = 130 then .ok (1, 5)
  else if rc = 234 then .ok (1, 15)
  else if 0 < size then
    match rcLisSize rc with
    | none => .error .repCode
    | some w =>
      if w * samples = 0 then .error .zeroDiv
      else if size.toNat % (w * samples) ≠ 0 then .error .dsb
      else .ok (size.toNat / (w * samples), 1)
  else .ok (0, 0)

/-- `DatumSpecBlockRead(theF)` -/
def readDsb (s : Bytes) : Except Err (Dsb × Bytes) :=
  match unpackN 40 s with
  | .error e => .error e
  | .ok (p, r) =>
    let api := beNat ((p.drop 22).take 4)
    let size := sInt 16 (beNat ((p.drop 28).take 2))
    let samples := p.getD 33 0
    let rc := p.getD 34 0
    match burstsSub rc size samples with
    | .error e => .error e
    | .ok (b, sc) =>
      .ok (⟨p.take 4, (p.drop 4).take 6, (p.drop 10).take 8, (p.drop 18).take 4,
            api / 1000000, (api % 1000000) / 1000, (api % 1000) / 10, api % 10,
            sInt 16 (beNat ((p.drop 26).take 2)), size, samples, rc, b, sc⟩, r)

/-- the `while theFile.hasLd():` loop of `LrDFSRRead.__init__` -/
def dsbLoop : Nat → Bytes → List Dsb → Except Err (List Dsb)
  | 0, _, acc => .ok acc
  | fuel+1, s, acc =>
    match s with
    | [] => .ok acc
    | _ =>
      match readDsb s with
      | .error e => .error e
      | .ok (d, r) => dsbLoop fuel r (if d.size = 0 then acc else acc ++ [d])

/-- `LrDFSRRead(theFile)` on the bytes of one Logical Record (header included). -/
def dfsrRead (lr : Bytes) : Except Err (List EB × List Dsb) :=
  match unpackN 2 lr with
  | .error e => .error e
  | .ok (h, s) =>
    if h.getD 0 0 ≠ 64 then .error .assertion else
    match ebsDefault with
    | .error e => .error e
    | .ok E0 =>
      match ebsRead s E0 with
      | .error e => .error e
      | .ok (E, r) =>
        if !keyEq ((E.getD 2 ⟨2, 0, 66, none⟩).val) (some (.int 0)) then
          -- `raise ExceptionLr('... {:d}'.format(self.ebs.dsbType))`: the format itself fails for non-integers
          (match (E.getD 2 ⟨2, 0, 66, none⟩).val with
           | some (.int _) => .error .lr
           | some (.float _) => .error .valueErr
           | _ => .error .typeErr)
        else
        match dsbLoop r.length r [] with
        | .error e => .error e
        | .ok ds => .ok (E, ds)

/-- the DFSR Logical Record as `LisGen.LogPassGen.lrBytesDFSR` assembles it -/
def dfsrLrBytes (E : List EB) (chans : List ChanSpec) : Except Err Bytes :=
  match ebsBytes E with
  | .error e => .error e
  | .ok eb => match concatE (chans.map dsbBytes) with
    | .error e => .error e
    | .ok cb => .ok ([64, 0] ++ eb ++ cb)

end TD.C08
