import TD.C08.Model

/-! Helper lemmas for C08: byte-level round trips of single values and component blocks. -/
namespace TD.C08

/-! ### stream primitives -/

theorem readLr_append (a r : Bytes) (h : a ++ r ≠ []) : readLr a.length (a ++ r) = (some a, r) := by
  unfold readLr
  split
  · rename_i heq; exact absurd heq h
  · simp

theorem unpackN_append (a r : Bytes) (h : a ≠ []) : unpackN a.length (a ++ r) = .ok (a, r) := by
  unfold unpackN
  rw [readLr_append a r (by simp [h])]
  simp

theorem padTo_length (n : Nat) (b : Bytes) : (padTo n b).length = n := by
  unfold padTo; simp; omega

theorem padTo_eq_self (n : Nat) (b : Bytes) (h : b.length = n) : padTo n b = b := by
  unfold padTo; simp [h, List.take_of_length_le]

/-! ### big-endian integers -/

theorem beNat_toBE1 (v : Nat) (h : v < 256) : beNat (toBE 1 v) = v := by
  simp [toBE, beNat]; omega

theorem beNat_toBE2 (v : Nat) (h : v < 65536) : beNat (toBE 2 v) = v := by
  simp [toBE, beNat]; omega

theorem beNat_toBE4 (v : Nat) (h : v < 4294967296) : beNat (toBE 4 v) = v := by
  simp [toBE, beNat]; omega

theorem toBE_length (n v : Nat) : (toBE n v).length = n := by
  induction n generalizing v with
  | zero => rfl
  | succ k ih => simp [toBE, ih]

theorem sInt16_enc (i : Int) (h1 : -32768 ≤ i) (h2 : i ≤ 32767) : sInt 16 (i % 65536).toNat = i := by
  unfold sInt
  have hm : (0:Int) ≤ i % 65536 := Int.emod_nonneg _ (by decide)
  have hlt : i % 65536 < 65536 := Int.emod_lt_of_pos _ (by decide)
  simp only [Nat.reducePow, Nat.reduceSub]
  split <;> omega

theorem sInt32_enc (i : Int) (h1 : -2147483648 ≤ i) (h2 : i ≤ 2147483647) : sInt 32 (i % 4294967296).toNat = i := by
  unfold sInt
  have hm : (0:Int) ≤ i % 4294967296 := Int.emod_nonneg _ (by decide)
  have hlt : i % 4294967296 < 4294967296 := Int.emod_lt_of_pos _ (by decide)
  simp only [Nat.reducePow, Nat.reduceSub]
  split <;> omega

theorem to68_lt (d : Dy) : to68 d < 4294967296 := by
  unfold to68
  simp only
  split
  · decide
  · split
    · split <;> decide
    · have hf : ∀ t : Int, (t % 8388608).toNat < 8388608 := by
        intro t
        have := Int.emod_lt_of_pos t (show (0:Int) < 8388608 by decide)
        have := Int.emod_nonneg t (show (8388608:Int) ≠ 0 by decide)
        omega
      have he : ∀ t : Int, (t % 256).toNat < 256 := by
        intro t
        have := Int.emod_lt_of_pos t (show (0:Int) < 256 by decide)
        have := Int.emod_nonneg t (show (256:Int) ≠ 0 by decide)
        omega
      split
      · have := hf (if 0 ≤ d.e + 23 - (if frexpE d < -128 then -128 else frexpE d) then d.m * 2 ^ (d.e + 23 - (if frexpE d < -128 then -128 else frexpE d)).toNat else Int.tdiv d.m (2 ^ (-(d.e + 23 - (if frexpE d < -128 then -128 else frexpE d))).toNat))
        have := he (127 - (if frexpE d < -128 then -128 else frexpE d))
        omega
      · have := hf (if 0 ≤ d.e + 23 - (if frexpE d < -128 then -128 else frexpE d) then d.m * 2 ^ (d.e + 23 - (if frexpE d < -128 then -128 else frexpE d)).toNat else Int.tdiv d.m (2 ^ (-(d.e + 23 - (if frexpE d < -128 then -128 else frexpE d))).toNat))
        have := he ((if frexpE d < -128 then -128 else frexpE d) - 128)
        omega

/-! ### values by representation code -/

/-- the representation code `CbEngValWrite` chooses for a value -/
def rcOf : Val → Nat
  | .bytes _ => 65
  | .float _ => 68
  | .int i => if 0 ≤ i ∧ i ≤ 255 then 66 else if -32768 ≤ i ∧ i ≤ 32767 then 79 else 73

/-- values that can be put in a cell: byte strings of at most 255 bytes, 32-bit integers, floats -/
def Val.legal : Val → Prop
  | .bytes b => b.length ≤ 255
  | .int i => -2147483648 ≤ i ∧ i ≤ 2147483647
  | .float _ => True

/-- numeric values: what `readNum` gives back on what `encVal` produced -/
theorem readNum_encVal (v : Val) (hv : v.legal) (hnb : ∀ b, v ≠ .bytes b) (rest : Bytes) :
    ∃ vb, encVal (rcOf v) v = .ok vb ∧ vb ≠ [] ∧ readNum (rcOf v) (vb ++ rest) = .ok (rtVal v, rest) := by
  cases v with
  | bytes b => exact absurd rfl (hnb b)
  | float d =>
    refine ⟨toBE 4 (to68 d), by simp [rcOf, encVal], ?_, ?_⟩
    · intro h; have := congrArg List.length h; simp [toBE_length] at this
    · have hl : (toBE 4 (to68 d)).length = 4 := toBE_length _ _
      have hne : toBE 4 (to68 d) ≠ [] := by intro h; rw [h] at hl; simp at hl
      have := unpackN_append (toBE 4 (to68 d)) rest hne
      rw [hl] at this
      simp [rcOf, readNum, this, beNat_toBE4 _ (to68_lt d), rtVal]
  | int i =>
    simp only [Val.legal] at hv
    unfold rcOf
    by_cases h66 : 0 ≤ i ∧ i ≤ 255
    · simp only [h66, and_self, if_true]
      refine ⟨[i.toNat], ?_, by simp, ?_⟩
      · have : i < 256 := by omega
        simp [encVal, h66.1, this]
      · have := unpackN_append [i.toNat] rest (by simp)
        simp only [List.length_singleton, List.singleton_append] at this
        have hb : beNat [i.toNat] = i.toNat := by simp [beNat]
        simp [readNum, this, hb, rtVal]; omega
    · by_cases h79 : -32768 ≤ i ∧ i ≤ 32767
      · simp only [h66, h79, and_self, if_true, if_false]
        refine ⟨toBE 2 (i % 65536).toNat, by simp [encVal, h79.1, h79.2], ?_, ?_⟩
        · intro h; have := congrArg List.length h; simp [toBE_length] at this
        · have hl : (toBE 2 (i % 65536).toNat).length = 2 := toBE_length _ _
          have hne : toBE 2 (i % 65536).toNat ≠ [] := by intro h; rw [h] at hl; simp at hl
          have := unpackN_append _ rest hne
          rw [hl] at this
          have hlt : (i % 65536).toNat < 65536 := by
            have := Int.emod_lt_of_pos i (show (0:Int) < 65536 by decide); omega
          simp [readNum, this, beNat_toBE2 _ hlt, sInt16_enc i h79.1 h79.2, rtVal]
      · simp only [h66, h79, if_false]
        refine ⟨toBE 4 (i % 4294967296).toNat, by simp [encVal, hv.1, hv.2], ?_, ?_⟩
        · intro h; have := congrArg List.length h; simp [toBE_length] at this
        · have hl : (toBE 4 (i % 4294967296).toNat).length = 4 := toBE_length _ _
          have hne : toBE 4 (i % 4294967296).toNat ≠ [] := by intro h; rw [h] at hl; simp at hl
          have := unpackN_append _ rest hne
          rw [hl] at this
          have hlt : (i % 4294967296).toNat < 4294967296 := by
            have := Int.emod_lt_of_pos i (show (0:Int) < 4294967296 by decide); omega
          simp [readNum, this, beNat_toBE4 _ hlt, sInt32_enc i hv.1 hv.2, rtVal]

/-! ### component blocks -/

theorem len4 (l : Bytes) (h : l.length = 4) : ∃ a b c d, l = [a, b, c, d] := by
  match l, h with
  | [a, b, c, d], _ => exact ⟨a, b, c, d, rfl⟩

theorem readCb_text (t sz cat : Nat) (pm pu b rest : Bytes) (hm : pm.length = 4) (hu : pu.length = 4)
    (hb : b.length = sz) (hne : b ++ rest ≠ []) :
    readCb ([t, 65, sz, cat] ++ pm ++ pu ++ (b ++ rest))
      = .ok (⟨t, 65, sz, cat, pm, pu, some (.bytes b)⟩, rest) := by
  obtain ⟨m0, m1, m2, m3, rfl⟩ := len4 pm hm
  obtain ⟨u0, u1, u2, u3, rfl⟩ := len4 pu hu
  subst hb
  have h12 : unpackN 12 (t :: 65 :: b.length :: cat :: m0 :: m1 :: m2 :: m3 :: u0 :: u1 :: u2 :: u3 :: (b ++ rest))
      = .ok ([t, 65, b.length, cat, m0, m1, m2, m3, u0, u1, u2, u3], b ++ rest) := by
    simp [unpackN, readLr]
  simp [readCb, h12, readLr_append b rest hne]

theorem readCb_num (t rc sz cat : Nat) (pm pu vb rest : Bytes) (v : Val) (hm : pm.length = 4) (hu : pu.length = 4)
    (hrc : rc ≠ 65) (hread : readNum rc (vb ++ rest) = .ok (v, rest)) :
    readCb ([t, rc, sz, cat] ++ pm ++ pu ++ (vb ++ rest))
      = .ok (⟨t, rc, sz, cat, pm, pu, some v⟩, rest) := by
  obtain ⟨m0, m1, m2, m3, rfl⟩ := len4 pm hm
  obtain ⟨u0, u1, u2, u3, rfl⟩ := len4 pu hu
  simp [readCb, unpackN, readLr, hrc, hread]

theorem rcOf_ne_65 (v : Val) (hnb : ∀ b, v ≠ .bytes b) : rcOf v ≠ 65 := by
  cases v with
  | bytes b => exact absurd rfl (hnb b)
  | float d => simp [rcOf]
  | int i =>
    simp only [rcOf]
    split
    · decide
    · split <;> decide

theorem rcOf_lt (v : Val) : rcOf v < 256 := by
  cases v with
  | bytes b => simp [rcOf]
  | float d => simp [rcOf]
  | int i =>
    simp only [rcOf]
    split
    · decide
    · split <;> decide

/-- the size field `CbEngValWrite` sets -/
def sizeOf : Val → Nat
  | .bytes b => b.length
  | .float _ => 4
  | .int i => if 0 ≤ i ∧ i ≤ 255 then 1 else if -32768 ≤ i ∧ i ≤ 32767 then 2 else 4

theorem cbWrite_eq (t : Nat) (v : Val) (m : Bytes) (u : Option Bytes) (ht : t = 73 ∨ t = 0 ∨ t = 69) (hv : v.legal) :
    cbWrite t v m u = .ok ⟨t, rcOf v, sizeOf v, 0, m,
      (match u with | none => spaces4 | some [] => spaces4 | some b => b), some v⟩ := by
  have ht' : ¬ (t ≠ 73 ∧ t ≠ 0 ∧ t ≠ 69) := by omega
  unfold cbWrite
  simp only [ht', if_false]
  cases v with
  | bytes b => rfl
  | float d => rfl
  | int i =>
    simp only [Val.legal] at hv
    simp only [rcOf, sizeOf]
    split
    · rfl
    · split
      · rfl
      · first | rfl | simp [hv.1, hv.2]

/-- **one component block survives**: a block with 4-byte mnemonic and units holding a legal value, written by
`CbEngVal.lisBytes`, is read back by `CbEngValRead` with the value passed through `rtVal` — provided it is not an empty
byte string at the very end of the logical data. -/
theorem cb_enc_read (t : Nat) (v : Val) (m un : Bytes) (rest : Bytes) (ht : t < 256) (hv : v.legal)
    (hm : m.length = 4) (hu : un.length = 4) (hne : v = .bytes [] → rest ≠ []) :
    ∃ bs, encCb ⟨t, rcOf v, sizeOf v, 0, m, un, some v⟩ = .ok bs ∧ bs.length ≥ 12 ∧
      readCb (bs ++ rest) = .ok (⟨t, rcOf v, sizeOf v, 0, m, un, some (rtVal v)⟩, rest) := by
  have hsz : sizeOf v < 256 := by
    cases v with
    | bytes b => simp only [Val.legal] at hv; simp [sizeOf]; omega
    | float d => simp [sizeOf]
    | int i =>
      simp only [sizeOf]
      split
      · decide
      · split <;> decide
  have hrc := rcOf_lt v
  have hfields : ¬ (256 ≤ t ∨ 256 ≤ rcOf v ∨ 256 ≤ sizeOf v ∨ 256 ≤ 0) := by omega
  cases v with
  | bytes b =>
    refine ⟨[t, 65, b.length, 0] ++ m ++ un ++ b, ?_, ?_, ?_⟩
    · simp only [rcOf, sizeOf] at hfields ⊢
      simp [encCb, hfields, encVal, padTo_eq_self 4 m hm, padTo_eq_self 4 un hu]
      omega
    · simp [hm, hu] <;> omega
    · have hne' : b ++ rest ≠ [] := by
        intro h
        have hb : b = [] := (List.append_eq_nil_iff.1 h).1
        have hr : rest = [] := (List.append_eq_nil_iff.1 h).2
        exact hne (by rw [hb]) hr
      have := readCb_text t b.length 0 m un b rest hm hu rfl hne'
      simpa [rcOf, sizeOf, rtVal, List.append_assoc] using this
  | float d =>
    obtain ⟨vb, henc, _, hread⟩ := readNum_encVal (.float d) hv (by intro b h; cases h) rest
    refine ⟨[t, 68, 4, 0] ++ m ++ un ++ vb, ?_, ?_, ?_⟩
    · simp only [rcOf, sizeOf] at hfields henc ⊢
      simp [encCb, hfields, henc, padTo_eq_self 4 m hm, padTo_eq_self 4 un hu]
      omega
    · simp [hm, hu] <;> omega
    · have := readCb_num t 68 4 0 m un vb rest _ hm hu (by decide) hread
      simpa [rcOf, sizeOf, List.append_assoc] using this
  | int i =>
    obtain ⟨vb, henc, _, hread⟩ := readNum_encVal (.int i) hv (by intro b h; cases h) rest
    refine ⟨[t, rcOf (.int i), sizeOf (.int i), 0] ++ m ++ un ++ vb, ?_, ?_, ?_⟩
    · simp [encCb, hfields, henc, padTo_eq_self 4 m hm, padTo_eq_self 4 un hu]
      exact ⟨ht, hrc, hsz⟩
    · simp [hm, hu] <;> omega
    · have := readCb_num t (rcOf (.int i)) (sizeOf (.int i)) 0 m un vb rest _ hm hu
        (rcOf_ne_65 _ (by intro b h; cases h)) hread
      simpa [List.append_assoc] using this

end TD.C08
