import TD.C08.Lemmas

/-! Table level lemmas: the reader loop on encoded blocks, regrouping reader/writer, first-kept de-duplication. -/
namespace TD.C08

/-! ### the reader loop on a list of encoded blocks -/

/-- `bs` is read as the block `cb` (unless `cb` is an empty byte string and nothing follows) -/
def EncOk (bs : Bytes) (cb : Cb) : Prop :=
  bs ≠ [] ∧ ∀ rest, (cb.val = some (.bytes []) → rest ≠ []) → readCb (bs ++ rest) = .ok (cb, rest)

def stepAll : List Cb → TS → Except Err TS
  | [], st => .ok st
  | cb :: r, st => (tableStep cb st).bind (stepAll r)

theorem flatMap_ne_nil_of_cons {α} (p : Bytes × α) (r : List (Bytes × α)) (h : p.1 ≠ []) :
    ((p :: r).flatMap (·.1)) ≠ [] := by
  simp [List.flatMap_cons, h]

theorem tableLoop_enc (items : List (Bytes × Cb)) (hall : ∀ p ∈ items, EncOk p.1 p.2)
    (hlast : ∀ p, items.getLast? = some p → p.2.val ≠ some (.bytes [])) :
    ∀ fuel st, items.length ≤ fuel → tableLoop fuel (items.flatMap (·.1)) st = stepAll (items.map (·.2)) st := by
  induction items with
  | nil => intro fuel st _; cases fuel <;> simp [tableLoop, stepAll]
  | cons p r ih =>
    intro fuel st hf
    cases fuel with
    | zero => simp at hf
    | succ fuel =>
      have hp := hall p (by simp)
      have hne : (p :: r).flatMap (·.1) ≠ [] := flatMap_ne_nil_of_cons p r hp.1
      have hread : readCb ((p :: r).flatMap (·.1)) = .ok (p.2, r.flatMap (·.1)) := by
        rw [List.flatMap_cons]
        apply hp.2
        intro hv
        cases r with
        | nil => exact absurd hv (hlast p (by simp))
        | cons q r' => exact flatMap_ne_nil_of_cons q r' (hall q (by simp)).1
      have ih' := ih (fun q hq => hall q (by simp [hq]))
        (by
          intro q hq
          apply hlast q
          cases r with
          | nil => simp at hq
          | cons a b => simpa [List.getLast?_cons_cons] using hq)
        fuel
      unfold tableLoop
      split
      · rename_i heq; exact absurd heq hne
      · rw [hread]
        simp only [List.map_cons, stepAll]
        cases hs : tableStep p.2 st with
        | error e => simp [Except.bind]
        | ok st' => simp only [Except.bind]; exact ih' st' (by simpa using hf)

/-! ### pure effect of one row -/

def incCols (r : List Cb) (cols : List (Bytes × Nat)) : List (Bytes × Nat) :=
  r.foldl (fun c cb => incCol cb.mnem c) cols

/-- append a complete row (what `startNewRow` + `addDatumBlock`* do) -/
def pushRow (r : List Cb) (st : TS) : TS := { st with rows := st.rows ++ [r], cols := incCols r st.cols }

/-- a row of blocks: a type-0 block followed by type-69 blocks -/
def RowOk (r : List Cb) : Prop := ∃ h cells, r = h :: cells ∧ h.type = 0 ∧ ∀ c ∈ cells, c.type = 69

/-- add cells to the last row -/
theorem stepAll_cells (cells : List Cb) (hc : ∀ c ∈ cells, c.type = 69) :
    ∀ (more : List Cb) (st : TS) (K : List (List Cb)) (p : List Cb), st.tcb.isSome → st.rows = K ++ [p] →
      stepAll (cells ++ more) st =
        stepAll more { st with rows := K ++ [p ++ cells], cols := incCols cells st.cols } := by
  induction cells with
  | nil => intro more st K p _ hr; simp [incCols, ← hr]
  | cons c cs ih =>
    intro more st K p ht hr
    have hct : c.type = 69 := hc c (by simp)
    have hne : st.tcb.isNone = false := by cases h : st.tcb <;> simp_all
    have hstep : tableStep c st = .ok { st with rows := K ++ [p ++ [c]], cols := incCol c.mnem st.cols } := by
      simp [tableStep, hct, addDatum, hne, hr]
    simp only [List.cons_append, stepAll, hstep, Except.bind]
    rw [ih (fun x hx => hc x (by simp [hx])) more _ K (p ++ [c]) (by simpa using ht) (by simp)]
    simp [incCols, List.append_assoc]

theorem indexLast_tcb {st st' : TS} (h : indexLast st = .ok st') : st'.tcb = st.tcb := by
  unfold indexLast at h
  split at h
  · cases h; rfl
  · split at h
    · cases h; rfl
    · split at h
      · cases h; rfl
      · split at h
        · cases h; rfl
        · cases h

theorem indexLast_cols {st st' : TS} (h : indexLast st = .ok st') : st'.cols = st.cols := by
  unfold indexLast at h
  split at h
  · cases h; rfl
  · split at h
    · cases h; rfl
    · split at h
      · cases h; rfl
      · split at h
        · cases h; rfl
        · cases h

/-- one whole row through the reader: close the previous row, then append this one -/
theorem stepAll_row (r : List Cb) (hr : RowOk r) (more : List Cb) (st : TS) (ht : st.tcb.isSome) :
    stepAll (r ++ more) st = (indexLast st).bind (fun st1 => stepAll more (pushRow r st1)) := by
  obtain ⟨h, cells, rfl, hh, hc⟩ := hr
  simp only [List.cons_append, stepAll]
  have : tableStep h st = (indexLast st).bind (startNewRow h) := by
    simp only [tableStep, hh, if_true]
    cases indexLast st <;> rfl
  rw [this]
  cases hi : indexLast st with
  | error e => rfl
  | ok st1 =>
    have ht1 : st1.tcb.isSome := by rw [indexLast_tcb hi]; exact ht
    simp only [Except.bind, startNewRow, hh]
    simp only [ne_eq, not_true_eq_false, if_false]
    rw [stepAll_cells cells hc more _ st1.rows [h] (by simpa using ht1) rfl]
    simp [pushRow, incCols]

/-- the sequence of operations in the grouping of the writer: append a row, index-or-discard it -/
def runRows : List (List Cb) → TS → Except Err TS
  | [], st => .ok st
  | r :: rs, st => (indexLast (pushRow r st)).bind (runRows rs)

theorem bind_ok_right (x : Except Err TS) : x.bind Except.ok = x := by cases x <;> rfl

theorem bind_assoc' (x : Except Err TS) (f g : TS → Except Err TS) :
    (x.bind f).bind g = x.bind (fun a => (f a).bind g) := by cases x <;> rfl

theorem bind_congr' (x : Except Err TS) (f g : TS → Except Err TS) (h : ∀ a, x = .ok a → f a = g a) :
    x.bind f = x.bind g := by
  cases x with
  | error e => rfl
  | ok a => exact h a rfl

/-- **regrouping**: reading a stream of rows and finally indexing the last row is the writer's sequence of operations
preceded by one `indexLast` -/
theorem reader_regroup (rows : List (List Cb)) (hrows : ∀ r ∈ rows, RowOk r) :
    ∀ st : TS, st.tcb.isSome →
      (stepAll rows.flatten st).bind indexLast = (indexLast st).bind (runRows rows) := by
  induction rows with
  | nil => intro st _; simp [stepAll, runRows, Except.bind, bind_ok_right]
         ; exact (bind_ok_right _).symm
  | cons r rs ih =>
    intro st ht
    rw [List.flatten_cons, stepAll_row r (hrows r (by simp)) _ st ht, bind_assoc']
    apply bind_congr'
    intro st1 h1
    have ht1 : (pushRow r st1).tcb.isSome := by
      simp only [pushRow]; rw [indexLast_tcb h1]; exact ht
    rw [ih (fun x hx => hrows x (by simp [hx])) _ ht1]
    rfl

/-! ### first-kept de-duplication -/

def keptAux (seen : List (Option Val)) : List (List Cb) → List (List Cb)
  | [] => []
  | r :: rs =>
    if seen.any (fun s => keyEq s (rowValue r)) then keptAux seen rs
    else r :: keptAux (seen ++ [rowValue r]) rs

/-- the rows that survive: the first row of every name (Python `==` on names), in order -/
def kept (rows : List (List Cb)) : List (List Cb) := keptAux [] rows

/-- the row has no `MNEM` cell, or it holds a byte string (otherwise `Mnem.Mnem(...)` raises `TypeError`) -/
def MnemOk (r : List Cb) : Prop :=
  getByLabel r mnemMNEM = none ∨ ∃ c b, getByLabel r mnemMNEM = some c ∧ c.val = some (.bytes b)

/-- all rows indexed, none pending -/
structure Inv (st : TS) : Prop where
  names : st.rowIdx.map (·.1) = st.rows.map rowValue
  idx : st.rowIdx.map (·.2) = List.range st.rows.length

theorem indexLast_push (r : List Cb) (st : TS) (hm : MnemOk r) (hinv : Inv st) :
    ∃ st', indexLast (pushRow r st) = .ok st' ∧ st'.tcb = st.tcb ∧ st'.cols = incCols r st.cols ∧ Inv st' ∧
      st'.rows = (if (st.rows.map rowValue).any (fun s => keyEq s (rowValue r)) then st.rows else st.rows ++ [r]) := by
  have hkey : keyIn (rowValue r) st.rowIdx = (st.rows.map rowValue).any (fun s => keyEq s (rowValue r)) := by
    rw [← hinv.names]; simp [keyIn, List.any_map, Function.comp_def]
  have hp : pushRow r st = ⟨st.tcb, st.rows ++ [r], st.rowIdx, st.mnemIdx, incCols r st.cols⟩ := rfl
  rw [hp]
  unfold indexLast
  simp only [List.getLast?_append, List.getLast?_singleton, Option.some_or, hkey]
  by_cases hk : (st.rows.map rowValue).any (fun s => keyEq s (rowValue r)) = true
  · simp only [hk, if_true]
    refine ⟨_, rfl, rfl, rfl, ?_, by simp⟩
    constructor <;> simp [hinv.names, hinv.idx]
  · simp only [hk, if_false]
    have hInv' : ∀ mi, Inv (⟨st.tcb, st.rows ++ [r], st.rowIdx ++ [(rowValue r, (st.rows ++ [r]).length - 1)],
        mi, incCols r st.cols⟩ : TS) := by
      intro mi
      constructor
      · simp [hinv.names]
      · simp [hinv.idx, List.range_succ]
    rcases hm with hnone | ⟨c, b, hc, hv⟩
    · rw [hnone]
      exact ⟨_, rfl, rfl, rfl, hInv' _, by simp⟩
    · rw [hc]; simp only [hv]
      exact ⟨_, rfl, rfl, rfl, hInv' _, by simp⟩

theorem runRows_spec (rows : List (List Cb)) (hm : ∀ r ∈ rows, MnemOk r) :
    ∀ st : TS, Inv st →
      ∃ fin, runRows rows st = .ok fin ∧ fin.tcb = st.tcb ∧ Inv fin ∧
        fin.rows = st.rows ++ keptAux (st.rows.map rowValue) rows ∧
        fin.cols = incCols rows.flatten st.cols := by
  induction rows with
  | nil => intro st hinv; exact ⟨st, rfl, rfl, hinv, by simp [keptAux], by simp [incCols]⟩
  | cons r rs ih =>
    intro st hinv
    obtain ⟨st', h1, ht, hc, hinv', hrows⟩ := indexLast_push r st (hm r (by simp)) hinv
    obtain ⟨fin, h2, ht2, hinv2, hrows2, hc2⟩ := ih (fun x hx => hm x (by simp [hx])) st' hinv'
    refine ⟨fin, ?_, by rw [ht2, ht], hinv2, ?_, ?_⟩
    · simp only [runRows, h1, Except.bind]; exact h2
    · rw [hrows2, hrows]
      simp only [keptAux]
      split <;> simp
    · rw [hc2, hc]; simp [incCols, List.foldl_append]

theorem keptAux_idem (rows : List (List Cb)) : ∀ seen, keptAux seen (keptAux seen rows) = keptAux seen rows := by
  induction rows with
  | nil => intro seen; rfl
  | cons r rs ih =>
    intro seen
    by_cases h : seen.any (fun s => keyEq s (rowValue r)) = true
    · simp only [keptAux, h, if_true]; exact ih seen
    · have h' : (seen.any fun s => keyEq s (rowValue r)) = false := by simpa using h
      simp only [keptAux, h', Bool.false_eq_true, if_false, ih]

theorem keptAux_map (f : List Cb → List Cb) (hf : ∀ r, rowValue (f r) = rowValue r) (rows : List (List Cb)) :
    ∀ seen, keptAux seen (rows.map f) = (keptAux seen rows).map f := by
  induction rows with
  | nil => intro seen; rfl
  | cons r rs ih =>
    intro seen
    simp only [List.map_cons, keptAux, hf]
    split
    · exact ih seen
    · simp [ih]

/-! ### column labels -/

def colKeys (cols : List (Bytes × Nat)) : List Bytes := cols.map (·.1)

theorem colKeys_incCol (k : Bytes) (cols : List (Bytes × Nat)) :
    colKeys (incCol k cols) = if k ∈ colKeys cols then colKeys cols else colKeys cols ++ [k] := by
  induction cols with
  | nil => simp [incCol, colKeys]
  | cons p r ih =>
    obtain ⟨k', n⟩ := p
    simp only [incCol, colKeys] at ih ⊢
    by_cases h : k' = k
    · simp [h]
    · have h' : ¬ k = k' := fun e => h e.symm
      simp only [h, if_false, List.map_cons, List.mem_cons, h', false_or]
      rw [ih]
      split <;> simp_all

/-- adding mnemonics that are all present changes no label -/
theorem colKeys_incCols_present (r : List Cb) (cols : List (Bytes × Nat)) (h : ∀ c ∈ r, c.mnem ∈ colKeys cols) :
    colKeys (incCols r cols) = colKeys cols := by
  induction r generalizing cols with
  | nil => rfl
  | cons c cs ih =>
    simp only [incCols, List.foldl_cons]
    have h1 : colKeys (incCol c.mnem cols) = colKeys cols := by
      rw [colKeys_incCol]; simp [h c (by simp)]
    have := ih (incCol c.mnem cols) (by intro x hx; rw [h1]; exact h x (by simp [hx]))
    simp only [incCols] at this
    rw [this, h1]

/-- a first row with distinct mnemonics sets the labels to exactly these -/
theorem colKeys_incCols_fresh (r : List Cb) (hnd : (r.map (·.mnem)).Nodup) :
    ∀ cols : List (Bytes × Nat), (∀ c ∈ r, c.mnem ∉ colKeys cols) →
      colKeys (incCols r cols) = colKeys cols ++ r.map (·.mnem) := by
  induction r with
  | nil => intro cols _; simp [incCols]
  | cons c cs ih =>
    intro cols hfresh
    simp only [List.map_cons, List.nodup_cons] at hnd
    simp only [incCols, List.foldl_cons]
    have h1 : colKeys (incCol c.mnem cols) = colKeys cols ++ [c.mnem] := by
      rw [colKeys_incCol]; simp [hfresh c (by simp)]
    have := ih hnd.2 (incCol c.mnem cols) (by
      intro x hx
      rw [h1]
      simp only [List.mem_append, List.mem_singleton, not_or]
      refine ⟨hfresh x (by simp [hx]), ?_⟩
      intro e
      exact hnd.1 (by rw [← e]; exact List.mem_map_of_mem hx))
    simp only [incCols] at this
    rw [this, h1]; simp

theorem colKeys_rows (mn : List Bytes) (hnd : mn.Nodup) (rows : List (List Cb)) (hrows : ∀ r ∈ rows, r.map (·.mnem) = mn) :
    colKeys (incCols rows.flatten []) = if rows = [] then [] else mn := by
  cases rows with
  | nil => simp [incCols, colKeys]
  | cons r rs =>
    simp only [List.flatten_cons, incCols, List.foldl_append]
    have h1 : colKeys (incCols r []) = mn := by
      have := colKeys_incCols_fresh r (by rw [hrows r (by simp)]; exact hnd) [] (by simp [colKeys])
      simpa [colKeys, hrows r (by simp)] using this
    have : ∀ (rs : List (List Cb)) (cols : List (Bytes × Nat)), (∀ x ∈ rs, x.map (·.mnem) = mn) → colKeys cols = mn →
        colKeys (incCols rs.flatten cols) = mn := by
      intro rs
      induction rs with
      | nil => intro cols _ h; simpa [incCols] using h
      | cons x xs ihx =>
        intro cols hx hc
        simp only [List.flatten_cons, incCols, List.foldl_append]
        have hx1 : colKeys (incCols x cols) = mn := by
          rw [colKeys_incCols_present x cols]
          · exact hc
          · intro c hcm; rw [hc, ← hx x (by simp)]; exact List.mem_map_of_mem hcm
        exact ihx (incCols x cols) (fun y hy => hx y (by simp [hy])) hx1
    have := this rs (incCols r []) (fun x hx => hrows x (by simp [hx])) h1
    simpa [incCols] using this

end TD.C08
