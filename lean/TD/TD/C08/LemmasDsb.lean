import TD.C08.LemmasEbs

/-! Datum specification block lemmas. -/
namespace TD.C08

theorem len2 (l : Bytes) (h : l.length = 2) : ∃ a b, l = [a, b] := by
  match l, h with
  | [a, b], _ => exact ⟨a, b, rfl⟩

theorem len6 (l : Bytes) (h : l.length = 6) : ∃ a b c d e f, l = [a, b, c, d, e, f] := by
  match l, h with
  | [a, b, c, d, e, f], _ => exact ⟨a, b, c, d, e, f, rfl⟩

theorem len8 (l : Bytes) (h : l.length = 8) : ∃ a b c d e f g i, l = [a, b, c, d, e, f, g, i] := by
  match l, h with
  | [a, b, c, d, e, f, g, i], _ => exact ⟨a, b, c, d, e, f, g, i, rfl⟩

/-- a channel specification whose fields fit the 40-byte structure exactly -/
structure ChanOk (c : ChanSpec) : Prop where
  name : c.name.length = 4
  servId : c.servId.length = 6
  servOrd : c.servOrd.length = 8
  units : c.units.length = 4
  api : 0 ≤ c.api ∧ c.api < 4294967296
  fileNo : -32768 ≤ c.fileNo ∧ c.fileNo ≤ 32767
  chLen : -32768 ≤ c.chLen ∧ c.chLen ≤ 32767
  sa : 0 ≤ c.sa ∧ c.sa < 256
  rc : 0 ≤ c.rc ∧ c.rc < 256

/-- the channel definition a specification denotes (given the derived bursts / sub-channels) -/
def dsbOf (c : ChanSpec) (b sc : Nat) : Dsb :=
  ⟨c.name, c.servId, c.servOrd, c.units, c.api.toNat / 1000000, (c.api.toNat % 1000000) / 1000, (c.api.toNat % 1000) / 10,
   c.api.toNat % 10, c.fileNo, c.chLen, c.sa.toNat, c.rc.toNat, b, sc⟩

theorem dsb_enc_read (c : ChanSpec) (h : ChanOk c) :
    ∃ bs, dsbBytes c = .ok bs ∧ bs.length = 40 ∧
      ∀ rest, readDsb (bs ++ rest) =
        (match burstsSub c.rc.toNat c.chLen c.sa.toNat with
         | .ok (b, sc) => .ok (dsbOf c b sc, rest)
         | .error e => .error e) := by
  obtain ⟨n0, n1, n2, n3, hn⟩ := len4 c.name h.name
  obtain ⟨s0, s1, s2, s3, s4, s5, hs⟩ := len6 c.servId h.servId
  obtain ⟨o0, o1, o2, o3, o4, o5, o6, o7, ho⟩ := len8 c.servOrd h.servOrd
  obtain ⟨u0, u1, u2, u3, hu⟩ := len4 c.units h.units
  obtain ⟨a0, a1, a2, a3, ha⟩ := len4 (toBE 4 c.api.toNat) (toBE_length _ _)
  obtain ⟨f0, f1, hf⟩ := len2 (toBE 2 (c.fileNo % 65536).toNat) (toBE_length _ _)
  obtain ⟨l0, l1, hl⟩ := len2 (toBE 2 (c.chLen % 65536).toNat) (toBE_length _ _)
  have hcond : ¬ (c.api < 0 ∨ 4294967296 ≤ c.api ∨ c.fileNo < -32768 ∨ 32767 < c.fileNo ∨ c.chLen < -32768 ∨ 32767 < c.chLen
     ∨ c.sa < 0 ∨ 256 ≤ c.sa ∨ c.rc < 0 ∨ 256 ≤ c.rc) := by
    have := h.api; have := h.fileNo; have := h.chLen; have := h.sa; have := h.rc; omega
  have hbs : dsbBytes c = .ok [n0, n1, n2, n3, s0, s1, s2, s3, s4, s5, o0, o1, o2, o3, o4, o5, o6, o7, u0, u1, u2, u3,
      a0, a1, a2, a3, f0, f1, l0, l1, 0, 0, 0, c.sa.toNat, c.rc.toNat, 0, 0, 0, 0, 0] := by
    unfold dsbBytes
    simp only [hcond, if_false, padTo_eq_self 4 _ h.name, padTo_eq_self 6 _ h.servId, padTo_eq_self 8 _ h.servOrd,
      padTo_eq_self 4 _ h.units, hn, hs, ho, hu, ha, hf, hl]
    rfl
  refine ⟨_, hbs, rfl, ?_⟩
  intro rest
  have hapi : beNat [a0, a1, a2, a3] = c.api.toNat := by
    rw [← ha]; exact beNat_toBE4 _ (by have := h.api; omega)
  have hfile : sInt 16 (beNat [f0, f1]) = c.fileNo := by
    rw [← hf, beNat_toBE2 _ (by have := Int.emod_lt_of_pos c.fileNo (show (0:Int) < 65536 by decide); omega)]
    exact sInt16_enc _ h.fileNo.1 h.fileNo.2
  have hlen : sInt 16 (beNat [l0, l1]) = c.chLen := by
    rw [← hl, beNat_toBE2 _ (by have := Int.emod_lt_of_pos c.chLen (show (0:Int) < 65536 by decide); omega)]
    exact sInt16_enc _ h.chLen.1 h.chLen.2
  have hunp := unpackN_append [n0, n1, n2, n3, s0, s1, s2, s3, s4, s5, o0, o1, o2, o3, o4, o5, o6, o7, u0, u1, u2, u3,
      a0, a1, a2, a3, f0, f1, l0, l1, 0, 0, 0, c.sa.toNat, c.rc.toNat, 0, 0, 0, 0, 0] rest (by simp)
  have h40 : [n0, n1, n2, n3, s0, s1, s2, s3, s4, s5, o0, o1, o2, o3, o4, o5, o6, o7, u0, u1, u2, u3,
      a0, a1, a2, a3, f0, f1, l0, l1, 0, 0, 0, c.sa.toNat, c.rc.toNat, 0, 0, 0, 0, 0].length = 40 := rfl
  rw [h40] at hunp
  unfold readDsb
  rw [hunp]
  show (match burstsSub c.rc.toNat (sInt 16 (beNat [l0, l1])) c.sa.toNat with
    | .error e => (Except.error e : Except Err (Dsb × Bytes))
    | .ok (b, sc) => Except.ok (⟨[n0, n1, n2, n3], [s0, s1, s2, s3, s4, s5], [o0, o1, o2, o3, o4, o5, o6, o7], [u0, u1, u2, u3],
        beNat [a0, a1, a2, a3] / 1000000, (beNat [a0, a1, a2, a3] % 1000000) / 1000, (beNat [a0, a1, a2, a3] % 1000) / 10,
        beNat [a0, a1, a2, a3] % 10, sInt 16 (beNat [f0, f1]), sInt 16 (beNat [l0, l1]), c.sa.toNat, c.rc.toNat, b, sc⟩, rest)) = _
  rw [hapi, hfile, hlen]
  cases burstsSub c.rc.toNat c.chLen c.sa.toNat with
  | error e => rfl
  | ok p => obtain ⟨b, sc⟩ := p; simp [dsbOf, hn, hs, ho, hu]

/-! ### the channel loop -/

theorem dsbLoop_list (items : List (Bytes × Dsb)) (h : ∀ p ∈ items, p.1.length = 40 ∧ ∀ rest, readDsb (p.1 ++ rest) = .ok (p.2, rest)) :
    ∀ (fuel : Nat) (acc : List Dsb), items.length ≤ fuel →
      dsbLoop fuel (items.flatMap (·.1)) acc = .ok (acc ++ (items.map (·.2)).filter (fun d => d.size ≠ 0)) := by
  induction items with
  | nil => intro fuel acc _; cases fuel <;> simp [dsbLoop]
  | cons p r ih =>
    intro fuel acc hf
    cases fuel with
    | zero => simp at hf
    | succ fuel =>
      obtain ⟨hlen, hread⟩ := h p (by simp)
      have hne : p.1 ++ r.flatMap (·.1) ≠ [] := by
        intro hh; have := congrArg List.length hh; simp [hlen] at this
      simp only [List.flatMap_cons]
      conv => lhs; unfold dsbLoop
      split
      · rename_i heq; exact absurd heq hne
      · rw [hread]
        simp only
        rw [ih (fun q hq => h q (by simp [hq])) fuel _ (by simpa using hf)]
        by_cases hz : p.2.size = 0
        · simp [hz]
        · simp [hz]

theorem length_le_flatMap_dsb (items : List (Bytes × Dsb)) (h : ∀ p ∈ items, 1 ≤ p.1.length) :
    items.length ≤ (items.flatMap (·.1)).length := by
  induction items with
  | nil => simp
  | cons p r ih =>
    have := h p (by simp)
    have := ih (fun q hq => h q (by simp [hq]))
    simp only [List.flatMap_cons, List.length_append, List.length_cons]
    omega

theorem concatE_ok_dsb (items : List (ChanSpec × Bytes)) (h : ∀ p ∈ items, dsbBytes p.1 = .ok p.2) :
    concatE (items.map (fun p => dsbBytes p.1)) = .ok (items.flatMap (·.2)) := by
  induction items with
  | nil => rfl
  | cons p r ih =>
    simp only [List.map_cons, concatE, h p (by simp), List.flatMap_cons]
    rw [ih (fun q hq => h q (by simp [hq]))]

end TD.C08
