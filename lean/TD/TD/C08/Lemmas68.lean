import TD.C08.Model
import Mathlib.Tactic.Ring
import Mathlib.Tactic.Positivity

/-! Representation code 68: representable values are fixed points of `from68 ∘ to68`. -/
namespace TD.C08

theorem normAux_pow (m : Int) (hm : m % 2 = 1) :
    ∀ (k fuel : Nat) (e : Int), k < fuel → normAux fuel (m * 2 ^ k) e = ⟨m, e + k⟩ := by
  intro k
  induction k with
  | zero =>
    intro fuel e h
    cases fuel with
    | zero => omega
    | succ fuel =>
      have h0 : m ≠ 0 := by omega
      have h2 : ¬ m % 2 = 0 := by omega
      simp [normAux, h0, h2]
  | succ k ih =>
    intro fuel e h
    cases fuel with
    | zero => omega
    | succ fuel =>
      have hm0 : m ≠ 0 := by omega
      have hp : (2:Int) ^ (k + 1) ≠ 0 := by positivity
      have h0 : m * 2 ^ (k + 1) ≠ 0 := Int.mul_ne_zero hm0 hp
      have hmul : m * 2 ^ (k + 1) = (m * 2 ^ k) * 2 := by rw [Int.pow_succ, Int.mul_assoc]
      have heven : (m * 2 ^ (k + 1)) % 2 = 0 := by rw [hmul]; exact Int.mul_emod_left _ _
      have hdiv : (m * 2 ^ (k + 1)) / 2 = m * 2 ^ k := by rw [hmul]; exact Int.mul_ediv_cancel _ (by decide)
      simp only [normAux, h0, heven, hdiv, if_false, if_true]
      rw [ih fuel (e + 1) (by omega)]
      congr 1
      push_cast; omega

theorem from68_pos (T E : Nat) (hT : T < 8388608) (hE : E < 256) :
    from68 (E * 8388608 + T) = Dy.norm ⟨T, (E : Int) - 151⟩ := by
  unfold from68
  have h1 : (E * 8388608 + T) % 8388608 = T := by omega
  have h2 : ((E * 8388608 + T) / 8388608) % 256 = E := by omega
  have h3 : ¬ ((E * 8388608 + T) / 2147483648) % 2 = 1 := by omega
  simp only [h1, h2, h3, if_false]

theorem from68_neg (f E : Nat) (hf : f < 8388608) (hE : E < 256) :
    from68 ((256 + E) * 8388608 + f) = Dy.norm ⟨(f : Int) - 8388608, 104 - (E : Int)⟩ := by
  unfold from68
  have h1 : ((256 + E) * 8388608 + f) % 8388608 = f := by omega
  have h2 : (((256 + E) * 8388608 + f) / 8388608) % 256 = E := by omega
  have h3 : (((256 + E) * 8388608 + f) / 2147483648) % 2 = 1 := by omega
  simp only [h1, h2, h3, if_true]

/-- normalised dyadics that code 68 represents exactly: zero, or odd mantissa with the `frexp` exponent in
(−151, 127] and no bit below 2^(max(exponent, −128) − 23) -/
def Rep68 (d : Dy) : Prop :=
  (d.m = 0 ∧ d.e = 0) ∨
  (d.m % 2 = 1 ∧ -151 < frexpE d ∧ frexpE d ≤ 127 ∧ (if frexpE d < -128 then -128 else frexpE d) - 23 ≤ d.e)

theorem norm_shift (m : Int) (hm : m % 2 = 1) (k : Nat) (e : Int) : Dy.norm ⟨m * 2 ^ k, e⟩ = ⟨m, e + k⟩ := by
  unfold Dy.norm
  apply normAux_pow m hm k _ e
  have h1 : k < 2 ^ k := Nat.lt_two_pow_self
  have h2 : (m * 2 ^ k).natAbs = m.natAbs * 2 ^ k := by
    rw [Int.natAbs_mul]; congr 1
  have h3 : 1 ≤ m.natAbs := by omega
  have : 2 ^ k ≤ m.natAbs * 2 ^ k := Nat.le_mul_of_pos_left _ h3
  simp only [h2]; omega

theorem f68_fixed (d : Dy) (h : Rep68 d) : from68 (to68 d) = d := by
  rcases h with ⟨hm, he⟩ | ⟨hodd, hlo, hhi, hres⟩
  · obtain ⟨m, e⟩ := d; simp only at hm he; subst hm; subst he; decide
  · obtain ⟨m, e⟩ := d
    simp only at hodd hres
    have hm0 : m ≠ 0 := by omega
    -- the exponent
    have hfe : frexpE ⟨m, e⟩ = ((m.natAbs.log2 + 1 : Nat) : Int) + e := by simp [frexpE, hm0]
    generalize hx : (if frexpE ⟨m, e⟩ < -128 then -128 else frexpE ⟨m, e⟩) = x at hres
    have hx1 : -128 ≤ x ∧ x ≤ 127 ∧ frexpE ⟨m, e⟩ ≤ x := by
      rw [← hx]; split <;> omega
    have hsh : 0 ≤ e + 23 - x := by omega
    obtain ⟨k, hk⟩ : ∃ k : Nat, e + 23 - x = k := ⟨(e + 23 - x).toNat, by omega⟩
    -- |m| * 2^k < 2^23
    have hlog : m.natAbs < 2 ^ (m.natAbs.log2 + 1) := Nat.lt_log2_self
    have hsum : m.natAbs.log2 + 1 + k ≤ 23 := by
      have := hx1.2.2; rw [hfe] at this; omega
    have hbound : m.natAbs * 2 ^ k < 8388608 := by
      have h1 : m.natAbs * 2 ^ k < 2 ^ (m.natAbs.log2 + 1) * 2 ^ k := Nat.mul_lt_mul_of_pos_right hlog (by positivity)
      rw [← Nat.pow_add] at h1
      have h2 : 2 ^ (m.natAbs.log2 + 1 + k) ≤ 2 ^ 23 := Nat.pow_le_pow_right (by decide) hsum
      have : (2:Nat) ^ 23 = 8388608 := by decide
      omega
    have hc1 : ¬ frexpE ⟨m, e⟩ ≤ -151 := by omega
    have hc2 : ¬ frexpE ⟨m, e⟩ > 127 := by omega
    have hpow : (0:Int) < 2 ^ k := by positivity
    have habs : ((m.natAbs * 2 ^ k : Nat) : Int) = (m.natAbs : Int) * 2 ^ k := by push_cast; rfl
    unfold to68
    simp only [hc1, hc2, if_false, hx, hk, Int.toNat_natCast, show (0:Int) ≤ (k:Int) from by omega, if_true]
    by_cases hneg : m < 0
    · simp only [hneg, if_true]
      -- T = m * 2^k in (-2^23, 0)
      have hT : m * 2 ^ k = -((m.natAbs * 2 ^ k : Nat) : Int) := by
        rw [habs]; have : (m.natAbs : Int) = -m := by omega
        rw [this]; ring
      have hTlt : -8388608 < m * 2 ^ k ∧ m * 2 ^ k < 0 := by
        rw [hT]; constructor
        · omega
        · have : 0 < m.natAbs * 2 ^ k := Nat.mul_pos (by omega) (by positivity)
          omega
      have hmod : (m * 2 ^ k) % 8388608 = m * 2 ^ k + 8388608 := by
        rw [Int.emod_def]
        have : (m * 2 ^ k) / 8388608 = -1 := by omega
        rw [this]; ring
      have hE : ((127 - x) % 256).toNat = (127 - x).toNat := by
        have : (127 - x) % 256 = 127 - x := Int.emod_eq_of_lt (by omega) (by omega)
        rw [this]
      rw [hmod, hE]
      have hfnat : (m * 2 ^ k + 8388608).toNat < 8388608 := by omega
      have hEnat : (127 - x).toNat < 256 := by omega
      rw [from68_neg _ _ hfnat hEnat]
      have e1 : (((m * 2 ^ k + 8388608).toNat : Nat) : Int) - 8388608 = m * 2 ^ k := by omega
      have e2 : (104 : Int) - ((127 - x).toNat : Nat) = x - 23 := by omega
      rw [e1, e2, norm_shift m hodd k (x - 23)]
      congr 1; omega
    · simp only [hneg, if_false]
      have hmpos : 0 < m := by omega
      have hT : m * 2 ^ k = ((m.natAbs * 2 ^ k : Nat) : Int) := by
        rw [habs]; have : (m.natAbs : Int) = m := by omega
        rw [this]
      have hTlt : 0 ≤ m * 2 ^ k ∧ m * 2 ^ k < 8388608 := by rw [hT]; omega
      have hmod : (m * 2 ^ k) % 8388608 = m * 2 ^ k := Int.emod_eq_of_lt hTlt.1 hTlt.2
      have hE : ((x - 128) % 256).toNat = (x + 128).toNat := by
        have : (x - 128) % 256 = x + 128 := by omega
        rw [this]
      rw [hmod, hE]
      have hfnat : (m * 2 ^ k).toNat < 8388608 := by omega
      have hEnat : (x + 128).toNat < 256 := by omega
      rw [from68_pos _ _ hfnat hEnat]
      have e1 : (((m * 2 ^ k).toNat : Nat) : Int) = m * 2 ^ k := by omega
      have e2 : (((x + 128).toNat : Nat) : Int) - 151 = x - 23 := by omega
      rw [e1, e2, norm_shift m hodd k (x - 23)]
      congr 1; omega

end TD.C08
