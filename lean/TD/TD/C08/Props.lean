import TD.C08.LemmasRound
import TD.C08.LemmasEbs
import TD.C08.LemmasDsb
import TD.C08.Lemmas68

/-!
# C08 — LIS tables and data format specifications survive encode then decode

Property theorems only.  The model (`TD.C08.Model`) transcribes `LogiRec.py` / `RepCode.py` / `Mnem.py`; it is tied to
the Python source by the correspondence run of `./check C08`.
-/
namespace TD.C08

/-! ## Component blocks -/

/-- **Component block round trip.** A block built by `CbEngValWrite(t, v, m, units=u)` from a legal value (byte string
of at most 255 bytes → code 65, float → 68, integer → 66 / 79 / 73 by range) with 4-byte mnemonic and units is written
by `lisBytes()` and read back by `CbEngValRead` with the same type, code, size, category, mnemonic and units and the
value `rtVal v` (`v` itself for bytes and integers, `from68(to68 v)` for floats) — unless it is an empty byte string at
the very end of the logical data (finding C08-EMPTYLAST: it then reads as `None`). -/
theorem cb_roundtrip (t : Nat) (v : Val) (m : Bytes) (u : Option Bytes) (rest : Bytes)
    (ht : t = 73 ∨ t = 0 ∨ t = 69) (hv : v.legal) (hm : m.length = 4) (hu : (unitsOf u).length = 4)
    (hne : v = .bytes [] → rest ≠ []) :
    ∃ cb bs, cbWrite t v m u = .ok cb ∧ encCb cb = .ok bs ∧
      readCb (bs ++ rest) = .ok (⟨t, rcOf v, sizeOf v, 0, m, unitsOf u, some (rtVal v)⟩, rest) := by
  obtain ⟨bs, he, _, hr⟩ := cb_enc_read t v m (unitsOf u) rest (by omega) hv hm hu hne
  exact ⟨_, bs, cbWrite_eq t v m u ht hv, he, hr⟩

/-- the empty-bytes-at-the-end case is really different: the value comes back as `None` (what the code does) -/
theorem cb_empty_last_reads_none (t : Nat) (m un : Bytes) (hm : m.length = 4) (hu : un.length = 4) :
    readCb ([t, 65, 0, 0] ++ m ++ un) = .ok (⟨t, 65, 0, 0, m, un, none⟩, []) := by
  obtain ⟨m0, m1, m2, m3, rfl⟩ := len4 m hm
  obtain ⟨u0, u1, u2, u3, rfl⟩ := len4 un hu
  simp [readCb, unpackN, readLr]

/-! ## Tables -/

def tcbOf (t : TableSpec) : Cb := cellCb 73 mnemTYPE ⟨t.name, some spaces4⟩

/-- the blocks of all rows of the specification, before de-duplication -/
def allRowCbs (t : TableSpec) : List (List Cb) := t.rows.map (fun r => rowCbsFrom 0 r t.mnems)

/-- The domain of `table_roundtrip`. -/
structure TableOk (t : TableSpec) : Prop where
  lrType : isTableLrType t.lrType = true
  nameLegal : t.name.legal
  nameNe : t.name ≠ .bytes []
  mnems4 : ∀ m ∈ t.mnems, m.length = 4
  mnemsNodup : t.mnems.Nodup
  mnemsNe : t.mnems ≠ []
  rowLen : ∀ r ∈ t.rows, r.length = t.mnems.length
  cells : ∀ r ∈ t.rows, ∀ c ∈ r, c.v.legal ∧ (unitsOf c.u).length = 4
  /-- row names are not changed by a write/read cycle (bytes, integers, code-68 representable floats) -/
  stableNames : ∀ r ∈ t.rows, ∀ c, r.head? = some c → rtVal c.v = c.v
  /-- a column named `MNEM` holds byte strings (otherwise: finding C08-MNEMTYPE, `TypeError`) -/
  mnemCol : ∀ r ∈ allRowCbs t, MnemOk r
  /-- the very last block written is not an empty byte string (otherwise: finding C08-EMPTYLAST) -/
  lastNonEmpty : ∀ cb, ((kept (allRowCbs t)).flatten).getLast? = some cb → cb.val ≠ some (.bytes [])

theorem rowValue_rowCbs (r : List Cell) (ms : List Bytes) (hl : r.length = ms.length) (hne : ms ≠ []) :
    ∃ c, r.head? = some c ∧ rowValue (rowCbsFrom 0 r ms) = some c.v := by
  cases r with
  | nil => cases ms with
    | nil => exact absurd rfl hne
    | cons m ms => simp at hl
  | cons c cs => cases ms with
    | nil => simp at hl
    | cons m ms => exact ⟨c, rfl, rfl⟩

/-- **Table round trip.** For every table specification in the domain: `LrTableWrite` builds a table `W` whose rows
are the first-kept rows of the specification (`kept`), `genLisBytes` succeeds, and `LrTableRead` on those bytes gives a
table `R` with the same name block, the same rows in the same order, cell for cell the same type / code / size /
mnemonic / units and the value passed through `rtVal`, a row index that lists the row names in order, and the same
column labels.  (`W.rows` and `tcbOf`/`rowCbsFrom` spell out name, mnemonic, units and value of each cell.) -/
theorem table_roundtrip (t : TableSpec) (ok : TableOk t) :
    ∃ W bs R, tableWrite t = .ok W ∧ tableLrBytes t.lrType W = .ok bs ∧ tableRead bs = .ok R ∧
      W.tcb = some (tcbOf t) ∧ W.rows = kept (allRowCbs t) ∧
      R.tcb = some (rtCb (tcbOf t)) ∧ R.rows = W.rows.map (·.map rtCb) ∧
      R.rowIdx.map (·.1) = R.rows.map rowValue ∧ R.rowIdx.map (·.2) = List.range R.rows.length ∧
      colKeys W.cols = (if t.rows = [] then [] else t.mnems) ∧
      colKeys R.cols = (if W.rows = [] then [] else t.mnems) := by
  -- the writer
  have hlt : ¬ (!isTableLrType t.lrType) = true := by simp [ok.lrType]
  have htcb : cbWrite 73 t.name mnemTYPE (some spaces4) = .ok (tcbOf t) :=
    cbWrite_cell 73 mnemTYPE ⟨t.name, some spaces4⟩ (by simp) ok.nameLegal
  let st0 : TS := { TS.empty with tcb := some (tcbOf t) }
  have hW0 : tableWrite t = runRows (allRowCbs t) st0 := by
    simp only [tableWrite, hlt, if_false, htcb]
    exact writeRows_eq t.mnems ok.mnemsNe t.rows st0 rfl ok.rowLen (fun r hr x hx => (ok.cells r hr x hx).1)
  have hinv0 : Inv st0 := ⟨rfl, rfl⟩
  obtain ⟨W, hW, hWt, _, hWr, hWc⟩ := runRows_spec (allRowCbs t) ok.mnemCol st0 hinv0
  have hWr' : W.rows = kept (allRowCbs t) := by simpa [st0, TS.empty, kept] using hWr
  have hallmn : ∀ r ∈ allRowCbs t, r.map (·.mnem) = t.mnems := by
    intro r hr
    obtain ⟨r0, hr0, rfl⟩ := List.mem_map.1 hr
    exact rowCbsFrom_mnems r0 t.mnems 0 (ok.rowLen r0 hr0)
  have hWck : colKeys W.cols = (if t.rows = [] then [] else t.mnems) := by
    rw [hWc]
    have := colKeys_rows t.mnems ok.mnemsNodup (allRowCbs t) hallmn
    simpa [st0, TS.empty, allRowCbs] using this
  -- every block is good
  have hgoodT : CbGood (tcbOf t) :=
    ⟨73, t.name, mnemTYPE, spaces4, rfl, by decide, ok.nameLegal, rfl, rfl⟩
  have hgoodAll : ∀ r ∈ allRowCbs t, ∀ cb ∈ r, CbGood cb := by
    intro r hr cb hcb
    obtain ⟨r0, hr0, rfl⟩ := List.mem_map.1 hr
    exact rowCbs_good r0 t.mnems 0 (ok.cells r0 hr0) ok.mnems4 cb hcb
  have hkeptMem : ∀ r ∈ W.rows, r ∈ allRowCbs t := by
    intro r hr; rw [hWr'] at hr; exact keptAux_mem hr
  -- the bytes
  have hinorder : ∀ r ∈ W.rows, rowInColOrder W.cols r = r := by
    intro r hr
    have hne : t.rows ≠ [] := by
      intro h
      have := hkeptMem r hr
      simp [allRowCbs, h] at this
    apply rowInColOrder_self
    · rw [hWck, hallmn r (hkeptMem r hr)]; simp [hne]
    · rw [hallmn r (hkeptMem r hr)]; exact ok.mnemsNodup
  let rowItems : List (Bytes × Cb) := (W.rows.flatten).map (fun cb => (encRaw cb, rtCb cb))
  have hflatGood : ∀ cb ∈ W.rows.flatten, CbGood cb := by
    intro cb hcb
    obtain ⟨r, hr, hcr⟩ := List.mem_flatten.1 hcb
    exact hgoodAll r (hkeptMem r hr) cb hcr
  have hgen : genLisBytes W = .ok (encRaw (tcbOf t) ++ rowItems.flatMap (·.1)) := by
    unfold genLisBytes
    rw [hWt]
    have h1 : (W.rows.flatMap (fun row => (rowInColOrder W.cols row).map encCb)) = (W.rows.flatten).map encCb := by
      rw [List.flatMap_def, List.map_flatten]
      congr 1
      apply List.map_congr_left
      intro r hr; rw [hinorder r hr]
    have hfm : rowItems.flatMap (·.1) = (W.rows.flatten).flatMap encRaw := by
      simp only [rowItems, List.flatMap_map]
    have h2 : concatE ((W.rows.flatten).map encCb) = .ok (rowItems.flatMap (·.1)) := by
      have := concatE_ok ((W.rows.flatten).map (fun cb => (encRaw cb, cb))) (by
        intro p hp
        obtain ⟨cb, hcb, rfl⟩ := List.mem_map.1 hp
        exact (cbGood_enc cb (hflatGood cb hcb)).1)
      rw [hfm]
      simpa only [List.map_map, Function.comp_def, List.flatMap_map] using this
    simp only [st0, List.singleton_append, concatE, (cbGood_enc _ hgoodT).1, h1, h2]
  refine ⟨W, [t.lrType, 0] ++ (encRaw (tcbOf t) ++ rowItems.flatMap (·.1)), ?_⟩
  -- the reader
  have hitemsEnc : ∀ p ∈ rowItems, EncOk p.1 p.2 := by
    intro p hp
    obtain ⟨cb, hcb, rfl⟩ := List.mem_map.1 hp
    exact (cbGood_enc cb (hflatGood cb hcb)).2.1
  have hitemsLast : ∀ p, rowItems.getLast? = some p → p.2.val ≠ some (.bytes []) := by
    intro p hp
    simp only [rowItems, List.getLast?_map, Option.map_eq_some_iff] at hp
    obtain ⟨cb, hcb, rfl⟩ := hp
    have := ok.lastNonEmpty cb (by rw [← hWr']; exact hcb)
    intro h
    apply this
    simp only [rtCb, Option.map_eq_some_iff] at h
    obtain ⟨v, hv, hv2⟩ := h
    rw [hv, rtVal_empty hv2]
  have hfuel : rowItems.length ≤ (rowItems.flatMap (·.1)).length := by
    apply length_le_flatMap
    intro p hp
    obtain ⟨cb, hcb, rfl⟩ := List.mem_map.1 hp
    have := (cbGood_enc cb (hflatGood cb hcb)).2.2
    simp only; omega
  have hloop := tableLoop_enc rowItems hitemsEnc hitemsLast
  let stR : TS := { TS.empty with tcb := some (rtCb (tcbOf t)) }
  let rtRows : List (List Cb) := W.rows.map (·.map rtCb)
  have hsnd : rowItems.map (·.2) = rtRows.flatten := by
    simp [rowItems, rtRows, List.map_map, Function.comp_def, List.map_flatten]
  have hRowOkAll : ∀ r ∈ allRowCbs t, RowOk r := by
    intro r hr
    obtain ⟨r0, hr0, rfl⟩ := List.mem_map.1 hr
    exact rowOk_rowCbs r0 t.mnems (ok.rowLen r0 hr0) ok.mnemsNe
  have hrtRowOk : ∀ r ∈ rtRows, RowOk r := by
    intro r hr
    obtain ⟨r0, hr0, rfl⟩ := List.mem_map.1 hr
    exact rowOk_map_rt r0 (hRowOkAll r0 (hkeptMem r0 hr0))
  have hrtMnemOk : ∀ r ∈ rtRows, MnemOk r := by
    intro r hr
    obtain ⟨r0, hr0, rfl⟩ := List.mem_map.1 hr
    exact mnemOk_map_rt r0 (ok.mnemCol r0 (hkeptMem r0 hr0))
  have hreg := reader_regroup rtRows hrtRowOk stR rfl
  rw [indexLast_nil stR rfl] at hreg
  have hreg' : (stepAll rtRows.flatten stR).bind indexLast = runRows rtRows stR := hreg
  obtain ⟨R, hR, hRt, hRinv, hRr, hRc⟩ := runRows_spec rtRows hrtMnemOk stR ⟨rfl, rfl⟩
  have hread : tableRead ([t.lrType, 0] ++ (encRaw (tcbOf t) ++ rowItems.flatMap (·.1))) = .ok R := by
    have hfirst : readCb (encRaw (tcbOf t) ++ rowItems.flatMap (·.1)) = .ok (rtCb (tcbOf t), rowItems.flatMap (·.1)) := by
      apply (cbGood_enc _ hgoodT).2.1.2
      intro h
      exfalso
      simp only [rtCb, tcbOf, cellCb, Option.map_some, Option.some.injEq] at h
      exact ok.nameNe (rtVal_empty h)
    have hu2 : unpackN 2 ([t.lrType, 0] ++ (encRaw (tcbOf t) ++ rowItems.flatMap (·.1)))
        = .ok ([t.lrType, 0], encRaw (tcbOf t) ++ rowItems.flatMap (·.1)) :=
      unpackN_append [t.lrType, 0] _ (by simp)
    unfold tableRead
    rw [hu2]
    simp only [List.getD_cons_zero, hlt, if_false, hfirst]
    have h73 : (rtCb (tcbOf t)).type = 73 := rfl
    simp only [h73, if_true]
    rw [hloop _ stR hfuel, hsnd]
    have : (stepAll rtRows.flatten stR).bind indexLast = .ok R := by rw [hreg']; exact hR
    cases hs : stepAll rtRows.flatten stR with
    | error e => rw [hs] at this; simp [Except.bind] at this
    | ok st' => rw [hs] at this; simpa [Except.bind] using this
  -- what was read
  have hstable : ∀ r ∈ kept (allRowCbs t), rowValue (r.map rtCb) = rowValue r := by
    intro r hr
    have hmem : r ∈ allRowCbs t := keptAux_mem hr
    obtain ⟨r0, hr0, rfl⟩ := List.mem_map.1 hmem
    obtain ⟨c, hc, hval⟩ := rowValue_rowCbs r0 t.mnems (ok.rowLen r0 hr0) ok.mnemsNe
    cases hrc : rowCbsFrom 0 r0 t.mnems with
    | nil => rfl
    | cons a as =>
      rw [hrc] at hval
      simp only [List.map_cons, rowValue] at hval ⊢
      simp only [rtCb, hval, Option.map_some, ok.stableNames r0 hr0 c hc]
  have hRrows : R.rows = W.rows.map (·.map rtCb) := by
    rw [hRr]
    simp only [stR, TS.empty, List.nil_append, List.map_nil, rtRows, hWr']
    rw [keptAux_map_on (·.map rtCb) _ (fun r hr => hstable r hr)]
    unfold kept
    rw [keptAux_idem]
  have hRck : colKeys R.cols = (if W.rows = [] then [] else t.mnems) := by
    rw [hRc]
    have := colKeys_rows t.mnems ok.mnemsNodup rtRows (by
      intro r hr
      obtain ⟨r0, hr0, rfl⟩ := List.mem_map.1 hr
      rw [List.map_map]
      have : ((fun x => x.mnem) ∘ rtCb) = (fun x : Cb => x.mnem) := rfl
      rw [this]; exact hallmn r0 (hkeptMem r0 hr0))
    simpa [stR, TS.empty, rtRows] using this
  refine ⟨R, by rw [hW0]; exact hW, by simp [tableLrBytes, hgen], hread, hWt, hWr', by rw [hRt], hRrows, hRinv.names, hRinv.idx, hWck, hRck⟩

/-! ## Duplicate rows -/

theorem keyEq_refl (k : Option Val) : keyEq k k = true := by
  cases k with
  | none => rfl
  | some v => cases v <;> simp [keyEq, Val.pyEq]

/-- **Duplicate rows are dropped with the first kept** (reader, on any stream of rows — also hand-assembled ones):
after the table block, reading rows `rows` (each a type-0 block followed by type-69 blocks) leaves exactly
`kept rows`, in order, and the row index lists their names. -/
theorem dupe_rows_first_kept (tcb : Cb) (rows : List (List Cb)) (hrows : ∀ r ∈ rows, RowOk r)
    (hm : ∀ r ∈ rows, MnemOk r) :
    ∃ R, (stepAll rows.flatten { TS.empty with tcb := some tcb }).bind indexLast = .ok R ∧
      R.rows = kept rows ∧ R.rowIdx.map (·.1) = (kept rows).map rowValue ∧
      R.rowIdx.map (·.2) = List.range (kept rows).length := by
  have hreg := reader_regroup rows hrows { TS.empty with tcb := some tcb } rfl
  rw [indexLast_nil _ rfl] at hreg
  obtain ⟨R, hR, _, hinv, hr, _⟩ := runRows_spec rows hm { TS.empty with tcb := some tcb } ⟨rfl, rfl⟩
  have hr' : R.rows = kept rows := by simpa [TS.empty, kept] using hr
  exact ⟨R, by rw [hreg]; exact hR, hr', by rw [hinv.names, hr'], by rw [hinv.idx, hr']⟩

/-- `kept` only drops rows, never reorders -/
theorem kept_sublist (rows : List (List Cb)) : ∀ seen, (keptAux seen rows).Sublist rows := by
  induction rows with
  | nil => intro seen; simp [keptAux]
  | cons r rs ih =>
    intro seen
    simp only [keptAux]
    split
    · exact (ih seen).cons r
    · exact (ih _).cons₂ r

theorem keptAux_not_seen (rows : List (List Cb)) : ∀ seen, ∀ r ∈ keptAux seen rows,
    seen.any (fun s => keyEq s (rowValue r)) = false := by
  induction rows with
  | nil => intro seen r hr; simp [keptAux] at hr
  | cons a rs ih =>
    intro seen r hr
    simp only [keptAux] at hr
    split at hr
    · exact ih seen r hr
    · rename_i hns
      rcases List.mem_cons.1 hr with rfl | hr'
      · simpa using hns
      · have := ih _ r hr'
        simp only [List.any_append, Bool.or_eq_false_iff] at this
        exact this.1

/-- no two kept rows have equal names -/
theorem kept_names_distinct (rows : List (List Cb)) : ∀ seen,
    (keptAux seen rows).Pairwise (fun a b => keyEq (rowValue a) (rowValue b) = false) := by
  induction rows with
  | nil => intro seen; simp [keptAux]
  | cons a rs ih =>
    intro seen
    simp only [keptAux]
    split
    · exact ih seen
    · refine List.Pairwise.cons ?_ (ih _)
      intro b hb
      have := keptAux_not_seen rs _ b hb
      simp only [List.any_append, Bool.or_eq_false_iff, List.any_cons, List.any_nil, Bool.or_false] at this
      exact this.2

/-- every row's name is the name of a kept row (the kept one is the first of that name, `kept_sublist`) -/
theorem kept_covers (rows : List (List Cb)) : ∀ seen, ∀ r ∈ rows,
    seen.any (fun s => keyEq s (rowValue r)) = true ∨ ∃ k ∈ keptAux seen rows, keyEq (rowValue k) (rowValue r) = true := by
  induction rows with
  | nil => intro seen r hr; simp at hr
  | cons a rs ih =>
    intro seen r hr
    simp only [keptAux]
    by_cases ha : seen.any (fun s => keyEq s (rowValue a)) = true
    · simp only [ha, if_true]
      rcases List.mem_cons.1 hr with rfl | hr'
      · exact Or.inl ha
      · exact ih seen r hr'
    · simp only [ha, Bool.false_eq_true, if_false]
      rcases List.mem_cons.1 hr with rfl | hr'
      · exact Or.inr ⟨r, by simp, keyEq_refl _⟩
      · rcases ih (seen ++ [rowValue a]) r hr' with h | ⟨k, hk, hke⟩
        · simp only [List.any_append, Bool.or_eq_true, List.any_cons, List.any_nil, Bool.or_false] at h
          rcases h with h | h
          · exact Or.inl h
          · exact Or.inr ⟨a, by simp, h⟩
        · exact Or.inr ⟨k, by simp [hk], hke⟩

/-! ## Entry block sets -/

/-- the 15 blocks written before the terminator -/
def ebsPayload (E : List EB) : List EB := E.filter (fun e => e.type ≠ 10 ∧ e.type ≠ 0)

theorem ebs_explicit (E : List EB) (h : EBSOk E) :
    ∃ a0 a1 a2 a3 a4 a5 a6 a7 a8 a9 a10 a11 a12 a13 a14 a15 a16,
      E = [a0, a1, a2, a3, a4, a5, a6, a7, a8, a9, a10, a11, a12, a13, a14, a15, a16] ∧
      a0.type = 0 ∧ a1.type = 1 ∧ a2.type = 2 ∧ a3.type = 3 ∧ a4.type = 4 ∧ a5.type = 5 ∧ a6.type = 6 ∧ a7.type = 7 ∧
      a8.type = 8 ∧ a9.type = 9 ∧ a10.type = 10 ∧ a11.type = 11 ∧ a12.type = 12 ∧ a13.type = 13 ∧ a14.type = 14 ∧
      a15.type = 15 ∧ a16.type = 16 := by
  have hl : E.length = 17 := by have := congrArg List.length h.types; simpa using this
  obtain ⟨a0, a1, a2, a3, a4, a5, a6, a7, a8, a9, a10, a11, a12, a13, a14, a15, a16, rfl⟩ := len17 E hl
  have ht := h.types
  simp only [List.map_cons, List.map_nil, List.range, List.range.loop] at ht
  injection ht with h0 ht; injection ht with h1 ht; injection ht with h2 ht; injection ht with h3 ht
  injection ht with h4 ht; injection ht with h5 ht; injection ht with h6 ht; injection ht with h7 ht
  injection ht with h8 ht; injection ht with h9 ht; injection ht with h10 ht; injection ht with h11 ht
  injection ht with h12 ht; injection ht with h13 ht; injection ht with h14 ht; injection ht with h15 ht
  injection ht with h16 ht
  exact ⟨a0, a1, a2, a3, a4, a5, a6, a7, a8, a9, a10, a11, a12, a13, a14, a15, a16, rfl,
    h0, h1, h2, h3, h4, h5, h6, h7, h8, h9, h10, h11, h12, h13, h14, h15, h16⟩

theorem evenOf_term (E : List EB) : ∃ term, evenOf E = E.set 0 term ∧ EBLegal term ∧ term.type = 0 ∧
    (term.size = 0 ∨ term.size = 1) ∧ (ebsLisSize (E.set 0 term)) % 2 = 0 := by
  unfold evenOf
  split
  · rename_i hodd
    refine ⟨⟨0, 1, 66, some (.int 1)⟩, rfl, ⟨by decide, by decide, Or.inr ⟨.int 1, rfl, Or.inr (Or.inl ⟨rfl, rfl, 1, rfl, by decide, by decide⟩)⟩⟩, rfl, Or.inr rfl, ?_⟩
    cases E with
    | nil => simp [ebsLisSize] at hodd
    | cons a r =>
      simp only [List.set_cons_zero, ebsLisSize, List.filter_cons] at hodd ⊢
      simp only [ne_eq, show ¬ (0:Nat) = 10 by decide, not_false_eq_true, decide_true, if_true, List.map_cons, List.sum_cons] at hodd ⊢
      omega
  · rename_i heven
    exact ⟨⟨0, 0, 66, none⟩, rfl, ⟨by decide, by decide, Or.inl ⟨rfl, rfl⟩⟩, rfl, Or.inl rfl, by omega⟩

/-- **Entry block set round trip.** For every legal entry block set `E` (17 blocks, block `i` of type `i`, each either
without value and of size 0 or with a value whose size matches its representation code — hence for the set obtained
from the defaults by `setEntryBlock` on *any subset* of the blocks, `ebs_subset_legal`): `lisBytes()` succeeds, and
`readFromFile` on those bytes (followed by anything, e.g. the channel blocks), starting from any consistent set `E0`
(the defaults in `LrDFSRRead`), yields block for block the set that was written — values through `rtVal` —
except block 10, which is never written and keeps the reader's value, and the terminator, which is recomputed from
the parity of the sizes.  Everything after the terminator is left unread. -/
theorem ebs_roundtrip (E E0 : List EB) (hE : EBSOk E) (hE0 : integrity E0 = true) (rest : Bytes) :
    ∃ bs, ebsBytes E = .ok bs ∧
      ebsRead (bs ++ rest) E0 = .ok (evenOf ((E.map rtEB).set 10 (E0.getD 10 ⟨10, 0, 66, none⟩)), rest) := by
  have hint := ebsOk_integrity E hE
  obtain ⟨term, hterm, htl, ht0, _, _⟩ := evenOf_term E
  obtain ⟨a0, a1, a2, a3, a4, a5, a6, a7, a8, a9, a10, a11, a12, a13, a14, a15, a16, rfl,
    h0, h1, h2, h3, h4, h5, h6, h7, h8, h9, h10, h11, h12, h13, h14, h15, h16⟩ := ebs_explicit E hE
  let bl : List EB := [a1, a2, a3, a4, a5, a6, a7, a8, a9, a11, a12, a13, a14, a15, a16]
  have hfilter : (evenOf [a0, a1, a2, a3, a4, a5, a6, a7, a8, a9, a10, a11, a12, a13, a14, a15, a16]).filter
      (fun e => e.type ≠ 10 ∧ e.type ≠ 0) = bl := by
    rw [hterm]
    simp [List.filter, ht0, h1, h2, h3, h4, h5, h6, h7, h8, h9, h10, h11, h12, h13, h14, h15, h16, bl]
  have hget : (evenOf [a0, a1, a2, a3, a4, a5, a6, a7, a8, a9, a10, a11, a12, a13, a14, a15, a16]).getD 0 ⟨0, 0, 66, none⟩ = term := by
    rw [hterm]; rfl
  have hblSet : ∀ e ∈ bl, Settable e := by
    intro e he
    have hleg : EBLegal e := hE.legal e (by
      simp only [bl, List.mem_cons, List.mem_nil_iff, or_false] at he
      rcases he with rfl | rfl | rfl | rfl | rfl | rfl | rfl | rfl | rfl | rfl | rfl | rfl | rfl | rfl | rfl <;> simp)
    simp only [bl, List.mem_cons, List.mem_nil_iff, or_false] at he
    rcases he with rfl | rfl | rfl | rfl | rfl | rfl | rfl | rfl | rfl | rfl | rfl | rfl | rfl | rfl | rfl <;>
      refine ⟨hleg, ?_, ?_, ?_⟩ <;> omega
  have hbytes : ebsBytes [a0, a1, a2, a3, a4, a5, a6, a7, a8, a9, a10, a11, a12, a13, a14, a15, a16]
      = .ok (bl.flatMap encEBRaw ++ encEBRaw term) := by
    unfold ebsBytes
    rw [setEven_eq _ hint]
    simp only [hfilter, hget]
    exact concatE_ok_eb bl (fun e he => (encEBRaw_spec e (hblSet e he).1).1) _ _ (encEBRaw_spec term htl).1
  refine ⟨_, hbytes, ?_⟩
  have hfuel : bl.length + 1 ≤ (bl.flatMap encEBRaw ++ encEBRaw term ++ rest).length := by
    have h1 := length_le_flatMap_eb bl (fun e he => by rw [(encEBRaw_spec e (hblSet e he).1).2.1]; omega)
    have h2 := (encEBRaw_spec term htl).2.1
    simp only [List.length_append]
    omega
  have hloop := ebsLoop_list term htl ht0 rest bl hblSet E0 _ hE0 hfuel
  have hintR : integrity (evenOf (applyRead E0 bl)) = true :=
    integrity_evenOf _ (integrity_applyRead bl (fun e he => (hblSet e he).1) E0 hE0)
  unfold ebsRead
  rw [List.append_assoc] at hloop ⊢
  rw [hloop]
  simp only [setEven_eq _ hintR, evenOf_idem]
  -- the state: E0 with blocks 1..9, 11..16 replaced
  have hl0 : E0.length = 17 := by
    simp only [integrity, Bool.and_eq_true, beq_iff_eq] at hE0; exact hE0.1
  obtain ⟨f0, f1, f2, f3, f4, f5, f6, f7, f8, f9, f10, f11, f12, f13, f14, f15, f16, rfl⟩ := len17 E0 hl0
  have happly : applyRead [f0, f1, f2, f3, f4, f5, f6, f7, f8, f9, f10, f11, f12, f13, f14, f15, f16] bl
      = ([rtEB a0, rtEB a1, rtEB a2, rtEB a3, rtEB a4, rtEB a5, rtEB a6, rtEB a7, rtEB a8, rtEB a9, f10, rtEB a11,
          rtEB a12, rtEB a13, rtEB a14, rtEB a15, rtEB a16]).set 0 f0 := by
    simp [applyRead, bl, h1, h2, h3, h4, h5, h6, h7, h8, h9, h11, h12, h13, h14, h15, h16]
  rw [happly, evenOf_set0]
  rfl

/-- `setEntryBlock` keeps an entry block set legal, so every set reachable from the defaults by setting any subset of
the blocks (with legal sizes) is in the domain of `ebs_roundtrip`. -/
theorem ebs_setEB_legal (E : List EB) (e : EB) (hE : EBSOk E) (he : EBLegal e) (ht : e.type < 17) (h10 : e.type ≠ 10) :
    ∃ E', setEB e E = .ok E' ∧ EBSOk E' := by
  have hint := ebsOk_integrity E hE
  refine ⟨_, setEB_eq e E hint ht h10 (ebOk_of_legal' e he), ?_⟩
  obtain ⟨term, hterm, htl, ht0, _, _⟩ := evenOf_term (E.set e.type e)
  have hl : E.length = 17 := by have := congrArg List.length hE.types; simpa using this
  rw [hterm]
  constructor
  · apply List.ext_getElem
    · simp [hl]
    · intro i hi1 hi2
      simp only [List.getElem_map, List.getElem_range, List.getElem_set]
      have hEi : (E[i]'(by simp at hi1; omega)).type = i := by
        have := congrArg (fun l => l[i]?) hE.types
        simp only [List.getElem?_map, List.getElem?_range (by simp at hi2; omega : i < 17)] at this
        rw [List.getElem?_eq_getElem (by simp at hi1; omega)] at this
        simpa using this
      split
      · rename_i h; rw [ht0]; exact h
      · split
        · rename_i h; exact h
        · exact hEi
  · intro x hx
    rcases List.mem_or_eq_of_mem_set hx with hx | rfl
    · rcases List.mem_or_eq_of_mem_set hx with hx | rfl
      · exact hE.legal x hx
      · exact he
    · exact htl

/-- the defaults of `EntryBlockSet()` are a legal set -/
theorem ebs_default_legal : ∃ E, ebsDefault = .ok E ∧ EBSOk E := by
  refine ⟨evenOf ebsInit, setEven_eq _ (by decide), ?_, ?_⟩
  · decide
  · intro e he
    have : evenOf ebsInit = ⟨0, 0, 66, none⟩ :: ebsInit.tail := by decide
    rw [this] at he
    simp only [ebsInit, List.tail_cons, List.mem_cons, List.mem_nil_iff, or_false] at he
    rcases he with rfl | rfl | rfl | rfl | rfl | rfl | rfl | rfl | rfl | rfl | rfl | rfl | rfl | rfl | rfl | rfl | rfl
    all_goals first
      | exact ⟨by decide, by decide, Or.inl ⟨rfl, rfl⟩⟩
      | exact ⟨by decide, by decide, Or.inr ⟨_, rfl, Or.inr (Or.inl ⟨rfl, rfl, _, rfl, by decide, by decide⟩)⟩⟩
      | exact ⟨by decide, by decide, Or.inr ⟨_, rfl, Or.inl ⟨rfl, _, rfl, rfl, by decide, by decide⟩⟩⟩
      | exact ⟨by decide, by decide, Or.inr ⟨_, rfl, Or.inr (Or.inr (Or.inr (Or.inr ⟨rfl, rfl, _, rfl⟩)))⟩⟩

/-- **Even length.** The bytes of a legal entry block set have even length (48 bytes of block headers plus the sizes,
the terminator taking size 1 exactly when the other sizes sum to an odd number), and `lisSize()` is even. -/
theorem ebs_even_length (E : List EB) (hE : EBSOk E) :
    ∃ bs, ebsBytes E = .ok bs ∧ bs.length % 2 = 0 ∧ ebsLisSize (evenOf E) % 2 = 0 := by
  have hint := ebsOk_integrity E hE
  obtain ⟨term, hterm, htl, ht0, _, hpar⟩ := evenOf_term E
  obtain ⟨a0, a1, a2, a3, a4, a5, a6, a7, a8, a9, a10, a11, a12, a13, a14, a15, a16, rfl,
    h0, h1, h2, h3, h4, h5, h6, h7, h8, h9, h10, h11, h12, h13, h14, h15, h16⟩ := ebs_explicit E hE
  obtain ⟨bs, hbs, _⟩ := ebs_roundtrip _ (evenOf ebsInit) hE (by decide) []
  refine ⟨bs, hbs, ?_, by rw [hterm]; exact hpar⟩
  -- recompute the bytes
  let bl : List EB := [a1, a2, a3, a4, a5, a6, a7, a8, a9, a11, a12, a13, a14, a15, a16]
  have hfilter : (evenOf [a0, a1, a2, a3, a4, a5, a6, a7, a8, a9, a10, a11, a12, a13, a14, a15, a16]).filter
      (fun e => e.type ≠ 10 ∧ e.type ≠ 0) = bl := by
    rw [hterm]
    simp [List.filter, ht0, h1, h2, h3, h4, h5, h6, h7, h8, h9, h10, h11, h12, h13, h14, h15, h16, bl]
  have hget : (evenOf [a0, a1, a2, a3, a4, a5, a6, a7, a8, a9, a10, a11, a12, a13, a14, a15, a16]).getD 0 ⟨0, 0, 66, none⟩ = term := by
    rw [hterm]; rfl
  have hleg : ∀ e ∈ bl, EBLegal e := by
    intro e he
    apply hE.legal e
    simp only [bl, List.mem_cons, List.mem_nil_iff, or_false] at he
    rcases he with rfl | rfl | rfl | rfl | rfl | rfl | rfl | rfl | rfl | rfl | rfl | rfl | rfl | rfl | rfl <;> simp
  have hbytes : ebsBytes [a0, a1, a2, a3, a4, a5, a6, a7, a8, a9, a10, a11, a12, a13, a14, a15, a16]
      = .ok (bl.flatMap encEBRaw ++ encEBRaw term) := by
    unfold ebsBytes
    rw [setEven_eq _ hint]
    simp only [hfilter, hget]
    exact concatE_ok_eb bl (fun e he => (encEBRaw_spec e (hleg e he)).1) _ _ (encEBRaw_spec term htl).1
  rw [hbytes] at hbs
  cases hbs
  have L := fun e he => (encEBRaw_spec e (hleg e he)).2.1
  have hpar' : (term.size + a1.size + a2.size + a3.size + a4.size + a5.size + a6.size + a7.size + a8.size + a9.size
      + a11.size + a12.size + a13.size + a14.size + a15.size + a16.size) % 2 = 0 := by
    simp [ebsLisSize, List.filter, ht0, h1, h2, h3, h4, h5, h6, h7, h8, h9, h10, h11, h12, h13, h14, h15, h16] at hpar
    omega
  simp only [bl, List.flatMap_cons, List.flatMap_nil, List.length_append, List.length_nil,
    L a1 (by simp [bl]), L a2 (by simp [bl]), L a3 (by simp [bl]), L a4 (by simp [bl]), L a5 (by simp [bl]),
    L a6 (by simp [bl]), L a7 (by simp [bl]), L a8 (by simp [bl]), L a9 (by simp [bl]), L a11 (by simp [bl]),
    L a12 (by simp [bl]), L a13 (by simp [bl]), L a14 (by simp [bl]), L a15 (by simp [bl]), L a16 (by simp [bl]),
    (encEBRaw_spec term htl).2.1]
  omega

/-! ## Datum specification blocks and the whole format specification -/

/-- **Derived bursts and sub-channels**, stated independently of the code's branches: a dipmeter channel (codes 130 /
234) has 5 / 15 sub-channels and one burst; any other channel of `b` bursts of `sa` samples of a `w`-byte code
(`size = b·w·sa`) has one sub-channel and `b` bursts. -/
theorem bursts_spec (rc : Nat) (size : Int) (sa : Nat) :
    (rc = 130 → burstsSub rc size sa = .ok (1, 5)) ∧ (rc = 234 → burstsSub rc size sa = .ok (1, 15)) ∧
    (∀ w b : Nat, rc ≠ 130 → rc ≠ 234 → rcLisSize rc = some w → 0 < w → 0 < sa → 0 < b → size = ((b * (w * sa) : Nat) : Int) →
      burstsSub rc size sa = .ok (b, 1)) := by
  refine ⟨by intro h; simp [burstsSub, h], by intro h; simp [burstsSub, h], ?_⟩
  intro w b h130 h234 hw hwp hsa hb hsize
  have hpos : 0 < w * sa := Nat.mul_pos hwp hsa
  have hsz : 0 < size := by rw [hsize]; exact_mod_cast Nat.mul_pos hb hpos
  have htn : size.toNat = b * (w * sa) := by rw [hsize]; exact Int.toNat_natCast _
  have hne : ¬ w * sa = 0 := by omega
  simp only [burstsSub, h130, h234, if_false, hsz, if_true, hw, hne, htn, Nat.mul_mod_left, ne_eq, not_true_eq_false,
    Nat.mul_div_cancel _ hpos]

/-- **Channel block round trip.** A channel specification whose fields fit the 40-byte block is packed by
`ChannelSpec.dsbBytes` and read back by `DatumSpecBlockRead` with the same mnemonic, service id / order, units, API
digits, file number, size, samples and representation code, and the bursts / sub-channels derived by `bursts_spec`. -/
theorem dsb_roundtrip (c : ChanSpec) (h : ChanOk c) (b sc : Nat)
    (hb : burstsSub c.rc.toNat c.chLen c.sa.toNat = .ok (b, sc)) :
    ∃ bs, dsbBytes c = .ok bs ∧ bs.length = 40 ∧ ∀ rest, readDsb (bs ++ rest) = .ok (dsbOf c b sc, rest) := by
  obtain ⟨bs, h1, h2, h3⟩ := dsb_enc_read c h
  refine ⟨bs, h1, h2, ?_⟩
  intro rest; rw [h3 rest, hb]

def dsbOfChan (c : ChanSpec) : Dsb :=
  match burstsSub c.rc.toNat c.chLen c.sa.toNat with
  | .ok (b, sc) => dsbOf c b sc
  | .error _ => dsbOf c 0 0

/-- **Format specification round trip.** A legal entry block set whose DSB-type block (2) holds 0, followed by channel
blocks with consistent (size, samples, code): `LrDFSRRead` gives back the entry block set (`ebs_roundtrip`) and the
channel definitions in order; channels of size 0 ("null") are dropped by design. -/
theorem dfsr_roundtrip (E : List EB) (chans : List ChanSpec) (hE : EBSOk E)
    (h2 : ∃ e2, E[2]? = some e2 ∧ keyEq (e2.val.map rtVal) (some (.int 0)) = true)
    (hch : ∀ c ∈ chans, ChanOk c ∧ ∃ b sc, burstsSub c.rc.toNat c.chLen c.sa.toNat = .ok (b, sc)) :
    ∃ bs, dfsrLrBytes E chans = .ok bs ∧
      dfsrRead bs = .ok (evenOf ((E.map rtEB).set 10 ⟨10, 0, 66, none⟩),
                         (chans.map dsbOfChan).filter (fun d => d.size ≠ 0)) := by
  -- channel bytes
  have hcb : ∀ c ∈ chans, ∃ bs, dsbBytes c = .ok bs ∧ bs.length = 40 ∧ ∀ rest, readDsb (bs ++ rest) = .ok (dsbOfChan c, rest) := by
    intro c hc
    obtain ⟨hok, b, sc, hb⟩ := hch c hc
    obtain ⟨bs, h1, h2', h3⟩ := dsb_roundtrip c hok b sc hb
    exact ⟨bs, h1, h2', by intro rest; rw [h3 rest]; simp [dsbOfChan, hb]⟩
  let raw : ChanSpec → Bytes := fun c => match dsbBytes c with | .ok b => b | .error _ => []
  have hraw : ∀ c ∈ chans, dsbBytes c = .ok (raw c) ∧ (raw c).length = 40 ∧ ∀ rest, readDsb (raw c ++ rest) = .ok (dsbOfChan c, rest) := by
    intro c hc
    obtain ⟨bs, h1, h2', h3⟩ := hcb c hc
    have : raw c = bs := by simp [raw, h1]
    rw [this]; exact ⟨h1, h2', h3⟩
  let cbytes : Bytes := chans.flatMap raw
  have hconc : concatE (chans.map dsbBytes) = .ok cbytes := by
    have := concatE_ok_dsb (chans.map (fun c => (c, raw c))) (by
      intro p hp
      obtain ⟨c, hc, rfl⟩ := List.mem_map.1 hp
      exact (hraw c hc).1)
    simpa [List.map_map, Function.comp_def, List.flatMap_map, cbytes] using this
  have hE0 : ebsDefault = .ok (evenOf ebsInit) := setEven_eq _ (by decide)
  obtain ⟨eb, heb, hread⟩ := ebs_roundtrip E (evenOf ebsInit) hE (by decide) cbytes
  have h10 : (evenOf ebsInit).getD 10 ⟨10, 0, 66, none⟩ = ⟨10, 0, 66, none⟩ := by decide
  rw [h10] at hread
  refine ⟨[64, 0] ++ eb ++ cbytes, by simp [dfsrLrBytes, heb, hconc], ?_⟩
  have hu2 : unpackN 2 ([64, 0] ++ eb ++ cbytes) = .ok ([64, 0], eb ++ cbytes) := by
    rw [List.append_assoc]; exact unpackN_append [64, 0] _ (by simp)
  -- block 2 of what was read
  have hblock2 : keyEq ((evenOf ((E.map rtEB).set 10 ⟨10, 0, 66, none⟩)).getD 2 ⟨2, 0, 66, none⟩).val (some (.int 0)) = true := by
    obtain ⟨e2, he2, hk⟩ := h2
    obtain ⟨a0, a1, a2, a3, a4, a5, a6, a7, a8, a9, a10, a11, a12, a13, a14, a15, a16, rfl, _⟩ := ebs_explicit E hE
    simp only [List.getElem?_cons_succ, List.getElem?_cons_zero, Option.some.injEq] at he2
    subst he2
    unfold evenOf
    split <;> simpa [rtEB] using hk
  -- the channel loop
  let items : List (Bytes × Dsb) := chans.map (fun c => (raw c, dsbOfChan c))
  have hitems : ∀ p ∈ items, p.1.length = 40 ∧ ∀ rest, readDsb (p.1 ++ rest) = .ok (p.2, rest) := by
    intro p hp
    obtain ⟨c, hc, rfl⟩ := List.mem_map.1 hp
    exact ⟨(hraw c hc).2.1, (hraw c hc).2.2⟩
  have hfm : items.flatMap (·.1) = cbytes := by simp [items, cbytes, List.flatMap_map]
  have hfuel : items.length ≤ cbytes.length := by
    rw [← hfm]
    exact length_le_flatMap_dsb items (fun p hp => by rw [(hitems p hp).1]; omega)
  have hloop := dsbLoop_list items hitems cbytes.length [] hfuel
  rw [hfm] at hloop
  have hsnd : items.map (·.2) = chans.map dsbOfChan := by simp [items, List.map_map, Function.comp_def]
  unfold dfsrRead
  rw [hu2]
  simp only [List.getD_cons_zero, ne_eq, not_true_eq_false, if_false, hE0, hread, hblock2, Bool.not_true,
    Bool.false_eq_true, hloop, List.nil_append, hsnd]

/-! ## Floats: representable values are fixed points; every subset of entry blocks; exact tables -/

/-- **Code 68 representable floats round-trip exactly**: zero, or an odd mantissa with `frexp` exponent in (−151, 127]
and no bit below 2^(max(exponent, −128) − 23).  (For all other finite floats the decoded value is `from68(to68 v)`
by `cb_roundtrip`/`table_roundtrip`; that it is within 2⁻²² relative of `v` is C07's theorem and is assumed, not
proved, here.) -/
theorem f68_roundtrip (d : Dy) (h : Rep68 d) : rtVal (.float d) = .float d := by
  simp [rtVal, f68_fixed d h]

/-- values that come back exactly -/
def ValExact : Val → Prop
  | .float d => Rep68 d
  | _ => True

theorem rtVal_exact (v : Val) (h : ValExact v) : rtVal v = v := by
  cases v with
  | float d => exact f68_roundtrip d h
  | bytes b => rfl
  | int i => rfl

theorem rowCbs_exact (cells : List Cell) : ∀ (ms : List Bytes) (c : Nat), (∀ x ∈ cells, ValExact x.v) →
    ∀ cb ∈ rowCbsFrom c cells ms, rtCb cb = cb := by
  induction cells with
  | nil => intro ms c _ cb h; simp [rowCbsFrom] at h
  | cons a xs ih =>
    intro ms c hv cb h
    cases ms with
    | nil => simp [rowCbsFrom] at h
    | cons m ms =>
      simp only [rowCbsFrom, List.mem_cons] at h
      rcases h with rfl | h
      · simp [rtCb, cellCb, rtVal_exact a.v (hv a (by simp))]
      · exact ih ms (c + 1) (fun x hx => hv x (by simp [hx])) cb h

/-- **Exact table round trip**: when every float in the table is code-68 representable, the table that is read is the
table that was written — same name block, same rows, same cells (and then `stableNames` holds automatically). -/
theorem table_roundtrip_exact (t : TableSpec) (ok : TableOk t) (hname : ValExact t.name)
    (hexact : ∀ r ∈ t.rows, ∀ c ∈ r, ValExact c.v) :
    ∃ W bs R, tableWrite t = .ok W ∧ tableLrBytes t.lrType W = .ok bs ∧ tableRead bs = .ok R ∧
      R.tcb = W.tcb ∧ R.rows = W.rows ∧ W.rows = kept (allRowCbs t) := by
  obtain ⟨W, bs, R, h1, h2, h3, hWt, hWr, hRt, hRr, _⟩ := table_roundtrip t ok
  refine ⟨W, bs, R, h1, h2, h3, ?_, ?_, hWr⟩
  · rw [hRt, hWt]; simp [rtCb, tcbOf, cellCb, rtVal_exact t.name hname]
  · rw [hRr]
    have : ∀ r ∈ W.rows, r.map rtCb = r := by
      intro r hr
      rw [hWr] at hr
      have hmem := keptAux_mem hr
      obtain ⟨r0, hr0, rfl⟩ := List.mem_map.1 hmem
      have := rowCbs_exact r0 t.mnems 0 (hexact r0 hr0)
      calc (rowCbsFrom 0 r0 t.mnems).map rtCb = (rowCbsFrom 0 r0 t.mnems).map id :=
            List.map_congr_left (fun cb hcb => this cb hcb)
        _ = _ := List.map_id _
    calc W.rows.map (·.map rtCb) = W.rows.map id := List.map_congr_left (fun r hr => this r hr)
      _ = W.rows := List.map_id _

/-- apply `setEntryBlock` for each block of a list, as a user building a format specification does -/
def setAll : List EB → List EB → Except Err (List EB)
  | [], E => .ok E
  | e :: r, E => match setEB e E with
    | .ok E' => setAll r E'
    | .error er => .error er

/-- **Every subset**: starting from the defaults and setting any list of legal blocks (hence any subset of the 16
settable block types 0…16 without 10, in any order, also repeatedly) gives a legal entry block set, to which
`ebs_roundtrip`, `ebs_even_length` and `dfsr_roundtrip` apply. -/
theorem ebs_subset_legal (bl : List EB) (hbl : ∀ e ∈ bl, EBLegal e ∧ e.type < 17 ∧ e.type ≠ 10) :
    ∃ E0 E, ebsDefault = .ok E0 ∧ setAll bl E0 = .ok E ∧ EBSOk E := by
  obtain ⟨E0, h0, hok0⟩ := ebs_default_legal
  refine ⟨E0, ?_⟩
  have : ∀ (bl : List EB) (E : List EB), (∀ e ∈ bl, EBLegal e ∧ e.type < 17 ∧ e.type ≠ 10) → EBSOk E →
      ∃ E', setAll bl E = .ok E' ∧ EBSOk E' := by
    intro bl
    induction bl with
    | nil => intro E _ h; exact ⟨E, rfl, h⟩
    | cons e r ih =>
      intro E hbl h
      obtain ⟨hl, ht, h10⟩ := hbl e (by simp)
      obtain ⟨E1, hs, hok1⟩ := ebs_setEB_legal E e h hl ht h10
      obtain ⟨E2, hs2, hok2⟩ := ih E1 (fun x hx => hbl x (by simp [hx])) hok1
      exact ⟨E2, by simp [setAll, hs, hs2], hok2⟩
  obtain ⟨E, h1, h2⟩ := this bl E0 hbl hok0
  exact ⟨E, h0, h1, h2⟩

/-! ## Non-vacuity: concrete instances meet the hypotheses and compute -/

def exTable : TableSpec :=
  ⟨34, .bytes [70, 73, 76, 77], [mnemMNEM, [71, 67, 79, 68], [76, 69, 68, 71]],
   [[⟨.bytes [49, 32, 32, 32], none⟩, ⟨.int 300, none⟩, ⟨.float ⟨-5, 4⟩, some [77, 86, 32, 32]⟩],
    [⟨.bytes [50, 32, 32, 32], none⟩, ⟨.int (-7), none⟩, ⟨.float ⟨1, -1⟩, none⟩],
    [⟨.bytes [49, 32, 32, 32], none⟩, ⟨.bytes [], none⟩, ⟨.int 70000, none⟩]]⟩

example : (kept (allRowCbs exTable)).length = 2 := by decide
def exCheckTable (t : TableSpec) : Bool :=
  match tableWrite t with
  | .ok W =>
    match tableLrBytes t.lrType W with
    | .ok bs =>
      match tableRead bs with
      | .ok R => decide (R.rows = W.rows ∧ R.rows.length = 2 ∧ R.tcb = W.tcb)
      | .error _ => false
    | .error _ => false
  | .error _ => false

example : exCheckTable exTable = true := by decide
example : Rep68 ⟨-3997, -2⟩ := by right; decide
example : Rep68 ⟨1, -140⟩ := by right; decide
example : from68 (to68 ⟨-3997, -2⟩) = ⟨-3997, -2⟩ := by decide
example : ∃ E0, ebsDefault = .ok E0 ∧ EBSOk E0 := ebs_default_legal
example : EBLegal ⟨8, 4, 68, some (.float ⟨1, -1⟩)⟩ :=
  ⟨by decide, by decide, Or.inr ⟨_, rfl, Or.inr (Or.inr (Or.inr (Or.inr ⟨rfl, rfl, _, rfl⟩)))⟩⟩
example : ChanOk ⟨[68, 69, 80, 84], [83, 101, 114, 118, 73, 68], [83, 101, 114, 118, 79, 114, 100, 78], [70, 69, 69, 84],
    45310011, 256, 96, 4, 68⟩ := by constructor <;> decide
example : burstsSub 68 96 4 = .ok (6, 1) := by decide
def exCheckDfsr (E : List EB) (ch : List ChanSpec) : Bool :=
  match dfsrLrBytes E ch with
  | .ok bs =>
    match dfsrRead bs with
    | .ok (E', ds) => decide (ds.length = 1 ∧ E'.length = 17 ∧ bs.length % 2 = 0)
    | .error _ => false
  | .error _ => false

example : exCheckDfsr (evenOf ebsInit) [⟨[68, 69, 80, 84], [83, 101, 114, 118, 73, 68], [83, 101, 114, 118, 79, 114, 100, 78],
    [70, 69, 69, 84], 45310011, 256, 96, 4, 68⟩] = true := by decide

/-- the hypotheses of `table_roundtrip` are satisfiable by a table with a duplicate row, an empty byte cell (not last),
integers of two sizes, floats with units -/
example : TableOk exTable where
  lrType := rfl
  nameLegal := by simp [exTable, Val.legal]
  nameNe := by simp [exTable]
  mnems4 := by simp [exTable, mnemMNEM]
  mnemsNodup := by decide
  mnemsNe := by simp [exTable]
  rowLen := by simp [exTable]
  cells := by simp [exTable, Val.legal, unitsOf, spaces4]
  stableNames := by simp [exTable, rtVal]
  mnemCol := by
    intro r hr
    simp only [allRowCbs, exTable, List.map_cons, List.map_nil, List.mem_cons, List.mem_nil_iff, or_false] at hr
    rcases hr with rfl | rfl | rfl
    · exact Or.inr ⟨cellCb 0 mnemMNEM ⟨.bytes [49, 32, 32, 32], none⟩, [49, 32, 32, 32], by decide, rfl⟩
    · exact Or.inr ⟨cellCb 0 mnemMNEM ⟨.bytes [50, 32, 32, 32], none⟩, [50, 32, 32, 32], by decide, rfl⟩
    · exact Or.inr ⟨cellCb 0 mnemMNEM ⟨.bytes [49, 32, 32, 32], none⟩, [49, 32, 32, 32], by decide, rfl⟩
  lastNonEmpty := by
    intro cb h
    have : ((kept (allRowCbs exTable)).flatten).getLast? = some (cellCb 69 [76, 69, 68, 71] ⟨.float ⟨1, -1⟩, none⟩) := by decide
    rw [this] at h
    cases h
    simp [cellCb]

end TD.C08
