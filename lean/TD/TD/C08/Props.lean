import TD.C08.LemmasRound

/-!
# C08 — LIS tables and data format specifications survive encode then decode

Property theorems only.  The model (`TD.C08.Model`) transcribes `LogiRec.py` / `RepCode.py` / `Mnem.py`; it is tied to
the Python source by the correspondence run of `./check C08`.
-/
namespace TD.C08

/-! ## Component blocks -/

/-- **Component block round trip.** A block built by `CbEngValWrite(t, v, m, units=u)` from a legal value (byte string
of at most 255 bytes → code 65, float → 68, integer → 66 / 79 / 73 by range) with 4-byte mnemonic and units is written
by `lisBytes()` and read back by `CbEngValRead` with the same type, code, size, category, mnemonic and units and the
value `rtVal v` (`v` itself for bytes and integers, `from68(to68 v)` for floats) — unless it is an empty byte string at
the very end of the logical data (finding C08-EMPTYLAST: it then reads as `None`). -/
theorem cb_roundtrip (t : Nat) (v : Val) (m : Bytes) (u : Option Bytes) (rest : Bytes)
    (ht : t = 73 ∨ t = 0 ∨ t = 69) (hv : v.legal) (hm : m.length = 4) (hu : (unitsOf u).length = 4)
    (hne : v = .bytes [] → rest ≠ []) :
    ∃ cb bs, cbWrite t v m u = .ok cb ∧ encCb cb = .ok bs ∧
      readCb (bs ++ rest) = .ok (⟨t, rcOf v, sizeOf v, 0, m, unitsOf u, some (rtVal v)⟩, rest) := by
  obtain ⟨bs, he, _, hr⟩ := cb_enc_read t v m (unitsOf u) rest (by omega) hv hm hu hne
  exact ⟨_, bs, cbWrite_eq t v m u ht hv, he, hr⟩

/-- the empty-bytes-at-the-end case is really different: the value comes back as `None` (what the code does) -/
theorem cb_empty_last_reads_none (t : Nat) (m un : Bytes) (hm : m.length = 4) (hu : un.length = 4) :
    readCb ([t, 65, 0, 0] ++ m ++ un) = .ok (⟨t, 65, 0, 0, m, un, none⟩, []) := by
  obtain ⟨m0, m1, m2, m3, rfl⟩ := len4 m hm
  obtain ⟨u0, u1, u2, u3, rfl⟩ := len4 un hu
  simp [readCb, unpackN, readLr]

/-! ## Tables -/

def tcbOf (t : TableSpec) : Cb := cellCb 73 mnemTYPE ⟨t.name, some spaces4⟩

/-- the blocks of all rows of the specification, before de-duplication -/
def allRowCbs (t : TableSpec) : List (List Cb) := t.rows.map (fun r => rowCbsFrom 0 r t.mnems)

/-- The domain of `table_roundtrip`. -/
structure TableOk (t : TableSpec) : Prop where
  lrType : isTableLrType t.lrType = true
  nameLegal : t.name.legal
  nameNe : t.name ≠ .bytes []
  mnems4 : ∀ m ∈ t.mnems, m.length = 4
  mnemsNodup : t.mnems.Nodup
  mnemsNe : t.mnems ≠ []
  rowLen : ∀ r ∈ t.rows, r.length = t.mnems.length
  cells : ∀ r ∈ t.rows, ∀ c ∈ r, c.v.legal ∧ (unitsOf c.u).length = 4
  /-- row names are not changed by a write/read cycle (bytes, integers, code-68 representable floats) -/
  stableNames : ∀ r ∈ t.rows, ∀ c, r.head? = some c → rtVal c.v = c.v
  /-- a column named `MNEM` holds byte strings (otherwise: finding C08-MNEMTYPE, `TypeError`) -/
  mnemCol : ∀ r ∈ allRowCbs t, MnemOk r
  /-- the very last block written is not an empty byte string (otherwise: finding C08-EMPTYLAST) -/
  lastNonEmpty : ∀ cb, ((kept (allRowCbs t)).flatten).getLast? = some cb → cb.val ≠ some (.bytes [])

theorem rowValue_rowCbs (r : List Cell) (ms : List Bytes) (hl : r.length = ms.length) (hne : ms ≠ []) :
    ∃ c, r.head? = some c ∧ rowValue (rowCbsFrom 0 r ms) = some c.v := by
  cases r with
  | nil => cases ms with
    | nil => exact absurd rfl hne
    | cons m ms => simp at hl
  | cons c cs => cases ms with
    | nil => simp at hl
    | cons m ms => exact ⟨c, rfl, rfl⟩

/-- **Table round trip.** For every table specification in the domain: `LrTableWrite` builds a table `W` whose rows
are the first-kept rows of the specification (`kept`), `genLisBytes` succeeds, and `LrTableRead` on those bytes gives a
table `R` with the same name block, the same rows in the same order, cell for cell the same type / code / size /
mnemonic / units and the value passed through `rtVal`, a row index that lists the row names in order, and the same
column labels.  (`W.rows` and `tcbOf`/`rowCbsFrom` spell out name, mnemonic, units and value of each cell.) -/
theorem table_roundtrip (t : TableSpec) (ok : TableOk t) :
    ∃ W bs R, tableWrite t = .ok W ∧ tableLrBytes t.lrType W = .ok bs ∧ tableRead bs = .ok R ∧
      W.tcb = some (tcbOf t) ∧ W.rows = kept (allRowCbs t) ∧
      R.tcb = some (rtCb (tcbOf t)) ∧ R.rows = W.rows.map (·.map rtCb) ∧
      R.rowIdx.map (·.1) = R.rows.map rowValue ∧ R.rowIdx.map (·.2) = List.range R.rows.length ∧
      colKeys W.cols = (if t.rows = [] then [] else t.mnems) ∧
      colKeys R.cols = (if W.rows = [] then [] else t.mnems) := by
  -- the writer
  have hlt : ¬ (!isTableLrType t.lrType) = true := by simp [ok.lrType]
  have htcb : cbWrite 73 t.name mnemTYPE (some spaces4) = .ok (tcbOf t) :=
    cbWrite_cell 73 mnemTYPE ⟨t.name, some spaces4⟩ (by simp) ok.nameLegal
  let st0 : TS := { TS.empty with tcb := some (tcbOf t) }
  have hW0 : tableWrite t = runRows (allRowCbs t) st0 := by
    simp only [tableWrite, hlt, if_false, htcb]
    exact writeRows_eq t.mnems ok.mnemsNe t.rows st0 rfl ok.rowLen (fun r hr x hx => (ok.cells r hr x hx).1)
  have hinv0 : Inv st0 := ⟨rfl, rfl⟩
  obtain ⟨W, hW, hWt, _, hWr, hWc⟩ := runRows_spec (allRowCbs t) ok.mnemCol st0 hinv0
  have hWr' : W.rows = kept (allRowCbs t) := by simpa [st0, TS.empty, kept] using hWr
  have hallmn : ∀ r ∈ allRowCbs t, r.map (·.mnem) = t.mnems := by
    intro r hr
    obtain ⟨r0, hr0, rfl⟩ := List.mem_map.1 hr
    exact rowCbsFrom_mnems r0 t.mnems 0 (ok.rowLen r0 hr0)
  have hWck : colKeys W.cols = (if t.rows = [] then [] else t.mnems) := by
    rw [hWc]
    have := colKeys_rows t.mnems ok.mnemsNodup (allRowCbs t) hallmn
    simpa [st0, TS.empty, allRowCbs] using this
  -- every block is good
  have hgoodT : CbGood (tcbOf t) :=
    ⟨73, t.name, mnemTYPE, spaces4, rfl, by decide, ok.nameLegal, rfl, rfl⟩
  have hgoodAll : ∀ r ∈ allRowCbs t, ∀ cb ∈ r, CbGood cb := by
    intro r hr cb hcb
    obtain ⟨r0, hr0, rfl⟩ := List.mem_map.1 hr
    exact rowCbs_good r0 t.mnems 0 (ok.cells r0 hr0) ok.mnems4 cb hcb
  have hkeptMem : ∀ r ∈ W.rows, r ∈ allRowCbs t := by
    intro r hr; rw [hWr'] at hr; exact keptAux_mem hr
  -- the bytes
  have hinorder : ∀ r ∈ W.rows, rowInColOrder W.cols r = r := by
    intro r hr
    have hne : t.rows ≠ [] := by
      intro h
      have := hkeptMem r hr
      simp [allRowCbs, h] at this
    apply rowInColOrder_self
    · rw [hWck, hallmn r (hkeptMem r hr)]; simp [hne]
    · rw [hallmn r (hkeptMem r hr)]; exact ok.mnemsNodup
  let rowItems : List (Bytes × Cb) := (W.rows.flatten).map (fun cb => (encRaw cb, rtCb cb))
  have hflatGood : ∀ cb ∈ W.rows.flatten, CbGood cb := by
    intro cb hcb
    obtain ⟨r, hr, hcr⟩ := List.mem_flatten.1 hcb
    exact hgoodAll r (hkeptMem r hr) cb hcr
  have hgen : genLisBytes W = .ok (encRaw (tcbOf t) ++ rowItems.flatMap (·.1)) := by
    unfold genLisBytes
    rw [hWt]
    have h1 : (W.rows.flatMap (fun row => (rowInColOrder W.cols row).map encCb)) = (W.rows.flatten).map encCb := by
      rw [List.flatMap_def, List.map_flatten]
      congr 1
      apply List.map_congr_left
      intro r hr; rw [hinorder r hr]
    have hfm : rowItems.flatMap (·.1) = (W.rows.flatten).flatMap encRaw := by
      simp only [rowItems, List.flatMap_map]
    have h2 : concatE ((W.rows.flatten).map encCb) = .ok (rowItems.flatMap (·.1)) := by
      have := concatE_ok ((W.rows.flatten).map (fun cb => (encRaw cb, cb))) (by
        intro p hp
        obtain ⟨cb, hcb, rfl⟩ := List.mem_map.1 hp
        exact (cbGood_enc cb (hflatGood cb hcb)).1)
      rw [hfm]
      simpa only [List.map_map, Function.comp_def, List.flatMap_map] using this
    simp only [st0, List.singleton_append, concatE, (cbGood_enc _ hgoodT).1, h1, h2]
  refine ⟨W, [t.lrType, 0] ++ (encRaw (tcbOf t) ++ rowItems.flatMap (·.1)), ?_⟩
  -- the reader
  have hitemsEnc : ∀ p ∈ rowItems, EncOk p.1 p.2 := by
    intro p hp
    obtain ⟨cb, hcb, rfl⟩ := List.mem_map.1 hp
    exact (cbGood_enc cb (hflatGood cb hcb)).2.1
  have hitemsLast : ∀ p, rowItems.getLast? = some p → p.2.val ≠ some (.bytes []) := by
    intro p hp
    simp only [rowItems, List.getLast?_map, Option.map_eq_some_iff] at hp
    obtain ⟨cb, hcb, rfl⟩ := hp
    have := ok.lastNonEmpty cb (by rw [← hWr']; exact hcb)
    intro h
    apply this
    simp only [rtCb, Option.map_eq_some_iff] at h
    obtain ⟨v, hv, hv2⟩ := h
    rw [hv, rtVal_empty hv2]
  have hfuel : rowItems.length ≤ (rowItems.flatMap (·.1)).length := by
    apply length_le_flatMap
    intro p hp
    obtain ⟨cb, hcb, rfl⟩ := List.mem_map.1 hp
    have := (cbGood_enc cb (hflatGood cb hcb)).2.2
    simp only; omega
  have hloop := tableLoop_enc rowItems hitemsEnc hitemsLast
  let stR : TS := { TS.empty with tcb := some (rtCb (tcbOf t)) }
  let rtRows : List (List Cb) := W.rows.map (·.map rtCb)
  have hsnd : rowItems.map (·.2) = rtRows.flatten := by
    simp [rowItems, rtRows, List.map_map, Function.comp_def, List.map_flatten]
  have hRowOkAll : ∀ r ∈ allRowCbs t, RowOk r := by
    intro r hr
    obtain ⟨r0, hr0, rfl⟩ := List.mem_map.1 hr
    exact rowOk_rowCbs r0 t.mnems (ok.rowLen r0 hr0) ok.mnemsNe
  have hrtRowOk : ∀ r ∈ rtRows, RowOk r := by
    intro r hr
    obtain ⟨r0, hr0, rfl⟩ := List.mem_map.1 hr
    exact rowOk_map_rt r0 (hRowOkAll r0 (hkeptMem r0 hr0))
  have hrtMnemOk : ∀ r ∈ rtRows, MnemOk r := by
    intro r hr
    obtain ⟨r0, hr0, rfl⟩ := List.mem_map.1 hr
    exact mnemOk_map_rt r0 (ok.mnemCol r0 (hkeptMem r0 hr0))
  have hreg := reader_regroup rtRows hrtRowOk stR rfl
  rw [indexLast_nil stR rfl] at hreg
  have hreg' : (stepAll rtRows.flatten stR).bind indexLast = runRows rtRows stR := hreg
  obtain ⟨R, hR, hRt, hRinv, hRr, hRc⟩ := runRows_spec rtRows hrtMnemOk stR ⟨rfl, rfl⟩
  have hread : tableRead ([t.lrType, 0] ++ (encRaw (tcbOf t) ++ rowItems.flatMap (·.1))) = .ok R := by
    have hfirst : readCb (encRaw (tcbOf t) ++ rowItems.flatMap (·.1)) = .ok (rtCb (tcbOf t), rowItems.flatMap (·.1)) := by
      apply (cbGood_enc _ hgoodT).2.1.2
      intro h
      exfalso
      simp only [rtCb, tcbOf, cellCb, Option.map_some, Option.some.injEq] at h
      exact ok.nameNe (rtVal_empty h)
    have hu2 : unpackN 2 ([t.lrType, 0] ++ (encRaw (tcbOf t) ++ rowItems.flatMap (·.1)))
        = .ok ([t.lrType, 0], encRaw (tcbOf t) ++ rowItems.flatMap (·.1)) :=
      unpackN_append [t.lrType, 0] _ (by simp)
    unfold tableRead
    rw [hu2]
    simp only [List.getD_cons_zero, hlt, if_false, hfirst]
    have h73 : (rtCb (tcbOf t)).type = 73 := rfl
    simp only [h73, if_true]
    rw [hloop _ stR hfuel, hsnd]
    have : (stepAll rtRows.flatten stR).bind indexLast = .ok R := by rw [hreg']; exact hR
    cases hs : stepAll rtRows.flatten stR with
    | error e => rw [hs] at this; simp [Except.bind] at this
    | ok st' => rw [hs] at this; simpa [Except.bind] using this
  -- what was read
  have hstable : ∀ r ∈ kept (allRowCbs t), rowValue (r.map rtCb) = rowValue r := by
    intro r hr
    have hmem : r ∈ allRowCbs t := keptAux_mem hr
    obtain ⟨r0, hr0, rfl⟩ := List.mem_map.1 hmem
    obtain ⟨c, hc, hval⟩ := rowValue_rowCbs r0 t.mnems (ok.rowLen r0 hr0) ok.mnemsNe
    cases hrc : rowCbsFrom 0 r0 t.mnems with
    | nil => rfl
    | cons a as =>
      rw [hrc] at hval
      simp only [List.map_cons, rowValue] at hval ⊢
      simp only [rtCb, hval, Option.map_some, ok.stableNames r0 hr0 c hc]
  have hRrows : R.rows = W.rows.map (·.map rtCb) := by
    rw [hRr]
    simp only [stR, TS.empty, List.nil_append, List.map_nil, rtRows, hWr']
    rw [keptAux_map_on (·.map rtCb) _ (fun r hr => hstable r hr)]
    unfold kept
    rw [keptAux_idem]
  have hRck : colKeys R.cols = (if W.rows = [] then [] else t.mnems) := by
    rw [hRc]
    have := colKeys_rows t.mnems ok.mnemsNodup rtRows (by
      intro r hr
      obtain ⟨r0, hr0, rfl⟩ := List.mem_map.1 hr
      rw [List.map_map]
      have : ((fun x => x.mnem) ∘ rtCb) = (fun x : Cb => x.mnem) := rfl
      rw [this]; exact hallmn r0 (hkeptMem r0 hr0))
    simpa [stR, TS.empty, rtRows] using this
  refine ⟨R, by rw [hW0]; exact hW, by simp [tableLrBytes, hgen], hread, hWt, hWr', by rw [hRt], hRrows, hRinv.names, hRinv.idx, hWck, hRck⟩

end TD.C08
