import TD.C08.Model

namespace TD.C08

theorem placeholder : to68 ⟨0, 0⟩ = 0x40000000 := by decide

end TD.C08
