import TD.C08.Lemmas

/-! Entry block lemmas. -/
namespace TD.C08

/-- legal (representation code, size, value) triples of an entry block that carries a value -/
def EBValOk (rc size : Nat) (v : Val) : Prop :=
  (rc = 65 ∧ ∃ b, v = .bytes b ∧ size = b.length ∧ 1 ≤ size ∧ size ≤ 255) ∨
  (rc = 66 ∧ size = 1 ∧ ∃ i, v = .int i ∧ 0 ≤ i ∧ i ≤ 255) ∨
  (rc = 79 ∧ size = 2 ∧ ∃ i, v = .int i ∧ -32768 ≤ i ∧ i ≤ 32767) ∨
  (rc = 73 ∧ size = 4 ∧ ∃ i, v = .int i ∧ -2147483648 ≤ i ∧ i ≤ 2147483647) ∨
  (rc = 68 ∧ size = 4 ∧ ∃ d, v = .float d)

/-- an entry block with a legal size: no value and size 0, or a value whose size matches its code -/
def EBLegal (e : EB) : Prop :=
  e.type < 256 ∧ e.rc < 256 ∧ ((e.val = none ∧ e.size = 0) ∨ ∃ v, e.val = some v ∧ EBValOk e.rc e.size v)

def rtEB (e : EB) : EB := { e with val := e.val.map rtVal }

theorem readNum_enc_general (rc size : Nat) (v : Val) (h : EBValOk rc size v) (hrc : rc ≠ 65) (rest : Bytes) :
    ∃ vb, encVal rc v = .ok vb ∧ vb.length = size ∧ readNum rc (vb ++ rest) = .ok (rtVal v, rest) := by
  rcases h with ⟨h65, _⟩ | ⟨rfl, rfl, i, rfl, h0, h1⟩ | ⟨rfl, rfl, i, rfl, h0, h1⟩ | ⟨rfl, rfl, i, rfl, h0, h1⟩ | ⟨rfl, rfl, d, rfl⟩
  · exact absurd h65 hrc
  · refine ⟨[i.toNat], ?_, rfl, ?_⟩
    · have : i < 256 := by omega
      simp [encVal, h0, this]
    · have := unpackN_append [i.toNat] rest (by simp)
      simp only [List.length_singleton, List.singleton_append] at this
      have hb : beNat [i.toNat] = i.toNat := by simp [beNat]
      simp [readNum, this, hb, rtVal]; omega
  · refine ⟨toBE 2 (i % 65536).toNat, by simp [encVal, h0, h1], toBE_length _ _, ?_⟩
    have hl : (toBE 2 (i % 65536).toNat).length = 2 := toBE_length _ _
    have hne : toBE 2 (i % 65536).toNat ≠ [] := by intro h; rw [h] at hl; simp at hl
    have := unpackN_append _ rest hne
    rw [hl] at this
    have hlt : (i % 65536).toNat < 65536 := by
      have := Int.emod_lt_of_pos i (show (0:Int) < 65536 by decide); omega
    simp [readNum, this, beNat_toBE2 _ hlt, sInt16_enc i h0 h1, rtVal]
  · refine ⟨toBE 4 (i % 4294967296).toNat, by simp [encVal, h0, h1], toBE_length _ _, ?_⟩
    have hl : (toBE 4 (i % 4294967296).toNat).length = 4 := toBE_length _ _
    have hne : toBE 4 (i % 4294967296).toNat ≠ [] := by intro h; rw [h] at hl; simp at hl
    have := unpackN_append _ rest hne
    rw [hl] at this
    have hlt : (i % 4294967296).toNat < 4294967296 := by
      have := Int.emod_lt_of_pos i (show (0:Int) < 4294967296 by decide); omega
    simp [readNum, this, beNat_toBE4 _ hlt, sInt32_enc i h0 h1, rtVal]
  · refine ⟨toBE 4 (to68 d), by simp [encVal], toBE_length _ _, ?_⟩
    have hl : (toBE 4 (to68 d)).length = 4 := toBE_length _ _
    have hne : toBE 4 (to68 d) ≠ [] := by intro h; rw [h] at hl; simp at hl
    have := unpackN_append (toBE 4 (to68 d)) rest hne
    rw [hl] at this
    simp [readNum, this, beNat_toBE4 _ (to68_lt d), rtVal]

/-- **one entry block survives** -/
theorem eb_enc_read (e : EB) (h : EBLegal e) :
    ∃ bs, encEB e = .ok bs ∧ bs.length = 3 + e.size ∧ ∀ rest, readEB (bs ++ rest) = .ok (rtEB e, rest) := by
  obtain ⟨ht, hrc, hv⟩ := h
  have hsz : e.size < 256 := by
    rcases hv with ⟨_, h0⟩ | ⟨v, _, hok⟩
    · omega
    · rcases hok with ⟨_, b, _, _, _, _⟩ | ⟨_, h, _⟩ | ⟨_, h, _⟩ | ⟨_, h, _⟩ | ⟨_, h, _⟩ <;> omega
  have hfields : ¬ (256 ≤ e.type ∨ 256 ≤ e.size ∨ 256 ≤ e.rc) := by omega
  have h3 : ∀ rest, unpackN 3 (e.type :: e.size :: e.rc :: rest) = .ok ([e.type, e.size, e.rc], rest) := by
    intro rest; simp [unpackN, readLr]
  rcases hv with ⟨hnone, h0⟩ | ⟨v, hsome, hok⟩
  · refine ⟨[e.type, e.size, e.rc], by simp [encEB, hfields, hnone], by simp [h0], ?_⟩
    intro rest
    obtain ⟨t, s, r, vv⟩ := e
    simp only at hnone h0 h3
    subst hnone; subst h0
    simp [readEB, h3, rtEB]
  · by_cases h65 : e.rc = 65
    · rcases hok with ⟨_, b, rfl, hsb, h1, h255⟩ | ⟨hc, _⟩ | ⟨hc, _⟩ | ⟨hc, _⟩ | ⟨hc, _⟩ <;> try (exfalso; omega)
      refine ⟨[e.type, e.size, e.rc] ++ b, by simp [encEB, hsome, encVal, h65]; omega, by simp [hsb]; omega, ?_⟩
      intro rest
      have hbne : b ≠ [] := by intro hb; rw [hb] at hsb; simp at hsb; omega
      have hr : readLr e.size (b ++ rest) = (some b, rest) := by
        rw [hsb]; exact readLr_append b rest (by simp [hbne])
      have hs0 : ¬ e.size = 0 := by omega
      obtain ⟨t, s, r, vv⟩ := e
      simp only at hsome h65 hr hs0 h3
      subst hsome; subst h65
      simp [readEB, h3, hs0, hr, rtEB, rtVal]
    · obtain ⟨vb, henc, hlen, hread⟩ := readNum_enc_general e.rc e.size v hok h65 []
      refine ⟨[e.type, e.size, e.rc] ++ vb, by simp [encEB, hfields, hsome, henc], by simp [hlen]; omega, ?_⟩
      intro rest
      obtain ⟨vb', henc', _, hread'⟩ := readNum_enc_general e.rc e.size v hok h65 rest
      have : vb' = vb := by rw [henc] at henc'; cases henc'; rfl
      subst this
      have hs0 : ¬ e.size = 0 := by
        rcases hok with ⟨hc, _⟩ | ⟨_, h, _⟩ | ⟨_, h, _⟩ | ⟨_, h, _⟩ | ⟨_, h, _⟩ <;> omega
      obtain ⟨t, s, r, vv⟩ := e
      simp only at hsome h65 hs0 h3 hread'
      subst hsome
      simp [readEB, h3, hs0, h65, hread', rtEB]

/-! ### the set -/

/-- the pure part of `_setLisSizeEven` -/
def evenOf (E : List EB) : List EB :=
  if ebsLisSize (E.set 0 ⟨0, 0, 66, none⟩) % 2 = 1 then E.set 0 ⟨0, 1, 66, some (.int 1)⟩ else E.set 0 ⟨0, 0, 66, none⟩

theorem setEven_eq (E : List EB) (h : integrity E = true) : setEven E = .ok (evenOf E) := by
  simp only [setEven, h, Bool.not_true, Bool.false_eq_true, if_false, evenOf]
  split <;> rfl

theorem evenOf_set0 (E : List EB) (t : EB) : evenOf (E.set 0 t) = evenOf E := by
  simp [evenOf, List.set_set]

theorem evenOf_idem (E : List EB) : evenOf (evenOf E) = evenOf E := by
  have : ∃ t, evenOf E = E.set 0 t := by
    unfold evenOf; split <;> exact ⟨_, rfl⟩
  obtain ⟨t, ht⟩ := this
  rw [ht, evenOf_set0, ← ht]

theorem evenOf_absorb (E : List EB) (i : Nat) (e : EB) (hi : i ≠ 0) : evenOf ((evenOf E).set i e) = evenOf (E.set i e) := by
  have : ∃ t, evenOf E = E.set 0 t := by
    unfold evenOf; split <;> exact ⟨_, rfl⟩
  obtain ⟨t, ht⟩ := this
  rw [ht, List.set_comm _ _ (by omega : (0:Nat) ≠ i), evenOf_set0]

theorem integrityFrom_set (l : List EB) : ∀ (k j : Nat) (e : EB), integrityFrom k l = true → ebOk (k + j) e = true →
    integrityFrom k (l.set j e) = true := by
  induction l with
  | nil => intro k j e h _; simpa using h
  | cons a r ih =>
    intro k j e h he
    simp only [integrityFrom, Bool.and_eq_true] at h
    cases j with
    | zero => simp only [List.set_cons_zero, integrityFrom, Bool.and_eq_true]; exact ⟨by simpa using he, h.2⟩
    | succ j =>
      simp only [List.set_cons_succ, integrityFrom, Bool.and_eq_true]
      exact ⟨h.1, ih (k + 1) j e h.2 (by rw [show k + 1 + j = k + (j + 1) by omega]; exact he)⟩

theorem integrity_set (E : List EB) (j : Nat) (e : EB) (h : integrity E = true) (he : ebOk j e = true) :
    integrity (E.set j e) = true := by
  simp only [integrity, Bool.and_eq_true, beq_iff_eq, List.length_set] at h ⊢
  exact ⟨h.1, integrityFrom_set E 0 j e h.2 (by simpa using he)⟩

theorem integrity_evenOf (E : List EB) (h : integrity E = true) : integrity (evenOf E) = true := by
  unfold evenOf
  split <;> exact integrity_set E 0 _ h (by decide)

theorem ebOk_of_legal (e : EB) (h : EBLegal e) : ebOk e.type (rtEB e) = true := by
  obtain ⟨_, _, hv⟩ := h
  rcases hv with ⟨hn, h0⟩ | ⟨v, hs, hok⟩
  · simp [ebOk, rtEB, hn, h0]
  · have hs0 : e.size ≠ 0 := by
      rcases hok with ⟨_, b, _, _, _, _⟩ | ⟨_, h, _⟩ | ⟨_, h, _⟩ | ⟨_, h, _⟩ | ⟨_, h, _⟩ <;> omega
    simp [ebOk, rtEB, hs, hs0]

theorem setEB_eq (e : EB) (E : List EB) (hE : integrity E = true) (ht : e.type < 17) (h10 : e.type ≠ 10)
    (hok : ebOk e.type e = true) : setEB e E = .ok (evenOf (E.set e.type e)) := by
  have h1 := integrity_set E e.type e hE hok
  have h17 : ¬ 17 ≤ e.type := by omega
  simp [setEB, hE, h17, h10, setEven_eq _ h1, integrity_evenOf _ h1]

/-! ### the read loop -/

def encEBRaw (e : EB) : Bytes := match encEB e with | .ok b => b | .error _ => []

theorem encEBRaw_spec (e : EB) (h : EBLegal e) :
    encEB e = .ok (encEBRaw e) ∧ (encEBRaw e).length = 3 + e.size ∧ ∀ rest, readEB (encEBRaw e ++ rest) = .ok (rtEB e, rest) := by
  obtain ⟨bs, he, hl, hr⟩ := eb_enc_read e h
  have : encEBRaw e = bs := by simp [encEBRaw, he]
  rw [this]; exact ⟨he, hl, hr⟩

/-- a block that `setEntryBlock` accepts and that is not the terminator -/
def Settable (e : EB) : Prop := EBLegal e ∧ e.type < 17 ∧ e.type ≠ 0 ∧ e.type ≠ 10

theorem ebsLoop_step (e : EB) (h : Settable e) (rest : Bytes) (E : List EB) (hE : integrity E = true) (fuel : Nat) :
    ebsLoop (fuel + 1) (encEBRaw e ++ rest) E = ebsLoop fuel rest (evenOf (E.set e.type (rtEB e))) := by
  obtain ⟨hl, ht, h0, h10⟩ := h
  obtain ⟨_, hlen, hread⟩ := encEBRaw_spec e hl
  have hne : encEBRaw e ++ rest ≠ [] := by
    intro hh; have := congrArg List.length hh; simp [hlen] at this
  have hset : setEB (rtEB e) E = .ok (evenOf (E.set e.type (rtEB e))) :=
    setEB_eq (rtEB e) E hE ht h10 (ebOk_of_legal e hl)
  conv => lhs; unfold ebsLoop
  split
  · rename_i heq; exact absurd heq hne
  · rw [hread rest]
    have ht0 : ¬ (rtEB e).type = 0 := h0
    simp only [hset, ht0, if_false]

theorem ebsLoop_term (e : EB) (hl : EBLegal e) (h0 : e.type = 0) (rest : Bytes) (E : List EB) (hE : integrity E = true)
    (fuel : Nat) : ebsLoop (fuel + 1) (encEBRaw e ++ rest) E = .ok (evenOf E, rest) := by
  obtain ⟨_, hlen, hread⟩ := encEBRaw_spec e hl
  have hne : encEBRaw e ++ rest ≠ [] := by
    intro hh; have := congrArg List.length hh; simp [hlen] at this
  have hset : setEB (rtEB e) E = .ok (evenOf E) := by
    have := setEB_eq (rtEB e) E hE (by show e.type < 17; omega) (by show e.type ≠ 10; omega) (ebOk_of_legal e hl)
    rw [this]
    have ht : (rtEB e).type = 0 := h0
    rw [ht, evenOf_set0]
  conv => lhs; unfold ebsLoop
  split
  · rename_i heq; exact absurd heq hne
  · rw [hread rest]
    have ht0 : (rtEB e).type = 0 := h0
    simp only [hset, ht0, if_true]

def applyRead (E0 : List EB) (bl : List EB) : List EB := bl.foldl (fun acc e => acc.set e.type (rtEB e)) E0

theorem evenOf_applyRead (bl : List EB) (hbl : ∀ e ∈ bl, e.type ≠ 0) :
    ∀ X, evenOf (applyRead (evenOf X) bl) = evenOf (applyRead X bl) := by
  induction bl with
  | nil => intro X; exact evenOf_idem X
  | cons e r ih =>
    intro X
    have ih' := ih (fun x hx => hbl x (by simp [hx]))
    simp only [applyRead, List.foldl_cons] at ih' ⊢
    have h1 := ih' ((evenOf X).set e.type (rtEB e))
    have h2 := ih' (X.set e.type (rtEB e))
    rw [← h1, evenOf_absorb X e.type (rtEB e) (hbl e (by simp)), h2]

theorem ebsLoop_list (term : EB) (hterm : EBLegal term) (hterm0 : term.type = 0) (rest : Bytes) (bl : List EB)
    (hbl : ∀ e ∈ bl, Settable e) :
    ∀ (E0 : List EB) (fuel : Nat), integrity E0 = true → bl.length + 1 ≤ fuel →
      ebsLoop fuel (bl.flatMap encEBRaw ++ (encEBRaw term ++ rest)) E0 = .ok (evenOf (applyRead E0 bl), rest) := by
  induction bl with
  | nil =>
    intro E0 fuel hE hf
    cases fuel with
    | zero => omega
    | succ fuel => simpa [applyRead] using ebsLoop_term term hterm hterm0 rest E0 hE fuel
  | cons e r ih =>
    intro E0 fuel hE hf
    cases fuel with
    | zero => omega
    | succ fuel =>
      have he := hbl e (by simp)
      simp only [List.flatMap_cons, List.append_assoc]
      rw [ebsLoop_step e he _ E0 hE fuel]
      have hE1 : integrity (evenOf (E0.set e.type (rtEB e))) = true :=
        integrity_evenOf _ (integrity_set E0 e.type (rtEB e) hE (ebOk_of_legal e he.1))
      rw [ih (fun x hx => hbl x (by simp [hx])) _ fuel hE1 (by simpa using hf)]
      have := evenOf_applyRead r (fun x hx => (hbl x (by simp [hx])).2.2.1) (E0.set e.type (rtEB e))
      simp only [applyRead, List.foldl_cons] at this ⊢
      rw [this]

theorem length_le_flatMap_eb (bl : List EB) (h : ∀ e ∈ bl, 1 ≤ (encEBRaw e).length) :
    bl.length ≤ (bl.flatMap encEBRaw).length := by
  induction bl with
  | nil => simp
  | cons p r ih =>
    have := h p (by simp)
    have := ih (fun q hq => h q (by simp [hq]))
    simp only [List.flatMap_cons, List.length_append, List.length_cons]
    omega

theorem concatE_ok_eb (bl : List EB) (h : ∀ e ∈ bl, encEB e = .ok (encEBRaw e)) (last : Bytes) (lastE : Except Err Bytes)
    (hl : lastE = .ok last) :
    concatE (bl.map encEB ++ [lastE]) = .ok (bl.flatMap encEBRaw ++ last) := by
  induction bl with
  | nil => simp [concatE, hl]
  | cons p r ih =>
    simp only [List.map_cons, List.cons_append, concatE, h p (by simp), List.flatMap_cons]
    rw [ih (fun q hq => h q (by simp [hq]))]
    simp

theorem len17 (l : List EB) (h : l.length = 17) :
    ∃ a0 a1 a2 a3 a4 a5 a6 a7 a8 a9 a10 a11 a12 a13 a14 a15 a16,
      l = [a0, a1, a2, a3, a4, a5, a6, a7, a8, a9, a10, a11, a12, a13, a14, a15, a16] := by
  match l, h with
  | [a0, a1, a2, a3, a4, a5, a6, a7, a8, a9, a10, a11, a12, a13, a14, a15, a16], _ =>
    exact ⟨a0, a1, a2, a3, a4, a5, a6, a7, a8, a9, a10, a11, a12, a13, a14, a15, a16, rfl⟩

theorem ebOk_of_legal' (e : EB) (h : EBLegal e) : ebOk e.type e = true := by
  obtain ⟨_, _, hv⟩ := h
  rcases hv with ⟨hn, h0⟩ | ⟨v, hs, hok⟩
  · simp [ebOk, hn, h0]
  · have hs0 : e.size ≠ 0 := by
      rcases hok with ⟨_, b, _, _, _, _⟩ | ⟨_, h, _⟩ | ⟨_, h, _⟩ | ⟨_, h, _⟩ | ⟨_, h, _⟩ <;> omega
    simp [ebOk, hs, hs0]

theorem integrity_applyRead (bl : List EB) (hbl : ∀ e ∈ bl, EBLegal e) :
    ∀ E0, integrity E0 = true → integrity (applyRead E0 bl) = true := by
  induction bl with
  | nil => intro E0 h; exact h
  | cons e r ih =>
    intro E0 h
    simp only [applyRead, List.foldl_cons]
    exact ih (fun x hx => hbl x (by simp [hx])) _ (integrity_set E0 e.type (rtEB e) h (ebOk_of_legal e (hbl e (by simp))))

/-- a legal entry block set: 17 blocks, block `i` has type `i`, every block has a legal size -/
structure EBSOk (E : List EB) : Prop where
  types : E.map (·.type) = List.range 17
  legal : ∀ e ∈ E, EBLegal e

theorem ebsOk_integrity (E : List EB) (h : EBSOk E) : integrity E = true := by
  have hl : E.length = 17 := by have := congrArg List.length h.types; simpa using this
  obtain ⟨a0, a1, a2, a3, a4, a5, a6, a7, a8, a9, a10, a11, a12, a13, a14, a15, a16, rfl⟩ := len17 E hl
  have ht := h.types
  simp only [List.map_cons, List.map_nil, List.range, List.range.loop] at ht
  injection ht with h0 ht; injection ht with h1 ht; injection ht with h2 ht; injection ht with h3 ht
  injection ht with h4 ht; injection ht with h5 ht; injection ht with h6 ht; injection ht with h7 ht
  injection ht with h8 ht; injection ht with h9 ht; injection ht with h10 ht; injection ht with h11 ht
  injection ht with h12 ht; injection ht with h13 ht; injection ht with h14 ht; injection ht with h15 ht
  injection ht with h16 ht
  have k := fun e he => ebOk_of_legal' e (h.legal e he)
  have k0 := k a0 (by simp); have k1 := k a1 (by simp); have k2 := k a2 (by simp); have k3 := k a3 (by simp)
  have k4 := k a4 (by simp); have k5 := k a5 (by simp); have k6 := k a6 (by simp); have k7 := k a7 (by simp)
  have k8 := k a8 (by simp); have k9 := k a9 (by simp); have k10 := k a10 (by simp); have k11 := k a11 (by simp)
  have k12 := k a12 (by simp); have k13 := k a13 (by simp); have k14 := k a14 (by simp); have k15 := k a15 (by simp)
  have k16 := k a16 (by simp)
  rw [h0] at k0; rw [h1] at k1; rw [h2] at k2; rw [h3] at k3; rw [h4] at k4; rw [h5] at k5; rw [h6] at k6
  rw [h7] at k7; rw [h8] at k8; rw [h9] at k9; rw [h10] at k10; rw [h11] at k11; rw [h12] at k12; rw [h13] at k13
  rw [h14] at k14; rw [h15] at k15; rw [h16] at k16
  simp [integrity, integrityFrom, k0, k1, k2, k3, k4, k5, k6, k7, k8, k9, k10, k11, k12, k13, k14, k15, k16]

end TD.C08
