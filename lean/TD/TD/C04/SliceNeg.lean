/-
C04 — the frame selector for NEGATIVE slice steps.  `TD.C15.Model` (`sliceAdjust`, `rangeList`) models
`slice(start, stop, step).indices(n)` / `range` for every non-zero step; the C15 theorems cover step ≥ 1.  Here the
negative half: the adjusted bounds are Python's clamped bounds, the generated indexes are exactly the positions Python
slicing selects, in decreasing order, all inside the sequence.
-/
import TD.C15.Props

namespace TD.C04
open TD.C15

/-- Python's bound for a negative step: relative to the end when negative, then clamped into `[-1, n-1]`. -/
def pyBoundNeg (a : Option Int) (dflt : Int) (n : Nat) : Int :=
  match a with
  | none => dflt
  | some a => max (-1) (min ((n : Int) - 1) (if a < 0 then a + n else a))

/-- the positions `xs[start:stop:step]` picks for a negative step: from the clamped start downwards, above the
clamped stop, every `|step|`-th -/
def pySelectedNeg (start stop : Option Int) (st : Int) (n : Nat) (i : Int) : Prop :=
  pyBoundNeg stop (-1) n < i ∧ i ≤ pyBoundNeg start ((n : Int) - 1) n ∧ (pyBoundNeg start ((n : Int) - 1) n - i) % (-st) = 0

theorem slice_adjust_neg (start stop step : Option Int) (n : Nat) (hst : step.getD 1 < 0) :
    sliceAdjust start stop step n =
      .ok (pyBoundNeg start ((n : Int) - 1) n, pyBoundNeg stop (-1) n, step.getD 1) := by
  unfold sliceAdjust pyBoundNeg
  have h0 : ¬ (step.getD 1 = 0) := by omega
  have h1 : ¬ (step.getD 1 > 0) := by omega
  simp only [h0, if_false, h1]
  congr 2
  · cases start with
    | none => rfl
    | some a => simp only; split <;> split <;> omega
  · congr 1
    cases stop with
    | none => rfl
    | some a => simp only; split <;> split <;> omega

theorem rangeList_neg_eq (lo hi st : Int) (hst : st < 0) :
    rangeList lo hi st = (rangeList (-lo) (-hi) (-st)).map (fun x => -x) := by
  have hlen : rangeLen lo hi st = rangeLen (-lo) (-hi) (-st) := by
    unfold rangeLen
    have a : ¬ (st > 0) := by omega
    have b : (-st > 0) := by omega
    simp only [a, hst, b, if_true, if_false]
    by_cases h : hi < lo
    · have h' : -lo < -hi := by omega
      simp only [h, h', if_true]
      have : lo - hi - 1 = -hi - -lo - 1 := by omega
      rw [this]
    · have h' : ¬ (-lo < -hi) := by omega
      simp [h, h']
  unfold rangeList
  rw [hlen, List.map_map]
  apply List.map_congr_left
  intro k _
  simp only [Function.comp]
  have : (k : Int) * -st = -((k : Int) * st) := by rw [Int.mul_neg]
  omega

theorem mem_rangeList_neg {lo hi st : Int} (hst : st < 0) (i : Int) :
    i ∈ rangeList lo hi st ↔ hi < i ∧ i ≤ lo ∧ (lo - i) % (-st) = 0 := by
  rw [rangeList_neg_eq lo hi st hst, List.mem_map]
  constructor
  · rintro ⟨x, hx, rfl⟩
    have := (mem_rangeList_pos (show 0 < -st by omega) x).1 hx
    have e : lo - -x = x - -lo := by omega
    rw [e]; exact ⟨by omega, by omega, this.2.2⟩
  · rintro ⟨h1, h2, h3⟩
    refine ⟨-i, (mem_rangeList_pos (show 0 < -st by omega) (-i)).2 ⟨by omega, by omega, ?_⟩, by omega⟩
    have e : -i - -lo = lo - i := by omega
    rw [e]; exact h3

theorem rangeList_pairwise_neg {lo hi st : Int} (hst : st < 0) : (rangeList lo hi st).Pairwise (· > ·) := by
  rw [rangeList_neg_eq lo hi st hst, List.pairwise_map]
  exact (rangeList_pairwise_pos (show 0 < -st by omega)).imp (fun h => by omega)

/-- **Slice, negative step**: an index is generated iff Python slicing selects it; the list is strictly decreasing
(rows come out in reverse order) and every index is inside the sequence. -/
theorem slice_indices_mem_iff_neg (start stop step : Option Int) (n : Nat) (hst : step.getD 1 < 0) :
    ∃ l, sliceIndices start stop step n = .ok l ∧
      (∀ i, i ∈ l ↔ pySelectedNeg start stop (step.getD 1) n i) ∧
      l.Pairwise (· > ·) ∧ (∀ i ∈ l, 0 ≤ i ∧ i < n) := by
  refine ⟨rangeList (pyBoundNeg start ((n : Int) - 1) n) (pyBoundNeg stop (-1) n) (step.getD 1), ?_, ?_, ?_, ?_⟩
  · unfold sliceIndices; rw [slice_adjust_neg _ _ _ _ hst]
  · intro i; rw [mem_rangeList_neg hst]; unfold pySelectedNeg; constructor <;> (intro h; exact ⟨h.1, h.2.1, h.2.2⟩)
  · exact rangeList_pairwise_neg hst
  · intro i hi
    have := (mem_rangeList_neg hst i).1 hi
    have hb0 : -1 ≤ pyBoundNeg stop (-1) n := by
      unfold pyBoundNeg; cases stop <;> simp
    have hb1 : pyBoundNeg start ((n : Int) - 1) n ≤ (n : Int) - 1 := by
      unfold pyBoundNeg; cases start <;> simp <;> omega
    omega

/-- as a list: the decreasing enumeration of the selected positions, i.e. `list(range(n))[start:stop:step]` -/
theorem slice_indices_eq_python_neg (start stop step : Option Int) (n : Nat) (hst : step.getD 1 < 0) :
    sliceIndices start stop step n =
      .ok ((((List.range n).map (fun (k : Nat) => (k : Int))).reverse).filter
            (fun i => decide (pyBoundNeg stop (-1) n < i ∧ i ≤ pyBoundNeg start ((n : Int) - 1) n ∧
              (pyBoundNeg start ((n : Int) - 1) n - i) % (-(step.getD 1)) = 0))) := by
  obtain ⟨l, hl, hmem, hsorted, hbnd⟩ := slice_indices_mem_iff_neg start stop step n hst
  rw [hl]; congr 1
  refine List.Perm.eq_of_pairwise (le := (· > ·)) (fun a b _ _ h1 h2 => by omega) hsorted ?_ ?_
  · apply List.Pairwise.filter
    rw [List.pairwise_reverse, List.pairwise_map]
    exact List.pairwise_lt_range.imp (fun h => by exact_mod_cast h)
  · apply (List.perm_ext_iff_of_nodup ?_ ?_).2
    · intro i
      rw [hmem i]
      simp only [List.mem_filter, List.mem_reverse, List.mem_map, List.mem_range, decide_eq_true_eq, pySelectedNeg]
      constructor
      · intro h
        have hb := hbnd i ((hmem i).2 h)
        exact ⟨⟨i.toNat, by omega, by omega⟩, h⟩
      · intro h; exact h.2
    · exact hsorted.imp (fun h => by omega)
    · apply List.Nodup.filter
      rw [List.nodup_reverse]
      apply List.Nodup.map (fun a b h => by exact_mod_cast h) (List.nodup_range)

end TD.C04
