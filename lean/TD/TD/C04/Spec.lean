/-
C04 — specification side: an abstract log pass (frame types, channels) with recorded frames, its encoding into
CHANNEL/FRAME tables (through the C03 table encoder) and frame-data records, and the abstract statement of what a
population is (rows/columns of the recorded values).  Core Lean only.
-/
import TD.C03.Spec
import TD.C04.Model

namespace TD.C04
open TD.C03 (Bytes Value ObName Rec Table Column Row Attr encValues encIflr valOk obnameOk)

/-- one recorded frame record: frame type (index into the log pass), frame number, and per channel its values
(`none`: a frame record without data, which the index must skip) -/
structure FrameA where
  ft : Nat
  frameNo : Nat
  vals : Option (List (List Value))
  deriving Repr, DecidableEq

/-- the fixed-length numeric codes a channel may use -/
def numericCode (rc : Nat) : Bool :=
  rc = 2 || rc = 5 || rc = 6 || rc = 7 || rc = 12 || rc = 13 || rc = 14 || rc = 15 || rc = 16 || rc = 17

def chanOk (c : Chan) : Prop := numericCode c.rc = true ∧ c.ident.length < 256

/-- per channel: `count` values of the channel's code -/
def valsOk : List Chan → List (List Value) → Prop
  | [], [] => True
  | c :: cs, vs :: vss => vs.length = c.count ∧ (∀ v ∈ vs, valOk c.rc v = true) ∧ valsOk cs vss
  | _, _ => False

/-- frame data: the channels' values one after the other -/
def encFrameData : List Chan → List (List Value) → Bytes
  | c :: cs, vs :: vss => encValues c.rc vs ++ encFrameData cs vss
  | _, _ => []

def frameRec (lp : List FrameType) (f : FrameA) : Rec :=
  match lp[f.ft]? with
  | none => ⟨false, false, 0, []⟩
  | some ft =>
    ⟨false, false, 0, encIflr ft.name f.frameNo (match f.vals with | none => [] | some vs => encFrameData ft.chans vs)⟩

def frameOk (lp : List FrameType) (f : FrameA) : Prop :=
  f.frameNo < 1073741824 ∧
  match lp[f.ft]? with
  | none => False
  | some ft => match f.vals with
    | none => True
    | some vs => valsOk ft.chans vs ∧ encFrameData ft.chans vs ≠ []

def lpOk (lp : List FrameType) : Prop :=
  (lp.map FrameType.name).Nodup ∧ ∀ ft ∈ lp, obnameOk ft.name ∧ ft.chans ≠ [] ∧ ∀ c ∈ ft.chans, chanOk c

/-- the recorded rows of frame type `k`: one per frame record of that type that has data, in file order -/
def rowsOf (k : Nat) : List FrameA → List (List (List Value))
  | [] => []
  | f :: fs => match f.vals with
    | some vs => if f.ft = k then vs :: rowsOf k fs else rowsOf k fs
    | none => rowsOf k fs

/-- frame numbers of the same records -/
def frameNosOf (k : Nat) : List FrameA → List Nat
  | [] => []
  | f :: fs => match f.vals with
    | some _ => if f.ft = k then f.frameNo :: frameNosOf k fs else frameNosOf k fs
    | none => frameNosOf k fs

/-- `c == 0 or ident in channels` -/
def selected (sel : Option (List Bytes)) (k : Nat) (c : Chan) : Bool :=
  match sel with
  | none => true
  | some ids => k = 0 || ids.contains c.ident

theorem selected_eq_wanted (sel : Option (List Bytes)) (k : Nat) (c : Chan) : wanted sel k c = selected sel k c := rfl

/-- the abstract result of populating the rows `rows` (each row: per channel its values) under a channel selection:
the storage of the `j`-th channel is the list of the `j`-th components of the rows if the channel is selected (the
first always is) and empty otherwise.  (`rows.map head?` is the first remaining column, `rows.map tail` the rest.) -/
def expectArrays (sel : Option (List Bytes)) : Nat → List Chan → List (List (List Value)) → List Arr
  | _, [], _ => []
  | k, c :: cs, rows =>
    (if selected sel k c then rows.map (fun r => r.head?) else []) :: expectArrays sel (k + 1) cs (rows.map List.tail)

/-! ### CHANNEL and FRAME tables of a log pass (encoded by `TD.C03.encodeEflr`) -/

def bLONG_NAME : Bytes := [76, 79, 78, 71, 45, 78, 65, 77, 69]
def bREPRESENTATION_CODE : Bytes := [82, 69, 80, 82, 69, 83, 69, 78, 84, 65, 84, 73, 79, 78, 45, 67, 79, 68, 69]
def bUNITS : Bytes := [85, 78, 73, 84, 83]
def bDIMENSION : Bytes := [68, 73, 77, 69, 78, 83, 73, 79, 78]
def bDESCRIPTION : Bytes := [68, 69, 83, 67, 82, 73, 80, 84, 73, 79, 78]
def bCHANNELS : Bytes := [67, 72, 65, 78, 78, 69, 76, 83]

def chanName (c : Chan) : ObName := ⟨1, 0, c.ident⟩

/-- the CHANNEL set: its objects `defs` in ANY order (not necessarily the order a Frame lists them; channels of several
frames interleaved; channels no frame uses) -/
def channelTable (defs : List Chan) : Table :=
  { stype := TD.C03.sCHANNEL, sname := [],
    cols := [⟨false, ⟨bLONG_NAME, 1, 20, [], none⟩⟩, ⟨false, ⟨bREPRESENTATION_CODE, 1, 15, [], none⟩⟩,
             ⟨false, ⟨bUNITS, 1, 27, [], none⟩⟩, ⟨false, ⟨bDIMENSION, 1, 18, [], none⟩⟩],
    rows := defs.map (fun c =>
      ⟨chanName c, [⟨bLONG_NAME, 1, 20, [], some [.bytes c.ident]⟩, ⟨bREPRESENTATION_CODE, 1, 15, [], some [.int c.rc]⟩,
                    ⟨bUNITS, 1, 27, [], none⟩,
                    ⟨bDIMENSION, c.dims.length, 18, [], some (c.dims.map (fun (d : Nat) => Value.int (d : Int)))⟩]⟩) }

def frameTable (lp : List FrameType) : Table :=
  { stype := TD.C03.sFRAME, sname := [],
    cols := [⟨false, ⟨bDESCRIPTION, 1, 20, [], none⟩⟩, ⟨false, ⟨bCHANNELS, 1, 23, [], none⟩⟩],
    rows := lp.map (fun ft =>
      ⟨ft.name, [⟨bDESCRIPTION, 1, 20, [], none⟩,
                 ⟨bCHANNELS, ft.chans.length, 23, [], some (ft.chans.map (fun c => .obname 1 0 c.ident))⟩]⟩) }

end TD.C04
