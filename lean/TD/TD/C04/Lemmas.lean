/-
C04 — helper lemmas: one frame read into the storage, the populate loop as a fold of row writes, the position map.
-/
import TD.C03.LemmasLF
import TD.C15.Props
import TD.C04.Model
import TD.C04.Spec

namespace TD.C04
open TD.C03 (Bytes Value ObName Rec readValues readIflrHeader encValues encValue encIflr valOk obnameOk beEnc)

/-! ### fixed widths -/

theorem encValue_length (rc : Nat) (v : Value) (w : Nat) (hn : numericCode rc = true) (hw : fixedLen rc = some w)
    (hv : valOk rc v = true) : (encValue rc v).length = w := by
  have hcases : rc = 2 ∨ rc = 5 ∨ rc = 6 ∨ rc = 7 ∨ rc = 12 ∨ rc = 13 ∨ rc = 14 ∨ rc = 15 ∨ rc = 16 ∨ rc = 17 := by
    simp only [numericCode, Bool.or_eq_true, decide_eq_true_eq] at hn; omega
  cases v with
  | word c x =>
    simp only [valOk, decide_eq_true_eq] at hv
    obtain ⟨hc, hv⟩ := hv
    subst hc
    rcases hv with ⟨h1, _⟩ | ⟨h1, _⟩
    · have h7 : ¬ (c = 7) := by omega
      have hw4 : w = 4 := by
        rcases h1 with h | h | h <;> subst h <;> simp [fixedLen] at hw <;> omega
      simp [encValue, h7, TD.C03.beEnc_length, hw4]
    · subst h1
      simp [fixedLen] at hw
      simp [encValue, TD.C03.beEnc_length, ← hw]
  | int x =>
    rcases hcases with h | h | h | h | h | h | h | h | h | h <;> subst h <;>
      simp_all [fixedLen, encValue, TD.C03.beEnc_length, valOk]
  | bytes b =>
    rcases hcases with h | h | h | h | h | h | h | h | h | h <;> subst h <;> simp [valOk] at hv
  | dtime y tz mo d h mi s ms =>
    rcases hcases with h' | h' | h' | h' | h' | h' | h' | h' | h' | h' <;> subst h' <;> simp [valOk] at hv
  | obname o c i =>
    rcases hcases with h | h | h | h | h | h | h | h | h | h <;> subst h <;> simp [valOk] at hv
  | objref t o c i =>
    rcases hcases with h | h | h | h | h | h | h | h | h | h <;> subst h <;> simp [valOk] at hv

theorem fixedLen_numeric (rc : Nat) (hn : numericCode rc = true) : ∃ w, fixedLen rc = some w := by
  have hcases : rc = 2 ∨ rc = 5 ∨ rc = 6 ∨ rc = 7 ∨ rc = 12 ∨ rc = 13 ∨ rc = 14 ∨ rc = 15 ∨ rc = 16 ∨ rc = 17 := by
    simp only [numericCode, Bool.or_eq_true, decide_eq_true_eq] at hn; omega
  rcases hcases with h | h | h | h | h | h | h | h | h | h <;> subst h <;> exact ⟨_, rfl⟩

theorem encValues_length (rc : Nat) (w : Nat) (hn : numericCode rc = true) (hw : fixedLen rc = some w) :
    ∀ (vs : List Value), (∀ v ∈ vs, valOk rc v = true) → (encValues rc vs).length = w * vs.length
  | [], _ => by simp [encValues]
  | v :: vs, h => by
    have h1 := encValue_length rc v w hn hw (h v (by simp))
    have h2 := encValues_length rc w hn hw vs (fun x hx => h x (by simp [hx]))
    simp only [encValues, List.flatMap_cons, List.length_append, List.length_cons] at h2 ⊢
    rw [h1, h2, Nat.mul_add]; omega

/-! ### one frame -/

/-- what reading one frame does to the storage (pure description) -/
def writeRow (sel : Option (List Bytes)) (ai : Nat) : Nat → List Chan → List Arr → List (List Value) → List Arr
  | k, c :: cs, arr :: arrs, vs :: vss =>
    (if selected sel k c then arr.set ai (some vs) else arr) :: writeRow sel ai (k + 1) cs arrs vss
  | _, _, _, _ => []

/-- storage shape before a frame is read: selected channels have room for row `ai`, the others are empty -/
def shapeOk (sel : Option (List Bytes)) (n : Nat) : Nat → List Chan → List Arr → Prop
  | _, [], [] => True
  | k, c :: cs, arr :: arrs => (if selected sel k c then arr.length = n else arr = []) ∧ shapeOk sel n (k + 1) cs arrs
  | _, _, _ => False


theorem readFrameInto_enc (sel : Option (List Bytes)) (ai n : Nat) (hai : ai < n) :
    ∀ (cs : List Chan) (k : Nat) (arrs : List Arr) (vals : List (List Value)) (rest : Bytes),
    (∀ c ∈ cs, chanOk c) → valsOk cs vals → shapeOk sel n k cs arrs →
    readFrameInto sel ai k cs arrs (encFrameData cs vals ++ rest) = .ok (writeRow sel ai k cs arrs vals)
  | [], k, arrs, vals, rest, _, hv, hs => by
    cases arrs with
    | nil => cases vals <;> simp [readFrameInto, writeRow]
    | cons _ _ => simp [shapeOk] at hs
  | c :: cs, k, arrs, vals, rest, hc, hv, hs => by
    cases arrs with
    | nil => simp [shapeOk] at hs
    | cons arr arrs =>
      cases vals with
      | nil => simp [valsOk] at hv
      | cons vs vss =>
        obtain ⟨hlen, hvok, hvrest⟩ := hv
        obtain ⟨hshape, hsrest⟩ := hs
        have hck := hc c (by simp)
        have ih := readFrameInto_enc sel ai n hai cs (k + 1) arrs vss rest (fun x hx => hc x (by simp [hx])) hvrest hsrest
        simp only [readFrameInto, selected_eq_wanted, encFrameData, List.append_assoc, writeRow]
        cases hsel : selected sel k c with
        | true =>
          simp only [hsel, if_true] at hshape
          have hr := TD.C03.readValues_enc c.rc vs (encFrameData cs vss ++ rest) hvok
          rw [hlen] at hr
          simp only [if_true, readChan, hshape, show ¬ (ai ≥ n) from by omega, if_false, hr, ih]
        | false =>
          simp only [hsel, Bool.false_eq_true, if_false] at hshape
          obtain ⟨w, hw⟩ := fixedLen_numeric c.rc hck.1
          have hl := encValues_length c.rc w hck.1 hw vs hvok
          have hdrop : (encValues c.rc vs ++ (encFrameData cs vss ++ rest)).drop (w * c.count) = encFrameData cs vss ++ rest := by
            rw [← hlen, ← hl]; simp
          simp only [Bool.false_eq_true, if_false, seekChan, hshape, List.length_nil, ne_eq, not_true_eq_false, hw, hdrop, ih]

theorem writeRow_shape (sel : Option (List Bytes)) (ai n : Nat) :
    ∀ (cs : List Chan) (k : Nat) (arrs : List Arr) (vals : List (List Value)),
    valsOk cs vals → shapeOk sel n k cs arrs → shapeOk sel n k cs (writeRow sel ai k cs arrs vals)
  | [], k, arrs, vals, hv, hs => by
    cases arrs with
    | nil => cases vals <;> simp_all [writeRow, shapeOk]
    | cons _ _ => simp [shapeOk] at hs
  | c :: cs, k, arrs, vals, hv, hs => by
    cases arrs with
    | nil => simp [shapeOk] at hs
    | cons arr arrs =>
      cases vals with
      | nil => simp [valsOk] at hv
      | cons vs vss =>
        obtain ⟨_, _, hvrest⟩ := hv
        obtain ⟨hshape, hsrest⟩ := hs
        refine ⟨?_, writeRow_shape sel ai n cs (k + 1) arrs vss hvrest hsrest⟩
        cases hsel : selected sel k c <;> simp_all

/-! ### the populate loop is a fold of row writes -/

def foldRows (sel : Option (List Bytes)) (k : Nat) (cs : List Chan) : Nat → List (List (List Value)) → List Arr → List Arr
  | _, [], arrs => arrs
  | ai, row :: rows, arrs => foldRows sel k cs (ai + 1) rows (writeRow sel ai k cs arrs row)

/-- every position of the map points at the frame record holding the corresponding row -/
def fetchOk (ft : FrameType) (recs : List Rec) (iflrs : List IflrRef) (rows : List (List (List Value))) : Prop :=
  iflrs.length = rows.length ∧ ∀ j (hj : j < iflrs.length), ∃ r fno, recs[(iflrs[j]).pos]? = some r ∧
    fno < 1073741824 ∧ r.payload = encIflr ft.name fno (encFrameData ft.chans (rows.getD j [])) ∧
    valsOk ft.chans (rows.getD j [])

theorem populateLoop_fold (ft : FrameType) (recs : List Rec) (iflrs : List IflrRef) (rows : List (List (List Value)))
    (sel : Option (List Bytes)) (n : Nat) (hname : obnameOk ft.name) (hch : ∀ c ∈ ft.chans, chanOk c)
    (hf : fetchOk ft recs iflrs rows) :
    ∀ (idx : List Nat) (ai : Nat) (arrs : List Arr), (∀ i ∈ idx, i < rows.length) → ai + idx.length ≤ n →
      shapeOk sel n 0 ft.chans arrs →
      populateLoop ft recs iflrs sel ai idx arrs =
        .ok (foldRows sel 0 ft.chans ai (idx.map (fun i => rows.getD i [])) arrs)
  | [], ai, arrs, _, _, _ => by simp [populateLoop, foldRows]
  | fn :: idx, ai, arrs, hidx, hlen, hs => by
    have hfn : fn < iflrs.length := by rw [hf.1]; exact hidx fn (by simp)
    obtain ⟨r, fno, hr, hfno, hpay, hv⟩ := hf.2 fn hfn
    have hget : iflrs[fn]? = some iflrs[fn] := by simp [hfn]
    have hhdr := TD.C03.readIflrHeader_enc ft.name fno (encFrameData ft.chans (rows.getD fn [])) hname hfno
    have hread := readFrameInto_enc sel ai n (by simp at hlen; omega) ft.chans 0 arrs (rows.getD fn []) [] hch hv hs
    rw [List.append_nil] at hread
    have hs' := writeRow_shape sel ai n ft.chans 0 arrs (rows.getD fn []) hv hs
    have ih := populateLoop_fold ft recs iflrs rows sel n hname hch hf idx (ai + 1)
      (writeRow sel ai 0 ft.chans arrs (rows.getD fn [])) (fun i hi => hidx i (by simp [hi]))
      (by simp at hlen ⊢; omega) hs'
    simp only [populateLoop, hget, hr, hpay, hhdr, hread, ih, List.map_cons, foldRows]

/-! ### a fold of row writes fills the columns -/

def setMany : Arr → Nat → List (List Value) → Arr
  | arr, _, [] => arr
  | arr, ai, v :: vs => setMany (arr.set ai (some v)) (ai + 1) vs

theorem setMany_cons (a : Option (List Value)) : ∀ (vs : List (List Value)) (arr : Arr) (ai : Nat),
    setMany (a :: arr) (ai + 1) vs = a :: setMany arr ai vs
  | [], _, _ => rfl
  | v :: vs, arr, ai => by simp [setMany, setMany_cons a vs]

theorem setMany_full : ∀ (vs : List (List Value)) (arr : Arr), arr.length = vs.length →
    setMany arr 0 vs = vs.map some
  | [], arr, h => by
    have : arr = [] := List.length_eq_zero_iff.1 (by simpa using h)
    simp [setMany, this]
  | v :: vs, [], h => by simp at h
  | v :: vs, a :: arr, h => by
    simp only [setMany, List.set_cons_zero, List.map_cons]
    rw [setMany_cons, setMany_full vs arr (by simpa using h)]

theorem setMany_nil : ∀ (vs : List (List Value)) (ai : Nat), setMany [] ai vs = []
  | [], _ => rfl
  | v :: vs, ai => by simp [setMany, setMany_nil vs]

/-- rows all of the shape the channel list prescribes -/
def rowsOk (cs : List Chan) (rows : List (List (List Value))) : Prop := ∀ r ∈ rows, valsOk cs r

theorem rowsOk_tail (c : Chan) (cs : List Chan) (rows : List (List (List Value))) (h : rowsOk (c :: cs) rows) :
    rowsOk cs (rows.map List.tail) := by
  intro r hr
  obtain ⟨r0, hr0, rfl⟩ := List.mem_map.1 hr
  have := h r0 hr0
  cases r0 with
  | nil => simp [valsOk] at this
  | cons vs vss => exact this.2.2

theorem foldRows_cons (sel : Option (List Bytes)) (k : Nat) (c : Chan) (cs : List Chan) :
    ∀ (rows : List (List (List Value))) (ai : Nat) (arr : Arr) (arrs : List Arr), rowsOk (c :: cs) rows →
    foldRows sel k (c :: cs) ai rows (arr :: arrs) =
      (if selected sel k c then setMany arr ai (rows.map (fun r => r.headD [])) else arr) ::
        foldRows sel (k + 1) cs ai (rows.map List.tail) arrs
  | [], ai, arr, arrs, _ => by cases selected sel k c <;> simp [foldRows, setMany]
  | row :: rows, ai, arr, arrs, h => by
    have hrow := h row (by simp)
    cases row with
    | nil => simp [valsOk] at hrow
    | cons vs vss =>
      have ih := foldRows_cons sel k c cs rows (ai + 1) (if selected sel k c then arr.set ai (some vs) else arr)
        (writeRow sel ai (k + 1) cs arrs vss) (fun r hr => h r (by simp [hr]))
      simp only [foldRows, writeRow, ih, List.map_cons, List.headD_cons, List.tail_cons, setMany]
      cases selected sel k c <;> simp

theorem headD_some (rows : List (List (List Value))) (c : Chan) (cs : List Chan) (h : rowsOk (c :: cs) rows) :
    (rows.map (fun r => r.headD [])).map some = rows.map (fun r => r.head?) := by
  rw [List.map_map]
  apply List.map_congr_left
  intro r hr
  have := h r hr
  cases r with
  | nil => simp [valsOk] at this
  | cons vs vss => rfl

theorem foldRows_expect (sel : Option (List Bytes)) (n : Nat) :
    ∀ (cs : List Chan) (k : Nat) (rows : List (List (List Value))) (arrs : List Arr),
    rows.length = n → rowsOk cs rows → shapeOk sel n k cs arrs →
    foldRows sel k cs 0 rows arrs = expectArrays sel k cs rows
  | [], k, rows, arrs, _, _, hs => by
    cases arrs with
    | cons _ _ => simp [shapeOk] at hs
    | nil =>
      simp only [expectArrays]
      cases rows with
      | nil => rfl
      | cons r rs =>
        have : ∀ (rs : List (List (List Value))) (ai : Nat), foldRows sel k [] ai rs [] = [] := by
          intro rs
          induction rs with
          | nil => intro _; rfl
          | cons _ _ ih => intro ai; simp [foldRows, writeRow, ih]
        exact this _ _
  | c :: cs, k, rows, arrs, hn, hr, hs => by
    cases arrs with
    | nil => simp [shapeOk] at hs
    | cons arr arrs =>
      obtain ⟨hshape, hsrest⟩ := hs
      rw [foldRows_cons sel k c cs rows 0 arr arrs hr]
      have ih := foldRows_expect sel n cs (k + 1) (rows.map List.tail) arrs (by simpa using hn)
        (rowsOk_tail c cs rows hr) hsrest
      simp only [expectArrays, ih]
      cases hsel : selected sel k c with
      | true =>
        simp only [hsel, if_true] at hshape
        simp only [if_true]
        rw [setMany_full _ arr (by simp [hshape, hn]), headD_some rows c cs hr]
      | false =>
        simp only [hsel, Bool.false_eq_true, if_false] at hshape
        simp [hshape]

/-! ### storage initialisation gives the right shape whatever was there before -/

theorem initArrays_shape (sel : Option (List Bytes)) (n : Nat) :
    ∀ (cs : List Chan) (k : Nat) (arrs : List Arr), arrs.length = cs.length →
    ∃ arrs0, initArrays sel n k cs arrs = .ok arrs0 ∧ shapeOk sel n k cs arrs0
  | [], k, arrs, h => by
    have : arrs = [] := List.length_eq_zero_iff.1 (by simpa using h)
    subst this
    exact ⟨[], rfl, trivial⟩
  | c :: cs, k, [], h => by simp at h
  | c :: cs, k, arr :: arrs, h => by
    obtain ⟨arrs0, h0, hs0⟩ := initArrays_shape sel n cs (k + 1) arrs (by simpa using h)
    refine ⟨initArray arr (if wanted sel k c then n else 0) :: arrs0, by simp [initArrays, h0], ?_, hs0⟩
    rw [← selected_eq_wanted]
    cases hw : wanted sel k c with
    | true =>
      simp only [if_true]
      unfold initArray; split <;> simp_all
    | false =>
      simp only [Bool.false_eq_true, if_false]
      unfold initArray
      split
      · simp
      · rename_i hl
        exact List.length_eq_zero_iff.1 (by simpa using hl)

/-! ### the position map -/

/-- a record of the file: either one the IFLR index skips (encrypted, or an EFLR) or a frame record -/
def toRec (lp : List FrameType) : Rec ⊕ FrameA → Rec
  | .inl r => r
  | .inr f => frameRec lp f

/-- the references of frame type `k`: position, recorded frame number, the first channel's values -/
def refsOf (k : Nat) : Nat → List (Rec ⊕ FrameA) → List IflrRef
  | _, [] => []
  | pos, .inl _ :: its => refsOf k (pos + 1) its
  | pos, .inr f :: its =>
    match f.vals with
    | some vs => if f.ft = k then ⟨pos, f.frameNo, vs.headD []⟩ :: refsOf k (pos + 1) its else refsOf k (pos + 1) its
    | none => refsOf k (pos + 1) its

theorem lookup_mapAppend_self (m : List (ObName × List IflrRef)) (k : ObName) (v : IflrRef) :
    ((mapAppend m k v).lookup k).getD [] = (m.lookup k).getD [] ++ [v] := by
  induction m with
  | nil => simp [mapAppend, List.lookup]
  | cons p m ih =>
    obtain ⟨a, b⟩ := p
    by_cases ha : a = k
    · subst ha; simp [mapAppend, List.lookup]
    · have hb : (k == a) = false := by simpa using fun h => ha h.symm
      simp [mapAppend, ha, List.lookup, hb, ih]

theorem lookup_mapAppend_other (m : List (ObName × List IflrRef)) (k k' : ObName) (v : IflrRef) (h : k' ≠ k) :
    (mapAppend m k v).lookup k' = m.lookup k' := by
  induction m with
  | nil =>
    have hb : (k' == k) = false := by simpa using h
    simp [mapAppend, List.lookup, hb]
  | cons p m ih =>
    obtain ⟨a, b⟩ := p
    by_cases ha : a = k
    · subst ha
      have hb : (k' == a) = false := by simpa using h
      simp [mapAppend, List.lookup, hb]
    · simp only [mapAppend, ha, if_false, List.lookup]
      cases (k' == a) <;> simp [ih]

theorem lookupFt_get (lp : List FrameType) (hnd : (lp.map FrameType.name).Nodup) (k : Nat) (ft : FrameType)
    (hk : lp[k]? = some ft) : lookupFt lp ft.name = some ft := by
  unfold lookupFt
  induction lp generalizing k with
  | nil => simp at hk
  | cons a lp ih =>
    have hnd' := List.nodup_cons.1 (show (a.name :: lp.map FrameType.name).Nodup from hnd)
    cases k with
    | zero => simp at hk; subst hk; simp
    | succ k =>
      simp only [List.getElem?_cons_succ] at hk
      have hmem : ft ∈ lp := List.mem_of_getElem? hk
      have hne : a.name ≠ ft.name := by
        intro e; apply hnd'.1; rw [e]; exact List.mem_map_of_mem hmem
      simp [List.find?, hne, ih hnd'.2 k hk]

theorem name_inj (lp : List FrameType) (hnd : (lp.map FrameType.name).Nodup) (i j : Nat) (fi fj : FrameType)
    (hi : lp[i]? = some fi) (hj : lp[j]? = some fj) (h : fi.name = fj.name) : i = j := by
  have hi' : (lp.map FrameType.name)[i]? = some fi.name := by simp [hi]
  have hj' : (lp.map FrameType.name)[j]? = some fj.name := by simp [hj]
  rw [h] at hi'
  have hil : i < (lp.map FrameType.name).length := by
    rcases Nat.lt_or_ge i (lp.map FrameType.name).length with h | h
    · exact h
    · rw [List.getElem?_eq_none h] at hi'; simp at hi'
  have hjl : j < (lp.map FrameType.name).length := by
    rcases Nat.lt_or_ge j (lp.map FrameType.name).length with h | h
    · exact h
    · rw [List.getElem?_eq_none h] at hj'; simp at hj'
  rw [List.getElem?_eq_getElem hil] at hi'
  rw [List.getElem?_eq_getElem hjl] at hj'
  have e : (lp.map FrameType.name)[i] = (lp.map FrameType.name)[j] :=
    (Option.some.inj hi').trans (Option.some.inj hj').symm
  exact (List.Nodup.getElem_inj_iff hnd).1 e

theorem index_spec (lp : List FrameType) (hlp : lpOk lp) :
    ∀ (items : List (Rec ⊕ FrameA)) (pos : Nat) (m : List (ObName × List IflrRef)),
    (∀ r, .inl r ∈ items → (r.encrypted || r.isEflr) = true) → (∀ f, .inr f ∈ items → frameOk lp f) →
    ∃ m', indexIflrs lp pos (items.map (toRec lp)) m = .ok m' ∧
      ∀ k ft, lp[k]? = some ft → (m'.lookup ft.name).getD [] = (m.lookup ft.name).getD [] ++ refsOf k pos items
  | [], pos, m, _, _ => ⟨m, rfl, by intro k ft _; simp [refsOf]⟩
  | .inl r :: items, pos, m, hskip, hfr => by
    obtain ⟨m', h1, h2⟩ := index_spec lp hlp items (pos + 1) m (fun r hr => hskip r (by simp [hr]))
      (fun f hf => hfr f (by simp [hf]))
    refine ⟨m', ?_, ?_⟩
    · simp only [List.map_cons, toRec, indexIflrs, hskip r (by simp), if_true, h1]
    · intro k ft hk; simp only [refsOf]; exact h2 k ft hk
  | .inr f :: items, pos, m, hskip, hfr => by
    have hfok := hfr f (by simp)
    obtain ⟨hfno, hfok⟩ := hfok
    cases hft : lp[f.ft]? with
    | none => simp [hft] at hfok
    | some ft =>
      simp only [hft] at hfok
      have hftmem : ft ∈ lp := List.mem_of_getElem? hft
      obtain ⟨hname, hchne, hch⟩ := hlp.2 ft hftmem
      cases hvals : f.vals with
      | none =>
        obtain ⟨m', h1, h2⟩ := index_spec lp hlp items (pos + 1) m (fun r hr => hskip r (by simp [hr]))
          (fun f hf => hfr f (by simp [hf]))
        have hhdr := TD.C03.readIflrHeader_enc ft.name f.frameNo [] hname hfno
        refine ⟨m', ?_, ?_⟩
        · simp only [List.map_cons, toRec, frameRec, hft, hvals, indexIflrs, Bool.or_self, Bool.false_eq_true,
            if_false, hhdr, h1]
        · intro k ft' hk; simp only [refsOf, hvals]; exact h2 k ft' hk
      | some vs =>
        simp only [hvals] at hfok
        obtain ⟨hv, hne⟩ := hfok
        have hhdr := TD.C03.readIflrHeader_enc ft.name f.frameNo (encFrameData ft.chans vs) hname hfno
        cases hcs : ft.chans with
        | nil => exact absurd hcs hchne
        | cons c0 cs =>
          rw [hcs] at hv
          cases vs with
          | nil => simp [valsOk] at hv
          | cons v0 vss =>
            obtain ⟨hlen, hvok, _⟩ := hv
            have hdata : encFrameData ft.chans (v0 :: vss) = encValues c0.rc v0 ++ encFrameData cs vss := by
              rw [hcs]; rfl
            have hrd := TD.C03.readValues_enc c0.rc v0 (encFrameData cs vss) hvok
            rw [hlen] at hrd
            obtain ⟨m', h1, h2⟩ := index_spec lp hlp items (pos + 1) (mapAppend m ft.name ⟨pos, f.frameNo, v0⟩)
              (fun r hr => hskip r (by simp [hr])) (fun f hf => hfr f (by simp [hf]))
            refine ⟨m', ?_, ?_⟩
            · cases hd : encFrameData ft.chans (v0 :: vss) with
              | nil => exact absurd hd hne
              | cons b bs =>
                have hhdr' : readIflrHeader (encIflr ft.name f.frameNo (encFrameData ft.chans (v0 :: vss))) =
                    .ok ((ft.name, f.frameNo), b :: bs) := by rw [hhdr, hd]
                have hrd' : readValues c0.rc c0.count (b :: bs) = .ok (v0, encFrameData cs vss) := by
                  rw [← hd, hdata]; exact hrd
                have hlk := lookupFt_get lp hlp.1 f.ft ft hft
                have hhdr2 := hhdr'
                rw [hcs] at hhdr2
                simp only [List.map_cons, toRec, frameRec, hft, hvals, indexIflrs, Bool.or_self, Bool.false_eq_true,
                  if_false, hhdr2, hlk, hcs, hrd', h1]
            · intro k ft' hk
              rw [h2 k ft' hk]
              simp only [refsOf, hvals, List.headD_cons]
              by_cases hkk : f.ft = k
              · subst hkk
                have : ft' = ft := by rw [hft] at hk; exact (Option.some.inj hk).symm
                subst this
                simp [lookup_mapAppend_self, List.append_assoc]
              · have hne' : ft'.name ≠ ft.name := by
                  intro e; exact hkk (name_inj lp hlp.1 f.ft k ft ft' hft hk e.symm)
                simp [hkk, lookup_mapAppend_other _ _ _ _ hne']

end TD.C04
