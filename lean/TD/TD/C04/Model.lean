/-
C04 — model of frame-array population from an indexed RP66V1 file:

* `RP66V1/core/LogicalRecord/IFLR.py`                              → `TD.C03.readIflrHeader` (OBNAME, UVARI frame number)
* `RP66V1/core/LogicalFile.py`  `LogicalIndex.__enter__` (IFLR branch), `LogicalFile.add_iflr`   → `indexIflrs`
* `RP66V1/core/LogicalFile.py`  `LogicalFile.populate_frame_array`                                → `populate`
* `RP66V1/core/LogPass.py`      `RP66V1FrameChannel.read/seek/len_input_bytes`, `RP66V1FrameArray.read/read_partial`
                                                                    → `readChan`, `seekChan`, `readFrameInto`
* `common/LogPass.py`           `FrameChannel.init_array`, `FrameArray.init_arrays/init_arrays_partial`
                                                                    → `initArray`, `initArrays`
* `common/Slice.py`             `Slice/Sample.gen_indices/count`    → `TD.C15.sliceIndices` … (proved in C15)

A numpy array of shape `(n, *dims)` is a list of `n` rows; a row is `none` while uninitialised (`np.empty`) and
`some vs` (`count` values in `itertools.product` = row-major order) once written.  File positions are indexes into
the record list (random access by position is C02's subject).  Core Lean only.
-/
import TD.C03.Model
import TD.C15.Model

namespace TD.C04
open TD.C03 (Bytes Value ObName Rec readValues readIflrHeader)

inductive Err where
  | index            -- IndexError
  | key              -- KeyError (unknown frame type / no frames of that type)
  | value            -- ValueError (slice step 0)
  | repCode          -- ExceptionRepCode
  | frameChannel     -- ExceptionFrameChannel
  | frameArray       -- ExceptionFrameArray
  | frameArrayInit   -- ExceptionFrameArrayInit (a Frame lists a channel the CHANNEL set does not define)
  | other (e : TD.C03.Err)
  deriving Repr, DecidableEq

def liftErr : TD.C03.Err → Err
  | .index => .index
  | .repCode => .repCode
  | e => .other e

/-- `REP_CODE_FIXED_LENGTHS` -/
def fixedLen (rc : Nat) : Option Nat :=
  if rc = 1 then some 2 else if rc = 2 then some 4 else if rc = 3 then some 8 else if rc = 4 then some 12
  else if rc = 5 then some 4 else if rc = 6 then some 4 else if rc = 7 then some 8 else if rc = 8 then some 16
  else if rc = 9 then some 24 else if rc = 10 then some 8 else if rc = 11 then some 16 else if rc = 12 then some 1
  else if rc = 13 then some 2 else if rc = 14 then some 4 else if rc = 15 then some 1 else if rc = 16 then some 2
  else if rc = 17 then some 4 else if rc = 21 then some 8 else if rc = 26 then some 1 else none

/-- a channel of a frame: identity (the IDENT of its OBNAME), representation code, dimensions -/
structure Chan where
  ident : Bytes
  rc : Nat
  dims : List Nat
  deriving Repr, DecidableEq

/-- `FrameChannel.count = reduce(mul, dimensions, 1)` -/
def Chan.count (c : Chan) : Nat := c.dims.foldl (· * ·) 1

/-- a frame type (`FrameArray`): object name and channels in frame order -/
structure FrameType where
  name : ObName
  chans : List Chan
  deriving Repr, DecidableEq

/-- `frame_array_from_RP66V1`: the channels of a frame array are, **in the order the Frame object lists them in its
CHANNELS attribute** (which is the order of the values in every frame record), the CHANNEL-set objects of those names
(`channel_eflr[channel_obname]`, a lookup in `object_name_map`); the order in which the CHANNEL set defines its objects
plays no role.  `defs` = the CHANNEL set objects in definition order (names are distinct after de-duplication). -/
def pickChans (defs : List Chan) : List Bytes → Except Err (List Chan)
  | [] => .ok []
  | i :: is =>
    match defs.find? (fun c => c.ident = i) with
    | none => .error .frameArrayInit
    | some c => match pickChans defs is with
      | .error e => .error e
      | .ok cs => .ok (c :: cs)

/-- `log_pass_from_RP66V1`: one frame array per FRAME object, in FRAME-set order -/
def buildLogPass (defs : List Chan) : List (ObName × List Bytes) → Except Err (List FrameType)
  | [] => .ok []
  | (n, ids) :: fs =>
    match pickChans defs ids with
    | .error e => .error e
    | .ok cs => match buildLogPass defs fs with
      | .error e => .error e
      | .ok fts => .ok (⟨n, cs⟩ :: fts)

/-- channel storage: one entry per frame -/
abbrev Arr := List (Option (List Value))

/-- `RP66V1FrameChannel.read(ld, frame_number)` -/
def readChan (c : Chan) (ai : Nat) (arr : Arr) (data : Bytes) : Except Err (Arr × Bytes) :=
  if ai ≥ arr.length then .error .frameChannel else
  match readValues c.rc c.count data with
  | .error e => .error (liftErr e)
  | .ok (vs, r) => .ok (arr.set ai (some vs), r)

/-- `RP66V1FrameChannel.seek(ld)`: only legal on an empty array; skips `fixed length × count` bytes unchecked -/
def seekChan (c : Chan) (arr : Arr) (data : Bytes) : Except Err (Arr × Bytes) :=
  if arr.length ≠ 0 then .error .frameChannel else
  match fixedLen c.rc with
  | none => .error .repCode
  | some w => .ok (arr, data.drop (w * c.count))

/-- `c == 0 or channel.ident in channels` (every channel when no channel set is given) -/
def wanted (sel : Option (List Bytes)) (k : Nat) (c : Chan) : Bool :=
  match sel with
  | none => true
  | some ids => k = 0 || ids.contains c.ident

/-- `RP66V1FrameArray.read` (`sel = none`) / `read_partial` (`sel = some idents`): channel `0` is always read.
`k` is the channel index. -/
def readFrameInto (sel : Option (List Bytes)) (ai : Nat) : Nat → List Chan → List Arr → Bytes → Except Err (List Arr)
  | _, [], _, _ => .ok []
  | _, _ :: _, [], _ => .error .index
  | k, c :: cs, arr :: arrs, data =>
    match (if wanted sel k c then readChan c ai arr data else seekChan c arr data) with
    | .error e => .error e
    | .ok (arr', r) => match readFrameInto sel ai (k + 1) cs arrs r with
      | .error e => .error e
      | .ok arrs' => .ok (arr' :: arrs')

/-- `FrameChannel.init_array(n)`: the existing storage is reused when its length matches -/
def initArray (arr : Arr) (n : Nat) : Arr := if arr.length ≠ n then List.replicate n none else arr

/-- `init_arrays(n)` / `init_arrays_partial(n, channels)` -/
def initArrays (sel : Option (List Bytes)) (n : Nat) : Nat → List Chan → List Arr → Except Err (List Arr)
  | _, [], _ => .ok []
  | _, _ :: _, [] => .error .index
  | k, c :: cs, arr :: arrs =>
    match initArrays sel n (k + 1) cs arrs with
    | .error e => .error e
    | .ok arrs' => .ok (initArray arr (if wanted sel k c then n else 0) :: arrs')

/-- one entry of `iflr_position_map[name]`: position, frame number, X (the values of the first channel) -/
structure IflrRef where
  pos : Nat
  frameNo : Nat
  x : List Value
  deriving Repr, DecidableEq

/-- the selected frame indexes and `num_frames` (`gen_indices`, `count`); `none` = all frames -/
def selIndices (sel : Option TD.C15.Selector) (n : Nat) : Except Err (List Nat × Nat) :=
  match sel with
  | none => .ok (List.range n, n)
  | some (.slice a b c) =>
    match TD.C15.sliceIndices a b c n, TD.C15.sliceCount a b c n with
    | .ok l, .ok cnt => .ok (l.map Int.toNat, cnt)
    | _, _ => .error .value
  | some (.sample s) => .ok (TD.C15.sampleIndices n s, TD.C15.sampleCount n s)

/-- the `for array_index, frame_number in enumerate(range_gen)` loop -/
def populateLoop (ft : FrameType) (recs : List Rec) (iflrs : List IflrRef) (chans : Option (List Bytes)) :
    Nat → List Nat → List Arr → Except Err (List Arr)
  | _, [], arrs => .ok arrs
  | ai, fn :: rest, arrs =>
    match iflrs[fn]? with
    | none => .error .index
    | some ref => match recs[ref.pos]? with
      | none => .error .index
      | some r => match readIflrHeader r.payload with
        | .error e => .error (liftErr e)
        | .ok (_, data) => match readFrameInto chans ai 0 ft.chans arrs data with
          | .error e => .error e
          | .ok arrs' => populateLoop ft recs iflrs chans (ai + 1) rest arrs'

/-- `LogicalFile.populate_frame_array(frame_array, frame_slice, channels)`; `posmap` is `iflr_position_map`,
`arrs` the storage of the frame array's channels before the call.  Returns the storage after and `num_frames`. -/
def populate (ft : FrameType) (recs : List Rec) (posmap : List (ObName × List IflrRef)) (arrs : List Arr)
    (sel : Option TD.C15.Selector) (chans : Option (List Bytes)) : Except Err (List Arr × Nat) :=
  match posmap.lookup ft.name with
  | none => .error .key
  | some iflrs =>
    -- `len(iflrs)` is never 0: an entry is created by the first frame appended
    match selIndices sel iflrs.length with
    | .error e => .error e
    | .ok (idx, n) =>
      if n = 0 then .error .frameArray else
      match initArrays chans n 0 ft.chans arrs with
      | .error e => .error e
      | .ok arrs0 => match populateLoop ft recs iflrs chans 0 idx arrs0 with
        | .error e => .error e
        | .ok arrs1 => .ok (arrs1, n)

/-! ### building the position map (`LogicalIndex.__enter__`, IFLR branch; `LogicalFile.add_iflr`) -/

def mapAppend (m : List (ObName × List IflrRef)) (k : ObName) (v : IflrRef) : List (ObName × List IflrRef) :=
  match m with
  | [] => [(k, [v])]
  | (k', vs) :: m' => if k' = k then (k', vs ++ [v]) :: m' else (k', vs) :: mapAppend m' k v

def lookupFt (lp : List FrameType) (n : ObName) : Option FrameType := lp.find? (fun ft => ft.name = n)

/-- per frame type, in file order, skipping encrypted records, EFLRs and IFLRs without data: position, frame number
and the first channel's values (`read_x_axis`) -/
def indexIflrs (lp : List FrameType) : Nat → List Rec → List (ObName × List IflrRef) →
    Except Err (List (ObName × List IflrRef))
  | _, [], m => .ok m
  | pos, r :: rs, m =>
    if r.encrypted || r.isEflr then indexIflrs lp (pos + 1) rs m else
    match readIflrHeader r.payload with
    | .error e => .error (liftErr e)
    | .ok ((name, frameNo), data) =>
      match data with
      | [] => indexIflrs lp (pos + 1) rs m
      | _ :: _ =>
        match lookupFt lp name with
        | none => .error .key
        | some ft => match ft.chans with
          | [] => .error .frameArray
          | c0 :: _ => match readValues c0.rc c0.count data with
            | .error e => .error (liftErr e)
            | .ok (xs, _) => indexIflrs lp (pos + 1) rs (mapAppend m name ⟨pos, frameNo, xs⟩)

/-- channel storage right after indexing: the X channel holds one row (the last X read), the others are empty -/
def initialArrays (ft : FrameType) (posmap : List (ObName × List IflrRef)) : List Arr :=
  match ft.chans with
  | [] => []
  | _ :: cs =>
    (match posmap.lookup ft.name with
     | none => []
     | some refs => match refs.getLast? with
       | none => []
       | some r => [some r.x]) :: cs.map (fun _ => [])

end TD.C04
