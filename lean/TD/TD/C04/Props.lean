import TD.C04.Lemmas

/-!
# C04 — DLIS frame arrays hold exactly the recorded values; sub-selection commutes

Property theorems only.  The model (`TD.C04.Model`) transcribes `LogicalFile.populate_frame_array`, `add_iflr`,
`RP66V1FrameArray.read/read_partial`, `RP66V1FrameChannel.read/seek`, `FrameChannel.init_array`; the frame selectors are
the model of `common/Slice.py` proved in `TD.C15`.  The specification (`TD.C04.Spec`) encodes recorded frames and states
what a population is: rows and columns of the recorded values.
-/
namespace TD.C04
open TD.C03 (Bytes Value ObName Rec)
open TD.C15 (Selector)

/-- the selectors the property quantifies over: every frame, a slice with a positive step, a sample of at least one -/
def selOk : Option Selector → Prop
  | none => True
  | some (.slice _ _ c) => 0 < c.getD 1
  | some (.sample s) => 0 < s

/-- The frame indexes a selector yields are inside the frame range and their number is the reported count
(from C15: `slice_indices_mem_iff`, `sample_count`, `sample_shape`). -/
theorem selector_indices (sel : Option Selector) (n : Nat) (h : selOk sel) :
    ∃ idx cnt, selIndices sel n = .ok (idx, cnt) ∧ (∀ i ∈ idx, i < n) ∧ idx.length = cnt := by
  cases sel with
  | none => exact ⟨List.range n, n, rfl, fun i hi => List.mem_range.1 hi, by simp⟩
  | some s =>
    cases s with
    | slice a b c =>
      obtain ⟨l, hl, _, _, hb⟩ := TD.C15.slice_indices_mem_iff a b c n h
      refine ⟨l.map Int.toNat, l.length, ?_, ?_, by simp⟩
      · simp [selIndices, TD.C15.sliceCount, hl]
      · intro i hi
        obtain ⟨j, hj, rfl⟩ := List.mem_map.1 hi
        have := hb j hj
        omega
    | sample s =>
      have h1 := TD.C15.sample_count n s h
      have h2 := TD.C15.sample_shape n s h
      exact ⟨TD.C15.sampleIndices n s, TD.C15.sampleCount n s, rfl, h2.2.2.1, h1.2.symm⟩

/-- **Sub-selection commutes, for every prior storage.**  Let the position map of the frame type point at the frame
records holding `rows` (`fetchOk`), let `arrs` be *any* storage with one array per channel (whatever earlier calls
left there), `sel` any selector and `chans` any channel subset.  Then the selector yields indexes `idx` inside the frame
range, and (when it selects at least one frame) `populate` succeeds, returns `idx.length`, and leaves exactly
`expectArrays chans (rows at idx)`: for every selected channel — the first always — the `idx`-rows of that channel's
recorded values, element by element in row-major order; for every other channel an empty array. -/
theorem populate_commutes (ft : FrameType) (recs : List Rec) (posmap : List (ObName × List IflrRef))
    (iflrs : List IflrRef) (rows : List (List (List Value))) (arrs : List Arr)
    (sel : Option Selector) (chans : Option (List Bytes))
    (hname : TD.C03.obnameOk ft.name) (hch : ∀ c ∈ ft.chans, chanOk c)
    (hmap : posmap.lookup ft.name = some iflrs) (hf : fetchOk ft recs iflrs rows)
    (harrs : arrs.length = ft.chans.length) (hsel : selOk sel) :
    ∃ idx, (∀ i ∈ idx, i < rows.length) ∧ selIndices sel rows.length = .ok (idx, idx.length) ∧
      (idx ≠ [] → populate ft recs posmap arrs sel chans =
        .ok (expectArrays chans 0 ft.chans (idx.map (fun i => rows.getD i [])), idx.length)) := by
  obtain ⟨idx, cnt, hsi, hb, hl⟩ := selector_indices sel rows.length hsel
  subst hl
  refine ⟨idx, hb, hsi, ?_⟩
  intro hne
  have hn0 : idx.length ≠ 0 := by
    intro h; exact hne (List.length_eq_zero_iff.1 h)
  obtain ⟨arrs0, hinit, hshape⟩ := initArrays_shape chans idx.length ft.chans 0 arrs harrs
  have hloop := populateLoop_fold ft recs iflrs rows chans idx.length hname hch hf idx 0 arrs0 hb (by simp) hshape
  have hrows : rowsOk ft.chans (idx.map (fun i => rows.getD i [])) := by
    intro r hr
    obtain ⟨i, hi, rfl⟩ := List.mem_map.1 hr
    have hi' : i < iflrs.length := by rw [hf.1]; exact hb i hi
    obtain ⟨_, _, _, _, _, hv⟩ := hf.2 i hi'
    exact hv
  have hexp := foldRows_expect chans idx.length ft.chans 0 (idx.map (fun i => rows.getD i [])) arrs0 (by simp) hrows hshape
  unfold populate
  rw [hmap]
  simp only [hf.1, hsi, hn0, if_false, hinit, hloop, hexp]

/-- **Every value.**  Populating without a selector gives, for every frame, channel and element, exactly the recorded
value, and the frame count is the number of (non-empty) frame records of the type. -/
theorem populate_all_values (ft : FrameType) (recs : List Rec) (posmap : List (ObName × List IflrRef))
    (iflrs : List IflrRef) (rows : List (List (List Value))) (arrs : List Arr)
    (hname : TD.C03.obnameOk ft.name) (hch : ∀ c ∈ ft.chans, chanOk c)
    (hmap : posmap.lookup ft.name = some iflrs) (hf : fetchOk ft recs iflrs rows)
    (harrs : arrs.length = ft.chans.length) (hne : rows ≠ []) :
    populate ft recs posmap arrs none none = .ok (expectArrays none 0 ft.chans rows, rows.length) := by
  obtain ⟨idx, _, hsi, hp⟩ := populate_commutes ft recs posmap iflrs rows arrs none none hname hch hmap hf harrs trivial
  simp only [selIndices, Except.ok.injEq, Prod.mk.injEq] at hsi
  obtain ⟨hidx, _⟩ := hsi
  subst hidx
  have hne' : List.range rows.length ≠ [] := by
    intro h; apply hne; exact List.length_eq_zero_iff.1 (by simpa using congrArg List.length h)
  have := hp hne'
  have hmapid : (List.range rows.length).map (fun i => rows.getD i []) = rows := by
    apply List.ext_getElem (by simp)
    intro i h1 h2
    simp at h1
    simp [h1]
  rw [hmapid] at this
  simpa using this

/-- **History independence.**  Whatever two storages earlier populate calls (or the indexing pass) left behind, the
same call gives the same result — value, frame count or error; together with `populate_commutes` (the resulting storage
again has one array per channel) this lifts to every sequence of calls: the state after a call is a function of that
call only.  Covers the array-reuse path of `FrameChannel.init_array`. -/
theorem populate_history_independent (ft : FrameType) (recs : List Rec) (posmap : List (ObName × List IflrRef))
    (iflrs : List IflrRef) (rows : List (List (List Value))) (arrs arrs' : List Arr)
    (sel : Option Selector) (chans : Option (List Bytes))
    (hname : TD.C03.obnameOk ft.name) (hch : ∀ c ∈ ft.chans, chanOk c)
    (hmap : posmap.lookup ft.name = some iflrs) (hf : fetchOk ft recs iflrs rows)
    (harrs : arrs.length = ft.chans.length) (harrs' : arrs'.length = ft.chans.length) (hsel : selOk sel) :
    populate ft recs posmap arrs sel chans = populate ft recs posmap arrs' sel chans := by
  obtain ⟨idx, _, hsi, hp⟩ := populate_commutes ft recs posmap iflrs rows arrs sel chans hname hch hmap hf harrs hsel
  obtain ⟨idx', _, hsi', hp'⟩ := populate_commutes ft recs posmap iflrs rows arrs' sel chans hname hch hmap hf harrs' hsel
  have : idx = idx' := by
    rw [hsi] at hsi'; simp only [Except.ok.injEq, Prod.mk.injEq] at hsi'; exact hsi'.1
  subst this
  by_cases hne : idx = []
  · subst hne
    unfold populate
    simp [hmap, hf.1, hsi]
  · rw [hp hne, hp' hne]

end TD.C04
