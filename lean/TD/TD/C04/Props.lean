import TD.C04.Lemmas
import TD.C04.SliceNeg

/-!
# C04 — DLIS frame arrays hold exactly the recorded values; sub-selection commutes

Property theorems only.  The model (`TD.C04.Model`) transcribes `LogicalFile.populate_frame_array`, `add_iflr`,
`RP66V1FrameArray.read/read_partial`, `RP66V1FrameChannel.read/seek`, `FrameChannel.init_array`; the frame selectors are
the model of `common/Slice.py` proved in `TD.C15`.  The specification (`TD.C04.Spec`) encodes recorded frames and states
what a population is: rows and columns of the recorded values.
-/
namespace TD.C04
open TD.C03 (Bytes Value ObName Rec)
open TD.C15 (Selector)

/-- the selectors the property quantifies over: every frame, every Python slice (any non-zero step, **negative steps
included** — `slice(start, stop, 0)` is a `ValueError` in Python itself), a sample of at least one -/
def selOk : Option Selector → Prop
  | none => True
  | some (.slice _ _ c) => c.getD 1 ≠ 0
  | some (.sample s) => 0 < s

/-- **What a slice selects, and in which order** (both signs of the step).  The frame indexes generated for
`Slice(start, stop, step)` are exactly `list(range(n))[start:stop:step]`: for a positive step the increasing
enumeration of the positions between the clamped bounds (C15 `slice_indices_eq_python`), for a negative step the
*decreasing* enumeration from the clamped start down to above the clamped stop — so rows are populated in reverse
order — and the reported count is the length of that list. -/
theorem slice_selects_python (a b c : Option Int) (n : Nat) (h : c.getD 1 ≠ 0) :
    ∃ l, TD.C15.sliceIndices a b c n = .ok l ∧ TD.C15.sliceCount a b c n = .ok l.length ∧
      (0 < c.getD 1 → l = (((List.range n).map (fun (k : Nat) => (k : Int))).filter
          (fun i => decide (TD.C15.pyBound a 0 n ≤ i ∧ i < TD.C15.pyBound b n n ∧
            (i - TD.C15.pyBound a 0 n) % (c.getD 1) = 0)))) ∧
      (c.getD 1 < 0 → l = ((((List.range n).map (fun (k : Nat) => (k : Int))).reverse).filter
          (fun i => decide (pyBoundNeg b (-1) n < i ∧ i ≤ pyBoundNeg a ((n : Int) - 1) n ∧
            (pyBoundNeg a ((n : Int) - 1) n - i) % (-(c.getD 1)) = 0)))) := by
  rcases Int.lt_or_gt_of_ne h with hneg | hpos
  · have h1 := slice_indices_eq_python_neg a b c n hneg
    refine ⟨_, h1, by simp [TD.C15.sliceCount, h1], fun hp => by omega, fun _ => rfl⟩
  · have h1 := TD.C15.slice_indices_eq_python a b c n hpos
    refine ⟨_, h1, by simp [TD.C15.sliceCount, h1], fun _ => rfl, fun hn => by omega⟩

/-- The frame indexes a selector yields are inside the frame range and their number is the reported count
(from C15: `slice_indices_mem_iff`, `sample_count`, `sample_shape`; negative steps: `slice_indices_mem_iff_neg`). -/
theorem selector_indices (sel : Option Selector) (n : Nat) (h : selOk sel) :
    ∃ idx cnt, selIndices sel n = .ok (idx, cnt) ∧ (∀ i ∈ idx, i < n) ∧ idx.length = cnt := by
  cases sel with
  | none => exact ⟨List.range n, n, rfl, fun i hi => List.mem_range.1 hi, by simp⟩
  | some s =>
    cases s with
    | slice a b c =>
      have hl' : ∃ l, TD.C15.sliceIndices a b c n = .ok l ∧ ∀ i ∈ l, 0 ≤ i ∧ i < n := by
        rcases Int.lt_or_gt_of_ne (show c.getD 1 ≠ 0 from h) with hneg | hpos
        · obtain ⟨l, hl, _, _, hb⟩ := slice_indices_mem_iff_neg a b c n hneg
          exact ⟨l, hl, hb⟩
        · obtain ⟨l, hl, _, _, hb⟩ := TD.C15.slice_indices_mem_iff a b c n hpos
          exact ⟨l, hl, hb⟩
      obtain ⟨l, hl, hb⟩ := hl'
      refine ⟨l.map Int.toNat, l.length, ?_, ?_, by simp⟩
      · simp [selIndices, TD.C15.sliceCount, hl]
      · intro i hi
        obtain ⟨j, hj, rfl⟩ := List.mem_map.1 hi
        have := hb j hj
        omega
    | sample s =>
      have h1 := TD.C15.sample_count n s h
      have h2 := TD.C15.sample_shape n s h
      exact ⟨TD.C15.sampleIndices n s, TD.C15.sampleCount n s, rfl, h2.2.2.1, h1.2.symm⟩

/-- one selector OBJECT applied, one after the other, to frame arrays of the lengths `ns` (as `ToLAS` does with one
`--frame-slice` across frame types): as coded a `Slice` holds only the builtin `slice` and a `Sample` only its size —
nothing is remembered from one length to the next -/
def applyAll (sel : Option Selector) (ns : List Nat) : List (Except Err (List Nat × Nat)) := ns.map (selIndices sel)

/-- **Selection is a function of (selector value, n) only**: whatever lengths the same selector object was applied to
before (shorter, longer, any number of times), the indexes and count it yields for length `n` are `selIndices sel n`
— with `selector_indices`/`slice_selects_python`, Python slicing of `range(n)`. -/
theorem selector_reuse_stateless (sel : Option Selector) (before after : List Nat) (n : Nat) :
    (applyAll sel (before ++ n :: after))[before.length]? = some (selIndices sel n) := by
  simp [applyAll]

example : (applyAll (some (.slice none none (some (-1)))) ([2] ++ 5 :: []))[[2].length]? = some (.ok ([4, 3, 2, 1, 0], 5)) := by
  rw [selector_reuse_stateless]; rfl

/-- **Sub-selection commutes, for every prior storage.**  Let the position map of the frame type point at the frame
records holding `rows` (`fetchOk`), let `arrs` be *any* storage with one array per channel (whatever earlier calls
left there), `sel` any selector and `chans` any channel subset.  Then the selector yields indexes `idx` inside the frame
range, and (when it selects at least one frame) `populate` succeeds, returns `idx.length`, and leaves exactly
`expectArrays chans (rows at idx)`: for every selected channel — the first always — the `idx`-rows of that channel's
recorded values, element by element in row-major order; for every other channel an empty array. -/
theorem populate_commutes (ft : FrameType) (recs : List Rec) (posmap : List (ObName × List IflrRef))
    (iflrs : List IflrRef) (rows : List (List (List Value))) (arrs : List Arr)
    (sel : Option Selector) (chans : Option (List Bytes))
    (hname : TD.C03.obnameOk ft.name) (hch : ∀ c ∈ ft.chans, chanOk c)
    (hmap : posmap.lookup ft.name = some iflrs) (hf : fetchOk ft recs iflrs rows)
    (harrs : arrs.length = ft.chans.length) (hsel : selOk sel) :
    ∃ idx, (∀ i ∈ idx, i < rows.length) ∧ selIndices sel rows.length = .ok (idx, idx.length) ∧
      (idx ≠ [] → populate ft recs posmap arrs sel chans =
        .ok (expectArrays chans 0 ft.chans (idx.map (fun i => rows.getD i [])), idx.length)) := by
  obtain ⟨idx, cnt, hsi, hb, hl⟩ := selector_indices sel rows.length hsel
  subst hl
  refine ⟨idx, hb, hsi, ?_⟩
  intro hne
  have hn0 : idx.length ≠ 0 := by
    intro h; exact hne (List.length_eq_zero_iff.1 h)
  obtain ⟨arrs0, hinit, hshape⟩ := initArrays_shape chans idx.length ft.chans 0 arrs harrs
  have hloop := populateLoop_fold ft recs iflrs rows chans idx.length hname hch hf idx 0 arrs0 hb (by simp) hshape
  have hrows : rowsOk ft.chans (idx.map (fun i => rows.getD i [])) := by
    intro r hr
    obtain ⟨i, hi, rfl⟩ := List.mem_map.1 hr
    have hi' : i < iflrs.length := by rw [hf.1]; exact hb i hi
    obtain ⟨_, _, _, _, _, hv⟩ := hf.2 i hi'
    exact hv
  have hexp := foldRows_expect chans idx.length ft.chans 0 (idx.map (fun i => rows.getD i [])) arrs0 (by simp) hrows hshape
  unfold populate
  rw [hmap]
  simp only [hf.1, hsi, hn0, if_false, hinit, hloop, hexp]

/-- **Every value.**  Populating without a selector gives, for every frame, channel and element, exactly the recorded
value, and the frame count is the number of (non-empty) frame records of the type. -/
theorem populate_all_values (ft : FrameType) (recs : List Rec) (posmap : List (ObName × List IflrRef))
    (iflrs : List IflrRef) (rows : List (List (List Value))) (arrs : List Arr)
    (hname : TD.C03.obnameOk ft.name) (hch : ∀ c ∈ ft.chans, chanOk c)
    (hmap : posmap.lookup ft.name = some iflrs) (hf : fetchOk ft recs iflrs rows)
    (harrs : arrs.length = ft.chans.length) (hne : rows ≠ []) :
    populate ft recs posmap arrs none none = .ok (expectArrays none 0 ft.chans rows, rows.length) := by
  obtain ⟨idx, _, hsi, hp⟩ := populate_commutes ft recs posmap iflrs rows arrs none none hname hch hmap hf harrs trivial
  simp only [selIndices, Except.ok.injEq, Prod.mk.injEq] at hsi
  obtain ⟨hidx, _⟩ := hsi
  subst hidx
  have hne' : List.range rows.length ≠ [] := by
    intro h; apply hne; exact List.length_eq_zero_iff.1 (by simpa using congrArg List.length h)
  have := hp hne'
  have hmapid : (List.range rows.length).map (fun i => rows.getD i []) = rows := by
    apply List.ext_getElem (by simp)
    intro i h1 h2
    simp at h1
    simp [h1]
  rw [hmapid] at this
  simpa using this

/-- **History independence.**  Whatever two storages earlier populate calls (or the indexing pass) left behind, the
same call gives the same result — value, frame count or error; together with `populate_commutes` (the resulting storage
again has one array per channel) this lifts to every sequence of calls: the state after a call is a function of that
call only.  Covers the array-reuse path of `FrameChannel.init_array`. -/
theorem populate_history_independent (ft : FrameType) (recs : List Rec) (posmap : List (ObName × List IflrRef))
    (iflrs : List IflrRef) (rows : List (List (List Value))) (arrs arrs' : List Arr)
    (sel : Option Selector) (chans : Option (List Bytes))
    (hname : TD.C03.obnameOk ft.name) (hch : ∀ c ∈ ft.chans, chanOk c)
    (hmap : posmap.lookup ft.name = some iflrs) (hf : fetchOk ft recs iflrs rows)
    (harrs : arrs.length = ft.chans.length) (harrs' : arrs'.length = ft.chans.length) (hsel : selOk sel) :
    populate ft recs posmap arrs sel chans = populate ft recs posmap arrs' sel chans := by
  obtain ⟨idx, _, hsi, hp⟩ := populate_commutes ft recs posmap iflrs rows arrs sel chans hname hch hmap hf harrs hsel
  obtain ⟨idx', _, hsi', hp'⟩ := populate_commutes ft recs posmap iflrs rows arrs' sel chans hname hch hmap hf harrs' hsel
  have : idx = idx' := by
    rw [hsi] at hsi'; simp only [Except.ok.injEq, Prod.mk.injEq] at hsi'; exact hsi'.1
  subst this
  by_cases hne : idx = []
  · subst hne
    unfold populate
    simp [hmap, hf.1, hsi]
  · rw [hp hne, hp' hne]

/-! ## The position map -/

/-- the frame records among the records of a file -/
def framesIn : List (Rec ⊕ FrameA) → List FrameA
  | [] => []
  | .inl _ :: its => framesIn its
  | .inr f :: its => f :: framesIn its

/-- the references computed for frame type `k` are, in file order, one per frame record of the type that has data,
carrying its frame number and the values of its first channel -/
theorem refsOf_spec (k : Nat) : ∀ (items : List (Rec ⊕ FrameA)) (pos : Nat),
    (refsOf k pos items).map (fun r => r.frameNo) = frameNosOf k (framesIn items) ∧
    (refsOf k pos items).map (fun r => r.x) = (rowsOf k (framesIn items)).map (fun row => row.headD []) ∧
    (refsOf k pos items).length = (rowsOf k (framesIn items)).length ∧
    (refsOf k pos items).Pairwise (fun a b => a.pos < b.pos) ∧ (∀ r ∈ refsOf k pos items, pos ≤ r.pos)
  | [], pos => by simp [refsOf, framesIn, frameNosOf, rowsOf]
  | .inl _ :: its, pos => by
    obtain ⟨h1, h2, h3, h4, h5⟩ := refsOf_spec k its (pos + 1)
    refine ⟨by simpa [refsOf, framesIn] using h1, by simpa [refsOf, framesIn] using h2,
      by simpa [refsOf, framesIn] using h3, by simpa [refsOf] using h4, ?_⟩
    intro r hr; have := h5 r (by simpa [refsOf] using hr); omega
  | .inr f :: its, pos => by
    obtain ⟨h1, h2, h3, h4, h5⟩ := refsOf_spec k its (pos + 1)
    cases hv : f.vals with
    | none =>
      refine ⟨by simpa [refsOf, framesIn, frameNosOf, hv] using h1, by simpa [refsOf, framesIn, rowsOf, hv] using h2,
        by simpa [refsOf, framesIn, rowsOf, hv] using h3, by simpa [refsOf, hv] using h4, ?_⟩
      intro r hr; have := h5 r (by simpa [refsOf, hv] using hr); omega
    | some vs =>
      by_cases hk : f.ft = k
      · refine ⟨by simp [refsOf, framesIn, frameNosOf, hv, hk, h1], by simp [refsOf, framesIn, rowsOf, hv, hk, h2],
          by simp [refsOf, framesIn, rowsOf, hv, hk, h3], ?_, ?_⟩
        · simp only [refsOf, hv, hk, if_true, List.pairwise_cons]
          exact ⟨fun r hr => by have := h5 r hr; simp; omega, h4⟩
        · intro r hr
          simp only [refsOf, hv, hk, if_true, List.mem_cons] at hr
          rcases hr with rfl | hr
          · simp
          · have := h5 r hr; omega
      · refine ⟨by simpa [refsOf, framesIn, frameNosOf, hv, hk] using h1, by simpa [refsOf, framesIn, rowsOf, hv, hk] using h2,
          by simpa [refsOf, framesIn, rowsOf, hv, hk] using h3, by simpa [refsOf, hv, hk] using h4, ?_⟩
        intro r hr; have := h5 r (by simpa [refsOf, hv, hk] using hr); omega

/-- **X and frame number.**  For any file whose records are frame records of a well-formed log pass (any interleaving
of frame types, frame records without data, any frame numbers) mixed with arbitrary records the IFLR index skips
(encrypted records, EFLRs), indexing succeeds and the position map holds for every frame type, in file order,
exactly one entry per frame record of that type with data: its position, its recorded frame number and the values of
its first channel. -/
theorem x_and_frameno (lp : List FrameType) (hlp : lpOk lp) (items : List (Rec ⊕ FrameA))
    (hskip : ∀ r, .inl r ∈ items → (r.encrypted || r.isEflr) = true) (hfr : ∀ f, .inr f ∈ items → frameOk lp f) :
    ∃ m, indexIflrs lp 0 (items.map (toRec lp)) [] = .ok m ∧
      ∀ k ft, lp[k]? = some ft →
        (m.lookup ft.name).getD [] = refsOf k 0 items ∧
        ((m.lookup ft.name).getD []).map (fun r => r.frameNo) = frameNosOf k (framesIn items) ∧
        ((m.lookup ft.name).getD []).map (fun r => r.x) = (rowsOf k (framesIn items)).map (fun row => row.headD []) := by
  obtain ⟨m, h1, h2⟩ := index_spec lp hlp items 0 [] hskip hfr
  refine ⟨m, h1, ?_⟩
  intro k ft hk
  have := h2 k ft hk
  simp only [List.lookup, Option.getD_none, List.nil_append] at this
  obtain ⟨s1, s2, _, _, _⟩ := refsOf_spec k items 0
  exact ⟨this, by rw [this]; exact s1, by rw [this]; exact s2⟩

/-- **Frame count.**  The number of frames the index holds for a frame type (what `populate` without a selector
returns, see `populate_all_values`) is the number of frame records of that type that carry data. -/
theorem frame_count (lp : List FrameType) (hlp : lpOk lp) (items : List (Rec ⊕ FrameA))
    (hskip : ∀ r, .inl r ∈ items → (r.encrypted || r.isEflr) = true) (hfr : ∀ f, .inr f ∈ items → frameOk lp f) :
    ∃ m, indexIflrs lp 0 (items.map (toRec lp)) [] = .ok m ∧
      ∀ k ft, lp[k]? = some ft → ((m.lookup ft.name).getD []).length = (rowsOf k (framesIn items)).length := by
  obtain ⟨m, h1, h2⟩ := x_and_frameno lp hlp items hskip hfr
  refine ⟨m, h1, ?_⟩
  intro k ft hk
  rw [(h2 k ft hk).1]
  exact (refsOf_spec k items 0).2.2.1

/-- **The position map points at the right records.**  Entry `j` of the references computed for frame type `k` is the
position of the frame record that encodes row `j` of that type (this is the hypothesis `fetchOk` of the populate
theorems). -/
theorem fetch_of_refs (lp : List FrameType) (k : Nat) (ft : FrameType) (hk : lp[k]? = some ft) :
    ∀ (items : List (Rec ⊕ FrameA)) (pre : List Rec), (∀ f, .inr f ∈ items → frameOk lp f) →
      fetchOk ft (pre ++ items.map (toRec lp)) (refsOf k pre.length items) (rowsOf k (framesIn items))
  | [], pre, _ => by
    refine ⟨by simp [refsOf, framesIn, rowsOf], ?_⟩
    intro j hj; simp [refsOf] at hj
  | .inl r :: its, pre, hfr => by
    have ih := fetch_of_refs lp k ft hk its (pre ++ [r]) (fun f hf => hfr f (by simp [hf]))
    simpa [refsOf, framesIn, toRec, List.append_assoc] using ih
  | .inr f :: its, pre, hfr => by
    have ih := fetch_of_refs lp k ft hk its (pre ++ [frameRec lp f]) (fun f hf => hfr f (by simp [hf]))
    have hfok := hfr f (by simp)
    cases hv : f.vals with
    | none => simpa [refsOf, framesIn, rowsOf, hv, toRec, List.append_assoc] using ih
    | some vs =>
      by_cases hft : f.ft = k
      · obtain ⟨hfno, hrest⟩ := hfok
        rw [hft, hk] at hrest
        simp only [hv] at hrest
        have ih' : fetchOk ft (pre ++ frameRec lp f :: its.map (toRec lp)) (refsOf k (pre.length + 1) its)
            (rowsOf k (framesIn its)) := by
          simpa [List.append_assoc] using ih
        refine ⟨by simp [refsOf, framesIn, rowsOf, hv, hft, ih'.1], ?_⟩
        intro j hj
        simp only [refsOf, hv, hft, if_true, framesIn, rowsOf, List.map_cons, toRec] at hj ⊢
        cases j with
        | zero =>
          refine ⟨frameRec lp f, f.frameNo, by simp, hfno, ?_, by simpa using hrest.1⟩
          simp [frameRec, hft, hk, hv]
        | succ j =>
          have hj' : j < (refsOf k (pre.length + 1) its).length := by simpa using hj
          obtain ⟨r, fno, h1, h2, h3, h4⟩ := ih'.2 j hj'
          exact ⟨r, fno, by simpa using h1, h2, by simpa using h3, by simpa using h4⟩
      · simpa [refsOf, framesIn, rowsOf, hv, hft, toRec, List.append_assoc] using ih

/-- **Index and populate, end to end.**  For any well-formed log pass, any file made of its frame records (any
interleaving of frame types, data-less frame records, any frame numbers) mixed with records the index skips, any prior
storage, any selector and any channel subset: indexing succeeds and populating frame type `k` gives exactly the selected
rows and channels of the recorded values of that type. -/
theorem populate_indexed (lp : List FrameType) (hlp : lpOk lp) (items : List (Rec ⊕ FrameA))
    (hskip : ∀ r, .inl r ∈ items → (r.encrypted || r.isEflr) = true) (hfr : ∀ f, .inr f ∈ items → frameOk lp f)
    (k : Nat) (ft : FrameType) (hk : lp[k]? = some ft) (arrs : List Arr) (harrs : arrs.length = ft.chans.length)
    (sel : Option TD.C15.Selector) (chans : Option (List Bytes)) (hsel : selOk sel) :
    ∃ m idx, indexIflrs lp 0 (items.map (toRec lp)) [] = .ok m ∧
      (∀ i ∈ idx, i < (rowsOf k (framesIn items)).length) ∧
      selIndices sel (rowsOf k (framesIn items)).length = .ok (idx, idx.length) ∧
      (idx ≠ [] → populate ft (items.map (toRec lp)) m arrs sel chans =
        .ok (expectArrays chans 0 ft.chans (idx.map (fun i => (rowsOf k (framesIn items)).getD i [])), idx.length)) := by
  obtain ⟨m, hm, hx⟩ := x_and_frameno lp hlp items hskip hfr
  have hrefs := (hx k ft hk).1
  have hftmem : ft ∈ lp := List.mem_of_getElem? hk
  obtain ⟨hname, _, hch⟩ := hlp.2 ft hftmem
  have hfetch := fetch_of_refs lp k ft hk items [] hfr
  simp only [List.nil_append, List.length_nil] at hfetch
  cases hl : m.lookup ft.name with
  | none =>
    rw [hl] at hrefs
    simp only [Option.getD_none] at hrefs
    have hlen : (rowsOf k (framesIn items)).length = 0 := by
      rw [← hfetch.1, ← hrefs]; rfl
    obtain ⟨idx, cnt, hsi, hb, hlc⟩ := selector_indices sel (rowsOf k (framesIn items)).length hsel
    subst hlc
    refine ⟨m, idx, hm, hb, hsi, ?_⟩
    intro hne
    cases idx with
    | nil => exact absurd rfl hne
    | cons i _ => have := hb i (by simp); omega
  | some refs =>
    rw [hl] at hrefs
    simp only [Option.getD_some] at hrefs
    subst hrefs
    obtain ⟨idx, hb, hsi, hp⟩ := populate_commutes ft (items.map (toRec lp)) m (refsOf k 0 items)
      (rowsOf k (framesIn items)) arrs sel chans hname hch hl hfetch harrs hsel
    exact ⟨m, idx, hm, hb, hsi, hp⟩

/-! ## The log pass: channel order is the Frame's order -/

theorem find_ident (defs : List Chan) (hnd : (defs.map Chan.ident).Nodup) (c : Chan) (hc : c ∈ defs) :
    defs.find? (fun d => d.ident = c.ident) = some c := by
  induction defs with
  | nil => simp at hc
  | cons d ds ih =>
    have hnd' := List.nodup_cons.1 (show (d.ident :: ds.map Chan.ident).Nodup from hnd)
    rcases List.mem_cons.1 hc with rfl | hmem
    · simp [List.find?]
    · have hne : d.ident ≠ c.ident := by
        intro e; apply hnd'.1; rw [e]; exact List.mem_map_of_mem hmem
      simp [List.find?, hne, ih hnd'.2 hmem]

/-- **Frame-array channels are the Frame's CHANNELS list, in that order.**  Whatever order the CHANNEL set defines its
objects in (`defs`: reversed, sorted, shuffled, the index channel defined last, channels of several frames interleaved,
channels no frame uses), the channels picked for a Frame that lists `cs` are exactly `cs` in the listed order — so the
first listed channel is the X axis and frame-record values are decoded with the listed channels' codes and dimensions. -/
theorem frame_channels_in_listed_order (defs : List Chan) (hnd : (defs.map Chan.ident).Nodup) (cs : List Chan)
    (hcs : ∀ c ∈ cs, c ∈ defs) : pickChans defs (cs.map Chan.ident) = .ok cs := by
  induction cs with
  | nil => rfl
  | cons c cs ih =>
    simp only [List.map_cons, pickChans, find_ident defs hnd c (hcs c (by simp)),
      ih (fun x hx => hcs x (by simp [hx]))]

/-- **Permutation invariance**: two CHANNEL sets with the same objects in different definition orders give the same
frame array. -/
theorem frame_channels_perm_invariant (defs defs' : List Chan) (hp : defs.Perm defs')
    (hnd : (defs.map Chan.ident).Nodup) (cs : List Chan) (hcs : ∀ c ∈ cs, c ∈ defs) :
    pickChans defs (cs.map Chan.ident) = pickChans defs' (cs.map Chan.ident) := by
  rw [frame_channels_in_listed_order defs hnd cs hcs,
    frame_channels_in_listed_order defs' ((hp.map Chan.ident).nodup_iff.1 hnd) cs (fun c hc => hp.mem_iff.1 (hcs c hc))]

/-- the whole log pass: one frame array per FRAME object in FRAME-set order, each with its listed channels -/
theorem log_pass_from_tables (defs : List Chan) (hnd : (defs.map Chan.ident).Nodup) :
    ∀ (lp : List FrameType), (∀ ft ∈ lp, ∀ c ∈ ft.chans, c ∈ defs) →
      buildLogPass defs (lp.map (fun ft => (ft.name, ft.chans.map Chan.ident))) = .ok lp
  | [], _ => rfl
  | ft :: lp, h => by
    simp only [List.map_cons, buildLogPass, frame_channels_in_listed_order defs hnd ft.chans (h ft (by simp)),
      log_pass_from_tables defs hnd lp (fun f hf => h f (by simp [hf]))]

example : pickChans [⟨[66], 13, [2]⟩, ⟨[90], 7, [1]⟩, ⟨[65], 2, [1]⟩] [[65], [66]] = .ok [⟨[65], 2, [1]⟩, ⟨[66], 13, [2]⟩] := by
  decide

/-! non-vacuity: two interleaved frame types, a 2×2 channel, a data-less frame record and an encrypted record -/
def exLp : List FrameType :=
  [⟨⟨1, 0, [70, 48]⟩, [⟨[88], 2, [1]⟩, ⟨[65], 13, [2, 2]⟩]⟩, ⟨⟨1, 0, [70, 49]⟩, [⟨[89], 17, [1]⟩]⟩]
def exItems : List (Rec ⊕ FrameA) :=
  [.inr ⟨0, 1, some [[.word 2 1065353216], [.int 1, .int (-2), .int 3, .int 4]]⟩, .inl ⟨true, false, 0, [1, 2]⟩,
   .inr ⟨1, 1, some [[.int 7]]⟩, .inr ⟨0, 2, none⟩,
   .inr ⟨0, 2, some [[.word 2 1073741824], [.int 5, .int 6, .int 7, .int 8]]⟩]

example : lpOk exLp := by
  simp [lpOk, exLp, chanOk, TD.C03.obnameOk, numericCode]
example : ∀ r, .inl r ∈ exItems → (r.encrypted || r.isEflr) = true := by
  intro r hr; simp [exItems] at hr; subst hr; rfl
example : rowsOf 0 (framesIn exItems) = [[[.word 2 1065353216], [.int 1, .int (-2), .int 3, .int 4]],
    [[.word 2 1073741824], [.int 5, .int 6, .int 7, .int 8]]] := by decide
example : (indexIflrs exLp 0 (exItems.map (toRec exLp)) []).toOption.map (fun m => m.map (fun e => e.2.map (fun r => (r.pos, r.frameNo)))) =
    some [[(0, 1), (4, 2)], [(2, 1)]] := by rfl
example : selOk (some (.slice (some 1) none (some 2))) := by simp [selOk]
example : selOk (some (.slice (some 25) (some 3) (some (-4)))) := by simp [selOk]
example : TD.C15.sliceIndices (some 25) (some 3) (some (-4)) 10 = .ok [9, 5] := by decide

end TD.C04
