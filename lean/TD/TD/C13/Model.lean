/-
C13 — model of `TotalDepth/BIT/ReadBIT.py` AS CODED (core Lean only, no Mathlib).

Modelled functions (Python name → Lean name):

* `bytes_to_float`                      → `bytesToFloat`    (header decoder, divides the mantissa by 0x1000000)
* `RP66V1.core.pRepCode.ISINGL`         → `isingl`
* `gen_floats`                          → `genFloat` / `addVals`  (frame decoder, divides the mantissa by 0xffffff: defect F12)
* `yield_tif_blocks`                    → `walk`            (a generator: modelled as the list of yielded blocks and
                                                              the exception, if any, that the generator raises *after* them)
* `read_bytes_from_offset`              → `readN`           (cursor form: `rest = block[offset:]`)
* `BITFrameArray.__init__`              → `parseHeader`
* `BITFrameArray.add_block`             → `addBlock`
* `BITFrameArray.complete`              → `complete` (+ `FrameArray.append` duplicate check, X axis synthesis `xAxisGo`)
* `create_bit_frame_array_from_file`    → `consume` / `readBIT`

Python floats: a value is `Fl` = sign bit + non-negative rational magnitude (the sign bit carries `-0.0`).
Operations that are exact in binary64 by construction (24-bit integer / 2^24, multiplication by 16^k inside the normal
range) are exact rational operations; the two operations that round (`mantissa / 0xffffff`, `x ± spacing`) go through
`rndDiv` = round-to-nearest-even to 53 significant bits (normal range only: every BIT value lies in [2^-280, 2^252]).
-/
namespace TD.C13

inductive Err
  | tif          -- ExceptionTotalDepthBIT_TIF
  | valueError   -- ValueError from read_bytes_from_offset
  | structError  -- struct.error (count / null word shorter than 2 bytes)
  | firstBlock   -- ExceptionTotalDepthBITFirstBlock (channel count > 20)
  | unicode      -- UnicodeDecodeError (channel name not ASCII)
  | index        -- IndexError inside gen_floats (1..3 trailing bytes)
  | duplicate    -- ExceptionFrameArray: duplicate channel identity
  deriving DecidableEq, Repr

/-! ## binary64 values -/

/-- A binary64 value: sign bit and non-negative magnitude. -/
structure Fl where
  neg : Bool
  mag : Rat
  deriving DecidableEq

def Fl.toRat (f : Fl) : Rat := if f.neg then -f.mag else f.mag

/-- `2^e` for an integer `e`. -/
def pow2 (e : Int) : Rat := (2 : Rat) ^ e

/-- Correctly rounded (nearest, ties to even, 53 significant bits, normal range) value of `n / d` for `n, d > 0`. -/
def rndDiv (n d : Nat) : Rat :=
  if n = 0 ∨ d = 0 then 0 else
  let e0 : Int := (n.log2 : Int) - (d.log2 : Int) - 52
  let sN (e : Int) : Nat := if 0 ≤ e then n else n * 2 ^ (-e).toNat
  let sD (e : Int) : Nat := if 0 ≤ e then d * 2 ^ e.toNat else d
  let e : Int := if sN e0 < sD e0 * 2 ^ 52 then e0 - 1 else e0
  let N := sN e
  let D := sD e
  let k := N / D
  let r := N % D
  let k' := if 2 * r < D then k else if D < 2 * r then k + 1 else if k % 2 = 0 then k else k + 1
  (k' : Rat) * pow2 e

/-- round a non-negative rational to binary64 -/
def rndRat (q : Rat) : Rat := rndDiv q.num.toNat q.den

/-- Python `int / int` (true division) for non-negative ints: correctly rounded. -/
def fdivNat (a b : Nat) : Rat := rndDiv a b

/-- IEEE addition (round to nearest even; an exact zero sum is `+0` unless both operands are negative zeros). -/
def fadd (a b : Fl) : Fl :=
  let s := a.toRat + b.toRat
  if s = 0 then ⟨a.neg && b.neg, 0⟩
  else if s < 0 then ⟨true, rndRat (-s)⟩ else ⟨false, rndRat s⟩

def fneg (a : Fl) : Fl := ⟨!a.neg, a.mag⟩
/-- Python `abs(x)` on a float: clears the sign bit -/
def fabs (a : Fl) : Fl := ⟨false, a.mag⟩
def fsub (a b : Fl) : Fl := fadd a (fneg b)

/-! ## IBM single precision -/

/-- `16 ** (exp - 64)` as used by all three decoders (`exp` in 0..127: an exact power of two in the normal range). -/
def pow16 (exp : Nat) : Rat := pow2 (4 * ((exp : Int) - 64))

/-- `bytes_to_float` on exactly four bytes (the `len(b) < 4` check is at the call site `readN`). -/
def bytesToFloat (b0 b1 b2 b3 : Nat) : Fl :=
  let sign := b0 &&& 0x80
  let exp := b0 &&& 0x7f
  let mantissa := b1 <<< 16
  let mantissa := mantissa ||| (b2 <<< 8)
  let mantissa := mantissa ||| b3
  let m : Rat := (mantissa : Rat) / 0x1000000      -- exact: 24-bit integer over 2^24
  let ret := m * pow16 exp                           -- exact scaling
  if sign ≠ 0 then ⟨true, ret⟩ else ⟨false, ret⟩

/-- RP66V1 `ISINGL` on four bytes. -/
def isingl (b0 b1 b2 b3 : Nat) : Fl :=
  let sign := b0 &&& 0x80
  let exp := b0 &&& 0x7f
  let mantissa := b1 <<< 16 ||| b2 <<< 8 ||| b3
  let m : Rat := (mantissa : Rat) / 0x1000000
  let ret := m * pow16 exp
  if sign ≠ 0 then ⟨true, ret⟩ else ⟨false, ret⟩

/-- The 24-bit mantissa of a word as `gen_floats` assembles it. -/
def genMantissa (b1 b2 b3 : Nat) : Nat :=
  let mantissa := b1 <<< 16
  let mantissa := mantissa ||| (b2 <<< 8)
  mantissa ||| b3

/-- The exact (unrounded) rational `gen_floats` aims at: `mantissa / 0xffffff * 16 ** (exp - 64)`. -/
def genExact (b0 b1 b2 b3 : Nat) : Rat :=
  ((genMantissa b1 b2 b3 : Nat) : Rat) / 0xffffff * pow16 (b0 &&& 0x7f)

/-- One value of `gen_floats` AS CODED: divisor `0xffffff` (F12), the division rounds, the scaling is exact. -/
def genFloat (b0 b1 b2 b3 : Nat) : Fl :=
  let sign := b0 &&& 0x80
  let exp := b0 &&& 0x7f
  let mantissa := genMantissa b1 b2 b3
  let m := fdivNat mantissa 0xffffff
  let value := m * pow16 exp
  if sign ≠ 0 then ⟨true, value⟩ else ⟨false, value⟩

/-! ## TIF block walker -/

inductive TifType | data | endLogPass | endFile
  deriving DecidableEq, Repr

structure Block where
  typ : TifType
  payload : List Nat
  deriving DecidableEq

structure Marker where
  tell : Nat
  typ : Nat
  prev : Nat
  next : Nat

/-- little-endian unsigned 32 bit at offset `i` of a byte list (struct '<L') -/
def u32le (bs : List Nat) (i : Nat) : Nat :=
  bs.getD i 0 + 256 * bs.getD (i + 1) 0 + 65536 * bs.getD (i + 2) 0 + 16777216 * bs.getD (i + 3) 0

def consBlock (b : Block) (r : List Block × Option Err) : List Block × Option Err := (b :: r.1, r.2)

/-- `yield_tif_blocks`: `rest` = the file from the current position, `tell` = that position, `pv` = `tif_prev`.
Returns the blocks yielded and the exception the generator raises after them (if any).
`fuel` bounds the number of loop iterations (each consumes 12 bytes; `readBIT` passes `len + 1`).
`file.read(n)` with negative `n` reads to the end of an `io.BytesIO`. -/
def walk : Nat → List Nat → Nat → Marker → List Block × Option Err
  | 0, _, _, _ => ([], none)
  | fuel + 1, rest, tell, pv =>
    let tifBytes := rest.take 12
    if tifBytes.length < 12 then ([⟨.endFile, []⟩], none)
    else
      let tif : Marker := ⟨tell, u32le tifBytes 0, u32le tifBytes 4, u32le tifBytes 8⟩
      let rest1 := rest.drop 12
      if pv.next ≠ 0 ∧ tif.tell ≠ pv.next then ([], some .tif)
      else if pv.next = 0 ∧ tif.tell ≠ 0 then ([], some .tif)
      else
        let plen : Int := (tif.next : Int) - (tif.tell : Int) - 12
        let byt := if plen < 0 then rest1 else rest1.take plen.toNat
        let rest2 := if plen < 0 then [] else rest1.drop plen.toNat
        let tell2 := tell + 12 + byt.length
        if tif.typ = 0 then consBlock ⟨.data, byt⟩ (walk fuel rest2 tell2 tif)
        else if pv.typ ≠ 0 then ([⟨.endFile, byt⟩], none)
        else consBlock ⟨.endLogPass, byt⟩ (walk fuel rest2 tell2 tif)

/-! ## Header block -/

/-- `read_bytes_from_offset` in cursor form (`rest = b[offset:]`, so `len(b) < offset + count ⇔ rest.length < count`). -/
def readN (n : Nat) (rest : List Nat) : Except Err (List Nat × List Nat) :=
  if rest.length < n then .error .valueError else .ok (rest.take n, rest.drop n)

/-- `struct.unpack('>H', block[offset:offset + 2])[0]` -/
def readU16be (rest : List Nat) : Except Err Nat :=
  if rest.length < 2 then .error .structError else .ok (256 * rest.getD 0 0 + rest.getD 1 0)

/-- the loop reading `count` four-byte ASCII channel names -/
def readNames : Nat → List Nat → Except Err (List (List Nat) × List Nat)
  | 0, rest => .ok ([], rest)
  | count + 1, rest => do
    let (name, rest) ← readN 4 rest
    if name.any (fun b => 128 ≤ b) then .error .unicode
    let (names, rest) ← readNames count rest
    pure (name :: names, rest)

/-- the loop reading the five IBM floats with `bytes_to_float` -/
def readFloats : Nat → List Nat → Except Err (List Fl × List Nat)
  | 0, rest => .ok ([], rest)
  | k + 1, rest => do
    let (v, rest) ← readN 4 rest
    let (vs, rest) ← readFloats k rest
    pure (bytesToFloat (v.getD 0 0) (v.getD 1 0) (v.getD 2 0) (v.getD 3 0) :: vs, rest)

/-- A log pass under construction (`BITFrameArray`). -/
structure Pass where
  ident : Nat
  head : List Nat
  desc : List Nat
  ua : List Nat
  ub : List Nat
  uc : List Nat
  names : List (List Nat)
  range : List Fl
  tail : List Nat
  frameCount : Nat
  chans : List (List Fl)
  deriving DecidableEq

/-- `BITFrameArray.__init__` -/
def parseHeader (ident : Nat) (block : List Nat) : Except Err Pass := do
  let (head, rest) ← readN 4 block
  let (desc, rest) ← readN 72 rest
  let (ua, rest) ← readN 5 rest
  let (ub, rest) ← readN 75 rest
  let (uc, rest) ← readN 8 rest
  let count ← readU16be rest
  if count > 20 then .error .firstBlock
  let rest := rest.drop 2
  let _null ← readU16be rest
  let rest := rest.drop 2
  let (names, rest) ← readNames count rest
  let rest := rest.drop (4 * (20 - count))
  let (range, rest) ← readFloats 5 rest
  pure { ident, head, desc, ua, ub, uc, names, range, tail := rest, frameCount := 0,
         chans := names.map (fun _ => []) }

/-! ## Frame data blocks -/

/-- `self._temporary_frames[c].append(v)` -/
def appendAt : List (List Fl) → Nat → Fl → List (List Fl)
  | [], _, _ => []
  | x :: xs, 0, v => (x ++ [v]) :: xs
  | x :: xs, c + 1, v => x :: appendAt xs c v

/-- the `for i, value in enumerate(gen_floats(block))` loop of `add_block`; `b` = the bytes not yet consumed by the
generator.  The generator computes the value first (IndexError on 1..3 trailing bytes), then the loop body tests
`i >= num_frames * channels` and breaks. -/
def addVals (nf limit : Nat) : Nat → List Nat → List (List Fl) → Except Err (List (List Fl))
  | _, [], ch => .ok ch
  | i, b0 :: b1 :: b2 :: b3 :: rest, ch =>
    if i ≥ limit then .ok ch
    else addVals nf limit (i + 1) rest (appendAt ch (i / nf) (genFloat b0 b1 b2 b3))
  | _, _, _ => .error .index

inductive AddResult
  | ok (p : Pass)
  | dataBlocks           -- ExceptionTotalDepthBITDataBlocks (caught by the caller: rest of file ignored)
  | raised (e : Err)

/-- `BITFrameArray.add_block` -/
def addBlock (p : Pass) (block : List Nat) : AddResult :=
  let nc := p.names.length
  if nc = 0 then .ok p
  else if block.length % nc ≠ 0 then .dataBlocks
  else
    let numFrames := block.length / (4 * nc)
    match addVals numFrames (numFrames * nc) 0 block p.chans with
    | .error e => .raised e
    | .ok ch => .ok { p with chans := ch, frameCount := p.frameCount + numFrames }

/-! ## complete(): frame array with a computed X axis -/

/-- the X axis loop of `complete`: `n` values starting at `x`, each step `x += spacing` or `x -= spacing`
(`sp` is `abs(header spacing)`, computed once before the loop) -/
def xAxisGo (inc : Bool) (sp : Fl) : Nat → Fl → List Fl
  | 0, _ => []
  | n + 1, x => x :: xAxisGo inc sp n (if inc then fadd x sp else fsub x sp)

/-- `LogPassRange.is_increasing`: `depth_to > depth_from` -/
def isIncreasing (range : List Fl) : Bool :=
  decide ((range.getD 0 ⟨false, 0⟩).toRat < (range.getD 1 ⟨false, 0⟩).toRat)

/-- the channel identities in the order they are appended to the FrameArray: "X   " then the names -/
def xIdent : List Nat := [0x58, 0x20, 0x20, 0x20]

/-- `FrameArray.append` raises on the first identity already present -/
def hasDup : List (List Nat) → Bool
  | [] => false
  | x :: xs => xs.contains x || hasDup xs

/-- A completed log pass as observed through `BITFrameArray` and its `frame_array`. -/
structure LogPassOut where
  ident : Nat
  desc : List Nat
  names : List (List Nat)
  range : List Fl
  tail : List Nat
  frameCount : Nat
  /-- `none` when there are no channels (`frame_array is None`), else (X axis, channel arrays) -/
  frameArray : Option (List Fl × List (List Fl))
  deriving DecidableEq

/-- `BITFrameArray.complete` -/
def complete (p : Pass) : Except Err LogPassOut :=
  if p.chans.length = 0 then
    .ok ⟨p.ident, p.desc, p.names, p.range, p.tail, p.frameCount, none⟩
  else
    let spacing := fabs (p.range.getD 2 ⟨false, 0⟩)
    let x := xAxisGo (isIncreasing p.range) spacing p.frameCount (p.range.getD 0 ⟨false, 0⟩)
    if hasDup (xIdent :: p.names) then .error .duplicate
    else .ok ⟨p.ident, p.desc, p.names, p.range, p.tail, p.frameCount, some (x, p.chans)⟩

/-! ## create_bit_frame_array_from_file -/

/-- the code after the `for` loop: a pass still open is completed and appended -/
def finish (done : List LogPassOut) (cur : Option Pass) : Except Err (List LogPassOut) :=
  match cur with
  | none => .ok done
  | some p => do
    let o ← complete p
    pure (done ++ [o])

/-- the `for tif_block in yield_tif_blocks(file)` loop; `gerr` = exception raised by the generator once exhausted -/
def consume (gerr : Option Err) : List Block → List LogPassOut → Option Pass → Except Err (List LogPassOut)
  | [], done, cur =>
    match gerr with
    | some e => .error e
    | none => finish done cur
  | b :: bs, done, cur =>
    if b.typ = .endFile then finish done cur
    else match cur with
      | none =>
        if b.typ = .endLogPass then consume gerr bs done none
        else match parseHeader done.length b.payload with
          | .error e => .error e
          | .ok p => consume gerr bs done (some p)
      | some p =>
        if b.typ = .data then
          match addBlock p b.payload with
          | .ok p' => consume gerr bs done (some p')
          | .dataBlocks => finish done (some p)
          | .raised e => .error e
        else  -- END_LOG_PASS
          match complete p with
          | .error e => .error e
          | .ok o => consume gerr bs (done ++ [o]) none

/-- `create_bit_frame_array_from_file(io.BytesIO(file))` -/
def readBIT (file : List Nat) : Except Err (List LogPassOut) :=
  let w := walk (file.length + 1) file 0 ⟨0, 0, 0, 0⟩
  consume w.2 w.1 [] none

/-! ## The open handle: content + position -/

/-- An open binary file: its bytes and the current position (what `file.tell()` returns). -/
structure Handle where
  bytes : List Nat
  pos : Nat

/-- `file.seek(k)` -/
def Handle.seek (h : Handle) (k : Nat) : Handle := { h with pos := k }

/-- `create_bit_frame_array_from_file(h)` on a handle at ANY position: `yield_tif_blocks` starts with `file.seek(0)`,
then reads from the handle's position. -/
def readHandle (h : Handle) : Except Err (List LogPassOut) :=
  let h0 := h.seek 0                                           -- file.seek(0)
  let w := walk (h0.bytes.length + 1) (h0.bytes.drop h0.pos) h0.pos ⟨0, 0, 0, 0⟩
  consume w.2 w.1 [] none

end TD.C13
