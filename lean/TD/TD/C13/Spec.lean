/-
C13 — independent specification: an ENCODER of Western Atlas BIT files from abstract content, and the abstract
meaning of that content (what a reader must report).  Core Lean only (used by the driver).

File layout written here (from the module docstring of ReadBIT.py and the example file):

  record      = 12-byte TIF marker (three little-endian u32: type, prev, next) ++ payload,   next = tell + 12 + |payload|
  log pass    = record(type 0, 276-byte header) ++ record(type 0, data block)* ++ record(type 1, empty)
  file        = log pass* ++ record(type 1, empty)
  header      = head(4) desc(72) ua(5) ub(75) uc(8) count(u16 BE) null(2) names(4 each) filler(4·(20-count))
                five IBM floats (start, stop, spacing, a, b)  tail
  data block  = for each channel: the 4-byte words of that channel for the frames of this block (channel-major)
-/
namespace TD.C13.Spec

/-- A four-byte word (IBM single precision float as stored). -/
structure Word where
  b0 : Nat
  b1 : Nat
  b2 : Nat
  b3 : Nat
  deriving DecidableEq, Repr

def Word.bytes (w : Word) : List Nat := [w.b0, w.b1, w.b2, w.b3]

/-- Abstract content of one log pass. `blocks` : block → channel → the words of that channel in that block. -/
structure PassC where
  head : List Nat
  desc : List Nat
  ua : List Nat
  ub : List Nat
  uc : List Nat
  null : List Nat
  names : List (List Nat)
  filler : List Nat
  range : List Word
  tail : List Nat
  blocks : List (List (List Word))

def u32bytes (n : Nat) : List Nat := [n % 256, n / 256 % 256, n / 65536 % 256, n / 16777216 % 256]

def u16be (n : Nat) : List Nat := [n / 256 % 256, n % 256]

def words (ws : List Word) : List Nat := ws.flatMap Word.bytes

def headerBytes (p : PassC) : List Nat :=
  p.head ++ (p.desc ++ (p.ua ++ (p.ub ++ (p.uc ++ (u16be p.names.length ++ (p.null ++ (p.names.flatten ++ (p.filler ++
    (words p.range ++ p.tail)))))))))

/-- payload of one data block: channel-major -/
def blockBytes (cols : List (List Word)) : List Nat := cols.flatMap words

/-- the records (type, payload) of one log pass -/
def passRecords (p : PassC) : List (Nat × List Nat) :=
  (0, headerBytes p) :: (p.blocks.map (fun b => (0, blockBytes b)) ++ [(1, [])])

def fileRecords (ps : List PassC) : List (Nat × List Nat) :=
  ps.flatMap passRecords ++ [(1, [])]

/-- lay records out in a file starting at position `tell`; `prev` = position of the previous marker -/
def layout : Nat → Nat → List (Nat × List Nat) → List Nat
  | _, _, [] => []
  | tell, prev, (typ, payload) :: rs =>
    u32bytes typ ++ (u32bytes prev ++ (u32bytes (tell + 12 + payload.length) ++
      (payload ++ layout (tell + 12 + payload.length) tell rs)))

/-- The BIT file for the given log passes. -/
def encode (ps : List PassC) : List Nat := layout 0 0 (fileRecords ps)

/-! ### Frame-major content → blocks of `fib` frames (the last one short) -/

/-- split every channel into consecutive pieces of `fib` frames; `n` = fuel ≥ number of frames -/
def mkBlocks (fib : Nat) : Nat → List (List Word) → List (List (List Word))
  | 0, _ => []
  | n + 1, chans =>
    if chans.all (fun c => c.isEmpty) then []
    else chans.map (fun c => c.take fib) :: mkBlocks fib n (chans.map (fun c => c.drop fib))

/-- the channel contents a block list stands for: channel `c` = concatenation over the blocks of column `c` -/
def chanWords (nch : Nat) (blocks : List (List (List Word))) : List (List Word) :=
  (List.range nch).map (fun c => blocks.flatMap (fun b => b.getD c []))

end TD.C13.Spec
