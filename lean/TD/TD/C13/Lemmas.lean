import TD.C13.Model
import TD.C13.Spec

/-!
# C13 — helper lemmas (walker over the spec layout, header block, de-interleave)
-/
namespace TD.C13
open TD.C13.Spec

/-! ## TIF walker on a laid-out record list -/

/-- what `yield_tif_blocks` yields for a record list: type 0 → DATA, first non-zero type → END_LOG_PASS,
a non-zero type after a non-zero type → END_FILE (and stop); running out of bytes → END_FILE. -/
def classify : Nat → List (Nat × List Nat) → List Block
  | _, [] => [⟨.endFile, []⟩]
  | pt, (typ, pl) :: rs =>
    if typ = 0 then ⟨.data, pl⟩ :: classify typ rs
    else if pt ≠ 0 then [⟨.endFile, pl⟩]
    else ⟨.endLogPass, pl⟩ :: classify typ rs

theorem u32le_u32bytes (a b c : Nat) (r : List Nat) (ha : a < 2 ^ 32) (hb : b < 2 ^ 32) (hc : c < 2 ^ 32) :
    u32le ((u32bytes a ++ (u32bytes b ++ (u32bytes c ++ r))).take 12) 0 = a ∧
    u32le ((u32bytes a ++ (u32bytes b ++ (u32bytes c ++ r))).take 12) 4 = b ∧
    u32le ((u32bytes a ++ (u32bytes b ++ (u32bytes c ++ r))).take 12) 8 = c := by
  simp only [u32bytes, List.cons_append, List.nil_append, List.take_succ_cons, List.take_zero, u32le,
    List.getD_cons_zero, List.getD_cons_succ]
  refine ⟨?_, ?_, ?_⟩ <;> omega

theorem take12_len (a b c : Nat) (r : List Nat) :
    ((u32bytes a ++ (u32bytes b ++ (u32bytes c ++ r))).take 12).length = 12 := by
  simp [u32bytes]

theorem drop12 (a b c : Nat) (r : List Nat) :
    (u32bytes a ++ (u32bytes b ++ (u32bytes c ++ r))).drop 12 = r := by
  simp [u32bytes]

theorem layout_length_cons (tell prev typ : Nat) (pl : List Nat) (rs : List (Nat × List Nat)) :
    (layout tell prev ((typ, pl) :: rs)).length
      = 12 + pl.length + (layout (tell + 12 + pl.length) tell rs).length := by
  simp [layout, u32bytes]; omega

theorem walk_layout (recs : List (Nat × List Nat)) :
    ∀ (fuel tell prev : Nat) (pv : Marker), recs.length < fuel → pv.next = tell →
      tell + (layout tell prev recs).length < 2 ^ 32 → prev < 2 ^ 32 → (∀ r ∈ recs, r.1 < 2 ^ 32) →
      walk fuel (layout tell prev recs) tell pv = (classify pv.typ recs, none) := by
  induction recs with
  | nil =>
    intro fuel tell prev pv hf _ _ _ _
    obtain ⟨f, rfl⟩ : ∃ f, fuel = f + 1 := ⟨fuel - 1, by simp at hf; omega⟩
    simp [walk, layout, classify]
  | cons r rs ih =>
    obtain ⟨typ, pl⟩ := r
    intro fuel tell prev pv hf hpv hsz hprev hty
    obtain ⟨f, rfl⟩ : ∃ f, fuel = f + 1 := ⟨fuel - 1, by simp at hf; omega⟩
    have hlen := layout_length_cons tell prev typ pl rs
    have htyp : typ < 2 ^ 32 := hty (typ, pl) (by simp)
    have hnext : tell + 12 + pl.length < 2 ^ 32 := by omega
    obtain ⟨h0, h4, h8⟩ := u32le_u32bytes typ prev (tell + 12 + pl.length)
      (pl ++ layout (tell + 12 + pl.length) tell rs) htyp hprev hnext
    have ih' := ih f (tell + 12 + pl.length) tell ⟨tell, typ, prev, tell + 12 + pl.length⟩
      (by simp at hf ⊢; omega) rfl (by omega) (by omega) (fun r hr => hty r (by simp [hr]))
    unfold walk
    simp only [layout, take12_len, drop12, h0, h4, h8, Nat.lt_irrefl, if_false, hpv]
    have hplen : ((tell + 12 + pl.length : Nat) : Int) - (tell : Int) - 12 = (pl.length : Int) := by omega
    simp only [hplen]
    have hneg : ¬ ((pl.length : Int) < 0) := by omega
    simp only [hneg, if_false, Int.toNat_natCast, List.take_left', List.drop_left', ne_eq]
    rw [ih']
    simp only [classify]
    by_cases ht : typ = 0
    · simp [ht, consBlock]
    · by_cases hp : pv.typ = 0 <;> simp [ht, hp, consBlock]

/-! ## Header block -/

theorem readN_append (n : Nat) (xs r : List Nat) (h : xs.length = n) : readN n (xs ++ r) = .ok (xs, r) := by
  subst h
  simp [readN]

theorem readU16be_u16be (c : Nat) (r : List Nat) (hc : c < 256) : readU16be (u16be c ++ r) = .ok c := by
  have h1 : c / 256 % 256 = 0 := by omega
  have h2 : c % 256 = c := by omega
  simp [readU16be, u16be, h1, h2]

theorem readU16be_any (xs r : List Nat) (h : xs.length = 2) : ∃ v, readU16be (xs ++ r) = .ok v := by
  refine ⟨256 * (xs ++ r).getD 0 0 + (xs ++ r).getD 1 0, ?_⟩
  unfold readU16be
  rw [if_neg (by simp [h])]

theorem drop_append_len (n : Nat) (xs r : List Nat) (h : xs.length = n) : (xs ++ r).drop n = r := by
  subst h; simp

/-- a channel name as the header stores it: four ASCII bytes -/
def nameOk (nm : List Nat) : Prop := nm.length = 4 ∧ ∀ b ∈ nm, b < 128

theorem readNames_flatten (names : List (List Nat)) (r : List Nat) (h : ∀ nm ∈ names, nameOk nm) :
    readNames names.length (names.flatten ++ r) = .ok (names, r) := by
  induction names with
  | nil => simp [readNames]
  | cons nm rest ih =>
    have hnm := h nm (by simp)
    have hany : nm.any (fun b => decide (128 ≤ b)) = false := by
      rw [List.any_eq_false]; intro b hb; have := hnm.2 b hb; simp; omega
    simp only [List.length_cons, List.flatten_cons, List.append_assoc, readNames]
    rw [readN_append 4 nm _ hnm.1]
    simp only [bind, Except.bind, hany]
    rw [ih (fun x hx => h x (by simp [hx]))]
    rfl

/-- the header decoder applied to a stored word -/
def ibmWord (w : Word) : Fl := bytesToFloat w.b0 w.b1 w.b2 w.b3

/-- the frame decoder (as coded) applied to a stored word -/
def genWord (w : Word) : Fl := genFloat w.b0 w.b1 w.b2 w.b3

theorem readFloats_words (ws : List Word) (r : List Nat) :
    readFloats ws.length (words ws ++ r) = .ok (ws.map ibmWord, r) := by
  induction ws with
  | nil => simp [readFloats, words]
  | cons w rest ih =>
    have : words (w :: rest) ++ r = w.bytes ++ (words rest ++ r) := by simp [words]
    rw [this]
    simp only [List.length_cons, readFloats]
    rw [readN_append 4 w.bytes _ (by simp [Word.bytes])]
    simp only [bind, Except.bind]
    rw [ih]
    simp [Word.bytes, ibmWord, pure, Except.pure]

/-- well-formed abstract content of one log pass -/
structure Spec.PassC.wf (p : PassC) : Prop where
  head : p.head.length = 4
  desc : p.desc.length = 72
  ua : p.ua.length = 5
  ub : p.ub.length = 75
  uc : p.uc.length = 8
  null : p.null.length = 2
  nch_pos : 0 < p.names.length
  nch_le : p.names.length ≤ 20
  names : ∀ nm ∈ p.names, nameOk nm
  nodup : hasDup (xIdent :: p.names) = false
  filler : p.filler.length = 4 * (20 - p.names.length)
  range : p.range.length = 5
  /-- every block has one column per channel, all of the same length -/
  blocks : ∀ b ∈ p.blocks, b.length = p.names.length ∧ ∃ nf, ∀ col ∈ b, col.length = nf

/-- the pass as `BITFrameArray.__init__` leaves it -/
def initPass (ident : Nat) (p : PassC) : Pass :=
  { ident, head := p.head, desc := p.desc, ua := p.ua, ub := p.ub, uc := p.uc, names := p.names,
    range := p.range.map ibmWord, tail := p.tail, frameCount := 0, chans := p.names.map (fun _ => []) }

theorem parseHeader_headerBytes (ident : Nat) (p : PassC) (h : p.wf) :
    parseHeader ident (headerBytes p) = .ok (initPass ident p) := by
  unfold parseHeader headerBytes
  rw [readN_append 4 _ _ h.head]; simp only [bind, Except.bind]
  rw [readN_append 72 _ _ h.desc]; simp only []
  rw [readN_append 5 _ _ h.ua]; simp only []
  rw [readN_append 75 _ _ h.ub]; simp only []
  rw [readN_append 8 _ _ h.uc]; simp only []
  rw [readU16be_u16be _ _ (by have := h.nch_le; omega)]; simp only []
  have hle : ¬ (p.names.length > 20) := by have := h.nch_le; omega
  rw [if_neg hle]
  rw [drop_append_len 2 (u16be p.names.length) _ (by simp [u16be])]
  obtain ⟨v, hv⟩ := readU16be_any p.null (p.names.flatten ++ (p.filler ++ (words p.range ++ p.tail))) h.null
  rw [hv]; simp only []
  rw [drop_append_len 2 p.null _ h.null]
  rw [readNames_flatten _ _ h.names]; simp only []
  rw [drop_append_len _ p.filler _ h.filler]
  have h5 : (5 : Nat) = p.range.length := h.range.symm
  rw [h5, readFloats_words]
  simp [initPass, pure, Except.pure]

/-! ## add_block on a channel-major block -/

theorem appendAt_append (done : List (List Fl)) (t : List Fl) (ts : List (List Fl)) (v : Fl) :
    appendAt (done ++ t :: ts) done.length v = done ++ (t ++ [v]) :: ts := by
  induction done with
  | nil => simp [appendAt]
  | cons d ds ih => simp [appendAt, ih]

theorem words_cons (w : Word) (ws : List Word) (more : List Nat) :
    words (w :: ws) ++ more = w.b0 :: w.b1 :: w.b2 :: w.b3 :: (words ws ++ more) := by
  simp [words, Word.bytes]

theorem words_length (ws : List Word) : (words ws).length = 4 * ws.length := by
  induction ws with
  | nil => simp [words]
  | cons w rest ih => simp [words, Word.bytes] at ih ⊢; omega

/-- one column: the values of channel `done.length` -/
theorem addVals_col (nf limit : Nat) (col : List Word) :
    ∀ (base : Nat) (done : List (List Fl)) (t : List Fl) (ts : List (List Fl)) (more : List Nat),
      done.length * nf ≤ base → base + col.length ≤ (done.length + 1) * nf → base + col.length ≤ limit →
      addVals nf limit base (words col ++ more) (done ++ t :: ts)
        = addVals nf limit (base + col.length) more (done ++ (t ++ col.map genWord) :: ts) := by
  induction col with
  | nil => intro base done t ts more _ _ _; simp [words]
  | cons w rest ih =>
    intro base done t ts more h1 h2 h3
    simp only [List.length_cons] at h2 h3
    rw [words_cons]
    conv => lhs; unfold addVals
    rw [if_neg (show ¬ (base ≥ limit) by omega)]
    have hhi : base < (done.length + 1) * nf := by omega
    have hdiv : base / nf = done.length := Nat.div_eq_of_lt_le h1 hhi
    rw [hdiv, appendAt_append]
    rw [ih (base + 1) done (t ++ [genFloat w.b0 w.b1 w.b2 w.b3]) ts more (by omega) (by omega) (by omega)]
    have harith : base + 1 + rest.length = base + (rest.length + 1) := by omega
    rw [harith]
    simp only [List.length_cons, List.map_cons, List.append_assoc, List.singleton_append, genWord]

theorem blockBytes_cons (col : List Word) (cs : List (List Word)) :
    blockBytes (col :: cs) = words col ++ blockBytes cs := by
  simp [blockBytes]

/-- all the columns of a block -/
theorem addVals_cols (nf limit : Nat) (cols : List (List Word)) :
    ∀ (done todo : List (List Fl)), todo.length = cols.length → (∀ col ∈ cols, col.length = nf) →
      (done.length + cols.length) * nf ≤ limit →
      addVals nf limit (done.length * nf) (blockBytes cols) (done ++ todo)
        = .ok (done ++ List.zipWith (· ++ ·) todo (cols.map (·.map genWord))) := by
  induction cols with
  | nil =>
    intro done todo ht _ _
    have : todo = [] := by simpa using ht
    subst this
    simp [blockBytes, addVals]
  | cons col cs ih =>
    intro done todo ht hcol hlim
    obtain ⟨t, ts, rfl⟩ : ∃ t ts, todo = t :: ts := by
      cases todo with
      | nil => simp at ht
      | cons t ts => exact ⟨t, ts, rfl⟩
    have hc : col.length = nf := hcol col (by simp)
    simp only [List.length_cons] at hlim ht
    have hmul : (done.length + (cs.length + 1)) * nf = done.length * nf + nf + cs.length * nf := by
      simp [Nat.add_mul]; omega
    rw [blockBytes_cons, addVals_col nf limit col (done.length * nf) done t ts (blockBytes cs) (Nat.le_refl _)
      (by rw [hc, Nat.add_mul]; omega) (by rw [hc]; omega)]
    have hd : done ++ (t ++ col.map genWord) :: ts = (done ++ [t ++ col.map genWord]) ++ ts := by simp
    have hb : done.length * nf + col.length = (done ++ [t ++ col.map genWord]).length * nf := by
      simp [Nat.add_mul, hc]
    rw [hd, hb, ih (done ++ [t ++ col.map genWord]) ts (by omega) (fun c hc' => hcol c (by simp [hc']))
      (by simp only [List.length_append, List.length_cons, List.length_nil]; rw [Nat.add_mul, Nat.add_mul] ; omega)]
    simp

theorem blockBytes_length (nf : Nat) (cols : List (List Word)) (h : ∀ col ∈ cols, col.length = nf) :
    (blockBytes cols).length = 4 * nf * cols.length := by
  induction cols with
  | nil => simp [blockBytes]
  | cons c cs ih =>
    rw [blockBytes_cons, List.length_append, words_length, ih (fun x hx => h x (by simp [hx])), h c (by simp)]
    simp [Nat.mul_add, Nat.add_comm]

/-- the pass after one more block: column `c` appended to channel `c`, `nf` more frames -/
def Pass.addCols (P : Pass) (nf : Nat) (cols : List (List Word)) : Pass :=
  { P with chans := List.zipWith (· ++ ·) P.chans (cols.map (·.map genWord))
           frameCount := P.frameCount + nf }

/-- `add_block` on an encoded block appends column `c` to channel `c` and adds the block's frame count -/
theorem addBlock_blockBytes (P : Pass) (nf : Nat) (cols : List (List Word)) (hn : 0 < P.names.length)
    (hch : P.chans.length = P.names.length) (hlen : cols.length = P.names.length)
    (hcol : ∀ col ∈ cols, col.length = nf) :
    addBlock P (blockBytes cols) = .ok (P.addCols nf cols) := by
  unfold addBlock
  have hl := blockBytes_length nf cols hcol
  rw [hlen] at hl
  have h0 : ¬ (P.names.length = 0) := by omega
  have hmod : (blockBytes cols).length % P.names.length = 0 := by
    rw [hl]; exact Nat.mul_mod_left _ _
  have hdiv : (blockBytes cols).length / (4 * P.names.length) = nf := by
    rw [hl, Nat.mul_assoc, Nat.mul_comm nf, ← Nat.mul_assoc]
    exact Nat.mul_div_cancel_left _ (by omega)
  simp only [h0, if_false, hmod, ne_eq, not_true_eq_false, hdiv]
  have := addVals_cols nf (nf * P.names.length) cols [] P.chans (by omega) hcol
    (by simp [hlen, Nat.mul_comm])
  simp only [List.length_nil, Nat.zero_mul, List.nil_append] at this
  rw [this]
  rfl

/-! ## The consumer loop over the blocks of one pass -/

/-- frames in a block = length of its first column -/
def nfOf (cols : List (List Word)) : Nat := (cols.headD []).length

/-- the pass after all its blocks -/
def Pass.afterBlocks (P : Pass) : List (List (List Word)) → Pass
  | [] => P
  | cols :: bs => (P.addCols (nfOf cols) cols).afterBlocks bs

/-- a block is well formed for `nch` channels -/
def blockOk (nch : Nat) (b : List (List Word)) : Prop := b.length = nch ∧ ∃ nf, ∀ col ∈ b, col.length = nf

theorem blockOk_nfOf {nch : Nat} {b : List (List Word)} (h : blockOk nch b) (hn : 0 < nch) :
    ∀ col ∈ b, col.length = nfOf b := by
  obtain ⟨hl, nf, hnf⟩ := h
  cases b with
  | nil => simp at hl; omega
  | cons c cs =>
    intro col hcol
    simp only [nfOf, List.headD_cons]
    rw [hnf col hcol, hnf c (by simp)]

theorem addCols_names (P : Pass) (nf : Nat) (cols : List (List Word)) : (P.addCols nf cols).names = P.names := rfl

theorem addCols_chans_length (P : Pass) (nf : Nat) (cols : List (List Word)) (h1 : P.chans.length = P.names.length)
    (h2 : cols.length = P.names.length) : (P.addCols nf cols).chans.length = P.names.length := by
  simp [Pass.addCols, h1, h2]

theorem consume_blocks (g : Option Err) (blocks : List (List (List Word))) :
    ∀ (P : Pass) (rest : List Block) (done : List LogPassOut), 0 < P.names.length →
      P.chans.length = P.names.length → (∀ b ∈ blocks, blockOk P.names.length b) →
      consume g (blocks.map (fun b => ⟨.data, blockBytes b⟩) ++ rest) done (some P)
        = consume g rest done (some (P.afterBlocks blocks)) := by
  induction blocks with
  | nil => intro P rest done _ _ _; simp [Pass.afterBlocks]
  | cons b bs ih =>
    intro P rest done hn hch hb
    have hbk := hb b (by simp)
    have hadd := addBlock_blockBytes P (nfOf b) b hn hch hbk.1 (blockOk_nfOf hbk hn)
    simp only [List.map_cons, List.cons_append, consume, Pass.afterBlocks]
    simp only [show ¬ (TifType.data = TifType.endFile) by decide, if_false, if_true, hadd]
    exact ih (P.addCols (nfOf b) b) rest done hn (addCols_chans_length P _ b hch hbk.1)
      (fun x hx => hb x (by simp [hx]))

theorem afterBlocks_names (blocks : List (List (List Word))) : ∀ (P : Pass), (P.afterBlocks blocks).names = P.names := by
  induction blocks with
  | nil => intro P; rfl
  | cons b bs ih => intro P; simp [Pass.afterBlocks, ih, addCols_names]

theorem afterBlocks_fields (blocks : List (List (List Word))) : ∀ (P : Pass),
    (P.afterBlocks blocks).ident = P.ident ∧ (P.afterBlocks blocks).desc = P.desc ∧
    (P.afterBlocks blocks).range = P.range ∧ (P.afterBlocks blocks).tail = P.tail := by
  induction blocks with
  | nil => intro P; simp [Pass.afterBlocks]
  | cons b bs ih => intro P; simpa [Pass.afterBlocks, Pass.addCols] using ih (P.addCols (nfOf b) b)

theorem afterBlocks_frameCount (blocks : List (List (List Word))) : ∀ (P : Pass),
    (P.afterBlocks blocks).frameCount = P.frameCount + (blocks.map nfOf).sum := by
  induction blocks with
  | nil => intro P; simp [Pass.afterBlocks]
  | cons b bs ih => intro P; simp [Pass.afterBlocks, ih, Pass.addCols]; omega

theorem getD_zipWith_append (as : List (List Fl)) (bs : List (List Fl)) (c : Nat) (h1 : c < as.length) (h2 : c < bs.length) :
    (List.zipWith (· ++ ·) as bs).getD c [] = as.getD c [] ++ bs.getD c [] := by
  simp [List.getD_eq_getElem?_getD, List.getElem?_zipWith, List.getElem?_eq_getElem, h1, h2]

theorem chans_eq_range (chans : List (List Fl)) : chans = (List.range chans.length).map (fun c => chans.getD c []) := by
  apply List.ext_getElem
  · simp
  · intro i h1 h2
    simp [List.getD_eq_getElem?_getD, List.getElem?_eq_getElem, h1]

theorem afterBlocks_chans (nch : Nat) (blocks : List (List (List Word))) : ∀ (P : Pass),
    P.chans.length = nch → (∀ b ∈ blocks, b.length = nch) →
    (P.afterBlocks blocks).chans
      = (List.range nch).map (fun c => P.chans.getD c [] ++ (blocks.flatMap (fun b => b.getD c [])).map genWord) := by
  induction blocks with
  | nil =>
    intro P h _
    simp only [Pass.afterBlocks, List.flatMap_nil, List.map_nil, List.append_nil]
    rw [← h]; exact chans_eq_range P.chans
  | cons b bs ih =>
    intro P h hb
    have hbl : b.length = nch := hb b (by simp)
    have hlen : (P.addCols (nfOf b) b).chans.length = nch := by simp [Pass.addCols, h, hbl]
    rw [Pass.afterBlocks, ih (P.addCols (nfOf b) b) hlen (fun x hx => hb x (by simp [hx]))]
    apply List.map_congr_left
    intro c hc
    have hc' : c < nch := by simpa using hc
    simp only [Pass.addCols]
    rw [getD_zipWith_append _ _ c (by omega) (by simp; omega)]
    simp [List.getD_eq_getElem?_getD, List.getElem?_map, List.getElem?_eq_getElem, hbl, hc']

/-! ## One pass, all passes -/

/-- the blocks the walker yields for one encoded pass -/
def passBlocks (p : PassC) : List Block :=
  ⟨.data, headerBytes p⟩ :: (p.blocks.map (fun b => ⟨.data, blockBytes b⟩) ++ [⟨.endLogPass, []⟩])

/-- `iter f n a = f (f (… a))`, `n` times -/
def iter {α : Type} (f : α → α) : Nat → α → α
  | 0, a => a
  | n + 1, a => iter f n (f a)

/-- one step of the X axis: towards larger values iff stop > start -/
def xStep (range : List Fl) (x : Fl) : Fl :=
  if isIncreasing range then fadd x (range.getD 2 ⟨false, 0⟩) else fsub x (range.getD 2 ⟨false, 0⟩)

/-- SPEC of the X axis: value `i` is the start depth moved `i` times by the spacing (binary64 steps) -/
def xSpec (range : List Fl) (n : Nat) : List Fl :=
  (List.range n).map (fun i => iter (xStep range) i (range.getD 0 ⟨false, 0⟩))

/-- frames recorded in a pass: sum over its blocks -/
def frames (p : PassC) : Nat := (p.blocks.map nfOf).sum

/-- SPEC: what a reader must report for pass number `i` with content `p` (values through the decoders AS CODED) -/
def expectedPass (i : Nat) (p : PassC) : LogPassOut :=
  ⟨i, p.desc, p.names, p.range.map ibmWord, p.tail, frames p,
    some (xSpec (p.range.map ibmWord) (frames p), (chanWords p.names.length p.blocks).map (·.map genWord))⟩

def expectedFrom : Nat → List PassC → List LogPassOut
  | _, [] => []
  | i, p :: ps => expectedPass i p :: expectedFrom (i + 1) ps

theorem xAxisGo_eq (inc : Bool) (sp : Fl) (n : Nat) : ∀ x : Fl,
    xAxisGo inc sp n x = (List.range n).map (fun i => iter (fun y => if inc then fadd y sp else fsub y sp) i x) := by
  induction n with
  | zero => intro x; simp [xAxisGo]
  | succ n ih =>
    intro x
    rw [xAxisGo, ih, List.range_succ_eq_map]
    simp [iter]

theorem complete_afterBlocks (i : Nat) (p : PassC) (h : p.wf) :
    complete ((initPass i p).afterBlocks p.blocks) = .ok (expectedPass i p) := by
  have hn := afterBlocks_names p.blocks (initPass i p)
  obtain ⟨hid, hdesc, hrange, htail⟩ := afterBlocks_fields p.blocks (initPass i p)
  have hfc := afterBlocks_frameCount p.blocks (initPass i p)
  have hch := afterBlocks_chans p.names.length p.blocks (initPass i p) (by simp [initPass])
    (fun b hb => (h.blocks b hb).1)
  have hlen : ((initPass i p).afterBlocks p.blocks).chans.length = p.names.length := by
    rw [hch]; simp
  unfold complete
  have hpos := h.nch_pos
  rw [if_neg (by omega), hn]
  have hnd : hasDup (xIdent :: (initPass i p).names) = false := h.nodup
  simp only [hnd, Bool.false_eq_true, if_false, hid, hdesc, hrange, htail, hfc, hch]
  simp only [initPass, Nat.zero_add, expectedPass, frames, xSpec, xAxisGo_eq, chanWords, xStep]
  congr 4
  simp only [List.map_map]
  apply List.map_congr_left
  intro c hc
  have hc' : c < p.names.length := by simpa using hc
  simp [List.getD_eq_getElem?_getD, List.getElem?_map, List.getElem?_eq_getElem, hc']

theorem consume_pass (g : Option Err) (p : PassC) (h : p.wf) (rest : List Block) (done : List LogPassOut) :
    consume g (passBlocks p ++ rest) done none = consume g rest (done ++ [expectedPass done.length p]) none := by
  unfold passBlocks
  simp only [List.cons_append, List.append_assoc, consume]
  simp only [show ¬ (TifType.data = TifType.endFile) by decide, show ¬ (TifType.data = TifType.endLogPass) by decide,
    if_false, parseHeader_headerBytes _ p h]
  rw [consume_blocks g p.blocks (initPass done.length p) _ done h.nch_pos (by simp [initPass])
    (fun b hb => h.blocks b hb)]
  simp only [List.cons_append, List.nil_append, consume]
  simp only [show ¬ (TifType.endLogPass = TifType.endFile) by decide, show ¬ (TifType.endLogPass = TifType.data) by decide,
    if_false, complete_afterBlocks _ p h]

theorem consume_passes (ps : List PassC) : ∀ (done : List LogPassOut), (∀ p ∈ ps, p.wf) →
    consume none (ps.flatMap passBlocks ++ [⟨.endFile, []⟩]) done none = .ok (done ++ expectedFrom done.length ps) := by
  induction ps with
  | nil => intro done _; simp [consume, finish, expectedFrom]
  | cons p ps ih =>
    intro done h
    rw [List.flatMap_cons, List.append_assoc, consume_pass none p (h p (by simp))]
    rw [ih _ (fun q hq => h q (by simp [hq]))]
    simp [expectedFrom]

/-! ## classification of the encoder's records -/

theorem classify_data (pt : Nat) (blocks : List (List (List Word))) (rest : List (Nat × List Nat)) :
    classify 0 (blocks.map (fun b => (0, blockBytes b)) ++ rest)
      = blocks.map (fun b => (⟨.data, blockBytes b⟩ : Block)) ++ classify 0 rest := by
  induction blocks with
  | nil => simp
  | cons b bs ih => simp [classify, ih]

theorem classify_pass (pt : Nat) (p : PassC) (more : List (Nat × List Nat)) :
    classify pt (passRecords p ++ more) = passBlocks p ++ classify 1 more := by
  unfold passRecords passBlocks
  simp only [List.cons_append, List.append_assoc, classify, if_true]
  rw [classify_data pt]
  simp [classify]

theorem classify_file (ps : List PassC) :
    classify 1 (fileRecords ps) = ps.flatMap passBlocks ++ [⟨.endFile, []⟩] := by
  unfold fileRecords
  induction ps with
  | nil => simp [classify]
  | cons p ps ih => rw [List.flatMap_cons, List.append_assoc, classify_pass, ih]; simp

theorem layout_length_ge (recs : List (Nat × List Nat)) : ∀ tell prev, 12 * recs.length ≤ (layout tell prev recs).length := by
  induction recs with
  | nil => intro _ _; simp [layout]
  | cons r rs ih =>
    obtain ⟨typ, pl⟩ := r
    intro tell prev
    rw [layout_length_cons]
    have := ih (tell + 12 + pl.length) tell
    simp only [List.length_cons]; omega

theorem fileRecords_types (ps : List PassC) : ∀ r ∈ fileRecords ps, r.1 < 2 ^ 32 := by
  intro r hr
  simp only [fileRecords, passRecords, List.mem_append, List.mem_flatMap, List.mem_cons, List.mem_map,
    List.mem_singleton] at hr
  rcases hr with ⟨p, _, h | h | h⟩ | h
  · subst h; simp
  · obtain ⟨b, _, rfl⟩ := h; simp
  · rcases h with h | h
    · subst h; simp
    · simp at h
  · rcases h with h | h
    · subst h; simp
    · simp at h

/-! ## small helpers used by the property theorems -/

theorem pow16_pos (e : Nat) : 0 < pow16 e := Rat.zpow_pos (by decide)

theorem column_length (p : PassC) (h : p.wf) (c : Nat) (hc : c < p.names.length) :
    ∀ blocks : List (List (List Word)), (∀ b ∈ blocks, blockOk p.names.length b) →
      (blocks.flatMap (fun b => b.getD c [])).length = (blocks.map nfOf).sum := by
  intro blocks
  induction blocks with
  | nil => intro _; simp
  | cons b bs ih =>
    intro hb
    have hbk := hb b (by simp)
    have hcb : c < b.length := by rw [hbk.1]; exact hc
    have : (b.getD c []).length = nfOf b := by
      apply blockOk_nfOf hbk h.nch_pos
      simp [List.getD_eq_getElem?_getD, List.getElem?_eq_getElem, hcb]
    simp only [List.flatMap_cons, List.length_append, List.map_cons, List.sum_cons, this]
    rw [ih (fun x hx => hb x (by simp [hx]))]

theorem iter_succ_outer {α : Type} (f : α → α) (n : Nat) : ∀ a, iter f (n + 1) a = f (iter f n a) := by
  induction n with
  | zero => intro a; rfl
  | succ n ih => intro a; rw [iter, ih (f a)]; rfl


end TD.C13
