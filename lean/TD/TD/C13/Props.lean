import TD.C13.Lemmas

/-!
# C13 — Western Atlas BIT log passes decode to the recorded numbers

Property theorems only.  The model (`TD.C13.Model`) transcribes `TotalDepth/BIT/ReadBIT.py` AS CODED; the
specification (`TD.C13.Spec`) is an independent encoder of BIT files.  The model is tied to the Python source by the
correspondence run of `./check C13`.
-/
namespace TD.C13
open TD.C13.Spec

/-! ## The numbers -/

/-- **Header decoder = RP66V1 ISINGL** on every four bytes (all 2^32 words and beyond: any naturals). -/
theorem ibm_header_eq_isingl (b0 b1 b2 b3 : Nat) : bytesToFloat b0 b1 b2 b3 = isingl b0 b1 b2 b3 := rfl

example : bytesToFloat 0xc2 0x76 0xa0 0x00 = ⟨true, 949 / 8⟩ := by decide +kernel

/-- **F12, witness**: the statement "frame decoder = header decoder = ISINGL on every word" is FALSE for the code as
it is: on the bytes `42 10 00 00` `gen_floats` gives 16.000000953674373, the other two give 16. -/
theorem gen_floats_ne :
    ¬ (∀ b0 b1 b2 b3 : Nat, genFloat b0 b1 b2 b3 = bytesToFloat b0 b1 b2 b3 ∧ bytesToFloat b0 b1 b2 b3 = isingl b0 b1 b2 b3) := by
  intro h
  have := (h 0x42 0x10 0 0).1
  revert this
  decide +kernel

example : genFloat 0x42 0x10 0 0 = ⟨false, 281474993487873 / 17592186044416⟩ := by decide +kernel
example : bytesToFloat 0x42 0x10 0 0 = ⟨false, 16⟩ := by decide +kernel

/-- **F12, exact relation**: for every word the rational `gen_floats` aims at is the IBM value times 2^24/(2^24-1). -/
theorem gen_floats_rel_error (b0 b1 b2 b3 : Nat) :
    genExact b0 b1 b2 b3 = (bytesToFloat b0 b1 b2 b3).mag * (16777216 / 16777215) := by
  unfold genExact bytesToFloat genMantissa
  simp only []
  split <;> simp only [] <;> grind

/-- `gen_floats` as coded: same sign bit as the header decoder; magnitude = the correctly rounded quotient
`mantissa / 0xffffff` scaled exactly by `16^(exp-64)` (so it is the binary64 nearest to `genExact`). -/
theorem gen_floats_as_coded (b0 b1 b2 b3 : Nat) :
    (genFloat b0 b1 b2 b3).neg = (bytesToFloat b0 b1 b2 b3).neg ∧
    (genFloat b0 b1 b2 b3).mag = rndDiv (genMantissa b1 b2 b3) 0xffffff * pow16 (b0 &&& 0x7f) := by
  unfold genFloat bytesToFloat fdivNat
  simp only []
  split <;> simp

/-- **F12, every word**: whenever the mantissa is non-zero the exact value aimed at differs from the IBM value. -/
theorem gen_exact_ne_ibm (b0 b1 b2 b3 : Nat) (hm : genMantissa b1 b2 b3 ≠ 0) :
    genExact b0 b1 b2 b3 ≠ (bytesToFloat b0 b1 b2 b3).mag := by
  have hp := pow16_pos (b0 &&& 0x7f)
  have hm' : (0 : Rat) < ((genMantissa b1 b2 b3 : Nat) : Rat) := by
    have : 0 < genMantissa b1 b2 b3 := Nat.pos_of_ne_zero hm
    exact_mod_cast this
  have hmag : (bytesToFloat b0 b1 b2 b3).mag = ((genMantissa b1 b2 b3 : Nat) : Rat) / 16777216 * pow16 (b0 &&& 0x7f) := by
    unfold bytesToFloat genMantissa
    simp only []
    split <;> simp
  rw [gen_floats_rel_error, hmag]
  have h1 : 0 < ((genMantissa b1 b2 b3 : Nat) : Rat) / 16777216 * pow16 (b0 &&& 0x7f) := by
    rw [Rat.div_def]
    exact Rat.mul_pos (Rat.mul_pos hm' (Rat.inv_pos.2 (by decide))) hp
  intro h
  grind

example : genMantissa 0x10 0 0 ≠ 0 := by decide

/-! ## Reading a file -/

/-- **Round trip** (unbounded: any number of passes, 1..20 channels, any list of blocks whose columns have a common
length — in particular blocks of `fib` frames with a short last block, see `mkBlocks_spec` — any words, any header
numbers, up or down logs).  The reader applied to the file written by the spec encoder returns, for pass number `i`,
exactly `expectedPass i p`: the identity `i`, the description, the channel names of the header, the five header numbers
decoded by `bytes_to_float`, the tail, the frame count, the synthesised X axis and, for channel `c`, the words of
column `c` of every block in file order, each decoded by `gen_floats` as coded. -/
theorem bit_roundtrip (ps : List PassC) (hwf : ∀ p ∈ ps, p.wf) (hsize : (encode ps).length < 2 ^ 32) :
    readBIT (encode ps) = .ok (expectedFrom 0 ps) := by
  unfold readBIT
  have hfuel : (fileRecords ps).length < (encode ps).length + 1 := by
    have := layout_length_ge (fileRecords ps) 0 0
    unfold encode
    have h1 : 0 < (fileRecords ps).length := by simp [fileRecords]
    omega
  have hw := walk_layout (fileRecords ps) ((encode ps).length + 1) 0 0 ⟨0, 0, 0, 0⟩ hfuel rfl
    (by simpa [encode] using hsize) (by decide) (fileRecords_types ps)
  unfold encode at hw ⊢
  rw [hw]
  simp only []
  cases ps with
  | nil => simp [fileRecords, classify, consume, finish, expectedFrom]
  | cons p rest =>
    have : fileRecords (p :: rest) = passRecords p ++ fileRecords rest := by simp [fileRecords]
    rw [this, classify_pass, classify_file, ← List.append_assoc, ← List.flatMap_cons]
    have := consume_passes (p :: rest) [] hwf
    simpa using this

/-- the pass list is reported in file order, one output per recorded pass -/
theorem expectedFrom_spec (ps : List PassC) : ∀ (i : Nat),
    (expectedFrom i ps).length = ps.length ∧
    ∀ k (hk : k < ps.length), (expectedFrom i ps)[k]? = some (expectedPass (i + k) ps[k]) := by
  induction ps with
  | nil => intro i; simp [expectedFrom]
  | cons p ps ih =>
    intro i
    obtain ⟨h1, h2⟩ := ih (i + 1)
    refine ⟨by simp [expectedFrom, h1], ?_⟩
    intro k hk
    cases k with
    | zero => simp [expectedFrom]
    | succ k =>
      simp only [List.length_cons] at hk
      have := h2 k (by omega)
      simp only [expectedFrom, List.getElem?_cons_succ, List.getElem_cons_succ, this]
      congr 2; omega

/-- the words of channel `c` in frame order: column `c` of every block, blocks in file order -/
theorem channel_values (p : PassC) (i c : Nat) (hc : c < p.names.length) :
    ∃ x chans, (expectedPass i p).frameArray = some (x, chans) ∧
      chans[c]? = some ((p.blocks.flatMap (fun b => b.getD c [])).map genWord) := by
  refine ⟨_, _, rfl, ?_⟩
  simp [chanWords, hc]

/-- **Frame count**: the reported frame count is the number of frames recorded (sum over the blocks), the X axis and
every channel array have exactly that many values, and there is one array per channel name. -/
theorem frame_count (p : PassC) (h : p.wf) (i : Nat) :
    (expectedPass i p).frameCount = frames p ∧
    ∃ x chans, (expectedPass i p).frameArray = some (x, chans) ∧ x.length = frames p ∧
      chans.length = p.names.length ∧ ∀ ch ∈ chans, ch.length = frames p := by
  refine ⟨rfl, _, _, rfl, by simp [xSpec], by simp [chanWords], ?_⟩
  intro ch hch
  simp only [chanWords, List.map_map, List.mem_map, List.mem_range] at hch
  obtain ⟨c, hc, rfl⟩ := hch
  simp only [Function.comp, List.length_map]
  exact column_length p h c hc p.blocks (fun b hb => h.blocks b hb)

/-! ## X axis -/

/-- **X axis**: `n` values; the first is the header's start depth; each next value is the previous one moved by
`abs(header spacing)` with one binary64 addition (`stop > start`) or subtraction (otherwise). -/
theorem x_axis (range : List Fl) (n : Nat) :
    (xSpec range n).length = n ∧
    (0 < n → (xSpec range n)[0]? = some (range.getD 0 ⟨false, 0⟩)) ∧
    (∀ i, i + 1 < n → ∃ xi, (xSpec range n)[i]? = some xi ∧
        (xSpec range n)[i + 1]? = some (if (range.getD 0 ⟨false, 0⟩).toRat < (range.getD 1 ⟨false, 0⟩).toRat
                                          then fadd xi (fabs (range.getD 2 ⟨false, 0⟩))
                                          else fsub xi (fabs (range.getD 2 ⟨false, 0⟩)))) := by
  refine ⟨by simp [xSpec], ?_, ?_⟩
  · intro hn
    simp [xSpec, hn, iter]
  · intro i hi
    refine ⟨iter (xStep range) i (range.getD 0 ⟨false, 0⟩), ?_, ?_⟩
    · simp [xSpec, show i < n by omega]
    · simp only [xSpec, List.getElem?_map, List.getElem?_range hi, Option.map_some, iter_succ_outer]
      simp [xStep, isIncreasing]

/-- every header number decoded by `bytes_to_float` has a non-negative magnitude -/
theorem ibmWord_mag_nonneg (w : Word) : 0 ≤ (ibmWord w).mag := by
  unfold ibmWord bytesToFloat
  simp only []
  have hp := Rat.le_of_lt (pow16_pos (w.b0 &&& 0x7f))
  have hm : (0 : Rat) ≤ ((w.b1 <<< 16 ||| w.b2 <<< 8 ||| w.b3 : Nat) : Rat) := by exact_mod_cast Nat.zero_le _
  have h : (0 : Rat) ≤ ((w.b1 <<< 16 ||| w.b2 <<< 8 ||| w.b3 : Nat) : Rat) / 0x1000000 * pow16 (w.b0 &&& 0x7f) := by
    rw [Rat.div_def]
    exact Rat.mul_nonneg (Rat.mul_nonneg hm (Rat.le_of_lt (Rat.inv_pos.2 (by decide)))) hp
  split <;> exact h

/-- **X axis moves TOWARDS the stop depth, for either sign of the header spacing**: with `d = |spacing| ≥ 0` (the
magnitude of the header number, its sign bit is discarded), the exact target of a step from `x` is `x + d ≥ x` when
`stop > start` and `x − d ≤ x` otherwise; the stored value is the binary64 rounding of that target (`x_step_exact`). -/
theorem x_axis_towards_stop (range : List Fl) (x : Fl) (hsp : 0 ≤ (range.getD 2 ⟨false, 0⟩).mag) :
    let d := (fabs (range.getD 2 ⟨false, 0⟩)).toRat
    d = (range.getD 2 ⟨false, 0⟩).mag ∧ 0 ≤ d ∧
    ((range.getD 0 ⟨false, 0⟩).toRat < (range.getD 1 ⟨false, 0⟩).toRat →
        xStep range x = fadd x (fabs (range.getD 2 ⟨false, 0⟩)) ∧ x.toRat ≤ x.toRat + d) ∧
    (¬ (range.getD 0 ⟨false, 0⟩).toRat < (range.getD 1 ⟨false, 0⟩).toRat →
        xStep range x = fadd x (fneg (fabs (range.getD 2 ⟨false, 0⟩))) ∧
        (fneg (fabs (range.getD 2 ⟨false, 0⟩))).toRat = -d ∧ x.toRat + -d ≤ x.toRat) := by
  have hd : (fabs (range.getD 2 ⟨false, 0⟩)).toRat = (range.getD 2 ⟨false, 0⟩).mag := by simp [fabs, Fl.toRat]
  simp only [hd]
  refine ⟨trivial, hsp, ?_, ?_⟩
  · intro h
    refine ⟨by simp only [xStep, isIncreasing, decide_eq_true_eq]; rw [if_pos h], by grind⟩
  · intro h
    refine ⟨by simp only [xStep, isIncreasing, decide_eq_true_eq]; rw [if_neg h]; rfl, by simp [fneg, fabs, Fl.toRat], by grind⟩

/-- one X step in exact terms: the target is `x ± spacing` as a rational, the result its binary64 rounding -/
theorem x_step_exact (x sp : Fl) :
    (x.toRat + sp.toRat = 0 → (fadd x sp).toRat = 0) ∧
    (0 < x.toRat + sp.toRat → (fadd x sp).toRat = rndRat (x.toRat + sp.toRat)) ∧
    (x.toRat + sp.toRat < 0 → (fadd x sp).toRat = -rndRat (-(x.toRat + sp.toRat))) ∧
    (fsub x sp = fadd x (fneg sp)) ∧ (fneg sp).toRat = -sp.toRat := by
  refine ⟨?_, ?_, ?_, rfl, ?_⟩
  · intro h
    simp only [fadd]
    rw [if_pos h]
    simp [Fl.toRat]
  · intro h
    have h0 : ¬ (x.toRat + sp.toRat = 0) := by grind
    have h1 : ¬ (x.toRat + sp.toRat < 0) := by grind
    simp only [fadd]
    rw [if_neg h0, if_neg h1]
    simp [Fl.toRat]
  · intro h
    have h0 : ¬ (x.toRat + sp.toRat = 0) := by grind
    simp only [fadd]
    rw [if_neg h0, if_pos h]
    simp [Fl.toRat]
  · unfold fneg Fl.toRat
    cases sp.neg <;> simp

/-! ## Blocks of `fib` frames with a short last block -/

/-- **Chunking**: cutting every channel into consecutive pieces of `fib ≥ 1` frames (the last piece short) gives
well-formed blocks whose per-channel concatenation is the original channel content; so `bit_roundtrip` covers "any
frame count and block size including a short last block", and the reader returns the channels as recorded. -/
theorem mkBlocks_spec (fib : Nat) (hf : 0 < fib) (nch : Nat) : ∀ (fuel n : Nat) (chans : List (List Word)),
    chans.length = nch → (∀ c ∈ chans, c.length = n) → n ≤ fuel →
    (∀ b ∈ mkBlocks fib fuel chans, blockOk nch b) ∧ chanWords nch (mkBlocks fib fuel chans) = chans := by
  intro fuel
  induction fuel with
  | zero =>
    intro n chans hl hn hfu
    refine ⟨by simp [mkBlocks], ?_⟩
    simp only [mkBlocks, chanWords, List.flatMap_nil]
    apply List.ext_getElem
    · simp [hl]
    · intro i h1 h2
      have : chans[i].length = 0 := by rw [hn _ (List.getElem_mem h2)]; omega
      simp [List.length_eq_zero_iff.mp this]
  | succ fuel ih =>
    intro n chans hl hn hfu
    unfold mkBlocks
    split
    · rename_i hall
      refine ⟨by simp, ?_⟩
      simp only [chanWords, List.flatMap_nil]
      apply List.ext_getElem
      · simp [hl]
      · intro i h1 h2
        have := (List.all_eq_true.mp hall) chans[i] (List.getElem_mem h2)
        simp at this
        simp [this]
    · have hdrop := ih (n - fib) (chans.map (fun c => c.drop fib)) (by simp [hl])
        (by intro c hc; simp only [List.mem_map] at hc; obtain ⟨c', hc', rfl⟩ := hc; simp [hn c' hc'])
        (by omega)
      refine ⟨?_, ?_⟩
      · intro b hb
        simp only [List.mem_cons] at hb
        rcases hb with rfl | hb
        · refine ⟨by simp [hl], min fib n, ?_⟩
          intro col hcol
          simp only [List.mem_map] at hcol
          obtain ⟨c', hc', rfl⟩ := hcol
          simp [hn c' hc']
        · exact hdrop.1 b hb
      · have h2 := hdrop.2
        simp only [chanWords] at h2 ⊢
        apply List.ext_getElem
        · simp [hl]
        · intro i h1 h3
          have hi : i < nch := by simpa using h1
          have h4 := congrArg (fun l => l[i]?) h2
          simp only [List.getElem?_map, List.getElem?_range hi, Option.map_some] at h4
          simp only [List.getElem_map, List.getElem_range, List.flatMap_cons]
          have h5 : i < chans.length := h3
          simp only [List.getElem?_eq_getElem h5, Option.map_some, Option.some.injEq] at h4
          rw [h4]
          simp [List.getD_eq_getElem?_getD, List.getElem?_map, List.getElem?_eq_getElem, h5]

/-! ## Non-vacuity: a concrete two-channel, three-frame pass with blocks of two frames (short last block) -/

def exPass : PassC :=
  { head := [0, 2, 0, 0], desc := List.replicate 72 0x20, ua := [0, 10, 0, 24, 0], ub := List.replicate 75 0x20,
    uc := [0, 18, 0, 11, 0, 6, 32, 32], null := [0, 0],
    names := [[0x47, 0x52, 0x20, 0x20], [0x53, 0x50, 0x20, 0x20]], filler := List.replicate 72 0x20,
    range := [⟨0x44, 0x3a, 0x66, 0⟩, ⟨0x44, 0x38, 0xfe, 0⟩, ⟨0x40, 0x40, 0, 0⟩, ⟨0, 0, 0, 0⟩, ⟨0x42, 0x10, 0, 0⟩],
    tail := [1, 2, 3, 4, 5, 6, 7, 8],
    blocks := mkBlocks 2 3 [[⟨0x42, 0x10, 0, 0⟩, ⟨0xc2, 0x76, 0xa0, 0⟩, ⟨0x3d, 0x68, 0xdb, 0x8b⟩],
                            [⟨0, 0, 0, 0⟩, ⟨0x80, 0, 0, 0⟩, ⟨0x41, 0x10, 0, 0⟩]] }

theorem exPass_wf : exPass.wf := by
  constructor
  all_goals first
    | decide
    | (intro nm h; simp only [exPass, List.mem_cons, List.not_mem_nil, or_false] at h
       rcases h with rfl | rfl <;> exact ⟨rfl, by decide⟩)
    | (intro b h; simp only [exPass, mkBlocks] at h; simp at h
       rcases h with rfl | rfl
       · exact ⟨rfl, 2, by decide⟩
       · exact ⟨rfl, 1, by decide⟩)

/-- the hypotheses of `bit_roundtrip` are satisfiable and the reader's output on that file is the recorded content -/
example : readBIT (encode [exPass]) = .ok (expectedFrom 0 [exPass]) :=
  bit_roundtrip [exPass] (by intro p hp; simp at hp; subst hp; exact exPass_wf) (by decide +kernel)

/-- the same file without the final (second) type-1 marker: the reader stops at the end of the data -/
def encodeNoFinal (ps : List PassC) : List Nat := layout 0 0 (ps.flatMap passRecords)

/-- **Round trip, file ending at the last pass's type-1 marker** (premature end of file is handled silently by
`yield_tif_blocks`): same result as `bit_roundtrip`. -/
theorem bit_roundtrip_one_end_marker (ps : List PassC) (hwf : ∀ p ∈ ps, p.wf) (hsize : (encodeNoFinal ps).length < 2 ^ 32) :
    readBIT (encodeNoFinal ps) = .ok (expectedFrom 0 ps) := by
  unfold readBIT
  have hfuel : (ps.flatMap passRecords).length < (encodeNoFinal ps).length + 1 := by
    have := layout_length_ge (ps.flatMap passRecords) 0 0
    unfold encodeNoFinal
    omega
  have htypes : ∀ r ∈ ps.flatMap passRecords, r.1 < 2 ^ 32 := by
    intro r hr
    exact fileRecords_types ps r (by simp [fileRecords, hr])
  have hw := walk_layout (ps.flatMap passRecords) ((encodeNoFinal ps).length + 1) 0 0 ⟨0, 0, 0, 0⟩ hfuel rfl
    (by simpa [encodeNoFinal] using hsize) (by decide) htypes
  unfold encodeNoFinal at hw ⊢
  rw [hw]
  simp only []
  have hc : ∀ (qs : List PassC) (pt : Nat), classify pt (qs.flatMap passRecords) = qs.flatMap passBlocks ++ [⟨.endFile, []⟩] := by
    intro qs
    induction qs with
    | nil => intro pt; simp [classify]
    | cons q qs ih => intro pt; rw [List.flatMap_cons, classify_pass, ih]; simp
  rw [hc]
  simpa using consume_passes ps [] hwf

example : readBIT (encodeNoFinal [exPass]) = .ok (expectedFrom 0 [exPass]) :=
  bit_roundtrip_one_end_marker [exPass] (by intro p hp; simp at hp; subst hp; exact exPass_wf) (by decide +kernel)

example : (encode [exPass]).length = 360 := by decide +kernel
example : frames exPass = 3 := by decide +kernel
example : (xSpec (exPass.range.map ibmWord) 3).map Fl.toRat = [14950, 14950 - 1/4, 14950 - 1/2] := by decide +kernel

/-- the hypothesis of `x_axis_towards_stop` holds for decoded header numbers -/
example : (0 : Rat) ≤ ((exPass.range.map ibmWord).getD 2 ⟨false, 0⟩).mag := by decide +kernel

/-- a header spacing recorded with a negative sign: the axis still moves from 100 towards 99 -/
example : (xSpec [⟨false, 100⟩, ⟨false, 99⟩, ⟨true, 1 / 2⟩] 3).map Fl.toRat = [100, 199 / 2, 99] := by decide +kernel

/-! ## The handle position does not matter -/

/-- **Position independence**: decoding through an open handle gives the answer for the file's bytes wherever the handle
was positioned before the call (inside the header after `is_bit_file`, at the end after a size query or an earlier
decode, …), because the walker rewinds first.  In particular decoding twice through one handle gives the same result. -/
theorem read_position_independent (h : Handle) : readHandle h = readBIT h.bytes := by
  simp [readHandle, readBIT, Handle.seek]

example : readHandle ⟨encode [exPass], 360⟩ = .ok (expectedFrom 0 [exPass]) := by
  rw [read_position_independent]
  exact bit_roundtrip [exPass] (by intro p hp; simp at hp; subst hp; exact exPass_wf) (by decide +kernel)

end TD.C13
