import TD.C13.Model
import TD.C13.Spec

namespace TD.C13

/-- header decoder = RP66V1 ISINGL on every four bytes -/
theorem ibm_header_eq_isingl (b0 b1 b2 b3 : Nat) : bytesToFloat b0 b1 b2 b3 = isingl b0 b1 b2 b3 := rfl

end TD.C13
