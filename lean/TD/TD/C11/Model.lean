import TD.C15.Model
/-
C11 — selection arithmetic of the three "to LAS" converters (core Lean only).

* RP66V1/ToLAS: rows = `frame_slice.gen_indices(n)` (through `LogicalFile.populate_frame_array`), STRT = X[first], STOP = X[last generated index].
* LIS/ToLAS and BIT/ToLAS: rows = `range(n)[first : last + 1 : step]` with `first/last/step` from `Slice`/`Sample`
  (`lis_frame_slice = slice(first, last+1, step)`; `channel.array[first:last+1:step]`), where `Slice.last` is *not* the last selected
  index in general.
-/
namespace TD.C11
open TD.C15

/-- Rows written by the LIS and BIT converters for a `Slice`: `xs[first : last+1 : step]` on a length-`n` array. -/
def convRowsSlice (start stop step : Option Int) (n : Nat) : Except Err (List Int) :=
  match sliceFirst start stop step n, sliceLast start stop step n, sliceStep start stop step n with
  | .ok f, .ok l, .ok st => sliceIndices (some f) (some (l + 1)) (some st) n
  | .error e, _, _ => .error e
  | _, .error e, _ => .error e
  | _, _, .error e => .error e

/-- `Sample.last(length)` as coded. -/
def sampleLast (n s : Nat) : Int := if s ≥ n then (n : Int) - 1 else (n : Int) - s

/-- Rows written by the LIS and BIT converters for a `Sample(s)`. -/
def convRowsSample (n s : Nat) : Except Err (List Int) :=
  sliceIndices (some (sampleFirst n s : Nat)) (some (sampleLast n s + 1)) (some (sampleStep n s : Nat)) n

/-- Rows written by the RP66V1 converter. -/
def rp66RowsSlice (start stop step : Option Int) (n : Nat) : Except Err (List Int) := sliceIndices start stop step n
def rp66RowsSample (n s : Nat) : List Nat := sampleIndices n s

/-- index whose X value is printed as STOP by RP66V1/ToLAS after the repair (`indices[-1]`, else `last()`), and STRT (`first()`) -/
def rp66StopIndexSlice (start stop step : Option Int) (n : Nat) : Except Err Int :=
  match sliceIndices start stop step n, sliceLast start stop step n with
  | .ok l, .ok lst => .ok (l.getLast?.getD lst)
  | .error e, _ => .error e
  | _, .error e => .error e

/-- the same for a `Sample(s)`: `indices[-1]`, else `Sample.last()` (only reachable for `n = 0`, which the caller asserts away) -/
def rp66StopIndexSample (n s : Nat) : Int :=
  match (sampleIndices n s).getLast? with
  | some i => (i : Int)
  | none => sampleLast n s

/-! ### Negative steps

`convRowsSlice` already is Python list slicing `xs[first : last+1 : step]` for every non-zero step (negative bounds wrap,
as numpy / list slicing does): this is what **BIT** applies to its arrays.  Two gates sit around it. -/

/-- What the BIT converter does with the sliced arrays: nothing is written when `Slice.count()` is 0; with a positive count
and empty sliced arrays `x_axis.array[0]` raises IndexError; else the sliced rows are written. -/
inductive BitOut where
  | rows (l : List Int)
  | indexError
  deriving Repr, DecidableEq

def bitOutSlice (start stop step : Option Int) (n : Nat) : Except Err BitOut :=
  match sliceCount start stop step n, convRowsSlice start stop step n with
  | .ok 0, .ok _ => .ok (.rows [])
  | .ok _, .ok [] => .ok .indexError
  | .ok _, .ok l => .ok (.rows l)
  | .error e, _ => .error e
  | _, .error e => .error e

/-- index of the data record that holds frame `i`, given the frames per data record of the log pass -/
def recordOf : List Nat → Nat → Nat
  | [], _ => 0
  | k :: ks, i => if i < k then 0 else 1 + recordOf ks (i - k)

/-- two consecutive selected frames lie in the same data record (frames of a record are contiguous, so this is
"some record holds at least two selected frames") -/
def sharesRecord (fpr : List Nat) : List Int → Bool
  | a :: b :: r => (recordOf fpr a.toNat == recordOf fpr b.toNat) || sharesRecord fpr (b :: r)
  | _ => false

/-- What the LIS converter does with `slice(first, last+1, step)` on a log pass with `fpr` frames per data record:
`FrameSet` sizes itself with `len(range(first, last+1, step))` (no wrapping of negative bounds); an empty frame set writes
no row. Otherwise the frames are read record by record in file order; within a record the offsets are turned back into a
slice (`_sliceFromList`), which for a step below 1 has a negative step as soon as the record holds two selected frames and
is then refused by `Type01Plan` (`ExceptionFrameSetPlanNegLen`, file reported failed); with at most one selected frame per
record the rows are written in file order, i.e. **ascending** - the reverse of the selection. -/
inductive LisOut where
  | rows (l : List Int)
  | planError
  deriving Repr, DecidableEq

def lisOutSlice (fpr : List Nat) (start stop step : Option Int) (n : Nat) : Except Err LisOut :=
  match sliceFirst start stop step n, sliceLast start stop step n, sliceStep start stop step n with
  | .ok f, .ok l, .ok st =>
    if rangeLen f (l + 1) st = 0 then .ok (.rows [])
    else if st < 1 then
      (if sharesRecord fpr (rangeList f (l + 1) st) then .ok .planError else .ok (.rows (rangeList f (l + 1) st).reverse))
    else .ok (.rows (rangeList f (l + 1) st))
  | .error e, _, _ => .error e
  | _, .error e, _ => .error e
  | _, _, .error e => .error e

end TD.C11
