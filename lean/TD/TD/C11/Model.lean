import TD.C15.Model
/-
C11 — selection arithmetic of the three "to LAS" converters (core Lean only).

* RP66V1/ToLAS: rows = `frame_slice.gen_indices(n)` (through `LogicalFile.populate_frame_array`), STRT = X[first], STOP = X[last generated index].
* LIS/ToLAS and BIT/ToLAS: rows = `range(n)[first : last + 1 : step]` with `first/last/step` from `Slice`/`Sample`
  (`lis_frame_slice = slice(first, last+1, step)`; `channel.array[first:last+1:step]`), where `Slice.last` is *not* the last selected
  index in general.
-/
namespace TD.C11
open TD.C15

/-- Rows written by the LIS and BIT converters for a `Slice`: `xs[first : last+1 : step]` on a length-`n` array. -/
def convRowsSlice (start stop step : Option Int) (n : Nat) : Except Err (List Int) :=
  match sliceFirst start stop step n, sliceLast start stop step n, sliceStep start stop step n with
  | .ok f, .ok l, .ok st => sliceIndices (some f) (some (l + 1)) (some st) n
  | .error e, _, _ => .error e
  | _, .error e, _ => .error e
  | _, _, .error e => .error e

/-- `Sample.last(length)` as coded. -/
def sampleLast (n s : Nat) : Int := if s ≥ n then (n : Int) - 1 else (n : Int) - s

/-- Rows written by the LIS and BIT converters for a `Sample(s)`. -/
def convRowsSample (n s : Nat) : Except Err (List Int) :=
  sliceIndices (some (sampleFirst n s : Nat)) (some (sampleLast n s + 1)) (some (sampleStep n s : Nat)) n

/-- Rows written by the RP66V1 converter. -/
def rp66RowsSlice (start stop step : Option Int) (n : Nat) : Except Err (List Int) := sliceIndices start stop step n
def rp66RowsSample (n s : Nat) : List Nat := sampleIndices n s

/-- index whose X value is printed as STOP by RP66V1/ToLAS after the repair (`indices[-1]`, else `last()`), and STRT (`first()`) -/
def rp66StopIndexSlice (start stop step : Option Int) (n : Nat) : Except Err Int :=
  match sliceIndices start stop step n, sliceLast start stop step n with
  | .ok l, .ok lst => .ok (l.getLast?.getD lst)
  | .error e, _ => .error e
  | _, .error e => .error e

/-- the same for a `Sample(s)`: `indices[-1]`, else `Sample.last()` (only reachable for `n = 0`, which the caller asserts away) -/
def rp66StopIndexSample (n s : Nat) : Int :=
  match (sampleIndices n s).getLast? with
  | some i => (i : Int)
  | none => sampleLast n s

end TD.C11
