import TD.C11.Lemmas

/-!
# C11 — conversion to LAS keeps exactly the selected frames (selection arithmetic)

The end-to-end pipeline (file → frames → LAS text → values) is exercised by the oracle of `./check C11`; the theorems
here decide the *selection* logic of the three converters for every n, start, stop, step ≥ 1 and every sample size.
-/
namespace TD.C11
open TD.C15

/-- **RP66V1**: the rows written are exactly the indices Python slicing selects (`populate_frame_array` is driven by
`gen_indices`; corollary of C15). -/
theorem rp66_rows_eq_python (start stop step : Option Int) (n : Nat) (hst : 0 < step.getD 1) :
    ∃ l, rp66RowsSlice start stop step n = .ok l ∧ (∀ i, i ∈ l ↔ pySelected start stop (step.getD 1) n i) ∧
      l.Pairwise (· < ·) := by
  obtain ⟨l, h1, h2, h3, _⟩ := slice_indices_mem_iff start stop step n hst
  exact ⟨l, h1, h2, h3⟩

/-- **RP66V1 STRT/STOP** (after the repair of the call site): the indices whose X values are printed as STRT and STOP
are the first and the last row actually written. -/
theorem rp66_well_section_describes_rows (start stop step : Option Int) (n : Nat) (hst : 0 < step.getD 1) :
    ∃ l, rp66RowsSlice start stop step n = .ok l ∧
      (l ≠ [] → ∃ f lst, sliceFirst start stop step n = .ok f ∧ l.head? = some f ∧
                  rp66StopIndexSlice start stop step n = .ok lst ∧ l.getLast? = some lst) := by
  obtain ⟨l, h1, _, _, hf, _⟩ := slice_reports_agree start stop step n hst
  refine ⟨l, h1, ?_⟩
  intro hne
  have hfirst : sliceFirst start stop step n = .ok (pyBound start 0 n) := by
    unfold sliceFirst; rw [slice_adjust_spec _ _ _ _ hst]
  obtain ⟨x, hx⟩ : ∃ x, l.head? = some x := by
    cases l with
    | nil => exact absurd rfl hne
    | cons a t => exact ⟨a, rfl⟩
  have hxf := hf _ hfirst x (by simp [hx])
  obtain ⟨y, hy⟩ : ∃ y, l.getLast? = some y := by
    cases hl : l.getLast? with
    | none => simp [List.getLast?_eq_none_iff] at hl; exact absurd hl hne
    | some y => exact ⟨y, rfl⟩
  refine ⟨pyBound start 0 n, y, hfirst, by rw [hx, hxf], ?_, hy⟩
  unfold rp66StopIndexSlice
  rw [h1, sliceLast_pos _ _ _ _ hst]
  simp [hy]

/-- **LIS / BIT, membership**: the rows the converters write (`xs[first : last+1 : step]`) are the selected positions
below the stop bound *rounded down to a multiple of the step*. -/
theorem conv_rows_mem_iff (start stop step : Option Int) (n : Nat) (hst : 0 < step.getD 1) :
    ∃ l, convRowsSlice start stop step n = .ok l ∧ l.Pairwise (· < ·) ∧
      ∀ i, i ∈ l ↔ (pyBound start 0 n ≤ i ∧ i < step.getD 1 * (pyBound stop n n / step.getD 1) ∧
                    (i - pyBound start 0 n) % step.getD 1 = 0) := by
  refine ⟨_, convRowsSlice_eq start stop step n hst, rangeList_pairwise_pos hst, fun i => mem_rangeList_pos hst i⟩

/-- **LIS / BIT, never a wrong frame**: every row written is a selected frame (the converters can only *drop* frames). -/
theorem conv_rows_subset_python (start stop step : Option Int) (n : Nat) (hst : 0 < step.getD 1) :
    ∃ l, convRowsSlice start stop step n = .ok l ∧ ∀ i ∈ l, pySelected start stop (step.getD 1) n i := by
  obtain ⟨l, h1, _, h3⟩ := conv_rows_mem_iff start stop step n hst
  refine ⟨l, h1, fun i hi => ?_⟩
  obtain ⟨a, b, c⟩ := (h3 i).1 hi
  have : step.getD 1 * (pyBound stop n n / step.getD 1) ≤ pyBound stop n n := Int.mul_ediv_self_le (ne_of_gt hst)
  exact ⟨a, by omega, c⟩

/-- **LIS / BIT, exact condition** (this turns defect F11 into a precise predicate): the rows written are exactly the
frames Python slicing selects **iff** the selection is empty or `stop mod step ≤ start mod step` (bounds normalised).
In particular always for `step = 1`. Otherwise the last selected frame is dropped. -/
theorem conv_rows_correct_iff (start stop step : Option Int) (n : Nat) (hst : 0 < step.getD 1) :
    convRowsSlice start stop step n = sliceIndices start stop step n ↔
      (pyBound stop n n ≤ pyBound start 0 n ∨
       pyBound stop n n % step.getD 1 ≤ pyBound start 0 n % step.getD 1) := by
  obtain ⟨l, hl, hls, hlm⟩ := conv_rows_mem_iff start stop step n hst
  obtain ⟨p, hp, hpm, hps, _⟩ := slice_indices_mem_iff start stop step n hst
  rw [hl, hp]
  set st := step.getD 1
  set e := pyBound stop n n
  set s := pyBound start 0 n
  have he := Int.mul_ediv_add_emod e st
  have hs := Int.mul_ediv_add_emod s st
  have hre0 := Int.emod_nonneg e (ne_of_gt hst)
  have hre1 := Int.emod_lt_of_pos e hst
  have hrs0 := Int.emod_nonneg s (ne_of_gt hst)
  have hrs1 := Int.emod_lt_of_pos s hst
  constructor
  · intro h
    have hEq : l = p := by simpa using h
    by_contra hcon
    push Not at hcon
    obtain ⟨hlt, hmod⟩ := hcon
    -- witness: the frame at st*(e/st) + s%st is selected by Python but not written
    have hq : s / st ≤ e / st := Int.ediv_le_ediv hst (le_of_lt hlt)
    have hmul : st * (s / st) ≤ st * (e / st) := Int.mul_le_mul_of_nonneg_left hq (le_of_lt hst)
    let w := st * (e / st) + s % st
    have hw : w ∈ p := by
      rw [hpm]
      refine ⟨by show s ≤ w; omega, by show w < e; omega, ?_⟩
      show (w - s) % st = 0
      have : w - s = st * (e / st - s / st) := by
        show st * (e / st) + s % st - s = _
        rw [Int.mul_sub]; omega
      rw [this]; exact Int.mul_emod_right _ _
    rw [← hEq, hlm] at hw
    have : ¬ (w < st * (e / st)) := by show ¬ (st * (e / st) + s % st < st * (e / st)); omega
    exact this hw.2.1
  · intro h
    congr 1
    apply eq_of_mem_iff_of_pairwise_lt hls hps
    intro i
    rw [hlm, hpm]
    unfold pySelected
    have hBe : st * (e / st) ≤ e := Int.mul_ediv_self_le (ne_of_gt hst)
    constructor
    · rintro ⟨a, b, c⟩; exact ⟨a, by omega, c⟩
    · rintro ⟨a, b, c⟩
      refine ⟨a, ?_, c⟩
      by_contra hge
      push Not at hge
      rcases h with h | h
      · omega
      · -- i = s + st*k lies in [st*(e/st), e): then s % st = i - st*(e/st) < e % st
        obtain ⟨k, hk⟩ := Int.dvd_of_emod_eq_zero c
        have hi : i = st * (s / st + k - e / st) + (st * (e / st) + s % st) := by
          have : i = s + st * k := by omega
          rw [this, Int.mul_sub, Int.mul_add]; omega
        -- m := s/st + k - e/st must be 0
        have hm0 : 0 ≤ s / st + k - e / st := by
          by_contra hneg
          push Not at hneg
          have : st * (s / st + k - e / st) ≤ st * (-1) := Int.mul_le_mul_of_nonneg_left (by omega) (le_of_lt hst)
          omega
        have hm1 : s / st + k - e / st ≤ 0 := by
          by_contra hpos
          push Not at hpos
          have : st * 1 ≤ st * (s / st + k - e / st) := Int.mul_le_mul_of_nonneg_left (by omega) (le_of_lt hst)
          omega
        have hm : s / st + k - e / st = 0 := by omega
        rw [hm] at hi
        omega

/-- **LIS / BIT, what is lost** (the class of known finding F11, at full strength): outside the exact condition of
`conv_rows_correct_iff` the frames Python slicing selects are the rows written **followed by exactly one more frame** —
the converters lose the last selected frame and nothing else. -/
theorem conv_rows_drops_exactly_last (start stop step : Option Int) (n : Nat) (hst : 0 < step.getD 1)
    (hlt : pyBound start 0 n < pyBound stop n n)
    (hmod : pyBound start 0 n % step.getD 1 < pyBound stop n n % step.getD 1) :
    ∃ l w, convRowsSlice start stop step n = .ok l ∧ sliceIndices start stop step n = .ok (l ++ [w]) := by
  obtain ⟨l, hl, hls, hlm⟩ := conv_rows_mem_iff start stop step n hst
  obtain ⟨p, hp, hpm, hps, _⟩ := slice_indices_mem_iff start stop step n hst
  set st := step.getD 1
  set e := pyBound stop n n
  set s := pyBound start 0 n
  have he := Int.mul_ediv_add_emod e st
  have hs := Int.mul_ediv_add_emod s st
  have hre0 := Int.emod_nonneg e (ne_of_gt hst)
  have hre1 := Int.emod_lt_of_pos e hst
  have hrs0 := Int.emod_nonneg s (ne_of_gt hst)
  have hrs1 := Int.emod_lt_of_pos s hst
  have hq : s / st ≤ e / st := Int.ediv_le_ediv hst (le_of_lt hlt)
  have hmul : st * (s / st) ≤ st * (e / st) := Int.mul_le_mul_of_nonneg_left hq (le_of_lt hst)
  refine ⟨l, st * (e / st) + s % st, hl, ?_⟩
  rw [hp]
  congr 1
  have hlw : (l ++ [st * (e / st) + s % st]).Pairwise (· < ·) := by
    rw [List.pairwise_append]
    refine ⟨hls, List.pairwise_singleton _ _, ?_⟩
    intro a ha b hb
    have hb' : b = st * (e / st) + s % st := by simpa using hb
    have := ((hlm a).1 ha).2.1
    omega
  apply eq_of_mem_iff_of_pairwise_lt hps hlw
  intro i
  rw [hpm, List.mem_append, hlm]
  unfold pySelected
  constructor
  · rintro ⟨a, b, c⟩
    by_cases hi : i < st * (e / st)
    · exact Or.inl ⟨a, hi, c⟩
    · right
      push Not at hi
      obtain ⟨k, hk⟩ := Int.dvd_of_emod_eq_zero c
      have hiw : i = st * (s / st + k - e / st) + (st * (e / st) + s % st) := by
        have : i = s + st * k := by omega
        rw [this, Int.mul_sub, Int.mul_add]; omega
      have hm0 : 0 ≤ s / st + k - e / st := by
        by_contra hneg
        push Not at hneg
        have : st * (s / st + k - e / st) ≤ st * (-1) := Int.mul_le_mul_of_nonneg_left (by omega) (le_of_lt hst)
        omega
      have hm1 : s / st + k - e / st ≤ 0 := by
        by_contra hpos
        push Not at hpos
        have : st * 1 ≤ st * (s / st + k - e / st) := Int.mul_le_mul_of_nonneg_left (by omega) (le_of_lt hst)
        omega
      have hm : s / st + k - e / st = 0 := by omega
      rw [hm] at hiw
      simp only [List.mem_singleton]
      omega
  · rintro (⟨a, b, c⟩ | hw)
    · have hBe : st * (e / st) ≤ e := Int.mul_ediv_self_le (ne_of_gt hst)
      exact ⟨a, by omega, c⟩
    · have hw' : i = st * (e / st) + s % st := by simpa using hw
      refine ⟨by omega, by omega, ?_⟩
      have : i - s = st * (e / st - s / st) := by
        rw [hw', Int.mul_sub]; omega
      rw [this]; exact Int.mul_emod_right _ _

/-- Corollary: with step 1 (or absent) the LIS/BIT converters write exactly the selected frames. -/
theorem conv_rows_correct_step_one (start stop : Option Int) (n : Nat) :
    convRowsSlice start stop none n = sliceIndices start stop none n := by
  rw [conv_rows_correct_iff start stop none n (by simp)]
  right; simp

/-- Negation witness for F11 (kept as a known finding): `4,5,6` on ten frames selects frame 4, the LIS/BIT
converters write none. -/
theorem conv_rows_drops_frame_witness :
    convRowsSlice (some 4) (some 5) (some 6) 10 = .ok [] ∧ sliceIndices (some 4) (some 5) (some 6) 10 = .ok [4] := by
  decide

/-- **LIS / BIT, sample**: for a sample of N the rows written are at most N, strictly increasing, and begin with the
first frame (what C11 demands of a sample). -/
theorem conv_rows_sample (n s : Nat) (hs : 0 < s) :
    ∃ l, convRowsSample n s = .ok l ∧ l.length ≤ s ∧ l.Pairwise (· < ·) ∧ (0 < n → l.head? = some 0) ∧
      ∀ i ∈ l, 0 ≤ i ∧ i < n := by
  unfold convRowsSample sampleFirst sampleLast sampleStep
  by_cases h : s ≥ n
  · simp only [h, if_true]
    have hst : 0 < (some ((1 : Nat) : Int) : Option Int).getD 1 := by simp
    obtain ⟨l, hl, hmem, hsorted, hbnd⟩ := slice_indices_mem_iff (some ((0 : Nat) : Int)) (some ((n : Int) - 1 + 1)) (some ((1 : Nat) : Int)) n hst
    refine ⟨l, hl, ?_, hsorted, ?_, hbnd⟩
    · -- at most n ≤ s rows: strictly increasing inside [0, n)
      have : l.length ≤ n := by
        have hnd : l.Nodup := hsorted.imp (fun h => ne_of_lt h)
        have hsub : l ⊆ (List.range n).map (fun (k : Nat) => (k : Int)) := by
          intro i hi
          have := hbnd i hi
          simp only [List.mem_map, List.mem_range]
          exact ⟨i.toNat, by omega, by omega⟩
        have := (List.subperm_of_subset hnd hsub).length_le
        simpa using this
      omega
    · intro hn
      have h0 : (0 : Int) ∈ l := by
        rw [hmem]; unfold pySelected pyBound; simp; omega
      cases l with
      | nil => simp at h0
      | cons a t =>
        simp only [List.head?_cons, Option.some.injEq]
        have ha := hbnd a (by simp)
        rcases List.mem_cons.1 h0 with h0 | h0
        · exact h0.symm
        · have := (List.pairwise_cons.1 hsorted).1 0 h0; omega
  · simp only [h, if_false]
    have hsn : s < n := by omega
    have hq : 1 ≤ n / s := Nat.div_pos (by omega) hs
    have hst : 0 < (some ((n / s : Nat) : Int) : Option Int).getD 1 := by simp; omega
    obtain ⟨l, hl, hmem, hsorted, hbnd⟩ := slice_indices_mem_iff (some ((0 : Nat) : Int)) (some ((n : Int) - s + 1)) (some ((n / s : Nat) : Int)) n hst
    refine ⟨l, hl, ?_, hsorted, ?_, hbnd⟩
    · -- l = rangeList 0 (n - s + 1) (n/s): length = ceil((n-s+1)/(n/s)) ≤ s
      have hl' : l = rangeList 0 ((n : Int) - s + 1) ((n / s : Nat) : Int) := by
        have := slice_adjust_spec (some ((0 : Nat) : Int)) (some ((n : Int) - s + 1)) (some ((n / s : Nat) : Int)) n hst
        unfold sliceIndices at hl; rw [this] at hl
        simp only [Except.ok.injEq] at hl
        rw [← hl]
        have e1 : pyBound (some ((0 : Nat) : Int)) 0 n = 0 := pyBound_some_of_range _ _ _ (by simp) (by simp)
        have e2 : pyBound (some ((n : Int) - s + 1)) n n = (n : Int) - s + 1 :=
          pyBound_some_of_range _ _ _ (by omega) (by omega)
        rw [e1, e2]; simp
      rw [hl', rangeList_length, rangeLen_pos_step (by exact_mod_cast (show 0 < n / s by omega))]
      have hpos : (0 : Int) < (n : Int) - s + 1 := by omega
      simp only [hpos, if_true]
      -- ((n - s + 1 - 0 - 1) / q + 1) ≤ s   with q = n / s,  n < (q+1) s
      have hdm := Nat.div_add_mod n s
      have hml := Nat.mod_lt n hs
      have key : ((n : Int) - s + 1 - 0 - 1) / ((n / s : Nat) : Int) < s := by
        rw [Int.ediv_lt_iff_lt_mul (by exact_mod_cast (show 0 < n / s by omega))]
        have : (s : Int) * ((n / s : Nat) : Int) + ((n % s : Nat) : Int) = n := by exact_mod_cast hdm
        have h2 : ((n % s : Nat) : Int) < s := by exact_mod_cast hml
        have h3 : (1 : Int) ≤ ((n / s : Nat) : Int) := by exact_mod_cast hq
        nlinarith
      have hnn : 0 ≤ ((n : Int) - s + 1 - 0 - 1) / ((n / s : Nat) : Int) :=
        Int.ediv_nonneg (by omega) (by omega)
      omega
    · intro hn
      have h0 : (0 : Int) ∈ l := by
        rw [hmem]; unfold pySelected
        have e1 : pyBound (some ((0 : Nat) : Int)) 0 n = 0 := pyBound_some_of_range _ _ _ (by simp) (by simp)
        have e2 : pyBound (some ((n : Int) - s + 1)) n n = (n : Int) - s + 1 :=
          pyBound_some_of_range _ _ _ (by omega) (by omega)
        rw [e1, e2]; simp; omega
      cases l with
      | nil => simp at h0
      | cons a t =>
        simp only [List.head?_cons, Option.some.injEq]
        have ha := hbnd a (by simp)
        rcases List.mem_cons.1 h0 with h0 | h0
        · exact h0.symm
        · have := (List.pairwise_cons.1 hsorted).1 0 h0; omega

/-- **RP66V1 STOP for a sample**: the index whose X is printed as STOP is the last row written. -/
theorem rp66_sample_stop_is_last_row (n s : Nat) (h : rp66RowsSample n s ≠ []) :
    (rp66RowsSample n s).getLast? = some (rp66StopIndexSample n s).toNat ∧ 0 ≤ rp66StopIndexSample n s := by
  unfold rp66StopIndexSample rp66RowsSample at *
  cases hl : (sampleIndices n s).getLast? with
  | none => simp [List.getLast?_eq_none_iff] at hl; exact absurd hl h
  | some y => simp

/-! ## Negative steps (`start,stop,-k` are Python slices too: rows come out in reverse order) -/

open TD.C04 in
/-- **RP66V1, negative step**: the rows written are exactly the positions Python slicing selects, strictly decreasing. -/
theorem rp66_rows_eq_python_neg (start stop step : Option Int) (n : Nat) (hst : step.getD 1 < 0) :
    ∃ l, rp66RowsSlice start stop step n = .ok l ∧ (∀ i, i ∈ l ↔ pySelectedNeg start stop (step.getD 1) n i) ∧
      l.Pairwise (· > ·) ∧ (∀ i ∈ l, 0 ≤ i ∧ i < n) :=
  slice_indices_mem_iff_neg start stop step n hst

open TD.C04 in
/-- **RP66V1 STRT/STOP, negative step**: the indices whose X values are printed as STRT and STOP are the first and the
last row actually written. -/
theorem rp66_well_section_describes_rows_neg (start stop step : Option Int) (n : Nat) (hst : step.getD 1 < 0) :
    ∃ l, rp66RowsSlice start stop step n = .ok l ∧
      (l ≠ [] → ∃ f lst, sliceFirst start stop step n = .ok f ∧ l.head? = some f ∧
                  rp66StopIndexSlice start stop step n = .ok lst ∧ l.getLast? = some lst) := by
  have hadj := slice_adjust_neg start stop step n hst
  refine ⟨rangeList (pyBoundNeg start ((n : Int) - 1) n) (pyBoundNeg stop (-1) n) (step.getD 1), ?_, ?_⟩
  · unfold rp66RowsSlice sliceIndices; rw [hadj]
  · intro hne
    obtain ⟨y, hy⟩ : ∃ y, (rangeList (pyBoundNeg start ((n : Int) - 1) n) (pyBoundNeg stop (-1) n) (step.getD 1)).getLast? = some y := by
      cases hl : (rangeList (pyBoundNeg start ((n : Int) - 1) n) (pyBoundNeg stop (-1) n) (step.getD 1)).getLast? with
      | none => simp [List.getLast?_eq_none_iff] at hl; exact absurd hl hne
      | some y => exact ⟨y, rfl⟩
    refine ⟨pyBoundNeg start ((n : Int) - 1) n, y, ?_, ?_, ?_, hy⟩
    · unfold sliceFirst; rw [hadj]
    · -- the first generated index is the adjusted start
      unfold rangeList at hne ⊢
      cases hlen : rangeLen (pyBoundNeg start ((n : Int) - 1) n) (pyBoundNeg stop (-1) n) (step.getD 1) with
      | zero => rw [hlen] at hne; simp at hne
      | succ k => simp [List.range_succ_eq_map]
    · unfold rp66StopIndexSlice
      rw [sliceLast_neg _ _ _ _ hst]
      unfold sliceIndices; rw [hadj]
      simp [hy]

open TD.C04 in
/-- **BIT (and the slice handed to LIS), negative step, exactly**: the sliced rows are Python slicing from the clamped
start down to `step * floor(stop' / step)` (the clamped stop rounded *up* to a multiple of |step|; `-1` for
`stop' = step = -1`), that value being interpreted once more as a Python bound — a `-1` there means "the last element". -/
theorem conv_rows_neg_unfold (start stop step : Option Int) (n : Nat) (hst : step.getD 1 < 0) :
    convRowsSlice start stop step n =
      sliceIndices (some (pyBoundNeg start ((n : Int) - 1) n))
        (some (step.getD 1 * Int.fdiv (pyBoundNeg stop (-1) n) (step.getD 1))) (some (step.getD 1)) n := by
  have hadj := slice_adjust_neg start stop step n hst
  unfold convRowsSlice
  rw [sliceLast_neg _ _ _ _ hst]
  unfold sliceFirst sliceStep
  rw [hadj]
  simp only
  congr 2
  omega

/-- Witnesses for the negative-step classes (known findings `C11-bit-negative-step-rows-lost`,
`C11-lis-negative-step-unsupported`): `,,-1` loses every row (IndexError in BIT), `,,-3` loses the last one, `8,2,-2` is
right, `-100,,-2` would slice five rows although nothing is selected (BIT writes nothing: `count()` is 0); LIS raises as
soon as its frame set is not empty. -/
theorem conv_rows_neg_witnesses :
    (convRowsSlice none none (some (-1)) 10 = .ok [] ∧ sliceIndices none none (some (-1)) 10 = .ok [9, 8, 7, 6, 5, 4, 3, 2, 1, 0] ∧
      bitOutSlice none none (some (-1)) 10 = .ok .indexError) ∧
    (convRowsSlice none none (some (-3)) 10 = .ok [9, 6, 3] ∧ sliceIndices none none (some (-3)) 10 = .ok [9, 6, 3, 0]) ∧
    (bitOutSlice (some 8) (some 2) (some (-2)) 10 = .ok (.rows [8, 6, 4]) ∧ sliceIndices (some 8) (some 2) (some (-2)) 10 = .ok [8, 6, 4]) ∧
    (convRowsSlice (some (-100)) none (some (-2)) 10 = .ok [9, 7, 5, 3, 1] ∧ sliceIndices (some (-100)) none (some (-2)) 10 = .ok [] ∧
      bitOutSlice (some (-100)) none (some (-2)) 10 = .ok (.rows [])) ∧
    (lisOutSlice [5, 5] (some 8) (some 2) (some (-2)) 10 = .ok .planError ∧
      lisOutSlice [2, 2, 2, 2, 2] (some 8) (some 2) (some (-2)) 10 = .ok (.rows [4, 6, 8]) ∧
      lisOutSlice [5, 5] (some 5) (some 4) (some (-3)) 10 = .ok (.rows []) ∧
      sliceIndices (some 5) (some 4) (some (-3)) 10 = .ok [5] ∧ lisOutSlice [7, 7, 6] (some 4) (some 10) (some 2) 20 = .ok (.rows [4, 6, 8])) := by
  decide

/-- **LIS, negative step, exactly**: with `l = range(first, last+1, step)` (no wrapping): nothing is written when `l` is
empty, the plan raises when a data record holds two frames of `l`, otherwise the frames of `l` are written in *ascending*
order. In no case with two or more selected frames is the Python selection (descending) written. -/
theorem lis_neg_step_outcome (fpr : List Nat) (start stop step : Option Int) (n : Nat) (hst : step.getD 1 < 0) :
    ∃ l, l = rangeList (TD.C04.pyBoundNeg start ((n : Int) - 1) n)
              (step.getD 1 * Int.fdiv (TD.C04.pyBoundNeg stop (-1) n) (step.getD 1)) (step.getD 1) ∧
      l.Pairwise (· > ·) ∧
      lisOutSlice fpr start stop step n =
        .ok (if l = [] then .rows [] else if sharesRecord fpr l then .planError else .rows l.reverse) := by
  have hadj := TD.C04.slice_adjust_neg start stop step n hst
  refine ⟨_, rfl, TD.C04.rangeList_pairwise_neg hst, ?_⟩
  unfold lisOutSlice
  rw [sliceLast_neg _ _ _ _ hst]
  unfold sliceFirst sliceStep
  rw [hadj]
  simp only
  have h1 : step.getD 1 * (TD.C04.pyBoundNeg stop (-1) n).fdiv (step.getD 1) - 1 + 1 =
      step.getD 1 * (TD.C04.pyBoundNeg stop (-1) n).fdiv (step.getD 1) := by omega
  rw [h1]
  have hlt : step.getD 1 < 1 := by omega
  by_cases hz : rangeLen (TD.C04.pyBoundNeg start ((n : Int) - 1) n)
      (step.getD 1 * (TD.C04.pyBoundNeg stop (-1) n).fdiv (step.getD 1)) (step.getD 1) = 0
  · have : rangeList (TD.C04.pyBoundNeg start ((n : Int) - 1) n)
        (step.getD 1 * (TD.C04.pyBoundNeg stop (-1) n).fdiv (step.getD 1)) (step.getD 1) = [] := by
      unfold rangeList; rw [hz]; rfl
    simp [hz, this]
  · have : rangeList (TD.C04.pyBoundNeg start ((n : Int) - 1) n)
        (step.getD 1 * (TD.C04.pyBoundNeg stop (-1) n).fdiv (step.getD 1)) (step.getD 1) ≠ [] := by
      unfold rangeList
      intro h
      have := congrArg List.length h
      simp at this
      exact hz this
    simp only [hz, if_false, hlt, if_true, this]
    split <;> rfl

/-! ## Non-vacuity -/
example : convRowsSlice none none (some 3) 10 = .ok [0, 3, 6] ∧ sliceIndices none none (some 3) 10 = .ok ([0, 3, 6] ++ [9]) := by decide
example : pyBound (none : Option Int) 0 10 < pyBound (none : Option Int) 10 10 ∧
    pyBound (none : Option Int) 0 10 % 3 < pyBound (none : Option Int) 10 10 % 3 := by decide
example : rp66RowsSample 12 7 = [0, 1, 3, 5, 6, 8, 10] ∧ rp66StopIndexSample 12 7 = 10 := by decide
example : convRowsSlice (some 4) (some 10) (some 2) 20 = .ok [4, 6, 8] := by decide
example : convRowsSlice none none (some 3) 10 = .ok [0, 3, 6] ∧ sliceIndices none none (some 3) 10 = .ok [0, 3, 6, 9] := by decide
example : convRowsSample 12 7 = .ok [0, 1, 2, 3, 4, 5] := by decide
example : rp66StopIndexSlice none none (some 3) 10 = .ok 9 := by decide
example : rp66RowsSlice (some 8) (some 2) (some (-2)) 10 = .ok [8, 6, 4] ∧ rp66StopIndexSlice (some 8) (some 2) (some (-2)) 10 = .ok 4 := by decide

end TD.C11
