import TD.C11.Model
import TD.C15.Props
import TD.C04.SliceNeg
import Mathlib.Tactic.Linarith
import Mathlib.Tactic.Ring

namespace TD.C11
open TD.C15

/-- Two strictly increasing lists with the same members are equal. -/
theorem eq_of_mem_iff_of_pairwise_lt {l₁ l₂ : List Int} (h₁ : l₁.Pairwise (· < ·)) (h₂ : l₂.Pairwise (· < ·))
    (h : ∀ i, i ∈ l₁ ↔ i ∈ l₂) : l₁ = l₂ := by
  refine List.Perm.eq_of_pairwise (le := (· < ·)) (fun a b _ _ h1 h2 => by omega) h₁ h₂ ?_
  exact (List.perm_ext_iff_of_nodup (h₁.imp (fun h => ne_of_lt h)) (h₂.imp (fun h => ne_of_lt h))).2 h

theorem pyBound_start_range (start : Option Int) (n : Nat) : 0 ≤ pyBound start 0 n ∧ pyBound start 0 n ≤ n := by
  unfold pyBound; cases start <;> simp <;> omega

theorem pyBound_stop_range (stop : Option Int) (n : Nat) : 0 ≤ pyBound stop n n ∧ pyBound stop n n ≤ n := by
  unfold pyBound; cases stop <;> simp <;> omega

theorem pyBound_some_of_range (a d : Int) (n : Nat) (h0 : 0 ≤ a) (h1 : a ≤ n) : pyBound (some a) d n = a := by
  unfold pyBound
  have : ¬ (a < 0) := by omega
  simp only [this, if_false]; omega

/-- `Slice.last()` for a positive step: the stop bound rounded down to a multiple of the step, minus one. -/
theorem sliceLast_pos (start stop step : Option Int) (n : Nat) (hst : 0 < step.getD 1) :
    sliceLast start stop step n = .ok (step.getD 1 * (pyBound stop n n / step.getD 1) - 1) := by
  unfold sliceLast
  rw [slice_adjust_spec _ _ _ _ hst]
  have := (pyBound_stop_range stop n).2
  have hn : ¬ ((n : Int) < pyBound stop n n) := by omega
  simp only [hn, if_false]
  rw [Int.fdiv_eq_ediv_of_nonneg _ (le_of_lt hst)]

/-- The rows the LIS/BIT converters write for a slice with positive step. -/
theorem convRowsSlice_eq (start stop step : Option Int) (n : Nat) (hst : 0 < step.getD 1) :
    convRowsSlice start stop step n =
      .ok (rangeList (pyBound start 0 n) (step.getD 1 * (pyBound stop n n / step.getD 1)) (step.getD 1)) := by
  have hs := pyBound_start_range start n
  have he := pyBound_stop_range stop n
  set st := step.getD 1 with hstdef
  set e := pyBound stop n n with hedef
  set s := pyBound start 0 n with hsdef
  have hB0 : 0 ≤ st * (e / st) := Int.mul_nonneg (le_of_lt hst) (Int.ediv_nonneg he.1 (le_of_lt hst))
  have hBe : st * (e / st) ≤ e := Int.mul_ediv_self_le (ne_of_gt hst)
  unfold convRowsSlice sliceFirst sliceStep
  rw [sliceLast_pos _ _ _ _ hst, slice_adjust_spec _ _ _ _ hst]
  simp only
  have hst' : 0 < (some st : Option Int).getD 1 := by simpa using hst
  unfold sliceIndices
  rw [slice_adjust_spec _ _ _ _ hst']
  simp only [Option.getD_some]
  rw [pyBound_some_of_range s 0 n hs.1 hs.2]
  have h1 : st * (e / st) - 1 + 1 = st * (e / st) := by ring
  rw [h1, pyBound_some_of_range _ _ n hB0 (by omega)]

/-- `Slice.last()` for a negative step (the clamped stop is at most `n - 1`, so the first branch is never taken). -/
theorem sliceLast_neg (start stop step : Option Int) (n : Nat) (hst : step.getD 1 < 0) :
    sliceLast start stop step n =
      .ok (step.getD 1 * Int.fdiv (TD.C04.pyBoundNeg stop (-1) n) (step.getD 1) - 1) := by
  unfold sliceLast
  rw [TD.C04.slice_adjust_neg _ _ _ _ hst]
  have he : ¬ ((n : Int) < TD.C04.pyBoundNeg stop (-1) n) := by
    unfold TD.C04.pyBoundNeg; cases stop <;> simp <;> omega
  simp only [he, if_false]

end TD.C11
