import TD.C06.LemmasPlan
import TD.C06.Lemmas

/-!
C06 — lemmas behind `setFrameSet_values_allchannels_partial`: loading all channels (channel list `None`) of a direct-X
log pass.
-/
namespace TD.C06

/-- the words of consecutive channels taken from the bytes of (the rest of) one frame -/
def rowWords : List Chan → List Nat → List Nat
  | [], _ => []
  | c :: cs, bs => takeWords c.wordLen c.numValues bs ++ rowWords cs (bs.drop c.size)

/-- every channel's size is its number of values times the word length (guaranteed by `DatumSpecBlockRead`) -/
def Dfsr.sizesOk (d : Dfsr) : Prop := ∀ c ∈ d.chans, c.size = c.numValues * c.wordLen

theorem takeWords_length (w k : Nat) (bs : List Nat) : (takeWords w k bs).length = k := by
  induction k generalizing bs with
  | zero => simp [takeWords]
  | succ k ih => simp [takeWords, ih]

theorem rowWords_length (cs : List Chan) (bs : List Nat) : (rowWords cs bs).length = sumN (cs.map Chan.numValues) := by
  induction cs generalizing bs with
  | nil => simp [rowWords, sumN]
  | cons c cs ih => simp [rowWords, sumN, takeWords_length, ih]

/-- `frameEvLoop` over consecutive channels `s, s+1, …` only extends the pending run -/
theorem frameEvLoop_consecutive (p : Plan) (m s chStart siz : Nat) (acc : List Ev) :
    frameEvLoop p (List.range' s m) chStart s siz acc
      = (acc, chStart, s + m, siz + (p.skipToChStart (s + m) - p.skipToChStart s)) := by
  induction m generalizing s siz with
  | zero => simp [frameEvLoop]
  | succ m ih =>
    simp only [List.range'_succ, frameEvLoop, if_true]
    rw [ih (s + 1) (siz + p.chSize s)]
    have h1 := skip_succ p s
    have h2 := skip_mono p (s + 1) (s + 1 + m) (by omega)
    simp only [Prod.mk.injEq, true_and]
    refine ⟨by omega, ?_⟩
    rw [show s + (m + 1) = s + 1 + m by omega]; omega

theorem skipToChStart_all (p : Plan) : p.skipToChStart p.numChannels = p.frameSize := by
  simp [Plan.skipToChStart, Plan.numChannels, Plan.frameSize]

/-- all channels selected: one read of the whole frame, no pre, no post -/
theorem retFrameEvents_all (p : Plan) (k : Nat) (hk : p.numChannels = k + 1) :
    retFrameEvents p (List.range (k + 1)) = (none, [⟨.read, p.frameSize, none, some 0, some k⟩], none) := by
  have hr : List.range (k + 1) = 0 :: List.range' 1 k := by
    rw [List.range_eq_range', List.range'_succ]
  rw [hr]
  unfold retFrameEvents
  simp only [Nat.lt_irrefl, if_false, gt_iff_lt]
  have h0 : frameEvLoop p (0 :: List.range' 1 k) 0 0 0 [] = frameEvLoop p (List.range' 1 k) 0 1 (0 + p.chSize 0) [] := by
    simp [frameEvLoop]
  rw [h0, frameEvLoop_consecutive]
  have hall := skipToChStart_all p
  rw [hk] at hall
  have h1 := skip_succ p 0
  have hz := skip_zero p
  have hlast : (0 :: List.range' 1 k).getLast?.getD 0 = k := by
    rw [← hr, List.getLast?_range]; simp
  have hend : p.skipToFrameEnd k = 0 := by
    have := skip_end p k; omega
  simp only [hlast, hend, Nat.lt_irrefl, if_false, show 1 + k = k + 1 by omega, Nat.zero_lt_succ, if_true,
    List.nil_append, Nat.add_sub_cancel, Prod.mk.injEq, true_and, and_true, List.cons.injEq, Ev.mk.injEq]
  have hm := skip_mono p 1 (k + 1) (by omega)
  simp only [Nat.zero_add] at h1
  omega


theorem sumN_map_drop {α} (f : α → Nat) (l : List α) (i : Nat) (x : α) (h : l[i]? = some x) :
    sumN ((l.drop i).map f) = f x + sumN ((l.drop (i + 1)).map f) := by
  have hi : i < l.length := by
    rcases Nat.lt_or_ge i l.length with h' | h'
    · exact h'
    · rw [List.getElem?_eq_none h'] at h; cases h
  rw [List.drop_eq_getElem_cons hi]
  have : l[i] = x := by
    have := List.getElem?_eq_getElem hi; rw [this] at h; exact Option.some.inj h
  simp [sumN, this]

/-- `chanWords` over all remaining channels of a frame set that holds every channel -/
theorem chanWords_all (d : Dfsr) (fs : FrameSet) (hch : fs.chIdx = List.range d.chans.length) (hok : d.sizesOk) :
    ∀ (k ci : Nat) (bs : List Nat), ci + k = d.chans.length →
      sumN ((d.chans.drop ci).map Chan.size) ≤ bs.length →
      chanWords d fs k ci bs = .ok (rowWords (d.chans.drop ci) bs, sumN ((d.chans.drop ci).map Chan.size)) := by
  intro k
  induction k with
  | zero =>
    intro ci bs h _
    have : d.chans.drop ci = [] := List.drop_eq_nil_of_le (by omega)
    simp [chanWords, this, rowWords, sumN]
  | succ k ih =>
    intro ci bs h hlen
    have hci : ci < d.chans.length := by omega
    have hidx : fs.chIdx[ci]? = some ci := by rw [hch]; simp [hci]
    have hc : d.chans[ci]? = some d.chans[ci] := List.getElem?_eq_getElem hci
    have hsz := hok d.chans[ci] (List.getElem_mem hci)
    have hsum := sumN_map_drop Chan.size d.chans ci d.chans[ci] hc
    simp only [chanWords, hidx, hc]
    rw [← hsz]
    have hge : ¬ bs.length < d.chans[ci].size := by omega
    simp only [hge, if_false]
    rw [ih (ci + 1) (bs.drop d.chans[ci].size) (by omega) (by rw [List.length_drop]; omega)]
    rw [List.drop_eq_getElem_cons hci]
    simp only [rowWords, List.map_cons, sumN]

theorem listIndexOf_range_zero (n : Nat) (h : 0 < n) : listIndexOf (List.range n) 0 = some 0 := by
  cases n with
  | zero => omega
  | succ m => rw [List.range_succ_eq_map]; simp [listIndexOf]

/-- **`setFrameBytes` of a whole frame**: with every channel in the frame set and direct X, the bytes of one frame
written with `(chFrom, chTo) = (0, last)` replace row `fr` by the words of all channels. -/
theorem setFrameBytes_all (d : Dfsr) (fs : FrameSet) (by_ : List Nat) (fr k : Nat) (row : List (Option Nat))
    (hch : fs.chIdx = List.range d.chans.length) (hk : d.chans.length = k + 1) (hok : d.sizesOk)
    (hlen : by_.length = sumN (d.chans.map Chan.size))
    (hrow : fs.frames[fr]? = some row) (hrl : row.length = sumN (d.chans.map Chan.numValues)) :
    FrameSet.setFrameBytes d fs by_ fr (some 0) (some k)
      = .ok { fs with frames := fs.frames.set fr ((rowWords d.chans by_).map some) } := by
  unfold FrameSet.setFrameBytes
  simp only
  rw [hch, listIndexOf_range_zero _ (by omega)]
  simp only [List.drop_zero, Nat.sub_zero]
  have hcw := chanWords_all d fs hch hok (k + 1) 0 by_ (by omega) (by simp [hlen])
  simp only [List.drop_zero] at hcw
  rw [← hch, hcw]
  simp only [Nat.zero_add, hlen, ne_eq, not_true_eq_false, if_false, hrow]
  have hv : FrameSet.valIdx d fs 0 = 0 := by simp [FrameSet.valIdx, sumN]
  have hwl := rowWords_length d.chans by_
  simp only [hv, Nat.zero_add, hwl, hrl, Nat.lt_irrefl, if_false]
  congr 2
  unfold writeAt
  simp only [List.take_zero, List.nil_append, List.length_map, hwl, Nat.zero_add]
  rw [← hrl, List.drop_length, List.append_nil]


/-! ### renumbering and executing the events of one record (all channels) -/

/-- the new position in the buffer after one event of `_genFrameSetEvents`' inner loop -/
def renumStep (buf : List Nat) (k : Nat) (e : Ev) : Nat :=
  if k + 1 < buf.length ∧ (buf[k + 1]? = e.fr ∧ e.fr.isSome) then k + 1 else k

def renumK (buf : List Nat) : List Ev → Nat → Nat
  | [], k => k
  | e :: es, k => renumK buf es (renumStep buf k e)

theorem renumber_cons (buf : List Nat) (frInt : Nat) (e : Ev) (es : List Ev) (k : Nat) :
    renumber buf frInt (e :: es) k
      = { e with fr := some (frInt + renumStep buf k e) } :: renumber buf frInt es (renumStep buf k e) := rfl

theorem renumber_append (buf : List Nat) (frInt : Nat) (a b : List Ev) (k : Nat) :
    renumber buf frInt (a ++ b) k = renumber buf frInt a k ++ renumber buf frInt b (renumK buf a k) := by
  induction a generalizing k with
  | nil => simp [renumber, renumK]
  | cons e es ih => simp only [List.cons_append, renumber_cons, renumK, ih]

theorem execEvs_append (d : Dfsr) (st : Store) (a b : List Ev) (r : Run) :
    execEvs d st (a ++ b) r = (match execEvs d st a r with | .error e => .error e | .ok r' => execEvs d st b r') := by
  induction a generalizing r with
  | nil => simp [execEvs]
  | cons e es ih =>
    simp only [List.cons_append, execEvs]
    cases execEv d st r e with
    | error err => rfl
    | ok r1 => exact ih r1

/-- write the rows `rows` into the matrix from row `i` on -/
def setRows (M : List (List (Option Nat))) : Nat → List (List (Option Nat)) → List (List (Option Nat))
  | _, [] => M
  | i, x :: xs => setRows (M.set i x) (i + 1) xs

theorem setRows_length (M : List (List (Option Nat))) (i : Nat) (rows : List (List (Option Nat))) :
    (setRows M i rows).length = M.length := by
  induction rows generalizing M i with
  | nil => rfl
  | cons x xs ih => simp [setRows, ih]


/-- the row of the frame at offset `g` of the record `bs` (header included), all channels -/
def rowOf (d : Dfsr) (bs : List Nat) (g : Nat) : List (Option Nat) :=
  (rowWords d.chans ((bs.drop (2 + g * sumN (d.chans.map Chan.size))).take (sumN (d.chans.map Chan.size)))).map some

theorem rowOf_length (d : Dfsr) (bs : List Nat) (g : Nat) : (rowOf d bs g).length = sumN (d.chans.map Chan.numValues) := by
  simp [rowOf, rowWords_length]

theorem exec_read_all (d : Dfsr) (st : Store) (r : Run) (tell : Nat) (bs : List Nat) (g fr k : Nat) (row : List (Option Nat))
    (hcur : r.cur = some (tell, bs)) (hofs : r.ofs = 2 + g * sumN (d.chans.map Chan.size))
    (hlen : 2 + g * sumN (d.chans.map Chan.size) + sumN (d.chans.map Chan.size) ≤ bs.length)
    (hch : r.fs.chIdx = List.range d.chans.length) (hk : d.chans.length = k + 1) (hok : d.sizesOk)
    (hrow : r.fs.frames[fr]? = some row) (hrl : row.length = sumN (d.chans.map Chan.numValues)) :
    ∃ ops, execEv d st r ⟨.read, sumN (d.chans.map Chan.size), some fr, some 0, some k⟩
      = .ok { r with ofs := r.ofs + sumN (d.chans.map Chan.size), ops := ops,
                     fs := { r.fs with frames := r.fs.frames.set fr (rowOf d bs g) } } := by
  unfold execEv Run.read
  simp only [hcur]
  have h1 : ¬ (r.ofs + sumN (d.chans.map Chan.size) > bs.length) := by omega
  simp only [h1, if_false]
  have hby : ((bs.drop r.ofs).take (sumN (d.chans.map Chan.size))).length = sumN (d.chans.map Chan.size) := by
    rw [List.length_take, List.length_drop]; omega
  rw [setFrameBytes_all d r.fs _ fr k row hch hk hok hby hrow hrl]
  refine ⟨Op.read tell r.ofs (sumN (d.chans.map Chan.size)) :: r.ops, ?_⟩
  simp only [rowOf, hofs]

theorem exec_skip (d : Dfsr) (st : Store) (r : Run) (tell : Nat) (bs : List Nat) (siz : Nat) (fr cf ct : Option Nat)
    (hcur : r.cur = some (tell, bs)) (hlen : r.ofs + siz ≤ bs.length) :
    ∃ ops, execEv d st r ⟨.skip, siz, fr, cf, ct⟩ = .ok { r with ofs := r.ofs + siz, ops := ops } := by
  unfold execEv
  simp only [hcur]
  exact ⟨_, by rw [Nat.min_eq_right hlen]⟩


theorem rangeList_getElem_zero (g stop step : Nat) (h : g < stop) (hs : 0 < step) :
    (rangeList g stop step)[0]? = some g := by rw [rangeList_cons g stop step h hs]; rfl

theorem rangeList_getElem_succ (g stop step i : Nat) (h : g < stop) (hs : 0 < step) :
    (rangeList g stop step)[i + 1]? = (rangeList (g + step) stop step)[i]? := by
  rw [rangeList_cons g stop step h hs]; rfl

/-- **Executing the renumbered frame loop of one record, all channels, direct X**: the rows `frInt + j, …` of the
matrix become the rows of the frames `range(g, stop, step)` of the record; nothing else of the frame set changes. -/
theorem frameLoop_exec_all (d : Dfsr) (st : Store) (tell : Nat) (bs : List Nat) (k n stop step : Nat) (buf : List Nat)
    (frInt : Nat) (p : Plan) (fsz : Nat) (hF : fsz = sumN (d.chans.map Chan.size)) (hpi : p.indr = 0)
    (hk : d.chans.length = k + 1) (hok : d.sizesOk) (hstep : 0 < step)
    (hbs : bs.length = 2 + n * fsz) (hstop : stop ≤ n)
    (inter : Option Ev)
    (hinter : inter = if (step - 1) * fsz > 0 then some ⟨.skip, (step - 1) * fsz, none, none, none⟩ else none)
    (hinc : ∀ (a b x y : Nat), a < b → buf[a]? = some x → buf[b]? = some y → x < y) :
    ∀ (fuel g j kk : Nat) (r : Run), g < stop → stop - g ≤ fuel →
      (∀ i, buf[j + i]? = (rangeList g stop step)[i]?) → (kk = j ∨ kk + 1 = j) →
      r.cur = some (tell, bs) → r.ofs = 2 + g * fsz → r.fs.chIdx = List.range d.chans.length →
      (∀ row ∈ r.fs.frames, row.length = sumN (d.chans.map Chan.numValues)) →
      frInt + j + rangeLen g stop step ≤ r.fs.frames.length →
      ∃ r', execEvs d st (renumber buf frInt
          (frameLoop p [⟨.read, fsz, none, some 0, some k⟩] none inter stop step fuel g none) kk) r = .ok r' ∧
        r'.fs = { r.fs with frames := setRows r.fs.frames (frInt + j) ((rangeList g stop step).map (rowOf d bs)) } ∧
        r'.cur = r.cur := by
  intro fuel
  induction fuel with
  | zero => intro g j kk r hg hfuel; omega
  | succ fuel ih =>
    intro g j kk r hg hfuel hb hkk hcur hofs hch hrows hN
    subst hF
    have hbj : buf[j]? = some g := by have := hb 0; rwa [rangeList_getElem_zero g stop step hg hstep, Nat.add_zero] at this
    have hjlen : j < buf.length := by
      rcases Nat.lt_or_ge j buf.length with h | h
      · exact h
      · rw [List.getElem?_eq_none h] at hbj; cases hbj
    -- the read event of frame g is renumbered to frInt + j
    have hstepR : renumStep buf kk ⟨.read, sumN (d.chans.map Chan.size), some g, some 0, some k⟩ = j := by
      unfold renumStep
      rcases hkk with rfl | hkk
      · have : ¬ (kk + 1 < buf.length ∧ (buf[kk + 1]? = some g ∧ (some g).isSome)) := by
          intro ⟨hl, he, _⟩
          have := hinc kk (kk + 1) g g (by omega) hbj he
          omega
        rw [if_neg this]
      · have : kk + 1 < buf.length ∧ (buf[kk + 1]? = some g ∧ (some g).isSome) := by
          rw [hkk]; exact ⟨hjlen, hbj, rfl⟩
        rw [if_pos this]; exact hkk
    have hlenN := rangeLen_lt g stop step hg hstep
    have hrowj : ∃ row, r.fs.frames[frInt + j]? = some row ∧ row.length = sumN (d.chans.map Chan.numValues) := by
      have hlt : frInt + j < r.fs.frames.length := by omega
      exact ⟨_, List.getElem?_eq_getElem hlt, hrows _ (List.getElem_mem hlt)⟩
    obtain ⟨row, hrow, hrl⟩ := hrowj
    have hg1 : (g + 1) * sumN (d.chans.map Chan.size) ≤ n * sumN (d.chans.map Chan.size) :=
      Nat.mul_le_mul_right _ (by omega)
    have hg1' : (g + 1) * sumN (d.chans.map Chan.size) = g * sumN (d.chans.map Chan.size) + sumN (d.chans.map Chan.size) := by ring
    obtain ⟨ops1, hread⟩ := exec_read_all d st r tell bs g (frInt + j) k row hcur hofs (by omega) hch hk hok hrow hrl
    simp only [frameLoop, hg, if_true, emitFrame, hpi, Nat.lt_irrefl, if_false, List.append_nil]
    rw [rangeList_cons g stop step hg hstep]
    by_cases hlast : g + step ≥ stop
    · simp only [hlast, if_true, evAt, List.append_nil, renumber_cons, hstepR, renumber, execEvs, hread]
      rw [rangeList_nil _ _ _ hlast]
      exact ⟨_, rfl, by simp [setRows], rfl⟩
    · simp only [hlast, if_false]
      have hgs : g + step < stop := by omega
      have hmul : (g + step) * sumN (d.chans.map Chan.size)
          = g * sumN (d.chans.map Chan.size) + sumN (d.chans.map Chan.size) + (step - 1) * sumN (d.chans.map Chan.size) := by
        obtain ⟨s', rfl⟩ : ∃ s', step = s' + 1 := ⟨step - 1, by omega⟩
        simp only [Nat.add_sub_cancel]; ring
      have hgs1 : (g + step) * sumN (d.chans.map Chan.size) ≤ n * sumN (d.chans.map Chan.size) :=
        Nat.mul_le_mul_right _ (by omega)
      have hb1 : buf[j + 1]? = some (g + step) := by
        have := hb 1
        rwa [rangeList_getElem_succ g stop step 0 hg hstep, rangeList_getElem_zero _ _ _ hgs hstep] at this
      have hb' : ∀ i, buf[j + 1 + i]? = (rangeList (g + step) stop step)[i]? := by
        intro i
        have := hb (i + 1)
        rw [rangeList_getElem_succ g stop step i hg hstep] at this
        rw [← this]; congr 1; omega
      -- the state after the read
      let r1 : Run := ⟨r.cur, r.ofs + sumN (d.chans.map Chan.size),
        { r.fs with frames := r.fs.frames.set (frInt + j) (rowOf d bs g) }, ops1⟩
      have hrows1 : ∀ row ∈ r1.fs.frames, row.length = sumN (d.chans.map Chan.numValues) := by
        intro row' hm
        rcases List.mem_or_eq_of_mem_set hm with h | h
        · exact hrows _ h
        · rw [h]; exact rowOf_length d bs g
      have hN1 : frInt + (j + 1) + rangeLen (g + step) stop step ≤ r1.fs.frames.length := by
        simp only [r1, List.length_set]; omega
      by_cases hz : (step - 1) * sumN (d.chans.map Chan.size) > 0
      · simp only [hz, if_true] at hinter
        subst hinter
        have hstepS : renumStep buf j ⟨.skip, (step - 1) * sumN (d.chans.map Chan.size), some (g + step), none, none⟩ = j + 1 := by
          unfold renumStep
          have hl : j + 1 < buf.length := by
            rcases Nat.lt_or_ge (j + 1) buf.length with h | h
            · exact h
            · rw [List.getElem?_eq_none h] at hb1; cases hb1
          have : j + 1 < buf.length ∧ (buf[j + 1]? = some (g + step) ∧ (some (g + step)).isSome) := ⟨hl, hb1, rfl⟩
          rw [if_pos this]
        obtain ⟨ops2, hskip⟩ := exec_skip d st r1 tell bs ((step - 1) * sumN (d.chans.map Chan.size)) (some (frInt + (j + 1))) none none
          hcur (by simp only [r1]; omega)
        obtain ⟨r', hex, hfs, hc⟩ := ih (g + step) (j + 1) (j + 1)
          ⟨r1.cur, r1.ofs + (step - 1) * sumN (d.chans.map Chan.size), r1.fs, ops2⟩
          hgs (by omega) hb' (Or.inl rfl) hcur (by simp only [r1]; omega) hch hrows1 hN1
        refine ⟨r', ?_, ?_, by rw [hc]⟩
        · simp only [evAt, List.cons_append, List.nil_append, renumber_cons, hstepR, hstepS, execEvs, hread]
          simp only [r1] at hskip
          rw [hskip]
          exact hex
        · rw [hfs]; simp [setRows, r1]; ring_nf
      · have hz0 : (step - 1) * sumN (d.chans.map Chan.size) = 0 := by omega
        simp only [hz, if_false] at hinter
        subst hinter
        obtain ⟨r', hex, hfs, hc⟩ := ih (g + step) (j + 1) j r1
          hgs (by omega) hb' (Or.inr rfl) hcur (by simp only [r1]; omega) hch hrows1 hN1
        refine ⟨r', ?_, ?_, by rw [hc]⟩
        · simp only [evAt, List.append_nil, List.cons_append, List.nil_append, renumber_cons, hstepR, execEvs, hread]
          exact hex
        · rw [hfs]; simp [setRows, r1]; ring_nf


/-! ### one record: slice from the offsets, events, execution -/

/-- arithmetic progression `a, a+step, …` of `len` members -/
def ap (a step len : Nat) : List Nat := (List.range len).map (fun i => a + i * step)

theorem rangeList_eq_ap (a b c : Nat) : rangeList a b c = ap a c (rangeLen a b c) := rfl

theorem ap_getLast (a step len : Nat) : (ap a step (len + 1)).getLast? = some (a + len * step) := by
  unfold ap; rw [List.range_succ]; simp

theorem rangeLen_ap (a step len : Nat) (hs : 0 < step) : rangeLen a (a + len * step + 1) step = len + 1 := by
  unfold rangeLen
  have : a < a + len * step + 1 := by omega
  simp only [this, if_true]
  have : a + len * step + 1 - a - 1 = len * step := by omega
  rw [this, Nat.mul_div_cancel _ hs]

/-- `_sliceFromList` of an arithmetic progression gives back a slice that enumerates it -/
theorem sliceFromList_ap (a step len : Nat) (hs : 0 < step) :
    ∃ c, 0 < c ∧ sliceFromList (ap a step (len + 1)) = .ok (a, a + len * step + 1, c) ∧
      rangeList a (a + len * step + 1) c = ap a step (len + 1) ∧ (len ≠ 0 → c = step) := by
  cases len with
  | zero =>
    refine ⟨1, by omega, by simp [ap, sliceFromList], ?_, by simp⟩
    rw [rangeList_eq_ap]
    have := rangeLen_ap a 1 0 (by omega)
    simp only [Nat.zero_mul, Nat.add_zero] at this ⊢
    rw [this]; simp [ap]
  | succ m =>
    refine ⟨step, hs, ?_, ?_, fun _ => rfl⟩
    · have hlast := ap_getLast a step (m + 1)
      have hlen : (ap a step (m + 1 + 1)).length = m + 2 := by simp [ap]
      have hcons : ap a step (m + 1 + 1) = a :: ((List.range (m + 1)).map (fun i => a + (i + 1) * step)) := by
        unfold ap; rw [List.range_succ_eq_map]; simp [Function.comp]
      rw [hcons] at hlast hlen ⊢
      cases hm : (List.range (m + 1)).map (fun i => a + (i + 1) * step) with
      | nil => simp at hm
      | cons y ys =>
        rw [hm] at hlast hlen
        simp only [sliceFromList, hlast, Option.getD_some, hlen]
        have h1 : m + 2 - 1 = m + 1 := by omega
        have h2 : a + (m + 1) * step + 1 - 1 - a = (m + 1) * step := by omega
        have h3 : (m + 1) * step / (m + 1) = step := by rw [Nat.mul_comm]; exact Nat.mul_div_cancel _ (by omega)
        have h4 : (m + 1) * step % step = 0 := Nat.mul_mod_left _ _
        simp [h1, h2, h3, h4]; omega
    · rw [rangeList_eq_ap, rangeLen_ap a step (m + 1) hs]

theorem sortDedup_of_sorted (l : List Nat) (h : l.Pairwise (· < ·)) : sortDedup l = l := by
  induction l with
  | nil => rfl
  | cons a as ih =>
    have hp := List.pairwise_cons.1 h
    have : sortDedup (a :: as) = insertSorted a (sortDedup as) := rfl
    rw [this, ih hp.2]
    cases as with
    | nil => rfl
    | cons b bs => simp [insertSorted, hp.1 b (List.mem_cons_self ..)]


theorem merged_none_none (p : Plan) (c : Nat) :
    mergedPostFramePre p none none c
      = if (c - 1) * p.frameSize > 0 then some ⟨.skip, (c - 1) * p.frameSize, none, none, none⟩ else none := by
  unfold mergedPostFramePre
  by_cases h : c > 1
  · simp [h]
  · have : c - 1 = 0 := by omega
    simp [h, this]

/-- `genEvents` for all channels of a direct-X plan -/
theorem genEvents_all (p : Plan) (k a b c : Nat) (hpi : p.indr = 0) (hnc : p.numChannels = k + 1) (hab : a < b) (hc : 0 < c) :
    genEvents p a b c (List.range (k + 1))
      = .ok ((if a > 0 then [(⟨.skip, a * p.frameSize, some a, none, some 0⟩ : Ev)] else [])
          ++ frameLoop p [⟨.read, p.frameSize, none, some 0, some k⟩] none
              (if (c - 1) * p.frameSize > 0 then some ⟨.skip, (c - 1) * p.frameSize, none, none, none⟩ else none)
              b c (b - a) a none) := by
  have hsorted : (List.range (k + 1)).Pairwise (· < ·) := List.pairwise_lt_range
  have hchk : checkChIdx p (List.range (k + 1)) = .ok (List.range (k + 1)) := by
    unfold checkChIdx
    rw [sortDedup_of_sorted _ hsorted]
    simp only [List.getLast?_range]
    simp [hnc]
  have hc0 : ¬ c = 0 := by omega
  unfold genEvents
  simp only [hchk, hc0, if_false, List.length_range, gt_iff_lt, Nat.zero_lt_succ, hab, and_self, if_true,
    retFrameEvents_all p k hnc, merged_none_none, hpi, Nat.lt_irrefl, List.nil_append]
  by_cases ha : 0 < a
  · simp [ha]
  · simp [ha]


theorem exec_seek (d : Dfsr) (st : Store) (r : Run) (t : Nat) (bs : List Nat) (fr cf ct : Option Nat)
    (hfind : Store.find st t = some bs) (hhead : bs.head? = some d.dataType) (hlen : 2 ≤ bs.length) :
    ∃ ops, execEv d st r ⟨.seekLr, t, fr, cf, ct⟩ = .ok ⟨some (t, bs), 2, r.fs, ops⟩ := by
  unfold execEv Run.read
  simp only [hfind]
  have h1 : ¬ (0 + 2 > bs.length) := by omega
  simp only [h1, if_false, List.drop_zero]
  have hh : (bs.take 2).head? = some d.dataType := by
    cases bs with
    | nil => simp at hlen
    | cons x xs => simpa using hhead
  simp only [hh, ne_eq, not_true_eq_false, if_false]
  exact ⟨_, rfl⟩

theorem ap_getElem (a step len i : Nat) : (ap a step len)[i]? = if i < len then some (a + i * step) else none := by
  unfold ap
  by_cases h : i < len
  · simp [h]
  · simp [h]

theorem ap_inc (a step len : Nat) (hs : 0 < step) (i j x y : Nat) (hij : i < j)
    (hx : (ap a step len)[i]? = some x) (hy : (ap a step len)[j]? = some y) : x < y := by
  rw [ap_getElem] at hx hy
  split at hx <;> split at hy <;> simp at hx hy
  subst hx hy
  have : i * step < j * step := Nat.mul_lt_mul_of_pos_right hij hs
  omega

/-- **One record, all channels, direct X**: seeking to the record and executing the renumbered events generated for
the offsets `a, a+step, …` (an arithmetic progression inside the record) fills the rows `frInt, frInt+1, …` with the
rows of those frames and leaves the rest of the frame set alone. -/
theorem block_exec_all (d : Dfsr) (st : Store) (t : Nat) (bs : List Nat) (k n a step len frInt : Nat) (p : Plan)
    (hp : p = ⟨0, d.chans.map Chan.size⟩) (hk : d.chans.length = k + 1) (hok : d.sizesOk) (hstep : 0 < step)
    (hfind : Store.find st t = some bs) (hhead : bs.head? = some d.dataType)
    (hbs : bs.length = 2 + n * sumN (d.chans.map Chan.size)) (hlast : a + len * step < n)
    (r : Run) (hch : r.fs.chIdx = List.range d.chans.length)
    (hrows : ∀ row ∈ r.fs.frames, row.length = sumN (d.chans.map Chan.numValues))
    (hN : frInt + (len + 1) ≤ r.fs.frames.length) :
    ∃ a' b' c' evs r', sliceFromList (ap a step (len + 1)) = .ok (a', b', c') ∧
      genEvents p a' b' c' (List.range (k + 1)) = .ok evs ∧
      execEvs d st (⟨.seekLr, t, none, none, none⟩ :: renumber (ap a step (len + 1)) frInt evs 0) r = .ok r' ∧
      r'.fs = { r.fs with frames := setRows r.fs.frames frInt ((ap a step (len + 1)).map (rowOf d bs)) } := by
  obtain ⟨c, hc, hsl, hrl, _⟩ := sliceFromList_ap a step len hstep
  have hpi : p.indr = 0 := by rw [hp]
  have hnc : p.numChannels = k + 1 := by rw [hp]; simp [Plan.numChannels, hk]
  have hfs : p.frameSize = sumN (d.chans.map Chan.size) := by rw [hp]; rfl
  have hab : a < a + len * step + 1 := by omega
  have hgen := genEvents_all p k a (a + len * step + 1) c hpi hnc hab hc
  rw [hfs] at hgen
  obtain ⟨ops0, hseek⟩ := exec_seek d st r t bs none none none hfind hhead (by omega)
  have hb : ∀ i, (ap a step (len + 1))[0 + i]? = (rangeList a (a + len * step + 1) c)[i]? := by
    intro i; rw [hrl, Nat.zero_add]
  have hinc := ap_inc a step (len + 1) hstep
  have hlenR : rangeLen a (a + len * step + 1) c = len + 1 := by
    have : (rangeList a (a + len * step + 1) c).length = (ap a step (len + 1)).length := by rw [hrl]
    simpa [rangeList, ap] using this
  have han : a * sumN (d.chans.map Chan.size) ≤ n * sumN (d.chans.map Chan.size) :=
    Nat.mul_le_mul_right _ (by omega)
  by_cases ha : 0 < a
  · obtain ⟨ops1, hsk⟩ := exec_skip d st ⟨some (t, bs), 2, r.fs, ops0⟩ t bs (a * sumN (d.chans.map Chan.size))
      (some (frInt + 0)) none (some 0) rfl (by simp only; omega)
    have hst0 : renumStep (ap a step (len + 1)) 0 ⟨.skip, a * sumN (d.chans.map Chan.size), some a, none, some 0⟩ = 0 := by
      unfold renumStep
      have : ¬ (0 + 1 < (ap a step (len + 1)).length ∧ ((ap a step (len + 1))[0 + 1]? = some a ∧ (some a).isSome)) := by
        intro ⟨_, he, _⟩
        have h0 : (ap a step (len + 1))[0]? = some a := by rw [ap_getElem]; simp
        have := hinc 0 (0 + 1) a a (by omega) h0 he
        omega
      rw [if_neg this]
    obtain ⟨r', hex, hfs', _⟩ := frameLoop_exec_all d st t bs k n (a + len * step + 1) c (ap a step (len + 1)) frInt p _ rfl
      hpi hk hok hc hbs (by omega) _ rfl hinc (a + len * step + 1 - a) a 0 0
      ⟨some (t, bs), 2 + a * sumN (d.chans.map Chan.size), r.fs, ops1⟩ hab (Nat.le_refl _) hb (Or.inl rfl) rfl rfl hch hrows
      (by rw [hlenR]; simpa using hN)
    refine ⟨a, a + len * step + 1, c, _, r', hsl, hgen, ?_, ?_⟩
    · simp only [ha, if_true, List.cons_append, List.nil_append, renumber_cons, hst0, execEvs, hseek, hsk]
      exact hex
    · rw [hfs', hrl]; simp
  · have ha0 : a = 0 := by omega
    subst ha0
    obtain ⟨r', hex, hfs', _⟩ := frameLoop_exec_all d st t bs k n (0 + len * step + 1) c (ap 0 step (len + 1)) frInt p _ rfl
      hpi hk hok hc hbs (by omega) _ rfl hinc (0 + len * step + 1 - 0) 0 0 0
      ⟨some (t, bs), 2, r.fs, ops0⟩ hab (Nat.le_refl _) hb (Or.inl rfl) rfl (by simp) hch hrows
      (by rw [hlenR]; simpa using hN)
    refine ⟨0, 0 + len * step + 1, c, _, r', hsl, hgen, ?_, ?_⟩
    · simp only [Nat.lt_irrefl, if_false, List.nil_append, execEvs, hseek]
      exact hex
    · rw [hfs', hrl]; simp


/-! ### assembling a single-record log pass -/

theorem setRows_getElem (M : List (List (Option Nat))) (i : Nat) (rows : List (List (Option Nat))) (q : Nat)
    (h : i + rows.length ≤ M.length) :
    (setRows M i rows)[q]? = if i ≤ q ∧ q < i + rows.length then rows[q - i]? else M[q]? := by
  induction rows generalizing M i with
  | nil => simp [setRows]
  | cons x xs ih =>
    simp only [setRows, List.length_cons] at h ⊢
    rw [ih (M.set i x) (i + 1) (by simp; omega)]
    by_cases hq : q = i
    · subst hq
      have h1 : ¬ (q + 1 ≤ q ∧ q < q + 1 + xs.length) := by omega
      have h2 : q ≤ q ∧ q < q + (xs.length + 1) := by omega
      rw [if_neg h1, if_pos h2]
      simp [List.getElem?_set]; omega
    · by_cases hin : i + 1 ≤ q ∧ q < i + 1 + xs.length
      · have h2 : i ≤ q ∧ q < i + (xs.length + 1) := by omega
        rw [if_pos hin, if_pos h2]
        have : q - i = (q - (i + 1)) + 1 := by omega
        rw [this]; rfl
      · have h2 : ¬ (i ≤ q ∧ q < i + (xs.length + 1)) := by omega
        rw [if_neg hin, if_neg h2, List.getElem?_set]
        simp [Ne.symm hq]

theorem setRows_full (M rows : List (List (Option Nat))) (h : rows.length = M.length) : setRows M 0 rows = rows := by
  apply List.ext_getElem?
  intro q
  rw [setRows_getElem M 0 rows q (by omega)]
  by_cases hq : q < rows.length
  · simp [hq]
  · simp [hq]; omega

/-- all frames of a single-record table are found in that record -/
theorem retFrameSetMapAux_single (t : Int) (n : Nat) (x : Int) (frames : List Nat) (hf : ∀ f ∈ frames, f < n) :
    ∀ pre, retFrameSetMapAux [Item01.mk1 t n x] frames [(t, pre)] = .ok [(t, pre ++ frames)] := by
  induction frames with
  | nil => intro pre; simp [retFrameSetMapAux]
  | cons f fs ih =>
    intro pre
    have hfn := hf f (List.mem_cons_self ..)
    have hl : rle01Tell [Item01.mk1 t n x] f = .ok (t, f) := by
      rw [rle01Tell_locate]
      simp [expand, mk1_expand, locate, hfn]
    simp only [retFrameSetMapAux, hl, mapAppend, if_true]
    rw [ih (fun f' h => hf f' (List.mem_cons_of_mem _ h))]
    simp

end TD.C06
