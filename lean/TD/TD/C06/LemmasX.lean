import TD.C06.LemmasPlan

/-!
C06 — the EXTRAPOLATE events of one record (`implied_x_events_partial`).
-/
namespace TD.C06

def NoExt (l : List Ev) : Prop := ∀ e ∈ l, e.ty ≠ .extrap

theorem NoExt.append {a b : List Ev} (ha : NoExt a) (hb : NoExt b) : NoExt (a ++ b) := by
  intro e he; rcases List.mem_append.1 he with h | h
  · exact ha e h
  · exact hb e h

theorem frameEvLoop_noExt (p : Plan) (cs : List Nat) :
    ∀ chStart stopP1 siz acc, NoExt acc → NoExt (frameEvLoop p cs chStart stopP1 siz acc).1 := by
  induction cs with
  | nil => intro _ _ _ acc h; simpa [frameEvLoop] using h
  | cons c cs ih =>
    intro chStart stopP1 siz acc h
    simp only [frameEvLoop]
    split
    · exact ih _ _ _ _ h
    · apply ih
      apply NoExt.append
      · split
        · exact NoExt.append h (by intro e he; simp at he; subst he; simp)
        · exact h
      · intro e he; simp at he; subst he; simp

theorem retFrameEvents_noExt (p : Plan) (chans : List Nat) :
    (∀ e ∈ (retFrameEvents p chans).1, e.ty ≠ .extrap) ∧ NoExt (retFrameEvents p chans).2.1 ∧
    (∀ e ∈ (retFrameEvents p chans).2.2, e.ty ≠ .extrap) := by
  unfold retFrameEvents
  cases chans with
  | nil => simp [NoExt]
  | cons c0 rest =>
    simp only
    have hl := frameEvLoop_noExt p (c0 :: rest) c0 c0 0 [] (by intro e he; simp at he)
    cases hr : frameEvLoop p (c0 :: rest) c0 c0 0 [] with
    | mk acc r2 =>
      obtain ⟨cS, sP, sz⟩ := r2
      rw [hr] at hl
      simp only at hl ⊢
      refine ⟨?_, ?_, ?_⟩
      · intro e he; split at he <;> simp at he; subst he; simp
      · split
        · exact NoExt.append hl (by intro e he; simp at he; subst he; simp)
        · exact hl
      · intro e he; split at he <;> simp at he; subst he; simp

theorem merged_noExt (p : Plan) (pre post : Option Ev) (c : Nat) : ∀ e ∈ mergedPostFramePre p pre post c, e.ty ≠ .extrap := by
  intro e he
  unfold mergedPostFramePre at he
  cases pre <;> cases post <;> simp only at he
  · split at he <;> simp at he <;> (obtain ⟨_, rfl⟩ := he; simp)
  all_goals (simp at he; subst he; simp)

theorem evAt_noExt (o : Option Ev) (g : Nat) (h : ∀ e ∈ o, e.ty ≠ .extrap) : NoExt (evAt o g) := by
  intro e he
  cases o with
  | none => simp [evAt] at he
  | some x => simp [evAt] at he; subst he; exact h x rfl

theorem emitFrame_noExt (f : Nat) (es : List Ev) (pend : Option Nat) (h : NoExt es) : NoExt (emitFrame f es pend).1 := by
  induction es generalizing pend with
  | nil => simp [emitFrame, NoExt]
  | cons e es ih =>
    have he := h e (List.mem_cons_self ..)
    have hes : NoExt es := fun x hx => h x (List.mem_cons_of_mem _ hx)
    cases pend with
    | none =>
      simp only [emitFrame]
      intro x hx
      rcases List.mem_cons.1 hx with rfl | hx
      · exact he
      · exact ih none hes x hx
    | some isz =>
      simp only [emitFrame]
      intro x hx
      rcases List.mem_cons.1 hx with rfl | hx
      · exact he
      · exact ih none hes x hx


/-- the extrapolations `(frames, frame number)` of an event list, in order -/
def exts : List Ev → List (Nat × Option Nat)
  | [] => []
  | e :: es => if e.ty = .extrap then (e.siz, e.fr) :: exts es else exts es

theorem exts_append (a b : List Ev) : exts (a ++ b) = exts a ++ exts b := by
  induction a with
  | nil => rfl
  | cons e es ih => simp only [List.cons_append, exts]; split <;> simp [ih]

theorem exts_noExt (l : List Ev) (h : NoExt l) : exts l = [] := by
  induction l with
  | nil => rfl
  | cons e es ih =>
    have := h e (List.mem_cons_self ..)
    simp only [exts, this, if_false]
    exact ih (fun x hx => h x (List.mem_cons_of_mem _ hx))

/-- extrapolations of the frame loop: one of `step` frames for every frame after the first -/
theorem frameLoop_exts (p : Plan) (fevts : List Ev) (post inter : Option Ev) (stop step : Nat) (hstep : 0 < step)
    (hf : NoExt fevts) (hp : ∀ e ∈ post, e.ty ≠ .extrap) (hi : ∀ e ∈ inter, e.ty ≠ .extrap) :
    ∀ fuel f pend, f < stop → stop - f ≤ fuel →
      exts (frameLoop p fevts post inter stop step fuel f pend)
        = if p.indr > 0 then (rangeList (f + step) stop step).map (fun g => (step, some g)) else [] := by
  intro fuel
  induction fuel with
  | zero => intro f pend hf' hfu; omega
  | succ fuel ih =>
    intro f pend hlt hfu
    simp only [frameLoop, hlt, if_true]
    cases hem : emitFrame f fevts pend with
    | mk evs pend' =>
      have h1 : NoExt evs := by have := emitFrame_noExt f fevts pend hf; rwa [hem] at this
      simp only
      by_cases hlast : f + step ≥ stop
      · simp only [hlast, if_true, exts_append, exts_noExt _ h1, exts_noExt _ (evAt_noExt _ _ hp), List.append_nil]
        rw [rangeList_nil _ _ _ hlast]; simp
      · simp only [hlast, if_false, exts_append, exts_noExt _ h1, exts_noExt _ (evAt_noExt _ _ hi), List.nil_append]
        rw [ih (f + step) pend' (by omega) (by omega), rangeList_cons (f + step) stop step (by omega) hstep]
        by_cases hi0 : p.indr > 0
        · simp [hi0, exts]
        · simp [hi0, exts]

end TD.C06
