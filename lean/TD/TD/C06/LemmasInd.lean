import TD.C06.LemmasSel
import TD.C06.LemmasX

/-!
C06 — indirect (implied) X: executing the events of the records with an indirect word, tracking the implied X vector.
-/
namespace TD.C06

/-- what is needed of the DFSR for an indirect X axis: recording mode 1, an X word of `w > 0` bytes -/
structure IndCtx (d : Dfsr) (p : Plan) (w : Nat) : Prop where
  hrm : d.recMode = 1
  hw : lisSize d.depthRc = some w
  hwpos : 0 < w
  hp : p = ⟨w, d.chans.map Chan.size⟩
  hok : d.sizesOk

/-- the indirect X word alone -/
theorem setFrameBytes_indr (d : Dfsr) (p : Plan) (w : Nat) (hi : IndCtx d p w) (fs : FrameSet) (by_ : List Nat) (fr : Nat)
    (x : Int) (hlen : by_.length = w) (hx : xDecode d.depthRc (beWord by_) = .ok x) (hfr : fr < fs.xvec.length) :
    FrameSet.setFrameBytes d fs by_ fr none none = .ok { fs with xvec := fs.xvec.set fr (some x) } := by
  unfold FrameSet.setFrameBytes
  have h1 : ¬ d.recMode ≠ 1 := by simp [hi.hrm]
  have h2 : ¬ by_.length < w := by omega
  have h3 : by_.take w = by_ := by rw [← hlen, List.take_length]
  simp only [h1, if_false, hi.hw, h2, h3, hx, hfr, if_true, hlen, ne_eq, not_true_eq_false, Nat.lt_irrefl]

/-- the indirect X word merged with the first run of channels -/
theorem setFrameBytes_merged (d : Dfsr) (p : Plan) (w : Nat) (hi : IndCtx d p w) (fs fs2 : FrameSet) (by_ : List Nat)
    (fr ct : Nat) (x : Int) (hlen : w ≤ by_.length) (hx : xDecode d.depthRc (beWord (by_.take w)) = .ok x)
    (hfr : fr < fs.xvec.length)
    (h2 : FrameSet.setFrameBytes d { fs with xvec := fs.xvec.set fr (some x) } (by_.drop w) fr (some 0) (some ct) = .ok fs2) :
    FrameSet.setFrameBytes d fs by_ fr none (some ct) = .ok fs2 := by
  unfold FrameSet.setFrameBytes at h2 ⊢
  have h1 : ¬ d.recMode ≠ 1 := by simp [hi.hrm]
  have hl : ¬ by_.length < w := by omega
  simp only [h1, if_false, hi.hw, hl, hx, hfr, if_true]
  simp only [List.drop_zero, Nat.zero_add, List.length_drop] at h2
  split at h2
  · cases h2
  · rename_i ci hci
    split at h2
    · cases h2
    · rename_i ws used hcw
      by_cases hu : used = by_.length - w
      · have : ¬ (w + used ≠ by_.length) := by omega
        simp only [hu, ne_eq, not_true_eq_false, if_false] at h2
        simp only [this, if_false]
        exact h2
      · simp only [hu, ne_eq, not_false_eq_true, if_true] at h2
        cases h2


/-! ### the interpreter does not look at the operation log -/

/-- same state up to the operation log -/
def SameRun (r1 r2 : Run) : Prop := r1.cur = r2.cur ∧ r1.ofs = r2.ofs ∧ r1.fs = r2.fs

theorem SameRun.refl (r : Run) : SameRun r r := ⟨rfl, rfl, rfl⟩

theorem execEv_same (d : Dfsr) (st : Store) (e : Ev) (r1 r2 r1' : Run) (hs : SameRun r1 r2)
    (h : execEv d st r1 e = .ok r1') : ∃ r2', execEv d st r2 e = .ok r2' ∧ SameRun r1' r2' := by
  obtain ⟨c1, o1, f1, ops1⟩ := r1
  obtain ⟨c2, o2, f2, ops2⟩ := r2
  obtain ⟨hc, ho, hf⟩ := hs
  simp only at hc ho hf
  subst hc ho hf
  unfold execEv Run.read at h ⊢
  cases hty : e.ty <;> simp only [hty] at h ⊢
  · -- read
    cases c1 with
    | none => simp at h
    | some tb =>
      obtain ⟨t, bs⟩ := tb
      by_cases hlen : o1 + e.siz > bs.length
      · simp [hlen] at h
      · simp only [hlen, if_false] at h ⊢
        cases hfr : e.fr with
        | none => simp [hfr] at h
        | some fr =>
          simp only [hfr] at h ⊢
          cases hsb : FrameSet.setFrameBytes d f1 (List.take e.siz (List.drop o1 bs)) fr e.cf e.ct with
          | error err => simp [hsb] at h
          | ok fs' => simp only [hsb] at h ⊢; cases h; exact ⟨_, rfl, rfl, rfl, rfl⟩
  · -- skip
    cases c1 with
    | none => simp at h
    | some tb => cases h; exact ⟨_, rfl, rfl, rfl, rfl⟩
  · -- extrap
    cases hfr : e.fr with
    | none => simp [hfr] at h
    | some frInt =>
      simp only [hfr] at h ⊢
      cases hx : f1.xvec[if frInt = 0 then 0 else frInt - 1]? with
      | none => simp [hx] at h
      | some ox =>
        cases ox with
        | none => cases hsp : f1.frameSpacing <;> simp [hx, hsp] at h
        | some x =>
          cases hsp : f1.frameSpacing with
          | none => simp [hx, hsp] at h
          | some sp =>
            simp only [hx, hsp] at h ⊢
            by_cases hl : frInt < f1.xvec.length
            · simp only [hl, if_true] at h ⊢; cases h; exact ⟨_, rfl, rfl, rfl, rfl⟩
            · simp [hl] at h
  · -- seekLr
    cases hfind : Store.find st e.siz with
    | none => simp [hfind] at h
    | some bs =>
      simp only [hfind] at h ⊢
      by_cases hlen : 0 + 2 > bs.length
      · simp [hlen] at h
      · simp only [hlen, if_false] at h ⊢
        by_cases hd : (List.take 2 (List.drop 0 bs)).head? ≠ some d.dataType
        · rw [if_pos hd] at h; cases h
        · rw [if_neg hd] at h ⊢; cases h; exact ⟨_, rfl, rfl, rfl, rfl⟩

theorem execEvs_same (d : Dfsr) (st : Store) (evs : List Ev) :
    ∀ (r1 r2 r1' : Run), SameRun r1 r2 → execEvs d st evs r1 = .ok r1' →
      ∃ r2', execEvs d st evs r2 = .ok r2' ∧ SameRun r1' r2' := by
  induction evs with
  | nil => intro r1 r2 r1' hs h; simp only [execEvs] at h ⊢; cases h; exact ⟨r2, rfl, hs⟩
  | cons e es ih =>
    intro r1 r2 r1' hs h
    simp only [execEvs] at h ⊢
    split at h
    · cases h
    · rename_i ra hra
      obtain ⟨rb, hrb, hsb⟩ := execEv_same d st e r1 r2 ra hs hra
      rw [hrb]
      exact ih ra rb r1' hsb h

end TD.C06
