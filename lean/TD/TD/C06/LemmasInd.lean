import TD.C06.LemmasSel
import TD.C06.LemmasX

/-!
C06 — indirect (implied) X: executing the events of the records with an indirect word, tracking the implied X vector.
-/
namespace TD.C06

/-- what is needed of the DFSR for an indirect X axis: recording mode 1, an X word of `w > 0` bytes -/
structure IndCtx (d : Dfsr) (p : Plan) (w : Nat) : Prop where
  hrm : d.recMode = 1
  hw : lisSize d.depthRc = some w
  hwpos : 0 < w
  hp : p = ⟨w, d.chans.map Chan.size⟩
  hok : d.sizesOk

/-- the indirect X word alone -/
theorem setFrameBytes_indr (d : Dfsr) (p : Plan) (w : Nat) (hi : IndCtx d p w) (fs : FrameSet) (by_ : List Nat) (fr : Nat)
    (x : Int) (hlen : by_.length = w) (hx : xDecode d.depthRc (beWord by_) = .ok x) (hfr : fr < fs.xvec.length) :
    FrameSet.setFrameBytes d fs by_ fr none none = .ok { fs with xvec := fs.xvec.set fr (some x) } := by
  unfold FrameSet.setFrameBytes
  have h1 : ¬ d.recMode ≠ 1 := by simp [hi.hrm]
  have h2 : ¬ by_.length < w := by omega
  have h3 : by_.take w = by_ := by rw [← hlen, List.take_length]
  simp only [h1, if_false, hi.hw, h2, h3, hx, hfr, if_true, hlen, ne_eq, not_true_eq_false, Nat.lt_irrefl]

/-- the indirect X word merged with the first run of channels -/
theorem setFrameBytes_merged (d : Dfsr) (p : Plan) (w : Nat) (hi : IndCtx d p w) (fs fs2 : FrameSet) (by_ : List Nat)
    (fr ct : Nat) (x : Int) (hlen : w ≤ by_.length) (hx : xDecode d.depthRc (beWord (by_.take w)) = .ok x)
    (hfr : fr < fs.xvec.length)
    (h2 : FrameSet.setFrameBytes d { fs with xvec := fs.xvec.set fr (some x) } (by_.drop w) fr (some 0) (some ct) = .ok fs2) :
    FrameSet.setFrameBytes d fs by_ fr none (some ct) = .ok fs2 := by
  unfold FrameSet.setFrameBytes at h2 ⊢
  have h1 : ¬ d.recMode ≠ 1 := by simp [hi.hrm]
  have hl : ¬ by_.length < w := by omega
  simp only [h1, if_false, hi.hw, hl, hx, hfr, if_true]
  simp only [List.drop_zero, Nat.zero_add, List.length_drop] at h2
  split at h2
  · cases h2
  · rename_i ci hci
    split at h2
    · cases h2
    · rename_i ws used hcw
      by_cases hu : used = by_.length - w
      · have : ¬ (w + used ≠ by_.length) := by omega
        simp only [hu, ne_eq, not_true_eq_false, if_false] at h2
        simp only [this, if_false]
        exact h2
      · simp only [hu, ne_eq, not_false_eq_true, if_true] at h2
        cases h2


/-! ### the interpreter does not look at the operation log -/

/-- same state up to the operation log -/
def SameRun (r1 r2 : Run) : Prop := r1.cur = r2.cur ∧ r1.ofs = r2.ofs ∧ r1.fs = r2.fs

theorem SameRun.refl (r : Run) : SameRun r r := ⟨rfl, rfl, rfl⟩

theorem execEv_same (d : Dfsr) (st : Store) (e : Ev) (r1 r2 r1' : Run) (hs : SameRun r1 r2)
    (h : execEv d st r1 e = .ok r1') : ∃ r2', execEv d st r2 e = .ok r2' ∧ SameRun r1' r2' := by
  obtain ⟨c1, o1, f1, ops1⟩ := r1
  obtain ⟨c2, o2, f2, ops2⟩ := r2
  obtain ⟨hc, ho, hf⟩ := hs
  simp only at hc ho hf
  subst hc ho hf
  unfold execEv Run.read at h ⊢
  cases hty : e.ty <;> simp only [hty] at h ⊢
  · -- read
    cases c1 with
    | none => simp at h
    | some tb =>
      obtain ⟨t, bs⟩ := tb
      by_cases hlen : o1 + e.siz > bs.length
      · simp [hlen] at h
      · simp only [hlen, if_false] at h ⊢
        cases hfr : e.fr with
        | none => simp [hfr] at h
        | some fr =>
          simp only [hfr] at h ⊢
          cases hsb : FrameSet.setFrameBytes d f1 (List.take e.siz (List.drop o1 bs)) fr e.cf e.ct with
          | error err => simp [hsb] at h
          | ok fs' => simp only [hsb] at h ⊢; cases h; exact ⟨_, rfl, rfl, rfl, rfl⟩
  · -- skip
    cases c1 with
    | none => simp at h
    | some tb => cases h; exact ⟨_, rfl, rfl, rfl, rfl⟩
  · -- extrap
    cases hfr : e.fr with
    | none => simp [hfr] at h
    | some frInt =>
      simp only [hfr] at h ⊢
      cases hx : f1.xvec[if frInt = 0 then 0 else frInt - 1]? with
      | none => simp [hx] at h
      | some ox =>
        cases ox with
        | none => cases hsp : f1.frameSpacing <;> simp [hx, hsp] at h
        | some x =>
          cases hsp : f1.frameSpacing with
          | none => simp [hx, hsp] at h
          | some sp =>
            simp only [hx, hsp] at h ⊢
            by_cases hl : frInt < f1.xvec.length
            · simp only [hl, if_true] at h ⊢; cases h; exact ⟨_, rfl, rfl, rfl, rfl⟩
            · simp [hl] at h
  · -- seekLr
    cases hfind : Store.find st e.siz with
    | none => simp [hfind] at h
    | some bs =>
      simp only [hfind] at h ⊢
      by_cases hlen : 0 + 2 > bs.length
      · simp [hlen] at h
      · simp only [hlen, if_false] at h ⊢
        by_cases hd : (List.take 2 (List.drop 0 bs)).head? ≠ some d.dataType
        · rw [if_pos hd] at h; cases h
        · rw [if_neg hd] at h ⊢; cases h; exact ⟨_, rfl, rfl, rfl, rfl⟩

theorem execEvs_same (d : Dfsr) (st : Store) (evs : List Ev) :
    ∀ (r1 r2 r1' : Run), SameRun r1 r2 → execEvs d st evs r1 = .ok r1' →
      ∃ r2', execEvs d st evs r2 = .ok r2' ∧ SameRun r1' r2' := by
  induction evs with
  | nil => intro r1 r2 r1' hs h; simp only [execEvs] at h ⊢; cases h; exact ⟨r2, rfl, hs⟩
  | cons e es ih =>
    intro r1 r2 r1' hs h
    simp only [execEvs] at h ⊢
    split at h
    · cases h
    · rename_i ra hra
      obtain ⟨rb, hrb, hsb⟩ := execEv_same d st e r1 r2 ra hs hra
      rw [hrb]
      exact ih ra rb r1' hsb h


/-! ### single X events -/

theorem exec_indr (d : Dfsr) (p : Plan) (w : Nat) (hi : IndCtx d p w) (st : Store) (r : Run) (t : Nat) (bs : List Nat)
    (fr : Nat) (x : Int) (hcur : r.cur = some (t, bs)) (hlen : r.ofs + w ≤ bs.length)
    (hx : xDecode d.depthRc (beWord ((bs.drop r.ofs).take w)) = .ok x) (hfr : fr < r.fs.xvec.length) :
    ∃ ops, execEv d st r ⟨.read, w, some fr, none, none⟩
      = .ok ⟨r.cur, r.ofs + w, { r.fs with xvec := r.fs.xvec.set fr (some x) }, ops⟩ := by
  have hl : ((bs.drop r.ofs).take w).length = w := by rw [List.length_take, List.length_drop]; omega
  exact exec_read d st r t bs w fr none none _ hcur hlen (setFrameBytes_indr d p w hi r.fs _ fr x hl hx hfr)

theorem exec_extrap (d : Dfsr) (st : Store) (r : Run) (n fr : Nat) (cf ct : Option Nat) (x sp : Int)
    (hx : r.fs.xvec[if fr = 0 then 0 else fr - 1]? = some (some x)) (hsp : r.fs.frameSpacing = some sp)
    (hfr : fr < r.fs.xvec.length) :
    execEv d st r ⟨.extrap, n, some fr, cf, ct⟩
      = .ok { r with fs := { r.fs with xvec := r.fs.xvec.set fr (some (x + (n : Int) * sp)) } } := by
  unfold execEv
  simp only [hx, hsp, hfr, if_true]

/-- the implied X values following `x`: `x + st·sp, x + 2·st·sp, …` (`m` of them) -/
def xsFrom (x : Int) (st : Nat) (sp : Int) : Nat → List Int
  | 0 => []
  | m + 1 => (x + (st : Int) * sp) :: xsFrom (x + (st : Int) * sp) st sp m

/-- write consecutive X values from index `i` on -/
def setVals (v : List (Option Int)) : Nat → List Int → List (Option Int)
  | _, [] => v
  | i, x :: xs => setVals (v.set i (some x)) (i + 1) xs

theorem setVals_length (v : List (Option Int)) (i : Nat) (xs : List Int) : (setVals v i xs).length = v.length := by
  induction xs generalizing v i with
  | nil => rfl
  | cons x xs ih => simp [setVals, ih]

theorem xsFrom_length (x : Int) (st : Nat) (sp : Int) (m : Nat) : (xsFrom x st sp m).length = m := by
  induction m generalizing x with
  | zero => rfl
  | succ m ih => simp [xsFrom, ih]


/-- **Executing the renumbered frame loop of one record with an indirect word** (any channel subset): every frame's
events succeed and leave X untouched; the EXTRAPOLATE event behind each inter-frame move sets the X of the next loaded
row to the previous one plus `step·spacing`. -/
theorem frameLoop_exec_ind (d : Dfsr) (st : Store) (t : Nat) (bs : List Nat) (n stop step : Nat) (buf : List Nat)
    (frInt : Nat) (p : Plan) (w : Nat) (sp : Int) (c0 : Nat) (rest : List Nat) (pre post : Option Ev) (fevts : List Ev)
    (hi : IndCtx d p w) (hstep : 0 < step)
    (hltc : ∀ c ∈ c0 :: rest, c < d.chans.length) (hsorted : (c0 :: rest).Pairwise (· < ·))
    (hbs : bs.length = 2 + w + n * p.frameSize) (hstop : stop ≤ n)
    (hret : retFrameEvents p (c0 :: rest) = (pre, fevts, post))
    (hinc : ∀ (a b x y : Nat), a < b → buf[a]? = some x → buf[b]? = some y → x < y) :
    ∀ (fuel g j kk : Nat) (r : Run) (xg : Int), g < stop → stop - g ≤ fuel →
      (∀ i, buf[j + i]? = (rangeList g stop step)[i]?) → (kk = j ∨ kk + 1 = j) →
      r.cur = some (t, bs) → r.ofs = 2 + w + g * p.frameSize + p.skipToChStart c0 → r.fs.chIdx = c0 :: rest →
      (∀ row ∈ r.fs.frames, row.length = sumN ((selChans d (c0 :: rest)).map Chan.numValues)) →
      frInt + j + rangeLen g stop step ≤ r.fs.frames.length → r.fs.xvec.length = r.fs.frames.length →
      r.fs.frameSpacing = some sp → r.fs.xvec[frInt + j]? = some (some xg) →
      ∃ r', execEvs d st (renumber buf frInt
          (frameLoop p fevts post (mergedPostFramePre p pre post step) stop step fuel g none) kk) r = .ok r' ∧
        r'.cur = r.cur ∧ r'.fs.chIdx = r.fs.chIdx ∧ r'.fs.frameSpacing = r.fs.frameSpacing ∧
        r'.fs.frames.length = r.fs.frames.length ∧
        (∀ row ∈ r'.fs.frames, row.length = sumN ((selChans d (c0 :: rest)).map Chan.numValues)) ∧
        r'.fs.xvec = setVals r.fs.xvec (frInt + j + 1) (xsFrom xg step sp (rangeLen g stop step - 1)) := by
  have hp : p.sizes = d.chans.map Chan.size := by rw [hi.hp]
  have hpi : p.indr = w := by rw [hi.hp]
  have hok := hi.hok
  have hwpos := hi.hwpos
  obtain ⟨_, _, hhead, hpre, hpost⟩ := retFrameEvents_spec p c0 rest hsorted 0 pre fevts post hret
  have hfne : fevts ≠ [] := by intro h; rw [h] at hhead; simp at hhead
  have hL := lastP1_pos rest c0
  have hfs : p.skipToChStart (lastP1 rest (c0 + 1)) + p.skipToFrameEnd (lastP1 rest (c0 + 1) - 1) = p.frameSize := by
    have := skip_end p (lastP1 rest (c0 + 1) - 1)
    rwa [Nat.sub_add_cancel hL] at this
  have hpostS : sizIs post (p.skipToFrameEnd (lastP1 rest (c0 + 1) - 1)) := by
    unfold sizIs; unfold skipIs at hpost
    cases post with
    | none => exact hpost
    | some e => exact hpost.2
  have hpreS : sizIs pre (p.skipToChStart c0) := by
    unfold sizIs; unfold preIs at hpre
    cases pre with
    | none => simp only at hpre; subst hpre; exact skip_zero p
    | some e => exact hpre.2.1
  have hmf := merged_form p pre post step _ _ hpreS hpostS
  intro fuel
  induction fuel with
  | zero => intro g j kk r xg hg hfuel; omega
  | succ fuel ih =>
    intro g j kk r xg hg hfuel hb hkk hcur hofs hch hrows hN hxl hsp hxg
    have hbj : buf[j]? = some g := by have := hb 0; rwa [rangeList_getElem_zero g stop step hg hstep, Nat.add_zero] at this
    have hlenN := rangeLen_lt g stop step hg hstep
    have hltN : frInt + j < r.fs.frames.length := by omega
    have hg1 : (g + 1) * p.frameSize ≤ n * p.frameSize := Nat.mul_le_mul_right _ (by omega)
    have hg1' : (g + 1) * p.frameSize = g * p.frameSize + p.frameSize := by ring
    -- the events of frame g
    have hctx : FrameCtx d p r t bs (2 + w + g * p.frameSize) (frInt + j) (c0 :: rest) r.fs.frames[frInt + j] :=
      ⟨hp, hok, hcur, by omega, hch, hltc, List.getElem?_eq_getElem hltN, hrows _ (List.getElem_mem hltN)⟩
    obtain ⟨r1, hex1, hcur1, hofs1, hfs1⟩ := frameEvents_exec d p st r t bs (2 + w + g * p.frameSize) (frInt + j) c0 rest _ hctx
      hsorted hofs pre post fevts hret
    have hblock := renumber_block buf frInt g j hbj hinc (fevts.map (fun e => { e with fr := some g })) kk hkk
      (by simpa using hfne) (by intro e he; obtain ⟨x, _, rfl⟩ := List.mem_map.1 he; rfl)
    rw [withFr_map] at hblock
    have hrows1 : ∀ row ∈ r1.fs.frames, row.length = sumN ((selChans d (c0 :: rest)).map Chan.numValues) := by
      intro row' hm
      rw [hfs1] at hm
      rcases List.mem_or_eq_of_mem_set hm with h | h
      · exact hrows _ h
      · rw [h]; simp [rowSel_length]
    have hlen1 : r1.fs.frames.length = r.fs.frames.length := by rw [hfs1]; simp
    have hch1 : r1.fs.chIdx = c0 :: rest := by rw [hfs1]; exact hch
    have hx1 : r1.fs.xvec = r.fs.xvec := by rw [hfs1]
    have hsp1 : r1.fs.frameSpacing = r.fs.frameSpacing := by rw [hfs1]
    have hindr : p.indr > 0 := by omega
    simp only [frameLoop, hg, if_true, hindr]
    cases hem : emitFrame g fevts none with
    | mk evs pend' =>
      have hevs : evs = fevts.map (fun e => { e with fr := some g }) := by
        have := emitFrame_none_eq g fevts; rw [hem] at this; exact this
      subst hevs
      have hpn : pend' = none := by have := (emitFrame_none g fevts 0).1; rw [hem] at this; exact this
      subst hpn
      simp only
      by_cases hlast : g + step ≥ stop
      · simp only [hlast, if_true]
        have hrl0 : rangeLen g stop step - 1 = 0 := by
          have : rangeLen (g + step) stop step = 0 := by simp [rangeLen]; omega
          omega
        rw [renumber_append, hblock.1, hblock.2, execEvs_append, hex1, hrl0]
        simp only [xsFrom, setVals]
        cases post with
        | none => exact ⟨r1, by simp [evAt, renumber, execEvs], hcur1, by rw [hch1, hch], hsp1, hlen1, hrows1, hx1⟩
        | some e =>
          unfold skipIs at hpost
          simp only at hpost
          obtain ⟨ops, hsk⟩ := exec_skip' d st r1 t bs e.siz (some (frInt + j)) e.cf e.ct (by rw [hcur1]; exact hcur)
            (by rw [hofs1, hpost.2]; omega)
          have hst : renumStep buf j { e with fr := some (g + step - step) } = j := by
            have := (renumber_block buf frInt g j hbj hinc [{ e with fr := some g }] j (Or.inl rfl) (by simp) (by simp)).2
            simpa [renumK, Nat.add_sub_cancel] using this
          refine ⟨⟨r1.cur, r1.ofs + e.siz, r1.fs, ops⟩, ?_, hcur1, by rw [hch1, hch], hsp1, hlen1, hrows1, hx1⟩
          simp only [evAt, renumber_cons, hst, renumber, execEvs]
          have : ({ ty := e.ty, siz := e.siz, fr := some (frInt + j), cf := e.cf, ct := e.ct } : Ev)
              = ⟨.skip, e.siz, some (frInt + j), e.cf, e.ct⟩ := by rw [hpost.1]
          rw [this, hsk]
      · simp only [hlast, if_false]
        have hgs : g + step < stop := by omega
        have hmul : (g + step) * p.frameSize = g * p.frameSize + p.frameSize + (step - 1) * p.frameSize := by
          obtain ⟨s', rfl⟩ : ∃ s', step = s' + 1 := ⟨step - 1, by omega⟩
          simp only [Nat.add_sub_cancel]; ring
        have hle2 := skip_le_frame p c0
        have hb1 : buf[j + 1]? = some (g + step) := by
          have := hb 1
          rwa [rangeList_getElem_succ g stop step 0 hg hstep, rangeList_getElem_zero _ _ _ hgs hstep] at this
        have hb' : ∀ i, buf[j + 1 + i]? = (rangeList (g + step) stop step)[i]? := by
          intro i
          have := hb (i + 1)
          rw [rangeList_getElem_succ g stop step i hg hstep] at this
          rw [← this]; congr 1; omega
        have hlen2 := rangeLen_lt (g + step) stop step hgs hstep
        have hN1 : frInt + (j + 1) + rangeLen (g + step) stop step ≤ r1.fs.frames.length := by rw [hlen1]; omega
        have hgs2 : (g + step + 1) * p.frameSize ≤ n * p.frameSize := Nat.mul_le_mul_right _ (by omega)
        have hgs2' : (g + step + 1) * p.frameSize = (g + step) * p.frameSize + p.frameSize := by ring
        have hrlm : rangeLen g stop step - 1 = (rangeLen (g + step) stop step - 1) + 1 := by omega
        -- the move to the next frame and its extrapolation: a block of events labelled g + step
        have hmove : ∃ mv, evAt (mergedPostFramePre p pre post step) (g + step) ++ [(⟨.extrap, step, some (g + step), none, none⟩ : Ev)] = mv ∧
            mv ≠ [] ∧ (∀ e ∈ mv, e.fr = some (g + step)) ∧
            ∃ r2, execEvs d st (withFr (frInt + (j + 1)) mv) r1 = .ok r2 ∧ r2.cur = r1.cur ∧
              r2.ofs = 2 + w + (g + step) * p.frameSize + p.skipToChStart c0 ∧
              r2.fs = { r1.fs with xvec := r1.fs.xvec.set (frInt + (j + 1)) (some (xg + (step : Int) * sp)) } := by
          refine ⟨_, rfl, by simp, ?_, ?_⟩
          · intro e he
            rcases List.mem_append.1 he with h | h
            · cases hm : mergedPostFramePre p pre post step with
              | none => rw [hm] at h; simp [evAt] at h
              | some x => rw [hm] at h; simp [evAt] at h; subst h; rfl
            · simp at h; subst h; rfl
          · have hxsrc : r1.fs.xvec[if frInt + (j + 1) = 0 then 0 else frInt + (j + 1) - 1]? = some (some xg) := by
              have : ¬ frInt + (j + 1) = 0 := by omega
              simp only [this, if_false]
              rw [hx1, show frInt + (j + 1) - 1 = frInt + j by omega]; exact hxg
            rcases hmf with ⟨hnone, hz⟩ | ⟨cf, ct, hsome⟩
            · rw [hnone]
              simp only [evAt, List.nil_append, withFr, List.map_cons, List.map_nil, execEvs]
              rw [exec_extrap d st r1 step (frInt + (j + 1)) none none xg sp hxsrc (by rw [hsp1]; exact hsp) (by rw [hx1, hxl]; omega)]
              exact ⟨_, rfl, rfl, by simp only; rw [hofs1]; omega, rfl⟩
            · rw [hsome]
              obtain ⟨ops, hsk⟩ := exec_skip' d st r1 t bs ((step - 1) * p.frameSize + p.skipToFrameEnd (lastP1 rest (c0 + 1) - 1) + p.skipToChStart c0)
                (some (frInt + (j + 1))) cf ct (by rw [hcur1]; exact hcur) (by rw [hofs1]; omega)
              have hext := exec_extrap d st ⟨r1.cur, r1.ofs + ((step - 1) * p.frameSize + p.skipToFrameEnd (lastP1 rest (c0 + 1) - 1) + p.skipToChStart c0), r1.fs, ops⟩
                step (frInt + (j + 1)) none none xg sp hxsrc (by rw [hsp1]; exact hsp) (by rw [hx1, hxl]; omega)
              simp only [evAt, List.cons_append, List.nil_append, withFr, List.map_cons, List.map_nil, execEvs, hsk, hext]
              exact ⟨_, rfl, rfl, by simp only; rw [hofs1]; omega, rfl⟩
        obtain ⟨mv, hmv, hmvne, hmvfr, r2, hex2, hcur2, hofs2, hfs2⟩ := hmove
        have hblock2 := renumber_block buf frInt (g + step) (j + 1) hb1 hinc mv j (Or.inr rfl) hmvne hmvfr
        have hxl2 : r2.fs.xvec.length = r2.fs.frames.length := by rw [hfs2]; simp only [List.length_set]; rw [hx1, hxl, hlen1]
        obtain ⟨r', hex, hc', hch', hsp', hlen', hrows', hxv'⟩ := ih (g + step) (j + 1) (j + 1) r2 (xg + (step : Int) * sp)
          hgs (by omega) hb' (Or.inl rfl) (by rw [hcur2, hcur1]; exact hcur) hofs2
          (by rw [hfs2]; exact hch1) (by rw [hfs2]; exact hrows1) (by rw [hfs2]; exact hN1) hxl2
          (by rw [hfs2]; simp only; rw [hsp1]; exact hsp)
          (by rw [hfs2]; simp only; rw [List.getElem?_set]; simp; rw [hx1, hxl]; omega)
        refine ⟨r', ?_, by rw [hc', hcur2, hcur1], by rw [hch', hfs2]; simp only; rw [hch1, hch], ?_, ?_, hrows', ?_⟩
        · rw [List.append_assoc, List.append_assoc, renumber_append, hblock.1, hblock.2]
          simp only [execEvs_append, hex1]
          rw [← List.append_assoc, hmv, renumber_append, hblock2.1, hblock2.2]
          simp only [execEvs_append, hex2]
          exact hex
        · rw [hsp', hfs2]; simp only; exact hsp1
        · rw [hlen', hfs2]; simp only; exact hlen1
        · rw [hxv', hfs2, hrlm]
          simp only [xsFrom, setVals, hx1]
          rw [show frInt + (j + 1) + 1 = frInt + j + 1 + 1 by omega, show frInt + (j + 1) = frInt + j + 1 by omega]


/-! ### the first event of a frame is the read of the run that starts at the first selected channel -/

def IsFirstRead (c0 : Nat) (e : Ev) : Prop := e.ty = .read ∧ e.cf = some c0 ∧ e.ct.isSome

theorem frameEvLoop_first (p : Plan) (cs : List Nat) :
    ∀ (chStart stopP1 siz : Nat) (acc : List Ev) acc' cS sP sz,
    frameEvLoop p cs chStart stopP1 siz acc = (acc', cS, sP, sz) →
    (acc ≠ [] → acc'.head? = acc.head?) ∧
    (acc = [] → stopP1 > chStart →
      ∃ e, (acc' ++ [(⟨.read, sz, none, some cS, some (sP - 1)⟩ : Ev)]).head? = some e ∧ IsFirstRead chStart e) := by
  induction cs with
  | nil =>
    intro chStart stopP1 siz acc acc' cS sP sz h
    simp only [frameEvLoop, Prod.mk.injEq] at h
    obtain ⟨rfl, rfl, rfl, rfl⟩ := h
    exact ⟨fun _ => rfl, fun ha _ => by subst ha; exact ⟨_, rfl, rfl, rfl, rfl⟩⟩
  | cons c cs ih =>
    intro chStart stopP1 siz acc acc' cS sP sz h
    simp only [frameEvLoop] at h
    by_cases heq : c = stopP1
    · simp only [heq, if_true] at h
      obtain ⟨h5, h6⟩ := ih chStart (stopP1 + 1) _ acc acc' cS sP sz h
      exact ⟨h5, fun ha hg => h6 ha (by omega)⟩
    · simp only [heq, if_false] at h
      obtain ⟨h5, _⟩ := ih c (c + 1) _ _ acc' cS sP sz h
      have h5' := h5 (by simp)
      constructor
      · intro hne
        rw [h5']
        cases acc with
        | nil => exact absurd rfl hne
        | cons a as => by_cases hg : stopP1 > chStart <;> simp [hg]
      · intro ha hg
        subst ha
        simp only [hg, if_true, List.nil_append, List.cons_append, List.head?_cons] at h5'
        cases acc' with
        | nil => simp at h5'
        | cons a as =>
          simp only [List.head?_cons, Option.some.injEq] at h5'
          exact ⟨a, by simp, by rw [h5']; exact ⟨rfl, rfl, rfl⟩⟩

theorem retFrameEvents_first (p : Plan) (c0 : Nat) (rest : List Nat) (pre post : Option Ev) (fevts : List Ev)
    (hret : retFrameEvents p (c0 :: rest) = (pre, fevts, post)) :
    ∃ e es, fevts = e :: es ∧ IsFirstRead c0 e := by
  unfold retFrameEvents at hret
  simp only at hret
  have hstep : frameEvLoop p (c0 :: rest) c0 c0 0 [] = frameEvLoop p rest c0 (c0 + 1) (0 + p.chSize c0) [] := by
    simp [frameEvLoop]
  rw [hstep] at hret
  cases hr : frameEvLoop p rest c0 (c0 + 1) (0 + p.chSize c0) [] with
  | mk acc' r2 =>
    obtain ⟨cS, sP, sz⟩ := r2
    rw [hr] at hret
    simp only [Prod.mk.injEq] at hret
    obtain ⟨_, hfev, _⟩ := hret
    have hgtP := frameEvLoop_gt p rest c0 (c0 + 1) _ [] acc' cS sP sz hr (by omega)
    simp only [hgtP, if_true] at hfev
    obtain ⟨e, he, hf⟩ := (frameEvLoop_first p rest c0 (c0 + 1) _ [] acc' cS sP sz hr).2 rfl (by omega)
    rw [hfev] at he
    cases fevts with
    | nil => simp at he
    | cons x xs => simp at he; subst he; exact ⟨_, _, rfl, hf⟩


/-! ### `genEvents` with an indirect word -/

/-- the head of `genEvents` with an indirect word of `p.indr` bytes -/
def headInd (p : Plan) (pre : Option Ev) (a : Nat) : List Ev :=
  match pre with
  | some pr => ([(⟨.read, p.indr, none, none, none⟩ : Ev)] ++ (if a > 0 then [⟨.extrap, a, some a, none, none⟩] else []))
      ++ [⟨pr.ty, a * p.frameSize + pr.siz, some a, pr.cf, pr.ct⟩]
  | none => if a > 0 then [⟨.read, p.indr, none, none, none⟩, ⟨.skip, a * p.frameSize, some a, none, some 0⟩,
      ⟨.extrap, a, some a, none, none⟩] else []

/-- the pending indirect read (merged into the first read) -/
def pendInd (p : Plan) (pre : Option Ev) (a : Nat) : Option Nat :=
  match pre with
  | some _ => none
  | none => if a > 0 then none else some p.indr

theorem genEvents_ind (p : Plan) (cs : List Nat) (a b c : Nat) (pre post : Option Ev) (fevts : List Ev)
    (hpi : p.indr > 0) (hne : cs ≠ []) (hsorted : cs.Pairwise (· < ·)) (hlt : ∀ x ∈ cs, x < p.numChannels)
    (hab : a < b) (hc : 0 < c) (hret : retFrameEvents p cs = (pre, fevts, post)) :
    genEvents p a b c cs = .ok (headInd p pre a ++
      frameLoop p fevts post (mergedPostFramePre p pre post c) b c (b - a) a (pendInd p pre a)) := by
  have hchk : checkChIdx p cs = .ok cs := by
    unfold checkChIdx
    rw [sortDedup_of_sorted _ hsorted]
    simp only
    cases hl : cs.getLast? with
    | none => rfl
    | some x =>
      have := hlt x (List.mem_of_getLast? hl)
      simp [show ¬ x ≥ p.numChannels by omega]
  have hc0 : ¬ c = 0 := by omega
  have hlen : cs.length > 0 := by cases cs with | nil => exact absurd rfl hne | cons x xs => simp
  unfold genEvents
  simp only [hchk, hc0, if_false, hlen, hab, and_self, if_true, hret, hpi]
  unfold headInd pendInd
  cases pre with
  | some pr => simp
  | none =>
    by_cases ha : 0 < a
    · simp [ha]
    · simp [ha]

/-- a merged indirect + channel read behaves like the indirect read followed by the channel read (up to the log) -/
theorem merged_transfer (d : Dfsr) (p : Plan) (w : Nat) (hi : IndCtx d p w) (st : Store) (r r' : Run) (t : Nat)
    (bs : List Nat) (fr siz1 ct1 : Nat) (R : List Ev) (hcur : r.cur = some (t, bs))
    (h : execEvs d st (⟨.read, w, some fr, none, none⟩ :: ⟨.read, siz1, some fr, some 0, some ct1⟩ :: R) r = .ok r') :
    ∃ r'', execEvs d st (⟨.read, w + siz1, some fr, none, some ct1⟩ :: R) r = .ok r'' ∧ SameRun r' r'' := by
  simp only [execEvs] at h
  split at h
  · cases h
  · rename_i ra hra
    split at h
    · cases h
    · rename_i rb hrb
      -- decompose the two reads
      unfold execEv Run.read at hra hrb
      simp only [hcur] at hra
      by_cases hl1 : r.ofs + w > bs.length
      · simp [hl1] at hra
      · simp only [hl1, if_false] at hra
        cases hs1 : FrameSet.setFrameBytes d r.fs (List.take w (List.drop r.ofs bs)) fr none none with
        | error e => simp [hs1] at hra
        | ok fs1 =>
          simp only [hs1] at hra
          cases hra
          simp only at hrb
          by_cases hl2 : r.ofs + w + siz1 > bs.length
          · simp [hl2] at hrb
          · simp only [hl2, if_false] at hrb
            cases hs2 : FrameSet.setFrameBytes d fs1 (List.take siz1 (List.drop (r.ofs + w) bs)) fr (some 0) (some ct1) with
            | error e => simp [hs2] at hrb
            | ok fs2 =>
              simp only [hs2] at hrb
              cases hrb
              -- what the indirect read did
              unfold FrameSet.setFrameBytes at hs1
              have h1 : ¬ d.recMode ≠ 1 := by simp [hi.hrm]
              simp only [h1, if_false, hi.hw] at hs1
              have hlw : (List.take w (List.drop r.ofs bs)).length = w := by
                rw [List.length_take, List.length_drop]; omega
              have hl : ¬ (List.take w (List.drop r.ofs bs)).length < w := by omega
              simp only [hl, if_false, List.take_take, Nat.min_self] at hs1
              cases hx : xDecode d.depthRc (beWord (List.take w (List.drop r.ofs bs))) with
              | error e => simp [hx] at hs1
              | ok x =>
                simp only [hx] at hs1
                by_cases hfr : fr < r.fs.xvec.length
                · simp only [hfr, if_true, hlw, ne_eq, not_true_eq_false, if_false, Except.ok.injEq] at hs1
                  subst hs1
                  have hby : List.take w (List.take (w + siz1) (List.drop r.ofs bs)) = List.take w (List.drop r.ofs bs) := by
                    rw [List.take_take]; congr 1; omega
                  have hby2 : List.drop w (List.take (w + siz1) (List.drop r.ofs bs)) = List.take siz1 (List.drop (r.ofs + w) bs) := by
                    rw [List.drop_take, List.drop_drop]; congr 1; omega
                  have hmerged := setFrameBytes_merged d p w hi r.fs fs2 (List.take (w + siz1) (List.drop r.ofs bs)) fr ct1 x
                    (by rw [List.length_take, List.length_drop]; omega) (by rw [hby]; exact hx) hfr (by rw [hby2]; exact hs2)
                  obtain ⟨ops, hex⟩ := exec_read d st r t bs (w + siz1) fr none (some ct1) fs2 hcur (by omega) hmerged
                  simp only [execEvs, hex]
                  refine execEvs_same d st R _ _ r' ?_ h
                  exact ⟨hcur.symm, by simp only; omega, rfl⟩
                · simp [hfr] at hs1


/-! ### one record with an indirect word -/

/-- X of the first loaded frame of a record: the record's own X word when the first selected offset `a` is 0;
otherwise `a·spacing` added to the record's X word for the first loaded record, and to the X of the previously loaded
frame for every later record (the rule behind finding F7) -/
def entryBase (sp xrec : Int) (a : Nat) (prev : Option Int) : Int :=
  if a = 0 then xrec else match prev with
    | none => xrec + (a : Int) * sp
    | some pv => pv + (a : Int) * sp

/-- the implied X values of the frames loaded from one record -/
def entryXs (sp xrec : Int) (a step len : Nat) (prev : Option Int) : List Int :=
  entryBase sp xrec a prev :: xsFrom (entryBase sp xrec a prev) step sp len

/-- `prev` is the X of the previously loaded frame (none for the first loaded record) -/
def PrevOk (xv : List (Option Int)) (frInt : Nat) (prev : Option Int) : Prop :=
  (frInt = 0 ∧ prev = none) ∨ (0 < frInt ∧ ∃ pv, prev = some pv ∧ xv[frInt - 1]? = some (some pv))

theorem exec_extrap_head (d : Dfsr) (st : Store) (rr : Run) (xv : List (Option Int)) (frInt a : Nat) (cf ct : Option Nat)
    (xrec sp : Int) (prev : Option Int) (ha : 0 < a) (hxv : rr.fs.xvec = xv.set frInt (some xrec)) (hfr : frInt < xv.length)
    (hsp : rr.fs.frameSpacing = some sp) (hprev : PrevOk xv frInt prev) :
    execEv d st rr ⟨.extrap, a, some frInt, cf, ct⟩
      = .ok { rr with fs := { rr.fs with xvec := xv.set frInt (some (entryBase sp xrec a prev)) } } := by
  have hne : ¬ a = 0 := by omega
  rcases hprev with ⟨h0, hp⟩ | ⟨h0, pv, hp, hpv⟩
  · subst h0 hp
    have hx : rr.fs.xvec[if 0 = 0 then 0 else 0 - 1]? = some (some xrec) := by
      simp only [if_true, hxv]; rw [List.getElem?_set]; simp [hfr]
    rw [exec_extrap d st rr a 0 cf ct xrec sp hx hsp (by rw [hxv]; simpa using hfr)]
    simp only [hxv, List.set_set, entryBase, hne, if_false]
  · subst hp
    have hx : rr.fs.xvec[if frInt = 0 then 0 else frInt - 1]? = some (some pv) := by
      have : ¬ frInt = 0 := by omega
      simp only [this, if_false, hxv]; rw [List.getElem?_set]
      have : ¬ frInt = frInt - 1 := by omega
      simp [this, hpv]
    rw [exec_extrap d st rr a frInt cf ct pv sp hx hsp (by rw [hxv]; simpa using hfr)]
    simp only [hxv, List.set_set, entryBase, hne, if_false]

/-- state after an event, given by properties (the operation log is left open) -/
def StateIs (r : Run) (cur : Option (Nat × List Nat)) (ofs : Nat) (fs : FrameSet) : Prop :=
  r.cur = cur ∧ r.ofs = ofs ∧ r.fs = fs

theorem step_seek (d : Dfsr) (st : Store) (r : Run) (t : Nat) (bs : List Nat)
    (hfind : Store.find st t = some bs) (hhead : bs.head? = some d.dataType) (hlen : 2 ≤ bs.length) :
    ∃ r0, execEv d st r ⟨.seekLr, t, none, none, none⟩ = .ok r0 ∧ StateIs r0 (some (t, bs)) 2 r.fs := by
  obtain ⟨ops, h⟩ := exec_seek d st r t bs none none none hfind hhead hlen
  exact ⟨_, h, rfl, rfl, rfl⟩

theorem step_indr (d : Dfsr) (p : Plan) (w : Nat) (hi : IndCtx d p w) (st : Store) (r0 : Run) (t : Nat) (bs : List Nat)
    (fs : FrameSet) (fr : Nat) (x : Int) (h0 : StateIs r0 (some (t, bs)) 2 fs) (hlen : 2 + w ≤ bs.length)
    (hx : xDecode d.depthRc (beWord ((bs.drop 2).take w)) = .ok x) (hfr : fr < fs.xvec.length) :
    ∃ r1, execEv d st r0 ⟨.read, w, some fr, none, none⟩ = .ok r1 ∧
      StateIs r1 (some (t, bs)) (2 + w) { fs with xvec := fs.xvec.set fr (some x) } := by
  obtain ⟨h1, h2, h3⟩ := h0
  obtain ⟨ops, h⟩ := exec_indr d p w hi st r0 t bs fr x h1 (by rw [h2]; exact hlen) (by rw [h2]; exact hx) (by rw [h3]; exact hfr)
  exact ⟨_, h, h1, by simp only [h2], by simp only [h3]⟩

theorem step_skip (d : Dfsr) (st : Store) (r : Run) (t : Nat) (bs : List Nat) (ofs : Nat) (fs : FrameSet) (siz : Nat)
    (fr cf ct : Option Nat) (h0 : StateIs r (some (t, bs)) ofs fs) (hlen : ofs + siz ≤ bs.length) :
    ∃ r1, execEv d st r ⟨.skip, siz, fr, cf, ct⟩ = .ok r1 ∧ StateIs r1 (some (t, bs)) (ofs + siz) fs := by
  obtain ⟨h1, h2, h3⟩ := h0
  obtain ⟨ops, h⟩ := exec_skip' d st r t bs siz fr cf ct h1 (by rw [h2]; exact hlen)
  exact ⟨_, h, h1, by simp only [h2], h3⟩

theorem step_extrap_head (d : Dfsr) (st : Store) (r : Run) (cur : Option (Nat × List Nat)) (ofs : Nat) (fs : FrameSet)
    (frInt a : Nat) (cf ct : Option Nat) (xrec sp : Int) (prev : Option Int) (ha : 0 < a)
    (h0 : StateIs r cur ofs { fs with xvec := fs.xvec.set frInt (some xrec) }) (hfr : frInt < fs.xvec.length)
    (hsp : fs.frameSpacing = some sp) (hprev : PrevOk fs.xvec frInt prev) :
    ∃ r1, execEv d st r ⟨.extrap, a, some frInt, cf, ct⟩ = .ok r1 ∧
      StateIs r1 cur ofs { fs with xvec := fs.xvec.set frInt (some (entryBase sp xrec a prev)) } := by
  obtain ⟨h1, h2, h3⟩ := h0
  have := exec_extrap_head d st r fs.xvec frInt a cf ct xrec sp prev ha (by rw [h3]) hfr (by rw [h3]; exact hsp) hprev
  exact ⟨_, this, h1, h2, by simp only [h3]⟩


/-- **One record with an indirect word** (any channel subset): seeking to the record and executing the renumbered
events generated for the offsets `a, a+step, …` succeeds and sets the implied X of the loaded rows `frInt, …` to
`entryXs`: the rule of `entryBase` for the first one, then `step·spacing` more for each further one. -/
theorem block_exec_ind (d : Dfsr) (st : Store) (t : Nat) (bs : List Nat) (n a step len frInt : Nat) (p : Plan) (w : Nat)
    (sp xrec : Int) (c0 : Nat) (rest : List Nat) (hi : IndCtx d p w) (hstep : 0 < step)
    (hltc : ∀ c ∈ c0 :: rest, c < d.chans.length) (hsorted : (c0 :: rest).Pairwise (· < ·))
    (hfind : Store.find st t = some bs) (hhead : bs.head? = some d.dataType)
    (hbs : bs.length = 2 + w + n * p.frameSize) (hx : xDecode d.depthRc (beWord ((bs.drop 2).take w)) = .ok xrec)
    (hlast : a + len * step < n)
    (r : Run) (hch : r.fs.chIdx = c0 :: rest)
    (hrows : ∀ row ∈ r.fs.frames, row.length = sumN ((selChans d (c0 :: rest)).map Chan.numValues))
    (hN : frInt + (len + 1) ≤ r.fs.frames.length) (hxl : r.fs.xvec.length = r.fs.frames.length)
    (hsp : r.fs.frameSpacing = some sp) (prev : Option Int) (hprev : PrevOk r.fs.xvec frInt prev) :
    ∃ a' b' c' evs r', sliceFromList (ap a step (len + 1)) = .ok (a', b', c') ∧
      genEvents p a' b' c' (c0 :: rest) = .ok evs ∧
      execEvs d st (⟨.seekLr, t, none, none, none⟩ :: renumber (ap a step (len + 1)) frInt evs 0) r = .ok r' ∧
      r'.fs.chIdx = r.fs.chIdx ∧ r'.fs.frameSpacing = r.fs.frameSpacing ∧ r'.fs.frames.length = r.fs.frames.length ∧
      (∀ row ∈ r'.fs.frames, row.length = sumN ((selChans d (c0 :: rest)).map Chan.numValues)) ∧
      r'.fs.xvec = setVals r.fs.xvec frInt (entryXs sp xrec a step len prev) := by
  obtain ⟨c, hc, hsl, hrl, hcstep⟩ := sliceFromList_ap a step len hstep
  have hpi : p.indr = w := by rw [hi.hp]
  have hwpos := hi.hwpos
  have hnc : p.numChannels = d.chans.length := by rw [hi.hp]; simp [Plan.numChannels]
  have hab : a < a + len * step + 1 := by omega
  cases hret : retFrameEvents p (c0 :: rest) with
  | mk pre r2 =>
    obtain ⟨fevts, post⟩ := r2
    have hgen := genEvents_ind p (c0 :: rest) a (a + len * step + 1) c pre post fevts (by omega) (by simp) hsorted
      (by intro x hx; rw [hnc]; exact hltc x hx) hab hc hret
    obtain ⟨_, _, _, hpre, _⟩ := retFrameEvents_spec p c0 rest hsorted 0 pre fevts post hret
    have hb : ∀ i, (ap a step (len + 1))[0 + i]? = (rangeList a (a + len * step + 1) c)[i]? := by
      intro i; rw [hrl, Nat.zero_add]
    have hinc := ap_inc a step (len + 1) hstep
    have hlenR : rangeLen a (a + len * step + 1) c = len + 1 := by
      have : (rangeList a (a + len * step + 1) c).length = (ap a step (len + 1)).length := by rw [hrl]
      simpa [rangeList, ap] using this
    have han : (a + 1) * p.frameSize ≤ n * p.frameSize := Nat.mul_le_mul_right _ (by omega)
    have han' : (a + 1) * p.frameSize = a * p.frameSize + p.frameSize := by ring
    have hle2 := skip_le_frame p c0
    have hfrl : frInt < r.fs.xvec.length := by omega
    have hxs : xsFrom (entryBase sp xrec a prev) c sp len = xsFrom (entryBase sp xrec a prev) step sp len := by
      by_cases hl0 : len = 0
      · subst hl0; rfl
      · rw [hcstep hl0]
    have hst0 : ∀ (e : Ev), e.fr = some a → renumStep (ap a step (len + 1)) 0 e = 0 := by
      intro e he
      unfold renumStep
      have : ¬ (0 + 1 < (ap a step (len + 1)).length ∧ ((ap a step (len + 1))[0 + 1]? = e.fr ∧ e.fr.isSome)) := by
        intro ⟨_, he', _⟩
        rw [he] at he'
        have h0 : (ap a step (len + 1))[0]? = some a := by rw [ap_getElem]; simp
        have := hinc 0 (0 + 1) a a (by omega) h0 he'
        omega
      rw [if_neg this]
    have hstN : ∀ (e : Ev), e.fr = none → renumStep (ap a step (len + 1)) 0 e = 0 := by
      intro e he; unfold renumStep; simp [he]
    obtain ⟨r0, hs0, st0⟩ := step_seek d st r t bs hfind hhead (by omega)
    obtain ⟨r1, hs1, st1⟩ := step_indr d p w hi st r0 t bs r.fs frInt xrec st0 (by omega) hx hfrl
    -- the frame loop from the state "at the first selected channel of frame a, X[frInt] = base"
    have hloop : ∀ (rr : Run), StateIs rr (some (t, bs)) (2 + w + a * p.frameSize + p.skipToChStart c0)
          { r.fs with xvec := r.fs.xvec.set frInt (some (entryBase sp xrec a prev)) } →
        ∃ r', execEvs d st (renumber (ap a step (len + 1)) frInt
            (frameLoop p fevts post (mergedPostFramePre p pre post c) (a + len * step + 1) c (a + len * step + 1 - a) a none) 0) rr = .ok r' ∧
          r'.fs.chIdx = r.fs.chIdx ∧ r'.fs.frameSpacing = r.fs.frameSpacing ∧ r'.fs.frames.length = r.fs.frames.length ∧
          (∀ row ∈ r'.fs.frames, row.length = sumN ((selChans d (c0 :: rest)).map Chan.numValues)) ∧
          r'.fs.xvec = setVals r.fs.xvec frInt (entryXs sp xrec a step len prev) := by
      intro rr ⟨h1, h2, h3⟩
      obtain ⟨r', hex, _, e1, e2, e3, e5, e4⟩ := frameLoop_exec_ind d st t bs n (a + len * step + 1) c (ap a step (len + 1)) frInt p w sp c0 rest
        pre post fevts hi hc hltc hsorted hbs (by omega) hret hinc (a + len * step + 1 - a) a 0 0 rr (entryBase sp xrec a prev) hab
        (Nat.le_refl _) hb (Or.inl rfl) h1 h2 (by rw [h3]; exact hch) (by rw [h3]; exact hrows) (by rw [hlenR, h3]; simpa using hN)
        (by rw [h3]; simpa using hxl) (by rw [h3]; exact hsp) (by rw [h3]; simp [hfrl])
      rw [h3] at e1 e2 e3 e4
      refine ⟨r', hex, e1, e2, e3, e5, ?_⟩
      rw [e4, hlenR, Nat.add_sub_cancel, hxs]; simp [entryXs, setVals]
    unfold preIs at hpre
    cases pre with
    | some pr =>
      simp only at hpre
      obtain ⟨hty, hsz, hc0pos⟩ := hpre
      have k1 := hstN ⟨.read, p.indr, none, none, none⟩ rfl
      have k3 := hst0 ⟨pr.ty, a * p.frameSize + pr.siz, some a, pr.cf, pr.ct⟩ rfl
      by_cases ha : 0 < a
      · obtain ⟨r2, hs2, st2⟩ := step_extrap_head d st r1 _ _ r.fs frInt a none none xrec sp prev ha st1 hfrl hsp hprev
        obtain ⟨r3, hs3, st3⟩ := step_skip d st r2 t bs _ _ (a * p.frameSize + pr.siz) (some frInt) pr.cf pr.ct st2 (by rw [hsz]; omega)
        obtain ⟨r', hex, f1, f2, f3, f5, f4⟩ := hloop r3 (by rw [show 2 + w + a * p.frameSize + p.skipToChStart c0 = 2 + w + (a * p.frameSize + pr.siz) by rw [hsz]; omega]; exact st3)
        refine ⟨a, a + len * step + 1, c, _, r', hsl, hgen, ?_, f1, f2, f3, f5, f4⟩
        have k2 := hst0 ⟨.extrap, a, some a, none, none⟩ rfl
        simp only [headInd, pendInd, ha, if_true, List.cons_append, List.nil_append, List.append_assoc, renumber_cons, k1, k2, k3]
        simp only [Nat.add_zero, hpi, hty, execEvs, hs0, hs1, hs2, hs3]
        exact hex
      · have ha0 : a = 0 := by omega
        subst ha0
        have hbase : entryBase sp xrec 0 prev = xrec := by simp [entryBase]
        obtain ⟨r3, hs3, st3⟩ := step_skip d st r1 t bs _ _ (0 * p.frameSize + pr.siz) (some frInt) pr.cf pr.ct st1 (by rw [hsz]; omega)
        obtain ⟨r', hex, f1, f2, f3, f5, f4⟩ := hloop r3 (by rw [hbase, show 2 + w + 0 * p.frameSize + p.skipToChStart c0 = 2 + w + (0 * p.frameSize + pr.siz) by rw [hsz]; omega]; exact st3)
        refine ⟨0, 0 + len * step + 1, c, _, r', hsl, hgen, ?_, f1, f2, f3, f5, f4⟩
        simp only [headInd, pendInd, Nat.lt_irrefl, if_false, List.cons_append, List.nil_append, List.append_nil, renumber_cons, k1, k3]
        simp only [Nat.add_zero, hpi, hty, execEvs, hs0, hs1, hs3]
        exact hex
    | none =>
      simp only at hpre
      subst hpre
      have hA : p.skipToChStart 0 = 0 := skip_zero p
      have k1 := hstN ⟨.read, p.indr, none, none, none⟩ rfl
      by_cases ha : 0 < a
      · obtain ⟨r2, hs2, st2⟩ := step_skip d st r1 t bs _ _ (a * p.frameSize) (some frInt) none (some 0) st1 (by omega)
        obtain ⟨r3, hs3, st3⟩ := step_extrap_head d st r2 _ _ r.fs frInt a none none xrec sp prev ha st2 hfrl hsp hprev
        obtain ⟨r', hex, f1, f2, f3, f5, f4⟩ := hloop r3 (by rw [hA]; exact st3)
        refine ⟨a, a + len * step + 1, c, _, r', hsl, hgen, ?_, f1, f2, f3, f5, f4⟩
        have k2 := hst0 ⟨.skip, a * p.frameSize, some a, none, some 0⟩ rfl
        have k3 := hst0 ⟨.extrap, a, some a, none, none⟩ rfl
        simp only [headInd, pendInd, ha, if_true, List.cons_append, List.nil_append, renumber_cons, k1, k2, k3]
        simp only [Nat.add_zero, hpi, execEvs, hs0, hs1, hs2, hs3]
        exact hex
      · -- the indirect read is merged into the first read of frame 0
        have ha0 : a = 0 := by omega
        subst ha0
        have hbase : entryBase sp xrec 0 prev = xrec := by simp [entryBase]
        obtain ⟨r', hex, f1, f2, f3, f5, f4⟩ := hloop r1 (by rw [hbase, hA]; simpa using st1)
        obtain ⟨e1, es, hfe, hty1, hcf1, hct1⟩ := retFrameEvents_first p 0 rest none post fevts hret
        obtain ⟨ct1, hct1'⟩ := Option.isSome_iff_exists.1 hct1
        subst hfe
        have hfuel : 0 + len * step + 1 - 0 = (len * step) + 1 := by omega
        rw [hfuel] at hgen hex
        have hl0 : 0 < 0 + len * step + 1 := by omega
        simp only [headInd, pendInd, Nat.lt_irrefl, if_false, List.nil_append] at hgen
        -- both loops begin with the first frame's first event; everything behind it is the same list `T`
        have hsplit : ∃ T, frameLoop p (e1 :: es) post (mergedPostFramePre p none post c) (0 + len * step + 1) c (len * step + 1) 0 none
              = { e1 with fr := some 0 } :: T ∧
            frameLoop p (e1 :: es) post (mergedPostFramePre p none post c) (0 + len * step + 1) c (len * step + 1) 0 (some p.indr)
              = ⟨e1.ty, p.indr + e1.siz, some 0, none, e1.ct⟩ :: T := by
          simp only [frameLoop, hl0, if_true, emitFrame]
          cases hem : emitFrame 0 es none with
          | mk evs pend' =>
            simp only
            by_cases hlast : 0 + c ≥ 0 + len * step + 1
            · simp only [hlast, if_true, List.cons_append]; exact ⟨_, rfl, rfl⟩
            · simp only [hlast, if_false, List.cons_append]; exact ⟨_, rfl, rfl⟩
        obtain ⟨T, hT1, hT2⟩ := hsplit
        rw [hT1, renumber_cons] at hex
        rw [hT2] at hgen
        have hk0 : renumStep (ap 0 step (len + 1)) 0 { e1 with fr := some 0 } = 0 := hst0 _ rfl
        have hk0' : renumStep (ap 0 step (len + 1)) 0 ⟨e1.ty, p.indr + e1.siz, some 0, none, e1.ct⟩ = 0 := hst0 _ rfl
        rw [hk0] at hex
        have hplain : execEvs d st (⟨.read, w, some (frInt + 0), none, none⟩ ::
            ⟨.read, e1.siz, some (frInt + 0), some 0, some ct1⟩ :: renumber (ap 0 step (len + 1)) frInt T 0) r0 = .ok r' := by
          simp only [execEvs, Nat.add_zero, hs1]
          have : ({ ty := e1.ty, siz := e1.siz, fr := some (frInt + 0), cf := e1.cf, ct := e1.ct } : Ev)
              = ⟨.read, e1.siz, some frInt, some 0, some ct1⟩ := by rw [hty1, hcf1, hct1', Nat.add_zero]
          simp only [this] at hex
          exact hex
        obtain ⟨r'', hex'', s1, s2, s3⟩ := merged_transfer d p w hi st r0 r' t bs (frInt + 0) e1.siz ct1 _ st0.1 hplain
        refine ⟨0, 0 + len * step + 1, c, _, r'', hsl, hgen, ?_, by rw [← s3]; exact f1, by rw [← s3]; exact f2,
          by rw [← s3]; exact f3, by rw [← s3]; exact f5, by rw [← s3]; exact f4⟩
        rw [renumber_cons, hk0']
        simp only [execEvs, hs0]
        have : ({ ty := e1.ty, siz := p.indr + e1.siz, fr := some (frInt + 0), cf := none, ct := e1.ct } : Ev)
            = ⟨.read, w + e1.siz, some (frInt + 0), none, some ct1⟩ := by rw [hty1, hct1', hpi]
        rw [this]
        exact hex''


/-! ### all map entries with an indirect word -/

theorem setVals_append (v : List (Option Int)) (i : Nat) (xs ys : List Int) :
    setVals (setVals v i xs) (i + xs.length) ys = setVals v i (xs ++ ys) := by
  induction xs generalizing v i with
  | nil => simp [setVals]
  | cons x xs ih =>
    simp only [setVals, List.length_cons, List.cons_append]
    rw [← ih (v.set i (some x)) (i + 1)]
    congr 1; omega

theorem setVals_getElem (v : List (Option Int)) (i : Nat) (xs : List Int) (q : Nat) (h : i + xs.length ≤ v.length) :
    (setVals v i xs)[q]? = if i ≤ q ∧ q < i + xs.length then (xs[q - i]?).map some else v[q]? := by
  induction xs generalizing v i with
  | nil => simp [setVals]
  | cons x xs ih =>
    simp only [setVals, List.length_cons] at h ⊢
    rw [ih (v.set i (some x)) (i + 1) (by simp; omega)]
    by_cases hq : q = i
    · subst hq
      have h1 : ¬ (q + 1 ≤ q ∧ q < q + 1 + xs.length) := by omega
      have h2 : q ≤ q ∧ q < q + (xs.length + 1) := by omega
      rw [if_neg h1, if_pos h2]
      simp [List.getElem?_set]; omega
    · by_cases hin : i + 1 ≤ q ∧ q < i + 1 + xs.length
      · have h2 : i ≤ q ∧ q < i + (xs.length + 1) := by omega
        rw [if_pos hin, if_pos h2]
        have : q - i = (q - (i + 1)) + 1 := by omega
        rw [this]; rfl
      · have h2 : ¬ (i ≤ q ∧ q < i + (xs.length + 1)) := by omega
        rw [if_neg hin, if_neg h2, List.getElem?_set]
        simp [Ne.symm hq]

/-- the X word of the record at `t`, decoded -/
def xrecOf (d : Dfsr) (st : Store) (w : Nat) (t : Int) : Int :=
  match xDecode d.depthRc (beWord (((bytesOf st t.toNat).drop 2).take w)) with
  | .ok x => x
  | .error _ => 0

/-- the implied X values of all loaded frames, entry after entry: `prev` is the X of the previously loaded frame -/
def allXs (sp : Int) (xr : Int → Int) (c : Nat) : List (Int × List Nat) → Option Int → List Int
  | [], _ => []
  | e :: rest, prev =>
    entryXs sp (xr e.1) (e.2.headD 0) c (e.2.length - 1) prev
      ++ allXs sp xr c rest (entryXs sp (xr e.1) (e.2.headD 0) c (e.2.length - 1) prev).getLast?

theorem entryXs_length (sp xrec : Int) (a step len : Nat) (prev : Option Int) :
    (entryXs sp xrec a step len prev).length = len + 1 := by simp [entryXs, xsFrom_length]

/-- what the store must hold for one map entry of an indirect-X pass -/
def EntryOkX (d : Dfsr) (p : Plan) (w : Nat) (st : Store) (c : Nat) (e : Int × List Nat) : Prop :=
  ∃ a len n bs xrec, e.2 = ap a c (len + 1) ∧ Store.find st e.1.toNat = some bs ∧ bs.head? = some d.dataType ∧
    bs.length = 2 + w + n * p.frameSize ∧ xDecode d.depthRc (beWord ((bs.drop 2).take w)) = .ok xrec ∧ a + len * c < n

/-- **All map entries with an indirect word** (any channel subset): the implied X vector is `allXs`. -/
theorem entries_exec_ind (d : Dfsr) (st : Store) (c : Nat) (p : Plan) (w : Nat) (sp : Int) (c0 : Nat) (rest : List Nat)
    (hi : IndCtx d p w) (hc : 0 < c)
    (hltc : ∀ x ∈ c0 :: rest, x < d.chans.length) (hsorted : (c0 :: rest).Pairwise (· < ·)) :
    ∀ (entries : List (Int × List Nat)) (frInt : Nat) (r : Run) (prev : Option Int),
      (∀ e ∈ entries, EntryOkX d p w st c e) →
      r.fs.chIdx = c0 :: rest →
      (∀ row ∈ r.fs.frames, row.length = sumN ((selChans d (c0 :: rest)).map Chan.numValues)) →
      frInt + (entries.map (·.2.length)).sum ≤ r.fs.frames.length →
      r.fs.xvec.length = r.fs.frames.length → r.fs.frameSpacing = some sp → PrevOk r.fs.xvec frInt prev →
      ∃ evs r', genFrameSetEventsAux p (c0 :: rest) entries frInt = .ok evs ∧ execEvs d st evs r = .ok r' ∧
        r'.fs.chIdx = r.fs.chIdx ∧ r'.fs.frames.length = r.fs.frames.length ∧
        r'.fs.xvec = setVals r.fs.xvec frInt (allXs sp (xrecOf d st w) c entries prev) := by
  intro entries
  induction entries with
  | nil =>
    intro frInt r prev _ _ _ _ _ _ _
    exact ⟨[], r, by simp [genFrameSetEventsAux], by simp [execEvs], rfl, rfl, by simp [allXs, setVals]⟩
  | cons e rest' ih =>
    intro frInt r prev hent hch hrows hN hxl hsp hprev
    obtain ⟨seek, buf⟩ := e
    obtain ⟨a, len, n, bs, xrec, hbuf, hfind, hhead, hbs, hx, hlast⟩ := hent (seek, buf) (List.mem_cons_self ..)
    simp only at hbuf hfind
    subst hbuf
    simp only [List.map_cons, List.sum_cons, ap_length] at hN
    obtain ⟨a', b', c', evs1, r1, hsl, hgen, hex, hch1, hsp1, hlen1, hrows1, hxv1⟩ := block_exec_ind d st seek.toNat bs n a c len frInt p w
      sp xrec c0 rest hi hc hltc hsorted hfind hhead hbs hx hlast r hch hrows (by omega) hxl hsp prev hprev
    have hxr : xrecOf d st w seek = xrec := by simp [xrecOf, bytesOf, hfind, hx]
    have hhd : (ap a c (len + 1)).headD 0 = a := by simp [ap, List.range_succ_eq_map]
    have hXl := entryXs_length sp xrec a c len prev
    -- the X of the last loaded frame of this entry
    obtain ⟨lastx, hlastx⟩ : ∃ lx, (entryXs sp xrec a c len prev).getLast? = some lx := by
      cases hh : (entryXs sp xrec a c len prev).getLast? with
      | none => rw [List.getLast?_eq_none_iff] at hh; rw [hh] at hXl; simp at hXl
      | some lx => exact ⟨lx, rfl⟩
    have hprev1 : PrevOk r1.fs.xvec (frInt + (len + 1)) (some lastx) := by
      right
      refine ⟨by omega, lastx, rfl, ?_⟩
      rw [hxv1, setVals_getElem _ _ _ _ (by rw [hXl]; omega)]
      have : frInt ≤ frInt + (len + 1) - 1 ∧ frInt + (len + 1) - 1 < frInt + (entryXs sp xrec a c len prev).length := by
        rw [hXl]; omega
      rw [if_pos this, show frInt + (len + 1) - 1 - frInt = len by omega]
      rw [List.getLast?_eq_getElem?, hXl] at hlastx
      simp only [Nat.add_sub_cancel] at hlastx
      rw [hlastx]; rfl
    obtain ⟨evs2, r2, hgen2, hex2, hch2, hlen2, hxv2⟩ := ih (frInt + (len + 1)) r1 (some lastx)
      (fun e he => hent e (List.mem_cons_of_mem _ he)) (by rw [hch1]; exact hch) hrows1 (by rw [hlen1]; omega)
      (by rw [hxv1, setVals_length, hlen1]; exact hxl) (by rw [hsp1]; exact hsp) hprev1
    refine ⟨⟨.seekLr, seek.toNat, none, none, none⟩ :: renumber (ap a c (len + 1)) frInt evs1 0 ++ evs2, r2, ?_, ?_,
      by rw [hch2, hch1], by rw [hlen2, hlen1], ?_⟩
    · simp only [genFrameSetEventsAux, hsl, hgen, ap_length, hgen2]
    · rw [execEvs_append, hex]; exact hex2
    · rw [hxv2, hxv1]
      simp only [allXs, hxr, hhd, ap_length, Nat.add_sub_cancel, hlastx]
      have := setVals_append r.fs.xvec frInt (entryXs sp xrec a c len prev) (allXs sp (xrecOf d st w) c rest' (some lastx))
      rw [hXl] at this
      exact this


/-- the channels of the frame set for an indirect-X log pass (no X channel is added) -/
def selIdxI (d : Dfsr) (chList : Option (List Nat)) : List Nat :=
  match chList with
  | none => List.range d.chans.length
  | some l => sortDedup l

/-- the signed frame spacing used for the implied X (`FrameSet._frameSpacing`) -/
def spacingOf (d : Dfsr) (s : Int) : Int := if d.upDown = 1 then -(s.natAbs : Int) else (s.natAbs : Int)

theorem new_indirect (d : Dfsr) (S : Sl) (chList : Option (List Nat)) (s : Int) (hrm : d.recMode = 1)
    (hu : d.spacingUnits = d.depthUnits) (hs : d.spacing = some s)
    (hlt : ∀ c ∈ selIdxI d chList, c < d.chans.length) :
    FrameSet.new d S chList 0 = .ok ⟨selIdxI d chList, rangeLen S.start S.stop S.step1,
      List.replicate (rangeLen S.start S.stop S.step1)
        (List.replicate (sumN ((selChans d (selIdxI d chList)).map Chan.numValues)) none),
      List.replicate (rangeLen S.start S.stop S.step1) none, some (spacingOf d s)⟩ := by
  have hvpf : ∀ cs : List Nat, sumN (cs.map (fun e => ((d.chans[e]?).map Chan.numValues).getD 0))
      = sumN ((selChans d cs).map Chan.numValues) := by
    intro cs; simp only [selChans, List.map_map]; congr 1
    apply List.map_congr_left; intro e _; exact chanAt_nv d e
  have hany : (selIdxI d chList).any (fun e => decide (e ≥ d.chans.length)) = false := by
    rw [List.any_eq_false]; intro e he; have := hlt e he; simp; omega
  unfold FrameSet.new
  cases chList with
  | none =>
    simp only [selIdxI] at hany ⊢
    simp only [hrm, hany, hu, hs]
    simp [hvpf, spacingOf]
  | some l =>
    simp only [selIdxI] at hany ⊢
    simp only [hrm, hu, hs]
    simp [hany, hvpf, spacingOf]

theorem setVals_full (n : Nat) (xs : List Int) (h : xs.length = n) :
    setVals (List.replicate n none) 0 xs = xs.map some := by
  apply List.ext_getElem?
  intro q
  rw [setVals_getElem _ 0 xs q (by simp [h])]
  by_cases hq : q < xs.length
  · simp [hq]
  · simp [hq]; omega

/-- the grouping of the requested frames by record (`_retFrameSetMap`, sorted) -/
def groupsOf (R : List (Int × Nat)) (a b c : Nat) : List (Int × List Nat) :=
  foldMap [] ((rangeList a b c).map (fun f => (locate R f).getD (0, 0)))

theorem allXs_length (sp : Int) (xr : Int → Int) (c : Nat) (G : List (Int × List Nat)) (prev : Option Int)
    (h : ∀ e ∈ G, e.2 ≠ []) : (allXs sp xr c G prev).length = (G.map (·.2.length)).sum := by
  induction G generalizing prev with
  | nil => rfl
  | cons e es ih =>
    have he := h e (List.mem_cons_self ..)
    have : e.2.length - 1 + 1 = e.2.length := by
      have : 0 < e.2.length := List.length_pos_iff.2 he
      omega
    simp only [allXs, List.length_append, entryXs_length, List.map_cons, List.sum_cons, this]
    rw [ih _ (fun x hx => h x (List.mem_cons_of_mem _ hx))]



theorem xsFrom_closed (x : Int) (st : Nat) (sp : Int) (m : Nat) :
    xsFrom x st sp m = (List.range m).map (fun i => x + (((i + 1) * st : Nat) : Int) * sp) := by
  induction m generalizing x with
  | zero => rfl
  | succ m ih =>
    rw [xsFrom, ih, List.range_succ_eq_map]
    simp only [List.map_cons, List.map_map, List.cons.injEq]
    constructor
    · push_cast; ring
    · apply List.map_congr_left; intro i _; simp only [Function.comp]; push_cast; ring

/-- when the first X of a record is `xr + a·sp`, all its X are `xr + offset·sp` -/
theorem entryXs_good (sp xr : Int) (a c len : Nat) (prev : Option Int) (h : prev = none ∨ a = 0) :
    entryXs sp xr a c len prev = (ap a c (len + 1)).map (fun (off : Nat) => xr + (off : Int) * sp) := by
  have hb : entryBase sp xr a prev = xr + (a : Int) * sp := by
    unfold entryBase
    rcases h with rfl | rfl
    · by_cases ha : a = 0
      · simp [ha]
      · simp [ha]
    · simp
  unfold entryXs
  rw [hb, xsFrom_closed]; unfold ap; rw [List.range_succ_eq_map]
  simp only [List.map_cons, List.map_map, Nat.zero_mul, Nat.add_zero, List.cons.injEq, true_and]
  apply List.map_congr_left; intro i _; simp only [Function.comp]; push_cast; ring

/-- **Implied X, the good class**: if every record but the first loaded one is entered at offset 0, the implied X of
every loaded frame is its record's X word plus offset·spacing. -/
theorem allXs_good (sp : Int) (xr : Int → Int) (c : Nat) :
    ∀ (G : List (Int × List Nat)) (prev : Option Int), (∀ e ∈ G, ∃ a len, e.2 = ap a c (len + 1)) →
      ((prev = none ∧ ∀ e ∈ G.tail, e.2.headD 0 = 0) ∨ ∀ e ∈ G, e.2.headD 0 = 0) →
      allXs sp xr c G prev = (flat G).map (fun (q : Int × Nat) => xr q.1 + (q.2 : Int) * sp) := by
  intro G
  induction G with
  | nil => intro _ _ _; rfl
  | cons e es ih =>
    intro prev hap hgood
    obtain ⟨a, len, hbuf⟩ := hap e (List.mem_cons_self ..)
    have hhd : e.2.headD 0 = a := by rw [hbuf]; simp [ap, List.range_succ_eq_map]
    have hl : e.2.length - 1 = len := by rw [hbuf]; simp [ap]
    have hthis : prev = none ∨ a = 0 := by
      rcases hgood with ⟨h, _⟩ | h
      · left; exact h
      · right; rw [← hhd]; exact h e (List.mem_cons_self ..)
    have hrest : ∀ e' ∈ es, e'.2.headD 0 = 0 := by
      rcases hgood with ⟨_, h⟩ | h
      · simpa using h
      · exact fun e' he' => h e' (List.mem_cons_of_mem _ he')
    simp only [allXs, hhd, hl]
    rw [entryXs_good sp (xr e.1) a c len prev hthis, ih _ (fun x hx => hap x (List.mem_cons_of_mem _ hx)) (Or.inr hrest)]
    simp only [flat, List.flatMap_cons, List.map_append, List.map_map, hbuf]
    rfl


theorem groupsOf_spec (R : List (Int × Nat)) (hR : IncTells R) (a b c : Nat) (hc : 0 < c) (hb : b ≤ (R.map (·.2)).sum) :
    Grouped c (groupsOf R a b c) ∧
    flat (groupsOf R a b c) = (rangeList a b c).map (fun f => (locate R f).getD (0, 0)) ∧
    (∀ e ∈ (groupsOf R a b c).tail, e.2.headD 0 < c) := by
  have hloc : ∀ f, f < b → locate R f = some ((locate R f).getD (0, 0)) := by
    intro f hf
    obtain ⟨r, hr⟩ := locate_lt R f (by omega)
    simp [hr]
  have := foldMap_grouped c ((rangeList a b c).map (fun f => (locate R f).getD (0, 0))) [] ⟨by simp, by simp⟩ (by simp)
    (chain_of_frames R hR c hc (fun f => (locate R f).getD (0, 0)) a b (fun f _ h2 => hloc f h2))
    (by cases (rangeList a b c).map (fun f => (locate R f).getD (0, 0)) with
        | nil => trivial
        | cons q _ => exact Or.inl rfl)
  simpa [flat, groupsOf] using this


/-- the true X of a located frame: its record's X word plus offset·spacing -/
def tx (sp : Int) (xr : Int → Int) (q : Int × Nat) : Int := xr q.1 + (q.2 : Int) * sp

/-- consecutive located frames are `c` frames apart on a common X scale -/
def StepX (sp : Int) (xr : Int → Int) (c : Nat) (L : List (Int × Nat)) : Prop :=
  ∀ i q q', L[i]? = some q → L[i + 1]? = some q' → tx sp xr q' = tx sp xr q + (c : Int) * sp

/-- which loaded frames get a wrong implied X: those of every record but the first that is entered at an offset > 0 -/
def badList : List (Int × List Nat) → Bool → List Bool
  | [], _ => []
  | e :: es, first => List.replicate e.2.length (!first && decide (e.2.headD 0 > 0)) ++ badList es false

theorem entryXs_closed (sp xrec : Int) (a c len : Nat) (prev : Option Int) :
    entryXs sp xrec a c len prev
      = (List.range (len + 1)).map (fun j => entryBase sp xrec a prev + (((j * c : Nat) : Int)) * sp) := by
  unfold entryXs
  rw [xsFrom_closed, List.range_succ_eq_map]
  simp only [List.map_cons, List.map_map, Nat.zero_mul, Nat.cast_zero, Int.zero_mul, Int.add_zero, List.cons.injEq, true_and]
  apply List.map_congr_left; intro i _; simp only [Function.comp]

theorem flat_cons_ap (t : Int) (a c len : Nat) (es : List (Int × List Nat)) :
    flat ((t, ap a c (len + 1)) :: es) = (List.range (len + 1)).map (fun j => (t, a + j * c)) ++ flat es := by
  simp [flat, ap, List.map_map, Function.comp]

/-- one record: all its implied X deviate from the true X by the same amount -/
theorem entry_dev (sp : Int) (xr : Int → Int) (t : Int) (a c len : Nat) (prev : Option Int) :
    List.zipWith (fun x q => decide (x ≠ tx sp xr q)) (entryXs sp (xr t) a c len prev)
        ((List.range (len + 1)).map (fun j => (t, a + j * c)))
      = List.replicate (len + 1) (decide (entryBase sp (xr t) a prev - (xr t + (a : Int) * sp) ≠ 0)) := by
  rw [entryXs_closed, List.zipWith_map]
  have : ∀ j : Nat, decide (entryBase sp (xr t) a prev + ((j * c : Nat) : Int) * sp ≠ tx sp xr (t, a + j * c))
      = decide (entryBase sp (xr t) a prev - (xr t + (a : Int) * sp) ≠ 0) := by
    intro j
    congr 1
    simp only [tx, ne_eq, eq_iff_iff]
    push_cast
    constructor <;> intro h <;> intro h' <;> apply h <;> linarith
  apply List.ext_getElem
  · simp
  · intro i h1 h2
    simp only [List.getElem_zipWith, List.getElem_range, List.getElem_replicate]
    exact this i


theorem entryXs_getLast (sp xrec : Int) (a c len : Nat) (prev : Option Int) :
    (entryXs sp xrec a c len prev).getLast? = some (entryBase sp xrec a prev + (((len * c : Nat) : Int)) * sp) := by
  rw [entryXs_closed, List.range_succ, List.map_append]; simp

/-- **Where the implied X is wrong**: exactly at the frames of every record but the first loaded one that is entered
at an offset > 0 (spacing ≠ 0, X words of the records consistent). -/
theorem allXs_dev (sp : Int) (xr : Int → Int) (c : Nat) (hsp : sp ≠ 0) :
    ∀ (G : List (Int × List Nat)) (prev : Option Int) (first : Bool) (tprev m : Int),
      (∀ e ∈ G, ∃ a len, e.2 = ap a c (len + 1)) →
      (∀ e ∈ (if first then G.tail else G), e.2.headD 0 < c) →
      ((first = true ∧ prev = none) ∨ (first = false ∧ prev = some (tprev + m * sp) ∧ m ≤ 0 ∧
          ∀ e ∈ G.head?, tx sp xr (e.1, e.2.headD 0) = tprev + (c : Int) * sp)) →
      StepX sp xr c (flat G) →
      List.zipWith (fun x q => decide (x ≠ tx sp xr q)) (allXs sp xr c G prev) (flat G) = badList G first := by
  intro G
  induction G with
  | nil => intro _ _ _ _ _ _ _ _; rfl
  | cons e es ih =>
    intro prev first tprev m hap hlt hprev hstepx
    obtain ⟨t, buf⟩ := e
    obtain ⟨a, len, hbuf⟩ := hap (t, buf) (List.mem_cons_self ..)
    simp only at hbuf
    subst hbuf
    have hhd : (ap a c (len + 1)).headD 0 = a := by simp [ap, List.range_succ_eq_map]
    have hl : (ap a c (len + 1)).length - 1 = len := by simp [ap]
    have hlen1 : (ap a c (len + 1)).length = len + 1 := by simp [ap]
    -- the deviation of this record
    have hdelta : ∃ m' : Int, m' ≤ 0 ∧ entryBase sp (xr t) a prev - (xr t + (a : Int) * sp) = m' * sp ∧
        (decide (entryBase sp (xr t) a prev - (xr t + (a : Int) * sp) ≠ 0) = (!first && decide (a > 0))) := by
      rcases hprev with ⟨hf, hp⟩ | ⟨hf, hp, hm, hlink⟩
      · subst hf hp
        refine ⟨0, le_refl _, ?_, ?_⟩
        · unfold entryBase; by_cases ha : a = 0 <;> simp [ha]
        · have : entryBase sp (xr t) a none - (xr t + (a : Int) * sp) = 0 := by
            unfold entryBase; by_cases ha : a = 0 <;> simp [ha]
          simp [this]
      · subst hf hp
        by_cases ha : a = 0
        · subst ha
          refine ⟨0, le_refl _, by simp [entryBase], by simp [entryBase]⟩
        · have hac : a < c := by
            have := hlt (t, ap a c (len + 1)) (by simp)
            simp only at this
            rw [hhd] at this; exact this
          have hl' := hlink (t, ap a c (len + 1)) (by simp)
          simp only [tx, hhd] at hl'
          have hbase : entryBase sp (xr t) a (some (tprev + m * sp)) = tprev + m * sp + (a : Int) * sp := by
            simp [entryBase, ha]
          have hd : entryBase sp (xr t) a (some (tprev + m * sp)) - (xr t + (a : Int) * sp) = (m + (a : Int) - (c : Int)) * sp := by
            rw [hbase, hl']; ring
          have hm' : m + (a : Int) - (c : Int) ≤ 0 := by omega
          have hne : m + (a : Int) - (c : Int) ≠ 0 := by omega
          refine ⟨m + a - c, hm', hd, ?_⟩
          have : (m + (a : Int) - (c : Int)) * sp ≠ 0 := mul_ne_zero hne hsp
          have ha' : a > 0 := by omega
          simp [hd, this, ha']
    obtain ⟨m', hm', hdm, hdec⟩ := hdelta
    simp only [allXs, hhd, hl, badList, hlen1, Nat.add_sub_cancel]
    rw [flat_cons_ap, List.zipWith_append (by simp [entryXs_length]), entry_dev, hdec]
    congr 1
    -- the remaining records
    rw [entryXs_getLast]
    have hstep' : StepX sp xr c (flat es) := by
      intro i q q' h1 h2
      apply hstepx (len + 1 + i) q q'
      · rw [flat_cons_ap, List.getElem?_append_right (by simp)]; simpa using h1
      · rw [flat_cons_ap, List.getElem?_append_right (by simp; omega)]
        simp only [List.length_map, List.length_range]
        rw [show len + 1 + i + 1 - (len + 1) = i + 1 by omega]; exact h2
    apply ih _ false (tx sp xr (t, a + len * c)) m' (fun x hx => hap x (List.mem_cons_of_mem _ hx))
    · simp only [Bool.false_eq_true, if_false]
      intro x hx
      cases first with
      | true => simpa using hlt x (by simpa using hx)
      | false => exact hlt x (by simp [hx])
    · right
      refine ⟨rfl, ?_, hm', ?_⟩
      · congr 1
        simp only [tx]
        push_cast
        linarith
      · intro e' he'
        cases es with
        | nil => simp at he'
        | cons e2 es2 =>
          simp only [List.head?_cons, Option.mem_def, Option.some.injEq] at he'
          subst he'
          obtain ⟨a2, len2, hb2⟩ := hap e2 (by simp)
          have hh2 : e2.2.headD 0 = a2 := by rw [hb2]; simp [ap, List.range_succ_eq_map]
          rw [hh2]
          apply hstepx len (t, a + len * c) (e2.1, a2)
          · rw [flat_cons_ap, List.getElem?_append_left (by simp)]; simp
          · rw [flat_cons_ap, List.getElem?_append_right (by simp)]
            simp only [List.length_map, List.length_range, Nat.sub_self]
            obtain ⟨t2, b2⟩ := e2
            simp only at hb2; subst hb2
            rw [flat_cons_ap]; simp [List.range_succ_eq_map]
    · exact hstep'


end TD.C06
