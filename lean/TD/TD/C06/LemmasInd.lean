import TD.C06.LemmasSel
import TD.C06.LemmasX

/-!
C06 — indirect (implied) X: executing the events of the records with an indirect word, tracking the implied X vector.
-/
namespace TD.C06

/-- what is needed of the DFSR for an indirect X axis: recording mode 1, an X word of `w > 0` bytes -/
structure IndCtx (d : Dfsr) (p : Plan) (w : Nat) : Prop where
  hrm : d.recMode = 1
  hw : lisSize d.depthRc = some w
  hwpos : 0 < w
  hp : p = ⟨w, d.chans.map Chan.size⟩
  hok : d.sizesOk

/-- the indirect X word alone -/
theorem setFrameBytes_indr (d : Dfsr) (p : Plan) (w : Nat) (hi : IndCtx d p w) (fs : FrameSet) (by_ : List Nat) (fr : Nat)
    (x : Int) (hlen : by_.length = w) (hx : xDecode d.depthRc (beWord by_) = .ok x) (hfr : fr < fs.xvec.length) :
    FrameSet.setFrameBytes d fs by_ fr none none = .ok { fs with xvec := fs.xvec.set fr (some x) } := by
  unfold FrameSet.setFrameBytes
  have h1 : ¬ d.recMode ≠ 1 := by simp [hi.hrm]
  have h2 : ¬ by_.length < w := by omega
  have h3 : by_.take w = by_ := by rw [← hlen, List.take_length]
  simp only [h1, if_false, hi.hw, h2, h3, hx, hfr, if_true, hlen, ne_eq, not_true_eq_false, Nat.lt_irrefl]

/-- the indirect X word merged with the first run of channels -/
theorem setFrameBytes_merged (d : Dfsr) (p : Plan) (w : Nat) (hi : IndCtx d p w) (fs fs2 : FrameSet) (by_ : List Nat)
    (fr ct : Nat) (x : Int) (hlen : w ≤ by_.length) (hx : xDecode d.depthRc (beWord (by_.take w)) = .ok x)
    (hfr : fr < fs.xvec.length)
    (h2 : FrameSet.setFrameBytes d { fs with xvec := fs.xvec.set fr (some x) } (by_.drop w) fr (some 0) (some ct) = .ok fs2) :
    FrameSet.setFrameBytes d fs by_ fr none (some ct) = .ok fs2 := by
  unfold FrameSet.setFrameBytes at h2 ⊢
  have h1 : ¬ d.recMode ≠ 1 := by simp [hi.hrm]
  have hl : ¬ by_.length < w := by omega
  simp only [h1, if_false, hi.hw, hl, hx, hfr, if_true]
  simp only [List.drop_zero, Nat.zero_add, List.length_drop] at h2
  split at h2
  · cases h2
  · rename_i ci hci
    split at h2
    · cases h2
    · rename_i ws used hcw
      by_cases hu : used = by_.length - w
      · have : ¬ (w + used ≠ by_.length) := by omega
        simp only [hu, ne_eq, not_true_eq_false, if_false] at h2
        simp only [this, if_false]
        exact h2
      · simp only [hu, ne_eq, not_false_eq_true, if_true] at h2
        cases h2


/-! ### the interpreter does not look at the operation log -/

/-- same state up to the operation log -/
def SameRun (r1 r2 : Run) : Prop := r1.cur = r2.cur ∧ r1.ofs = r2.ofs ∧ r1.fs = r2.fs

theorem SameRun.refl (r : Run) : SameRun r r := ⟨rfl, rfl, rfl⟩

theorem execEv_same (d : Dfsr) (st : Store) (e : Ev) (r1 r2 r1' : Run) (hs : SameRun r1 r2)
    (h : execEv d st r1 e = .ok r1') : ∃ r2', execEv d st r2 e = .ok r2' ∧ SameRun r1' r2' := by
  obtain ⟨c1, o1, f1, ops1⟩ := r1
  obtain ⟨c2, o2, f2, ops2⟩ := r2
  obtain ⟨hc, ho, hf⟩ := hs
  simp only at hc ho hf
  subst hc ho hf
  unfold execEv Run.read at h ⊢
  cases hty : e.ty <;> simp only [hty] at h ⊢
  · -- read
    cases c1 with
    | none => simp at h
    | some tb =>
      obtain ⟨t, bs⟩ := tb
      by_cases hlen : o1 + e.siz > bs.length
      · simp [hlen] at h
      · simp only [hlen, if_false] at h ⊢
        cases hfr : e.fr with
        | none => simp [hfr] at h
        | some fr =>
          simp only [hfr] at h ⊢
          cases hsb : FrameSet.setFrameBytes d f1 (List.take e.siz (List.drop o1 bs)) fr e.cf e.ct with
          | error err => simp [hsb] at h
          | ok fs' => simp only [hsb] at h ⊢; cases h; exact ⟨_, rfl, rfl, rfl, rfl⟩
  · -- skip
    cases c1 with
    | none => simp at h
    | some tb => cases h; exact ⟨_, rfl, rfl, rfl, rfl⟩
  · -- extrap
    cases hfr : e.fr with
    | none => simp [hfr] at h
    | some frInt =>
      simp only [hfr] at h ⊢
      cases hx : f1.xvec[if frInt = 0 then 0 else frInt - 1]? with
      | none => simp [hx] at h
      | some ox =>
        cases ox with
        | none => cases hsp : f1.frameSpacing <;> simp [hx, hsp] at h
        | some x =>
          cases hsp : f1.frameSpacing with
          | none => simp [hx, hsp] at h
          | some sp =>
            simp only [hx, hsp] at h ⊢
            by_cases hl : frInt < f1.xvec.length
            · simp only [hl, if_true] at h ⊢; cases h; exact ⟨_, rfl, rfl, rfl, rfl⟩
            · simp [hl] at h
  · -- seekLr
    cases hfind : Store.find st e.siz with
    | none => simp [hfind] at h
    | some bs =>
      simp only [hfind] at h ⊢
      by_cases hlen : 0 + 2 > bs.length
      · simp [hlen] at h
      · simp only [hlen, if_false] at h ⊢
        by_cases hd : (List.take 2 (List.drop 0 bs)).head? ≠ some d.dataType
        · rw [if_pos hd] at h; cases h
        · rw [if_neg hd] at h ⊢; cases h; exact ⟨_, rfl, rfl, rfl, rfl⟩

theorem execEvs_same (d : Dfsr) (st : Store) (evs : List Ev) :
    ∀ (r1 r2 r1' : Run), SameRun r1 r2 → execEvs d st evs r1 = .ok r1' →
      ∃ r2', execEvs d st evs r2 = .ok r2' ∧ SameRun r1' r2' := by
  induction evs with
  | nil => intro r1 r2 r1' hs h; simp only [execEvs] at h ⊢; cases h; exact ⟨r2, rfl, hs⟩
  | cons e es ih =>
    intro r1 r2 r1' hs h
    simp only [execEvs] at h ⊢
    split at h
    · cases h
    · rename_i ra hra
      obtain ⟨rb, hrb, hsb⟩ := execEv_same d st e r1 r2 ra hs hra
      rw [hrb]
      exact ih ra rb r1' hsb h


/-! ### single X events -/

theorem exec_indr (d : Dfsr) (p : Plan) (w : Nat) (hi : IndCtx d p w) (st : Store) (r : Run) (t : Nat) (bs : List Nat)
    (fr : Nat) (x : Int) (hcur : r.cur = some (t, bs)) (hlen : r.ofs + w ≤ bs.length)
    (hx : xDecode d.depthRc (beWord ((bs.drop r.ofs).take w)) = .ok x) (hfr : fr < r.fs.xvec.length) :
    ∃ ops, execEv d st r ⟨.read, w, some fr, none, none⟩
      = .ok ⟨r.cur, r.ofs + w, { r.fs with xvec := r.fs.xvec.set fr (some x) }, ops⟩ := by
  have hl : ((bs.drop r.ofs).take w).length = w := by rw [List.length_take, List.length_drop]; omega
  exact exec_read d st r t bs w fr none none _ hcur hlen (setFrameBytes_indr d p w hi r.fs _ fr x hl hx hfr)

theorem exec_extrap (d : Dfsr) (st : Store) (r : Run) (n fr : Nat) (cf ct : Option Nat) (x sp : Int)
    (hx : r.fs.xvec[if fr = 0 then 0 else fr - 1]? = some (some x)) (hsp : r.fs.frameSpacing = some sp)
    (hfr : fr < r.fs.xvec.length) :
    execEv d st r ⟨.extrap, n, some fr, cf, ct⟩
      = .ok { r with fs := { r.fs with xvec := r.fs.xvec.set fr (some (x + (n : Int) * sp)) } } := by
  unfold execEv
  simp only [hx, hsp, hfr, if_true]

/-- the implied X values following `x`: `x + st·sp, x + 2·st·sp, …` (`m` of them) -/
def xsFrom (x : Int) (st : Nat) (sp : Int) : Nat → List Int
  | 0 => []
  | m + 1 => (x + (st : Int) * sp) :: xsFrom (x + (st : Int) * sp) st sp m

/-- write consecutive X values from index `i` on -/
def setVals (v : List (Option Int)) : Nat → List Int → List (Option Int)
  | _, [] => v
  | i, x :: xs => setVals (v.set i (some x)) (i + 1) xs

theorem setVals_length (v : List (Option Int)) (i : Nat) (xs : List Int) : (setVals v i xs).length = v.length := by
  induction xs generalizing v i with
  | nil => rfl
  | cons x xs ih => simp [setVals, ih]

theorem xsFrom_length (x : Int) (st : Nat) (sp : Int) (m : Nat) : (xsFrom x st sp m).length = m := by
  induction m generalizing x with
  | zero => rfl
  | succ m ih => simp [xsFrom, ih]


/-- **Executing the renumbered frame loop of one record with an indirect word** (any channel subset): every frame's
events succeed and leave X untouched; the EXTRAPOLATE event behind each inter-frame move sets the X of the next loaded
row to the previous one plus `step·spacing`. -/
theorem frameLoop_exec_ind (d : Dfsr) (st : Store) (t : Nat) (bs : List Nat) (n stop step : Nat) (buf : List Nat)
    (frInt : Nat) (p : Plan) (w : Nat) (sp : Int) (c0 : Nat) (rest : List Nat) (pre post : Option Ev) (fevts : List Ev)
    (hi : IndCtx d p w) (hstep : 0 < step)
    (hltc : ∀ c ∈ c0 :: rest, c < d.chans.length) (hsorted : (c0 :: rest).Pairwise (· < ·))
    (hbs : bs.length = 2 + w + n * p.frameSize) (hstop : stop ≤ n)
    (hret : retFrameEvents p (c0 :: rest) = (pre, fevts, post))
    (hinc : ∀ (a b x y : Nat), a < b → buf[a]? = some x → buf[b]? = some y → x < y) :
    ∀ (fuel g j kk : Nat) (r : Run) (xg : Int), g < stop → stop - g ≤ fuel →
      (∀ i, buf[j + i]? = (rangeList g stop step)[i]?) → (kk = j ∨ kk + 1 = j) →
      r.cur = some (t, bs) → r.ofs = 2 + w + g * p.frameSize + p.skipToChStart c0 → r.fs.chIdx = c0 :: rest →
      (∀ row ∈ r.fs.frames, row.length = sumN ((selChans d (c0 :: rest)).map Chan.numValues)) →
      frInt + j + rangeLen g stop step ≤ r.fs.frames.length → r.fs.xvec.length = r.fs.frames.length →
      r.fs.frameSpacing = some sp → r.fs.xvec[frInt + j]? = some (some xg) →
      ∃ r', execEvs d st (renumber buf frInt
          (frameLoop p fevts post (mergedPostFramePre p pre post step) stop step fuel g none) kk) r = .ok r' ∧
        r'.cur = r.cur ∧ r'.fs.chIdx = r.fs.chIdx ∧ r'.fs.frameSpacing = r.fs.frameSpacing ∧
        r'.fs.frames.length = r.fs.frames.length ∧
        (∀ row ∈ r'.fs.frames, row.length = sumN ((selChans d (c0 :: rest)).map Chan.numValues)) ∧
        r'.fs.xvec = setVals r.fs.xvec (frInt + j + 1) (xsFrom xg step sp (rangeLen g stop step - 1)) := by
  have hp : p.sizes = d.chans.map Chan.size := by rw [hi.hp]
  have hpi : p.indr = w := by rw [hi.hp]
  have hok := hi.hok
  have hwpos := hi.hwpos
  obtain ⟨_, _, hhead, hpre, hpost⟩ := retFrameEvents_spec p c0 rest hsorted 0 pre fevts post hret
  have hfne : fevts ≠ [] := by intro h; rw [h] at hhead; simp at hhead
  have hL := lastP1_pos rest c0
  have hfs : p.skipToChStart (lastP1 rest (c0 + 1)) + p.skipToFrameEnd (lastP1 rest (c0 + 1) - 1) = p.frameSize := by
    have := skip_end p (lastP1 rest (c0 + 1) - 1)
    rwa [Nat.sub_add_cancel hL] at this
  have hpostS : sizIs post (p.skipToFrameEnd (lastP1 rest (c0 + 1) - 1)) := by
    unfold sizIs; unfold skipIs at hpost
    cases post with
    | none => exact hpost
    | some e => exact hpost.2
  have hpreS : sizIs pre (p.skipToChStart c0) := by
    unfold sizIs; unfold preIs at hpre
    cases pre with
    | none => simp only at hpre; subst hpre; exact skip_zero p
    | some e => exact hpre.2.1
  have hmf := merged_form p pre post step _ _ hpreS hpostS
  intro fuel
  induction fuel with
  | zero => intro g j kk r xg hg hfuel; omega
  | succ fuel ih =>
    intro g j kk r xg hg hfuel hb hkk hcur hofs hch hrows hN hxl hsp hxg
    have hbj : buf[j]? = some g := by have := hb 0; rwa [rangeList_getElem_zero g stop step hg hstep, Nat.add_zero] at this
    have hlenN := rangeLen_lt g stop step hg hstep
    have hltN : frInt + j < r.fs.frames.length := by omega
    have hg1 : (g + 1) * p.frameSize ≤ n * p.frameSize := Nat.mul_le_mul_right _ (by omega)
    have hg1' : (g + 1) * p.frameSize = g * p.frameSize + p.frameSize := by ring
    -- the events of frame g
    have hctx : FrameCtx d p r t bs (2 + w + g * p.frameSize) (frInt + j) (c0 :: rest) r.fs.frames[frInt + j] :=
      ⟨hp, hok, hcur, by omega, hch, hltc, List.getElem?_eq_getElem hltN, hrows _ (List.getElem_mem hltN)⟩
    obtain ⟨r1, hex1, hcur1, hofs1, hfs1⟩ := frameEvents_exec d p st r t bs (2 + w + g * p.frameSize) (frInt + j) c0 rest _ hctx
      hsorted hofs pre post fevts hret
    have hblock := renumber_block buf frInt g j hbj hinc (fevts.map (fun e => { e with fr := some g })) kk hkk
      (by simpa using hfne) (by intro e he; obtain ⟨x, _, rfl⟩ := List.mem_map.1 he; rfl)
    rw [withFr_map] at hblock
    have hrows1 : ∀ row ∈ r1.fs.frames, row.length = sumN ((selChans d (c0 :: rest)).map Chan.numValues) := by
      intro row' hm
      rw [hfs1] at hm
      rcases List.mem_or_eq_of_mem_set hm with h | h
      · exact hrows _ h
      · rw [h]; simp [rowSel_length]
    have hlen1 : r1.fs.frames.length = r.fs.frames.length := by rw [hfs1]; simp
    have hch1 : r1.fs.chIdx = c0 :: rest := by rw [hfs1]; exact hch
    have hx1 : r1.fs.xvec = r.fs.xvec := by rw [hfs1]
    have hsp1 : r1.fs.frameSpacing = r.fs.frameSpacing := by rw [hfs1]
    have hindr : p.indr > 0 := by omega
    simp only [frameLoop, hg, if_true, hindr]
    cases hem : emitFrame g fevts none with
    | mk evs pend' =>
      have hevs : evs = fevts.map (fun e => { e with fr := some g }) := by
        have := emitFrame_none_eq g fevts; rw [hem] at this; exact this
      subst hevs
      have hpn : pend' = none := by have := (emitFrame_none g fevts 0).1; rw [hem] at this; exact this
      subst hpn
      simp only
      by_cases hlast : g + step ≥ stop
      · simp only [hlast, if_true]
        have hrl0 : rangeLen g stop step - 1 = 0 := by
          have : rangeLen (g + step) stop step = 0 := by simp [rangeLen]; omega
          omega
        rw [renumber_append, hblock.1, hblock.2, execEvs_append, hex1, hrl0]
        simp only [xsFrom, setVals]
        cases post with
        | none => exact ⟨r1, by simp [evAt, renumber, execEvs], hcur1, by rw [hch1, hch], hsp1, hlen1, hrows1, hx1⟩
        | some e =>
          unfold skipIs at hpost
          simp only at hpost
          obtain ⟨ops, hsk⟩ := exec_skip' d st r1 t bs e.siz (some (frInt + j)) e.cf e.ct (by rw [hcur1]; exact hcur)
            (by rw [hofs1, hpost.2]; omega)
          have hst : renumStep buf j { e with fr := some (g + step - step) } = j := by
            have := (renumber_block buf frInt g j hbj hinc [{ e with fr := some g }] j (Or.inl rfl) (by simp) (by simp)).2
            simpa [renumK, Nat.add_sub_cancel] using this
          refine ⟨⟨r1.cur, r1.ofs + e.siz, r1.fs, ops⟩, ?_, hcur1, by rw [hch1, hch], hsp1, hlen1, hrows1, hx1⟩
          simp only [evAt, renumber_cons, hst, renumber, execEvs]
          have : ({ ty := e.ty, siz := e.siz, fr := some (frInt + j), cf := e.cf, ct := e.ct } : Ev)
              = ⟨.skip, e.siz, some (frInt + j), e.cf, e.ct⟩ := by rw [hpost.1]
          rw [this, hsk]
      · simp only [hlast, if_false]
        have hgs : g + step < stop := by omega
        have hmul : (g + step) * p.frameSize = g * p.frameSize + p.frameSize + (step - 1) * p.frameSize := by
          obtain ⟨s', rfl⟩ : ∃ s', step = s' + 1 := ⟨step - 1, by omega⟩
          simp only [Nat.add_sub_cancel]; ring
        have hle2 := skip_le_frame p c0
        have hb1 : buf[j + 1]? = some (g + step) := by
          have := hb 1
          rwa [rangeList_getElem_succ g stop step 0 hg hstep, rangeList_getElem_zero _ _ _ hgs hstep] at this
        have hb' : ∀ i, buf[j + 1 + i]? = (rangeList (g + step) stop step)[i]? := by
          intro i
          have := hb (i + 1)
          rw [rangeList_getElem_succ g stop step i hg hstep] at this
          rw [← this]; congr 1; omega
        have hlen2 := rangeLen_lt (g + step) stop step hgs hstep
        have hN1 : frInt + (j + 1) + rangeLen (g + step) stop step ≤ r1.fs.frames.length := by rw [hlen1]; omega
        have hgs2 : (g + step + 1) * p.frameSize ≤ n * p.frameSize := Nat.mul_le_mul_right _ (by omega)
        have hgs2' : (g + step + 1) * p.frameSize = (g + step) * p.frameSize + p.frameSize := by ring
        have hrlm : rangeLen g stop step - 1 = (rangeLen (g + step) stop step - 1) + 1 := by omega
        -- the move to the next frame and its extrapolation: a block of events labelled g + step
        have hmove : ∃ mv, evAt (mergedPostFramePre p pre post step) (g + step) ++ [(⟨.extrap, step, some (g + step), none, none⟩ : Ev)] = mv ∧
            mv ≠ [] ∧ (∀ e ∈ mv, e.fr = some (g + step)) ∧
            ∃ r2, execEvs d st (withFr (frInt + (j + 1)) mv) r1 = .ok r2 ∧ r2.cur = r1.cur ∧
              r2.ofs = 2 + w + (g + step) * p.frameSize + p.skipToChStart c0 ∧
              r2.fs = { r1.fs with xvec := r1.fs.xvec.set (frInt + (j + 1)) (some (xg + (step : Int) * sp)) } := by
          refine ⟨_, rfl, by simp, ?_, ?_⟩
          · intro e he
            rcases List.mem_append.1 he with h | h
            · cases hm : mergedPostFramePre p pre post step with
              | none => rw [hm] at h; simp [evAt] at h
              | some x => rw [hm] at h; simp [evAt] at h; subst h; rfl
            · simp at h; subst h; rfl
          · have hxsrc : r1.fs.xvec[if frInt + (j + 1) = 0 then 0 else frInt + (j + 1) - 1]? = some (some xg) := by
              have : ¬ frInt + (j + 1) = 0 := by omega
              simp only [this, if_false]
              rw [hx1, show frInt + (j + 1) - 1 = frInt + j by omega]; exact hxg
            rcases hmf with ⟨hnone, hz⟩ | ⟨cf, ct, hsome⟩
            · rw [hnone]
              simp only [evAt, List.nil_append, withFr, List.map_cons, List.map_nil, execEvs]
              rw [exec_extrap d st r1 step (frInt + (j + 1)) none none xg sp hxsrc (by rw [hsp1]; exact hsp) (by rw [hx1, hxl]; omega)]
              exact ⟨_, rfl, rfl, by simp only; rw [hofs1]; omega, rfl⟩
            · rw [hsome]
              obtain ⟨ops, hsk⟩ := exec_skip' d st r1 t bs ((step - 1) * p.frameSize + p.skipToFrameEnd (lastP1 rest (c0 + 1) - 1) + p.skipToChStart c0)
                (some (frInt + (j + 1))) cf ct (by rw [hcur1]; exact hcur) (by rw [hofs1]; omega)
              have hext := exec_extrap d st ⟨r1.cur, r1.ofs + ((step - 1) * p.frameSize + p.skipToFrameEnd (lastP1 rest (c0 + 1) - 1) + p.skipToChStart c0), r1.fs, ops⟩
                step (frInt + (j + 1)) none none xg sp hxsrc (by rw [hsp1]; exact hsp) (by rw [hx1, hxl]; omega)
              simp only [evAt, List.cons_append, List.nil_append, withFr, List.map_cons, List.map_nil, execEvs, hsk, hext]
              exact ⟨_, rfl, rfl, by simp only; rw [hofs1]; omega, rfl⟩
        obtain ⟨mv, hmv, hmvne, hmvfr, r2, hex2, hcur2, hofs2, hfs2⟩ := hmove
        have hblock2 := renumber_block buf frInt (g + step) (j + 1) hb1 hinc mv j (Or.inr rfl) hmvne hmvfr
        have hxl2 : r2.fs.xvec.length = r2.fs.frames.length := by rw [hfs2]; simp only [List.length_set]; rw [hx1, hxl, hlen1]
        obtain ⟨r', hex, hc', hch', hsp', hlen', hrows', hxv'⟩ := ih (g + step) (j + 1) (j + 1) r2 (xg + (step : Int) * sp)
          hgs (by omega) hb' (Or.inl rfl) (by rw [hcur2, hcur1]; exact hcur) hofs2
          (by rw [hfs2]; exact hch1) (by rw [hfs2]; exact hrows1) (by rw [hfs2]; exact hN1) hxl2
          (by rw [hfs2]; simp only; rw [hsp1]; exact hsp)
          (by rw [hfs2]; simp only; rw [List.getElem?_set]; simp; rw [hx1, hxl]; omega)
        refine ⟨r', ?_, by rw [hc', hcur2, hcur1], by rw [hch', hfs2]; simp only; rw [hch1, hch], ?_, ?_, hrows', ?_⟩
        · rw [List.append_assoc, List.append_assoc, renumber_append, hblock.1, hblock.2]
          simp only [execEvs_append, hex1]
          rw [← List.append_assoc, hmv, renumber_append, hblock2.1, hblock2.2]
          simp only [execEvs_append, hex2]
          exact hex
        · rw [hsp', hfs2]; simp only; exact hsp1
        · rw [hlen', hfs2]; simp only; exact hlen1
        · rw [hxv', hfs2, hrlm]
          simp only [xsFrom, setVals, hx1]
          rw [show frInt + (j + 1) + 1 = frInt + j + 1 + 1 by omega, show frInt + (j + 1) = frInt + j + 1 by omega]

end TD.C06
