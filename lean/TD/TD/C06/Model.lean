/-
C06 — model of the LIS log-pass machinery of TotalDepth **as it is in /repo/src**:

* `LIS/core/Type01Plan.py`   `FrameSetPlan` (`numFrames`, `_retFrameEvents`, `_retMergedPostFramePre`, `genEvents`)
* `common/Rle.py`, `LIS/core/Rle.py`   `RLEItem`, `RLE`, `RLEItemType01`, `RLEType01`
* `LIS/core/LogPass.py`      `addType01Data`, `_retFrameSetMap`, `_sliceFromList`, `_genFrameSetEvents`, `setFrameSet`
* `LIS/core/FrameSet.py`     the constructor (channel subset, frame count, frame spacing), `setFrameBytes`, `setIndirectX`
* `LIS/core/LogiRec.py`      `EntryBlockSet.readFromFile`, `DatumSpecBlockRead`, `LrDFSRRead`, `CbEngValRead`
* `LIS/core/FileIndexer.py`  `FileIndex.__init__` dispatch, `IndexLogPass.add`

Core Lean only.  Everything is structurally recursive (fuel where Python loops) so that `decide` can run it.

Conventions
* A file is seen at the *logical record* level: a list of `(tell, bytes)` where `bytes` is the whole logical record
  including the two header bytes.  The physical layer (`PhysRec`/`File`) is C05's subject.
* Channel values are kept as **raw words** (big-endian naturals of `wordLength` bytes); the numeric decoding of
  representation codes is C07's subject.  Only the X axis needs numbers (extrapolation arithmetic): it is decoded for
  the integer codes 56/66/73/79 and for code 68 when the value is an integer; everything else is `Err.unsupported`.
  X arithmetic is then exact `Int` arithmetic (numpy float64 is exact on integers below 2^53).
* Frame numbers, channel indices and slice members are naturals (`x or d` of Python maps `None` and `0` to `d`).
-/
namespace TD.C06

inductive Err where
  | negLen | fracFrames | overrun | indexError | logPass | logPassCtor | zeroDiv | frameSet | fileRead
  | repCode | lr | dsb | cbInit | assertion | typeError | unsupported
  deriving Repr, DecidableEq

/-! ## Representation code sizes (`pRepCode.RC_SIZE_MAP`, `wordLength`) -/

def lisSize (rc : Nat) : Option Nat :=
  if rc = 49 then some 2 else if rc = 50 then some 4 else if rc = 56 then some 1 else if rc = 65 then some 0
  else if rc = 66 then some 1 else if rc = 68 then some 4 else if rc = 70 then some 4 else if rc = 73 then some 4
  else if rc = 77 then some 1 else if rc = 79 then some 2 else if rc = 130 then some 80 else if rc = 234 then some 90
  else none

/-- big-endian word of a byte list -/
def beWord (bs : List Nat) : Nat := bs.foldl (fun acc b => acc * 256 + b) 0

/-- `from68` (pRepCode): mantissa × 2^exp as an integer when it is one. -/
def dec68Int (w : Nat) : Option Int :=
  let neg := w / 2147483648 % 2 = 1
  let frac : Int := (w % 8388608 : Nat)
  let mant : Int := if neg then frac - 8388608 else frac
  let e : Nat := w / 8388608 % 256
  -- neg: exp = 104 - e ; pos: exp = e - 151
  if mant = 0 then some 0 else
  if neg then
    (if e ≤ 104 then some (mant * (2 ^ (104 - e) : Nat)) else
      let d : Int := (2 ^ (e - 104) : Nat)
      if mant % d = 0 then some (mant / d) else none)
  else
    (if 151 ≤ e then some (mant * (2 ^ (e - 151) : Nat)) else
      let d : Int := (2 ^ (151 - e) : Nat)
      if mant % d = 0 then some (mant / d) else none)

/-- decode an X-axis / entry-block word to an integer (only what the X arithmetic needs) -/
def xDecode (rc : Nat) (w : Nat) : Except Err Int :=
  if rc = 66 then .ok (w : Int)
  else if rc = 56 then .ok (if w < 128 then (w : Int) else (w : Int) - 256)
  else if rc = 79 then .ok (if w < 32768 then (w : Int) else (w : Int) - 65536)
  else if rc = 73 then .ok (if w < 2147483648 then (w : Int) else (w : Int) - 4294967296)
  else if rc = 68 then (match dec68Int w with | some v => .ok v | none => .error .unsupported)
  else match lisSize rc with
    | none => .error .repCode
    | some _ => .error .unsupported

/-! ## `Type01Plan.FrameSetPlan` -/

structure Plan where
  indr : Nat            -- `_indirectSize`
  sizes : List Nat      -- `_channelSizes`
  deriving Repr, DecidableEq

def sumN : List Nat → Nat
  | [] => 0
  | x :: xs => x + sumN xs

namespace Plan
def frameSize (p : Plan) : Nat := sumN p.sizes
def numChannels (p : Plan) : Nat := p.sizes.length
def chSize (p : Plan) (c : Nat) : Nat := p.sizes.getD c 0
/-- `_skipToChStart[c]` -/
def skipToChStart (p : Plan) (c : Nat) : Nat := sumN (p.sizes.take c)
/-- `_skipToFrameEnd[c]` -/
def skipToFrameEnd (p : Plan) (c : Nat) : Nat := p.frameSize - sumN (p.sizes.take (c + 1))

/-- `numFrames(recLen)`; `recLen < indirectSize` cannot be reached through the indexer and is left unsupported. -/
def numFrames (p : Plan) (recLen : Nat) : Except Err Nat :=
  if recLen < p.indr then .error .unsupported else
  let myLen := recLen - p.indr
  if p.frameSize = 0 then .error .zeroDiv else
  if myLen % p.frameSize ≠ 0 then .error .fracFrames else .ok (myLen / p.frameSize)
end Plan

inductive Ty where
  | read | skip | extrap | seekLr
  deriving Repr, DecidableEq

/-- the 5-tuples `(type, size, frame, chFrom, chTo)` -/
structure Ev where
  ty : Ty
  siz : Nat
  fr : Option Nat
  cf : Option Nat
  ct : Option Nat
  deriving Repr, DecidableEq

def insertSorted (x : Nat) : List Nat → List Nat
  | [] => [x]
  | y :: ys => if x < y then x :: y :: ys else if x = y then y :: ys else y :: insertSorted x ys

/-- `sorted(list(set(l)))` -/
def sortDedup (l : List Nat) : List Nat := l.foldr insertSorted []

/-- `_checkChIdx` (negative channel numbers are outside the model) -/
def checkChIdx (p : Plan) (l : List Nat) : Except Err (List Nat) :=
  let m := sortDedup l
  match m.getLast? with
  | some x => if x ≥ p.numChannels then .error .overrun else .ok m
  | none => .ok m

/-- The `for chIdx in theChIndexS` loop of `_retFrameEvents`.  `stopP1` is Python's `chStop + 1` (Python starts with
`chStop = first - 1`, which can be -1). Returns the accumulated events and the final `(chStart, stopP1, siz)`. -/
def frameEvLoop (p : Plan) : List Nat → Nat → Nat → Nat → List Ev → List Ev × Nat × Nat × Nat
  | [], chStart, stopP1, siz, acc => (acc, chStart, stopP1, siz)
  | c :: cs, chStart, stopP1, siz, acc =>
    if c = stopP1 then
      frameEvLoop p cs chStart (c + 1) (siz + p.chSize c) acc
    else
      let acc1 := if stopP1 > chStart then acc ++ [⟨.read, siz, none, some chStart, some (stopP1 - 1)⟩] else acc
      let sk := p.skipToChStart c - p.skipToChStart stopP1
      let acc2 := acc1 ++ [⟨.skip, sk, none, some stopP1, some (c - 1)⟩]
      frameEvLoop p cs c (c + 1) (p.chSize c) acc2

/-- `_retFrameEvents(theChIndexS)` for a non-empty sorted list: `(pre, events, post)` -/
def retFrameEvents (p : Plan) (chans : List Nat) : Option Ev × List Ev × Option Ev :=
  match chans with
  | [] => (none, [], none)
  | c0 :: _ =>
    let pre : Option Ev := if c0 > 0 then some ⟨.skip, p.skipToChStart c0, none, some 0, some (c0 - 1)⟩ else none
    let (acc, chStart, stopP1, siz) := frameEvLoop p chans c0 c0 0 []
    let evs := if stopP1 > chStart then acc ++ [⟨.read, siz, none, some chStart, some (stopP1 - 1)⟩] else acc
    let last := chans.getLast?.getD c0
    let e := p.skipToFrameEnd last
    let post : Option Ev := if e > 0 then some ⟨.skip, e, none, some (last + 1), some (p.numChannels - 1)⟩ else none
    (pre, evs, post)

/-- `_retMergedPostFramePre(thePre, thePost, theFstep)` -/
def mergedPostFramePre (p : Plan) (pre post : Option Ev) (fstep : Nat) : Option Ev :=
  let siz := (if fstep > 1 then (fstep - 1) * p.frameSize else 0)
    + (match post with | some e => e.siz | none => 0) + (match pre with | some e => e.siz | none => 0)
  match post, pre with
  | some po, some pr => some ⟨.skip, siz, none, po.cf, pr.ct⟩
  | some po, none => some ⟨.skip, siz, none, po.cf, po.ct⟩
  | none, some pr => some ⟨.skip, siz, none, pr.cf, pr.ct⟩
  | none, none => if siz > 0 then some ⟨.skip, siz, none, none, none⟩ else none

/-- the `for typ, siz, chStart, chStop in myFevts` loop: `pend` is `myIndrReadEvt[1]` when not yet emitted -/
def emitFrame (f : Nat) : List Ev → Option Nat → List Ev × Option Nat
  | [], pend => ([], pend)
  | e :: es, pend =>
    match pend with
    | none => let (r, q) := emitFrame f es none; ({ e with fr := some f } :: r, q)
    | some isz => let (r, q) := emitFrame f es none; (⟨e.ty, isz + e.siz, some f, none, e.ct⟩ :: r, q)

/-- the optional event `e` with its frame number set to `g` -/
def evAt (e : Option Ev) (g : Nat) : List Ev :=
  match e with
  | some e => [{ e with fr := some g }]
  | none => []

/-- the `while f < fSlice.stop` loop of `genEvents` (fuel = number of iterations still possible) -/
def frameLoop (p : Plan) (fevts : List Ev) (post inter : Option Ev) (stop step : Nat) :
    Nat → Nat → Option Nat → List Ev
  | 0, _, _ => []
  | fuel + 1, f, pend =>
    if f < stop then
      let (evs, pend') := emitFrame f fevts pend
      let f' := f + step
      if f' ≥ stop then
        evs ++ evAt post (f' - step)
      else
        evs ++ evAt inter f'
          ++ (if p.indr > 0 then [⟨.extrap, step, some f', none, none⟩] else [])
          ++ frameLoop p fevts post inter stop step fuel f' pend'
    else []

/-- `genEvents(theFSlice, theChIndexS)`; `start0`/`step0` are the raw slice members (`or` defaults applied here). -/
def genEvents (p : Plan) (start0 stop step0 : Nat) (chans : List Nat) : Except Err (List Ev) :=
  let start := start0
  let step := if step0 = 0 then 1 else step0
  match checkChIdx p chans with
  | .error e => .error e
  | .ok cs =>
    if cs.length > 0 ∧ stop > start then
      let (pre, fevts, post) := retFrameEvents p cs
      let inter := mergedPostFramePre p pre post step
      -- first part: indirect read / extrapolate / move to the first channel
      let indrEv : Ev := ⟨.read, p.indr, none, none, none⟩
      let (head, pend) : List Ev × Option Nat :=
        match pre with
        | some pr =>
          let h1 := if p.indr > 0 then
              [indrEv] ++ (if start > 0 then [⟨.extrap, start, some start, none, none⟩] else [])
            else []
          (h1 ++ [⟨pr.ty, start * p.frameSize + pr.siz, some start, pr.cf, pr.ct⟩], none)
        | none =>
          if start > 0 then
            ((if p.indr > 0 then [indrEv] else [])
              ++ [⟨.skip, start * p.frameSize, some start, none, some 0⟩]
              ++ (if p.indr > 0 then [⟨.extrap, start, some start, none, none⟩] else []), none)
          else ([], if p.indr > 0 then some p.indr else none)
      .ok (head ++ frameLoop p fevts post inter stop step (stop - start) start pend)
    else .ok []

/-! ## Run length encoding (`common/Rle.py`, `LIS/core/Rle.py`) -/

structure RItem where
  datum : Int
  stride : Int
  rep : Nat
  deriving Repr, DecidableEq

namespace RItem
/-- `RLEItem.add` for integer values: `some` = absorbed -/
def add (r : RItem) (v : Int) : Option RItem :=
  if r.rep = 0 then some { r with stride := v - r.datum, rep := 1 }
  else if v = r.datum + r.stride * ((r.rep : Int) + 1) then some { r with rep := r.rep + 1 }
  else none
/-- `RLEItem.value(i)` for `i ≥ 0`: `(i', value or None)` -/
def value (r : RItem) (i : Nat) : Nat × Option Int :=
  if i > r.rep then (i - r.rep - 1, none)
  else if r.rep = 0 then (i, some r.datum) else (i, some (r.datum + (i : Int) * r.stride))
def last (r : RItem) : Int := if r.rep = 0 then r.datum else r.datum + r.stride * (r.rep : Int)
end RItem

/-- `RLE.add` -/
def rleAdd : List RItem → Int → List RItem
  | [], v => [⟨v, 0, 0⟩]
  | [r], v => match r.add v with
    | some r' => [r']
    | none => [r, ⟨v, 0, 0⟩]
  | r :: rs, v => r :: rleAdd rs v

/-- `RLEItemType01` -/
structure Item01 where
  pos : RItem
  numFrames : Nat
  xs : List RItem
  deriving Repr, DecidableEq

namespace Item01
def mk1 (tell : Int) (n : Nat) (x : Int) : Item01 := ⟨⟨tell, 0, 0⟩, n, rleAdd [] x⟩
/-- `RLEItemType01.add`: `some` = absorbed -/
def add (it : Item01) (tell : Int) (n : Nat) (x : Int) : Option Item01 :=
  if n ≠ it.numFrames then none else
  match it.pos.add tell with
  | none => none
  | some p' => some { it with pos := p', xs := rleAdd it.xs x }
def totalFrames (it : Item01) : Nat := it.numFrames * (it.pos.rep + 1)
/-- `RLEItemType01.tellLrForFrame(fNum)`: `(fNum', lrSeek or None)`; note the `<=` of the code; records without
frames hold no frame number -/
def tellLrForFrame (it : Item01) (fNum : Nat) : Except Err (Nat × Option Int) :=
  if it.numFrames = 0 then .ok (fNum, none) else
  if fNum ≤ it.totalFrames then .ok (fNum % it.numFrames, (it.pos.value (fNum / it.numFrames)).2)
  else .ok (fNum - it.totalFrames, none)
end Item01

/-- `RLEType01.add` -/
def rle01Add : List Item01 → Int → Nat → Int → List Item01
  | [], t, n, x => [Item01.mk1 t n x]
  | [it], t, n, x => match it.add t n x with
    | some it' => [it']
    | none => [it, Item01.mk1 t n x]
  | it :: its, t, n, x => it :: rle01Add its t n x

/-- `RLEType01.tellLrForFrame(fNum)`: `(lrSeek, frameOffset)` -/
def rle01Tell : List Item01 → Nat → Except Err (Int × Nat)
  | [], _ => .error .indexError
  | it :: its, fNum =>
    match it.tellLrForFrame fNum with
    | .error e => .error e
    | .ok (f', some v) => .ok (v, f')
    | .ok (f', none) => rle01Tell its f'

def rle01Total : List Item01 → Nat
  | [] => 0
  | it :: its => it.totalFrames + rle01Total its

/-- `xAxisFirst()` -/
def rle01XFirst (l : List Item01) : Option Int :=
  match l with
  | [] => none
  | it :: _ => (it.xs.head?).map (·.datum)

/-- `xAxisLast()`: the X value at the start of the last logical record -/
def rle01XLast (l : List Item01) : Option Int :=
  match l.getLast? with
  | none => none
  | some it => (it.xs.getLast?).map RItem.last

/-- `frameSpacing()` as an exact fraction `(numerator, denominator)`; Python returns the float quotient -/
def rle01Spacing (l : List Item01) : Option (Int × Nat) :=
  match l.getLast?, rle01XFirst l, rle01XLast l with
  | some it, some x0, some xl =>
    let total := rle01Total l
    let divisor := total - it.numFrames
    if total > 1 ∧ divisor ≠ 0 then some (xl - x0, divisor) else none
  | _, _, _ => none

/-- `xAxisLastFrame()` as an exact fraction -/
def rle01XLastFrame (l : List Item01) : Option (Int × Nat) :=
  match l.getLast?, rle01Spacing l, rle01XLast l with
  | some it, some (num, den), some xl => some (xl * den + ((it.numFrames : Int) - 1) * num, den)
  | _, _, _ => none

/-! ## DFSR summary, FrameSet and LogPass -/

structure Chan where
  size : Nat
  samples : Nat
  rc : Nat
  deriving Repr, DecidableEq

namespace Chan
def wordLen (c : Chan) : Nat := (lisSize c.rc).getD 0
/-- `_bursts` -/
def bursts (c : Chan) : Nat := c.size / (c.wordLen * c.samples)
/-- `ChArTe.numValues` (one sub-channel) -/
def numValues (c : Chan) : Nat := c.samples * c.bursts
end Chan

structure Dfsr where
  dataType : Nat
  recMode : Nat
  depthRc : Nat
  upDown : Nat
  spacing : Option Int          -- entry block 8 (None when absent)
  spacingUnits : Option (List Nat)
  depthUnits : Option (List Nat)
  chans : List Chan
  deriving Repr, DecidableEq

def Dfsr.plan (d : Dfsr) : Except Err Plan :=
  if d.recMode ≠ 0 then
    match lisSize d.depthRc with
    | some s => .ok ⟨s, d.chans.map (·.size)⟩
    | none => .error .repCode
  else .ok ⟨0, d.chans.map (·.size)⟩

/-- the loaded frame set: matrix of raw words (`none` = never written, numpy.empty), implied-X vector -/
structure FrameSet where
  chIdx : List Nat                      -- `_chIdxIntExt`
  nFrames : Nat
  frames : List (List (Option Nat))
  xvec : List (Option Int)
  frameSpacing : Option Int             -- `_frameSpacing`
  deriving Repr, DecidableEq

structure LogPass where
  dfsr : Dfsr
  plan : Plan
  xAxisIndex : Nat
  rle : List Item01
  frameSet : Option FrameSet
  deriving Repr, DecidableEq

def LogPass.isIndirectX (lp : LogPass) : Bool := lp.dfsr.recMode = 1

/-- `LogPass.__init__` -/
def LogPass.new (d : Dfsr) (xAxisIndex : Nat) : Except Err LogPass :=
  if d.chans.length = 0 then .error .logPassCtor
  else if xAxisIndex ≥ d.chans.length then .error .logPassCtor
  else match d.plan with
    | .error e => .error e
    | .ok p => .ok ⟨d, p, xAxisIndex, [], none⟩

/-- `addType01Data(tellLr, lrType, lrLen, xAxisVal)` -/
def LogPass.addType01Data (lp : LogPass) (tell : Nat) (lrType : Nat) (lrLen : Nat) (x : Int) : Except Err LogPass :=
  if lp.dfsr.dataType ≠ lrType then .error .logPass else
  match lp.plan.numFrames lrLen with
  | .error e => .error e
  | .ok n => .ok { lp with rle := rle01Add lp.rle tell n x }

/-- a frame slice as passed by the caller: `none` = `None`; members `0` stand for `None` or `0` -/
structure Sl where
  start : Nat
  stop : Nat
  step : Nat
  deriving Repr, DecidableEq

def Sl.step1 (s : Sl) : Nat := if s.step = 0 then 1 else s.step

/-- `len(range(start, stop, step))`, step ≥ 1 -/
def rangeLen (start stop step : Nat) : Nat := if start < stop then (stop - start - 1) / step + 1 else 0

/-- `list(range(start, stop, step))` -/
def rangeList (start stop step : Nat) : List Nat := (List.range (rangeLen start stop step)).map (fun i => start + i * step)

/-- insertion into the `{seek : [offsets]}` dict of `_retFrameSetMap` (appends to an existing key) -/
def mapAppend : List (Int × List Nat) → Int → Nat → List (Int × List Nat)
  | [], k, v => [(k, [v])]
  | (k', vs) :: rest, k, v => if k' = k then (k', vs ++ [v]) :: rest else (k', vs) :: mapAppend rest k v

/-- `_retFrameSetMap` over an explicit list of frame numbers -/
def retFrameSetMapAux (rle : List Item01) : List Nat → List (Int × List Nat) → Except Err (List (Int × List Nat))
  | [], m => .ok m
  | f :: fs, m =>
    match rle01Tell rle f with
    | .error e => .error e
    | .ok (seek, off) => retFrameSetMapAux rle fs (mapAppend m seek off)

def insertByKey (x : Int × List Nat) : List (Int × List Nat) → List (Int × List Nat)
  | [] => [x]
  | y :: ys => if x.1 < y.1 then x :: y :: ys else y :: insertByKey x ys

/-- `sorted(mySeFrMap.keys())` with their buffers -/
def sortByKey (l : List (Int × List Nat)) : List (Int × List Nat) := l.foldr insertByKey []

def retFrameSetMap (lp : LogPass) (sl : Sl) : Except Err (List (Int × List Nat)) :=
  match retFrameSetMapAux lp.rle (rangeList sl.start sl.stop sl.step1) [] with
  | .error e => .error e
  | .ok m => .ok (sortByKey m)

/-- `_sliceFromList(theL)` → `(start, stop, step)` -/
def sliceFromList (l : List Nat) : Except Err (Nat × Nat × Nat) :=
  match l with
  | [] => .error .logPass
  | [a] => .ok (a, a + 1, 1)
  | a :: _ =>
    let myMin := a
    let myMax := l.getLast?.getD a + 1
    if (l.length - 1) = 0 then .error .zeroDiv else
    let myStep := (myMax - 1 - myMin) / (l.length - 1)
    if myStep = 0 then .error .zeroDiv else
    if (myMax - 1 - myMin) % myStep ≠ 0 then .error .assertion else
    .ok (myMin, myMax, myStep)

/-- the inner loop of `_genFrameSetEvents`: renumber the frames of one record -/
def renumber (buf : List Nat) (frInt : Nat) : List Ev → Nat → List Ev
  | [], _ => []
  | e :: es, k =>
    let k' := if k + 1 < buf.length ∧ (buf[k + 1]? = e.fr ∧ e.fr.isSome) then k + 1 else k
    { e with fr := some (frInt + k') } :: renumber buf frInt es k'

/-- `_genFrameSetEvents` over the sorted map -/
def genFrameSetEventsAux (p : Plan) (chans : List Nat) : List (Int × List Nat) → Nat → Except Err (List Ev)
  | [], _ => .ok []
  | (seek, buf) :: rest, frInt =>
    match sliceFromList buf with
    | .error e => .error e
    | .ok (a, b, c) =>
      match genEvents p a b c chans with
      | .error e => .error e
      | .ok evs =>
        match genFrameSetEventsAux p chans rest (frInt + buf.length) with
        | .error e => .error e
        | .ok tl => .ok (⟨.seekLr, seek.toNat, none, none, none⟩ :: renumber buf frInt evs 0 ++ tl)

def genFrameSetEvents (lp : LogPass) (sl : Sl) (chans : List Nat) : Except Err (List Ev) :=
  match retFrameSetMap lp sl with
  | .error e => .error e
  | .ok m => genFrameSetEventsAux lp.plan chans m 0

/-- `FrameSet.__init__` (what `setFrameSet` needs of it) -/
def FrameSet.new (d : Dfsr) (sl : Sl) (chList : Option (List Nat)) (xAxisIndex : Nat) : Except Err FrameSet :=
  let indirect : Bool := d.recMode = 1
  let chS : Option (List Nat) := match chList with
    | some l => if indirect then some l else some (l ++ [xAxisIndex])
    | none => none
  let chIdx : List Nat := match chS with
    | none => List.range d.chans.length
    | some l => sortDedup l
  if chIdx.any (fun e => e ≥ d.chans.length) then .error .indexError else
  let vpf := sumN (chIdx.map (fun e => ((d.chans[e]?).map Chan.numValues).getD 0))
  let n := rangeLen sl.start sl.stop sl.step1
  let fsp : Except Err (Option Int) :=
    if d.recMode ≠ 0 then
      if d.spacingUnits ≠ d.depthUnits then .error .unsupported
      else match d.spacing with
        | none => .error .typeError
        | some s => .ok (some (if d.upDown = 1 then -(s.natAbs : Int) else (s.natAbs : Int)))
    else .ok none
  match fsp with
  | .error e => .error e
  | .ok sp =>
    .ok ⟨chIdx, n, List.replicate n (List.replicate vpf none),
         if d.recMode ≠ 0 then List.replicate n none else [], sp⟩

/-- split a byte list into `k` words of `w` bytes (fuel = k) -/
def takeWords (w : Nat) : Nat → List Nat → List Nat
  | 0, _ => []
  | k + 1, bs => beWord (bs.take w) :: takeWords w k (bs.drop w)

def listIndexOf (l : List Nat) (x : Nat) : Option Nat :=
  match l with
  | [] => none
  | y :: ys => if y = x then some 0 else (listIndexOf ys x).map (· + 1)

/-- `row[pos:pos+len(ws)] = ws` -/
def writeAt (row : List (Option Nat)) (pos : Nat) (ws : List Nat) : List (Option Nat) :=
  row.take pos ++ ws.map some ++ row.drop (pos + ws.length)

/-- first value index of internal channel `ci` (`_intChValIdxS[ci]`) -/
def FrameSet.valIdx (d : Dfsr) (fs : FrameSet) (ci : Nat) : Nat :=
  sumN ((fs.chIdx.take ci).map (fun e => ((d.chans[e]?).map Chan.numValues).getD 0))

/-- the `for chExt in range(chFrom, chTo+1)` loop of `setFrameBytes`: collects the words of the internal channels
`ci, ci+1, …` (fuel = number of channels). Returns `(words, bytes consumed)`. -/
def chanWords (d : Dfsr) (fs : FrameSet) : Nat → Nat → List Nat → Except Err (List Nat × Nat)
  | 0, _, _ => .ok ([], 0)
  | k + 1, ci, bs =>
    match fs.chIdx[ci]? with
    | none => .error .indexError
    | some e =>
      match d.chans[e]? with
      | none => .error .indexError
      | some c =>
        let nb := c.numValues * c.wordLen
        -- a short slice makes `RepCode.readBytes` fail (struct.error → ExceptionFrameSet)
        if bs.length < nb then .error .frameSet else
        match chanWords d fs k (ci + 1) (bs.drop nb) with
        | .error err => .error err
        | .ok (ws, used) => .ok (takeWords c.wordLen c.numValues bs ++ ws, nb + used)

/-- `setFrameBytes(by, fr, chFrom, chTo)` -/
def FrameSet.setFrameBytes (d : Dfsr) (fs : FrameSet) (by_ : List Nat) (fr : Nat) (cf ct : Option Nat) :
    Except Err FrameSet :=
  -- indirect X word first
  let r1 : Except Err (FrameSet × Nat × Nat) :=
    match cf with
    | none =>
      if d.recMode ≠ 1 then .error .frameSet else
      match lisSize d.depthRc with
      | none => .error .repCode
      | some w =>
        if by_.length < w then .error .frameSet else
        match xDecode d.depthRc (beWord (by_.take w)) with
        | .error e => .error e
        | .ok x => if fr < fs.xvec.length then .ok ({ fs with xvec := fs.xvec.set fr (some x) }, w, 0) else .error .indexError
    | some c => .ok (fs, 0, c)
  match r1 with
  | .error e => .error e
  | .ok (fs1, byOfs, chFrom) =>
    match ct with
    | none => if byOfs ≠ by_.length then .error .frameSet else .ok fs1
    | some chTo =>
      match listIndexOf fs1.chIdx chFrom with
      | none => .error .indexError
      | some ci =>
        match chanWords d fs1 (chTo + 1 - chFrom) ci (by_.drop byOfs) with
        | .error e => .error e
        | .ok (ws, used) =>
          if byOfs + used ≠ by_.length then .error .frameSet else
          match fs1.frames[fr]? with
          | none => .error .indexError
          | some row =>
            let pos := FrameSet.valIdx d fs1 ci
            if pos + ws.length > row.length then .error .indexError else
            .ok { fs1 with frames := fs1.frames.set fr (writeAt row pos ws) }

/-- what the interpreter did to the file, in order -/
inductive Op where
  | seek (tell : Nat)
  | read (tell ofs len : Nat)     -- bytes `[ofs, ofs+len)` of the logical record at `tell` (header included)
  | skip (n : Nat)
  deriving Repr, DecidableEq

structure Run where
  cur : Option (Nat × List Nat)   -- current logical record `(tell, bytes)`
  ofs : Nat
  fs : FrameSet
  ops : List Op                   -- reversed
  deriving Repr

abbrev Store := List (Nat × List Nat)

def Store.find (st : Store) (tell : Nat) : Option (List Nat) :=
  match st with
  | [] => none
  | (t, b) :: rest => if t = tell then some b else Store.find rest tell

/-- `theFile.readLrBytes(n)` on the current record -/
def Run.read (r : Run) (n : Nat) : Except Err (List Nat × Run) :=
  match r.cur with
  | none => .error .fileRead
  | some (tell, bs) =>
    if r.ofs + n > bs.length then .error .fileRead else
    .ok ((bs.drop r.ofs).take n, { r with ofs := r.ofs + n, ops := Op.read tell r.ofs n :: r.ops })

/-- one event of the `for ty, siz, frInt, chFrom, chTo in …` loop of `setFrameSet` -/
def execEv (d : Dfsr) (st : Store) (r : Run) (e : Ev) : Except Err Run :=
  match e.ty with
  | .seekLr =>
    match st.find e.siz with
    | none => .error .fileRead
    | some bs =>
      let r1 : Run := { r with cur := some (e.siz, bs), ofs := 0, ops := Op.seek e.siz :: r.ops }
      match r1.read 2 with
      | .error err => .error err
      | .ok (h, r2) => if h.head? ≠ some d.dataType then .error .logPass else .ok r2
  | .extrap =>
    match e.fr with
    | none => .error .typeError
    | some frInt =>
      let src := if frInt = 0 then 0 else frInt - 1
      match r.fs.xvec[src]?, r.fs.frameSpacing with
      | some (some x), some sp =>
        if frInt < r.fs.xvec.length then
          .ok { r with fs := { r.fs with xvec := r.fs.xvec.set frInt (some (x + (e.siz : Int) * sp)) } }
        else .error .indexError
      | some none, some _ => .error .unsupported     -- reading an uninitialised numpy cell
      | _, _ => .error .indexError
  | .skip =>
    match r.cur with
    | none => .error .fileRead
    | some (_, bs) => .ok { r with ofs := min bs.length (r.ofs + e.siz), ops := Op.skip e.siz :: r.ops }
  | .read =>
    match r.read e.siz with
    | .error err => .error err
    | .ok (by_, r1) =>
      match e.fr with
      | none => .error .typeError
      | some fr =>
        match FrameSet.setFrameBytes d r1.fs by_ fr e.cf e.ct with
        | .error err => .error err
        | .ok fs' => .ok { r1 with fs := fs' }

def execEvs (d : Dfsr) (st : Store) : List Ev → Run → Except Err Run
  | [], r => .ok r
  | e :: es, r => match execEv d st r e with
    | .error err => .error err
    | .ok r' => execEvs d st es r'

/-- `theFrSl or slice(0, self._rle.totalFrames(), 1)` (a slice object is always true) -/
def slOrAll (sl : Option Sl) (total : Nat) : Sl :=
  match sl with
  | some s => s
  | none => ⟨0, total, 1⟩

/-- `setFrameSet(theFile, theFrSl, theChList)`: new log pass state and the file operations performed (or the
exception).  The state is returned in the error case too: `self._frameSet = None` is executed before `FrameSet(...)`,
so a failing constructor leaves `None`; a failure later leaves the (partially filled) new frame set. -/
def setFrameSet (lp : LogPass) (st : Store) (sl : Option Sl) (chList : Option (List Nat)) :
    LogPass × Except Err (List Op) :=
  let total := rle01Total lp.rle
  if total = 0 then (lp, .error .logPass) else
  let mySl : Sl := slOrAll sl total
  match FrameSet.new lp.dfsr mySl chList lp.xAxisIndex with
  | .error e => ({ lp with frameSet := none }, .error e)
  | .ok fs =>
    if fs.nFrames = 0 then ({ lp with frameSet := some fs }, .ok []) else
    match genFrameSetEvents lp mySl fs.chIdx with
    | .error e => ({ lp with frameSet := some fs }, .error e)
    | .ok evs =>
      match execEvs lp.dfsr st evs ⟨none, 0, fs, []⟩ with
      | .error e => ({ lp with frameSet := some fs }, .error e)
      | .ok r => ({ lp with frameSet := some r.fs }, .ok r.ops.reverse)

/-! ## DFSR reading (`LrDFSRRead`) -/

inductive EbVal where
  | none
  | int (v : Int)
  | bytes (b : List Nat)
  | other (rc : Nat) (w : Nat)     -- a number the model does not decode (non-integer 68, 49, 50, 70, 77)
  deriving Repr, DecidableEq

/-- entry-block table: `(type, value)` for the types the log pass uses; later blocks overwrite earlier ones -/
abbrev EbSet := List (Nat × EbVal)

def EbSet.get (s : EbSet) (t : Nat) (dflt : EbVal) : EbVal :=
  match s with
  | [] => dflt
  | (t', v) :: rest => if t' = t then v else EbSet.get rest t dflt

def EbSet.set (s : EbSet) (t : Nat) (v : EbVal) : EbSet :=
  match s with
  | [] => [(t, v)]
  | (t', v') :: rest => if t' = t then (t, v) :: rest else (t', v') :: EbSet.set rest t v

/-- `EntryBlockRead`: value of a block of rep code `r`, size `s` at the head of `bs`: `(value, rest)` -/
def readEbVal (r s : Nat) (bs : List Nat) : Except Err (EbVal × List Nat) :=
  if s = 0 then .ok (.none, bs) else
  if r = 65 then .ok (.bytes (bs.take s), bs.drop s) else
  match lisSize r with
  | none => .error .repCode
  | some w =>
    if w = 0 ∨ w > 4 then .error .repCode else     -- 130/234 have no reader in READ_FILE_DESPATCH_MAP
    if bs.length < w then .error .fileRead else
    let word := beWord (bs.take w)
    match xDecode r word with
    | .ok v => .ok (.int v, bs.drop w)
    | .error _ => .ok (.other r word, bs.drop w)

/-- `EntryBlockSet.readFromFile`: fuel = number of bytes -/
def readEbs : Nat → List Nat → EbSet → Except Err (EbSet × List Nat)
  | 0, bs, s => .ok (s, bs)
  | fuel + 1, bs, s =>
    if bs.isEmpty then .ok (s, bs) else
    match bs with
    | t :: sz :: r :: rest =>
      match readEbVal r sz rest with
      | .error e => .error e
      | .ok (v, rest') =>
        let s' := if t ≤ 16 ∧ t ≠ 10 then s.set t v else s
        if t = 0 then .ok (s', rest') else readEbs fuel rest' s'
    | _ => .error .fileRead

/-- `DatumSpecBlockRead` of the 40 bytes `b` (struct `>4s6s8s4sI2h3x2B5x`) -/
def readDsb (b : List Nat) : Except Err Chan :=
  let size := beWord ((b.drop 28).take 2)
  let samples := (b.drop 33).headD 0
  let rc := (b.drop 34).headD 0
  if size ≥ 32768 then .error .unsupported else          -- negative `h`
  if rc = 130 ∨ rc = 234 then .error .unsupported else   -- dipmeter channels are outside the model
  if size > 0 then
    match lisSize rc with
    | none => .error .repCode
    | some w =>
      if w * samples = 0 then .error .zeroDiv else
      if size % (w * samples) ≠ 0 then .error .dsb else .ok ⟨size, samples, rc⟩
  else .ok ⟨0, samples, rc⟩

/-- the `while theFile.hasLd()` loop over the datum spec blocks (fuel = bytes) -/
def readDsbs : Nat → List Nat → Except Err (List Chan)
  | 0, _ => .ok []
  | fuel + 1, bs =>
    if bs.isEmpty then .ok [] else
    if bs.length < 40 then .error .fileRead else
    match readDsb (bs.take 40) with
    | .error e => .error e
    | .ok c =>
      match readDsbs fuel (bs.drop 40) with
      | .error e => .error e
      | .ok cs => .ok (if c.size = 0 then cs else c :: cs)

def ebInt (s : EbSet) (t : Nat) (dflt : Int) : Except Err Int :=
  match s.get t (.int dflt) with
  | .int v => .ok v
  | _ => .error .unsupported

def ebUnits (s : EbSet) (t : Nat) (dflt : Option (List Nat)) : Option (List Nat) :=
  match s.get t (match dflt with | some b => .bytes b | none => .none) with
  | .bytes b => some b
  | _ => none

/-- `LrDFSRRead(theFile)` on the payload (after the two header bytes) -/
def readDfsr (payload : List Nat) : Except Err Dfsr :=
  match readEbs (payload.length + 1) payload [] with
  | .error e => .error e
  | .ok (s, rest) =>
    match ebInt s 2 0 with
    | .error e => .error e
    | .ok dsbType =>
      if dsbType ≠ 0 then .error .lr else
      match readDsbs (rest.length + 1) rest with
      | .error e => .error e
      | .ok chans =>
        match ebInt s 1 0, ebInt s 13 0, ebInt s 15 0, ebInt s 4 1 with
        | .ok dt, .ok rm, .ok drc, .ok ud =>
          if dt < 0 ∨ rm < 0 ∨ drc < 0 ∨ ud < 0 then .error .unsupported else
          let sp : Except Err (Option Int) := match s.get 8 .none with
            | .none => .ok none
            | .int v => .ok (some v)
            | _ => .error .unsupported
          match sp with
          | .error e => .error e
          | .ok spv =>
            .ok ⟨dt.toNat, rm.toNat, drc.toNat, ud.toNat, spv, ebUnits s 9 none, ebUnits s 14 (some [46, 49, 73, 78]), chans⟩
        | _, _, _, _ => .error .unsupported

/-! ## File index (`FileIndexer.FileIndex.__init__`) -/

inductive Kind where
  | table | none_ | unknownFmt | fileHead | fileTail | tapeHead | tapeTail | reelHead | reelTail | logPass
  deriving Repr, DecidableEq

/-- `_despatchLrType` -/
def despatch (t : Nat) : Option Kind :=
  if t = 32 ∨ t = 34 ∨ t = 39 then some .table
  else if t = 42 ∨ t = 47 ∨ t = 65 ∨ t = 95 ∨ t = 96 ∨ t = 97 ∨ t = 100 ∨ t = 101 ∨ t = 102
      ∨ t = 137 ∨ t = 138 ∨ t = 139 ∨ t = 141 then some .none_
  else if t = 64 then some .logPass
  else if t = 128 then some .fileHead else if t = 129 then some .fileTail
  else if t = 130 then some .tapeHead else if t = 131 then some .tapeTail
  else if t = 132 then some .reelHead else if t = 133 then some .reelTail
  else if t = 224 ∨ t = 225 ∨ t = 227 ∨ t = 232 ∨ t = 234 ∨ t = 85 ∨ t = 86 then some .unknownFmt
  else none

/-- `LogiRec.isDelimiter` -/
def isDelimiter (t : Nat) : Bool := t = 128 ∨ t = 129 ∨ t = 130 ∨ t = 131 ∨ t = 132 ∨ t = 133

structure Entry where
  tell : Nat
  lrType : Nat
  kind : Kind
  name : Option EbVal            -- table name (first component block value)
  logPass : Option LogPass
  deriving Repr, DecidableEq

/-- `CbEngValRead`: value of the first component block of a table record payload -/
def readCbValue (payload : List Nat) : Except Err EbVal :=
  if payload.length < 12 then .error .cbInit else
  let rc := (payload.drop 1).headD 0
  let size := (payload.drop 2).headD 0
  let rest := payload.drop 12
  if rc = 65 then .ok (.bytes (rest.take size)) else
  match lisSize rc with
  | none => .error .cbInit
  | some w =>
    if w = 0 ∨ w > 4 then .error .cbInit else
    if rest.length < w then .error .cbInit else
    let word := beWord (rest.take w)
    match xDecode rc word with
    | .ok v => .ok (.int v)
    | .error _ => .ok (.other rc word)

/-- `IndexLogPass.add`: X word of the first frame and the record length -/
def indexAddData (lp : LogPass) (tell lrType : Nat) (payload : List Nat) : Except Err LogPass :=
  let d := lp.dfsr
  let xrc : Except Err Nat := if d.recMode ≠ 0 then .ok d.depthRc else
    match d.chans[lp.xAxisIndex]? with
    | some c => .ok c.rc
    | none => .error .indexError
  match xrc with
  | .error e => .error e
  | .ok rc =>
    let skip0 := if d.recMode = 0 ∧ lp.xAxisIndex ≠ 0 then lp.plan.indr + lp.plan.skipToChStart lp.xAxisIndex else 0
    match lisSize rc with
    | none => .error .repCode
    | some w =>
      if w = 0 ∨ w > 4 then .error .unsupported else
      if payload.length < skip0 + w then .error .fileRead else
      match xDecode rc (beWord ((payload.drop skip0).take w)) with
      | .error e => .error e
      | .ok x => lp.addType01Data tell lrType payload.length x

structure IdxState where
  idx : List Entry                       -- in file order
  map0 : Option Nat                      -- `log_pass_index_map[0]`
  map1 : Option Nat                      -- `log_pass_index_map[1]`
  deriving Repr

def updEntry (l : List Entry) (i : Nat) (lp : LogPass) : List Entry :=
  match l[i]? with
  | some e => l.set i { e with logPass := some lp }
  | none => l

/-- one iteration of the `while not theF.isEOF` loop for the logical record `(tell, bytes)` -/
def indexStep (s : IdxState) (rec : Nat × List Nat) : Except Err IdxState :=
  let (tell, bs) := rec
  match bs with
  | t :: _ :: payload =>
    if t = 0 ∨ t = 1 then
      match (if t = 0 then s.map0 else s.map1) with
      | some i =>
        match (s.idx[i]?).bind (·.logPass) with
        | none => .error .indexError
        | some lp =>
          match indexAddData lp tell t payload with
          | .error e => .error e
          | .ok lp' => .ok { s with idx := updEntry s.idx i lp' }
      | none => .ok s
    else
      match despatch t with
      | none => .ok s
      | some k =>
        let entry : Except Err Entry :=
          match k with
          | .table => match readCbValue payload with
            | .error e => .error e
            | .ok v => .ok ⟨tell, t, k, some v, none⟩
          | .logPass => match readDfsr payload with
            | .error e => .error e
            | .ok d => match LogPass.new d 0 with
              | .error e => .error e
              | .ok lp => .ok ⟨tell, t, k, none, some lp⟩
          | .fileHead | .fileTail => if payload.length < 56 then .error .fileRead else .ok ⟨tell, t, k, none, none⟩
          | .tapeHead | .tapeTail | .reelHead | .reelTail =>
            if payload.length < 126 then .error .fileRead else .ok ⟨tell, t, k, none, none⟩
          | _ => .ok ⟨tell, t, k, none, none⟩
        match entry with
        | .error e => .error e
        | .ok en =>
          let idx' := s.idx ++ [en]
          if isDelimiter t then .ok ⟨idx', none, none⟩
          else if t = 64 then
            match en.logPass with
            | some lp =>
              if lp.dfsr.dataType = 0 then .ok ⟨idx', some (idx'.length - 1), s.map1⟩
              else if lp.dfsr.dataType = 1 then .ok ⟨idx', s.map0, some (idx'.length - 1)⟩
              else .ok ⟨idx', s.map0, s.map1⟩     -- the dict gets a further key that no record type can match
            | none => .ok ⟨idx', s.map0, s.map1⟩
          else .ok ⟨idx', s.map0, s.map1⟩
  | _ => .error .fileRead

def indexFile : List (Nat × List Nat) → IdxState → Except Err IdxState
  | [], s => .ok s
  | r :: rs, s => match indexStep s r with
    | .error e => .error e
    | .ok s' => indexFile rs s'

def fileIndex (recs : List (Nat × List Nat)) : Except Err (List Entry) :=
  match indexFile recs ⟨[], none, none⟩ with
  | .error e => .error e
  | .ok s => .ok s.idx

end TD.C06
