import TD.C06.Model
import Mathlib.Tactic.Ring
import Mathlib.Tactic.Linarith

/-!
C06 — specifications used by the property theorems and the helper lemmas.
-/
namespace TD.C06

/-! ## File index -/

/-- what the index must list for one logical record: `(tell, type, kind, table name)` — independent of the state -/
def specEntry (r : Nat × List Nat) : Option (Nat × Nat × Kind × Option EbVal) :=
  match r.2 with
  | t :: _ :: payload =>
    if t = 0 ∨ t = 1 then none else
    match despatch t with
    | none => none
    | some k => some (r.1, t, k, if k = .table then (match readCbValue payload with | .ok v => some v | .error _ => none) else none)
  | _ => none

def specEntries (recs : List (Nat × List Nat)) : List (Nat × Nat × Kind × Option EbVal) := recs.filterMap specEntry

def Entry.proj (e : Entry) : Nat × Nat × Kind × Option EbVal := (e.tell, e.lrType, e.kind, e.name)

theorem map_set_same {α β} (f : α → β) (l : List α) (i : Nat) (a e : α) (h : l[i]? = some e) (hf : f a = f e) :
    (l.set i a).map f = l.map f := by
  induction l generalizing i with
  | nil => rfl
  | cons x xs ih =>
    cases i with
    | zero => simp at h; subst h; simp [hf]
    | succ j => simp at h; simp [ih j h]

theorem updEntry_proj (l : List Entry) (i : Nat) (lp : LogPass) : (updEntry l i lp).map Entry.proj = l.map Entry.proj := by
  unfold updEntry
  split
  · rename_i e he
    exact map_set_same _ _ _ _ _ he rfl
  · rfl

theorem indexStep_proj (s s' : IdxState) (r : Nat × List Nat) (h : indexStep s r = .ok s') :
    s'.idx.map Entry.proj = s.idx.map Entry.proj ++ (specEntry r).toList := by
  obtain ⟨tell, bs⟩ := r
  unfold indexStep at h
  simp only at h
  unfold specEntry
  split at h
  · rename_i t a payload
    simp only
    split at h
    · rename_i h01
      simp only [h01, if_true, Option.toList_none, List.append_nil]
      split at h
      · split at h
        · cases h
        · split at h
          · cases h
          · cases h; simp [updEntry_proj]
      · cases h; rfl
    · rename_i h01
      simp only [h01, if_false]
      split at h
      · cases h; rename_i hd; simp [hd]
      · rename_i k hd
        simp only [hd]
        split at h
        · cases h
        · rename_i en hen
          have hen' : en.proj = (tell, t, k, if k = .table then (match readCbValue payload with | .ok v => some v | .error _ => none) else none) := by
            cases k <;> simp only at hen <;> (try (split at hen <;> try cases hen)) <;> (try (split at hen <;> try cases hen)) <;> (try cases hen) <;> simp_all [Entry.proj]
          split at h
          · cases h; simp [hen']
          · split at h
            · split at h
              · split at h <;> (try split at h) <;> cases h <;> simp [hen']
              · cases h; simp [hen']
            · cases h; simp [hen']
  · cases h

theorem indexFile_proj (recs : List (Nat × List Nat)) (s s' : IdxState) (h : indexFile recs s = .ok s') :
    s'.idx.map Entry.proj = s.idx.map Entry.proj ++ specEntries recs := by
  induction recs generalizing s with
  | nil => simp [indexFile] at h; subst h; simp [specEntries]
  | cons r rs ih =>
    simp only [indexFile] at h
    split at h
    · cases h
    · rename_i s1 hs1
      rw [ih s1 h, indexStep_proj s s1 r hs1]
      simp only [specEntries, List.filterMap_cons]
      cases specEntry r <;> simp

/-! ## Run length encoding of the data records -/

/-- `k` records from index `i` of a run `(datum, stride)` with `n` frames each -/
def expandFrom (d s : Int) (n : Nat) : Nat → Nat → List (Int × Nat)
  | _, 0 => []
  | i, k + 1 => (d + (i : Int) * s, n) :: expandFrom d s n (i + 1) k

def Item01.expand (it : Item01) : List (Int × Nat) := expandFrom it.pos.datum it.pos.stride it.numFrames 0 (it.pos.rep + 1)

/-- the data records a run-length table stands for: `(position, frames)` in order -/
def expand : List Item01 → List (Int × Nat)
  | [] => []
  | it :: its => it.expand ++ expand its

/-- specification of the frame lookup on the plain record list -/
def locate : List (Int × Nat) → Nat → Option (Int × Nat)
  | [], _ => none
  | (t, n) :: rest, f => if f < n then some (t, f) else locate rest (f - n)

theorem expandFrom_snoc (d s : Int) (n i k : Nat) :
    expandFrom d s n i (k + 1) = expandFrom d s n i k ++ [(d + ((i + k : Nat) : Int) * s, n)] := by
  induction k generalizing i with
  | zero => simp [expandFrom]
  | succ k ih =>
    rw [expandFrom, ih (i + 1)]
    simp only [expandFrom, List.cons_append]
    rw [show i + 1 + k = i + (k + 1) by omega]

theorem item01_add_expand (it it' : Item01) (t : Int) (n : Nat) (x : Int) (h : it.add t n x = some it') :
    it'.expand = it.expand ++ [(t, n)] := by
  unfold Item01.add at h
  split at h
  · cases h
  · rename_i hn
    have hn' : n = it.numFrames := by simpa using hn
    split at h
    · cases h
    · rename_i p' hp
      cases h
      unfold RItem.add at hp
      unfold Item01.expand
      simp only
      split at hp
      · rename_i h0
        cases hp
        simp only [h0]
        simp [expandFrom, hn']
      · split at hp
        · rename_i hv
          cases hp
          simp only
          rw [expandFrom_snoc]
          simp only [Nat.zero_add, hn', List.append_cancel_left_eq, List.cons.injEq, Prod.mk.injEq, and_true]
          rw [hv]; push_cast; ring
        · cases hp

theorem mk1_expand (t : Int) (n : Nat) (x : Int) : (Item01.mk1 t n x).expand = [(t, n)] := by
  simp [Item01.mk1, Item01.expand, expandFrom]

/-- **RLE, add**: adding a record to the run-length table appends it to the list the table stands for. -/
theorem rle01Add_expand (l : List Item01) (t : Int) (n : Nat) (x : Int) :
    expand (rle01Add l t n x) = expand l ++ [(t, n)] := by
  induction l with
  | nil => simp [rle01Add, expand, mk1_expand]
  | cons it its ih =>
    cases its with
    | nil =>
      simp only [rle01Add]
      split
      · rename_i it' h
        simp [expand, item01_add_expand it it' t n x h]
      · simp [expand, mk1_expand]
    | cons it2 its2 =>
      simp only [rle01Add, expand] at ih ⊢
      rw [ih]; simp

theorem locate_expandFrom_zero (d s : Int) (i k : Nat) (rest : List (Int × Nat)) (f : Nat) :
    locate (expandFrom d s 0 i k ++ rest) f = locate rest f := by
  induction k generalizing i with
  | zero => simp [expandFrom]
  | succ k ih => simp [expandFrom, locate, ih]

theorem locate_expandFrom (d s : Int) (n : Nat) (hn : 0 < n) (i k : Nat) (rest : List (Int × Nat)) (f : Nat) :
    locate (expandFrom d s n i k ++ rest) f =
      if f < k * n then some (d + ((i + f / n : Nat) : Int) * s, f % n) else locate rest (f - k * n) := by
  induction k generalizing i f with
  | zero => simp [expandFrom]
  | succ k ih =>
    simp only [expandFrom, List.cons_append, locate]
    by_cases hf : f < n
    · have : f < (k + 1) * n := by nlinarith
      simp [hf, this, Nat.div_eq_of_lt hf, Nat.mod_eq_of_lt hf]
    · simp only [hf, if_false]
      rw [ih]
      have hge : n ≤ f := by omega
      have h1 : (f - n < k * n) ↔ (f < (k + 1) * n) := by
        rw [Nat.add_mul, Nat.one_mul]; omega
      have h2 : f / n = (f - n) / n + 1 := by
        rw [Nat.div_eq f n]; simp [hn, hge]
      have h3 : f % n = (f - n) % n := Nat.mod_eq_sub_mod hge
      have h4 : f - n - k * n = f - (k + 1) * n := by
        rw [Nat.add_mul, Nat.one_mul]; omega
      by_cases hc : f < (k + 1) * n
      · simp only [h1.2 hc, hc, if_true, h2, h3]
        rw [show i + 1 + (f - n) / n = i + ((f - n) / n + 1) by omega]
      · have : ¬ (f - n < k * n) := fun h => hc (h1.1 h)
        simp only [this, hc, if_false, h4]

/-- lookup inside one run-length item, as the code does it (`<=`, `%`, `//`) -/
theorem item01_tell (it : Item01) (hn : 0 < it.numFrames) (f : Nat) :
    it.tellLrForFrame f =
      .ok (if f < it.totalFrames then (f % it.numFrames, some (it.pos.datum + ((f / it.numFrames : Nat) : Int) * it.pos.stride))
           else (f - it.totalFrames, none)) := by
  unfold Item01.tellLrForFrame
  have hn0 : it.numFrames ≠ 0 := by omega
  simp only [hn0, if_false]
  by_cases hlt : f < it.totalFrames
  · have hle : f ≤ it.totalFrames := by omega
    simp only [hle, hlt, if_true]
    have hdiv : f / it.numFrames ≤ it.pos.rep := by
      unfold Item01.totalFrames at hlt
      have : f / it.numFrames < it.pos.rep + 1 := by
        rw [Nat.div_lt_iff_lt_mul hn]; rw [Nat.mul_comm]; exact hlt
      omega
    unfold RItem.value
    have : ¬ (f / it.numFrames > it.pos.rep) := by omega
    simp only [this, if_false]
    by_cases hr : it.pos.rep = 0
    · have h0 : f / it.numFrames = 0 := Nat.le_zero.mp (hr ▸ hdiv)
      simp [hr, h0]
    · simp [hr]
  · by_cases heq : f = it.totalFrames
    · subst heq
      simp only [Nat.le_refl, if_true, Nat.lt_irrefl, if_false, Nat.sub_self]
      unfold Item01.totalFrames RItem.value
      have h1 : it.numFrames * (it.pos.rep + 1) / it.numFrames = it.pos.rep + 1 := Nat.mul_div_cancel_left _ hn
      have h2 : it.numFrames * (it.pos.rep + 1) % it.numFrames = 0 := Nat.mul_mod_right _ _
      simp [h1, h2]
    · have : ¬ (f ≤ it.totalFrames) := by omega
      simp [this, hlt]

/-- **RLE, lookup**: `RLEType01.tellLrForFrame` finds the record that holds frame `f` and the offset in it, for every
table; records without frames are passed over. -/
theorem rle01Tell_locate (l : List Item01) (f : Nat) :
    rle01Tell l f = (match locate (expand l) f with | some r => .ok r | none => .error .indexError) := by
  induction l generalizing f with
  | nil => simp [rle01Tell, expand, locate]
  | cons it its ih =>
    simp only [rle01Tell, expand]
    by_cases hn0 : it.numFrames = 0
    · have : it.tellLrForFrame f = .ok (f, none) := by simp [Item01.tellLrForFrame, hn0]
      rw [this]
      unfold Item01.expand
      rw [hn0, locate_expandFrom_zero]
      exact ih f
    · have hn : 0 < it.numFrames := by omega
      rw [item01_tell it hn f]
      unfold Item01.expand
      rw [locate_expandFrom _ _ _ hn]
      have htot : it.totalFrames = (it.pos.rep + 1) * it.numFrames := by unfold Item01.totalFrames; ring
      by_cases hlt : f < it.totalFrames
      · have hlt' : f < (it.pos.rep + 1) * it.numFrames := by omega
        simp [hlt, hlt']
      · have hlt' : ¬ f < (it.pos.rep + 1) * it.numFrames := by omega
        simp only [hlt, hlt', if_false]
        rw [ih, htot]

theorem expand_total (l : List Item01) : rle01Total l = ((expand l).map (·.2)).sum := by
  have hfrom : ∀ (d s : Int) (n i k : Nat), ((expandFrom d s n i k).map (·.2)).sum = k * n := by
    intro d s n i k
    induction k generalizing i with
    | zero => simp [expandFrom]
    | succ k ih => simp [expandFrom, ih, Nat.add_mul]; omega
  induction l with
  | nil => simp [rle01Total, expand]
  | cons it its ih =>
    simp only [rle01Total, expand, List.map_append, List.sum_append, ih, Item01.expand, hfrom, Item01.totalFrames]
    ring


/-! ## Indexing a data record -/

theorem numFrames_ok (p : Plan) (len n : Nat) (h : p.numFrames len = .ok n) :
    len = p.indr + n * p.frameSize ∧ 0 < p.frameSize := by
  unfold Plan.numFrames at h
  by_cases h1 : len < p.indr
  · simp [h1] at h
  · by_cases h2 : p.frameSize = 0
    · simp [h1, h2] at h
    · by_cases h3 : (len - p.indr) % p.frameSize = 0
      · simp [h1, h2, h3] at h
        have := Nat.div_add_mod (len - p.indr) p.frameSize
        rw [h3, Nat.add_zero, h, Nat.mul_comm] at this
        exact ⟨by omega, by omega⟩
      · simp [h1, h2, h3] at h

theorem addType01Data_ok (lp lp' : LogPass) (tell t len : Nat) (x : Int) (h : lp.addType01Data tell t len x = .ok lp') :
    ∃ n, lp.plan.numFrames len = .ok n ∧ lp'.rle = rle01Add lp.rle tell n x := by
  unfold LogPass.addType01Data at h
  by_cases h1 : lp.dfsr.dataType ≠ t
  · simp [h1] at h
  · simp only [h1, if_false] at h
    cases hn : lp.plan.numFrames len with
    | error e => simp [hn] at h
    | ok n => simp [hn] at h; exact ⟨n, rfl, by rw [← h]⟩

theorem indexAddData_ok (lp lp' : LogPass) (tell t : Nat) (payload : List Nat)
    (h : indexAddData lp tell t payload = .ok lp') : ∃ x, lp.addType01Data tell t payload.length x = .ok lp' := by
  unfold indexAddData at h
  simp only at h
  repeat' (first | (exact ⟨_, h⟩) | (cases h; done) | split at h)

end TD.C06
