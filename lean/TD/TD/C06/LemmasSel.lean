import TD.C06.LemmasMulti

/-!
C06 — proper channel subsets: every read event of a frame carries a run `(chFrom, chTo)` of selected channels and
`setFrameBytes` writes exactly the words of that run.
-/
namespace TD.C06

/-- the channel description of external channel `c` (a dummy for a non-existent channel) -/
def chanAt (d : Dfsr) (c : Nat) : Chan := (d.chans[c]?).getD ⟨0, 0, 0⟩

def selChans (d : Dfsr) (cs : List Nat) : List Chan := cs.map (chanAt d)

/-- words of channel `c` taken from the bytes `frame` of one frame -/
def chanRow (d : Dfsr) (p : Plan) (frame : List Nat) (c : Nat) : List Nat :=
  takeWords (chanAt d c).wordLen (chanAt d c).numValues (frame.drop (p.skipToChStart c))

/-- the words a frame contributes to the matrix when the channels `cs` are selected -/
def rowSel (d : Dfsr) (p : Plan) (cs : List Nat) (frame : List Nat) : List Nat := cs.flatMap (chanRow d p frame)

theorem takeWords_take (w k n : Nat) (l : List Nat) (h : k * w ≤ n) : takeWords w k (l.take n) = takeWords w k l := by
  induction k generalizing l n with
  | zero => simp [takeWords]
  | succ k ih =>
    have hw : w ≤ n := by rw [Nat.add_mul] at h; omega
    simp only [takeWords, List.take_take, Nat.min_eq_left hw]
    rw [List.drop_take, ih (n - w) (l.drop w) (by rw [Nat.add_mul] at h; omega)]

theorem takeWords_length' (w k : Nat) (bs : List Nat) : (takeWords w k bs).length = k := takeWords_length w k bs

/-- `chanWords` over a run of internal channels `ci, ci+1, …` whose external numbers are `run` -/
theorem chanWords_run (d : Dfsr) (fs : FrameSet) (hok : d.sizesOk) :
    ∀ (run : List Nat) (ci : Nat) (bs : List Nat), (∀ c ∈ run, c < d.chans.length) →
      (∀ j, j < run.length → fs.chIdx[ci + j]? = run[j]?) →
      sumN ((selChans d run).map Chan.size) ≤ bs.length →
      chanWords d fs run.length ci bs
        = .ok (rowWords (selChans d run) bs, sumN ((selChans d run).map Chan.size)) := by
  intro run
  induction run with
  | nil => intro ci bs _ _ _; simp [chanWords, selChans, rowWords, sumN]
  | cons c cs ih =>
    intro ci bs hlt hidx hlen
    have hc : c < d.chans.length := hlt c (List.mem_cons_self ..)
    have h0 : fs.chIdx[ci]? = some c := by simpa using hidx 0 (by simp)
    have hch : d.chans[c]? = some d.chans[c] := List.getElem?_eq_getElem hc
    have hat : chanAt d c = d.chans[c] := by simp [chanAt, hch]
    have hsz := hok d.chans[c] (List.getElem_mem hc)
    simp only [selChans, List.map_cons, sumN, hat] at hlen ⊢
    simp only [List.length_cons, chanWords, h0, hch]
    rw [← hsz]
    have hge : ¬ bs.length < d.chans[c].size := by omega
    simp only [hge, if_false]
    have := ih (ci + 1) (bs.drop d.chans[c].size) (fun x hx => hlt x (List.mem_cons_of_mem _ hx))
      (fun j hj => by have := hidx (j + 1) (by simp; omega); simpa [Nat.add_assoc, Nat.add_comm 1 j] using this)
      (by rw [List.length_drop]; simp only [selChans] ; omega)
    simp only [selChans] at this
    rw [this]
    simp [rowWords, hat]


theorem listIndexOf_append (D : List Nat) (x : Nat) (tl : List Nat) (hD : ∀ y ∈ D, y ≠ x) :
    listIndexOf (D ++ x :: tl) x = some D.length := by
  induction D with
  | nil => simp [listIndexOf]
  | cons y ys ih =>
    have h1 : y ≠ x := hD y (List.mem_cons_self ..)
    simp only [List.cons_append, listIndexOf, h1, if_false, List.length_cons]
    rw [ih (fun z hz => hD z (List.mem_cons_of_mem _ hz))]; rfl

theorem chanAt_nv (d : Dfsr) (e : Nat) : ((d.chans[e]?).map Chan.numValues).getD 0 = (chanAt d e).numValues := by
  unfold chanAt
  cases d.chans[e]? with
  | none => simp [Chan.numValues]
  | some c => simp

theorem valIdx_prefix (d : Dfsr) (fs : FrameSet) (D tl : List Nat) (h : fs.chIdx = D ++ tl) :
    FrameSet.valIdx d fs D.length = sumN ((selChans d D).map Chan.numValues) := by
  unfold FrameSet.valIdx
  rw [h, List.take_left']
  · simp only [selChans, List.map_map]
    congr 1
    apply List.map_congr_left
    intro e _; exact chanAt_nv d e
  · rfl

/-- **`setFrameBytes` of one run**: the bytes of the consecutive channels `chFrom..chTo` (all selected, standing behind
the selected channels `D` in the frame set) are written as their words right behind the words of `D`. -/
theorem setFrameBytes_run (d : Dfsr) (fs : FrameSet) (by_ : List Nat) (fr cf ct : Nat) (D rest : List Nat)
    (row : List (Option Nat)) (hct : cf ≤ ct)
    (hch : fs.chIdx = D ++ List.range' cf (ct + 1 - cf) ++ rest) (hD : ∀ x ∈ D, x ≠ cf)
    (hlt : ∀ c ∈ List.range' cf (ct + 1 - cf), c < d.chans.length) (hok : d.sizesOk)
    (hlen : by_.length = sumN ((selChans d (List.range' cf (ct + 1 - cf))).map Chan.size))
    (hrow : fs.frames[fr]? = some row)
    (hrl : sumN ((selChans d D).map Chan.numValues) + sumN ((selChans d (List.range' cf (ct + 1 - cf))).map Chan.numValues) ≤ row.length) :
    FrameSet.setFrameBytes d fs by_ fr (some cf) (some ct)
      = .ok { fs with frames := fs.frames.set fr (writeAt row (sumN ((selChans d D).map Chan.numValues))
                (rowWords (selChans d (List.range' cf (ct + 1 - cf))) by_)) } := by
  have hne : ct + 1 - cf = (ct - cf) + 1 := by omega
  have hrun : List.range' cf (ct + 1 - cf) = cf :: List.range' (cf + 1) (ct - cf) := by rw [hne, List.range'_succ]
  have hidx : listIndexOf fs.chIdx cf = some D.length := by
    rw [hch, hrun, List.append_assoc, List.cons_append]; exact listIndexOf_append D cf _ hD
  have hcw := chanWords_run d fs hok (List.range' cf (ct + 1 - cf)) D.length by_ hlt
    (by intro j hj; rw [hch, List.append_assoc, List.getElem?_append_right (by omega)]
        simp only [Nat.add_sub_cancel_left]; rw [List.getElem?_append_left hj])
    (by omega)
  simp only [List.length_range'] at hcw
  unfold FrameSet.setFrameBytes
  simp only [hidx, List.drop_zero, hcw, Nat.zero_add, hlen, ne_eq, not_true_eq_false, if_false, hrow]
  rw [valIdx_prefix d fs D _ (by rw [hch, List.append_assoc])]
  have hwl := rowWords_length (selChans d (List.range' cf (ct + 1 - cf))) by_
  have : ¬ (sumN ((selChans d D).map Chan.numValues) + (rowWords (selChans d (List.range' cf (ct + 1 - cf))) by_).length > row.length) := by
    rw [hwl]; omega
  simp only [this, if_false]


theorem chSize_eq (d : Dfsr) (p : Plan) (hp : p.sizes = d.chans.map Chan.size) (c : Nat) (hc : c < d.chans.length) :
    p.chSize c = (chanAt d c).size := by
  unfold Plan.chSize chanAt
  rw [hp, List.getD_eq_getElem?_getD, List.getElem?_map, List.getElem?_eq_getElem hc]
  rfl

theorem run_sizes (d : Dfsr) (p : Plan) (hp : p.sizes = d.chans.map Chan.size) (a m : Nat) (h : a + m ≤ d.chans.length) :
    sumN ((selChans d (List.range' a m)).map Chan.size) + p.skipToChStart a = p.skipToChStart (a + m) := by
  induction m generalizing a with
  | zero => simp [selChans, sumN]
  | succ m ih =>
    have := ih (a + 1) (by omega)
    simp only [List.range'_succ, selChans, List.map_cons, sumN] at this ⊢
    rw [skip_succ, chSize_eq d p hp a (by omega)] at this
    rw [show a + (m + 1) = a + 1 + m by omega]
    omega

/-- the words of a run read in one piece are the words of its channels taken from the frame -/
theorem runWords_eq (d : Dfsr) (p : Plan) (hp : p.sizes = d.chans.map Chan.size) (hok : d.sizesOk) (F : List Nat) :
    ∀ (m a : Nat), a + m ≤ d.chans.length →
      rowWords (selChans d (List.range' a m)) ((F.drop (p.skipToChStart a)).take (p.skipToChStart (a + m) - p.skipToChStart a))
        = (List.range' a m).flatMap (chanRow d p F) := by
  intro m
  induction m with
  | zero => intro a _; simp [selChans, rowWords]
  | succ m ih =>
    intro a h
    have ha : a < d.chans.length := by omega
    have hsz : (chanAt d a).size = (chanAt d a).numValues * (chanAt d a).wordLen := by
      have : chanAt d a = d.chans[a] := by simp [chanAt, List.getElem?_eq_getElem ha]
      rw [this]; exact hok _ (List.getElem_mem ha)
    have hs1 := skip_succ p a
    rw [chSize_eq d p hp a ha] at hs1
    have hmono := skip_mono p (a + 1) (a + 1 + m) (by omega)
    have hidx : a + (m + 1) = a + 1 + m := by omega
    simp only [List.range'_succ, selChans, List.map_cons, rowWords, List.flatMap_cons]
    congr 1
    · unfold chanRow
      apply takeWords_take
      rw [hidx]; omega
    · have := ih (a + 1) (by omega)
      simp only [selChans] at this
      rw [← this, List.drop_take, List.drop_drop, hidx]
      congr 2
      · omega
      · rw [hs1]


/-! ### executing the events of one frame -/

def withFr (fr : Nat) (evs : List Ev) : List Ev := evs.map (fun e => { e with fr := some fr })

theorem withFr_append (fr : Nat) (a b : List Ev) : withFr fr (a ++ b) = withFr fr a ++ withFr fr b := by simp [withFr]

/-- a matrix row whose first `ws.length` cells hold the words `ws` -/
def filled (row0 : List (Option Nat)) (ws : List Nat) : List (Option Nat) := ws.map some ++ row0.drop ws.length

theorem filled_length (row0 : List (Option Nat)) (ws : List Nat) (h : ws.length ≤ row0.length) :
    (filled row0 ws).length = row0.length := by simp [filled]; omega

theorem writeAt_filled (row0 : List (Option Nat)) (ws ws2 : List Nat) (h : ws.length + ws2.length ≤ row0.length) :
    writeAt (filled row0 ws) ws.length ws2 = filled row0 (ws ++ ws2) := by
  unfold writeAt filled
  rw [List.take_left' (by simp), List.drop_append, List.drop_eq_nil_of_le (by simp)]
  simp [List.drop_drop, List.append_assoc]

theorem exec_read (d : Dfsr) (st : Store) (r : Run) (t : Nat) (bs : List Nat) (siz fr : Nat) (cf ct : Option Nat)
    (fs' : FrameSet) (hcur : r.cur = some (t, bs)) (hlen : r.ofs + siz ≤ bs.length)
    (hset : FrameSet.setFrameBytes d r.fs ((bs.drop r.ofs).take siz) fr cf ct = .ok fs') :
    ∃ ops, execEv d st r ⟨.read, siz, some fr, cf, ct⟩ = .ok ⟨r.cur, r.ofs + siz, fs', ops⟩ := by
  unfold execEv Run.read
  simp only [hcur]
  have h1 : ¬ (r.ofs + siz > bs.length) := by omega
  simp only [h1, if_false, hset]
  exact ⟨_, rfl⟩

theorem skip_le_frame (p : Plan) (c : Nat) : p.skipToChStart c ≤ p.frameSize := sumN_take_le _ _

theorem sumN_append (a b : List Nat) : sumN (a ++ b) = sumN a + sumN b := by
  induction a with
  | nil => simp [sumN]
  | cons x xs ih => simp [sumN, ih]; omega

theorem rowSel_length (d : Dfsr) (p : Plan) (cs : List Nat) (F : List Nat) :
    (rowSel d p cs F).length = sumN ((selChans d cs).map Chan.numValues) := by
  induction cs with
  | nil => simp [rowSel, selChans, sumN]
  | cons c cs ih =>
    simp only [rowSel, List.flatMap_cons, List.length_append, selChans, List.map_cons, sumN] at ih ⊢
    rw [ih]; simp [chanRow, takeWords_length]

theorem rowSel_append (d : Dfsr) (p : Plan) (a b : List Nat) (F : List Nat) :
    rowSel d p (a ++ b) F = rowSel d p a F ++ rowSel d p b F := by simp [rowSel]


/-- the fixed context of executing one frame's events: record `bs` at `t`, frame bytes start at `fb`, matrix row `fr` -/
structure FrameCtx (d : Dfsr) (p : Plan) (r0 : Run) (t : Nat) (bs : List Nat) (fb fr : Nat) (cs : List Nat)
    (row0 : List (Option Nat)) : Prop where
  hp : p.sizes = d.chans.map Chan.size
  hok : d.sizesOk
  hcur : r0.cur = some (t, bs)
  hfb : fb + p.frameSize ≤ bs.length
  hch : r0.fs.chIdx = cs
  hlt : ∀ c ∈ cs, c < d.chans.length
  hrow : r0.fs.frames[fr]? = some row0
  hrl : row0.length = sumN ((selChans d cs).map Chan.numValues)

/-- the words of the selected channels `D` are in the row; the file stands at the start of channel `ch` -/
def AtCh (d : Dfsr) (p : Plan) (r0 : Run) (bs : List Nat) (fb fr : Nat) (row0 : List (Option Nat))
    (D : List Nat) (ch : Nat) (ra : Run) : Prop :=
  ra.cur = r0.cur ∧ ra.ofs = fb + p.skipToChStart ch ∧
    ra.fs = { r0.fs with frames := r0.fs.frames.set fr (filled row0 (rowSel d p D (bs.drop fb))) }

theorem selChans_append (d : Dfsr) (a b : List Nat) : selChans d (a ++ b) = selChans d a ++ selChans d b := by
  simp [selChans]

/-- reading the pending run `a .. a+m-1` -/
theorem flush_run (d : Dfsr) (p : Plan) (st : Store) (r0 : Run) (t : Nat) (bs : List Nat) (fb fr : Nat) (cs : List Nat)
    (row0 : List (Option Nat)) (hc : FrameCtx d p r0 t bs fb fr cs row0)
    (D rem : List Nat) (a m : Nat) (hm : 0 < m) (hcs : cs = D ++ List.range' a m ++ rem) (hD : ∀ x ∈ D, x < a)
    (ra : Run) (hra : AtCh d p r0 bs fb fr row0 D a ra) :
    ∃ ra2, execEv d st ra ⟨.read, p.skipToChStart (a + m) - p.skipToChStart a, some fr, some a, some (a + m - 1)⟩ = .ok ra2 ∧
      AtCh d p r0 bs fb fr row0 (D ++ List.range' a m) (a + m) ra2 := by
  obtain ⟨h1, h2, h3⟩ := hra
  have hmm : a + m - 1 + 1 - a = m := by omega
  have hlast : a + m - 1 < d.chans.length := by
    apply hc.hlt; rw [hcs]; simp only [List.mem_append, List.mem_range'_1]; left; right; omega
  have ham : a + m ≤ d.chans.length := by omega
  have hsz := run_sizes d p hc.hp a m ham
  have hmono := skip_mono p a (a + m) (by omega)
  have hle := skip_le_frame p (a + m)
  have hfbl := hc.hfb
  have hnv : sumN ((selChans d cs).map Chan.numValues)
      = sumN ((selChans d D).map Chan.numValues) + sumN ((selChans d (List.range' a m)).map Chan.numValues)
        + sumN ((selChans d rem).map Chan.numValues) := by
    rw [hcs, selChans_append, selChans_append, List.map_append, List.map_append, sumN_append, sumN_append]
  have hDlen := rowSel_length d p D (bs.drop fb)
  have hrowra : ra.fs.frames[fr]? = some (filled row0 (rowSel d p D (bs.drop fb))) := by
    rw [h3]; simp only
    have hlt : fr < r0.fs.frames.length := by
      rcases Nat.lt_or_ge fr r0.fs.frames.length with h | h
      · exact h
      · have := hc.hrow; rw [List.getElem?_eq_none h] at this; cases this
    simp [List.getElem?_set, hlt]
  have hby : ((bs.drop ra.ofs).take (p.skipToChStart (a + m) - p.skipToChStart a)).length
      = sumN ((selChans d (List.range' a m)).map Chan.size) := by
    rw [List.length_take, List.length_drop, h2]; omega
  have hset := setFrameBytes_run d ra.fs ((bs.drop ra.ofs).take (p.skipToChStart (a + m) - p.skipToChStart a)) fr a (a + m - 1)
    D rem (filled row0 (rowSel d p D (bs.drop fb))) (by omega)
    (by rw [hmm, h3]; simp only; rw [hc.hch, hcs])
    (fun x hx => by have := hD x hx; omega)
    (by rw [hmm]; intro c hc'; apply hc.hlt; rw [hcs]; simp only [List.mem_append]; left; right; exact hc')
    hc.hok (by rw [hmm]; exact hby) hrowra
    (by rw [hmm, filled_length _ _ (by rw [hDlen, hc.hrl, hnv]; omega), hc.hrl, hnv]; omega)
  rw [hmm] at hset
  obtain ⟨ops, hex⟩ := exec_read d st ra t bs _ fr (some a) (some (a + m - 1)) _ (by rw [h1]; exact hc.hcur) (by rw [h2]; omega) hset
  refine ⟨_, hex, ?_, ?_, ?_⟩
  · exact h1
  · simp only [h2]; omega
  · simp only [h3, List.set_set]
    congr 2
    rw [← hDlen, h2, ← List.drop_drop, runWords_eq d p hc.hp hc.hok (bs.drop fb) m a ham,
      writeAt_filled _ _ _ (by rw [hDlen]; have := rowSel_length d p (List.range' a m) (bs.drop fb); simp only [rowSel] at this ⊢; rw [this, hc.hrl, hnv]; omega)]
    rw [rowSel_append]; rfl


theorem exec_skip' (d : Dfsr) (st : Store) (r : Run) (t : Nat) (bs : List Nat) (siz : Nat) (fr cf ct : Option Nat)
    (hcur : r.cur = some (t, bs)) (hlen : r.ofs + siz ≤ bs.length) :
    ∃ ops, execEv d st r ⟨.skip, siz, fr, cf, ct⟩ = .ok ⟨r.cur, r.ofs + siz, r.fs, ops⟩ := by
  unfold execEv
  simp only [hcur]
  exact ⟨_, by rw [Nat.min_eq_right hlen]⟩

theorem range'_snoc (a m : Nat) : List.range' a (m + 1) = List.range' a m ++ [a + m] := by
  rw [List.range'_concat]; simp

/-- **The channel loop, executed**: the accumulated events bring the row to "channels before the pending run written,
file at the start of the pending run". -/
theorem frameEvLoop_exec (d : Dfsr) (p : Plan) (st : Store) (r0 : Run) (t : Nat) (bs : List Nat) (fb fr : Nat)
    (cs : List Nat) (row0 : List (Option Nat)) (hc : FrameCtx d p r0 t bs fb fr cs row0) :
    ∀ (rem D : List Nat) (chStart stopP1 siz : Nat) (acc : List Ev) (ra : Run),
      cs = D ++ List.range' chStart (stopP1 - chStart) ++ rem → chStart ≤ stopP1 →
      (∀ c ∈ rem, stopP1 ≤ c) → rem.Pairwise (· < ·) → siz + p.skipToChStart chStart = p.skipToChStart stopP1 →
      (∀ x ∈ D, x < chStart) →
      execEvs d st (withFr fr acc) r0 = .ok ra → AtCh d p r0 bs fb fr row0 D chStart ra →
      ∀ acc' cS sP sz, frameEvLoop p rem chStart stopP1 siz acc = (acc', cS, sP, sz) →
        ∃ D' ra', cs = D' ++ List.range' cS (sP - cS) ∧ cS ≤ sP ∧ sz + p.skipToChStart cS = p.skipToChStart sP ∧
          (∀ x ∈ D', x < cS) ∧ execEvs d st (withFr fr acc') r0 = .ok ra' ∧ AtCh d p r0 bs fb fr row0 D' cS ra' := by
  intro rem
  induction rem with
  | nil =>
    intro D chStart stopP1 siz acc ra hcs hle _ _ hsiz hD hex hat acc' cS sP sz h
    simp only [frameEvLoop, Prod.mk.injEq] at h
    obtain ⟨rfl, rfl, rfl, rfl⟩ := h
    exact ⟨D, ra, by simpa using hcs, hle, hsiz, hD, hex, hat⟩
  | cons c rem ih =>
    intro D chStart stopP1 siz acc ra hcs hle hge hsorted hsiz hD hex hat acc' cS sP sz h
    have hcge : stopP1 ≤ c := hge c (List.mem_cons_self ..)
    have hsorted' : rem.Pairwise (· < ·) := (List.pairwise_cons.1 hsorted).2
    have hgt : ∀ c' ∈ rem, c + 1 ≤ c' := fun c' hc' => (List.pairwise_cons.1 hsorted).1 c' hc'
    simp only [frameEvLoop] at h
    by_cases heq : c = stopP1
    · simp only [heq, if_true] at h
      subst heq
      have hcs' : cs = D ++ List.range' chStart (c + 1 - chStart) ++ rem := by
        rw [hcs, show c + 1 - chStart = (c - chStart) + 1 by omega, range'_snoc, show chStart + (c - chStart) = c by omega]
        simp [List.append_assoc]
      exact ih D chStart (c + 1) (siz + p.chSize c) acc ra hcs' (by omega) hgt hsorted'
        (by rw [skip_succ]; omega) hD hex hat acc' cS sP sz h
    · simp only [heq, if_false] at h
      have hlt : stopP1 < c := by omega
      have hmono := skip_mono p stopP1 c (by omega)
      have hcin : c < d.chans.length := by apply hc.hlt; rw [hcs]; simp
      have hle2 := skip_le_frame p c
      have hfbl := hc.hfb
      -- flush the pending run (if any), then skip to channel c
      have hflush : ∃ rb, execEvs d st (withFr fr (if stopP1 > chStart then acc ++ [⟨.read, siz, none, some chStart, some (stopP1 - 1)⟩] else acc)) r0 = .ok rb ∧
          AtCh d p r0 bs fb fr row0 (D ++ List.range' chStart (stopP1 - chStart)) stopP1 rb := by
        by_cases hg : stopP1 > chStart
        · simp only [hg, if_true, withFr_append, execEvs_append, hex]
          have hsz : siz = p.skipToChStart (chStart + (stopP1 - chStart)) - p.skipToChStart chStart := by
            rw [show chStart + (stopP1 - chStart) = stopP1 by omega]; omega
          obtain ⟨ra2, hex2, hat2⟩ := flush_run d p st r0 t bs fb fr cs row0 hc D (c :: rem) chStart (stopP1 - chStart)
            (by omega) hcs hD ra hat
          rw [show chStart + (stopP1 - chStart) = stopP1 by omega] at hex2 hat2
          refine ⟨ra2, ?_, hat2⟩
          simp only [withFr, List.map_cons, List.map_nil, execEvs]
          rw [show siz = p.skipToChStart stopP1 - p.skipToChStart chStart by omega, hex2]
        · have h0 : stopP1 = chStart := by omega
          simp only [hg, if_false]
          refine ⟨ra, hex, ?_⟩
          subst h0; simpa using hat
      obtain ⟨rb, hexb, hatb⟩ := hflush
      obtain ⟨hb1, hb2, hb3⟩ := hatb
      obtain ⟨ops, hsk⟩ := exec_skip' d st rb t bs (p.skipToChStart c - p.skipToChStart stopP1) (some fr) (some stopP1) (some (c - 1))
        (by rw [hb1]; exact hc.hcur) (by rw [hb2]; omega)
      have hcs' : cs = (D ++ List.range' chStart (stopP1 - chStart)) ++ List.range' c (c + 1 - c) ++ rem := by
        rw [hcs, show c + 1 - c = 1 by omega]; simp [List.append_assoc]
      refine ih (D ++ List.range' chStart (stopP1 - chStart)) c (c + 1) (p.chSize c) _
        ⟨rb.cur, rb.ofs + (p.skipToChStart c - p.skipToChStart stopP1), rb.fs, ops⟩ hcs' (by omega) hgt hsorted'
        (by rw [skip_succ]; omega) ?_ ?_ ?_ acc' cS sP sz h
      · intro x hx
        rcases List.mem_append.1 hx with h1 | h1
        · have := hD x h1; omega
        · simp only [List.mem_range'_1] at h1; omega
      · rw [withFr_append, execEvs_append, hexb]
        simp only [withFr, List.map_cons, List.map_nil, execEvs, hsk]
      · exact ⟨hb1, by simp only [hb2]; omega, hb3⟩


theorem filled_full (row0 : List (Option Nat)) (ws : List Nat) (h : ws.length = row0.length) :
    filled row0 ws = ws.map some := by
  unfold filled; rw [h, List.drop_length, List.append_nil]

/-- **The events of one frame, executed** (any non-empty sorted channel list `cs = chIdx`): started at the first
selected channel of the frame whose bytes begin at `fb`, they replace row `fr` by the words of the selected channels and
leave the file behind the last selected channel. -/
theorem frameEvents_exec (d : Dfsr) (p : Plan) (st : Store) (r0 : Run) (t : Nat) (bs : List Nat) (fb fr : Nat)
    (c0 : Nat) (rest : List Nat) (row0 : List (Option Nat)) (hc : FrameCtx d p r0 t bs fb fr (c0 :: rest) row0)
    (hsorted : (c0 :: rest).Pairwise (· < ·)) (hofs : r0.ofs = fb + p.skipToChStart c0)
    (pre post : Option Ev) (fevts : List Ev) (hret : retFrameEvents p (c0 :: rest) = (pre, fevts, post)) :
    ∃ r', execEvs d st (withFr fr fevts) r0 = .ok r' ∧ r'.cur = r0.cur ∧
      r'.ofs = fb + p.skipToChStart (lastP1 rest (c0 + 1)) ∧
      r'.fs = { r0.fs with frames := r0.fs.frames.set fr ((rowSel d p (c0 :: rest) (bs.drop fb)).map some) } := by
  unfold retFrameEvents at hret
  simp only at hret
  have hstep : frameEvLoop p (c0 :: rest) c0 c0 0 [] = frameEvLoop p rest c0 (c0 + 1) (0 + p.chSize c0) [] := by
    simp [frameEvLoop]
  rw [hstep] at hret
  have hsorted' : rest.Pairwise (· < ·) := (List.pairwise_cons.1 hsorted).2
  have hgt : ∀ c' ∈ rest, c0 + 1 ≤ c' := fun c' hc' => (List.pairwise_cons.1 hsorted).1 c' hc'
  cases hr : frameEvLoop p rest c0 (c0 + 1) (0 + p.chSize c0) [] with
  | mk acc' r2 =>
    obtain ⟨cS, sP, sz⟩ := r2
    rw [hr] at hret
    simp only [Prod.mk.injEq] at hret
    obtain ⟨_, hfev, _⟩ := hret
    have hgtP := frameEvLoop_gt p rest c0 (c0 + 1) _ [] acc' cS sP sz hr (by omega)
    simp only [hgtP, if_true] at hfev
    subst hfev
    have hsP := (frameEvLoop_spec p 0 (0 + p.skipToChStart c0) rest c0 (c0 + 1) (0 + p.chSize c0) []
      (by simp [evEnd]) (by rw [skip_succ]; omega) (by omega) (by omega) hgt hsorted' acc' cS sP sz hr).2.2.1
    have hat0 : AtCh d p r0 bs fb fr row0 [] c0 r0 := by
      refine ⟨rfl, hofs, ?_⟩
      have hlt : fr < r0.fs.frames.length := by
        rcases Nat.lt_or_ge fr r0.fs.frames.length with h | h
        · exact h
        · have := hc.hrow; rw [List.getElem?_eq_none h] at this; cases this
      have hget : r0.fs.frames[fr] = row0 := by
        have := hc.hrow; rw [List.getElem?_eq_getElem hlt] at this; exact Option.some.inj this
      simp only [rowSel, List.flatMap_nil, filled, List.map_nil, List.length_nil, List.drop_zero, List.nil_append]
      rw [← hget, List.set_getElem_self]
    obtain ⟨D', ra', hcs, hle, hsz, hD', hex, hat⟩ := frameEvLoop_exec d p st r0 t bs fb fr (c0 :: rest) row0 hc rest [] c0 (c0 + 1)
      (0 + p.chSize c0) [] r0 (by simp [List.range'_succ]) (by omega) hgt hsorted' (by rw [skip_succ]; omega) (by simp)
      (by simp [withFr, execEvs]) hat0 acc' cS sP sz hr
    obtain ⟨ra2, hex2, hat2⟩ := flush_run d p st r0 t bs fb fr (c0 :: rest) row0 hc D' [] cS (sP - cS) (by omega)
      (by simpa using hcs) hD' ra' hat
    rw [show cS + (sP - cS) = sP by omega] at hex2 hat2
    obtain ⟨h1, h2, h3⟩ := hat2
    refine ⟨ra2, ?_, h1, ?_, ?_⟩
    · rw [withFr_append, execEvs_append, hex]
      simp only [withFr, List.map_cons, List.map_nil, execEvs]
      rw [show sz = p.skipToChStart sP - p.skipToChStart cS by omega, hex2]
    · rw [h2, hsP]
    · rw [h3, ← hcs, filled_full]
      rw [rowSel_length, hc.hrl]


/-! ### the frame loop for a channel subset (direct X) -/

theorem emitFrame_none_eq (g : Nat) (es : List Ev) : (emitFrame g es none).1 = es.map (fun e => { e with fr := some g }) := by
  induction es with
  | nil => simp [emitFrame]
  | cons e es ih => simp only [emitFrame, List.map_cons, ih]

/-- renumbering a non-empty block of events that all carry the frame number `g = buf[j]` -/
theorem renumber_block (buf : List Nat) (frInt g j : Nat) (hbj : buf[j]? = some g)
    (hinc : ∀ (a b x y : Nat), a < b → buf[a]? = some x → buf[b]? = some y → x < y) :
    ∀ (es : List Ev) (kk : Nat), (kk = j ∨ kk + 1 = j) → es ≠ [] → (∀ e ∈ es, e.fr = some g) →
      renumber buf frInt es kk = withFr (frInt + j) es ∧ renumK buf es kk = j := by
  have hjlen : j < buf.length := by
    rcases Nat.lt_or_ge j buf.length with h | h
    · exact h
    · rw [List.getElem?_eq_none h] at hbj; cases hbj
  have hstep : ∀ (e : Ev) (kk : Nat), (kk = j ∨ kk + 1 = j) → e.fr = some g → renumStep buf kk e = j := by
    intro e kk hkk hfr
    unfold renumStep
    rcases hkk with rfl | hkk
    · have : ¬ (kk + 1 < buf.length ∧ (buf[kk + 1]? = e.fr ∧ e.fr.isSome)) := by
        intro ⟨_, he, _⟩
        rw [hfr] at he
        have := hinc kk (kk + 1) g g (by omega) hbj he
        omega
      rw [if_neg this]
    · have : kk + 1 < buf.length ∧ (buf[kk + 1]? = e.fr ∧ e.fr.isSome) := by
        rw [hkk, hfr]; exact ⟨hjlen, hbj, rfl⟩
      rw [if_pos this]; exact hkk
  intro es
  induction es with
  | nil => intro kk _ h; exact absurd rfl h
  | cons e es ih =>
    intro kk hkk _ hfr
    have h1 := hstep e kk hkk (hfr e (List.mem_cons_self ..))
    rw [renumber_cons, h1]
    simp only [renumK, h1]
    by_cases hes : es = []
    · subst hes; simp [renumber, renumK, withFr]
    · obtain ⟨h2, h3⟩ := ih j (Or.inl rfl) hes (fun x hx => hfr x (List.mem_cons_of_mem _ hx))
      rw [h2, h3]; simp [withFr]

theorem merged_form (p : Plan) (pre post : Option Ev) (step preSiz postSiz : Nat) (hpre : sizIs pre preSiz)
    (hpost : sizIs post postSiz) :
    (mergedPostFramePre p pre post step = none ∧ (step - 1) * p.frameSize + postSiz + preSiz = 0) ∨
    ∃ cf ct, mergedPostFramePre p pre post step = some ⟨.skip, (step - 1) * p.frameSize + postSiz + preSiz, none, cf, ct⟩ := by
  have hs : (if step > 1 then (step - 1) * p.frameSize else 0) = (step - 1) * p.frameSize := by
    by_cases h : step > 1
    · simp [h]
    · have : step - 1 = 0 := by omega
      simp [h, this]
  unfold sizIs at hpre hpost
  unfold mergedPostFramePre
  simp only [hs]
  cases pre <;> cases post <;> simp only at hpre hpost ⊢
  · subst hpre hpost
    simp only [Nat.add_zero]
    by_cases h : (step - 1) * p.frameSize > 0
    · right; exact ⟨none, none, by rw [if_pos h]⟩
    · left; exact ⟨by rw [if_neg h], by omega⟩
  · subst hpre hpost; right; exact ⟨_, _, rfl⟩
  · subst hpre hpost; right; exact ⟨_, _, rfl⟩
  · subst hpre hpost; right; exact ⟨_, _, rfl⟩


theorem withFr_map (fr g : Nat) (es : List Ev) : withFr fr (es.map (fun e => { e with fr := some g })) = withFr fr es := by
  simp [withFr]

/-- the row of the frame at offset `g` of record `bs` for the selected channels `cs` (no indirect word) -/
def rowOfSel (d : Dfsr) (p : Plan) (cs : List Nat) (bs : List Nat) (g : Nat) : List (Option Nat) :=
  (rowSel d p cs (bs.drop (2 + g * p.frameSize))).map some

theorem rowOfSel_length (d : Dfsr) (p : Plan) (cs : List Nat) (bs : List Nat) (g : Nat) :
    (rowOfSel d p cs bs g).length = sumN ((selChans d cs).map Chan.numValues) := by
  simp [rowOfSel, rowSel_length]

/-- **Executing the renumbered frame loop of one record for a channel subset (direct X).** -/
theorem frameLoop_exec_sel (d : Dfsr) (st : Store) (t : Nat) (bs : List Nat) (n stop step : Nat) (buf : List Nat)
    (frInt : Nat) (p : Plan) (c0 : Nat) (rest : List Nat) (pre post : Option Ev) (fevts : List Ev)
    (hp : p.sizes = d.chans.map Chan.size) (hpi : p.indr = 0) (hok : d.sizesOk) (hstep : 0 < step)
    (hltc : ∀ c ∈ c0 :: rest, c < d.chans.length) (hsorted : (c0 :: rest).Pairwise (· < ·))
    (hbs : bs.length = 2 + n * p.frameSize) (hstop : stop ≤ n)
    (hret : retFrameEvents p (c0 :: rest) = (pre, fevts, post))
    (hinc : ∀ (a b x y : Nat), a < b → buf[a]? = some x → buf[b]? = some y → x < y) :
    ∀ (fuel g j kk : Nat) (r : Run), g < stop → stop - g ≤ fuel →
      (∀ i, buf[j + i]? = (rangeList g stop step)[i]?) → (kk = j ∨ kk + 1 = j) →
      r.cur = some (t, bs) → r.ofs = 2 + g * p.frameSize + p.skipToChStart c0 → r.fs.chIdx = c0 :: rest →
      (∀ row ∈ r.fs.frames, row.length = sumN ((selChans d (c0 :: rest)).map Chan.numValues)) →
      frInt + j + rangeLen g stop step ≤ r.fs.frames.length →
      ∃ r', execEvs d st (renumber buf frInt
          (frameLoop p fevts post (mergedPostFramePre p pre post step) stop step fuel g none) kk) r = .ok r' ∧
        r'.fs = { r.fs with frames := setRows r.fs.frames (frInt + j) ((rangeList g stop step).map (rowOfSel d p (c0 :: rest) bs)) } ∧
        r'.cur = r.cur := by
  obtain ⟨_, _, hhead, hpre, hpost⟩ := retFrameEvents_spec p c0 rest hsorted 0 pre fevts post hret
  have hfne : fevts ≠ [] := by intro h; rw [h] at hhead; simp at hhead
  have hL := lastP1_pos rest c0
  have hfs : p.skipToChStart (lastP1 rest (c0 + 1)) + p.skipToFrameEnd (lastP1 rest (c0 + 1) - 1) = p.frameSize := by
    have := skip_end p (lastP1 rest (c0 + 1) - 1)
    rwa [Nat.sub_add_cancel hL] at this
  have hpostS : sizIs post (p.skipToFrameEnd (lastP1 rest (c0 + 1) - 1)) := by
    unfold sizIs; unfold skipIs at hpost
    cases post with
    | none => exact hpost
    | some e => exact hpost.2
  have hpreS : sizIs pre (p.skipToChStart c0) := by
    unfold sizIs; unfold preIs at hpre
    cases pre with
    | none => simp only at hpre; subst hpre; exact skip_zero p
    | some e => exact hpre.2.1
  have hmf := merged_form p pre post step _ _ hpreS hpostS
  intro fuel
  induction fuel with
  | zero => intro g j kk r hg hfuel; omega
  | succ fuel ih =>
    intro g j kk r hg hfuel hb hkk hcur hofs hch hrows hN
    have hbj : buf[j]? = some g := by have := hb 0; rwa [rangeList_getElem_zero g stop step hg hstep, Nat.add_zero] at this
    have hlenN := rangeLen_lt g stop step hg hstep
    have hltN : frInt + j < r.fs.frames.length := by omega
    have hg1 : (g + 1) * p.frameSize ≤ n * p.frameSize := Nat.mul_le_mul_right _ (by omega)
    have hg1' : (g + 1) * p.frameSize = g * p.frameSize + p.frameSize := by ring
    -- the events of frame g
    have hctx : FrameCtx d p r t bs (2 + g * p.frameSize) (frInt + j) (c0 :: rest) r.fs.frames[frInt + j] :=
      ⟨hp, hok, hcur, by omega, hch, hltc, List.getElem?_eq_getElem hltN, hrows _ (List.getElem_mem hltN)⟩
    obtain ⟨r1, hex1, hcur1, hofs1, hfs1⟩ := frameEvents_exec d p st r t bs (2 + g * p.frameSize) (frInt + j) c0 rest _ hctx
      hsorted hofs pre post fevts hret
    have hblock := renumber_block buf frInt g j hbj hinc (fevts.map (fun e => { e with fr := some g })) kk hkk
      (by simpa using hfne) (by intro e he; obtain ⟨x, _, rfl⟩ := List.mem_map.1 he; rfl)
    rw [withFr_map] at hblock
    simp only [frameLoop, hg, if_true, hpi, Nat.lt_irrefl, if_false, List.append_nil]
    cases hem : emitFrame g fevts none with
    | mk evs pend' =>
      have hevs : evs = fevts.map (fun e => { e with fr := some g }) := by
        have := emitFrame_none_eq g fevts; rw [hem] at this; exact this
      subst hevs
      have hpn : pend' = none := by have := (emitFrame_none g fevts 0).1; rw [hem] at this; exact this
      subst hpn
      simp only
      rw [rangeList_cons g stop step hg hstep]
      by_cases hlast : g + step ≥ stop
      · simp only [hlast, if_true]
        rw [rangeList_nil _ _ _ hlast, renumber_append, hblock.1, hblock.2, execEvs_append, hex1]
        have hgoal : r1.fs = { r.fs with frames := setRows r.fs.frames (frInt + j) (List.map (rowOfSel d p (c0 :: rest) bs) [g]) } := by
          rw [hfs1]; simp [setRows, rowOfSel]
        cases post with
        | none => exact ⟨r1, by simp [evAt, renumber, execEvs], hgoal, hcur1.trans rfl⟩
        | some e =>
          unfold skipIs at hpost
          simp only at hpost
          obtain ⟨ops, hsk⟩ := exec_skip' d st r1 t bs e.siz (some (frInt + j)) e.cf e.ct (by rw [hcur1]; exact hcur)
            (by rw [hofs1, hpost.2]; omega)
          have hst : renumStep buf j { e with fr := some (g + step - step) } = j := by
            have := (renumber_block buf frInt g j hbj hinc [{ e with fr := some g }] j (Or.inl rfl) (by simp) (by simp)).2
            simpa [renumK, Nat.add_sub_cancel] using this
          refine ⟨⟨r1.cur, r1.ofs + e.siz, r1.fs, ops⟩, ?_, hgoal, hcur1⟩
          simp only [evAt, renumber_cons, hst, renumber, execEvs]
          have : ({ ty := e.ty, siz := e.siz, fr := some (frInt + j), cf := e.cf, ct := e.ct } : Ev)
              = ⟨.skip, e.siz, some (frInt + j), e.cf, e.ct⟩ := by rw [hpost.1]
          rw [this, hsk]
      · simp only [hlast, if_false]
        have hgs : g + step < stop := by omega
        have hmul : (g + step) * p.frameSize = g * p.frameSize + p.frameSize + (step - 1) * p.frameSize := by
          obtain ⟨s', rfl⟩ : ∃ s', step = s' + 1 := ⟨step - 1, by omega⟩
          simp only [Nat.add_sub_cancel]; ring
        have hgs1 : (g + step) * p.frameSize ≤ n * p.frameSize := Nat.mul_le_mul_right _ (by omega)
        have hle2 := skip_le_frame p c0
        have hb1 : buf[j + 1]? = some (g + step) := by
          have := hb 1
          rwa [rangeList_getElem_succ g stop step 0 hg hstep, rangeList_getElem_zero _ _ _ hgs hstep] at this
        have hb' : ∀ i, buf[j + 1 + i]? = (rangeList (g + step) stop step)[i]? := by
          intro i
          have := hb (i + 1)
          rw [rangeList_getElem_succ g stop step i hg hstep] at this
          rw [← this]; congr 1; omega
        have hrows1 : ∀ row ∈ r1.fs.frames, row.length = sumN ((selChans d (c0 :: rest)).map Chan.numValues) := by
          intro row' hm
          rw [hfs1] at hm
          rcases List.mem_or_eq_of_mem_set hm with h | h
          · exact hrows _ h
          · rw [h]; simp [rowSel_length]
        have hN1 : frInt + (j + 1) + rangeLen (g + step) stop step ≤ r1.fs.frames.length := by
          rw [hfs1]; simp only [List.length_set]; omega
        have hch1 : r1.fs.chIdx = c0 :: rest := by rw [hfs1]; exact hch
        have hgs2 : (g + step + 1) * p.frameSize ≤ n * p.frameSize := Nat.mul_le_mul_right _ (by omega)
        have hgs2' : (g + step + 1) * p.frameSize = (g + step) * p.frameSize + p.frameSize := by ring
        rcases hmf with ⟨hnone, hz⟩ | ⟨cf, ct, hsome⟩
        · rw [hnone]
          simp only [evAt, List.append_nil]
          rw [renumber_append, hblock.1, hblock.2]
          simp only [execEvs_append, hex1]
          obtain ⟨r', hex, hfs', hc'⟩ := ih (g + step) (j + 1) j r1 hgs (by omega) hb' (Or.inr rfl) (by rw [hcur1]; exact hcur)
            (by rw [hofs1]; omega) hch1 hrows1 hN1
          rw [hnone] at hex
          refine ⟨r', hex, ?_, by rw [hc', hcur1]⟩
          rw [hfs', hfs1]; simp [setRows, rowOfSel]; ring_nf
        · rw [hsome]
          simp only [evAt, List.append_assoc, List.cons_append, List.nil_append]
          rw [renumber_append, hblock.1, hblock.2]
          simp only [execEvs_append, hex1]
          have hl : j + 1 < buf.length := by
            rcases Nat.lt_or_ge (j + 1) buf.length with h | h
            · exact h
            · rw [List.getElem?_eq_none h] at hb1; cases hb1
          have hstS : renumStep buf j ⟨.skip, (step - 1) * p.frameSize + p.skipToFrameEnd (lastP1 rest (c0 + 1) - 1) + p.skipToChStart c0, some (g + step), cf, ct⟩ = j + 1 := by
            unfold renumStep
            have : j + 1 < buf.length ∧ (buf[j + 1]? = some (g + step) ∧ (some (g + step)).isSome) := ⟨hl, hb1, rfl⟩
            rw [if_pos this]
          obtain ⟨ops, hsk⟩ := exec_skip' d st r1 t bs ((step - 1) * p.frameSize + p.skipToFrameEnd (lastP1 rest (c0 + 1) - 1) + p.skipToChStart c0)
            (some (frInt + (j + 1))) cf ct (by rw [hcur1]; exact hcur) (by rw [hofs1]; omega)
          obtain ⟨r', hex, hfs', hc'⟩ := ih (g + step) (j + 1) (j + 1)
            ⟨r1.cur, r1.ofs + ((step - 1) * p.frameSize + p.skipToFrameEnd (lastP1 rest (c0 + 1) - 1) + p.skipToChStart c0), r1.fs, ops⟩
            hgs (by omega) hb' (Or.inl rfl) (by simp only; rw [hcur1]; exact hcur)
            (by simp only; rw [hofs1]; omega) hch1 hrows1 hN1
          rw [hsome] at hex
          refine ⟨r', ?_, ?_, by rw [hc']; exact hcur1⟩
          · simp only [renumber_cons, hstS, execEvs, hsk]
            exact hex
          · rw [hfs', hfs1]; simp [setRows, rowOfSel]; ring_nf


/-! ### one record and all map entries for a channel subset -/

/-- the head of `genEvents` without an indirect word: the move to the first selected channel of the first frame -/
def headSel (p : Plan) (pre : Option Ev) (a : Nat) : List Ev :=
  match pre with
  | some pr => [⟨pr.ty, a * p.frameSize + pr.siz, some a, pr.cf, pr.ct⟩]
  | none => if a > 0 then [⟨.skip, a * p.frameSize, some a, none, some 0⟩] else []

theorem genEvents_sel (p : Plan) (cs : List Nat) (a b c : Nat) (pre post : Option Ev) (fevts : List Ev)
    (hpi : p.indr = 0) (hne : cs ≠ []) (hsorted : cs.Pairwise (· < ·)) (hlt : ∀ x ∈ cs, x < p.numChannels)
    (hab : a < b) (hc : 0 < c) (hret : retFrameEvents p cs = (pre, fevts, post)) :
    genEvents p a b c cs = .ok (headSel p pre a ++ frameLoop p fevts post (mergedPostFramePre p pre post c) b c (b - a) a none) := by
  have hchk : checkChIdx p cs = .ok cs := by
    unfold checkChIdx
    rw [sortDedup_of_sorted _ hsorted]
    simp only
    cases hl : cs.getLast? with
    | none => rfl
    | some x =>
      have := hlt x (List.mem_of_getLast? hl)
      simp [show ¬ x ≥ p.numChannels by omega]
  have hc0 : ¬ c = 0 := by omega
  have hlen : cs.length > 0 := by cases cs with | nil => exact absurd rfl hne | cons x xs => simp
  unfold genEvents
  simp only [hchk, hc0, if_false, hlen, hab, and_self, if_true, hret, hpi, Nat.lt_irrefl, List.nil_append]
  unfold headSel
  cases pre with
  | some pr => simp
  | none =>
    by_cases ha : 0 < a
    · simp [ha]
    · simp [ha]


/-- **One record, channel subset, direct X**: like `block_exec_all` for the selected channels `c0 :: rest`. -/
theorem block_exec_sel (d : Dfsr) (st : Store) (t : Nat) (bs : List Nat) (n a step len frInt : Nat) (p : Plan)
    (c0 : Nat) (rest : List Nat)
    (hp : p = ⟨0, d.chans.map Chan.size⟩) (hok : d.sizesOk) (hstep : 0 < step)
    (hltc : ∀ c ∈ c0 :: rest, c < d.chans.length) (hsorted : (c0 :: rest).Pairwise (· < ·))
    (hfind : Store.find st t = some bs) (hhead : bs.head? = some d.dataType)
    (hbs : bs.length = 2 + n * sumN (d.chans.map Chan.size)) (hlast : a + len * step < n)
    (r : Run) (hch : r.fs.chIdx = c0 :: rest)
    (hrows : ∀ row ∈ r.fs.frames, row.length = sumN ((selChans d (c0 :: rest)).map Chan.numValues))
    (hN : frInt + (len + 1) ≤ r.fs.frames.length) :
    ∃ a' b' c' evs r', sliceFromList (ap a step (len + 1)) = .ok (a', b', c') ∧
      genEvents p a' b' c' (c0 :: rest) = .ok evs ∧
      execEvs d st (⟨.seekLr, t, none, none, none⟩ :: renumber (ap a step (len + 1)) frInt evs 0) r = .ok r' ∧
      r'.fs = { r.fs with frames := setRows r.fs.frames frInt ((ap a step (len + 1)).map (rowOfSel d p (c0 :: rest) bs)) } := by
  obtain ⟨c, hc, hsl, hrl, _⟩ := sliceFromList_ap a step len hstep
  have hpi : p.indr = 0 := by rw [hp]
  have hps : p.sizes = d.chans.map Chan.size := by rw [hp]
  have hnc : p.numChannels = d.chans.length := by rw [hp]; simp [Plan.numChannels]
  have hfs : p.frameSize = sumN (d.chans.map Chan.size) := by rw [hp]; rfl
  have hab : a < a + len * step + 1 := by omega
  cases hret : retFrameEvents p (c0 :: rest) with
  | mk pre r2 =>
    obtain ⟨fevts, post⟩ := r2
    have hgen := genEvents_sel p (c0 :: rest) a (a + len * step + 1) c pre post fevts hpi (by simp) hsorted
      (by intro x hx; rw [hnc]; exact hltc x hx) hab hc hret
    obtain ⟨_, _, _, hpre, _⟩ := retFrameEvents_spec p c0 rest hsorted 0 pre fevts post hret
    obtain ⟨ops0, hseek⟩ := exec_seek d st r t bs none none none hfind hhead (by omega)
    have hb : ∀ i, (ap a step (len + 1))[0 + i]? = (rangeList a (a + len * step + 1) c)[i]? := by
      intro i; rw [hrl, Nat.zero_add]
    have hinc := ap_inc a step (len + 1) hstep
    have hlenR : rangeLen a (a + len * step + 1) c = len + 1 := by
      have : (rangeList a (a + len * step + 1) c).length = (ap a step (len + 1)).length := by rw [hrl]
      simpa [rangeList, ap] using this
    have han : (a + 1) * p.frameSize ≤ n * p.frameSize := Nat.mul_le_mul_right _ (by omega)
    have han' : (a + 1) * p.frameSize = a * p.frameSize + p.frameSize := by ring
    have hle2 := skip_le_frame p c0
    have hbs' : bs.length = 2 + n * p.frameSize := by rw [hfs]; exact hbs
    -- the state after the head: at the first selected channel of frame a
    have hheadex : ∃ rh, execEvs d st (⟨.seekLr, t, none, none, none⟩ :: renumber (ap a step (len + 1)) frInt (headSel p pre a) 0) r = .ok rh ∧
        renumK (ap a step (len + 1)) (headSel p pre a) 0 = 0 ∧
        rh.cur = some (t, bs) ∧ rh.ofs = 2 + a * p.frameSize + p.skipToChStart c0 ∧ rh.fs = r.fs := by
      have hst0 : ∀ (e : Ev), e.fr = some a → renumStep (ap a step (len + 1)) 0 e = 0 := by
        intro e he
        unfold renumStep
        have : ¬ (0 + 1 < (ap a step (len + 1)).length ∧ ((ap a step (len + 1))[0 + 1]? = e.fr ∧ e.fr.isSome)) := by
          intro ⟨_, he', _⟩
          rw [he] at he'
          have h0 : (ap a step (len + 1))[0]? = some a := by rw [ap_getElem]; simp
          have := hinc 0 (0 + 1) a a (by omega) h0 he'
          omega
        rw [if_neg this]
      unfold preIs at hpre
      unfold headSel
      cases pre with
      | some pr =>
        simp only at hpre ⊢
        obtain ⟨hty, hsz, _⟩ := hpre
        have h0 := hst0 ⟨pr.ty, a * p.frameSize + pr.siz, some a, pr.cf, pr.ct⟩ rfl
        obtain ⟨ops1, hsk⟩ := exec_skip' d st ⟨some (t, bs), 2, r.fs, ops0⟩ t bs (a * p.frameSize + pr.siz)
          (some (frInt + 0)) pr.cf pr.ct rfl (by simp only; rw [hsz]; omega)
        refine ⟨⟨some (t, bs), 2 + (a * p.frameSize + pr.siz), r.fs, ops1⟩, ?_, by simp only [renumK, h0], rfl, by simp only; rw [hsz]; omega, rfl⟩
        rw [renumber_cons, h0]
        simp only [renumber, execEvs, hseek, hty, hsk]
      | none =>
        simp only at hpre ⊢
        subst hpre
        have hA : p.skipToChStart 0 = 0 := skip_zero p
        by_cases ha : 0 < a
        · simp only [ha, if_true]
          have h0 := hst0 ⟨.skip, a * p.frameSize, some a, none, some 0⟩ rfl
          obtain ⟨ops1, hsk⟩ := exec_skip' d st ⟨some (t, bs), 2, r.fs, ops0⟩ t bs (a * p.frameSize)
            (some (frInt + 0)) none (some 0) rfl (by simp only; omega)
          refine ⟨⟨some (t, bs), 2 + a * p.frameSize, r.fs, ops1⟩, ?_, by simp only [renumK, h0], rfl, by simp only; rw [hA]; omega, rfl⟩
          rw [renumber_cons, h0]
          simp only [renumber, execEvs, hseek, hsk]
        · have ha0 : a = 0 := by omega
          subst ha0
          simp only [Nat.lt_irrefl, if_false]
          exact ⟨⟨some (t, bs), 2, r.fs, ops0⟩, by simp only [renumber, execEvs, hseek], rfl, rfl, by simp [hA], rfl⟩
    obtain ⟨rh, hexh, hk0, hcurh, hofsh, hfsh⟩ := hheadex
    obtain ⟨r', hex, hfs', _⟩ := frameLoop_exec_sel d st t bs n (a + len * step + 1) c (ap a step (len + 1)) frInt p c0 rest
      pre post fevts hps hpi hok hc hltc hsorted hbs' (by omega) hret hinc (a + len * step + 1 - a) a 0 0 rh hab (Nat.le_refl _) hb
      (Or.inl rfl) hcurh hofsh (by rw [hfsh]; exact hch) (by rw [hfsh]; exact hrows)
      (by rw [hlenR, hfsh]; simpa using hN)
    refine ⟨a, a + len * step + 1, c, _, r', hsl, hgen, ?_, ?_⟩
    · rw [renumber_append, hk0, ← List.cons_append, execEvs_append, hexh]
      exact hex
    · rw [hfs', hrl, hfsh]; simp


/-- **All map entries, channel subset, direct X.** -/
theorem entries_exec_sel (d : Dfsr) (st : Store) (c : Nat) (p : Plan) (c0 : Nat) (rest : List Nat)
    (hp : p = ⟨0, d.chans.map Chan.size⟩) (hok : d.sizesOk) (hc : 0 < c)
    (hltc : ∀ x ∈ c0 :: rest, x < d.chans.length) (hsorted : (c0 :: rest).Pairwise (· < ·)) :
    ∀ (entries : List (Int × List Nat)) (frInt : Nat) (r : Run),
      (∀ e ∈ entries, EntryOk d st c e) →
      r.fs.chIdx = c0 :: rest →
      (∀ row ∈ r.fs.frames, row.length = sumN ((selChans d (c0 :: rest)).map Chan.numValues)) →
      frInt + (entries.map (·.2.length)).sum ≤ r.fs.frames.length →
      ∃ evs r', genFrameSetEventsAux p (c0 :: rest) entries frInt = .ok evs ∧ execEvs d st evs r = .ok r' ∧
        r'.fs = { r.fs with frames := setRows r.fs.frames frInt (entries.flatMap (fun e => e.2.map (rowOfSel d p (c0 :: rest) (bytesOf st e.1.toNat)))) } := by
  intro entries
  induction entries with
  | nil =>
    intro frInt r _ _ _ _
    exact ⟨[], r, by simp [genFrameSetEventsAux], by simp [execEvs], by simp [setRows]⟩
  | cons e rest' ih =>
    intro frInt r hent hch hrows hN
    obtain ⟨seek, buf⟩ := e
    obtain ⟨a, len, n, bs, hbuf, hfind, hhead, hbs, hlast⟩ := hent (seek, buf) (List.mem_cons_self ..)
    simp only at hbuf hfind
    subst hbuf
    simp only [List.map_cons, List.sum_cons, ap_length] at hN
    obtain ⟨a', b', c', evs1, r1, hsl, hgen, hex, hfs⟩ := block_exec_sel d st seek.toNat bs n a c len frInt p c0 rest hp hok hc
      hltc hsorted hfind hhead hbs hlast r hch hrows (by omega)
    have hch1 : r1.fs.chIdx = c0 :: rest := by rw [hfs]; exact hch
    have hrows1 : ∀ row ∈ r1.fs.frames, row.length = sumN ((selChans d (c0 :: rest)).map Chan.numValues) := by
      rw [hfs]
      apply setRows_rowlen _ _ _ _ hrows
      intro row hm
      obtain ⟨g, _, rfl⟩ := List.mem_map.1 hm
      exact rowOfSel_length d p _ bs g
    have hlen1 : r1.fs.frames.length = r.fs.frames.length := by rw [hfs]; exact setRows_length _ _ _
    obtain ⟨evs2, r2, hgen2, hex2, hfs2⟩ := ih (frInt + (len + 1)) r1
      (fun e he => hent e (List.mem_cons_of_mem _ he)) hch1 hrows1 (by rw [hlen1]; omega)
    refine ⟨⟨.seekLr, seek.toNat, none, none, none⟩ :: renumber (ap a c (len + 1)) frInt evs1 0 ++ evs2, r2, ?_, ?_, ?_⟩
    · simp only [genFrameSetEventsAux, hsl, hgen, ap_length, hgen2]
    · rw [execEvs_append, hex]; exact hex2
    · rw [hfs2, hfs]
      simp only [List.flatMap_cons]
      have hb : bytesOf st seek.toNat = bs := by simp [bytesOf, hfind]
      rw [hb]
      have := setRows_append r.fs.frames frInt ((ap a c (len + 1)).map (rowOfSel d p (c0 :: rest) bs))
        (rest'.flatMap (fun e => e.2.map (rowOfSel d p (c0 :: rest) (bytesOf st e.1.toNat))))
      simp only [List.length_map, ap_length] at this
      simp only [this]


/-- the channels of the frame set (`_chIdxIntExt`) for a direct-X log pass whose X channel is channel 0 -/
def selIdx (d : Dfsr) (chList : Option (List Nat)) : List Nat :=
  match chList with
  | none => List.range d.chans.length
  | some l => sortDedup (l ++ [0])

theorem selIdx_props (d : Dfsr) (chList : Option (List Nat)) (hn : 0 < d.chans.length)
    (hcl : ∀ l, chList = some l → ∀ c ∈ l, c < d.chans.length) :
    (selIdx d chList).Pairwise (· < ·) ∧ (∀ c ∈ selIdx d chList, c < d.chans.length) ∧ selIdx d chList ≠ [] := by
  cases chList with
  | none =>
    refine ⟨List.pairwise_lt_range, by intro c hc; simpa [selIdx] using hc, ?_⟩
    intro h
    have : (selIdx d none).length = d.chans.length := by simp [selIdx]
    rw [h] at this; simp at this; omega
  | some l =>
    refine ⟨sortDedup_sorted _, ?_, ?_⟩
    · intro c hc
      have := (sortDedup_mem (l ++ [0]) c).1 hc
      rcases List.mem_append.1 this with h | h
      · exact hcl l rfl c h
      · simp at h; omega
    · intro h
      have : 0 ∈ sortDedup (l ++ [0]) := (sortDedup_mem _ 0).2 (by simp)
      simp only [selIdx] at h
      rw [h] at this; simp at this

theorem new_direct (d : Dfsr) (S : Sl) (chList : Option (List Nat)) (hrm : d.recMode = 0)
    (hlt : ∀ c ∈ selIdx d chList, c < d.chans.length) :
    FrameSet.new d S chList 0 = .ok ⟨selIdx d chList, rangeLen S.start S.stop S.step1,
      List.replicate (rangeLen S.start S.stop S.step1)
        (List.replicate (sumN ((selChans d (selIdx d chList)).map Chan.numValues)) none), [], none⟩ := by
  have hvpf : ∀ cs : List Nat, sumN (cs.map (fun e => ((d.chans[e]?).map Chan.numValues).getD 0))
      = sumN ((selChans d cs).map Chan.numValues) := by
    intro cs; simp only [selChans, List.map_map]; congr 1
    apply List.map_congr_left; intro e _; exact chanAt_nv d e
  have hany : (selIdx d chList).any (fun e => decide (e ≥ d.chans.length)) = false := by
    rw [List.any_eq_false]; intro e he; have := hlt e he; simp; omega
  unfold FrameSet.new
  cases chList with
  | none =>
    simp only [selIdx] at hany ⊢
    simp only [hrm, hany]
    simp [hvpf]
  | some l =>
    simp only [selIdx] at hany ⊢
    simp only [hrm]
    simp [hany, hvpf]

/-- the row the matrix must hold for frame `f`: the selected channels, from the record that `locate` finds -/
def frameRowSel (d : Dfsr) (st : Store) (R : List (Int × Nat)) (cs : List Nat) (f : Nat) : List (Option Nat) :=
  match locate R f with
  | some (t, off) => rowOfSel d ⟨0, d.chans.map Chan.size⟩ cs (bytesOf st t.toNat) off
  | none => []


end TD.C06
