import TD.C06.Model
import Mathlib.Tactic.Ring
import Mathlib.Tactic.Linarith

/-!
C06 — byte-level semantics of an event list and the lemmas behind `events_cover`.
-/
namespace TD.C06

/-- the byte positions (relative to the end of the logical record header) read by an event list started at `pos` -/
def evBytes : List Ev → Nat → List Nat
  | [], _ => []
  | e :: es, pos =>
    match e.ty with
    | .read => List.range' pos e.siz ++ evBytes es (pos + e.siz)
    | .skip => evBytes es (pos + e.siz)
    | _ => evBytes es pos

/-- where the file position is after the event list (total of read + skip) -/
def evEnd : List Ev → Nat → Nat
  | [], pos => pos
  | e :: es, pos =>
    match e.ty with
    | .read => evEnd es (pos + e.siz)
    | .skip => evEnd es (pos + e.siz)
    | _ => evEnd es pos

theorem evBytes_append (a b : List Ev) (pos : Nat) : evBytes (a ++ b) pos = evBytes a pos ++ evBytes b (evEnd a pos) := by
  induction a generalizing pos with
  | nil => simp [evBytes, evEnd]
  | cons e es ih =>
    simp only [List.cons_append, evBytes, evEnd]
    cases e.ty <;> simp [ih]

theorem evEnd_append (a b : List Ev) (pos : Nat) : evEnd (a ++ b) pos = evEnd b (evEnd a pos) := by
  induction a generalizing pos with
  | nil => simp [evEnd]
  | cons e es ih =>
    simp only [List.cons_append, evEnd]
    cases e.ty <;> simp [ih]

/-- bytes of channel `c` of the frame that starts at `base` -/
def chBytes (p : Plan) (base c : Nat) : List Nat := List.range' (base + p.skipToChStart c) (p.chSize c)

/-- bytes of the channels `cs` of the frame that starts at `base`, in order -/
def selBytes (p : Plan) (base : Nat) (cs : List Nat) : List Nat := cs.flatMap (chBytes p base)

theorem sumN_take_succ (l : List Nat) (c : Nat) : sumN (l.take (c + 1)) = sumN (l.take c) + l.getD c 0 := by
  induction l generalizing c with
  | nil => simp [sumN]
  | cons x xs ih =>
    cases c with
    | zero => simp [sumN]
    | succ k => simp only [List.take_succ_cons, sumN, ih k, List.getD_cons_succ]; omega

theorem sumN_take_le (l : List Nat) (c : Nat) : sumN (l.take c) ≤ sumN l := by
  induction l generalizing c with
  | nil => simp [sumN]
  | cons x xs ih =>
    cases c with
    | zero => simp [sumN]
    | succ k => simp only [List.take_succ_cons, sumN]; have := ih k; omega

theorem skip_succ (p : Plan) (c : Nat) : p.skipToChStart (c + 1) = p.skipToChStart c + p.chSize c := by
  simp [Plan.skipToChStart, Plan.chSize, sumN_take_succ]

theorem skip_mono (p : Plan) (a b : Nat) (h : a ≤ b) : p.skipToChStart a ≤ p.skipToChStart b := by
  induction b with
  | zero => have : a = 0 := by omega
            subst this; exact Nat.le_refl _
  | succ k ih =>
    by_cases hk : a ≤ k
    · have := ih hk; rw [skip_succ]; omega
    · have : a = k + 1 := by omega
      subst this; exact Nat.le_refl _

theorem skip_end (p : Plan) (c : Nat) : p.skipToChStart (c + 1) + p.skipToFrameEnd c = p.frameSize := by
  unfold Plan.skipToFrameEnd Plan.skipToChStart Plan.frameSize
  have := sumN_take_le p.sizes (c + 1)
  omega

theorem skip_zero (p : Plan) : p.skipToChStart 0 = 0 := by simp [Plan.skipToChStart, sumN]


/-- the optional event has size `n` (absent: `n = 0`) -/
def sizIs (e : Option Ev) (n : Nat) : Prop := match e with | some e => e.siz = n | none => n = 0
/-- the optional event is a skip of size `n` (absent: `n = 0`) -/
def skipIs (e : Option Ev) (n : Nat) : Prop := match e with | some e => e.ty = .skip ∧ e.siz = n | none => n = 0
/-- the pre-event: a skip to the first selected channel `c0`, absent iff `c0 = 0` -/
def preIs (e : Option Ev) (n c0 : Nat) : Prop := match e with | some e => e.ty = .skip ∧ e.siz = n ∧ 0 < c0 | none => c0 = 0

/-- value of `match getLast? with some l => l+1 | none => d` -/
def lastP1 (cs : List Nat) (d : Nat) : Nat := match cs.getLast? with | some l => l + 1 | none => d

theorem lastP1_cons (c : Nat) (cs : List Nat) (d : Nat) : lastP1 (c :: cs) d = lastP1 cs (c + 1) := by
  unfold lastP1
  rw [List.getLast?_cons]
  cases cs.getLast? <;> simp

/-- **The channel loop of `_retFrameEvents`**: with the pending read appended, the accumulated events read the
pending run followed by the bytes of the remaining channels, and end behind the last channel. -/
theorem frameEvLoop_spec (p : Plan) (base pos0 : Nat) (cs : List Nat) :
    ∀ (chStart stopP1 siz : Nat) (acc : List Ev),
    evEnd acc pos0 = base + p.skipToChStart chStart →
    p.skipToChStart chStart + siz = p.skipToChStart stopP1 →
    chStart ≤ stopP1 → (stopP1 = chStart → siz = 0) →
    (∀ c ∈ cs, stopP1 ≤ c) → cs.Pairwise (· < ·) →
    ∀ acc' cS sP sz, frameEvLoop p cs chStart stopP1 siz acc = (acc', cS, sP, sz) →
      evBytes (acc' ++ [⟨.read, sz, none, some cS, some (sP - 1)⟩]) pos0
        = evBytes acc pos0 ++ List.range' (base + p.skipToChStart chStart) siz ++ selBytes p base cs ∧
      evEnd (acc' ++ [⟨.read, sz, none, some cS, some (sP - 1)⟩]) pos0 = base + p.skipToChStart sP ∧
      sP = lastP1 cs stopP1 ∧ (sP > cS ∨ sz = 0) := by
  induction cs with
  | nil =>
    intro chStart stopP1 siz acc hpos hsiz hle hz _ _ acc' cS sP sz h
    simp only [frameEvLoop, Prod.mk.injEq] at h
    obtain ⟨rfl, rfl, rfl, rfl⟩ := h
    refine ⟨?_, ?_, rfl, ?_⟩
    · rw [evBytes_append]; simp [evBytes, hpos, selBytes]
    · rw [evEnd_append]; simp [evEnd, hpos]; omega
    · by_cases h : stopP1 = chStart
      · right; exact hz h
      · left; omega
  | cons c cs ih =>
    intro chStart stopP1 siz acc hpos hsiz hle hz hge hsorted acc' cS sP sz h
    have hc : stopP1 ≤ c := hge c (List.mem_cons_self ..)
    have hsorted' : cs.Pairwise (· < ·) := (List.pairwise_cons.1 hsorted).2
    have hgt : ∀ c' ∈ cs, c + 1 ≤ c' := fun c' hc' => (List.pairwise_cons.1 hsorted).1 c' hc'
    simp only [frameEvLoop] at h
    by_cases heq : c = stopP1
    · simp only [heq, if_true] at h
      subst heq
      have := ih chStart (c + 1) (siz + p.chSize c) acc hpos (by rw [skip_succ]; omega) (by omega) (by omega) hgt hsorted'
        acc' cS sP sz h
      obtain ⟨h1, h2, h3, h4⟩ := this
      refine ⟨?_, h2, ?_, h4⟩
      · rw [h1]
        simp only [selBytes, List.flatMap_cons, chBytes]
        rw [← List.range'_append_1 (s := base + p.skipToChStart chStart) (m := siz) (n := p.chSize c)]
        have : base + p.skipToChStart chStart + siz = base + p.skipToChStart c := by omega
        rw [this]; simp [List.append_assoc]
      · rw [h3, lastP1_cons]
    · simp only [heq, if_false] at h
      have hlt : stopP1 < c := by omega
      have hacc1 : ∀ acc1, acc1 = (if stopP1 > chStart then acc ++ [⟨.read, siz, none, some chStart, some (stopP1 - 1)⟩] else acc) →
          evBytes acc1 pos0 = evBytes acc pos0 ++ List.range' (base + p.skipToChStart chStart) siz ∧
          evEnd acc1 pos0 = base + p.skipToChStart stopP1 := by
        intro acc1 ha
        by_cases hg : stopP1 > chStart
        · simp only [hg, if_true] at ha; subst ha
          rw [evBytes_append, evEnd_append]; simp [evBytes, evEnd, hpos]; omega
        · have h0 : stopP1 = chStart := by omega
          have hs0 := hz h0
          simp only [hg, if_false] at ha; subst ha
          subst hs0; simp [hpos, h0]
      obtain ⟨hb1, he1⟩ := hacc1 _ rfl
      have hmono := skip_mono p stopP1 c (by omega)
      have := ih c (c + 1) (p.chSize c)
        ((if stopP1 > chStart then acc ++ [⟨.read, siz, none, some chStart, some (stopP1 - 1)⟩] else acc)
          ++ [⟨.skip, p.skipToChStart c - p.skipToChStart stopP1, none, some stopP1, some (c - 1)⟩])
        (by rw [evEnd_append]; simp only [evEnd, he1]; omega)
        (by rw [skip_succ]) (by omega) (by omega) hgt hsorted' acc' cS sP sz h
      obtain ⟨h1, h2, h3, h4⟩ := this
      refine ⟨?_, h2, ?_, h4⟩
      · rw [h1, evBytes_append, hb1]
        simp [evBytes, selBytes, chBytes, List.append_assoc]
      · rw [h3, lastP1_cons]

/-- the accumulated list keeps its head; started empty with a pending run, it begins with a read -/
theorem frameEvLoop_head (p : Plan) (cs : List Nat) :
    ∀ (chStart stopP1 siz : Nat) (acc : List Ev) acc' cS sP sz,
    frameEvLoop p cs chStart stopP1 siz acc = (acc', cS, sP, sz) →
    (acc ≠ [] → acc'.head? = acc.head?) ∧
    (acc = [] → stopP1 > chStart →
      ((acc' ++ [(⟨.read, sz, none, some cS, some (sP - 1)⟩ : Ev)]).head?.map (fun e : Ev => e.ty)) = some Ty.read) := by
  induction cs with
  | nil =>
    intro chStart stopP1 siz acc acc' cS sP sz h
    simp only [frameEvLoop, Prod.mk.injEq] at h
    obtain ⟨rfl, rfl, rfl, rfl⟩ := h
    exact ⟨fun _ => rfl, fun ha _ => by subst ha; simp⟩
  | cons c cs ih =>
    intro chStart stopP1 siz acc acc' cS sP sz h
    simp only [frameEvLoop] at h
    by_cases heq : c = stopP1
    · simp only [heq, if_true] at h
      obtain ⟨h5, h6⟩ := ih chStart (stopP1 + 1) _ acc acc' cS sP sz h
      exact ⟨h5, fun ha hg => h6 ha (by omega)⟩
    · simp only [heq, if_false] at h
      obtain ⟨h5, _⟩ := ih c (c + 1) _ _ acc' cS sP sz h
      have h5' := h5 (by simp)
      constructor
      · intro hne
        rw [h5']
        cases acc with
        | nil => exact absurd rfl hne
        | cons a as => by_cases hg : stopP1 > chStart <;> simp [hg]
      · intro ha hg
        subst ha
        simp only [hg, if_true, List.nil_append, List.cons_append, List.head?_cons] at h5'
        cases acc' with
        | nil => simp at h5'
        | cons a as => simp at h5' ⊢; rw [h5']


theorem frameEvLoop_gt (p : Plan) (cs : List Nat) :
    ∀ (chStart stopP1 siz : Nat) (acc : List Ev) acc' cS sP sz,
    frameEvLoop p cs chStart stopP1 siz acc = (acc', cS, sP, sz) → stopP1 > chStart → sP > cS := by
  induction cs with
  | nil =>
    intro chStart stopP1 siz acc acc' cS sP sz h hg
    simp only [frameEvLoop, Prod.mk.injEq] at h
    obtain ⟨rfl, rfl, rfl, rfl⟩ := h
    exact hg
  | cons c cs ih =>
    intro chStart stopP1 siz acc acc' cS sP sz h hg
    simp only [frameEvLoop] at h
    by_cases heq : c = stopP1
    · simp only [heq, if_true] at h
      exact ih _ _ _ _ _ _ _ _ h (by omega)
    · simp only [heq, if_false] at h
      exact ih _ _ _ _ _ _ _ _ h (by omega)

/-- **`_retFrameEvents`** for a strictly increasing non-empty channel list: started at the first selected channel of
the frame at `base`, the frame events read exactly the bytes of the selected channels, in order, begin with a read, and
end behind the last selected channel; pre and post are the skips to the first channel / to the end of the frame. -/
theorem retFrameEvents_spec (p : Plan) (c0 : Nat) (rest : List Nat) (hsorted : (c0 :: rest).Pairwise (· < ·)) (base : Nat) :
    ∀ pre fevts post, retFrameEvents p (c0 :: rest) = (pre, fevts, post) →
      evBytes fevts (base + p.skipToChStart c0) = selBytes p base (c0 :: rest) ∧
      evEnd fevts (base + p.skipToChStart c0) = base + p.skipToChStart (lastP1 rest (c0 + 1)) ∧
      fevts.head?.map (fun e : Ev => e.ty) = some Ty.read ∧
      preIs pre (p.skipToChStart c0) c0 ∧
      skipIs post (p.skipToFrameEnd (lastP1 rest (c0 + 1) - 1)) := by
  intro pre fevts post h
  unfold retFrameEvents at h
  simp only at h
  -- first iteration: the first channel is contiguous with the (empty) pending run
  have hstep : frameEvLoop p (c0 :: rest) c0 c0 0 [] = frameEvLoop p rest c0 (c0 + 1) (0 + p.chSize c0) [] := by
    simp [frameEvLoop]
  rw [hstep] at h
  have hsorted' : rest.Pairwise (· < ·) := (List.pairwise_cons.1 hsorted).2
  have hgt : ∀ c' ∈ rest, c0 + 1 ≤ c' := fun c' hc' => (List.pairwise_cons.1 hsorted).1 c' hc'
  cases hr : frameEvLoop p rest c0 (c0 + 1) (0 + p.chSize c0) [] with
  | mk acc' r2 =>
    obtain ⟨cS, sP, sz⟩ := r2
    rw [hr] at h
    simp only [Prod.mk.injEq] at h
    obtain ⟨hpre, hfev, hpost⟩ := h
    have hspec := frameEvLoop_spec p base (base + p.skipToChStart c0) rest c0 (c0 + 1) (0 + p.chSize c0) []
      (by simp [evEnd]) (by rw [skip_succ]; omega) (by omega) (by omega) hgt hsorted' acc' cS sP sz hr
    obtain ⟨h1, h2, h3, _⟩ := hspec
    have hgtP := frameEvLoop_gt p rest c0 (c0 + 1) _ [] acc' cS sP sz hr (by omega)
    have hhead := (frameEvLoop_head p rest c0 (c0 + 1) _ [] acc' cS sP sz hr).2 rfl (by omega)
    simp only [hgtP, if_true] at hfev
    subst hfev
    have hlast : (c0 :: rest).getLast?.getD c0 = lastP1 rest (c0 + 1) - 1 := by
      unfold lastP1
      rw [List.getLast?_cons]
      cases rest.getLast? <;> simp
    refine ⟨?_, ?_, hhead, ?_, ?_⟩
    · rw [h1]
      simp only [evBytes, List.nil_append, selBytes, List.flatMap_cons, chBytes, Nat.zero_add]
    · rw [h2, h3]
    · subst hpre
      unfold preIs
      by_cases hc : c0 > 0
      · simp [hc]
      · simp [hc]; omega
    · subst hpost
      unfold skipIs
      rw [hlast]
      by_cases hc : p.skipToFrameEnd (lastP1 rest (c0 + 1) - 1) > 0
      · simp [hc]
      · simp [hc]; omega


/-! ### the frame loop of `genEvents` -/

theorem emitFrame_none (f : Nat) (es : List Ev) (pos : Nat) :
    (emitFrame f es none).2 = none ∧ evBytes (emitFrame f es none).1 pos = evBytes es pos ∧
    evEnd (emitFrame f es none).1 pos = evEnd es pos := by
  induction es generalizing pos with
  | nil => simp [emitFrame, evBytes, evEnd]
  | cons e es ih =>
    simp only [emitFrame, evBytes, evEnd]
    refine ⟨(ih pos).1, ?_, ?_⟩
    · cases hty : e.ty <;> simp [(ih _).2.1]
    · cases hty : e.ty <;> simp [(ih _).2.2]

theorem emitFrame_spec (f : Nat) (es : List Ev) (pend : Option Nat) (pos : Nat)
    (hhead : es.head?.map (fun e : Ev => e.ty) = some Ty.read) :
    (emitFrame f es pend).2 = none ∧
    evBytes (emitFrame f es pend).1 pos = List.range' pos (pend.getD 0) ++ evBytes es (pos + pend.getD 0) ∧
    evEnd (emitFrame f es pend).1 pos = evEnd es (pos + pend.getD 0) := by
  cases pend with
  | none => simpa using emitFrame_none f es pos
  | some isz =>
    cases es with
    | nil => simp at hhead
    | cons e es =>
      simp only [List.head?_cons, Option.map_some, Option.some.injEq] at hhead
      simp only [emitFrame, Option.getD_some, evBytes, evEnd, hhead]
      have := emitFrame_none f es (pos + (isz + e.siz))
      refine ⟨this.1, ?_, ?_⟩
      · rw [this.2.1, Nat.add_assoc, ← List.append_assoc, List.range'_append_1]
      · rw [this.2.2, Nat.add_assoc]

theorem rangeLen_lt (a b c : Nat) (h : a < b) (hc : 0 < c) :
    rangeLen a b c = rangeLen (a + c) b c + 1 := by
  unfold rangeLen
  simp only [h, if_true]
  by_cases h2 : a + c < b
  · simp only [h2, if_true]
    have : (b - a - 1) = (b - (a + c) - 1) + c := by omega
    rw [this, Nat.add_div_right _ hc]
  · simp only [h2, if_false]
    have : (b - a - 1) / c = 0 := Nat.div_eq_of_lt (by omega)
    omega

theorem rangeList_cons (a b c : Nat) (h : a < b) (hc : 0 < c) :
    rangeList a b c = a :: rangeList (a + c) b c := by
  unfold rangeList
  rw [rangeLen_lt a b c h hc, List.range_succ_eq_map]
  simp only [List.map_cons, Nat.zero_mul, Nat.add_zero, List.map_map, List.cons.injEq, true_and]
  apply List.map_congr_left
  intro i _
  simp only [Function.comp, Nat.succ_eq_add_one]
  ring

theorem rangeList_nil (a b c : Nat) (h : b ≤ a) : rangeList a b c = [] := by
  unfold rangeList rangeLen
  have : ¬ a < b := by omega
  simp [this]

/-- the inter-frame event moves by `post + (step-1) frames + pre` and reads nothing -/
theorem merged_spec (p : Plan) (pre post : Option Ev) (step preSiz postSiz : Nat) (hstep : 0 < step)
    (hpre : sizIs pre preSiz) (hpost : sizIs post postSiz) (g pos : Nat) :
    evBytes (evAt (mergedPostFramePre p pre post step) g) pos = [] ∧
    evEnd (evAt (mergedPostFramePre p pre post step) g) pos
      = pos + ((step - 1) * p.frameSize + postSiz + preSiz) := by
  have hs : (if step > 1 then (step - 1) * p.frameSize else 0) = (step - 1) * p.frameSize := by
    by_cases h : step > 1
    · simp [h]
    · have : step - 1 = 0 := by omega
      simp [h, this]
  unfold sizIs at hpre hpost
  unfold mergedPostFramePre evAt
  simp only [hs]
  cases pre <;> cases post <;> simp only at hpre hpost ⊢
  · subst hpre hpost
    simp only [Nat.add_zero]
    by_cases h : (step - 1) * p.frameSize > 0
    · simp only [h, if_true, evBytes, evEnd]; exact ⟨trivial, trivial⟩
    · have h0 : (step - 1) * p.frameSize = 0 := by omega
      rw [h0]; simp [evBytes, evEnd]
  · subst hpre hpost; simp [evBytes, evEnd]
  · subst hpre hpost; simp [evBytes, evEnd]
  · subst hpre hpost; simp [evBytes, evEnd]


/-- **The frame loop of `genEvents`**: positioned at the first selected channel of frame `f` (minus a pending indirect
word), the loop reads the pending word and then the selected channels of the frames `range(f, stop, step)`, and ends
at the end of the last selected frame. -/
theorem frameLoop_spec (p : Plan) (cs : List Nat) (fevts : List Ev) (post inter : Option Ev) (stop step A E postSiz : Nat)
    (hstep : 0 < step)
    (hB : ∀ base, evBytes fevts (base + A) = selBytes p base cs)
    (hE : ∀ base, evEnd fevts (base + A) = base + E)
    (hhead : fevts.head?.map (fun e : Ev => e.ty) = some Ty.read)
    (hfs : E + postSiz = p.frameSize)
    (hpost : skipIs post postSiz)
    (hinter : ∀ g pos, evBytes (evAt inter g) pos = [] ∧
      evEnd (evAt inter g) pos
        = pos + ((step - 1) * p.frameSize + postSiz + A)) :
    ∀ (fuel f : Nat) (pend : Option Nat) (pos : Nat), f < stop → stop - f ≤ fuel →
      pos + pend.getD 0 = p.indr + f * p.frameSize + A →
      evBytes (frameLoop p fevts post inter stop step fuel f pend) pos
        = List.range' pos (pend.getD 0) ++ (rangeList f stop step).flatMap (fun g => selBytes p (p.indr + g * p.frameSize) cs) ∧
      ∃ g, f ≤ g ∧ g < stop ∧ evEnd (frameLoop p fevts post inter stop step fuel f pend) pos = p.indr + (g + 1) * p.frameSize := by
  unfold skipIs at hpost
  intro fuel
  induction fuel with
  | zero => intro f pend pos hf hfuel; omega
  | succ fuel ih =>
    intro f pend pos hf hfuel hpos
    simp only [frameLoop, hf, if_true]
    obtain ⟨hem2, hemB, hemE⟩ := emitFrame_spec f fevts pend pos hhead
    cases hem : emitFrame f fevts pend with
    | mk evs pend' =>
      rw [hem] at hem2 hemB hemE
      simp only at hem2 hemB hemE ⊢
      subst hem2
      have hposB : evBytes fevts (pos + pend.getD 0) = selBytes p (p.indr + f * p.frameSize) cs := by
        rw [hpos]; exact hB _
      have hposE : evEnd fevts (pos + pend.getD 0) = p.indr + f * p.frameSize + E := by
        rw [hpos]; exact hE _
      rw [rangeList_cons f stop step hf hstep]
      by_cases hlast : f + step ≥ stop
      · simp only [hlast, if_true]
        rw [rangeList_nil _ _ _ hlast]
        constructor
        · rw [evBytes_append, hemB, hposB]
          cases post with
          | none => simp [evBytes, evAt]
          | some e => simp only at hpost; simp [evBytes, evAt, hpost.1]
        · refine ⟨f, Nat.le_refl _, hf, ?_⟩
          rw [evEnd_append, hemE, hposE]
          have : (f + 1) * p.frameSize = f * p.frameSize + p.frameSize := by ring
          cases post with
          | none => simp only at hpost; simp only [evEnd, evAt]; omega
          | some e => simp only at hpost; simp only [evEnd, evAt, hpost.1, hpost.2]; omega
      · simp only [hlast, if_false]
        have hnext : evEnd (evs ++ evAt inter (f + step)
            ++ (if p.indr > 0 then [(⟨.extrap, step, some (f + step), none, none⟩ : Ev)] else [])) pos
            = p.indr + (f + step) * p.frameSize + A := by
          rw [evEnd_append, evEnd_append, hemE, hposE, (hinter _ _).2]
          obtain ⟨s', rfl⟩ : ∃ s', step = s' + 1 := ⟨step - 1, by omega⟩
          have h1 : (f + (s' + 1)) * p.frameSize = f * p.frameSize + s' * p.frameSize + p.frameSize := by ring
          have h2 : s' + 1 - 1 = s' := by omega
          by_cases hi : p.indr > 0
          · simp only [hi, if_true, evEnd, h2]; omega
          · simp only [hi, if_false, evEnd, h2]; omega
        have hnextB : evBytes (evs ++ evAt inter (f + step)
            ++ (if p.indr > 0 then [(⟨.extrap, step, some (f + step), none, none⟩ : Ev)] else [])) pos
            = List.range' pos (pend.getD 0) ++ selBytes p (p.indr + f * p.frameSize) cs := by
          rw [evBytes_append, evBytes_append, hemB, hposB, (hinter _ _).1]
          by_cases hi : p.indr > 0
          · simp [hi, evBytes]
          · simp [hi, evBytes]
        have hrec := ih (f + step) none (p.indr + (f + step) * p.frameSize + A) (by omega) (by omega) (by simp)
        obtain ⟨hrB, g, hg1, hg2, hrE⟩ := hrec
        constructor
        · rw [evBytes_append, hnext, hnextB, hrB]
          simp [List.append_assoc]
        · refine ⟨g, by omega, hg2, ?_⟩
          rw [evEnd_append, hnext, hrE]


/-! ### `sorted(set(l))` -/

theorem insertSorted_mem (x : Nat) (l : List Nat) (y : Nat) : y ∈ insertSorted x l ↔ y = x ∨ y ∈ l := by
  induction l with
  | nil => simp [insertSorted]
  | cons a as ih =>
    simp only [insertSorted]
    split
    · simp
    · split
      · rename_i h; subst h; simp
      · simp [ih]; tauto

theorem insertSorted_sorted (x : Nat) (l : List Nat) (h : l.Pairwise (· < ·)) : (insertSorted x l).Pairwise (· < ·) := by
  induction l with
  | nil => simp [insertSorted]
  | cons a as ih =>
    simp only [insertSorted]
    have ha := List.pairwise_cons.1 h
    split
    · rename_i hxa
      refine List.pairwise_cons.2 ⟨?_, h⟩
      intro b hb
      rcases List.mem_cons.1 hb with rfl | hb
      · exact hxa
      · exact Nat.lt_trans hxa (ha.1 b hb)
    · split
      · exact h
      · rename_i h1 h2
        refine List.pairwise_cons.2 ⟨?_, ih ha.2⟩
        intro b hb
        rcases (insertSorted_mem x as b).1 hb with rfl | hb
        · omega
        · exact ha.1 b hb

theorem sortDedup_mem (l : List Nat) (y : Nat) : y ∈ sortDedup l ↔ y ∈ l := by
  induction l with
  | nil => simp [sortDedup]
  | cons a as ih =>
    have : sortDedup (a :: as) = insertSorted a (sortDedup as) := rfl
    rw [this, insertSorted_mem, ih]; simp

theorem sortDedup_sorted (l : List Nat) : (sortDedup l).Pairwise (· < ·) := by
  induction l with
  | nil => simp [sortDedup]
  | cons a as ih =>
    have : sortDedup (a :: as) = insertSorted a (sortDedup as) := rfl
    rw [this]; exact insertSorted_sorted a _ ih

theorem lastP1_pos (rest : List Nat) (c0 : Nat) : 1 ≤ lastP1 rest (c0 + 1) := by
  unfold lastP1; cases rest.getLast? <;> simp

end TD.C06
