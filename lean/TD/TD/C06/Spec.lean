import TD.Common.Proto
import TD.C06.Model
/-
C06 — independent specification side: the *encoder* of a log pass (DFSR logical record and type 0/1 data records)
from an abstract description, and the abstract "full matrix" that the theorems compare `setFrameSet` with.
Core Lean only (used by the driver).
-/
namespace TD.C06.Spec
open TD.C06 TD.Proto

/-- big-endian bytes of `v` on `n` bytes -/
def beBytes : Nat → Nat → List Nat
  | 0, _ => []
  | n + 1, v => beBytes n (v / 256) ++ [v % 256]

/-- one entry block `(type, size, repCode) ++ value` -/
def encEb (t rc : Nat) (val : List Nat) : List Nat := [t, val.length, rc] ++ val

structure DfsrSpec where
  dataType : Nat
  recMode : Nat
  depthRc : Nat
  upDown : Nat
  spacingRc : Nat
  spacing : Option (List Nat)      -- value bytes of entry block 8 (None: block omitted)
  units : List Nat                 -- 4 bytes, used for blocks 9 and 14
  chans : List Chan
  deriving Repr

/-- mnemonic of channel `i`: four decimal digits -/
def mnem (i : Nat) : List Nat := [48 + i / 1000 % 10, 48 + i / 100 % 10, 48 + i / 10 % 10, 48 + i % 10]

/-- the 40-byte datum spec block of channel `i` -/
def encDsb (i : Nat) (c : Chan) : List Nat :=
  mnem i ++ List.replicate 6 83 ++ List.replicate 8 79 ++ List.replicate 4 32 ++ [2, 179, 96, 59] ++ [1, 0]
    ++ beBytes 2 c.size ++ [48, 48, 48] ++ [c.samples, c.rc] ++ [0, 1, 2, 3, 4]

def encDsbs : Nat → List Chan → List Nat
  | _, [] => []
  | i, c :: cs => encDsb i c ++ encDsbs (i + 1) cs

/-- the DFSR logical record (type 64) -/
def encDfsr (d : DfsrSpec) : List Nat :=
  [64, 0]
    ++ encEb 1 66 [d.dataType]
    ++ encEb 4 66 [d.upDown]
    ++ (match d.spacing with | some v => encEb 8 d.spacingRc v | none => [])
    ++ encEb 9 65 d.units
    ++ encEb 13 66 [d.recMode]
    ++ encEb 14 65 d.units
    ++ encEb 15 66 [d.depthRc]
    ++ [0, 1, 66, 0]
    ++ encDsbs 0 d.chans

/-- a data record: header, optional indirect X word, the frames (each a byte list) -/
def encRecord (lrType : Nat) (xword : List Nat) (frames : List (List Nat)) : List Nat :=
  [lrType, 0] ++ xword ++ frames.flatten

def parseChan (s : String) : Option Chan :=
  match (s.splitOn ".").mapM (·.toNat?) with
  | some [a, b, c] => some ⟨a, b, c⟩
  | _ => none

/-- `encdfsr <dataType> <recMode> <depthRc> <upDown> <spRc> <spHex|N> <unitsHex> <size.samples.rc,…>` -/
def encDfsrCmd (args : List String) : String :=
  match args with
  | [dt, rm, drc, ud, sprc, sp, un, chans] =>
    match dt.toNat?, rm.toNat?, drc.toNat?, ud.toNat?, sprc.toNat?, unhex un, (chans.splitOn ",").mapM parseChan with
    | some dt, some rm, some drc, some ud, some sprc, some un, some chans =>
      let spv : Option (Option (List Nat)) := if sp = "N" then some none else (unhex sp).map some
      match spv with
      | some spv => hex (encDfsr ⟨dt, rm, drc, ud, sprc, spv, un, chans⟩)
      | none => "bad-op"
    | _, _, _, _, _, _, _ => "bad-op"
  | _ => "bad-op"

/-- `encrec <type> <xHex|-> <frameHex> …` -/
def encRecCmd (args : List String) : String :=
  match args with
  | t :: x :: frames =>
    match t.toNat?, unhex x, frames.mapM unhex with
    | some t, some x, some fr => hex (encRecord t x fr)
    | _, _, _ => "bad-op"
  | _ => "bad-op"

end TD.C06.Spec
