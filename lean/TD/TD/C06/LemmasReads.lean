import TD.C06.Model

/-!
C06 — every file operation of a load lies inside a data record that holds a requested frame (any channel list, direct or
indirect X).
-/
namespace TD.C06

/-! ### no `seekLr` among the events of `genEvents` -/

def NoSeek (l : List Ev) : Prop := ∀ e ∈ l, e.ty ≠ .seekLr

theorem NoSeek.append {a b : List Ev} (ha : NoSeek a) (hb : NoSeek b) : NoSeek (a ++ b) := by
  intro e he; rcases List.mem_append.1 he with h | h
  · exact ha e h
  · exact hb e h

theorem frameEvLoop_noSeek (p : Plan) (cs : List Nat) :
    ∀ chStart stopP1 siz acc, NoSeek acc → NoSeek (frameEvLoop p cs chStart stopP1 siz acc).1 := by
  induction cs with
  | nil => intro _ _ _ acc h; simpa [frameEvLoop] using h
  | cons c cs ih =>
    intro chStart stopP1 siz acc h
    simp only [frameEvLoop]
    split
    · exact ih _ _ _ _ h
    · apply ih
      apply NoSeek.append
      · split
        · exact NoSeek.append h (by intro e he; simp at he; subst he; simp)
        · exact h
      · intro e he; simp at he; subst he; simp

theorem retFrameEvents_noSeek (p : Plan) (chans : List Nat) :
    (∀ e ∈ (retFrameEvents p chans).1, e.ty ≠ .seekLr) ∧ NoSeek (retFrameEvents p chans).2.1 ∧
    (∀ e ∈ (retFrameEvents p chans).2.2, e.ty ≠ .seekLr) := by
  unfold retFrameEvents
  cases chans with
  | nil => simp [NoSeek]
  | cons c0 rest =>
    simp only
    have hl := frameEvLoop_noSeek p (c0 :: rest) c0 c0 0 [] (by intro e he; simp at he)
    cases hr : frameEvLoop p (c0 :: rest) c0 c0 0 [] with
    | mk acc r2 =>
      obtain ⟨cS, sP, sz⟩ := r2
      rw [hr] at hl
      simp only at hl ⊢
      refine ⟨?_, ?_, ?_⟩
      · intro e he; split at he <;> simp at he; subst he; simp
      · split
        · exact NoSeek.append hl (by intro e he; simp at he; subst he; simp)
        · exact hl
      · intro e he; split at he <;> simp at he; subst he; simp

theorem merged_noSeek (p : Plan) (pre post : Option Ev) (c : Nat) : ∀ e ∈ mergedPostFramePre p pre post c, e.ty ≠ .seekLr := by
  intro e he
  unfold mergedPostFramePre at he
  cases pre <;> cases post <;> simp only at he
  · split at he <;> simp at he <;> (obtain ⟨_, rfl⟩ := he; simp)
  all_goals (simp at he; subst he; simp)

theorem evAt_noSeek (o : Option Ev) (g : Nat) (h : ∀ e ∈ o, e.ty ≠ .seekLr) : NoSeek (evAt o g) := by
  intro e he
  cases o with
  | none => simp [evAt] at he
  | some x => simp [evAt] at he; subst he; exact h x rfl

theorem emitFrame_noSeek (f : Nat) (es : List Ev) (pend : Option Nat) (h : NoSeek es) : NoSeek (emitFrame f es pend).1 := by
  induction es generalizing pend with
  | nil => simp [emitFrame, NoSeek]
  | cons e es ih =>
    have he := h e (List.mem_cons_self ..)
    have hes : NoSeek es := fun x hx => h x (List.mem_cons_of_mem _ hx)
    cases pend with
    | none =>
      simp only [emitFrame]
      intro x hx
      rcases List.mem_cons.1 hx with rfl | hx
      · exact he
      · exact ih none hes x hx
    | some isz =>
      simp only [emitFrame]
      intro x hx
      rcases List.mem_cons.1 hx with rfl | hx
      · exact he
      · exact ih none hes x hx

theorem frameLoop_noSeek (p : Plan) (fevts : List Ev) (post inter : Option Ev) (stop step : Nat)
    (hf : NoSeek fevts) (hp : ∀ e ∈ post, e.ty ≠ .seekLr) (hi : ∀ e ∈ inter, e.ty ≠ .seekLr) :
    ∀ fuel f pend, NoSeek (frameLoop p fevts post inter stop step fuel f pend) := by
  intro fuel
  induction fuel with
  | zero => intro f pend; simp [frameLoop, NoSeek]
  | succ fuel ih =>
    intro f pend
    simp only [frameLoop]
    split
    · cases hem : emitFrame f fevts pend with
      | mk evs pend' =>
        have h1 : NoSeek evs := by have := emitFrame_noSeek f fevts pend hf; rwa [hem] at this
        simp only
        split
        · exact NoSeek.append h1 (evAt_noSeek _ _ hp)
        · refine NoSeek.append (NoSeek.append (NoSeek.append h1 (evAt_noSeek _ _ hi)) ?_) (ih _ _)
          intro e he; split at he <;> simp at he; subst he; simp
    · simp [NoSeek]

theorem genEvents_noSeek (p : Plan) (a b c : Nat) (chans : List Nat) (evs : List Ev)
    (h : genEvents p a b c chans = .ok evs) : NoSeek evs := by
  unfold genEvents at h
  simp only at h
  split at h
  · cases h
  · rename_i cs _
    split at h
    · have hr := retFrameEvents_noSeek p cs
      cases hre : retFrameEvents p cs with
      | mk pre r2 =>
        obtain ⟨fevts, post⟩ := r2
        rw [hre] at hr h
        simp only at hr h
        obtain ⟨hpre, hfev, hpost⟩ := hr
        cases h
        apply NoSeek.append
        · cases pre with
          | some pr =>
            have := hpre pr rfl
            simp only
            apply NoSeek.append
            · split
              · apply NoSeek.append
                · intro e he; simp at he; subst he; simp
                · intro e he; split at he <;> simp at he; subst he; simp
              · simp [NoSeek]
            · intro e he; simp at he; subst he; exact this
          | none =>
            simp only
            split
            · apply NoSeek.append
              · apply NoSeek.append
                · intro e he; split at he <;> simp at he; subst he; simp
                · intro e he; simp at he; subst he; simp
              · intro e he; split at he <;> simp at he; subst he; simp
            · simp [NoSeek]
        · exact frameLoop_noSeek p fevts post _ b _ hfev hpost (merged_noSeek p pre post _) _ _ _
    · cases h; simp [NoSeek]


theorem renumber_noSeek (buf : List Nat) (frInt : Nat) (evs : List Ev) (k : Nat) (h : NoSeek evs) :
    NoSeek (renumber buf frInt evs k) := by
  induction evs generalizing k with
  | nil => simp [renumber, NoSeek]
  | cons e es ih =>
    simp only [renumber]
    intro x hx
    rcases List.mem_cons.1 hx with rfl | hx
    · exact h e (List.mem_cons_self ..)
    · exact ih _ (fun y hy => h y (List.mem_cons_of_mem _ hy)) x hx

/-- the only `seekLr` events of `_genFrameSetEvents` are the seeks to the keys of the map -/
theorem genFrameSetEventsAux_seeks (p : Plan) (chans : List Nat) (entries : List (Int × List Nat)) :
    ∀ frInt evs, genFrameSetEventsAux p chans entries frInt = .ok evs →
      ∀ e ∈ evs, e.ty = .seekLr → ∃ en ∈ entries, e.siz = en.1.toNat := by
  induction entries with
  | nil => intro frInt evs h; simp [genFrameSetEventsAux] at h; subst h; simp
  | cons en rest ih =>
    intro frInt evs h e he hty
    obtain ⟨seek, buf⟩ := en
    simp only [genFrameSetEventsAux] at h
    split at h
    · cases h
    · split at h
      · cases h
      · rename_i evs1 hg
        split at h
        · cases h
        · rename_i tl htl
          cases h
          rcases List.mem_cons.1 he with rfl | he
          · exact ⟨(seek, buf), List.mem_cons_self .., rfl⟩
          · rcases List.mem_append.1 he with h1 | h1
            · exact absurd hty (renumber_noSeek _ _ _ _ (genEvents_noSeek _ _ _ _ _ _ hg) e h1)
            · obtain ⟨en', hen, hs⟩ := ih _ _ htl e h1 hty
              exact ⟨en', List.mem_cons_of_mem _ hen, hs⟩

/-! ### the keys of `_retFrameSetMap` are the positions of records holding requested frames -/

theorem mapAppend_keys (acc : List (Int × List Nat)) (k : Int) (v : Nat) :
    ∀ e ∈ mapAppend acc k v, e.1 = k ∨ ∃ e' ∈ acc, e'.1 = e.1 := by
  induction acc with
  | nil => intro e he; simp [mapAppend] at he; subst he; left; rfl
  | cons x xs ih =>
    obtain ⟨k', vs⟩ := x
    intro e he
    simp only [mapAppend] at he
    split at he
    · rcases List.mem_cons.1 he with rfl | h
      · right; exact ⟨(k', vs), List.mem_cons_self .., rfl⟩
      · right; exact ⟨e, List.mem_cons_of_mem _ h, rfl⟩
    · rcases List.mem_cons.1 he with rfl | h
      · right; exact ⟨(k', vs), List.mem_cons_self .., rfl⟩
      · rcases ih e h with h1 | ⟨e', he', h2⟩
        · left; exact h1
        · right; exact ⟨e', List.mem_cons_of_mem _ he', h2⟩

theorem retFrameSetMapAux_keys (l : List Item01) (frames : List Nat) :
    ∀ acc m, retFrameSetMapAux l frames acc = .ok m →
      ∀ e ∈ m, (∃ e' ∈ acc, e'.1 = e.1) ∨ ∃ f ∈ frames, ∃ off, rle01Tell l f = .ok (e.1, off) := by
  induction frames with
  | nil => intro acc m h e he; simp [retFrameSetMapAux] at h; subst h; left; exact ⟨e, he, rfl⟩
  | cons f fs ih =>
    intro acc m h e he
    simp only [retFrameSetMapAux] at h
    split at h
    · cases h
    · rename_i seek off hl
      rcases ih _ _ h e he with ⟨e', he', hk⟩ | ⟨f', hf', off', ht⟩
      · rcases mapAppend_keys acc seek off e' he' with h1 | ⟨e'', he'', h2⟩
        · right; exact ⟨f, List.mem_cons_self .., off, by rw [hl, ← hk, h1]⟩
        · left; exact ⟨e'', he'', by rw [h2, hk]⟩
      · right; exact ⟨f', List.mem_cons_of_mem _ hf', off', ht⟩

theorem insertByKey_mem (x : Int × List Nat) (l : List (Int × List Nat)) (e : Int × List Nat) :
    e ∈ insertByKey x l → e = x ∨ e ∈ l := by
  induction l with
  | nil => intro h; simp [insertByKey] at h; left; exact h
  | cons y ys ih =>
    intro h
    simp only [insertByKey] at h
    split at h
    · rcases List.mem_cons.1 h with h | h
      · left; exact h
      · right; exact h
    · rcases List.mem_cons.1 h with h | h
      · right; rw [h]; exact List.mem_cons_self ..
      · rcases ih h with h | h
        · left; exact h
        · right; exact List.mem_cons_of_mem _ h

theorem sortByKey_mem (l : List (Int × List Nat)) (e : Int × List Nat) : e ∈ sortByKey l → e ∈ l := by
  induction l with
  | nil => intro h; simpa [sortByKey] using h
  | cons x xs ih =>
    intro h
    have : sortByKey (x :: xs) = insertByKey x (sortByKey xs) := rfl
    rw [this] at h
    rcases insertByKey_mem _ _ _ h with h | h
    · rw [h]; exact List.mem_cons_self ..
    · exact List.mem_cons_of_mem _ (ih h)

/-! ### the interpreter only touches the current record, inside its bytes -/

/-- an operation is fine w.r.t. the set `sel` of record positions -/
def OpOk (st : Store) (sel : Nat → Prop) : Op → Prop
  | .seek t => sel t
  | .read t o l => sel t ∧ ∃ bs, Store.find st t = some bs ∧ o + l ≤ bs.length
  | .skip _ => True

def RunOk (st : Store) (sel : Nat → Prop) (r : Run) : Prop :=
  (∀ op ∈ r.ops, OpOk st sel op) ∧ (∀ t bs, r.cur = some (t, bs) → sel t ∧ Store.find st t = some bs)

theorem read_ok (st : Store) (sel : Nat → Prop) (r : Run) (n : Nat) (by_ : List Nat) (r' : Run)
    (hr : RunOk st sel r) (h : r.read n = .ok (by_, r')) : RunOk st sel r' ∧ r'.cur = r.cur := by
  unfold Run.read at h
  cases hc : r.cur with
  | none => simp [hc] at h
  | some tb =>
    obtain ⟨t, bs⟩ := tb
    simp only [hc] at h
    split at h
    · cases h
    · rename_i hlen
      cases h
      obtain ⟨hs, hf⟩ := hr.2 t bs hc
      refine ⟨⟨?_, ?_⟩, hc.symm ▸ rfl⟩
      · intro op hop
        rcases List.mem_cons.1 hop with rfl | hop
        · exact ⟨hs, bs, hf, by omega⟩
        · exact hr.1 op hop
      · intro t' bs' h'; exact hr.2 t' bs' (by simpa [hc] using h')

theorem execEv_ok (d : Dfsr) (st : Store) (sel : Nat → Prop) (r r' : Run) (e : Ev)
    (hsel : e.ty = .seekLr → sel e.siz) (hr : RunOk st sel r) (h : execEv d st r e = .ok r') : RunOk st sel r' := by
  unfold execEv at h
  cases hty : e.ty <;> simp only [hty] at h
  · -- read
    split at h
    · cases h
    · rename_i by_ r1 hrd
      obtain ⟨hr1, _⟩ := read_ok st sel r _ _ _ hr hrd
      split at h
      · cases h
      · split at h
        · cases h
        · cases h; exact ⟨hr1.1, hr1.2⟩
  · -- skip
    split at h
    · cases h
    · cases h
      refine ⟨?_, hr.2⟩
      intro op hop
      rcases List.mem_cons.1 hop with rfl | hop
      · trivial
      · exact hr.1 op hop
  · -- extrapolate
    split at h
    · cases h
    · split at h
      · split at h
        · cases h; exact hr
        · cases h
      · cases h
      · cases h
  · -- seekLr
    split at h
    · cases h
    · rename_i bs hfind
      split at h
      · cases h
      · rename_i hd r2 hrd
        have hs := hsel hty
        have hr1 : RunOk st sel { r with cur := some (e.siz, bs), ofs := 0, ops := Op.seek e.siz :: r.ops } := by
          refine ⟨?_, ?_⟩
          · intro op hop
            rcases List.mem_cons.1 hop with rfl | hop
            · exact hs
            · exact hr.1 op hop
          · intro t bs' h'; simp at h'; obtain ⟨rfl, rfl⟩ := h'; exact ⟨hs, hfind⟩
        obtain ⟨hr2, _⟩ := read_ok st sel _ _ _ _ hr1 hrd
        split at h
        · cases h
        · cases h; exact hr2

theorem execEvs_ok (d : Dfsr) (st : Store) (sel : Nat → Prop) (evs : List Ev) :
    ∀ r r', (∀ e ∈ evs, e.ty = .seekLr → sel e.siz) → RunOk st sel r → execEvs d st evs r = .ok r' → RunOk st sel r' := by
  induction evs with
  | nil => intro r r' _ hr h; simp [execEvs] at h; subst h; exact hr
  | cons e es ih =>
    intro r r' hsel hr h
    simp only [execEvs] at h
    split at h
    · cases h
    · rename_i r1 h1
      exact ih r1 r' (fun x hx => hsel x (List.mem_cons_of_mem _ hx))
        (execEv_ok d st sel r r1 e (hsel e (List.mem_cons_self ..)) hr h1) h

end TD.C06
