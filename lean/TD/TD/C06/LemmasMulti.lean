import TD.C06.LemmasLoad

/-!
C06 — several data records: grouping of `_retFrameSetMap`, sorted order, induction over the map entries.
-/
namespace TD.C06

/-! ### `locate` on a record list with strictly increasing positions -/

def IncTells (R : List (Int × Nat)) : Prop := R.Pairwise (fun a b => a.1 < b.1)

theorem locate_mem (R : List (Int × Nat)) (f : Nat) (t : Int) (off : Nat) (h : locate R f = some (t, off)) :
    ∃ n, (t, n) ∈ R ∧ off < n := by
  induction R generalizing f with
  | nil => simp [locate] at h
  | cons r rest ih =>
    obtain ⟨t0, n0⟩ := r
    simp only [locate] at h
    split at h
    · rename_i hlt
      simp only [Option.some.injEq, Prod.mk.injEq] at h
      obtain ⟨rfl, rfl⟩ := h
      exact ⟨n0, List.mem_cons_self .., hlt⟩
    · obtain ⟨n, hm, hl⟩ := ih _ h
      exact ⟨n, List.mem_cons_of_mem _ hm, hl⟩

theorem locate_off_le (R : List (Int × Nat)) (f : Nat) (t : Int) (off : Nat) (h : locate R f = some (t, off)) : off ≤ f := by
  induction R generalizing f with
  | nil => simp [locate] at h
  | cons r rest ih =>
    obtain ⟨t0, n0⟩ := r
    simp only [locate] at h
    split at h
    · simp only [Option.some.injEq, Prod.mk.injEq] at h; omega
    · have := ih _ h; omega

theorem locate_step (R : List (Int × Nat)) (hR : IncTells R) (f f' : Nat) (hff : f < f') (t t' : Int) (off off' : Nat)
    (h : locate R f = some (t, off)) (h' : locate R f' = some (t', off')) :
    (t < t' ∧ off' < f' - f) ∨ (t = t' ∧ off' = off + (f' - f)) := by
  induction R generalizing f f' with
  | nil => simp [locate] at h
  | cons r rest ih =>
    obtain ⟨t0, n0⟩ := r
    have hp := List.pairwise_cons.1 hR
    simp only [locate] at h h'
    by_cases h1 : f < n0
    · simp only [h1, if_true, Option.some.injEq, Prod.mk.injEq] at h
      obtain ⟨rfl, rfl⟩ := h
      by_cases h2 : f' < n0
      · simp only [h2, if_true, Option.some.injEq, Prod.mk.injEq] at h'
        obtain ⟨rfl, rfl⟩ := h'
        right; exact ⟨rfl, by omega⟩
      · simp only [h2, if_false] at h'
        obtain ⟨n, hm, _⟩ := locate_mem rest _ _ _ h'
        have := locate_off_le rest _ _ _ h'
        left; exact ⟨hp.1 _ hm, by omega⟩
    · have h2 : ¬ f' < n0 := by omega
      simp only [h1, h2, if_false] at h h'
      have := ih hp.2 (f - n0) (f' - n0) (by omega) h h'
      rcases this with ⟨h3, h4⟩ | ⟨h3, h4⟩
      · left; exact ⟨h3, by omega⟩
      · right; exact ⟨h3, by omega⟩

theorem locate_lt (R : List (Int × Nat)) (f : Nat) (h : f < (R.map (·.2)).sum) : ∃ r, locate R f = some r := by
  induction R generalizing f with
  | nil => simp at h
  | cons r rest ih =>
    obtain ⟨t0, n0⟩ := r
    simp only [locate]
    by_cases h1 : f < n0
    · exact ⟨(t0, f), by simp [h1]⟩
    · simp only [h1, if_false]
      exact ih _ (by simp at h; omega)

/-! ### the dict of `_retFrameSetMap` as a fold -/

def foldMap : List (Int × List Nat) → List (Int × Nat) → List (Int × List Nat)
  | acc, [] => acc
  | acc, (k, v) :: rest => foldMap (mapAppend acc k v) rest

theorem retFrameSetMapAux_fold (l : List Item01) (loc : Nat → Int × Nat) (frames : List Nat)
    (h : ∀ f ∈ frames, rle01Tell l f = .ok (loc f)) (acc : List (Int × List Nat)) :
    retFrameSetMapAux l frames acc = .ok (foldMap acc (frames.map loc)) := by
  induction frames generalizing acc with
  | nil => simp [retFrameSetMapAux, foldMap]
  | cons f fs ih =>
    have hf := h f (List.mem_cons_self ..)
    simp only [retFrameSetMapAux, hf, List.map_cons, foldMap]
    cases hl : loc f with
    | mk k v => simp only [foldMap]; exact ih (fun f' hf' => h f' (List.mem_cons_of_mem _ hf')) _

theorem mapAppend_notin (acc : List (Int × List Nat)) (k : Int) (v : Nat) (h : ∀ e ∈ acc, e.1 ≠ k) :
    mapAppend acc k v = acc ++ [(k, [v])] := by
  induction acc with
  | nil => rfl
  | cons e es ih =>
    obtain ⟨k', vs⟩ := e
    have h1 : k' ≠ k := h (k', vs) (List.mem_cons_self ..)
    simp only [mapAppend, h1, if_false, List.cons_append]
    rw [ih (fun e he => h e (List.mem_cons_of_mem _ he))]

theorem mapAppend_last (pre : List (Int × List Nat)) (k : Int) (vs : List Nat) (v : Nat) (h : ∀ e ∈ pre, e.1 ≠ k) :
    mapAppend (pre ++ [(k, vs)]) k v = pre ++ [(k, vs ++ [v])] := by
  induction pre with
  | nil => simp [mapAppend]
  | cons e es ih =>
    obtain ⟨k', vs'⟩ := e
    have h1 : k' ≠ k := h (k', vs') (List.mem_cons_self ..)
    simp only [List.cons_append, mapAppend, h1, if_false]
    rw [ih (fun e he => h e (List.mem_cons_of_mem _ he))]

/-- consecutive located frames: a later record, or the same record `c` frames further -/
def Chain (c : Nat) : List (Int × Nat) → Prop
  | [] => True
  | [_] => True
  | (k, v) :: (k', v') :: rest => ((k < k' ∧ v' < c) ∨ (k = k' ∧ v' = v + c)) ∧ Chain c ((k', v') :: rest)

/-- the located frames a grouping stands for -/
def flat (acc : List (Int × List Nat)) : List (Int × Nat) := acc.flatMap (fun e => e.2.map (fun v => (e.1, v)))

/-- a grouping: keys strictly increasing, every buffer a non-empty arithmetic progression of step `c` -/
def Grouped (c : Nat) (acc : List (Int × List Nat)) : Prop :=
  (acc.map (·.1)).Pairwise (· < ·) ∧ ∀ e ∈ acc, ∃ a len, e.2 = ap a c (len + 1)

/-- how the next located frame `(k, v)` continues a grouping -/
def Continues (c : Nat) (acc : List (Int × List Nat)) (k : Int) (v : Nat) : Prop :=
  acc = [] ∨ ∃ pre k0 a len, acc = pre ++ [(k0, ap a c (len + 1))] ∧ ((k0 < k ∧ v < c) ∨ (k0 = k ∧ v = a + (len + 1) * c))

/-- the first located frame (if any) continues the grouping -/
def ContinuesHead (c : Nat) (acc : List (Int × List Nat)) : List (Int × Nat) → Prop
  | [] => True
  | (k, v) :: _ => Continues c acc k v

theorem ap_snoc (a c len : Nat) : ap a c len ++ [a + len * c] = ap a c (len + 1) := by
  unfold ap; rw [List.range_succ]; simp

theorem ap_one (a c : Nat) : ap a c 1 = [a] := by simp [ap]

theorem flat_append (x y : List (Int × List Nat)) : flat (x ++ y) = flat x ++ flat y := by simp [flat]


theorem flat_single (k : Int) (vs : List Nat) : flat [(k, vs)] = vs.map (fun v => (k, v)) := by simp [flat]

/-- **The dict of `_retFrameSetMap`**: folding a chain of located frames into the dict gives a grouping (keys strictly
increasing — hence already sorted —, buffers arithmetic progressions) that flattens back to the located frames. -/
theorem foldMap_grouped (c : Nat) (locs : List (Int × Nat)) :
    ∀ acc, Grouped c acc → (∀ e ∈ acc.tail, e.2.headD 0 < c) → Chain c locs →
      ContinuesHead c acc locs →
      Grouped c (foldMap acc locs) ∧ flat (foldMap acc locs) = flat acc ++ locs ∧
        (∀ e ∈ (foldMap acc locs).tail, e.2.headD 0 < c) := by
  induction locs with
  | nil => intro acc hg htl _ _; simp only [foldMap]; exact ⟨hg, by simp, htl⟩
  | cons kv rest ih =>
    obtain ⟨k, v⟩ := kv
    intro acc hg htl hch hcont
    simp only [ContinuesHead] at hcont
    simp only [foldMap]
    -- the grouping after inserting (k, v), and how the next frame continues it
    have key : ∃ acc', mapAppend acc k v = acc' ∧ Grouped c acc' ∧ flat acc' = flat acc ++ [(k, v)] ∧
        (∀ e ∈ acc'.tail, e.2.headD 0 < c) ∧
        ∃ pre a len, acc' = pre ++ [(k, ap a c (len + 1))] ∧ v = a + len * c := by
      rcases hcont with rfl | ⟨pre, k0, a, len, rfl, hk⟩
      · refine ⟨[(k, [v])], rfl, ⟨by simp, ?_⟩, by simp [flat], by simp, [], v, 0, by simp [ap_one], by simp⟩
        intro e he; simp at he; subst he; exact ⟨v, 0, by simp [ap_one]⟩
      · obtain ⟨hpw, hbuf⟩ := hg
        simp only [List.map_append, List.map_cons, List.map_nil] at hpw
        have hpre : ∀ e ∈ pre, e.1 < k0 := by
          intro e he
          have := (List.pairwise_append.1 hpw).2.2 e.1 (List.mem_map_of_mem he) k0 (by simp)
          exact this
        rcases hk with ⟨hlt, hvc⟩ | ⟨rfl, hv⟩
        · have hne : ∀ e ∈ pre ++ [(k0, ap a c (len + 1))], e.1 ≠ k := by
            intro e he
            rcases List.mem_append.1 he with h | h
            · have := hpre e h; omega
            · simp at h; subst h; simp; omega
          refine ⟨_, mapAppend_notin _ k v hne, ⟨?_, ?_⟩, ?_, ?_, pre ++ [(k0, ap a c (len + 1))], v, 0, by simp [ap_one], by simp⟩
          · simp only [List.map_append, List.map_cons, List.map_nil]
            apply List.pairwise_append.2
            refine ⟨hpw, by simp, ?_⟩
            intro x hx y hy
            simp at hy; subst hy
            rcases List.mem_append.1 hx with h | h
            · obtain ⟨e, he, rfl⟩ := List.mem_map.1 h
              have := hpre e he; omega
            · simp at h; subst h; exact hlt
          · intro e he
            rcases List.mem_append.1 he with h | h
            · exact hbuf e h
            · simp at h; subst h; exact ⟨v, 0, by simp [ap_one]⟩
          · rw [flat_append, flat_single]; simp
          · intro e he
            rw [List.tail_append_of_ne_nil (by simp)] at he
            rcases List.mem_append.1 he with h | h
            · exact htl e h
            · simp at h; subst h; simpa using hvc
        · have hne : ∀ e ∈ pre, e.1 ≠ k0 := fun e he => by have := hpre e he; omega
          refine ⟨_, mapAppend_last pre k0 _ v hne, ⟨?_, ?_⟩, ?_, ?_, pre, a, len + 1, by rw [hv, ap_snoc], hv⟩
          · simpa using hpw
          · intro e he
            rcases List.mem_append.1 he with h | h
            · exact hbuf e (List.mem_append_left _ h)
            · simp at h; subst h; exact ⟨a, len + 1, by rw [hv, ap_snoc]⟩
          · rw [flat_append, flat_append, flat_single, flat_single]; simp
          · intro e he
            have hhd : (ap a c (len + 1) ++ [v]).headD 0 = (ap a c (len + 1)).headD 0 := by
              simp [ap, List.range_succ_eq_map]
            cases pre with
            | nil => simp at he
            | cons q qs =>
              simp only [List.cons_append, List.tail_cons] at he htl
              rcases List.mem_append.1 he with h | h
              · exact htl e (List.mem_append_left _ h)
              · simp at h; subst h
                have := htl (k0, ap a c (len + 1)) (by simp)
                simp only at this ⊢
                rw [hhd]; exact this
    obtain ⟨acc', hma, hg', hflat, htl', pre, a, len, hacc', hva⟩ := key
    rw [hma]
    have hnext : ContinuesHead c acc' rest := by
      cases rest with
      | nil => trivial
      | cons kv' rest' =>
        obtain ⟨k', v'⟩ := kv'
        simp only [Chain] at hch
        simp only [ContinuesHead]
        right
        refine ⟨pre, k, a, len, hacc', ?_⟩
        rcases hch.1 with ⟨h, hv'⟩ | ⟨h1, h2⟩
        · left; exact ⟨h, hv'⟩
        · right; refine ⟨h1, ?_⟩; rw [h2, hva]; ring
    have hch' : Chain c rest := by
      cases rest with
      | nil => trivial
      | cons kv' rest' => obtain ⟨k', v'⟩ := kv'; exact hch.2
    obtain ⟨h1, h2, h3⟩ := ih acc' hg' htl' hch' hnext
    exact ⟨h1, by rw [h2, hflat]; simp, h3⟩


/-! ### `sorted(keys)` of a grouping is the grouping -/

theorem insertByKey_lt (x : Int × List Nat) (l : List (Int × List Nat)) (h : ∀ e ∈ l, x.1 < e.1) :
    insertByKey x l = x :: l := by
  cases l with
  | nil => rfl
  | cons y ys => simp [insertByKey, h y (List.mem_cons_self ..)]

theorem sortByKey_sorted (l : List (Int × List Nat)) (h : (l.map (·.1)).Pairwise (· < ·)) : sortByKey l = l := by
  induction l with
  | nil => rfl
  | cons x xs ih =>
    simp only [List.map_cons] at h
    have hp := List.pairwise_cons.1 h
    have : sortByKey (x :: xs) = insertByKey x (sortByKey xs) := rfl
    rw [this, ih hp.2]
    exact insertByKey_lt x xs (fun e he => hp.1 e.1 (List.mem_map_of_mem he))

/-! ### the located frames of a slice form a chain -/

theorem chain_of_frames (R : List (Int × Nat)) (hR : IncTells R) (c : Nat) (hc : 0 < c) (loc : Nat → Int × Nat) :
    ∀ (a b : Nat), (∀ f, a ≤ f → f < b → locate R f = some (loc f)) → Chain c ((rangeList a b c).map loc) := by
  intro a b
  -- induction on the number of frames
  generalize hn : rangeLen a b c = n
  induction n generalizing a with
  | zero =>
    intro _
    have : rangeList a b c = [] := by simp [rangeList, hn]
    simp [this, Chain]
  | succ n ih =>
    intro hloc
    have hab : a < b := by
      by_contra h
      have : rangeLen a b c = 0 := by simp [rangeLen, h]
      omega
    rw [rangeList_cons a b c hab hc]
    have hlen := rangeLen_lt a b c hab hc
    have hrec := ih (a + c) (by omega) (fun f h1 h2 => hloc f (by omega) h2)
    by_cases h2 : a + c < b
    · rw [rangeList_cons (a + c) b c h2 hc] at hrec ⊢
      simp only [List.map_cons] at hrec ⊢
      cases hl : loc a with
      | mk k v =>
        cases hl' : loc (a + c) with
        | mk k' v' =>
          rw [hl'] at hrec
          refine ⟨?_, hrec⟩
          have h1 := hloc a (Nat.le_refl _) hab
          have h1' := hloc (a + c) (by omega) h2
          rw [hl] at h1; rw [hl'] at h1'
          have := locate_step R hR a (a + c) (by omega) k k' v v' h1 h1'
          rcases this with ⟨h, hb⟩ | ⟨h, h'⟩
          · left; exact ⟨h, by omega⟩
          · right; exact ⟨h, by omega⟩
    · rw [rangeList_nil _ _ _ (by omega)]
      simp only [List.map_cons, List.map_nil]
      cases loc a; trivial


/-! ### executing the events of all map entries (all channels, direct X) -/

theorem setRows_append (M : List (List (Option Nat))) (i : Nat) (xs ys : List (List (Option Nat))) :
    setRows (setRows M i xs) (i + xs.length) ys = setRows M i (xs ++ ys) := by
  induction xs generalizing M i with
  | nil => simp [setRows]
  | cons x xs ih =>
    simp only [setRows, List.length_cons, List.cons_append]
    rw [← ih (M.set i x) (i + 1)]
    congr 1; omega

theorem setRows_rowlen (w : Nat) (M : List (List (Option Nat))) (i : Nat) (xs : List (List (Option Nat)))
    (hM : ∀ row ∈ M, row.length = w) (hx : ∀ row ∈ xs, row.length = w) : ∀ row ∈ setRows M i xs, row.length = w := by
  induction xs generalizing M i with
  | nil => simpa [setRows] using hM
  | cons x xs ih =>
    simp only [setRows]
    apply ih
    · intro row hm
      rcases List.mem_or_eq_of_mem_set hm with h | h
      · exact hM _ h
      · rw [h]; exact hx x (List.mem_cons_self ..)
    · exact fun row h => hx row (List.mem_cons_of_mem _ h)

def bytesOf (st : Store) (t : Nat) : List Nat := (Store.find st t).getD []

theorem ap_length (a c len : Nat) : (ap a c len).length = len := by simp [ap]

/-- what the store must hold for one map entry: the record with enough frames for the buffer -/
def EntryOk (d : Dfsr) (st : Store) (c : Nat) (e : Int × List Nat) : Prop :=
  ∃ a len n bs, e.2 = ap a c (len + 1) ∧ Store.find st e.1.toNat = some bs ∧ bs.head? = some d.dataType ∧
    bs.length = 2 + n * sumN (d.chans.map Chan.size) ∧ a + len * c < n

/-- **All map entries, all channels, direct X**: the events generated for the sorted map fill the matrix, entry after
entry, with the rows of the frames of each record. -/
theorem entries_exec_all (d : Dfsr) (st : Store) (k c : Nat) (p : Plan) (hp : p = ⟨0, d.chans.map Chan.size⟩)
    (hk : d.chans.length = k + 1) (hok : d.sizesOk) (hc : 0 < c) :
    ∀ (entries : List (Int × List Nat)) (frInt : Nat) (r : Run),
      (∀ e ∈ entries, EntryOk d st c e) →
      r.fs.chIdx = List.range d.chans.length →
      (∀ row ∈ r.fs.frames, row.length = sumN (d.chans.map Chan.numValues)) →
      frInt + (entries.map (·.2.length)).sum ≤ r.fs.frames.length →
      ∃ evs r', genFrameSetEventsAux p (List.range (k + 1)) entries frInt = .ok evs ∧ execEvs d st evs r = .ok r' ∧
        r'.fs = { r.fs with frames := setRows r.fs.frames frInt (entries.flatMap (fun e => e.2.map (rowOf d (bytesOf st e.1.toNat)))) } := by
  intro entries
  induction entries with
  | nil =>
    intro frInt r _ _ _ _
    exact ⟨[], r, by simp [genFrameSetEventsAux], by simp [execEvs], by simp [setRows]⟩
  | cons e rest ih =>
    intro frInt r hent hch hrows hN
    obtain ⟨seek, buf⟩ := e
    obtain ⟨a, len, n, bs, hbuf, hfind, hhead, hbs, hlast⟩ := hent (seek, buf) (List.mem_cons_self ..)
    simp only at hbuf hfind
    subst hbuf
    simp only [List.map_cons, List.sum_cons, ap_length] at hN
    obtain ⟨a', b', c', evs1, r1, hsl, hgen, hex, hfs⟩ := block_exec_all d st seek.toNat bs k n a c len frInt p hp hk hok hc
      hfind hhead hbs hlast r hch hrows (by omega)
    have hch1 : r1.fs.chIdx = List.range d.chans.length := by rw [hfs]; exact hch
    have hrows1 : ∀ row ∈ r1.fs.frames, row.length = sumN (d.chans.map Chan.numValues) := by
      rw [hfs]
      apply setRows_rowlen _ _ _ _ hrows
      intro row hm
      obtain ⟨g, _, rfl⟩ := List.mem_map.1 hm
      exact rowOf_length d bs g
    have hlen1 : r1.fs.frames.length = r.fs.frames.length := by rw [hfs]; exact setRows_length _ _ _
    obtain ⟨evs2, r2, hgen2, hex2, hfs2⟩ := ih (frInt + (len + 1)) r1
      (fun e he => hent e (List.mem_cons_of_mem _ he)) hch1 hrows1 (by rw [hlen1]; omega)
    refine ⟨⟨.seekLr, seek.toNat, none, none, none⟩ :: renumber (ap a c (len + 1)) frInt evs1 0 ++ evs2, r2, ?_, ?_, ?_⟩
    · simp only [genFrameSetEventsAux, hsl, hgen, ap_length, hgen2]
    · rw [execEvs_append, hex]; exact hex2
    · rw [hfs2, hfs]
      simp only [List.flatMap_cons]
      have hb : bytesOf st seek.toNat = bs := by simp [bytesOf, hfind]
      rw [hb]
      have := setRows_append r.fs.frames frInt ((ap a c (len + 1)).map (rowOf d bs))
        (rest.flatMap (fun e => e.2.map (rowOf d (bytesOf st e.1.toNat))))
      simp only [List.length_map, ap_length] at this
      simp only [this]


theorem mem_rangeList (a b c f : Nat) (h : f ∈ rangeList a b c) : a ≤ f ∧ f < b := by
  unfold rangeList at h
  simp only [List.mem_map, List.mem_range] at h
  obtain ⟨i, hi, rfl⟩ := h
  unfold rangeLen at hi
  split at hi
  · rename_i hab
    by_cases hc : c = 0
    · subst hc; simp at hi ⊢; exact hab
    · have h1 : i ≤ (b - a - 1) / c := by omega
      have h2 := Nat.div_mul_le_self (b - a - 1) c
      have h3 : i * c ≤ (b - a - 1) / c * c := Nat.mul_le_mul_right _ h1
      omega
  · omega

theorem flat_length (G : List (Int × List Nat)) : (flat G).length = (G.map (·.2.length)).sum := by
  induction G with
  | nil => rfl
  | cons e es ih => simp [flat] at ih ⊢

theorem flat_rows {β} (g : Int → Nat → β) (G : List (Int × List Nat)) :
    G.flatMap (fun e => e.2.map (g e.1)) = (flat G).map (fun q => g q.1 q.2) := by
  induction G with
  | nil => rfl
  | cons e es ih => simp [flat] at ih ⊢; rw [ih]; rfl

/-- the row the matrix must hold for frame `f`: all channels, from the record that `locate` finds -/
def frameRow (d : Dfsr) (st : Store) (R : List (Int × Nat)) (f : Nat) : List (Option Nat) :=
  match locate R f with
  | some (t, off) => rowOf d (bytesOf st t.toNat) off
  | none => []


end TD.C06
