import TD.C06.LemmasLoad

/-!
C06 — several data records: grouping of `_retFrameSetMap`, sorted order, induction over the map entries.
-/
namespace TD.C06

/-! ### `locate` on a record list with strictly increasing positions -/

def IncTells (R : List (Int × Nat)) : Prop := R.Pairwise (fun a b => a.1 < b.1)

theorem locate_mem (R : List (Int × Nat)) (f : Nat) (t : Int) (off : Nat) (h : locate R f = some (t, off)) :
    ∃ n, (t, n) ∈ R ∧ off < n := by
  induction R generalizing f with
  | nil => simp [locate] at h
  | cons r rest ih =>
    obtain ⟨t0, n0⟩ := r
    simp only [locate] at h
    split at h
    · rename_i hlt
      simp only [Option.some.injEq, Prod.mk.injEq] at h
      obtain ⟨rfl, rfl⟩ := h
      exact ⟨n0, List.mem_cons_self .., hlt⟩
    · obtain ⟨n, hm, hl⟩ := ih _ h
      exact ⟨n, List.mem_cons_of_mem _ hm, hl⟩

theorem locate_step (R : List (Int × Nat)) (hR : IncTells R) (f f' : Nat) (hff : f < f') (t t' : Int) (off off' : Nat)
    (h : locate R f = some (t, off)) (h' : locate R f' = some (t', off')) :
    t < t' ∨ (t = t' ∧ off' = off + (f' - f)) := by
  induction R generalizing f f' with
  | nil => simp [locate] at h
  | cons r rest ih =>
    obtain ⟨t0, n0⟩ := r
    have hp := List.pairwise_cons.1 hR
    simp only [locate] at h h'
    by_cases h1 : f < n0
    · simp only [h1, if_true, Option.some.injEq, Prod.mk.injEq] at h
      obtain ⟨rfl, rfl⟩ := h
      by_cases h2 : f' < n0
      · simp only [h2, if_true, Option.some.injEq, Prod.mk.injEq] at h'
        obtain ⟨rfl, rfl⟩ := h'
        right; exact ⟨rfl, by omega⟩
      · simp only [h2, if_false] at h'
        obtain ⟨n, hm, _⟩ := locate_mem rest _ _ _ h'
        left; exact hp.1 _ hm
    · have h2 : ¬ f' < n0 := by omega
      simp only [h1, h2, if_false] at h h'
      have := ih hp.2 (f - n0) (f' - n0) (by omega) h h'
      rcases this with h3 | ⟨h3, h4⟩
      · left; exact h3
      · right; exact ⟨h3, by omega⟩

theorem locate_lt (R : List (Int × Nat)) (f : Nat) (h : f < (R.map (·.2)).sum) : ∃ r, locate R f = some r := by
  induction R generalizing f with
  | nil => simp at h
  | cons r rest ih =>
    obtain ⟨t0, n0⟩ := r
    simp only [locate]
    by_cases h1 : f < n0
    · exact ⟨(t0, f), by simp [h1]⟩
    · simp only [h1, if_false]
      exact ih _ (by simp at h; omega)

/-! ### the dict of `_retFrameSetMap` as a fold -/

def foldMap : List (Int × List Nat) → List (Int × Nat) → List (Int × List Nat)
  | acc, [] => acc
  | acc, (k, v) :: rest => foldMap (mapAppend acc k v) rest

theorem retFrameSetMapAux_fold (l : List Item01) (loc : Nat → Int × Nat) (frames : List Nat)
    (h : ∀ f ∈ frames, rle01Tell l f = .ok (loc f)) (acc : List (Int × List Nat)) :
    retFrameSetMapAux l frames acc = .ok (foldMap acc (frames.map loc)) := by
  induction frames generalizing acc with
  | nil => simp [retFrameSetMapAux, foldMap]
  | cons f fs ih =>
    have hf := h f (List.mem_cons_self ..)
    simp only [retFrameSetMapAux, hf, List.map_cons, foldMap]
    cases hl : loc f with
    | mk k v => simp only [foldMap]; exact ih (fun f' hf' => h f' (List.mem_cons_of_mem _ hf')) _

theorem mapAppend_notin (acc : List (Int × List Nat)) (k : Int) (v : Nat) (h : ∀ e ∈ acc, e.1 ≠ k) :
    mapAppend acc k v = acc ++ [(k, [v])] := by
  induction acc with
  | nil => rfl
  | cons e es ih =>
    obtain ⟨k', vs⟩ := e
    have h1 : k' ≠ k := h (k', vs) (List.mem_cons_self ..)
    simp only [mapAppend, h1, if_false, List.cons_append]
    rw [ih (fun e he => h e (List.mem_cons_of_mem _ he))]

theorem mapAppend_last (pre : List (Int × List Nat)) (k : Int) (vs : List Nat) (v : Nat) (h : ∀ e ∈ pre, e.1 ≠ k) :
    mapAppend (pre ++ [(k, vs)]) k v = pre ++ [(k, vs ++ [v])] := by
  induction pre with
  | nil => simp [mapAppend]
  | cons e es ih =>
    obtain ⟨k', vs'⟩ := e
    have h1 : k' ≠ k := h (k', vs') (List.mem_cons_self ..)
    simp only [List.cons_append, mapAppend, h1, if_false]
    rw [ih (fun e he => h e (List.mem_cons_of_mem _ he))]

/-- consecutive located frames: a later record, or the same record `c` frames further -/
def Chain (c : Nat) : List (Int × Nat) → Prop
  | [] => True
  | [_] => True
  | (k, v) :: (k', v') :: rest => (k < k' ∨ (k = k' ∧ v' = v + c)) ∧ Chain c ((k', v') :: rest)

/-- the located frames a grouping stands for -/
def flat (acc : List (Int × List Nat)) : List (Int × Nat) := acc.flatMap (fun e => e.2.map (fun v => (e.1, v)))

/-- a grouping: keys strictly increasing, every buffer a non-empty arithmetic progression of step `c` -/
def Grouped (c : Nat) (acc : List (Int × List Nat)) : Prop :=
  (acc.map (·.1)).Pairwise (· < ·) ∧ ∀ e ∈ acc, ∃ a len, e.2 = ap a c (len + 1)

/-- how the next located frame `(k, v)` continues a grouping -/
def Continues (c : Nat) (acc : List (Int × List Nat)) (k : Int) (v : Nat) : Prop :=
  acc = [] ∨ ∃ pre k0 a len, acc = pre ++ [(k0, ap a c (len + 1))] ∧ (k0 < k ∨ (k0 = k ∧ v = a + (len + 1) * c))

/-- the first located frame (if any) continues the grouping -/
def ContinuesHead (c : Nat) (acc : List (Int × List Nat)) : List (Int × Nat) → Prop
  | [] => True
  | (k, v) :: _ => Continues c acc k v

theorem ap_snoc (a c len : Nat) : ap a c len ++ [a + len * c] = ap a c (len + 1) := by
  unfold ap; rw [List.range_succ]; simp

theorem ap_one (a c : Nat) : ap a c 1 = [a] := by simp [ap]

theorem flat_append (x y : List (Int × List Nat)) : flat (x ++ y) = flat x ++ flat y := by simp [flat]


theorem flat_single (k : Int) (vs : List Nat) : flat [(k, vs)] = vs.map (fun v => (k, v)) := by simp [flat]

/-- **The dict of `_retFrameSetMap`**: folding a chain of located frames into the dict gives a grouping (keys strictly
increasing — hence already sorted —, buffers arithmetic progressions) that flattens back to the located frames. -/
theorem foldMap_grouped (c : Nat) (locs : List (Int × Nat)) :
    ∀ acc, Grouped c acc → Chain c locs →
      ContinuesHead c acc locs →
      Grouped c (foldMap acc locs) ∧ flat (foldMap acc locs) = flat acc ++ locs := by
  induction locs with
  | nil => intro acc hg _ _; simp [foldMap, hg]
  | cons kv rest ih =>
    obtain ⟨k, v⟩ := kv
    intro acc hg hch hcont
    simp only [ContinuesHead] at hcont
    simp only [foldMap]
    -- the grouping after inserting (k, v), and how the next frame continues it
    have key : ∃ acc', mapAppend acc k v = acc' ∧ Grouped c acc' ∧ flat acc' = flat acc ++ [(k, v)] ∧
        ∃ pre a len, acc' = pre ++ [(k, ap a c (len + 1))] ∧ v = a + len * c := by
      rcases hcont with rfl | ⟨pre, k0, a, len, rfl, hk⟩
      · refine ⟨[(k, [v])], rfl, ⟨by simp, ?_⟩, by simp [flat], [], v, 0, by simp [ap_one], by simp⟩
        intro e he; simp at he; subst he; exact ⟨v, 0, by simp [ap_one]⟩
      · obtain ⟨hpw, hbuf⟩ := hg
        simp only [List.map_append, List.map_cons, List.map_nil] at hpw
        have hpre : ∀ e ∈ pre, e.1 < k0 := by
          intro e he
          have := (List.pairwise_append.1 hpw).2.2 e.1 (List.mem_map_of_mem he) k0 (by simp)
          exact this
        rcases hk with hlt | ⟨rfl, hv⟩
        · have hne : ∀ e ∈ pre ++ [(k0, ap a c (len + 1))], e.1 ≠ k := by
            intro e he
            rcases List.mem_append.1 he with h | h
            · have := hpre e h; omega
            · simp at h; subst h; simp; omega
          refine ⟨_, mapAppend_notin _ k v hne, ⟨?_, ?_⟩, ?_, pre ++ [(k0, ap a c (len + 1))], v, 0, by simp [ap_one], by simp⟩
          · simp only [List.map_append, List.map_cons, List.map_nil]
            apply List.pairwise_append.2
            refine ⟨hpw, by simp, ?_⟩
            intro x hx y hy
            simp at hy; subst hy
            rcases List.mem_append.1 hx with h | h
            · obtain ⟨e, he, rfl⟩ := List.mem_map.1 h
              have := hpre e he; omega
            · simp at h; subst h; exact hlt
          · intro e he
            rcases List.mem_append.1 he with h | h
            · exact hbuf e h
            · simp at h; subst h; exact ⟨v, 0, by simp [ap_one]⟩
          · rw [flat_append, flat_single]; simp
        · have hne : ∀ e ∈ pre, e.1 ≠ k0 := fun e he => by have := hpre e he; omega
          refine ⟨_, mapAppend_last pre k0 _ v hne, ⟨?_, ?_⟩, ?_, pre, a, len + 1, by rw [hv, ap_snoc], hv⟩
          · simpa using hpw
          · intro e he
            rcases List.mem_append.1 he with h | h
            · exact hbuf e (List.mem_append_left _ h)
            · simp at h; subst h; exact ⟨a, len + 1, by rw [hv, ap_snoc]⟩
          · rw [flat_append, flat_append, flat_single, flat_single]; simp
    obtain ⟨acc', hma, hg', hflat, pre, a, len, hacc', hva⟩ := key
    rw [hma]
    have hnext : ContinuesHead c acc' rest := by
      cases rest with
      | nil => trivial
      | cons kv' rest' =>
        obtain ⟨k', v'⟩ := kv'
        simp only [Chain] at hch
        simp only [ContinuesHead]
        right
        refine ⟨pre, k, a, len, hacc', ?_⟩
        rcases hch.1 with h | ⟨h1, h2⟩
        · left; exact h
        · right; refine ⟨h1, ?_⟩; rw [h2, hva]; ring
    have hch' : Chain c rest := by
      cases rest with
      | nil => trivial
      | cons kv' rest' => obtain ⟨k', v'⟩ := kv'; exact hch.2
    obtain ⟨h1, h2⟩ := ih acc' hg' hch' hnext
    exact ⟨h1, by rw [h2, hflat]; simp⟩

end TD.C06
