import TD.C06.Model
namespace TD.C06
theorem stub : True := trivial
end TD.C06
