import TD.C06.Lemmas
import TD.C06.LemmasPlan
import TD.C06.LemmasLoad
import TD.C06.LemmasMulti
import TD.C06.LemmasSel
import TD.C06.LemmasInd
import TD.C06.LemmasReads
import TD.C06.LemmasX

/-!
# C06 — LIS log pass frame sets are exact; any sub-selection is a sub-matrix

Property theorems only.  The model (`TD.C06.Model`) transcribes Type01Plan / Rle / LogPass / FrameSet / FileIndexer of
TotalDepth; it is tied to the Python source by the correspondence run of `./check C06`.
-/
namespace TD.C06

/-! ## File index -/

/-- **Index lists all**: when indexing succeeds, the index holds — in file order — exactly one entry for every logical
record whose type the dispatch table knows (every header, trailer, table, DFSR and marker record), at the record's
position, with its type, its kind and, for tables, the value of the first component block as name.  Type 0/1 records
never produce an entry.  (`specEntries` looks at each record on its own: no state.) -/
theorem index_lists_all (recs : List (Nat × List Nat)) (es : List Entry) (h : fileIndex recs = .ok es) :
    es.map Entry.proj = specEntries recs := by
  unfold fileIndex at h
  split at h
  · cases h
  · rename_i s hs
    cases h
    simpa using indexFile_proj recs ⟨[], none, none⟩ s hs

example : (fileIndex [(0, [128, 0] ++ List.replicate 56 65),
      (62, [34, 0, 73, 65, 4, 0, 84, 89, 80, 69, 32, 32, 32, 32, 67, 79, 78, 83]), (80, [0, 0, 1, 2]), (90, [200, 0])]).toOption.map
        (·.map Entry.proj) = some [(0, 128, .fileHead, none), (62, 34, .table, some (.bytes [67, 79, 78, 83]))] := by
  decide +kernel

/-- **Index, data record**: a type 0/1 record accepted for a log pass has a length of the indirect word plus a whole
number `n` of frames, and is appended as `(position, n)` to the record list that the run-length table stands for. -/
theorem index_data_record (lp lp' : LogPass) (tell t : Nat) (payload : List Nat)
    (h : indexAddData lp tell t payload = .ok lp') :
    ∃ n, payload.length = lp.plan.indr + n * lp.plan.frameSize ∧ 0 < lp.plan.frameSize ∧
      expand lp'.rle = expand lp.rle ++ [((tell : Int), n)] ∧
      rle01Total lp'.rle = rle01Total lp.rle + n := by
  obtain ⟨x, hx⟩ := indexAddData_ok lp lp' tell t payload h
  obtain ⟨n, hn, hr⟩ := addType01Data_ok lp lp' tell t payload.length x hx
  obtain ⟨hlen, hfs⟩ := numFrames_ok lp.plan payload.length n hn
  exact ⟨n, hlen, hfs, by simp [hr, rle01Add_expand], by simp [hr, expand_total, rle01Add_expand]⟩

/-- **RLE lookup** (restated from `Lemmas`): for every run-length table, `RLEType01.tellLrForFrame(f)` returns the
position of the record holding frame `f` and the frame's offset in it — `locate` on the plain record list — and raises
`IndexError` exactly when `f` is beyond the last frame. -/
theorem rle_lookup (l : List Item01) (f : Nat) :
    rle01Tell l f = (match locate (expand l) f with | some r => .ok r | none => .error .indexError) :=
  rle01Tell_locate l f

example : rle01Tell (rle01Add (rle01Add (rle01Add [] 100 5 0) 200 5 0) 300 3 0) 11 = .ok (300, 1) := by decide

/-- A record with zero frames is passed over by the lookup (was finding F22, fixed in /repo): whatever the table,
inserting the records in order, frame `f` is found as if the empty record were not there. -/
theorem rle_lookup_skips_empty_record (pre post : List (Int × Nat)) (t : Int) (f : Nat) :
    locate (pre ++ (t, 0) :: post) f = locate (pre ++ post) f := by
  induction pre generalizing f with
  | nil => simp [locate]
  | cons a as ih => obtain ⟨t', n⟩ := a; simp only [List.cons_append, locate, ih]

example : rle01Tell (rle01Add (rle01Add (rle01Add [] 100 5 0) 200 0 0) 300 5 0) 7 = .ok (300, 2) := by decide

/-! ## The read/skip plan of one logical record -/

/-- **Events cover**: for every frame plan (any channel sizes, indirect word or not), every channel list whose members
exist and every non-empty frame slice `start < stop` (any step; 0 stands for None = 1), `genEvents` succeeds and,
executed from the start of the record data, its read events read — in order — exactly the indirect word followed by
the bytes of the selected channels (sorted, without duplicates) of the frames `range(start, stop, step)`; the total of
read + skip ends exactly at the end of a selected frame `g < stop`. (`evBytes`/`evEnd` are the byte semantics of an
event list; `extrapolate` events do not move.) -/
theorem events_cover (p : Plan) (start stop step0 : Nat) (chans : List Nat)
    (hch : ∀ c ∈ chans, c < p.numChannels) (hne : chans ≠ []) (hlt : start < stop) :
    ∃ evs, genEvents p start stop step0 chans = .ok evs ∧
      evBytes evs 0 = List.range' 0 p.indr ++
        (rangeList start stop (if step0 = 0 then 1 else step0)).flatMap
          (fun g => selBytes p (p.indr + g * p.frameSize) (sortDedup chans)) ∧
      ∃ g, start ≤ g ∧ g < stop ∧ evEnd evs 0 = p.indr + (g + 1) * p.frameSize := by
  have hstep : 0 < (if step0 = 0 then 1 else step0) := by split <;> omega
  generalize hst : (if step0 = 0 then 1 else step0) = step at hstep
  -- the checked channel list
  have hsorted := sortDedup_sorted chans
  cases hcs : sortDedup chans with
  | nil =>
    exfalso
    cases chans with
    | nil => exact hne rfl
    | cons a as => have := (sortDedup_mem (a :: as) a).2 (List.mem_cons_self ..); rw [hcs] at this; simp at this
  | cons c0 rest =>
    rw [hcs] at hsorted
    have hchk : checkChIdx p chans = .ok (c0 :: rest) := by
      unfold checkChIdx
      simp only [hcs]
      cases hl : (c0 :: rest).getLast? with
      | none => simp at hl
      | some x =>
        have hx : x ∈ c0 :: rest := List.mem_of_getLast? hl
        have : x < p.numChannels := hch x ((sortDedup_mem chans x).1 (hcs ▸ hx))
        simp [show ¬ x ≥ p.numChannels by omega]
    unfold genEvents
    simp only [hchk, hst, List.length_cons, gt_iff_lt, Nat.zero_lt_succ, hlt, and_self, if_true]
    cases hr : retFrameEvents p (c0 :: rest) with
    | mk pre r2 =>
      obtain ⟨fevts, post⟩ := r2
      simp only
      have hspec := fun base => retFrameEvents_spec p c0 rest hsorted base pre fevts post hr
      obtain ⟨_, _, hhead, hpre, hpost⟩ := hspec 0
      have hB := fun base => (hspec base).1
      have hE := fun base => (hspec base).2.1
      have hL := lastP1_pos rest c0
      have hfs : p.skipToChStart (lastP1 rest (c0 + 1)) + p.skipToFrameEnd (lastP1 rest (c0 + 1) - 1) = p.frameSize := by
        have := skip_end p (lastP1 rest (c0 + 1) - 1)
        rwa [Nat.sub_add_cancel hL] at this
      have hpostS : sizIs post (p.skipToFrameEnd (lastP1 rest (c0 + 1) - 1)) := by
        unfold sizIs; unfold skipIs at hpost
        cases post with
        | none => exact hpost
        | some e => exact hpost.2
      have hpreS : sizIs pre (p.skipToChStart c0) := by
        unfold sizIs; unfold preIs at hpre
        cases pre with
        | none => simp only at hpre; subst hpre; exact skip_zero p
        | some e => exact hpre.2.1
      have hinter := merged_spec p pre post step (p.skipToChStart c0) (p.skipToFrameEnd (lastP1 rest (c0 + 1) - 1)) hstep hpreS hpostS
      have hloop := frameLoop_spec p (c0 :: rest) fevts post (mergedPostFramePre p pre post step) stop step
        (p.skipToChStart c0) (p.skipToChStart (lastP1 rest (c0 + 1))) (p.skipToFrameEnd (lastP1 rest (c0 + 1) - 1))
        hstep hB hE hhead hfs hpost hinter (stop - start) start
      -- the head part
      cases pre with
      | some pr =>
        unfold preIs at hpre
        simp only at hpre ⊢
        obtain ⟨hty, hsz, _⟩ := hpre
        refine ⟨_, rfl, ?_⟩
        have hh : evBytes ((if p.indr > 0 then [(⟨.read, p.indr, none, none, none⟩ : Ev)] ++ (if start > 0 then [⟨.extrap, start, some start, none, none⟩] else []) else [])
              ++ [⟨pr.ty, start * p.frameSize + pr.siz, some start, pr.cf, pr.ct⟩]) 0 = List.range' 0 p.indr ∧
            evEnd ((if p.indr > 0 then [(⟨.read, p.indr, none, none, none⟩ : Ev)] ++ (if start > 0 then [⟨.extrap, start, some start, none, none⟩] else []) else [])
              ++ [⟨pr.ty, start * p.frameSize + pr.siz, some start, pr.cf, pr.ct⟩]) 0 = p.indr + start * p.frameSize + p.skipToChStart c0 := by
          by_cases hi : p.indr > 0
          · by_cases hs : start > 0 <;> simp [hi, hs, evBytes, evEnd, hty, hsz] <;> omega
          · have : p.indr = 0 := by omega
            simp [hi, evBytes, evEnd, hty, hsz, this]
        obtain ⟨hlB, g, hg1, hg2, hlE⟩ := hloop none (p.indr + start * p.frameSize + p.skipToChStart c0) hlt (Nat.le_refl _) (by simp)
        constructor
        · rw [evBytes_append, hh.1, hh.2, hlB]; simp
        · exact ⟨g, hg1, hg2, by rw [evEnd_append, hh.2, hlE]⟩
      | none =>
        unfold preIs at hpre
        simp only at hpre ⊢
        subst hpre
        have hA : p.skipToChStart 0 = 0 := skip_zero p
        by_cases hs : start > 0
        · simp only [hs, if_true]
          refine ⟨_, rfl, ?_⟩
          have hh : evBytes ((if p.indr > 0 then [(⟨.read, p.indr, none, none, none⟩ : Ev)] else []) ++ [⟨.skip, start * p.frameSize, some start, none, some 0⟩]
                ++ (if p.indr > 0 then [(⟨.extrap, start, some start, none, none⟩ : Ev)] else [])) 0 = List.range' 0 p.indr ∧
              evEnd ((if p.indr > 0 then [(⟨.read, p.indr, none, none, none⟩ : Ev)] else []) ++ [⟨.skip, start * p.frameSize, some start, none, some 0⟩]
                ++ (if p.indr > 0 then [(⟨.extrap, start, some start, none, none⟩ : Ev)] else [])) 0 = p.indr + start * p.frameSize + p.skipToChStart 0 := by
            by_cases hi : p.indr > 0
            · simp [hi, evBytes, evEnd, hA]
            · have : p.indr = 0 := by omega
              simp [hi, evBytes, evEnd, hA, this]
          obtain ⟨hlB, g, hg1, hg2, hlE⟩ := hloop none (p.indr + start * p.frameSize + p.skipToChStart 0) hlt (Nat.le_refl _) (by simp)
          constructor
          · rw [evBytes_append, hh.1, hh.2, hlB]; simp
          · exact ⟨g, hg1, hg2, by rw [evEnd_append, hh.2, hlE]⟩
        · have hs0 : start = 0 := by omega
          subst hs0
          simp only [Nat.lt_irrefl, if_false, List.nil_append]
          refine ⟨_, rfl, ?_⟩
          have hpd : (if p.indr > 0 then some p.indr else none : Option Nat).getD 0 = p.indr := by
            by_cases hi : p.indr > 0
            · simp [hi]
            · simp [hi]; omega
          obtain ⟨hlB, g, hg1, hg2, hlE⟩ := hloop (if p.indr > 0 then some p.indr else none) 0 hlt (Nat.le_refl _) (by rw [hpd, hA]; simp)
          rw [hpd] at hlB
          exact ⟨hlB, g, hg1, hg2, hlE⟩

/-- **Reads stay inside the record**: if the record holds `F ≥ stop` frames, read + skip never pass its end. -/
theorem events_inside_record (p : Plan) (start stop step0 F : Nat) (chans : List Nat)
    (hch : ∀ c ∈ chans, c < p.numChannels) (hne : chans ≠ []) (hlt : start < stop) (hF : stop ≤ F) :
    ∃ evs, genEvents p start stop step0 chans = .ok evs ∧ evEnd evs 0 ≤ p.indr + F * p.frameSize := by
  obtain ⟨evs, h1, _, g, _, hg, hE⟩ := events_cover p start stop step0 chans hch hne hlt
  refine ⟨evs, h1, ?_⟩
  rw [hE]
  have : (g + 1) * p.frameSize ≤ F * p.frameSize := Nat.mul_le_mul_right _ (by omega)
  omega

example : ∃ evs, genEvents ⟨4, [4, 2, 1, 8]⟩ 1 6 2 [3, 1, 1] = .ok evs ∧
    evBytes evs 0 = [0, 1, 2, 3] ++ [23, 24, 26, 27, 28, 29, 30, 31, 32, 33] ++ [53, 54, 56, 57, 58, 59, 60, 61, 62, 63]
      ++ [83, 84, 86, 87, 88, 89, 90, 91, 92, 93] ∧ evEnd evs 0 = 94 := ⟨_, rfl, by decide, by decide⟩

/-! ## The EXTRAPOLATE branch of `setFrameSet` (what `implied X` rests on) -/

/-- For the first loaded frame (`frInt = 0`) an extrapolation by `n` frames adds `n·spacing` to the value just read. -/
theorem extrapolate_rule_first (d : Dfsr) (st : Store) (r : Run) (e : Ev) (x sp : Int)
    (hty : e.ty = .extrap) (hfr : e.fr = some 0) (hx : r.fs.xvec[0]? = some (some x)) (hsp : r.fs.frameSpacing = some sp) :
    (execEv d st r e).toOption.map (·.fs.xvec) = some (r.fs.xvec.set 0 (some (x + (e.siz : Int) * sp))) := by
  have hlen : 0 < r.fs.xvec.length := by
    cases hl : r.fs.xvec with
    | nil => rw [hl] at hx; simp at hx
    | cons a as => simp
  unfold execEv
  simp only [hty, hfr, ↓reduceIte, hx, hsp, hlen]
  simp [Except.toOption]

/-- For every later loaded frame (`frInt > 0`) the extrapolation starts from the X of the *previously loaded frame*
`frInt - 1` — also when that frame belongs to the previous record and the current record's own first X has just been
read into `frInt` (this is finding F7). -/
theorem extrapolate_rule_later (d : Dfsr) (st : Store) (r : Run) (e : Ev) (frInt : Nat) (x sp : Int)
    (hty : e.ty = .extrap) (hfr : e.fr = some frInt) (h0 : 0 < frInt) (hlen : frInt < r.fs.xvec.length)
    (hx : r.fs.xvec[frInt - 1]? = some (some x)) (hsp : r.fs.frameSpacing = some sp) :
    (execEv d st r e).toOption.map (·.fs.xvec) = some (r.fs.xvec.set frInt (some (x + (e.siz : Int) * sp))) := by
  have hne : frInt ≠ 0 := by omega
  unfold execEv
  simp [hty, hfr, hx, hsp, hlen, hne, Except.toOption]

/-! ## Loads do not depend on earlier loads -/

/-- **History independence**: the outcome of `setFrameSet` (file operations or exception) and the state it leaves do
not depend on the frame set left by earlier loads (successful or failed) — only on the DFSR and the record table. -/
theorem setFrameSet_history_independent (lp lp' : LogPass) (st : Store) (sl : Option Sl) (ch : Option (List Nat))
    (h1 : lp.dfsr = lp'.dfsr) (h2 : lp.plan = lp'.plan) (h3 : lp.xAxisIndex = lp'.xAxisIndex) (h4 : lp.rle = lp'.rle) :
    (setFrameSet lp st sl ch).2 = (setFrameSet lp' st sl ch).2 ∧
    (rle01Total lp.rle ≠ 0 → (setFrameSet lp st sl ch).1 = (setFrameSet lp' st sl ch).1) := by
  obtain ⟨d, p, x, r, f⟩ := lp
  obtain ⟨d', p', x', r', f'⟩ := lp'
  simp only at h1 h2 h3 h4
  subst h1 h2 h3 h4
  unfold setFrameSet genFrameSetEvents retFrameSetMap
  simp only
  split
  · exact ⟨rfl, fun h => absurd (by assumption) h⟩
  · split
    · exact ⟨rfl, fun _ => rfl⟩
    · split
      · exact ⟨rfl, fun _ => rfl⟩
      · split
        · exact ⟨rfl, fun _ => rfl⟩
        · split <;> exact ⟨rfl, fun _ => rfl⟩

/-- A load after any earlier load — in particular after a failed one (was finding F20, fixed in /repo) — behaves like
the first load on a fresh `LogPass`: same outcome, same resulting state. -/
theorem setFrameSet_after_any_load (lp : LogPass) (st st' : Store) (sl sl' : Option Sl) (ch ch' : Option (List Nat))
    (hT : rle01Total lp.rle ≠ 0) :
    setFrameSet (setFrameSet lp st sl ch).1 st' sl' ch' = setFrameSet { lp with frameSet := none } st' sl' ch' := by
  have hkeep : ∀ (q : LogPass), (setFrameSet q st sl ch).1.dfsr = q.dfsr ∧ (setFrameSet q st sl ch).1.plan = q.plan ∧
      (setFrameSet q st sl ch).1.xAxisIndex = q.xAxisIndex ∧ (setFrameSet q st sl ch).1.rle = q.rle := by
    intro q
    unfold setFrameSet
    simp only
    split
    · exact ⟨rfl, rfl, rfl, rfl⟩
    · split
      · exact ⟨rfl, rfl, rfl, rfl⟩
      · split
        · exact ⟨rfl, rfl, rfl, rfl⟩
        · split
          · exact ⟨rfl, rfl, rfl, rfl⟩
          · split <;> exact ⟨rfl, rfl, rfl, rfl⟩
  obtain ⟨k1, k2, k3, k4⟩ := hkeep lp
  have hh := setFrameSet_history_independent (setFrameSet lp st sl ch).1 { lp with frameSet := none } st' sl' ch'
    k1 k2 k3 k4
  exact Prod.ext (hh.2 (by rw [k4]; exact hT)) hh.1

/-! ## Implied X axis -/

/-- the implied X value of frame `f`: `x0 + f·spacing` -/
def xSpec (x0 sp : Int) (frames : List Nat) : List (Option Int) := frames.map (fun (f : Nat) => some (x0 + (f : Int) * sp))

/-- the F7 witness: indirect X (rep code 73), up log (spacing −60), one 1-byte channel, 3 records × 5 frames -/
def dfsrW : Dfsr := ⟨0, 1, 73, 1, some 60, some [46, 49, 73, 78], some [46, 49, 73, 78], [⟨1, 1, 66⟩]⟩

def recW (x v : Nat) : List Nat :=
  [0, 0] ++ [x / 16777216 % 256, x / 65536 % 256, x / 256 % 256, x % 256] ++ [v, v + 1, v + 2, v + 3, v + 4]

def storeW : Store := [(100, recW 120000 0), (200, recW 119700 5), (300, recW 119400 10)]

def lpW : LogPass :=
  match LogPass.new dfsrW 0 with
  | .ok lp =>
    (match lp.addType01Data 100 0 9 120000 with
     | .ok a => (match a.addType01Data 200 0 9 119700 with
       | .ok b => (match b.addType01Data 300 0 9 119400 with | .ok c => c | .error _ => b)
       | .error _ => a)
     | .error _ => lp)
  | .error _ => ⟨dfsrW, ⟨0, []⟩, 0, [], none⟩

/-- On the witness the full load is right: every implied X is `x0 + f·spacing`, and the matrix holds the recorded bytes. -/
theorem implied_x_witness_step1 :
    (setFrameSet lpW storeW none none).1.frameSet.map (·.xvec) = some (xSpec 120000 (-60) (rangeList 0 15 1)) ∧
    (setFrameSet lpW storeW none none).1.frameSet.map (·.frames) = some ((List.range 15).map (fun v => [some v])) := by
  constructor <;> decide +kernel

/-- **F7 (known finding)**: the statement "the implied X of every loaded frame is `x0 + f·spacing`" is *false* on the
current code: `slice(0,16,2)` over 3 records × 5 frames gives 119700, 119580 for frames 6 and 8 (true 119640, 119520),
while the matrix itself is right. -/
theorem implied_x_f7_witness :
    (setFrameSet lpW storeW (some ⟨0, 16, 2⟩) none).1.frameSet.map (·.xvec)
      = some [some 120000, some 119880, some 119760, some 119700, some 119580, some 119400, some 119280, some 119160] ∧
    (setFrameSet lpW storeW (some ⟨0, 16, 2⟩) none).1.frameSet.map (·.xvec)
      ≠ some (xSpec 120000 (-60) (rangeList 0 16 2)) ∧
    (setFrameSet lpW storeW (some ⟨0, 16, 2⟩) none).1.frameSet.map (·.frames)
      = some ((rangeList 0 16 2).map (fun v => [some v])) := by
  refine ⟨by decide +kernel, by decide +kernel, by decide +kernel⟩

/-! ## Sub-selection is a sub-matrix (direct X) — witness level

The general statement `setFrameSet_values` (for every log pass with explicit X, every slice and channel list the loaded
matrix is the full matrix restricted to rows `range(slice)` and columns `chans ∪ {x}`) is NOT proved here: its pieces are
(`rle_lookup`: frame → record and offset; `events_cover`: which bytes are read for the frames of one record) but the
composition through `_retFrameSetMap`/`_sliceFromList`/`renumber`/`setFrameBytes` is only checked on the witness below
(by kernel evaluation) and by the correspondence run. -/

/-- explicit X (channel 0, rep code 73), a 2-sample × 2-burst channel of 1-byte words, a 2-byte channel; records of
3 and 2 frames; frame `f` holds X = 1000+10f, then bytes 10f+1 … 10f+4, then the word 256·(10f+5) + 10f+6 -/
def dfsrD : Dfsr := ⟨0, 0, 0, 255, none, some [46, 49, 73, 78], some [46, 49, 73, 78], [⟨4, 1, 73⟩, ⟨4, 2, 66⟩, ⟨2, 1, 79⟩]⟩

def frameD (f : Nat) : List Nat :=
  [0, 0, (1000 + 10 * f) / 256, (1000 + 10 * f) % 256, 10 * f + 1, 10 * f + 2, 10 * f + 3, 10 * f + 4, 10 * f + 5, 10 * f + 6]

def storeD : Store := [(50, [0, 0] ++ frameD 0 ++ frameD 1 ++ frameD 2), (90, [0, 0] ++ frameD 3 ++ frameD 4)]

def lpD : LogPass :=
  match LogPass.new dfsrD 0 with
  | .ok lp =>
    (match lp.addType01Data 50 0 30 1000 with
     | .ok a => (match a.addType01Data 90 0 20 1030 with | .ok b => b | .error _ => a)
     | .error _ => lp)
  | .error _ => ⟨dfsrD, ⟨0, []⟩, 0, [], none⟩

/-- the full matrix row of frame `f` (raw words) -/
def rowD (f : Nat) : List (Option Nat) :=
  [some (1000 + 10 * f), some (10 * f + 1), some (10 * f + 2), some (10 * f + 3), some (10 * f + 4),
   some (256 * (10 * f + 5) + 10 * f + 6)]

/-- On the witness: the full load gives the full matrix; `slice(1,5,2)` with channel list `[2]` gives rows 1, 3 and
columns of channels `{0 (X), 2}`; a following full load is again the full matrix (history), and the stepped load read
only inside the two records. -/
theorem setFrameSet_values_witness :
    (setFrameSet lpD storeD none none).1.frameSet.map (·.frames) = some ((List.range 5).map rowD) ∧
    (setFrameSet lpD storeD (some ⟨1, 5, 2⟩) (some [2])).1.frameSet.map (·.frames)
      = some ([1, 3].map (fun f => [(rowD f)[0]!, (rowD f)[5]!])) ∧
    (setFrameSet (setFrameSet lpD storeD (some ⟨1, 5, 2⟩) (some [2])).1 storeD none none).1.frameSet.map (·.frames)
      = some ((List.range 5).map rowD) ∧
    (setFrameSet lpD storeD (some ⟨1, 5, 2⟩) (some [2])).2
      = .ok [.seek 50, .read 50 0 2, .skip 10, .read 50 12 4, .skip 4, .read 50 20 2, .seek 90, .read 90 0 2, .read 90 2 4, .skip 4, .read 90 10 2] := by
  refine ⟨by decide +kernel, by decide +kernel, by decide +kernel, by decide +kernel⟩

/-! ## Sub-selection is a sub-matrix (direct X) — general theorem for the class "all channels, one data record"

Full statement wanted (`setFrameSet_values`): for every direct-X log pass (any number of data records, any
frames-per-record pattern), every slice inside the frame count and every channel list, the loaded matrix is the full
matrix restricted to rows `range(slice)` and columns `chans ∪ {x}`.

Proved below: the class **channel list `None` (all channels), log pass held in one data record**, for every channel
shape (any number of channels, samples, bursts, word lengths), every record length `n`, every slice
`start < stop ≤ n` with any step (and `None`), every earlier frame set: the load succeeds and row `i` of the matrix holds
exactly the words of all channels of frame `start + i·step`, read from the record bytes.

Exact gap to the full statement (the first item is closed by `setFrameSet_values_allchannels_partial` below):
* more than one data record — the per-record block is already proved for an arbitrary position in the matrix
  (`block_exec_all`: any `frInt`, any arithmetic progression of offsets inside the record); missing is the grouping of
  `_retFrameSetMap` (frames → consecutive per-record buffers, `sorted` keeps record order) and the induction over the
  map entries in `genFrameSetEventsAux`/`execEvs`;
* proper channel subsets — `events_cover` proves which bytes are read; missing is the labelling of every read event
  with a contiguous run `(chFrom, chTo)` of the selected channels and the matching `setFrameBytes` writes.
Both are covered by kernel-evaluated witnesses (`setFrameSet_values_witness`: 2 records, subset `[2]`, step 2), by the
correspondence run and by the oracle. -/

/-- **`setFrameSet_values`, all channels, single record (partial)** — see the section comment for the exact gap. -/
theorem setFrameSet_values_allchannels_single_partial
    (d : Dfsr) (k n t : Nat) (x : Int) (bs : List Nat) (st : Store) (fsOld : Option FrameSet) (sl : Option Sl)
    (hrm : d.recMode = 0) (hk : d.chans.length = k + 1) (hok : d.sizesOk)
    (hfind : Store.find st t = some bs) (hhead : bs.head? = some d.dataType)
    (hbs : bs.length = 2 + n * sumN (d.chans.map Chan.size))
    (hlt : (slOrAll sl n).start < (slOrAll sl n).stop) (hstop : (slOrAll sl n).stop ≤ n) :
    ∃ ops, (setFrameSet ⟨d, ⟨0, d.chans.map Chan.size⟩, 0, [Item01.mk1 t n x], fsOld⟩ st sl none).2 = .ok ops ∧
      (setFrameSet ⟨d, ⟨0, d.chans.map Chan.size⟩, 0, [Item01.mk1 t n x], fsOld⟩ st sl none).1.frameSet.map (·.frames)
        = some ((rangeList (slOrAll sl n).start (slOrAll sl n).stop (slOrAll sl n).step1).map (rowOf d bs)) := by
  have htot : rle01Total [Item01.mk1 (t : Int) n x] = n := by simp [rle01Total, Item01.totalFrames, Item01.mk1]
  generalize hS : slOrAll sl n = S at hlt hstop
  obtain ⟨a, b, c0⟩ := S
  simp only at hlt hstop
  have hstep : 0 < (Sl.mk a b c0).step1 := by unfold Sl.step1; split <;> omega
  generalize hc : (Sl.mk a b c0).step1 = c at hstep
  have hn0 : n ≠ 0 := by omega
  -- the offsets: an arithmetic progression
  have hlenR := rangeLen_lt a b c hlt hstep
  generalize hlen : rangeLen (a + c) b c = len at hlenR
  have hbuf : rangeList a b c = ap a c (len + 1) := by rw [rangeList_eq_ap, hlenR]
  have hlast : a + len * c < n := by
    have h1 : rangeLen a b c = (b - a - 1) / c + 1 := by unfold rangeLen; simp [hlt]
    have h2 : len = (b - a - 1) / c := by omega
    have h3 := Nat.div_mul_le_self (b - a - 1) c
    rw [← h2] at h3; omega
  -- the new frame set
  have hany : (List.range d.chans.length).any (fun e => decide (e ≥ d.chans.length)) = false := by
    rw [List.any_eq_false]; intro e he; simp at he; simp; omega
  have hnew : FrameSet.new d ⟨a, b, c0⟩ none 0
      = .ok ⟨List.range d.chans.length, len + 1,
          List.replicate (len + 1) (List.replicate (sumN ((List.range d.chans.length).map (fun e => ((d.chans[e]?).map Chan.numValues).getD 0))) none),
          [], none⟩ := by
    unfold FrameSet.new
    simp only [hrm, hany, hc, hlenR]
    simp
  -- events
  have hmap : retFrameSetMap ⟨d, ⟨0, d.chans.map Chan.size⟩, 0, [Item01.mk1 (t : Int) n x], fsOld⟩ ⟨a, b, c0⟩
      = .ok [((t : Int), ap a c (len + 1))] := by
    unfold retFrameSetMap
    simp only [hc]
    rw [rangeList_cons a b c hlt hstep]
    have hfr : ∀ f ∈ rangeList (a + c) b c, f < n := by
      intro f hf
      have : f ∈ rangeList a b c := by rw [rangeList_cons a b c hlt hstep]; exact List.mem_cons_of_mem _ hf
      rw [hbuf, ap] at this
      simp only [List.mem_map, List.mem_range] at this
      obtain ⟨i, hi, rfl⟩ := this
      have : i * c ≤ len * c := Nat.mul_le_mul_right _ (by omega)
      omega
    have hl : rle01Tell [Item01.mk1 (t : Int) n x] a = .ok ((t : Int), a) := by
      have han : a < n := by omega
      rw [rle01Tell_locate]; simp [expand, mk1_expand, locate, han]
    simp only [retFrameSetMapAux, hl, mapAppend]
    rw [retFrameSetMapAux_single (t : Int) n x _ hfr [a]]
    simp only [sortByKey, List.foldr, insertByKey, List.singleton_append]
    rw [← rangeList_cons a b c hlt hstep, hbuf]
  -- one record block
  have hrowsInit : ∀ row ∈ List.replicate (len + 1) (List.replicate (sumN ((List.range d.chans.length).map (fun e => ((d.chans[e]?).map Chan.numValues).getD 0))) (none : Option Nat)),
      row.length = sumN (d.chans.map Chan.numValues) := by
    intro row hm
    rw [List.eq_of_mem_replicate hm, List.length_replicate]
    congr 1
    apply List.ext_getElem
    · simp
    · intro i h1 h2; simp at h1; simp [h1]
  obtain ⟨a', b', c', evs, r', hsl, hgen, hex, hfs⟩ := block_exec_all d st t bs k n a c len 0 ⟨0, d.chans.map Chan.size⟩ rfl hk hok hstep
    hfind hhead hbs hlast
    ⟨none, 0, ⟨List.range d.chans.length, len + 1,
          List.replicate (len + 1) (List.replicate (sumN ((List.range d.chans.length).map (fun e => ((d.chans[e]?).map Chan.numValues).getD 0))) none),
          [], none⟩, []⟩ rfl hrowsInit (by simp)
  have hevs : genFrameSetEvents ⟨d, ⟨0, d.chans.map Chan.size⟩, 0, [Item01.mk1 (t : Int) n x], fsOld⟩ ⟨a, b, c0⟩ (List.range d.chans.length)
      = .ok (⟨.seekLr, t, none, none, none⟩ :: renumber (ap a c (len + 1)) 0 evs 0 ++ []) := by
    unfold genFrameSetEvents
    rw [hmap]
    simp only [genFrameSetEventsAux, hsl, hk, hgen, Int.toNat_natCast]
  unfold setFrameSet
  simp only [htot, hn0, if_false, hS, hnew, Nat.succ_ne_zero, hevs, List.append_nil, hex]
  refine ⟨_, rfl, ?_⟩
  simp only [Option.map_some, hfs, Option.some.injEq]
  rw [hbuf, setRows_full]
  simp [ap]

example : ∃ ops, (setFrameSet ⟨dfsrD, ⟨0, dfsrD.chans.map Chan.size⟩, 0, [Item01.mk1 50 3 1000], none⟩
      [(50, [0, 0] ++ frameD 0 ++ frameD 1 ++ frameD 2)] (some ⟨0, 3, 2⟩) none).2 = .ok ops :=
  (setFrameSet_values_allchannels_single_partial dfsrD 2 3 50 1000 ([0, 0] ++ frameD 0 ++ frameD 1 ++ frameD 2)
    [(50, [0, 0] ++ frameD 0 ++ frameD 1 ++ frameD 2)] none (some ⟨0, 3, 2⟩) rfl rfl
    (by intro c hc; simp [dfsrD] at hc; rcases hc with rfl | rfl | rfl <;> decide)
    (by decide) (by decide) (by decide) (by decide) (by decide)).imp (fun _ h => h.1)

/-! ## Sub-selection is a sub-matrix (direct X) — all channels, ANY number of data records

For every direct-X log pass whose data records lie at strictly increasing file positions (any number of records, any
frames-per-record pattern incl. short last and empty records), channel list `None`, every slice inside the frame
count (any step, or `None`) and every earlier frame set: the load succeeds and row `i` of the matrix is `frameRow` of
frame `start + i·step` — the words of all channels read from the record that holds the frame (`locate`, i.e. by
`rle_lookup` what `RLEType01.tellLrForFrame` finds) at the frame's offset.
Remaining gap to `setFrameSet_values`: proper channel subsets — `events_cover` proves which bytes are read; missing is
the labelling of every read event with a contiguous run `(chFrom, chTo)` of the selected channels and the matching
`setFrameBytes` writes (covered by `setFrameSet_values_witness`, the correspondence run and the oracle). -/
theorem setFrameSet_values_allchannels_partial
    (d : Dfsr) (k : Nat) (rle : List Item01) (st : Store) (fsOld : Option FrameSet) (sl : Option Sl)
    (hrm : d.recMode = 0) (hk : d.chans.length = k + 1) (hok : d.sizesOk)
    (hR : IncTells (expand rle))
    (hst : ∀ tn ∈ expand rle, ∃ bs, Store.find st tn.1.toNat = some bs ∧ bs.head? = some d.dataType ∧
      bs.length = 2 + tn.2 * sumN (d.chans.map Chan.size))
    (hlt : (slOrAll sl (rle01Total rle)).start < (slOrAll sl (rle01Total rle)).stop)
    (hstop : (slOrAll sl (rle01Total rle)).stop ≤ rle01Total rle) :
    ∃ ops, (setFrameSet ⟨d, ⟨0, d.chans.map Chan.size⟩, 0, rle, fsOld⟩ st sl none).2 = .ok ops ∧
      (setFrameSet ⟨d, ⟨0, d.chans.map Chan.size⟩, 0, rle, fsOld⟩ st sl none).1.frameSet.map (·.frames)
        = some ((rangeList (slOrAll sl (rle01Total rle)).start (slOrAll sl (rle01Total rle)).stop
                  (slOrAll sl (rle01Total rle)).step1).map (frameRow d st (expand rle))) := by
  generalize hS : slOrAll sl (rle01Total rle) = S at hlt hstop
  obtain ⟨a, b, c0⟩ := S
  simp only at hlt hstop
  have hstep : 0 < (Sl.mk a b c0).step1 := by unfold Sl.step1; split <;> omega
  generalize hc : (Sl.mk a b c0).step1 = c at hstep
  have hn0 : rle01Total rle ≠ 0 := by omega
  -- located frames
  let loc : Nat → Int × Nat := fun f => (locate (expand rle) f).getD (0, 0)
  have hloc : ∀ f, f < b → locate (expand rle) f = some (loc f) := by
    intro f hf
    obtain ⟨r, hr⟩ := locate_lt (expand rle) f (by rw [← expand_total]; omega)
    simp [loc, hr]
  have htell : ∀ f ∈ rangeList a b c, rle01Tell rle f = .ok (loc f) := by
    intro f hf
    rw [rle01Tell_locate, hloc f (mem_rangeList a b c f hf).2]
  obtain ⟨hG, hflat, _⟩ := foldMap_grouped c ((rangeList a b c).map loc) [] ⟨by simp, by simp⟩ (by simp)
    (chain_of_frames (expand rle) hR c hstep loc a b (fun f _ h2 => hloc f h2))
    (by cases (rangeList a b c).map loc with
        | nil => trivial
        | cons q _ => exact Or.inl rfl)
  generalize hGdef : foldMap [] ((rangeList a b c).map loc) = G at hG hflat
  simp only [flat, List.flatMap_nil, List.nil_append] at hflat
  have hflat' : flat G = (rangeList a b c).map loc := hflat
  have hmap : retFrameSetMap ⟨d, ⟨0, d.chans.map Chan.size⟩, 0, rle, fsOld⟩ ⟨a, b, c0⟩ = .ok G := by
    unfold retFrameSetMap
    simp only [hc]
    rw [retFrameSetMapAux_fold rle loc _ htell, hGdef]
    simp only [sortByKey_sorted G hG.1]
  -- every entry is backed by a record of the store
  have hent : ∀ e ∈ G, EntryOk d st c e := by
    intro e he
    obtain ⟨a', len, hbuf⟩ := hG.2 e he
    have hmemflat : (e.1, a' + len * c) ∈ flat G := by
      simp only [flat, List.mem_flatMap, List.mem_map]
      refine ⟨e, he, a' + len * c, ?_, rfl⟩
      rw [hbuf, ap]; simp only [List.mem_map, List.mem_range]; exact ⟨len, by omega, rfl⟩
    rw [hflat'] at hmemflat
    obtain ⟨f, hf, hlf⟩ := List.mem_map.1 hmemflat
    have hlocf := hloc f (mem_rangeList a b c f hf).2
    rw [hlf] at hlocf
    obtain ⟨n, hmem, hlt'⟩ := locate_mem _ _ _ _ hlocf
    obtain ⟨bs, h1, h2, h3⟩ := hst (e.1, n) hmem
    exact ⟨a', len, n, bs, hbuf, h1, h2, h3, hlt'⟩
  -- the new frame set
  have hlenR : rangeLen a b c = (rangeList a b c).length := by simp [rangeList]
  have hany : (List.range d.chans.length).any (fun e => decide (e ≥ d.chans.length)) = false := by
    rw [List.any_eq_false]; intro e he; simp at he; simp; omega
  have hnew : FrameSet.new d ⟨a, b, c0⟩ none 0
      = .ok ⟨List.range d.chans.length, rangeLen a b c,
          List.replicate (rangeLen a b c) (List.replicate (sumN ((List.range d.chans.length).map (fun e => ((d.chans[e]?).map Chan.numValues).getD 0))) none),
          [], none⟩ := by
    unfold FrameSet.new
    simp only [hrm, hany, hc]
    simp
  have hrowsInit : ∀ row ∈ List.replicate (rangeLen a b c) (List.replicate (sumN ((List.range d.chans.length).map (fun e => ((d.chans[e]?).map Chan.numValues).getD 0))) (none : Option Nat)),
      row.length = sumN (d.chans.map Chan.numValues) := by
    intro row hm
    rw [List.eq_of_mem_replicate hm, List.length_replicate]
    congr 1
    apply List.ext_getElem
    · simp
    · intro i h1 h2; simp at h1; simp [h1]
  have hsum : (G.map (·.2.length)).sum = rangeLen a b c := by
    rw [← flat_length, hflat', List.length_map, hlenR]
  obtain ⟨evs, r', hgen, hex, hfs⟩ := entries_exec_all d st k c ⟨0, d.chans.map Chan.size⟩ rfl hk hok hstep G 0
    ⟨none, 0, ⟨List.range d.chans.length, rangeLen a b c,
          List.replicate (rangeLen a b c) (List.replicate (sumN ((List.range d.chans.length).map (fun e => ((d.chans[e]?).map Chan.numValues).getD 0))) none),
          [], none⟩, []⟩ hent rfl hrowsInit (by simp [hsum])
  have hnF : rangeLen a b c ≠ 0 := by
    have := rangeLen_lt a b c hlt hstep; omega
  have hevs : genFrameSetEvents ⟨d, ⟨0, d.chans.map Chan.size⟩, 0, rle, fsOld⟩ ⟨a, b, c0⟩ (List.range d.chans.length) = .ok evs := by
    unfold genFrameSetEvents
    rw [hmap]
    simp only [hk]; exact hgen
  unfold setFrameSet
  simp only [hn0, if_false, hS, hnew, hnF, hevs, hex]
  refine ⟨_, rfl, ?_⟩
  simp only [Option.map_some, hfs, Option.some.injEq]
  rw [setRows_full]
  · rw [flat_rows (fun t off => rowOf d (bytesOf st t.toNat) off), hflat', List.map_map]
    apply List.map_congr_left
    intro f hf
    simp only [Function.comp, frameRow, hloc f (mem_rangeList a b c f hf).2]
  · rw [flat_rows (fun t off => rowOf d (bytesOf st t.toNat) off), hflat']
    simp [hlenR]

example : ∃ ops, (setFrameSet ⟨dfsrD, ⟨0, dfsrD.chans.map Chan.size⟩, 0, lpD.rle, none⟩ storeD (some ⟨1, 5, 2⟩) none).2 = .ok ops :=
  (setFrameSet_values_allchannels_partial dfsrD 2 lpD.rle storeD none (some ⟨1, 5, 2⟩) rfl rfl
    (by intro c hc; simp [dfsrD] at hc; rcases hc with rfl | rfl | rfl <;> decide)
    (by unfold IncTells; decide) (by decide) (by decide) (by decide)).imp (fun _ h => h.1)

/-! ## Every file operation of a load lies inside a data record that holds a requested frame

General: any DFSR (direct or indirect X), any record table, any slice, any channel list. Whenever `setFrameSet`
succeeds, every seek goes to the position of a record in which `RLEType01.tellLrForFrame` locates a requested frame,
and every read is a read of that record at `[ofs, ofs+len)` with `ofs + len ≤` the record's length (header included);
skips do not touch the file. (Physical extents of the records are C05's subject; the oracle of `./check C06` checks the
physical reads of the implementation against the generator's extents.) -/

/-- the record at position `t` holds a frame requested by the slice `sl` -/
def SelectedRecord (lp : LogPass) (sl : Option Sl) (t : Nat) : Prop :=
  ∃ f ∈ rangeList (slOrAll sl (rle01Total lp.rle)).start (slOrAll sl (rle01Total lp.rle)).stop (slOrAll sl (rle01Total lp.rle)).step1,
    ∃ seek off, rle01Tell lp.rle f = .ok (seek, off) ∧ seek.toNat = t

theorem reads_inside_selected_records (lp : LogPass) (st : Store) (sl : Option Sl) (ch : Option (List Nat)) (ops : List Op)
    (h : (setFrameSet lp st sl ch).2 = .ok ops) : ∀ op ∈ ops, OpOk st (SelectedRecord lp sl) op := by
  unfold setFrameSet at h
  simp only at h
  split at h
  · cases h
  · split at h
    · cases h
    · rename_i fs hfs
      split at h
      · cases h; simp
      · split at h
        · cases h
        · rename_i evs hevs
          split at h
          · cases h
          · rename_i r hex
            cases h
            unfold genFrameSetEvents at hevs
            split at hevs
            · cases hevs
            · rename_i m hm
              have hseek : ∀ e ∈ evs, e.ty = .seekLr → SelectedRecord lp sl e.siz := by
                intro e he hty
                obtain ⟨en, hen, hs⟩ := genFrameSetEventsAux_seeks _ _ _ _ _ hevs e he hty
                unfold retFrameSetMap at hm
                split at hm
                · cases hm
                · rename_i m0 hm0
                  cases hm
                  have := retFrameSetMapAux_keys _ _ _ _ hm0 en (sortByKey_mem _ _ hen)
                  rcases this with ⟨e', he', _⟩ | ⟨f, hf, off, ht⟩
                  · simp at he'
                  · exact ⟨f, hf, en.1, off, ht, hs.symm⟩
              have hok := execEvs_ok lp.dfsr st (SelectedRecord lp sl) evs _ r hseek
                ⟨by simp, by intro t bs h; simp at h⟩ hex
              intro op hop
              exact hok.1 op (by simpa using hop)

example : ∀ op ∈ [Op.seek 50, .read 50 0 2, .skip 10, .read 50 12 4, .skip 4, .read 50 20 2, .seek 90, .read 90 0 2,
    .read 90 2 4, .skip 4, .read 90 10 2], OpOk storeD (SelectedRecord lpD (some ⟨1, 5, 2⟩)) op :=
  reads_inside_selected_records lpD storeD (some ⟨1, 5, 2⟩) (some [2]) _ setFrameSet_values_witness.2.2.2

/-! ## Implied X — what is proved in general, and the exact gap

Wanted (`implied_x_partial` / `implied_x_wrong_iff`): for every indirect-X log pass, slice and channel list the implied X
of loaded frame `i` is `x0 + frame·spacing` whenever step = 1, or the pass is one record, or every record's first
selected frame has offset 0; otherwise exactly the F7 rule.

Proved, for every plan with an indirect word, **every channel list** and every slice of one record
(`implied_x_events_partial`): the EXTRAPOLATE events of the record are exactly — one of `start` frames at frame `start`
when `start > 0`, then one of `step` frames at every further selected frame, in order. Together with
`extrapolate_rule_first` / `extrapolate_rule_later` (the interpreter's rule for one such event) this determines the
implied X of a record up to the renumbering of frame numbers: `X[first] = Xrecord + start·spacing` when the record is
the first loaded one (`frInt = 0`), `X[first] = X[previous loaded frame] + start·spacing` otherwise (the F7 rule), and
`X[next] = X[previous] + step·spacing` inside the record; for `start = 0` no extrapolation happens at the first frame
(the record's own X word is used).

Gap: the composition with `renumber` (that the extrapolation at in-record frame `g_j` lands on loaded row `frInt + j`)
and with `execEvs` over all map entries is proved only for direct X (`entries_exec_all`, where there are no
extrapolations); for indirect X it is covered by `implied_x_witness_step1`, `implied_x_f7_witness`, the correspondence
run (implied X vector compared on every load) and the oracle, which evaluates exactly the class predicate
"indirect ∧ record ordinal > 0 ∧ first selected offset > 0" and the rule above on the implementation. -/

theorem implied_x_events_partial (p : Plan) (a b c0 : Nat) (chans : List Nat) (evs : List Ev)
    (hindr : p.indr > 0) (hab : a < b) (hne : sortDedup chans ≠ [])
    (h : genEvents p a b c0 chans = .ok evs) :
    exts evs = (if a > 0 then [(a, some a)] else [])
      ++ (rangeList (a + (if c0 = 0 then 1 else c0)) b (if c0 = 0 then 1 else c0)).map
          (fun g => ((if c0 = 0 then 1 else c0), some g)) := by
  have hstep : 0 < (if c0 = 0 then 1 else c0) := by split <;> omega
  unfold genEvents at h
  simp only at h
  generalize (if c0 = 0 then 1 else c0) = c at hstep h ⊢
  split at h
  · cases h
  · rename_i cs hcs
    have hcs' : cs = sortDedup chans := by
      unfold checkChIdx at hcs
      simp only at hcs
      split at hcs
      · split at hcs
        · cases hcs
        · cases hcs; rfl
      · cases hcs; rfl
    have hlen : cs.length > 0 := by
      rw [hcs']; cases hs : sortDedup chans with
      | nil => exact absurd hs hne
      | cons x xs => simp
    simp only [hlen, hab, and_self, if_true] at h
    have hr := retFrameEvents_noExt p cs
    cases hre : retFrameEvents p cs with
    | mk pre r2 =>
      obtain ⟨fevts, post⟩ := r2
      rw [hre] at hr h
      simp only at hr h
      obtain ⟨hpre, hfev, hpost⟩ := hr
      cases h
      rw [exts_append, frameLoop_exts p fevts post _ b c hstep hfev hpost (merged_noExt p pre post c) _ _ _ hab (Nat.le_refl _)]
      simp only [hindr, if_true]
      congr 1
      cases pre with
      | some pr =>
        have hpr := hpre pr rfl
        simp only [hindr, if_true]
        by_cases ha : a > 0
        · simp [ha, exts, hpr]
        · simp [ha, exts, hpr]
      | none =>
        simp only
        by_cases ha : a > 0
        · simp [ha, hindr, exts]
        · simp [ha, exts]

example : exts ((genEvents ⟨4, [4, 2]⟩ 1 6 2 [1]).toOption.getD []) = [(1, some 1), (2, some 3), (2, some 5)] := by decide

/-! ## `setFrameSet_values` — the full statement for explicit (direct) X

For every direct-X log pass (X channel = channel 0) whose data records lie at strictly increasing file positions — any
number of records, any frames-per-record pattern incl. short last and empty records —, every channel list (`None`, or
any list of existing channels, in any order, with repetitions), every slice inside the frame count (any step, or `None`)
and every earlier frame set:
* the load succeeds,
* the channels of the frame set are `selIdx` = the sorted distinct requested channels plus the X channel,
* row `i` of the matrix is `frameRowSel` of frame `start + i·step`: for each selected channel, in order, the words of
  that channel taken from the bytes of the frame inside the record that holds it (`locate`, i.e. by `rle_lookup` what
  `RLEType01.tellLrForFrame` finds).
Since a row is the concatenation over the *selected* channels of per-channel words that do not depend on the selection
(`chanRow`), the matrix of a sub-selection is the full matrix restricted to rows `range(slice)` and columns
`chans ∪ {x}`. Hypotheses on the store: every record of the table is present with its type byte and a length of header
+ whole frames (what `index_data_record` establishes when the file is indexed); channel sizes are values × word length
(`DatumSpecBlockRead`). Words are raw; numeric decoding is C07. -/

/-- **Sub-selection is a sub-matrix (direct X), in full generality.** -/
theorem setFrameSet_values
    (d : Dfsr) (rle : List Item01) (st : Store) (fsOld : Option FrameSet) (sl : Option Sl) (chList : Option (List Nat))
    (hrm : d.recMode = 0) (hn : 0 < d.chans.length) (hok : d.sizesOk)
    (hcl : ∀ l, chList = some l → ∀ c ∈ l, c < d.chans.length)
    (hR : IncTells (expand rle))
    (hst : ∀ tn ∈ expand rle, ∃ bs, Store.find st tn.1.toNat = some bs ∧ bs.head? = some d.dataType ∧
      bs.length = 2 + tn.2 * sumN (d.chans.map Chan.size))
    (hlt : (slOrAll sl (rle01Total rle)).start < (slOrAll sl (rle01Total rle)).stop)
    (hstop : (slOrAll sl (rle01Total rle)).stop ≤ rle01Total rle) :
    ∃ ops, (setFrameSet ⟨d, ⟨0, d.chans.map Chan.size⟩, 0, rle, fsOld⟩ st sl chList).2 = .ok ops ∧
      (setFrameSet ⟨d, ⟨0, d.chans.map Chan.size⟩, 0, rle, fsOld⟩ st sl chList).1.frameSet.map (·.frames)
        = some ((rangeList (slOrAll sl (rle01Total rle)).start (slOrAll sl (rle01Total rle)).stop
                  (slOrAll sl (rle01Total rle)).step1).map (frameRowSel d st (expand rle) (selIdx d chList))) ∧
      (setFrameSet ⟨d, ⟨0, d.chans.map Chan.size⟩, 0, rle, fsOld⟩ st sl chList).1.frameSet.map (·.chIdx)
        = some (selIdx d chList) := by
  obtain ⟨hsorted, hltc, hne⟩ := selIdx_props d chList hn hcl
  have hnewG := fun S => new_direct d S chList hrm hltc
  generalize hcsdef : selIdx d chList = cs at hsorted hltc hne hnewG ⊢
  cases cs with
  | nil => exact absurd rfl hne
  | cons c0 rest =>
  generalize hS : slOrAll sl (rle01Total rle) = S at hlt hstop
  obtain ⟨a, b, cc0⟩ := S
  simp only at hlt hstop
  have hstep : 0 < (Sl.mk a b cc0).step1 := by unfold Sl.step1; split <;> omega
  have hnew := hnewG ⟨a, b, cc0⟩
  simp only at hnew
  generalize hc : (Sl.mk a b cc0).step1 = c at hstep hnew
  have hn0 : rle01Total rle ≠ 0 := by omega
  let loc : Nat → Int × Nat := fun f => (locate (expand rle) f).getD (0, 0)
  have hloc : ∀ f, f < b → locate (expand rle) f = some (loc f) := by
    intro f hf
    obtain ⟨r, hr⟩ := locate_lt (expand rle) f (by rw [← expand_total]; omega)
    simp [loc, hr]
  have htell : ∀ f ∈ rangeList a b c, rle01Tell rle f = .ok (loc f) := by
    intro f hf
    rw [rle01Tell_locate, hloc f (mem_rangeList a b c f hf).2]
  obtain ⟨hG, hflat, _⟩ := foldMap_grouped c ((rangeList a b c).map loc) [] ⟨by simp, by simp⟩ (by simp)
    (chain_of_frames (expand rle) hR c hstep loc a b (fun f _ h2 => hloc f h2))
    (by cases (rangeList a b c).map loc with
        | nil => trivial
        | cons q _ => exact Or.inl rfl)
  generalize hGdef : foldMap [] ((rangeList a b c).map loc) = G at hG hflat
  simp only [flat, List.flatMap_nil, List.nil_append] at hflat
  have hflat' : flat G = (rangeList a b c).map loc := hflat
  have hmap : retFrameSetMap ⟨d, ⟨0, d.chans.map Chan.size⟩, 0, rle, fsOld⟩ ⟨a, b, cc0⟩ = .ok G := by
    unfold retFrameSetMap
    simp only [hc]
    rw [retFrameSetMapAux_fold rle loc _ htell, hGdef]
    simp only [sortByKey_sorted G hG.1]
  have hent : ∀ e ∈ G, EntryOk d st c e := by
    intro e he
    obtain ⟨a', len, hbuf⟩ := hG.2 e he
    have hmemflat : (e.1, a' + len * c) ∈ flat G := by
      simp only [flat, List.mem_flatMap, List.mem_map]
      refine ⟨e, he, a' + len * c, ?_, rfl⟩
      rw [hbuf, ap]; simp only [List.mem_map, List.mem_range]; exact ⟨len, by omega, rfl⟩
    rw [hflat'] at hmemflat
    obtain ⟨f, hf, hlf⟩ := List.mem_map.1 hmemflat
    have hlocf := hloc f (mem_rangeList a b c f hf).2
    rw [hlf] at hlocf
    obtain ⟨n, hmem, hlt'⟩ := locate_mem _ _ _ _ hlocf
    obtain ⟨bs, h1, h2, h3⟩ := hst (e.1, n) hmem
    exact ⟨a', len, n, bs, hbuf, h1, h2, h3, hlt'⟩
  have hlenR : rangeLen a b c = (rangeList a b c).length := by simp [rangeList]
  have hrowsInit : ∀ row ∈ List.replicate (rangeLen a b c) (List.replicate (sumN ((selChans d (c0 :: rest)).map Chan.numValues)) (none : Option Nat)),
      row.length = sumN ((selChans d (c0 :: rest)).map Chan.numValues) := by
    intro row hm; rw [List.eq_of_mem_replicate hm, List.length_replicate]
  have hsum : (G.map (·.2.length)).sum = rangeLen a b c := by
    rw [← flat_length, hflat', List.length_map, hlenR]
  obtain ⟨evs, r', hgen, hex, hfs⟩ := entries_exec_sel d st c ⟨0, d.chans.map Chan.size⟩ c0 rest rfl hok hstep hltc hsorted G 0
    ⟨none, 0, ⟨c0 :: rest, rangeLen a b c,
          List.replicate (rangeLen a b c) (List.replicate (sumN ((selChans d (c0 :: rest)).map Chan.numValues)) none),
          [], none⟩, []⟩ hent rfl hrowsInit (by simp [hsum])
  have hnF : rangeLen a b c ≠ 0 := by
    have := rangeLen_lt a b c hlt hstep; omega
  have hevs : genFrameSetEvents ⟨d, ⟨0, d.chans.map Chan.size⟩, 0, rle, fsOld⟩ ⟨a, b, cc0⟩ (c0 :: rest) = .ok evs := by
    unfold genFrameSetEvents
    rw [hmap]; exact hgen
  unfold setFrameSet
  simp only [hn0, if_false, hS, hnew, hnF, hevs, hex]
  refine ⟨_, rfl, ?_, ?_⟩
  · simp only [Option.map_some, hfs, Option.some.injEq]
    rw [setRows_full]
    · rw [flat_rows (fun t off => rowOfSel d ⟨0, d.chans.map Chan.size⟩ (c0 :: rest) (bytesOf st t.toNat) off), hflat', List.map_map]
      apply List.map_congr_left
      intro f hf
      simp only [Function.comp, frameRowSel, hloc f (mem_rangeList a b c f hf).2]
    · rw [flat_rows (fun t off => rowOfSel d ⟨0, d.chans.map Chan.size⟩ (c0 :: rest) (bytesOf st t.toNat) off), hflat']
      simp [hlenR]
  · simp only [Option.map_some, hfs]

example : ∃ ops, (setFrameSet ⟨dfsrD, ⟨0, dfsrD.chans.map Chan.size⟩, 0, lpD.rle, none⟩ storeD (some ⟨1, 5, 2⟩) (some [2, 2])).2 = .ok ops :=
  (setFrameSet_values dfsrD lpD.rle storeD none (some ⟨1, 5, 2⟩) (some [2, 2]) rfl (by decide)
    (by intro c hc; simp [dfsrD] at hc; rcases hc with rfl | rfl | rfl <;> decide)
    (by intro l hl c hc; cases hl; simp at hc; subst hc; decide)
    (by unfold IncTells; decide) (by decide) (by decide) (by decide)).imp (fun _ h => h.1)

/-- the restriction property behind "sub-matrix": the row of a selection is the concatenation of per-channel pieces that
do not depend on the selection -/
theorem rowSel_is_restriction (d : Dfsr) (p : Plan) (cs : List Nat) (frame : List Nat) :
    rowSel d p cs frame = cs.flatMap (fun c => rowSel d p [c] frame) := by
  simp [rowSel]

/-! ## Implied X — the exact value rule, in general

For every indirect-X log pass (recording mode 1, X word of `w > 0` bytes in an integer-decodable code, frame spacing
units = depth units) with data records at strictly increasing positions, every slice inside the frame count (any step),
every non-empty channel selection and every earlier frame set: the load succeeds and the implied X vector is
`allXs spacing xrec step groups none`, where `groups` is the grouping of the requested frames by record and, record
after record (`entryXs` / `entryBase`):
* the first loaded frame of a record whose first selected offset `a` is 0 gets the record's own X word;
* with `a > 0` it gets `X word + a·spacing` in the first loaded record, but `X of the previously loaded frame +
  a·spacing` in every later record — the defect F7;
* every further frame of the record gets `step·spacing` more than the one before.
`spacing` is `-|s|` for an up log and `|s|` otherwise. This is the wrong-value rule of the oracle, now a theorem. -/

theorem implied_x_rule
    (d : Dfsr) (w : Nat) (s : Int) (rle : List Item01) (st : Store) (fsOld : Option FrameSet) (sl : Option Sl)
    (chList : Option (List Nat))
    (hi : IndCtx d ⟨w, d.chans.map Chan.size⟩ w) (hu : d.spacingUnits = d.depthUnits) (hs : d.spacing = some s)
    (hcl : ∀ c ∈ selIdxI d chList, c < d.chans.length) (hne : selIdxI d chList ≠ [])
    (hR : IncTells (expand rle))
    (hst : ∀ tn ∈ expand rle, ∃ bs x, Store.find st tn.1.toNat = some bs ∧ bs.head? = some d.dataType ∧
      bs.length = 2 + w + tn.2 * sumN (d.chans.map Chan.size) ∧ xDecode d.depthRc (beWord ((bs.drop 2).take w)) = .ok x)
    (hlt : (slOrAll sl (rle01Total rle)).start < (slOrAll sl (rle01Total rle)).stop)
    (hstop : (slOrAll sl (rle01Total rle)).stop ≤ rle01Total rle) :
    ∃ ops, (setFrameSet ⟨d, ⟨w, d.chans.map Chan.size⟩, 0, rle, fsOld⟩ st sl chList).2 = .ok ops ∧
      (setFrameSet ⟨d, ⟨w, d.chans.map Chan.size⟩, 0, rle, fsOld⟩ st sl chList).1.frameSet.map (·.xvec)
        = some ((allXs (spacingOf d s) (xrecOf d st w) (slOrAll sl (rle01Total rle)).step1
            (groupsOf (expand rle) (slOrAll sl (rle01Total rle)).start (slOrAll sl (rle01Total rle)).stop
              (slOrAll sl (rle01Total rle)).step1) none).map some) := by
  have hsorted : (selIdxI d chList).Pairwise (· < ·) := by
    cases chList with
    | none => exact List.pairwise_lt_range
    | some l => exact sortDedup_sorted _
  have hnewG := fun S => new_indirect d S chList s hi.hrm hu hs hcl
  generalize hcsdef : selIdxI d chList = cs at hsorted hcl hne hnewG
  cases cs with
  | nil => exact absurd rfl hne
  | cons c0 rest =>
  generalize hS : slOrAll sl (rle01Total rle) = S at hlt hstop
  obtain ⟨a, b, cc0⟩ := S
  simp only at hlt hstop
  have hstep : 0 < (Sl.mk a b cc0).step1 := by unfold Sl.step1; split <;> omega
  have hnew := hnewG ⟨a, b, cc0⟩
  simp only at hnew
  generalize hc : (Sl.mk a b cc0).step1 = c at hstep hnew
  have hn0 : rle01Total rle ≠ 0 := by omega
  let loc : Nat → Int × Nat := fun f => (locate (expand rle) f).getD (0, 0)
  have hloc : ∀ f, f < b → locate (expand rle) f = some (loc f) := by
    intro f hf
    obtain ⟨r, hr⟩ := locate_lt (expand rle) f (by rw [← expand_total]; omega)
    simp [loc, hr]
  have htell : ∀ f ∈ rangeList a b c, rle01Tell rle f = .ok (loc f) := by
    intro f hf
    rw [rle01Tell_locate, hloc f (mem_rangeList a b c f hf).2]
  obtain ⟨hG, hflat, _⟩ := foldMap_grouped c ((rangeList a b c).map loc) [] ⟨by simp, by simp⟩ (by simp)
    (chain_of_frames (expand rle) hR c hstep loc a b (fun f _ h2 => hloc f h2))
    (by cases (rangeList a b c).map loc with
        | nil => trivial
        | cons q _ => exact Or.inl rfl)
  have hGeq : groupsOf (expand rle) a b c = foldMap [] ((rangeList a b c).map loc) := rfl
  rw [hGeq]
  generalize hGdef : foldMap [] ((rangeList a b c).map loc) = G at hG hflat
  simp only [flat, List.flatMap_nil, List.nil_append] at hflat
  have hflat' : flat G = (rangeList a b c).map loc := hflat
  have hmap : retFrameSetMap ⟨d, ⟨w, d.chans.map Chan.size⟩, 0, rle, fsOld⟩ ⟨a, b, cc0⟩ = .ok G := by
    unfold retFrameSetMap
    simp only [hc]
    rw [retFrameSetMapAux_fold rle loc _ htell, hGdef]
    simp only [sortByKey_sorted G hG.1]
  have hfsz : (⟨w, d.chans.map Chan.size⟩ : Plan).frameSize = sumN (d.chans.map Chan.size) := rfl
  have hent : ∀ e ∈ G, EntryOkX d ⟨w, d.chans.map Chan.size⟩ w st c e := by
    intro e he
    obtain ⟨a', len, hbuf⟩ := hG.2 e he
    have hmemflat : (e.1, a' + len * c) ∈ flat G := by
      simp only [flat, List.mem_flatMap, List.mem_map]
      refine ⟨e, he, a' + len * c, ?_, rfl⟩
      rw [hbuf, ap]; simp only [List.mem_map, List.mem_range]; exact ⟨len, by omega, rfl⟩
    rw [hflat'] at hmemflat
    obtain ⟨f, hf, hlf⟩ := List.mem_map.1 hmemflat
    have hlocf := hloc f (mem_rangeList a b c f hf).2
    rw [hlf] at hlocf
    obtain ⟨n, hmem, hlt'⟩ := locate_mem _ _ _ _ hlocf
    obtain ⟨bs, x, h1, h2, h3, h4⟩ := hst (e.1, n) hmem
    exact ⟨a', len, n, bs, x, hbuf, h1, h2, by rw [hfsz]; exact h3, h4, hlt'⟩
  have hlenR : rangeLen a b c = (rangeList a b c).length := by simp [rangeList]
  have hsum : (G.map (·.2.length)).sum = rangeLen a b c := by
    rw [← flat_length, hflat', List.length_map, hlenR]
  obtain ⟨evs, r', hgen, hex, _, _, hxv⟩ := entries_exec_ind d st c ⟨w, d.chans.map Chan.size⟩ w (spacingOf d s) c0 rest hi hstep hcl hsorted G 0
    ⟨none, 0, ⟨c0 :: rest, rangeLen a b c,
          List.replicate (rangeLen a b c) (List.replicate (sumN ((selChans d (c0 :: rest)).map Chan.numValues)) none),
          List.replicate (rangeLen a b c) none, some (spacingOf d s)⟩, []⟩ none hent rfl
    (by intro row hm; rw [List.eq_of_mem_replicate hm, List.length_replicate]) (by simp [hsum]) (by simp) rfl (Or.inl ⟨rfl, rfl⟩)
  have hnF : rangeLen a b c ≠ 0 := by
    have := rangeLen_lt a b c hlt hstep; omega
  have hevs : genFrameSetEvents ⟨d, ⟨w, d.chans.map Chan.size⟩, 0, rle, fsOld⟩ ⟨a, b, cc0⟩ (c0 :: rest) = .ok evs := by
    unfold genFrameSetEvents
    rw [hmap]; exact hgen
  unfold setFrameSet
  simp only [hn0, if_false, hS, hnew, hnF, hevs, hex]
  refine ⟨_, rfl, ?_⟩
  simp only [Option.map_some, hxv, Option.some.injEq]
  apply setVals_full
  rw [allXs_length _ _ _ _ _ (by intro e he; obtain ⟨a', len, hb⟩ := hG.2 e he; rw [hb]; simp [ap]), hsum]

/-- **Implied X is right in the good class**: if every record but the first loaded one is entered at offset 0 — which
is the case for step 1, for a log pass held in one record, and generally exactly when the selection is outside the F7
class — and the X words of the records are consistent with a common origin (`xrec + offset·spacing = x0 +
frame·spacing` for the located frames), the implied X of every loaded frame `f` is `x0 + f·spacing`. -/
theorem implied_x_partial
    (d : Dfsr) (w : Nat) (s : Int) (rle : List Item01) (st : Store) (fsOld : Option FrameSet) (sl : Option Sl)
    (chList : Option (List Nat))
    (hi : IndCtx d ⟨w, d.chans.map Chan.size⟩ w) (hu : d.spacingUnits = d.depthUnits) (hs : d.spacing = some s)
    (hcl : ∀ c ∈ selIdxI d chList, c < d.chans.length) (hne : selIdxI d chList ≠ [])
    (hR : IncTells (expand rle))
    (hst : ∀ tn ∈ expand rle, ∃ bs x, Store.find st tn.1.toNat = some bs ∧ bs.head? = some d.dataType ∧
      bs.length = 2 + w + tn.2 * sumN (d.chans.map Chan.size) ∧ xDecode d.depthRc (beWord ((bs.drop 2).take w)) = .ok x)
    (hlt : (slOrAll sl (rle01Total rle)).start < (slOrAll sl (rle01Total rle)).stop)
    (hstop : (slOrAll sl (rle01Total rle)).stop ≤ rle01Total rle)
    (hclass : ∀ e ∈ (groupsOf (expand rle) (slOrAll sl (rle01Total rle)).start (slOrAll sl (rle01Total rle)).stop
        (slOrAll sl (rle01Total rle)).step1).tail, e.2.headD 0 = 0)
    (x0 : Int)
    (hcons : ∀ f t off, locate (expand rle) f = some (t, off) →
      xrecOf d st w t + (off : Int) * spacingOf d s = x0 + (f : Int) * spacingOf d s) :
    (setFrameSet ⟨d, ⟨w, d.chans.map Chan.size⟩, 0, rle, fsOld⟩ st sl chList).1.frameSet.map (·.xvec)
      = some ((rangeList (slOrAll sl (rle01Total rle)).start (slOrAll sl (rle01Total rle)).stop
          (slOrAll sl (rle01Total rle)).step1).map (fun (f : Nat) => some (x0 + (f : Int) * spacingOf d s))) := by
  obtain ⟨ops, _, hx⟩ := implied_x_rule d w s rle st fsOld sl chList hi hu hs hcl hne hR hst hlt hstop
  rw [hx]
  have hstep : 0 < (slOrAll sl (rle01Total rle)).step1 := by unfold Sl.step1; split <;> omega
  obtain ⟨hG, hflat, _⟩ := groupsOf_spec (expand rle) hR (slOrAll sl (rle01Total rle)).start (slOrAll sl (rle01Total rle)).stop
    (slOrAll sl (rle01Total rle)).step1 hstep (by rw [← expand_total]; exact hstop)
  rw [allXs_good _ _ _ _ none hG.2 (Or.inl ⟨rfl, hclass⟩), hflat]
  simp only [List.map_map, Option.some.injEq]
  apply List.map_congr_left
  intro f hf
  simp only [Function.comp, Option.some.injEq]
  have hfb := (mem_rangeList _ _ _ f hf).2
  obtain ⟨r, hr⟩ := locate_lt (expand rle) f (by rw [← expand_total]; omega)
  rw [hr]
  exact hcons f r.1 r.2 hr

/-- **`implied_x_wrong_iff` — the F7 class as a theorem.** With a non-zero spacing and X words of the records that are
consistent with a common origin `x0`, the implied X of a loaded frame differs from `x0 + frame·spacing` **exactly** for
the frames of the records, other than the first loaded one, that are entered at an offset > 0 (`badList`): the list of
"X is wrong" flags of the loaded frames equals `badList groups true`. (Errors never cancel: each such record adds
`(a - step)·spacing` with `0 < a < step` to the error carried over from the previous loaded frame, and a record entered
at offset 0 resets it.) -/
theorem implied_x_wrong_iff
    (d : Dfsr) (w : Nat) (s : Int) (rle : List Item01) (st : Store) (fsOld : Option FrameSet) (sl : Option Sl)
    (chList : Option (List Nat))
    (hi : IndCtx d ⟨w, d.chans.map Chan.size⟩ w) (hu : d.spacingUnits = d.depthUnits) (hs : d.spacing = some s)
    (hcl : ∀ c ∈ selIdxI d chList, c < d.chans.length) (hne : selIdxI d chList ≠ [])
    (hR : IncTells (expand rle))
    (hst : ∀ tn ∈ expand rle, ∃ bs x, Store.find st tn.1.toNat = some bs ∧ bs.head? = some d.dataType ∧
      bs.length = 2 + w + tn.2 * sumN (d.chans.map Chan.size) ∧ xDecode d.depthRc (beWord ((bs.drop 2).take w)) = .ok x)
    (hlt : (slOrAll sl (rle01Total rle)).start < (slOrAll sl (rle01Total rle)).stop)
    (hstop : (slOrAll sl (rle01Total rle)).stop ≤ rle01Total rle)
    (hsp : spacingOf d s ≠ 0) (x0 : Int)
    (hcons : ∀ f t off, locate (expand rle) f = some (t, off) →
      xrecOf d st w t + (off : Int) * spacingOf d s = x0 + (f : Int) * spacingOf d s) :
    ∃ xs, (setFrameSet ⟨d, ⟨w, d.chans.map Chan.size⟩, 0, rle, fsOld⟩ st sl chList).1.frameSet.map (·.xvec)
        = some (xs.map some) ∧
      List.zipWith (fun x (f : Nat) => decide (x ≠ x0 + (f : Int) * spacingOf d s)) xs
          (rangeList (slOrAll sl (rle01Total rle)).start (slOrAll sl (rle01Total rle)).stop (slOrAll sl (rle01Total rle)).step1)
        = badList (groupsOf (expand rle) (slOrAll sl (rle01Total rle)).start (slOrAll sl (rle01Total rle)).stop
            (slOrAll sl (rle01Total rle)).step1) true := by
  obtain ⟨ops, _, hx⟩ := implied_x_rule d w s rle st fsOld sl chList hi hu hs hcl hne hR hst hlt hstop
  refine ⟨_, hx, ?_⟩
  generalize hS : slOrAll sl (rle01Total rle) = S at hlt hstop ⊢
  obtain ⟨a, b, cc0⟩ := S
  simp only at hlt hstop ⊢
  have hstep : 0 < (Sl.mk a b cc0).step1 := by unfold Sl.step1; split <;> omega
  generalize (Sl.mk a b cc0).step1 = c at hstep ⊢
  obtain ⟨hG, hflat, htl⟩ := groupsOf_spec (expand rle) hR a b c hstep (by rw [← expand_total]; exact hstop)
  have hloc : ∀ f, f < b → ∃ q, locate (expand rle) f = some q ∧ (locate (expand rle) f).getD (0, 0) = q := by
    intro f hf
    obtain ⟨r, hr⟩ := locate_lt (expand rle) f (by rw [← expand_total]; omega)
    exact ⟨r, hr, by simp [hr]⟩
  have htx : ∀ f, f < b → tx (spacingOf d s) (xrecOf d st w) ((locate (expand rle) f).getD (0, 0)) = x0 + (f : Int) * spacingOf d s := by
    intro f hf
    obtain ⟨q, hq, hq'⟩ := hloc f hf
    rw [hq']; exact hcons f q.1 q.2 hq
  have hgetf : ∀ i f, (rangeList a b c)[i]? = some f → f = a + i * c ∧ f < b := by
    intro i f h
    have hm := mem_rangeList a b c f (List.mem_of_getElem? h)
    refine ⟨?_, hm.2⟩
    simp only [rangeList, List.getElem?_map] at h
    cases hr : (List.range (rangeLen a b c))[i]? with
    | none => rw [hr] at h; simp at h
    | some j =>
      rw [hr] at h
      simp only [Option.map_some, Option.some.injEq] at h
      have : j = i := by
        have hl : i < (List.range (rangeLen a b c)).length := by
          rcases Nat.lt_or_ge i (List.range (rangeLen a b c)).length with h' | h'
          · exact h'
          · rw [List.getElem?_eq_none h'] at hr; cases hr
        rw [List.getElem?_eq_getElem hl, List.getElem_range] at hr
        exact (Option.some.inj hr).symm
      subst this; exact h.symm
  have hstepx : StepX (spacingOf d s) (xrecOf d st w) c (flat (groupsOf (expand rle) a b c)) := by
    intro i q q' h1 h2
    rw [hflat, List.getElem?_map] at h1 h2
    cases hf1 : (rangeList a b c)[i]? with
    | none => rw [hf1] at h1; simp at h1
    | some f1 =>
      cases hf2 : (rangeList a b c)[i + 1]? with
      | none => rw [hf2] at h2; simp at h2
      | some f2 =>
        rw [hf1] at h1; rw [hf2] at h2
        simp only [Option.map_some, Option.some.injEq] at h1 h2
        obtain ⟨e1, l1⟩ := hgetf i f1 hf1
        obtain ⟨e2, l2⟩ := hgetf (i + 1) f2 hf2
        rw [← h1, ← h2, htx f1 l1, htx f2 l2, e1, e2]
        push_cast; ring
  have hdev := allXs_dev (spacingOf d s) (xrecOf d st w) c hsp (groupsOf (expand rle) a b c) none true 0 0 hG.2
    (by simpa using htl) (Or.inl ⟨rfl, rfl⟩) hstepx
  rw [← hdev, hflat, List.zipWith_map_right]
  apply List.ext_getElem
  · simp
  · intro i h1 h2
    simp only [List.getElem_zipWith]
    have hi' : i < (rangeList a b c).length := by simp at h1; omega
    have := htx ((rangeList a b c)[i]) (mem_rangeList a b c _ (List.getElem_mem hi')).2
    rw [this]

/-- the F7 witness: 3 records × 5 frames, `slice(0,16,2)`: wrong exactly at the two frames loaded from the second record -/
example : badList (groupsOf (expand lpW.rle) 0 16 2) true = [false, false, false, true, true, false, false, false] := by
  decide

/-- **Step 1 is always right**: with step 1 (or `None`) every later record is entered at offset 0. -/
theorem implied_x_step1
    (d : Dfsr) (w : Nat) (s : Int) (rle : List Item01) (st : Store) (fsOld : Option FrameSet) (sl : Option Sl)
    (chList : Option (List Nat))
    (hi : IndCtx d ⟨w, d.chans.map Chan.size⟩ w) (hu : d.spacingUnits = d.depthUnits) (hs : d.spacing = some s)
    (hcl : ∀ c ∈ selIdxI d chList, c < d.chans.length) (hne : selIdxI d chList ≠ [])
    (hR : IncTells (expand rle))
    (hst : ∀ tn ∈ expand rle, ∃ bs x, Store.find st tn.1.toNat = some bs ∧ bs.head? = some d.dataType ∧
      bs.length = 2 + w + tn.2 * sumN (d.chans.map Chan.size) ∧ xDecode d.depthRc (beWord ((bs.drop 2).take w)) = .ok x)
    (hlt : (slOrAll sl (rle01Total rle)).start < (slOrAll sl (rle01Total rle)).stop)
    (hstop : (slOrAll sl (rle01Total rle)).stop ≤ rle01Total rle)
    (hstep1 : (slOrAll sl (rle01Total rle)).step1 = 1) (x0 : Int)
    (hcons : ∀ f t off, locate (expand rle) f = some (t, off) →
      xrecOf d st w t + (off : Int) * spacingOf d s = x0 + (f : Int) * spacingOf d s) :
    (setFrameSet ⟨d, ⟨w, d.chans.map Chan.size⟩, 0, rle, fsOld⟩ st sl chList).1.frameSet.map (·.xvec)
      = some ((rangeList (slOrAll sl (rle01Total rle)).start (slOrAll sl (rle01Total rle)).stop
          (slOrAll sl (rle01Total rle)).step1).map (fun (f : Nat) => some (x0 + (f : Int) * spacingOf d s))) := by
  apply implied_x_partial d w s rle st fsOld sl chList hi hu hs hcl hne hR hst hlt hstop _ x0 hcons
  obtain ⟨_, _, htl⟩ := groupsOf_spec (expand rle) hR (slOrAll sl (rle01Total rle)).start (slOrAll sl (rle01Total rle)).stop
    (slOrAll sl (rle01Total rle)).step1 (by rw [hstep1]; omega) (by rw [← expand_total]; exact hstop)
  intro e he
  have := htl e he
  rw [hstep1] at this
  omega

/-- **One data record is always right**: a log pass held in one record has a single group. -/
theorem implied_x_single_record
    (d : Dfsr) (w : Nat) (s : Int) (rle : List Item01) (st : Store) (fsOld : Option FrameSet) (sl : Option Sl)
    (chList : Option (List Nat)) (t : Int) (n : Nat) (hone : expand rle = [(t, n)])
    (hi : IndCtx d ⟨w, d.chans.map Chan.size⟩ w) (hu : d.spacingUnits = d.depthUnits) (hs : d.spacing = some s)
    (hcl : ∀ c ∈ selIdxI d chList, c < d.chans.length) (hne : selIdxI d chList ≠ [])
    (hst : ∀ tn ∈ expand rle, ∃ bs x, Store.find st tn.1.toNat = some bs ∧ bs.head? = some d.dataType ∧
      bs.length = 2 + w + tn.2 * sumN (d.chans.map Chan.size) ∧ xDecode d.depthRc (beWord ((bs.drop 2).take w)) = .ok x)
    (hlt : (slOrAll sl (rle01Total rle)).start < (slOrAll sl (rle01Total rle)).stop)
    (hstop : (slOrAll sl (rle01Total rle)).stop ≤ rle01Total rle) :
    (setFrameSet ⟨d, ⟨w, d.chans.map Chan.size⟩, 0, rle, fsOld⟩ st sl chList).1.frameSet.map (·.xvec)
      = some ((rangeList (slOrAll sl (rle01Total rle)).start (slOrAll sl (rle01Total rle)).stop
          (slOrAll sl (rle01Total rle)).step1).map
            (fun (f : Nat) => some (xrecOf d st w t + (f : Int) * spacingOf d s))) := by
  have hR : IncTells (expand rle) := by rw [hone]; simp [IncTells]
  have hstep : 0 < (slOrAll sl (rle01Total rle)).step1 := by unfold Sl.step1; split <;> omega
  obtain ⟨hG, hflat, _⟩ := groupsOf_spec (expand rle) hR (slOrAll sl (rle01Total rle)).start (slOrAll sl (rle01Total rle)).stop
    (slOrAll sl (rle01Total rle)).step1 hstep (by rw [← expand_total]; exact hstop)
  apply implied_x_partial d w s rle st fsOld sl chList hi hu hs hcl hne hR hst hlt hstop _ (xrecOf d st w t)
  · intro f t' off h
    rw [hone] at h
    simp only [locate] at h
    split at h
    · simp only [Option.some.injEq, Prod.mk.injEq] at h; obtain ⟨rfl, rfl⟩ := h; rfl
    · simp [locate] at h
  · -- all keys are `t`, keys are strictly increasing: at most one group
    have hkeys : ∀ e ∈ groupsOf (expand rle) (slOrAll sl (rle01Total rle)).start (slOrAll sl (rle01Total rle)).stop
        (slOrAll sl (rle01Total rle)).step1, e.1 = t := by
      intro e he
      obtain ⟨a', len, hb⟩ := hG.2 e he
      have hm : (e.1, a') ∈ flat (groupsOf (expand rle) (slOrAll sl (rle01Total rle)).start (slOrAll sl (rle01Total rle)).stop
          (slOrAll sl (rle01Total rle)).step1) := by
        simp only [flat, List.mem_flatMap, List.mem_map]
        exact ⟨e, he, a', by rw [hb]; simp [ap]; exact ⟨0, by omega, by simp⟩, rfl⟩
      rw [hflat] at hm
      obtain ⟨f, hf, hl⟩ := List.mem_map.1 hm
      have hfb := (mem_rangeList _ _ _ f hf).2
      have hfn : f < n := by
        have : rle01Total rle = n := by rw [expand_total, hone]; simp
        omega
      rw [hone] at hl
      simp [locate, hfn] at hl
      exact hl.1.symm
    cases hg : groupsOf (expand rle) (slOrAll sl (rle01Total rle)).start (slOrAll sl (rle01Total rle)).stop
        (slOrAll sl (rle01Total rle)).step1 with
    | nil => simp
    | cons x xs =>
      cases xs with
      | nil => simp
      | cons y ys =>
        exfalso
        have hpw := hG.1
        rw [hg] at hpw hkeys
        simp only [List.map_cons, List.pairwise_cons] at hpw
        have h1 := hkeys x (by simp)
        have h2 := hkeys y (by simp)
        have := hpw.1 y.1 (by simp)
        omega

end TD.C06
