import TD.C06.Lemmas

/-!
# C06 — LIS log pass frame sets are exact; any sub-selection is a sub-matrix

Property theorems only.  The model (`TD.C06.Model`) transcribes Type01Plan / Rle / LogPass / FrameSet / FileIndexer of
TotalDepth; it is tied to the Python source by the correspondence run of `./check C06`.
-/
namespace TD.C06

/-! ## File index -/

/-- **Index lists all**: when indexing succeeds, the index holds — in file order — exactly one entry for every logical
record whose type the dispatch table knows (every header, trailer, table, DFSR and marker record), at the record's
position, with its type, its kind and, for tables, the value of the first component block as name.  Type 0/1 records
never produce an entry.  (`specEntries` looks at each record on its own: no state.) -/
theorem index_lists_all (recs : List (Nat × List Nat)) (es : List Entry) (h : fileIndex recs = .ok es) :
    es.map Entry.proj = specEntries recs := by
  unfold fileIndex at h
  split at h
  · cases h
  · rename_i s hs
    cases h
    simpa using indexFile_proj recs ⟨[], none, none⟩ s hs

example : (fileIndex [(0, [128, 0] ++ List.replicate 56 65),
      (62, [34, 0, 73, 65, 4, 0, 84, 89, 80, 69, 32, 32, 32, 32, 67, 79, 78, 83]), (80, [0, 0, 1, 2]), (90, [200, 0])]).toOption.map
        (·.map Entry.proj) = some [(0, 128, .fileHead, none), (62, 34, .table, some (.bytes [67, 79, 78, 83]))] := by
  decide +kernel

/-- **Index, data record**: a type 0/1 record accepted for a log pass has a length of the indirect word plus a whole
number `n` of frames, and is appended as `(position, n)` to the record list that the run-length table stands for. -/
theorem index_data_record (lp lp' : LogPass) (tell t : Nat) (payload : List Nat)
    (h : indexAddData lp tell t payload = .ok lp') :
    ∃ n, payload.length = lp.plan.indr + n * lp.plan.frameSize ∧ 0 < lp.plan.frameSize ∧
      expand lp'.rle = expand lp.rle ++ [((tell : Int), n)] ∧
      rle01Total lp'.rle = rle01Total lp.rle + n := by
  obtain ⟨x, hx⟩ := indexAddData_ok lp lp' tell t payload h
  obtain ⟨n, hn, hr⟩ := addType01Data_ok lp lp' tell t payload.length x hx
  obtain ⟨hlen, hfs⟩ := numFrames_ok lp.plan payload.length n hn
  exact ⟨n, hlen, hfs, by simp [hr, rle01Add_expand], by simp [hr, expand_total, rle01Add_expand]⟩

/-- **RLE lookup** (restated from `Lemmas`): for a table whose records all hold at least one frame,
`RLEType01.tellLrForFrame(f)` returns the position of the record holding frame `f` and the frame's offset in it —
`locate` on the plain record list — and raises `IndexError` exactly when `f` is beyond the last frame. -/
theorem rle_lookup (l : List Item01) (hpos : ∀ it ∈ l, 0 < it.numFrames) (f : Nat) :
    rle01Tell l f = (match locate (expand l) f with | some r => .ok r | none => .error .indexError) :=
  rle01Tell_locate l hpos f

example : rle01Tell (rle01Add (rle01Add (rle01Add [] 100 5 0) 200 5 0) 300 3 0) 11 = .ok (300, 1) := by decide

/-- A record with zero frames breaks the lookup of every later frame (`ZeroDivisionError`, finding F22). -/
theorem rle_lookup_zero_frames_fails :
    rle01Tell (rle01Add (rle01Add (rle01Add [] 100 5 0) 200 0 0) 300 5 0) 5 = .error .zeroDiv := by decide

/-! ## Loads do not depend on earlier loads -/

/-- **History independence**: the outcome of `setFrameSet` (file operations or exception) and the frame set it leaves
do not depend on the frame set left by earlier loads — only on the DFSR, the record table and on whether an earlier
load died inside the `FrameSet` constructor (`fsDeleted`, finding F20). -/
theorem setFrameSet_history_independent (lp lp' : LogPass) (st : Store) (sl : Option Sl) (ch : Option (List Nat))
    (h1 : lp.dfsr = lp'.dfsr) (h2 : lp.plan = lp'.plan) (h3 : lp.xAxisIndex = lp'.xAxisIndex) (h4 : lp.rle = lp'.rle)
    (h5 : lp.fsDeleted = lp'.fsDeleted) :
    (setFrameSet lp st sl ch).2 = (setFrameSet lp' st sl ch).2 ∧
    (∀ ops, (setFrameSet lp st sl ch).2 = .ok ops → (setFrameSet lp st sl ch).1.frameSet = (setFrameSet lp' st sl ch).1.frameSet) := by
  obtain ⟨d, p, x, r, f, dl⟩ := lp
  obtain ⟨d', p', x', r', f', dl'⟩ := lp'
  simp only at h1 h2 h3 h4 h5
  subst h1 h2 h3 h4 h5
  unfold setFrameSet genFrameSetEvents retFrameSetMap
  simp only
  split
  · exact ⟨rfl, fun _ h => by cases h⟩
  · split
    · exact ⟨rfl, fun _ h => by cases h⟩
    · split
      · exact ⟨rfl, fun _ _ => rfl⟩
      · split
        · exact ⟨rfl, fun _ _ => rfl⟩
        · split
          · exact ⟨rfl, fun _ _ => rfl⟩
          · split <;> exact ⟨rfl, fun _ _ => rfl⟩

/-- The one way history matters (finding F20): once `FrameSet(...)` has raised after `del self._frameSet`, every later
load raises `AttributeError`. -/
theorem setFrameSet_after_failed_ctor (lp : LogPass) (st st' : Store) (sl sl' : Option Sl) (ch ch' : Option (List Nat))
    (e : Err) (hT : rle01Total lp.rle ≠ 0) (hD : lp.fsDeleted = false)
    (hF : FrameSet.new lp.dfsr (slOrAll sl (rle01Total lp.rle)) ch lp.xAxisIndex = .error e) :
    (setFrameSet (setFrameSet lp st sl ch).1 st' sl' ch').2 = .error .attributeError := by
  have h1 : (setFrameSet lp st sl ch).1 = { lp with frameSet := none, fsDeleted := true } := by
    unfold setFrameSet
    simp only [hT, if_false, hD, Bool.false_eq_true]
    rw [hF]
  rw [h1]
  unfold setFrameSet
  simp [hT]

/-! ## Implied X axis -/

/-- the implied X value of frame `f`: `x0 + f·spacing` -/
def xSpec (x0 sp : Int) (frames : List Nat) : List (Option Int) := frames.map (fun (f : Nat) => some (x0 + (f : Int) * sp))

/-- the F7 witness: indirect X (rep code 73), up log (spacing −60), one 1-byte channel, 3 records × 5 frames -/
def dfsrW : Dfsr := ⟨0, 1, 73, 1, some 60, some [46, 49, 73, 78], some [46, 49, 73, 78], [⟨1, 1, 66⟩]⟩

def recW (x v : Nat) : List Nat :=
  [0, 0] ++ [x / 16777216 % 256, x / 65536 % 256, x / 256 % 256, x % 256] ++ [v, v + 1, v + 2, v + 3, v + 4]

def storeW : Store := [(100, recW 120000 0), (200, recW 119700 5), (300, recW 119400 10)]

def lpW : LogPass :=
  match LogPass.new dfsrW 0 with
  | .ok lp =>
    (match lp.addType01Data 100 0 9 120000 with
     | .ok a => (match a.addType01Data 200 0 9 119700 with
       | .ok b => (match b.addType01Data 300 0 9 119400 with | .ok c => c | .error _ => b)
       | .error _ => a)
     | .error _ => lp)
  | .error _ => ⟨dfsrW, ⟨0, []⟩, 0, [], none, false⟩

/-- On the witness the full load is right: every implied X is `x0 + f·spacing`, and the matrix holds the recorded bytes. -/
theorem implied_x_witness_step1 :
    (setFrameSet lpW storeW none none).1.frameSet.map (·.xvec) = some (xSpec 120000 (-60) (rangeList 0 15 1)) ∧
    (setFrameSet lpW storeW none none).1.frameSet.map (·.frames) = some ((List.range 15).map (fun v => [some v])) := by
  constructor <;> decide +kernel

/-- **F7 (known finding)**: the statement "the implied X of every loaded frame is `x0 + f·spacing`" is *false* on the
current code: `slice(0,16,2)` over 3 records × 5 frames gives 119700, 119580 for frames 6 and 8 (true 119640, 119520),
while the matrix itself is right. -/
theorem implied_x_f7_witness :
    (setFrameSet lpW storeW (some ⟨0, 16, 2⟩) none).1.frameSet.map (·.xvec)
      = some [some 120000, some 119880, some 119760, some 119700, some 119580, some 119400, some 119280, some 119160] ∧
    (setFrameSet lpW storeW (some ⟨0, 16, 2⟩) none).1.frameSet.map (·.xvec)
      ≠ some (xSpec 120000 (-60) (rangeList 0 16 2)) ∧
    (setFrameSet lpW storeW (some ⟨0, 16, 2⟩) none).1.frameSet.map (·.frames)
      = some ((rangeList 0 16 2).map (fun v => [some v])) := by
  refine ⟨by decide +kernel, by decide +kernel, by decide +kernel⟩

end TD.C06
