import TD.C20.Model

/-! Helper lemmas for C20 (core Lean only). -/
namespace TD.C20
open TD.C20.Gen

def isMagic : TestKind → Bool
  | .magic .. => true
  | .magicAny .. => true
  | _ => false

/-- first bytes of the magic-number signatures of the generated table -/
def notMagicFirst (c : Nat) : Prop := c ≠ 4 ∧ c ≠ 208 ∧ c ≠ 1 ∧ c ≠ 60 ∧ c ≠ 37 ∧ c ≠ 80 ∧ c ≠ 73 ∧ c ≠ 255

theorem identify_skip_magic (lisT : Bytes → LisRes) (datP : Bytes → Bool) (c : Nat) (r : Bytes) (h : notMagicFirst c) :
    identify lisT datP (c :: r) = firstMatch lisT datP (c :: r) (tests.filter (fun t => !isMagic t.2.1)) := by
  obtain ⟨h1, h2, h3, h4, h5, h6, h7, h8⟩ := h
  simp [identify, tests, firstMatch, runTest, isMagic, h1, h2, h3, h4, h5, h6, h7, h8]


/-! ### the LAS scanner on a file whose first non-blank byte is not `~` -/

theorem splitNl_ne_nil (b : Bytes) : splitNl b ≠ [] := by
  induction b with
  | nil => simp [splitNl]
  | cons c r ih =>
    unfold splitNl
    split
    · simp
    · split <;> simp

theorem stripEnd_cons_of_not_ws (c : Nat) (t : Bytes) (h : isWs c = false) :
    ∃ u, stripEnd (c :: t) = c :: u := by
  unfold stripEnd
  split
  · exact ⟨[], by simp [h]⟩
  · exact ⟨_, rfl⟩

theorem lasLine_cons_ws (x : Nat) (l : Bytes) (h : isWs x = true) : lasLine (x :: l) = lasLine l := by
  have hx : x ≠ 35 := by
    intro e; subst e; simp [isWs] at h
  have hb : (fun x => x != 35) x = true := by simpa using hx
  simp only [lasLine, strip]
  rw [List.takeWhile_cons_of_pos (p := fun x => x != 35) (a := x) hb, List.dropWhile_cons_of_pos h]

theorem lasLine_cons_not_ws (x : Nat) (l : Bytes) (h : isWs x = false) (hx : x ≠ 35) :
    ∃ u, lasLine (x :: l) = x :: u := by
  simp only [lasLine, strip]
  have hb : (fun x => x != 35) x = true := by simpa using hx
  rw [List.takeWhile_cons_of_pos (p := fun x => x != 35) (a := x) hb, List.dropWhile_cons_of_neg (by simp [h])]
  exact stripEnd_cons_of_not_ws x _ h

/-- the first processed line starts with the first non-blank byte of the file -/
theorem lasLines_head (b : Bytes) (c : Nat) (r : Bytes) (h : b.dropWhile isWs = c :: r) (hc : c ≠ 35) :
    ∃ u ls, lasLines b = (c :: u) :: ls := by
  induction b with
  | nil => simp at h
  | cons x t ih =>
    by_cases hx : isWs x = true
    · have ht : t.dropWhile isWs = c :: r := by simpa [List.dropWhile, hx] using h
      obtain ⟨u, ls, hls⟩ := ih ht
      by_cases hnl : x = 10
      · subst hnl
        refine ⟨u, ls, ?_⟩
        have : splitNl (10 :: t) = [] :: splitNl t := by simp [splitNl]
        simp only [lasLines, this, List.map_cons, List.filter_cons]
        simpa [lasLine, strip, stripEnd, lasLines] using hls
      · refine ⟨u, ls, ?_⟩
        have hne := splitNl_ne_nil t
        cases hsp : splitNl t with
        | nil => exact absurd hsp hne
        | cons l ls' =>
          have : splitNl (x :: t) = (x :: l) :: ls' := by
            simp [splitNl, hnl, hsp]
          simp only [lasLines, this, List.map_cons, lasLine_cons_ws x l hx]
          simpa [lasLines, hsp] using hls
    · have hx' : isWs x = false := by simpa using hx
      have hcx : x = c ∧ t = r := by simpa [List.dropWhile, hx'] using h
      obtain ⟨rfl, rfl⟩ := hcx
      have hnl : x ≠ 10 := by
        intro e; subst e; simp [isWs] at hx'
      have hne := splitNl_ne_nil t
      cases hsp : splitNl t with
      | nil => exact absurd hsp hne
      | cons l ls' =>
        have : splitNl (x :: t) = (x :: l) :: ls' := by
          simp [splitNl, hnl, hsp]
        obtain ⟨u, hu⟩ := lasLine_cons_not_ws x l hx' hc
        refine ⟨u, (ls'.map lasLine).filter (fun l => !l.isEmpty), ?_⟩
        simp [lasLines, this, hu]

theorem las_fail (pfx b : Bytes) (c : Nat) (r : Bytes) (h : b.dropWhile isWs = c :: r) (hc : c ≠ 35) (hc' : c ≠ 126) :
    lasTest pfx b = "" := by
  obtain ⟨u, ls, hls⟩ := lasLines_head b c r h hc
  unfold lasTest
  rw [hls]
  cases ls with
  | nil => rfl
  | cons l1 ls' =>
    have : ((c :: u).take 2 != [126, 86]) = true := by
      cases u <;> simp [hc']
    simp only []
    rw [if_pos this]


/-! ### bytes at fixed offsets -/

theorem byteAt_take (b : Bytes) (n i : Nat) (h : i < n) : byteAt (b.take n) i = byteAt b i := by
  simp [byteAt, List.getD_eq_getElem?_getD, List.getElem?_take, h]

theorem byteAt_drop (b : Bytes) (n i : Nat) : byteAt (b.drop n) i = byteAt b (n + i) := by
  simp [byteAt, List.getD_eq_getElem?_getD, List.getElem?_drop]

theorem slice_head (x : Bytes) (lo hi v : Nat) (h : (slice x lo hi).head? = some v) : byteAt x lo = v := by
  unfold slice at h
  have h2 : (x.drop lo).head? = some v := by
    cases hd : x.drop lo with
    | nil => simp [hd] at h
    | cons a t =>
      rw [hd] at h
      cases hn : hi - lo with
      | zero => simp [hn] at h
      | succ n => simpa [hn] using h
  simp [List.head?_drop] at h2
  simp [byteAt, List.getD_eq_getElem?_getD, h2]

theorem verCore_head (s : Bytes) (h : verCore s = true) : s.head? = some 86 := by
  unfold verCore at h
  split at h
  · rfl
  · simp at h

theorem dollar_ver_head (s : Bytes) (h : dollar verCore s = true) : s.head? = some 86 := by
  unfold dollar at h
  simp only [Bool.or_eq_true] at h
  rcases h with h | h
  · exact verCore_head s h
  · split at h
    · have := verCore_head _ h
      cases s with
      | nil => simp at this
      | cons a t =>
        cases t with
        | nil => simp at this
        | cons b u => simpa using this
    · simp at h

theorem rp66v1Bytes_fail_ver (x : Bytes) (h : byteAt x 4 ≠ 86) : rp66v1Bytes x = "" := by
  unfold rp66v1Bytes
  have hv : shapeMatch reV1_c2 (slice x 4 9) = false := by
    cases hm : shapeMatch reV1_c2 (slice x 4 9) with
    | false => rfl
    | true =>
      exfalso; apply h
      have : dollar verCore (slice x 4 9) = true := by simpa [reV1_c2, shapeMatch] using hm
      exact slice_head x 4 9 86 (dollar_ver_head _ this)
  simp [hv]

theorem rp66v1Test_fail (b : Bytes) (h : byteAt b 4 ≠ 86) : rp66v1Bytes (b.take 80) = "" :=
  rp66v1Bytes_fail_ver _ (by rw [byteAt_take b 80 4 (by omega)]; exact h)

theorem rp66v1TifGeneral_fail (hd : Bytes) (n : Nat) (h : byteAt hd 16 ≠ 86) : rp66v1TifGeneral hd n = "" := by
  unfold rp66v1TifGeneral
  have : rp66v1Bytes (hd.drop 12) = "" := rp66v1Bytes_fail_ver _ (by rw [byteAt_drop]; exact h)
  simp [this]

theorem rp66v1Tif_fail (b : Bytes) (h : byteAt b 16 ≠ 86) : rp66v1TifTest b = "" := by
  unfold rp66v1TifTest
  by_cases hl : (List.take rp66v1LenWithTif b).length < rp66v1LenWithTif
  · simp only [hl, if_true]
  · simp only [hl, if_false]
    exact rp66v1TifGeneral_fail _ _ (by rw [byteAt_take b rp66v1LenWithTif 16 (by decide)]; exact h)

theorem rp66v1TifR_fail (b : Bytes) (h : byteAt b 16 ≠ 86) : rp66v1TifRTest b = "" := by
  unfold rp66v1TifRTest
  by_cases hl : (List.take rp66v1LenWithTif b).length < rp66v1LenWithTif
  · simp only [hl, if_true]
  · simp only [hl, if_false]
    exact rp66v1TifGeneral_fail _ _ (by rw [byteAt_take b rp66v1LenWithTif 16 (by decide)]; exact h)

theorem rp66v2_fail (b : Bytes) (h : byteAt b 4 ≠ 86) : rp66v2Test b = "" := by
  unfold rp66v2Test
  have hv : shapeMatch reV2_c2 (slice (b.take 128) 4 9) = false := by
    cases hm : shapeMatch reV2_c2 (slice (b.take 128) 4 9) with
    | false => rfl
    | true =>
      exfalso; apply h
      have : dollar verCore (slice (b.take 128) 4 9) = true := by simpa [reV2_c2, shapeMatch] using hm
      have := slice_head _ 4 9 86 (dollar_ver_head _ this)
      rwa [byteAt_take b 128 4 (by omega)] at this
  simp [hv]

/-! ### BIT -/

theorem bit_fail (b : Bytes) (h : tifThirdWord b ≠ 288) : bitTest 12 288 276 b = "" := by
  unfold bitTest
  have : tifThirdWord (b.take 12) = tifThirdWord b := by
    simp [tifThirdWord, le32, be32, byteAt_take]
  simp [this, h]

/-- bytes 8..11 spell 288 as a 32-bit word in one of the two byte orders -/
def word288 (b : Bytes) : Prop :=
  (byteAt b 8 = 32 ∧ byteAt b 9 = 1 ∧ byteAt b 10 = 0 ∧ byteAt b 11 = 0) ∨
  (byteAt b 8 = 0 ∧ byteAt b 9 = 0 ∧ byteAt b 10 = 1 ∧ byteAt b 11 = 32)

instance (b : Bytes) : Decidable (word288 b) := by unfold word288; exact inferInstance

theorem byteAt_lt (b : Bytes) (hb : ∀ x ∈ b, x < 256) (i : Nat) : byteAt b i < 256 := by
  unfold byteAt
  rw [List.getD_eq_getElem?_getD]
  cases h : b[i]? with
  | none => simp
  | some v => simpa using hb v (List.mem_of_getElem? h)

theorem thirdWord_ne (b : Bytes) (hb : ∀ x ∈ b, x < 256) (h : ¬ word288 b) : tifThirdWord b ≠ 288 := by
  have h8 := byteAt_lt b hb 8
  have h9 := byteAt_lt b hb 9
  have h10 := byteAt_lt b hb 10
  have h11 := byteAt_lt b hb 11
  unfold word288 at h
  unfold tifThirdWord le32 be32
  simp only [show 8 + 1 = 9 from rfl, show 8 + 2 = 10 from rfl, show 8 + 3 = 11 from rfl]
  split <;> omega

/-! ### SEG-Y, LISVER, ASCII, DAT gate on a file that starts with NUL / has a high byte -/

theorem segy_fail_zero (r : Bytes) : segyTest (0 :: r) = "" := by
  unfold segyTest
  have hm : segyNumCards * segyCardWidth = 3199 + 1 := by decide
  rw [hm]
  have h0 : (ebcdicDecode 0).isSome = false := by decide
  have : ((0 :: r).take (3199 + 1)).all (fun c => (ebcdicDecode c).isSome) = false := by
    rw [List.take_succ_cons]; simp [h0]
  simp only [this, Bool.not_false, if_true, ite_self]

theorem lisVer_fail (sigs : List Bytes) (extra : Nat) (ret : String) (c : Nat) (r : Bytes)
    (hws : isWs c = false) (hs : ∀ sig ∈ sigs, sig.head? ≠ some c ∧ sig ≠ []) :
    lisVerTest sigs extra ret (c :: r) = "" := by
  unfold lisVerTest
  have : sigs.any (fun sig => (((c :: r).take (sig.length + extra)).dropWhile isWs).take sig.length == sig) = false := by
    rw [List.any_eq_false]
    intro sig hsig
    obtain ⟨h1, h2⟩ := hs sig hsig
    cases sig with
    | nil => exact absurd rfl h2
    | cons s t =>
      have hcs : c ≠ s := by
        intro e; apply h1; simp [e]
      have : (c :: r).take ((s :: t).length + extra) = c :: r.take (t.length + extra) := by
        simp [List.length_cons, Nat.add_right_comm, List.take_succ_cons]
      rw [this, List.dropWhile_cons_of_neg (by simp [hws])]
      simp [hcs]
  simp [this]

theorem high_byte_not_ascii (b : Bytes) (n : Nat) (h : ∃ x ∈ b.take n, 128 ≤ x) :
    (b.take n).all (fun c => decide (c < 128)) = false ∧ b.all (fun c => decide (c < 128)) = false := by
  obtain ⟨x, hx, hx128⟩ := h
  constructor
  · rw [List.all_eq_false]; exact ⟨x, hx, by simp; omega⟩
  · rw [List.all_eq_false]; exact ⟨x, List.mem_of_mem_take hx, by simp; omega⟩


/-! ### the conformant storage unit label -/

theorem slice_append_prefix (a x : Bytes) : slice (a ++ x) 0 a.length = a := by
  simp [slice]

theorem slice_append_skip (a x : Bytes) (lo hi : Nat) : slice (a ++ x) (a.length + lo) (a.length + hi) = slice x lo hi := by
  have : (a ++ x).drop (a.length + lo) = x.drop lo := by
    rw [← List.drop_drop, List.drop_left]
  simp [slice, this, Nat.add_sub_add_left]

theorem dollar_of (p : Bytes → Bool) (s : Bytes) (h : p s = true) : dollar p s = true := by
  simp [dollar, h]

theorem padNumCore_spec (pad : Bytes) (d : Nat) (ds : Bytes) (hp : ∀ c ∈ pad, c = 32 ∨ c = 48)
    (hd : 49 ≤ d ∧ d ≤ 57) (hds : ∀ c ∈ ds, 48 ≤ c ∧ c ≤ 57) : padNumCore (pad ++ d :: ds) = true := by
  induction pad with
  | nil =>
    have h1 : ((d == 48) || (d == 32)) = false := by simp; omega
    simp only [padNumCore, List.nil_append, List.dropWhile, h1]
    simp only [isDigit19, Bool.and_eq_true, decide_eq_true_eq, List.all_eq_true, isDigit]
    exact ⟨hd, hds⟩
  | cons x pad ih =>
    have hx : ((x == 48) || (x == 32)) = true := by
      rcases hp x (by simp) with h | h <;> simp [h]
    have := ih (fun c hc => hp c (by simp [hc]))
    simpa [padNumCore, List.dropWhile, hx] using this

theorem dropWhile_pad (pad : Bytes) (d : Nat) (t : Bytes) (hp : ∀ c ∈ pad, c = 32 ∨ c = 48) (hd : 49 ≤ d ∧ d ≤ 57) :
    ∃ c r, (pad ++ d :: t).dropWhile isWs = c :: r ∧ 48 ≤ c ∧ c ≤ 57 := by
  induction pad with
  | nil =>
    refine ⟨d, t, ?_, by omega, by omega⟩
    have : isWs d = false := by simp [isWs]; omega
    simp [List.dropWhile, this]
  | cons x pad ih =>
    rcases hp x (by simp) with h | h
    · subst h
      obtain ⟨c, r, h1, h2⟩ := ih (fun c hc => hp c (by simp [hc]))
      exact ⟨c, r, by simpa [List.dropWhile, isWs] using h1, h2⟩
    · subst h
      exact ⟨48, pad ++ d :: t, by simp [List.dropWhile, isWs], by omega, by omega⟩

theorem printable_range : ∀ c, c < 127 → ((9 ≤ c ∧ c ≤ 13) ∨ (32 ≤ c ∧ c ≤ 126)) → asciiPrintable.contains c = true := by
  decide


/-! ### text files -/

theorem identify_skip_magic4 (lisT : Bytes → LisRes) (datP : Bytes → Bool) (c0 c1 c2 c3 : Nat) (r : Bytes)
    (h : c0 ≠ 4 ∧ c0 ≠ 208 ∧ c0 ≠ 1 ∧ c0 ≠ 60 ∧ c0 ≠ 37 ∧ c0 ≠ 255) (h3 : c3 ≠ 4 ∧ c3 ≠ 0) :
    identify lisT datP (c0 :: c1 :: c2 :: c3 :: r) =
      firstMatch lisT datP (c0 :: c1 :: c2 :: c3 :: r) (tests.filter (fun t => !isMagic t.2.1)) := by
  obtain ⟨h1, h2, h3', h4, h5, h6⟩ := h
  obtain ⟨h7, h8⟩ := h3
  simp [identify, tests, firstMatch, runTest, isMagic, h1, h2, h3', h4, h5, h6, h7, h8]

theorem byteAt_mem (b : Bytes) (i : Nat) (h : i < b.length) : byteAt b i ∈ b := by
  simp [byteAt, List.getD_eq_getElem?_getD, List.getElem?_eq_getElem h]

theorem rp66v1TifGeneral_fail_next (hd : Bytes) (n : Nat) (h : n ≠ 92) : rp66v1TifGeneral hd n = "" := by
  unfold rp66v1TifGeneral
  have : (n != rp66v1LenWithTif) = true := by simp [rp66v1LenWithTif, h]
  rw [if_pos this]

theorem rp66v1Tif_fail_next (b : Bytes) (h : byteAt b 8 + 2 * byteAt b 9 + 4 * byteAt b 10 + 8 * byteAt b 11 ≠ 92) :
    rp66v1TifTest b = "" := by
  unfold rp66v1TifTest
  by_cases hl : (List.take rp66v1LenWithTif b).length < rp66v1LenWithTif
  · simp only [hl, if_true]
  · simp only [hl, if_false]
    apply rp66v1TifGeneral_fail_next
    rw [byteAt_take b _ 8 (by decide), byteAt_take b _ 9 (by decide), byteAt_take b _ 10 (by decide), byteAt_take b _ 11 (by decide)]
    exact h

theorem rp66v1TifR_fail_next (b : Bytes) (h : ((byteAt b 8 * 2 + byteAt b 9) * 4 + byteAt b 10) * 8 + byteAt b 11 ≠ 92) :
    rp66v1TifRTest b = "" := by
  unfold rp66v1TifRTest
  by_cases hl : (List.take rp66v1LenWithTif b).length < rp66v1LenWithTif
  · simp only [hl, if_true]
  · simp only [hl, if_false]
    apply rp66v1TifGeneral_fail_next
    rw [byteAt_take b _ 8 (by decide), byteAt_take b _ 9 (by decide), byteAt_take b _ 10 (by decide), byteAt_take b _ 11 (by decide)]
    exact h


/-! ### printable text of any length -/

/-- printable ASCII text (`string.printable`) -/
def Printable (b : Bytes) : Prop := ∀ x ∈ b, (9 ≤ x ∧ x ≤ 13) ∨ (32 ≤ x ∧ x ≤ 126)

/-- no magic-number test claims a printable text that does not start with `<` or `%` (whatever its length) -/
theorem identify_skip_magic_pr (lisT : Bytes → LisRes) (datP : Bytes → Bool) (b : Bytes) (hp : Printable b)
    (h60 : b.head? ≠ some 60) (h37 : b.head? ≠ some 37) :
    identify lisT datP b = firstMatch lisT datP b (tests.filter (fun t => !isMagic t.2.1)) := by
  rcases b with _ | ⟨c0, _ | ⟨c1, _ | ⟨c2, _ | ⟨c3, r⟩⟩⟩⟩
  · simp [identify, tests, firstMatch, runTest, isMagic]
  all_goals
    have h0 := hp c0 (by simp)
    have a1 : c0 ≠ 60 := by simpa using h60
    have a2 : c0 ≠ 37 := by simpa using h37
    have a3 : c0 ≠ 4 := by omega
    have a4 : c0 ≠ 208 := by omega
    have a5 : c0 ≠ 1 := by omega
    have a6 : c0 ≠ 255 := by omega
  · simp [identify, tests, firstMatch, runTest, isMagic, a1, a2, a3, a4, a5, a6]
  · simp [identify, tests, firstMatch, runTest, isMagic, a1, a2, a3, a4, a5, a6]
  · simp [identify, tests, firstMatch, runTest, isMagic, a1, a2, a3, a4, a5, a6]
  · have h3 := hp c3 (by simp)
    have b1 : c3 ≠ 4 := by omega
    have b2 : c3 ≠ 0 := by omega
    simp [identify, tests, firstMatch, runTest, isMagic, a1, a2, a3, a4, a5, a6, b1, b2]

theorem printable_byteAt (b : Bytes) (hp : Printable b) (i : Nat) (h : i < b.length) : 9 ≤ byteAt b i ∧ byteAt b i ≤ 126 := by
  have := hp _ (byteAt_mem b i h)
  omega

theorem bit_fail_printable (b : Bytes) (hp : Printable b) : bitTest 12 288 276 b = "" := by
  by_cases hl : b.length < 12
  · unfold bitTest; rw [if_pos hl]
  · have hbytes : ∀ x ∈ b, x < 256 := fun x hx => by have := hp x hx; omega
    have h8 := printable_byteAt b hp 8 (by omega)
    have h9 := printable_byteAt b hp 9 (by omega)
    exact bit_fail b (thirdWord_ne b hbytes (by unfold word288; omega))

theorem rp66v1Tif_fail_printable (b : Bytes) (hp : Printable b) : rp66v1TifTest b = "" := by
  by_cases hl : b.length < 12
  · unfold rp66v1TifTest
    have : (List.take rp66v1LenWithTif b).length < rp66v1LenWithTif := by
      simp only [List.length_take, rp66v1LenWithTif]; omega
    simp only [this, if_true]
  · have h8 := printable_byteAt b hp 8 (by omega)
    have h9 := printable_byteAt b hp 9 (by omega)
    have h10 := printable_byteAt b hp 10 (by omega)
    have h11 := printable_byteAt b hp 11 (by omega)
    exact rp66v1Tif_fail_next b (by omega)

theorem rp66v1TifR_fail_printable (b : Bytes) (hp : Printable b) : rp66v1TifRTest b = "" := by
  by_cases hl : b.length < 12
  · unfold rp66v1TifRTest
    have : (List.take rp66v1LenWithTif b).length < rp66v1LenWithTif := by
      simp only [List.length_take, rp66v1LenWithTif]; omega
    simp only [this, if_true]
  · have h8 := printable_byteAt b hp 8 (by omega)
    have h9 := printable_byteAt b hp 9 (by omega)
    have h10 := printable_byteAt b hp 10 (by omega)
    have h11 := printable_byteAt b hp 11 (by omega)
    exact rp66v1TifR_fail_next b (by omega)


/-! ### weaker forms used for encoded LIS files -/

theorem thirdWord_ne' (b : Bytes) (hb : ∀ i, 8 ≤ i → i < 12 → byteAt b i < 256) (h : ¬ word288 b) : tifThirdWord b ≠ 288 := by
  have h8 := hb 8 (by omega) (by omega)
  have h9 := hb 9 (by omega) (by omega)
  have h10 := hb 10 (by omega) (by omega)
  have h11 := hb 11 (by omega) (by omega)
  unfold word288 at h
  unfold tifThirdWord le32 be32
  simp only [show 8 + 1 = 9 from rfl, show 8 + 2 = 10 from rfl, show 8 + 3 = 11 from rfl]
  split <;> omega

theorem high_byteAt_not_ascii (b : Bytes) (i : Nat) (hi : i < 256) (h : 128 ≤ byteAt b i) :
    (b.take 256).all (fun c => decide (c < 128)) = false ∧ b.all (fun c => decide (c < 128)) = false := by
  have hlen : i < b.length := by
    by_cases hc : i < b.length
    · exact hc
    · exfalso
      have : byteAt b i = 0 := by
        simp [byteAt, List.getD_eq_getElem?_getD, List.getElem?_eq_none (by omega : b.length ≤ i)]
      omega
  apply high_byte_not_ascii b 256
  refine ⟨byteAt b i, ?_, h⟩
  have e : byteAt b i = (b.take 256)[i]'(by simp [List.length_take]; omega) := by
    simp [byteAt, List.getD_eq_getElem?_getD, List.getElem?_eq_getElem hlen, List.getElem_take]
  rw [e]
  exact List.getElem_mem _

end TD.C20
