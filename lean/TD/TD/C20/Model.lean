/-
C20 — model of `TotalDepth/util/bin_file_type.py` (file type identification), core Lean only.

A file is its byte string `Bytes = List Nat`.  Every function of `FUNCTION_ID_MAP` is a total function
`Bytes → String` ("" = no match), transcribed branch for branch from the Python source; the *table* of functions, the
literal signatures, the constants and the shapes of the RP66 regular expressions come from the generated file
`TD/Gen/C20Signatures.lean` (re-generated from the source on every run).

Two tests go through deep parsers and are NOT modelled; they are parameters of `identify`:
  * `lisT : Bytes → LisRes`   — `_lis`: best physical-record pad settings, then a non-empty index, then the TIF flags;
  * `datP : Bytes → Bool`     — `DAT_parser.can_parse_file` on the ASCII-decoded text (the ASCII gate of `_dat`,
                                `fobj.read().decode('ascii')`, IS modelled).
-/
import TD.Gen.C20Signatures

namespace TD.C20
open TD.C20.Gen

abbrev Bytes := List Nat

/-- result of the `_lis` deep test -/
inductive LisRes where
  | none | lis | list | listr
  deriving Repr, DecidableEq

def LisRes.code : LisRes → String
  | .none => ""
  | .lis => "LIS"
  | .list => "LISt"
  | .listr => "LIStr"

/-! ### character classes -/

/-- `bytes.strip()` / `\s` of a bytes pattern: space, \t, \n, \r, \x0b, \x0c -/
def isWs (c : Nat) : Bool := c == 32 || c == 9 || c == 10 || c == 13 || c == 11 || c == 12
def isDigit (c : Nat) : Bool := decide (48 ≤ c) && decide (c ≤ 57)
def isDigit19 (c : Nat) : Bool := decide (49 ≤ c) && decide (c ≤ 57)
def isUpper (c : Nat) : Bool := decide (65 ≤ c) && decide (c ≤ 90)
def isDigDot (c : Nat) : Bool := isDigit c || c == 46

/-- `by[a:b]` -/
def slice (b : Bytes) (lo hi : Nat) : Bytes := (b.drop lo).take (hi - lo)

/-! ### RP66 field patterns -/

/-- Python `$`: at the end, or just before a final newline. -/
def dollar (p : Bytes → Bool) (s : Bytes) : Bool :=
  p s || (match s.getLast? with
          | some 10 => p s.dropLast
          | _ => false)

def padNumCore (s : Bytes) : Bool :=
  match s.dropWhile (fun c => c == 48 || c == 32) with
  | [] => false
  | c :: t => isDigit19 c && t.all isDigit

def padNumNoZeroCore (s : Bytes) : Bool :=
  let r := s.dropWhile (fun c => c == 48 || c == 32)
  !r.isEmpty && r.all isDigit19

def verCore (s : Bytes) : Bool :=
  match s with
  | [86, 49, c, d1, d2] => c != 10 && isDigit d1 && isDigit d2
  | _ => false

def v2c4Core (s : Bytes) : Bool :=
  match s with
  | 66 :: r => !(r.takeWhile isDigit19).isEmpty && (r.dropWhile isDigit19).all (· == 32)
  | _ => false

def v2c5Core (s : Bytes) : Bool :=
  let r := s.dropWhile (· == 32)
  !r.isEmpty && r.all isDigit19

def v2c6Core (s : Bytes) : Bool := (s.dropWhile (· == 32)).all isDigit19

def v2dateCore (s : Bytes) : Bool :=
  match s with
  | [a, b, 45, m1, m2, m3, 45, y1, y2, y3, y4] =>
    isDigit a && isDigit b && isUpper m1 && isUpper m2 && isUpper m3 && isDigit y1 && isDigit y2 && isDigit y3 && isDigit y4
  | _ => false

/-- `RE_COMPILED[..][..].match(field)` for a pattern of the given shape. -/
def shapeMatch : Shape → Bytes → Bool
  | .padNum, s => dollar padNumCore s
  | .padNumNoZero, s => dollar padNumNoZeroCore s
  | .ver, s => dollar verCore s
  | .lit bs, s => dollar (· == bs) s
  | .v2c4, s => dollar v2c4Core s
  | .v2c5, s => dollar v2c5Core s
  | .v2c6, s => dollar v2c6Core s
  | .v2date, s => dollar v2dateCore s
  | .unknown, _ => false

/-! ### TIF words -/

def byteAt (b : Bytes) (i : Nat) : Nat := b.getD i 0
def le32 (b : Bytes) (o : Nat) : Nat := byteAt b o + 256 * byteAt b (o + 1) + 65536 * byteAt b (o + 2) + 16777216 * byteAt b (o + 3)
def be32 (b : Bytes) (o : Nat) : Nat := byteAt b (o + 3) + 256 * byteAt b (o + 2) + 65536 * byteAt b (o + 1) + 16777216 * byteAt b o

/-- what `_tif_initial` returns: `0`, `''`, `'TIF'` or `'TIFr'` -/
inductive TifInit where
  | zero | empty | tif | tifr
  deriving Repr, DecidableEq

/-- `_tif_initial(by)` (callers guarantee `len(by) >= 12`) -/
def tifInitial (b : Bytes) : TifInit :=
  if slice b 0 4 != [0, 0, 0, 0] then .zero
  else if slice b 4 8 != [0, 0, 0, 0] then .empty
  else if le32 b 8 > 0xffff then .tifr else .tif

/-- `_tif_third_word(by)` -/
def tifThirdWord (b : Bytes) : Nat := if le32 b 8 > 0xffff then be32 b 8 else le32 b 8

/-! ### the tests -/

/-- `_bit` — NB `_tif_initial(byt) == ''` is false for the return value `0`, so a file whose first word is not zero
goes on to the third-word test (as coded). -/
def bitTest (tifLen third block : Nat) (b : Bytes) : String :=
  if b.length < tifLen then ""
  else if tifInitial (b.take tifLen) = .empty then ""
  else if tifThirdWord (b.take tifLen) != third then ""
  else if ((b.drop tifLen).take block).length != block then ""
  else "BIT"

/-- split at `\n` (the terminator is dropped: it is stripped anyway) -/
def splitNl : Bytes → List Bytes
  | [] => [[]]
  | c :: r =>
    if c == 10 then [] :: splitNl r
    else match splitNl r with
      | [] => [[c]]
      | l :: ls => (c :: l) :: ls

/-- `bytes.rstrip()` -/
def stripEnd : Bytes → Bytes
  | [] => []
  | c :: t =>
    match stripEnd t with
    | [] => if isWs c then [] else [c]
    | r => c :: r

/-- `bytes.strip()` -/
def strip (l : Bytes) : Bytes := stripEnd (l.dropWhile isWs)

/-- one line of the `_las` loop: cut at `#`, strip -/
def lasLine (l : Bytes) : Bytes := strip (l.takeWhile (· != 35))

/-- the non-empty processed lines, in order -/
def lasLines (b : Bytes) : List Bytes := ((splitNl b).map lasLine).filter (fun l => !l.isEmpty)

/-- group 1 of `RE_LAS_VERSION_LINE = ^\s*VERS\s*\.\s+([\d.]+)\s*:\s*(.+?)?\s*$` on a line without `\n` -/
def versGroup (l : Bytes) : Option Bytes :=
  let l := l.dropWhile isWs
  if l.take 4 != [86, 69, 82, 83] then none else
  match (l.drop 4).dropWhile isWs with
  | 46 :: r =>
    match r with
    | w :: _ =>
      if !isWs w then none else
      let r' := r.dropWhile isWs
      let d := r'.takeWhile isDigDot
      if d.isEmpty then none else
      match (r'.dropWhile isDigDot).dropWhile isWs with
      | 58 :: _ => some d
      | _ => none
    | [] => none
  | _ => none

def codeOfBytes (bs : Bytes) : String := String.ofList (bs.map Char.ofNat)

/-- `_las(fobj, version_prefix)` -/
def lasTest (pfx : Bytes) (b : Bytes) : String :=
  match lasLines b with
  | l0 :: l1 :: _ =>
    if l0.take 2 != [126, 86] then "" else
    match versGroup l1 with
    | some d => if d.take pfx.length == pfx then "LAS" ++ codeOfBytes pfx else ""
    | none => ""
  | _ => ""

def allPrintable (s : Bytes) : Bool := s.all (fun c => asciiPrintable.contains c)

/-- `_rp66v1_bytes(by)` -/
def rp66v1Bytes (b : Bytes) : String :=
  if b.length < 80 then ""
  else if !shapeMatch reV1_c1 (slice b 0 4) then ""
  else if !shapeMatch reV1_c2 (slice b 4 9) then ""
  else if !shapeMatch reV1_c3 (slice b 9 15) then ""
  else if !shapeMatch reV1_c4 (slice b 15 20) then ""
  else if (slice b 20 80).length != 60 then ""
  else if !allPrintable (slice b 20 80) then ""
  else "RP66V1"

/-- `_rp66v1_tif_general(by, tif_next)` -/
def rp66v1TifGeneral (b : Bytes) (tifNext : Nat) : String :=
  if tifNext != rp66v1LenWithTif then ""
  else
    let r := rp66v1Bytes (b.drop 12)
    if r != "" then
      match tifInitial b with
      | .tif => r ++ "t"
      | .tifr => r ++ "tr"
      | _ => r
    else ""

/-- `_rp66v1_tif`: `tif_next += by[i + 8] << i` for i = 0..3 (as coded) -/
def rp66v1TifTest (b : Bytes) : String :=
  let hd := b.take rp66v1LenWithTif
  if hd.length < rp66v1LenWithTif then ""
  else rp66v1TifGeneral hd (byteAt hd 8 + 2 * byteAt hd 9 + 4 * byteAt hd 10 + 8 * byteAt hd 11)

/-- `_rp66v1_tif_r`: `tif_next <<= i; tif_next += by[i + 8]` for i = 0..3 (as coded) -/
def rp66v1TifRTest (b : Bytes) : String :=
  let hd := b.take rp66v1LenWithTif
  if hd.length < rp66v1LenWithTif then ""
  else rp66v1TifGeneral hd (((byteAt hd 8 * 2 + byteAt hd 9) * 4 + byteAt hd 10) * 8 + byteAt hd 11)

/-- `_rp66v2` -/
def rp66v2Test (b : Bytes) : String :=
  let hd := b.take 128
  if hd.length < 128 then ""
  else if !shapeMatch reV2_c1 (slice hd 0 4) then ""
  else if !shapeMatch reV2_c2 (slice hd 4 9) then ""
  else if !shapeMatch reV2_c3 (slice hd 9 15) then ""
  else if !shapeMatch reV2_c4 (slice hd 15 19) then ""
  else if !shapeMatch reV2_c5 (slice hd 19 29) then ""
  else if !shapeMatch reV2_c6 (slice hd 29 39) then ""
  else if !shapeMatch reV2_c7 (slice hd 39 50) then ""
  else if slice hd 62 68 != [32, 32, 32, 32, 32, 32] then ""
  else if !allPrintable (slice hd 68 128) then ""
  else "RP66V2"

/-- `_dat`: the ASCII gate is modelled, the trial parse is the parameter -/
def datTest (datP : Bytes → Bool) (b : Bytes) : String :=
  if b.all (fun c => decide (c < 128)) then (if datP b then "DAT" else "") else ""

/-- `int(card[1:3]) == k` for two characters of `string.printable`: surrounding white space, one sign, digits -/
def pyInt2Eq (c1 c2 : Nat) (k : Nat) : Bool :=
  if isDigit c1 && isDigit c2 then (c1 - 48) * 10 + (c2 - 48) == k
  else if (isWs c1 || c1 == 43) && isDigit c2 then c2 - 48 == k
  else if isDigit c1 && isWs c2 then c1 - 48 == k
  else false       -- includes "-d" (never equals a card number >= 1) and every ValueError

def ebcdicDecode (c : Nat) : Option Nat := (ebcdicPrintable.find? (fun p => p.1 == c)).map (·.2)

/-- cards `i .. n-1` of the decoded header: `card[0] == 'C' and int(card[1:3]) == i + 1` -/
def segyCards (txt : Bytes) (w : Nat) : Nat → Nat → Bool
  | _, 0 => true
  | i, n + 1 =>
    let card := (txt.drop (i * w)).take w
    (card.getD 0 0 == 67 && pyInt2Eq (card.getD 1 0) (card.getD 2 0) (i + 1)) && segyCards txt w (i + 1) n

/-- `SEGY.is_segy` -/
def segyTest (b : Bytes) : String :=
  let n := segyNumCards * segyCardWidth
  let byt := b.take n
  if byt.length != n then ""
  else if !byt.all (fun c => (ebcdicDecode c).isSome) then ""
  else if segyCards (byt.map (fun c => (ebcdicDecode c).getD 0)) segyCardWidth 0 segyNumCards then "SEGY" else ""

/-- `_lis_ver` -/
def lisVerTest (sigs : List Bytes) (extra : Nat) (ret : String) (b : Bytes) : String :=
  if sigs.any (fun sig => (((b.take (sig.length + extra)).dropWhile isWs).take sig.length) == sig) then ret else ""

/-- `_ascii` -/
def asciiTest (n : Nat) (ret : String) (b : Bytes) : String :=
  if (b.take n).all (fun c => decide (c < 128)) then ret else ""

/-- one entry of `FUNCTION_ID_MAP` applied to a file -/
def runTest (lisT : Bytes → LisRes) (datP : Bytes → Bool) : TestKind → Bytes → String
  | .magic n sig ret, b => if b.take n == sig then ret else ""
  | .magicAny sigs ret, b => if sigs.any (fun sig => b.take sig.length == sig) then ret else ""
  | .bit t w k, b => bitTest t w k b
  | .las pfx, b => lasTest pfx b
  | .rp66v1, b => rp66v1Bytes (b.take 80)
  | .rp66v1Tif, b => rp66v1TifTest b
  | .rp66v1TifR, b => rp66v1TifRTest b
  | .rp66v2, b => rp66v2Test b
  | .dat, b => datTest datP b
  | .segy, b => segyTest b
  | .lisVer sigs extra ret, b => lisVerTest sigs extra ret b
  | .ascii n ret, b => asciiTest n ret b
  | .lis, b => (lisT b).code
  | .unknown, _ => ""

/-- the loop of `binary_file_type`: first non-empty result in table order -/
def firstMatch (lisT : Bytes → LisRes) (datP : Bytes → Bool) (b : Bytes) : List (String × TestKind × String) → String
  | [] => ""
  | (_, k, _) :: rest =>
    let r := runTest lisT datP k b
    if r != "" then r else firstMatch lisT datP b rest

/-- `binary_file_type(fobj)` for a file with content `b` -/
def identify (lisT : Bytes → LisRes) (datP : Bytes → Bool) (b : Bytes) : String :=
  firstMatch lisT datP b tests

/-- `is_lis_file_type` -/
def isLisFileType (code : String) : Bool := code == "LIS" || code == "LISt" || code == "LIStr"

end TD.C20
